(* Proofs/RenameP2.v — the rename stage on a tree: no step fails and the resulting tree is the
   original one with every key sent to its final path (file-system level lift of RenameP.v).
   Stdlib only, no axioms. *)
From Coq Require Import List Arith Lia Bool Permutation.
From RN Require Import Base.Bytes Model.Edits Model.Fs Model.ApplyModel Proofs.RenameP.
Import ListNotations.

(* the tree with every key sent to its final path *)
Definition mapF (L : list aren) (t : fs) : fs := map (fun e => (final_path L (fst e), snd e)) t.

Definition dirnode (n : node) : bool := match n with Dir _ => true | _ => false end.

(* the tree and the plan fit together *)
Record fs_ok (t : fs) (rs : list aren) : Prop := {
  (* every source exists, with the planned kind *)
  fo_src : forall r, In r rs -> exists n, lookup t (ar_path r) = Some n /\ dirnode n = ar_dir r;
  (* every (non-empty) proper prefix of a key is a directory of the tree *)
  fo_chain : forall k a b, In k (map fst t) -> k = a ++ b -> a <> [] -> b <> [] ->
                           exists m, lookup t a = Some (Dir m);
  (* every destination is free *)
  fo_dst : forall r, In r rs -> lookup t (ar_new r) = None
}.

(* ------------------------------------------------------------------------------------ *)
(* lookup                                                                              *)
(* ------------------------------------------------------------------------------------ *)

Lemma lookup_none t q : lookup t q = None <-> forall k, In k (map fst t) -> k <> q.
Proof.
  induction t as [|[k n] t IH]; cbn [lookup map fst In].
  - split; [intros _ k []|reflexivity].
  - destruct (path_eqb k q) eqn:E.
    + split; [discriminate|]. intro H. exfalso. apply (H k); [left; reflexivity|].
      apply path_eqb_eq. exact E.
    + rewrite IH. apply path_eqb_neq in E. split.
      * intros H k' [<- | I]; auto.
      * intros H k' I. apply H. right. exact I.
Qed.

Lemma lookup_some_in t q n : lookup t q = Some n -> In q (map fst t).
Proof.
  intro H. destruct (in_dec (list_eq_dec (list_eq_dec N.eq_dec)) q (map fst t)) as [I|I]; [exact I|].
  exfalso. assert (lookup t q = None); [|congruence].
  apply lookup_none. intros k Ik ->. contradiction.
Qed.

Lemma mapF_keys L t k' : In k' (map fst (mapF L t)) -> exists k, In k (map fst t) /\ k' = final_path L k.
Proof.
  unfold mapF. rewrite map_map. cbn [fst]. intro H. apply in_map_iff in H as [[k n] [E I]].
  cbn [fst] in E. exists k. split; [|auto]. apply in_map_iff. exists (k, n). auto.
Qed.

Lemma lookup_mapF L t q :
  (forall r, In r L -> shape r) ->
  (forall r1 r2, In r1 L -> In r2 L -> ar_new r1 = ar_new r2 -> ar_path r1 = ar_path r2) ->
  (forall k, In k (map fst t) -> avoids L k) -> avoids L q ->
  lookup (mapF L t) (final_path L q) = lookup t q.
Proof.
  intros S I K A. induction t as [|[k n] t IH]; [reflexivity|].
  cbn [mapF map lookup fst snd]. fold (mapF L t).
  assert (Kk : avoids L k) by (apply K; left; reflexivity).
  destruct (path_eqb k q) eqn:E.
  - apply path_eqb_eq in E. subst. rewrite path_eqb_refl. reflexivity.
  - assert (X : path_eqb (final_path L k) (final_path L q) = false).
    { apply path_eqb_neq. intro X. apply (final_path_inj_eq L S I) in X; [|exact Kk|exact A].
      apply path_eqb_neq in E. contradiction. }
    rewrite X. apply IH. intros k' H. apply K. right. exact H.
Qed.

(* ------------------------------------------------------------------------------------ *)
(* rename(2) onto a free name                                                          *)
(* ------------------------------------------------------------------------------------ *)

Lemma rename_fs_free src dst t :
  src <> [] -> dst <> [] -> lookup t src <> None -> is_dir t (parent dst) = true ->
  path_prefix src dst = false -> lookup t dst = None ->
  rename_fs src dst t = FOk (map (fun e => (rebase src dst (fst e), snd e)) t).
Proof.
  intros Hs Hd Hl Hp Hpre Hn. unfold rename_fs.
  destruct src as [|s0 src]; [contradiction|]. destruct dst as [|d0 dst]; [contradiction|].
  destruct (lookup t (s0 :: src)); [|contradiction]. rewrite Hp. cbn [negb].
  assert (E : path_eqb (s0 :: src) (d0 :: dst) = false).
  { destruct (path_eqb (s0 :: src) (d0 :: dst)) eqn:E; [|reflexivity].
    apply path_eqb_eq in E. rewrite E, path_prefix_refl in Hpre. discriminate. }
  rewrite E, Hpre, Hn. reflexivity.
Qed.

Lemma path_eqb_app_same x a b : path_eqb (x ++ a) (x ++ b) = path_eqb a b.
Proof. induction x as [|c x IH]; cbn [app path_eqb]; [reflexivity|]. rewrite beq_refl, IH. reflexivity. Qed.

Lemma case_only_snoc x y c n : case_only (x ++ [c]) (x ++ [n]) = case_only (y ++ [c]) (y ++ [n]).
Proof. unfold case_only. rewrite !map_app, !path_eqb_app_same. reflexivity. Qed.

Lemma remove_absent t p : lookup t p = None -> remove t p = t.
Proof.
  unfold remove. induction t as [|[k n] t IH]; cbn [lookup filter fst]; [reflexivity|].
  destruct (path_eqb k p); [discriminate|]. cbn [negb]. intro H. f_equal. apply IH. exact H.
Qed.

Lemma remove_cons_same p n t : remove ((p, n) :: t) p = remove t p.
Proof. unfold remove. cbn [filter fst]. rewrite path_eqb_refl. reflexivity. Qed.

(* the case-sensitivity probe: create then unlink a name that is free leaves the tree as it was *)
Lemma probe_roundtrip t p :
  is_dir t (parent p) = true -> lookup t p = None ->
  create_fs p t = FOk ((p, File 420 []) :: t) /\ unlink_fs p ((p, File 420 []) :: t) = FOk t.
Proof.
  intros D N. split.
  - unfold create_fs. rewrite D, N. reflexivity.
  - unfold unlink_fs. cbn [lookup]. rewrite path_eqb_refl, remove_cons_same, (remove_absent _ _ N).
    reflexivity.
Qed.

Lemma do_rename_ok from to st t' :
  (case_only from to = true ->
   is_dir (s_fs st) (parent (parent from ++ [probe_name])) = true /\
   lookup (s_fs st) (parent from ++ [probe_name]) = None) ->
  rename_fs from to (s_fs st) = FOk t' ->
  exists st', do_ops no_fault (rename_ops from to) st = inl st' /\ s_fs st' = t'.
Proof.
  intros P R. unfold rename_ops. destruct (case_only from to).
  - destruct (P eq_refl) as [D N]. destruct (probe_roundtrip _ _ D N) as [C U].
    cbn [app do_ops]. unfold do_op, no_fault. cbn [exec_mop s_fs s_n s_trace].
    rewrite C. cbn [s_fs s_n s_trace]. rewrite U. cbn [s_fs s_n s_trace]. rewrite R.
    eexists. split; reflexivity.
  - cbn [app do_ops]. unfold do_op, no_fault. cbn [exec_mop]. rewrite R.
    eexists. split; reflexivity.
Qed.

(* a name that is free in the tree and is no destination stays free while renames are performed *)
Lemma lookup_mapF_free L t s0 x :
  (forall r, In r L -> shape r) ->
  (forall r1 r2, In r1 L -> In r2 L -> ar_new r1 = ar_new r2 -> ar_path r1 = ar_path r2) ->
  (forall k, In k (map fst t) -> avoids L k) -> avoids L s0 ->
  lookup t (s0 ++ [x]) = None -> (forall r1, In r1 L -> ar_new r1 <> s0 ++ [x]) ->
  lookup (mapF L t) (final_path L s0 ++ [x]) = None.
Proof.
  intros S I K As0 Hfree Hnd.
  apply lookup_none. intros k' Ik' E. apply mapF_keys in Ik' as [k [Ik ->]].
  destruct (snoc_cases k) as [-> | [k0 [c' ->]]].
  { apply (f_equal (@length _)) in E. rewrite app_length in E. cbn in E. lia. }
  rewrite final_path_snoc in E. apply app_inj_tail in E as [Ea Eb].
  apply (final_path_inj_eq L S I) in Ea; [|eapply avoids_app_l; apply K; exact Ik|exact As0].
  subst k0. unfold nm in Eb.
  destruct (new_name_of L (s0 ++ [c'])) as [n'|] eqn:N.
  - subst n'. apply (new_name_dest L S) in N as [r1 [Ir1 [P1 D1]]]. apply (Hnd r1 Ir1). exact D1.
  - subst c'. apply (proj1 (lookup_none t (s0 ++ [x])) Hfree _ Ik). reflexivity.
Qed.

(* a directory of the original tree is a directory at its current location *)
Lemma is_dir_mapF L t s0 :
  (forall r, In r L -> shape r) ->
  (forall r1 r2, In r1 L -> In r2 L -> ar_new r1 = ar_new r2 -> ar_path r1 = ar_path r2) ->
  (forall k, In k (map fst t) -> avoids L k) -> avoids L s0 ->
  (s0 = [] \/ exists m, lookup t s0 = Some (Dir m)) ->
  is_dir (mapF L t) (final_path L s0) = true.
Proof.
  intros S I K As0 [-> | [m Hm]]; [reflexivity|].
  pose proof (lookup_mapF L t s0 S I K As0) as X. rewrite Hm in X.
  unfold is_dir. rewrite X. destruct (final_path L s0); reflexivity.
Qed.

(* the adjusted source and destination of the next rename still differ only in the last component *)
Lemma adjusted_ends L1 r : ok (L1 ++ [r]) ->
  exists s0 c n, ar_path r = s0 ++ [c] /\ ar_new r = s0 ++ [n] /\
                 final_path L1 (ar_path r) = final_path L1 s0 ++ [c] /\
                 final_path L1 (ar_new r) = final_path L1 s0 ++ [n].
Proof.
  intro O. destruct (ok_snoc_facts _ _ O) as [Hs [Hext [Hd Hav]]].
  destruct (shape_snoc r Hs) as [s0 [c [n [E1 [E2 _]]]]].
  exists s0, c, n. split; [exact E1|]. split; [exact E2|]. split.
  - rewrite E1, final_path_snoc. f_equal. f_equal. unfold nm.
    assert (N : new_name_of L1 (s0 ++ [c]) = None).
    { apply new_name_of_none. intros r1 I E. pose proof (Hext r1 I) as X.
      rewrite E, E1, path_prefix_refl in X. discriminate. }
    rewrite N. reflexivity.
  - rewrite E2, final_path_snoc. f_equal. f_equal. unfold nm.
    assert (N : new_name_of L1 (s0 ++ [n]) = None).
    { apply new_name_of_none. intros r1 I E. apply (Hd r1 I). congruence. }
    rewrite N. reflexivity.
Qed.

(* ------------------------------------------------------------------------------------ *)
(* One step on the tree                                                                *)
(* ------------------------------------------------------------------------------------ *)

Section FsStep.
  Variables (L1 : list aren) (r : aren) (t : fs).
  Hypothesis O : ok (L1 ++ [r]).
  Hypothesis Hkeys : forall k, In k (map fst t) -> avoids (L1 ++ [r]) k.
  Hypothesis Hsrc : lookup t (ar_path r) <> None.
  Hypothesis Hdst : lookup t (ar_new r) = None.
  Hypothesis Hchain : forall a b, ar_path r = a ++ b -> a <> [] -> b <> [] ->
                                  exists m, lookup t a = Some (Dir m).

  Lemma fs_step :
    rename_fs (final_path L1 (ar_path r)) (final_path L1 (ar_new r)) (mapF L1 t)
    = FOk (mapF (L1 ++ [r]) t).
  Proof.
    destruct (ok_snoc_facts _ _ O) as [Hs [Hext [Hd Hav]]].
    destruct (adjusted_ends _ _ O) as [s0 [c [n [E1 [E2 [Fs Fd]]]]]].
    pose proof (ok_base _ (ok_app_l _ _ O)) as [S1 _ I1 _].
    pose proof (ok_base _ O) as [_ _ I2 _].
    assert (K1 : forall k, In k (map fst t) -> avoids L1 k).
    { intros k H. eapply avoids_snoc_l. apply Hkeys. exact H. }
    assert (As0 : avoids L1 s0).
    { eapply avoids_app_l. rewrite <- E1. exact Hav. }
    assert (Hne : c <> n).
    { intros ->. rewrite E1 in Hsrc. rewrite E2 in Hdst. contradiction. }
    assert (Hs0 : s0 = [] \/ exists m, lookup t s0 = Some (Dir m)).
    { destruct s0 as [|c0 s0']; [left; reflexivity|right].
      apply (Hchain (c0 :: s0') [c] E1); discriminate. }
    rewrite rename_fs_free.
    - f_equal. unfold mapF. rewrite map_map. cbn [fst snd]. apply map_ext_in.
      intros [k m] Ik. cbn [fst snd]. f_equal. apply step_rebase; [exact O|].
      apply Hkeys. apply in_map_iff. exists (k, m). auto.
    - rewrite Fs. destruct (final_path L1 s0); discriminate.
    - rewrite Fd. destruct (final_path L1 s0); discriminate.
    - rewrite (lookup_mapF L1 t (ar_path r) S1 I1 K1 Hav). exact Hsrc.
    - rewrite Fd. unfold parent. rewrite removelast_last.
      apply (is_dir_mapF L1 t s0 S1 I1 K1 As0). exact Hs0.
    - destruct (path_prefix (final_path L1 (ar_path r)) (final_path L1 (ar_new r))) eqn:P; [|reflexivity].
      apply path_prefix_same_length in P.
      + rewrite Fs, Fd in P. apply app_inj_tail in P as [_ P]. contradiction.
      + rewrite !final_path_length. symmetry. apply Hs.
    - rewrite Fd. apply (lookup_mapF_free L1 t s0 n S1 I1 K1 As0).
      + rewrite <- E2. exact Hdst.
      + intros r1 Ir1 D1.
        assert (X : ar_path r1 = ar_path r).
        { apply I2; [apply in_or_app; left; exact Ir1 | apply in_or_app; right; left; reflexivity | congruence]. }
        pose proof (Hext r1 Ir1) as Y. rewrite X, path_prefix_refl in Y. discriminate.
  Qed.

  (* the probe of a case-only rename: its directory exists and its name is free *)
  Lemma fs_step_probe :
    lookup t (parent (ar_path r) ++ [probe_name]) = None ->
    (forall r1, In r1 L1 -> ar_new r1 <> parent (ar_path r) ++ [probe_name]) ->
    is_dir (mapF L1 t) (parent (parent (final_path L1 (ar_path r)) ++ [probe_name])) = true /\
    lookup (mapF L1 t) (parent (final_path L1 (ar_path r)) ++ [probe_name]) = None.
  Proof.
    intros Hfree Hnd.
    destruct (ok_snoc_facts _ _ O) as [Hs [Hext [Hd Hav]]].
    destruct (adjusted_ends _ _ O) as [s0 [c [n [E1 [E2 [Fs Fd]]]]]].
    pose proof (ok_base _ (ok_app_l _ _ O)) as [S1 _ I1 _].
    assert (K1 : forall k, In k (map fst t) -> avoids L1 k).
    { intros k H. eapply avoids_snoc_l. apply Hkeys. exact H. }
    assert (As0 : avoids L1 s0).
    { eapply avoids_app_l. rewrite <- E1. exact Hav. }
    assert (Hs0 : s0 = [] \/ exists m, lookup t s0 = Some (Dir m)).
    { destruct s0 as [|c0 s0']; [left; reflexivity|right].
      apply (Hchain (c0 :: s0') [c] E1); discriminate. }
    rewrite Fs. unfold parent in *. rewrite E1 in Hfree, Hnd. rewrite !removelast_last in *. split.
    - apply (is_dir_mapF L1 t s0 S1 I1 K1 As0). exact Hs0.
    - apply (lookup_mapF_free L1 t s0 probe_name S1 I1 K1 As0); assumption.
  Qed.
End FsStep.

(* ------------------------------------------------------------------------------------ *)
(* The stage on the tree, for any admissible processing order                          *)
(* ------------------------------------------------------------------------------------ *)

Lemma stage_perf_snoc L1 r : ok L1 ->
  stage_perf (L1 ++ [r]) [] = stage_perf L1 [] ++ [(ar_path r, final_path L1 (ar_new r))].
Proof.
  intro O. rewrite stage_perf_app. cbn [stage_perf]. destruct (stage_invariant _ O) as [IA _].
  rewrite IA. reflexivity.
Qed.

Lemma stage_steps_snoc L1 r : ok L1 ->
  stage_steps (L1 ++ [r]) [] = stage_steps L1 [] ++ [(final_path L1 (ar_path r), final_path L1 (ar_new r))].
Proof.
  intro O. rewrite stage_steps_app. cbn [stage_steps]. cbn zeta. destruct (stage_invariant _ O) as [IA _].
  rewrite !IA. reflexivity.
Qed.

Section FsStage.
  Variables (L : list aren) (t : fs).
  Hypothesis O : ok L.
  Hypothesis G1 : forall k, In k (map fst t) -> avoids L k.
  Hypothesis G2 : forall r, In r L -> lookup t (ar_path r) <> None.
  Hypothesis G3 : forall r, In r L -> lookup t (ar_new r) = None.
  Hypothesis G4 : forall r, In r L -> forall a b, ar_path r = a ++ b -> a <> [] -> b <> [] ->
                                   exists m, lookup t a = Some (Dir m).
  (* case-only renames probe the file system with a temporary name, which must be free *)
  Hypothesis G5 : forall r, In r L -> case_only (ar_path r) (ar_new r) = true ->
                    lookup t (parent (ar_path r) ++ [probe_name]) = None /\
                    forall r1, In r1 L -> ar_new r1 <> parent (ar_path r) ++ [probe_name].

  Lemma stage_fs_gen : forall L2 L1 st,
    L1 ++ L2 = L -> s_fs st = mapF L1 t ->
    exists s', rename_stage no_fault L2 (stage_perf L1 []) (stage_steps L1 []) st
               = inl (s', stage_perf L [], stage_steps L [])
               /\ s_fs s' = mapF L t.
  Proof.
    induction L2 as [|r L2 IH]; intros L1 st E Hst.
    - rewrite app_nil_r in E. subst L1. exists st. split; [reflexivity|exact Hst].
    - assert (E' : (L1 ++ [r]) ++ L2 = L) by (rewrite <- app_assoc; exact E).
      assert (O1 : ok (L1 ++ [r])) by (apply (ok_app_l _ L2); rewrite E'; exact O).
      assert (OL1 : ok L1) by (apply (ok_app_l _ [r]); exact O1).
      assert (Ir : In r L) by (rewrite <- E; apply in_or_app; right; left; reflexivity).
      assert (Sub : forall x, In x (L1 ++ [r]) -> In x L).
      { intros x H. rewrite <- E'. apply in_or_app. left. exact H. }
      cbn [rename_stage]. cbn zeta.
      destruct (stage_invariant _ OL1) as [IA _]. rewrite !IA.
      pose proof (fs_step L1 r t O1
                    (fun k H => avoids_sub _ _ _ Sub (G1 k H)) (G2 r Ir) (G3 r Ir) (G4 r Ir)) as F.
      rewrite <- Hst in F.
      assert (C : case_only (final_path L1 (ar_path r)) (final_path L1 (ar_new r)) = true ->
                  is_dir (s_fs st) (parent (parent (final_path L1 (ar_path r)) ++ [probe_name])) = true /\
                  lookup (s_fs st) (parent (final_path L1 (ar_path r)) ++ [probe_name]) = None).
      { intro C. rewrite Hst.
        assert (C' : case_only (ar_path r) (ar_new r) = true).
        { destruct (adjusted_ends _ _ O1) as [s0 [c [n [E1 [E2 [Fs Fd]]]]]].
          rewrite Fs, Fd, (case_only_snoc _ s0), <- E1, <- E2 in C. exact C. }
        destruct (G5 r Ir C') as [Hfree Hnd].
        apply (fs_step_probe L1 r t O1 (fun k H => avoids_sub _ _ _ Sub (G1 k H)) (G4 r Ir) Hfree).
        intros r1 Ir1. apply Hnd. apply Sub. apply in_or_app. left. exact Ir1. }
      destruct (do_rename_ok _ _ st _ C F) as [st' [D Hst']]. rewrite D.
      rewrite <- (stage_perf_snoc L1 r OL1), <- (stage_steps_snoc L1 r OL1).
      apply IH; [exact E'|exact Hst'].
  Qed.
End FsStage.

(* ------------------------------------------------------------------------------------ *)
(* From the tree conditions to the path-level conditions                               *)
(* ------------------------------------------------------------------------------------ *)

Section FromTree.
  Variables (rs : list aren) (t : fs).
  Hypothesis Hshape : forall r, In r rs -> shape r.
  Hypothesis Hnodup : NoDup (map ar_path rs).
  Hypothesis Hinj : forall r1 r2, In r1 rs -> In r2 rs -> ar_new r1 = ar_new r2 -> ar_path r1 = ar_path r2.
  Hypothesis Hfs : fs_ok t rs.

  (* a key of the tree is not at or below a (free) destination *)
  Lemma key_avoids k : In k (map fst t) -> avoids rs k.
  Proof.
    intros Ik r Ir _. destruct (path_prefix (ar_new r) k) eqn:P; [exfalso|reflexivity].
    apply path_prefix_spec in P as [b E].
    pose proof (fo_dst _ _ Hfs r Ir) as D.
    assert (Nd : ar_new r <> []).
    { destruct (Hshape r Ir) as [A [_ B]]. intro Z. rewrite Z in B. cbn in B.
      destruct (ar_path r); [contradiction|discriminate]. }
    destruct b as [|b0 b].
    - rewrite app_nil_r in E. subst k. apply (proj1 (lookup_none t (ar_new r)) D (ar_new r) Ik). reflexivity.
    - destruct (fo_chain _ _ Hfs k (ar_new r) (b0 :: b) Ik E Nd) as [m Hm]; [discriminate|]. congruence.
  Qed.

  Lemma tree_wf_renames : wf_renames rs.
  Proof.
    split; [split; auto|].
    - intros r1 r2 I1 I2 _. destruct (fo_src _ _ Hfs r2 I2) as [n [Hn _]].
      apply key_avoids; [|exact I1|]. eapply lookup_some_in; exact Hn.
      intro Z. pose proof (fo_dst _ _ Hfs r1 I1) as D. rewrite Z in D.
      destruct (fo_src _ _ Hfs r1 I1) as [n1 [Hn1 _]]. congruence.
    - intros r1 r2 I1 I2 P. apply proper_prefix_spec in P as [b [Nb E]].
      destruct (fo_src _ _ Hfs r2 I2) as [n [Hn _]].
      destruct (fo_chain _ _ Hfs (ar_path r2) (ar_path r1) b (lookup_some_in _ _ _ Hn) E) as [m Hm].
      + apply Hshape. exact I1.
      + exact Nb.
      + destruct (fo_src _ _ Hfs r1 I1) as [n1 [Hn1 K]]. rewrite Hm in Hn1. inversion Hn1; subst.
        symmetry. exact K.
  Qed.
End FromTree.

(* ------------------------------------------------------------------------------------ *)
(* Main theorem (file-system level)                                                    *)
(* ------------------------------------------------------------------------------------ *)

Theorem rename_stage_fs rs t :
  (forall r, In r rs -> shape r) ->
  NoDup (map ar_path rs) ->
  (forall r1 r2, In r1 rs -> In r2 rs -> ar_new r1 = ar_new r2 -> ar_path r1 = ar_path r2) ->
  fs_ok t rs ->
  (* a case-only rename probes with a temporary name next to its source: that name must be free
     and must not be a planned destination *)
  (forall r, In r rs -> case_only (ar_path r) (ar_new r) = true ->
     lookup t (parent (ar_path r) ++ [probe_name]) = None /\
     forall r1, In r1 rs -> ar_new r1 <> parent (ar_path r) ++ [probe_name]) ->
  exists s',
    rename_stage no_fault (sort_renames rs) [] [] {| s_fs := t; s_n := 0; s_trace := [] |}
    = inl (s', stage_perf (sort_renames rs) [], stage_steps (sort_renames rs) [])
    /\ s_fs s' = map (fun e => (final_path rs (fst e), snd e)) t
    /\ (forall q n, lookup t q = Some n -> lookup (s_fs s') (final_path rs q) = Some n)
    /\ (forall q, lookup t q = None -> avoids rs q -> lookup (s_fs s') (final_path rs q) = None).
Proof.
  intros Hshape Hnodup Hinj Hfs Hcase.
  pose proof (tree_wf_renames rs t Hshape Hnodup Hinj Hfs) as W.
  pose proof (wf_sorted_ok rs W) as O.
  assert (B : forall x, In x (sort_renames rs) -> In x rs).
  { intros x H. eapply Permutation_in; [apply sort_renames_perm|exact H]. }
  assert (K : forall k, In k (map fst t) -> avoids rs k).
  { apply key_avoids; assumption. }
  destruct (stage_fs_gen (sort_renames rs) t O) with
      (L2 := sort_renames rs) (L1 := @nil aren) (st := {| s_fs := t; s_n := 0; s_trace := [] |})
    as [s' [R Fs]].
  - intros k H. eapply avoids_sub; [exact B|]. apply K. exact H.
  - intros r I. destruct (fo_src _ _ Hfs r (B r I)) as [n [Hn _]]. congruence.
  - intros r I. apply (fo_dst _ _ Hfs). apply B. exact I.
  - intros r I a b E Na Nb. destruct (fo_src _ _ Hfs r (B r I)) as [n [Hn _]].
    apply (fo_chain _ _ Hfs (ar_path r) a b); auto. eapply lookup_some_in. exact Hn.
  - intros r I C. destruct (Hcase r (B r I) C) as [Hf Hn]. split; [exact Hf|].
    intros r1 I1. apply Hn. apply B. exact I1.
  - reflexivity.
  - cbn [s_fs]. unfold mapF. rewrite <- (map_id t) at 1. apply map_ext. intros [k n]. cbn [fst snd].
    rewrite final_path_no_renames. reflexivity.
  - exists s'. split; [exact R|].
    assert (Fs' : s_fs s' = mapF rs t).
    { rewrite Fs. unfold mapF. apply map_ext. intros [k n]. cbn [fst snd]. f_equal.
      symmetry. apply final_path_perm; [apply Permutation_sym, sort_renames_perm | exact Hnodup]. }
    split; [exact Fs'|]. split.
    + intros q n Hq. rewrite Fs', (lookup_mapF rs t q Hshape Hinj K); [exact Hq|].
      apply K. eapply lookup_some_in. exact Hq.
    + intros q Hq Aq. rewrite Fs', (lookup_mapF rs t q Hshape Hinj K Aq). exact Hq.
Qed.

(* the statement in the requested form: no step fails and no node is lost, when no rename is
   case-only (then no probe is issued at all) *)
Corollary rename_stage_fs_no_case_only rs t :
  (forall r, In r rs -> shape r) ->
  NoDup (map ar_path rs) ->
  (forall r1 r2, In r1 rs -> In r2 rs -> ar_new r1 = ar_new r2 -> ar_path r1 = ar_path r2) ->
  fs_ok t rs ->
  (forall r, In r rs -> case_only (ar_path r) (ar_new r) = false) ->
  exists s' perf exe,
    rename_stage no_fault (sort_renames rs) [] [] {| s_fs := t; s_n := 0; s_trace := [] |}
    = inl (s', perf, exe)
    /\ forall q n, lookup t q = Some n -> lookup (s_fs s') (final_path rs q) = Some n.
Proof.
  intros Hshape Hnodup Hinj Hfs Hcase.
  destruct (rename_stage_fs rs t Hshape Hnodup Hinj Hfs) as [s' [R [_ [H _]]]].
  - intros r I C. rewrite (Hcase r I) in C. discriminate.
  - exists s', (stage_perf (sort_renames rs) []), (stage_steps (sort_renames rs) []). auto.
Qed.

(* ------------------------------------------------------------------------------------ *)
(* The hypotheses are satisfiable: a -> A (dir), a/b -> a/B (dir), a/b/f -> a/b/F (file),   *)
(* x -> X (file), all four case-only, on a tree that also has a/b/g, a/c and y              *)
(* ------------------------------------------------------------------------------------ *)
Module Example1.
  Definition mk p n d := {| ar_path := p; ar_new := n; ar_dir := d |}.
  Definition a : name := [97]. Definition b : name := [98]. Definition c : name := [99].
  Definition f : name := [102]. Definition g : name := [103].
  Definition x : name := [120]. Definition y : name := [121].
  Definition A : name := [65]. Definition B : name := [66]. Definition F : name := [70].
  Definition X : name := [88].
  Definition rs1 := [mk [a;b;f] [a;b;F] false; mk [x] [X] false; mk [a;b] [a;B] true; mk [a] [A] true].
  Definition t1 : fs :=
    [([a], Dir 493); ([a;b], Dir 493); ([a;b;f], File 420 [1]); ([a;b;g], File 420 [2]);
     ([a;c], File 420 [3]); ([x], File 420 [4]); ([y], File 420 [5])].

  Ltac each_in H := cbn in H; repeat (destruct H as [<- | H]); try contradiction.

  Lemma ex_fs_ok : fs_ok t1 rs1.
  Proof.
    split.
    - intros r I. each_in I; eexists; split; vm_compute; reflexivity.
    - intros k p q I E Np Nq. each_in I;
        destruct p as [|p0 [|p1 [|p2 [|p3 p]]]]; try contradiction; cbn in E;
        inversion E; subst; try contradiction; eexists; vm_compute; reflexivity.
    - intros r I. each_in I; vm_compute; reflexivity.
  Qed.

  Lemma ex_shape : forall r, In r rs1 -> shape r.
  Proof. intros r I. each_in I; (split; [discriminate|split; reflexivity]). Qed.
  Lemma ex_nodup : NoDup (map ar_path rs1).
  Proof. repeat constructor; cbn; intuition discriminate. Qed.
  Lemma ex_inj : forall r1 r2, In r1 rs1 -> In r2 rs1 -> ar_new r1 = ar_new r2 -> ar_path r1 = ar_path r2.
  Proof. intros r1 r2 I1 I2. each_in I1; each_in I2; cbn; intro H; try reflexivity; discriminate. Qed.

  (* the path-level conditions hold as well *)
  Example ex_wf : wf_renames rs1.
  Proof. exact (tree_wf_renames rs1 t1 ex_shape ex_nodup ex_inj ex_fs_ok). Qed.

  Example ex_stage : exists s',
    rename_stage no_fault (sort_renames rs1) [] [] {| s_fs := t1; s_n := 0; s_trace := [] |}
    = inl (s', stage_perf (sort_renames rs1) [], stage_steps (sort_renames rs1) [])
    /\ s_fs s' = map (fun e => (final_path rs1 (fst e), snd e)) t1.
  Proof.
    destruct (rename_stage_fs rs1 t1) as [s' [R [E _]]].
    - exact ex_shape.
    - exact ex_nodup.
    - exact ex_inj.
    - exact ex_fs_ok.
    - intros r I _. split.
      + each_in I; vm_compute; reflexivity.
      + intros r1 I1. each_in I; each_in I1; cbn; discriminate.
    - exists s'. auto.
  Qed.
End Example1.
