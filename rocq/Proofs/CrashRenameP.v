(* Proofs/CrashRenameP.v — property C11 for plans WITH renames (and content edits): the tree that a kill
   before the k-th mutating operation of the fault-free run leaves behind ([crash_prefix p t k]) is, for
   EVERY k, the original tree with
     - the first i planned files (BTreeMap order) holding their complete planned content, the others their
       complete original content, modes unchanged,
     - every key moved by the first j executed renames ([stage_steps (sort_renames rs) []]),
     - plus at most ONE extra entry: the temp file of the file being edited (empty, or with the complete
       planned content) or the empty case-sensitivity probe of the case-only rename being performed,
   where j = 0 until the content stage is complete and i = all files from then on.
   Case-only renames are handled (the probe's two operations are part of the trace), no restriction.
   Stdlib only, no axioms. *)
From Coq Require Import List Arith Lia Bool NArith Sorted Permutation.
From RN Require Import Base.Bytes Model.Edits Model.Fs Model.ApplyModel
  Proofs.EditsP Proofs.RenameP Proofs.RenameP2 Proofs.Apply2P Proofs.ApplySpecP.
Import ListNotations.
Close Scope N_scope.

(* ==================================================================================== *)
(* 0. small facts                                                                         *)
(* ==================================================================================== *)

Lemma run_ops_app_exec a b t t1 : exec_all a t = Some t1 -> run_ops (a ++ b) t = run_ops b t1.
Proof.
  revert t; induction a as [|o a IH]; intros t H; cbn [app exec_all run_ops] in *.
  - inversion H. reflexivity.
  - destruct (exec_mop o t); [apply IH; exact H|discriminate].
Qed.

Lemma firstn_app_le {A} k (a b : list A) : k <= length a -> firstn k (a ++ b) = firstn k a.
Proof.
  intro H. rewrite firstn_app. replace (k - length a) with 0 by lia. cbn [firstn]. apply app_nil_r.
Qed.

Lemma firstn_app_ge {A} k (a b : list A) : length a <= k -> firstn k (a ++ b) = a ++ firstn (k - length a) b.
Proof. intro H. rewrite firstn_app, (firstn_all2 a) by exact H. reflexivity. Qed.

Lemma firstn_In_incl {A} n (l : list A) x : In x (firstn n l) -> In x l.
Proof.
  revert l; induction n as [|n IH]; intros [|a l]; cbn [firstn In]; try tauto. intros [H|H]; [left; exact H|right; apply IH; exact H].
Qed.

Lemma upd_nil q n : upd [] q n = n.
Proof. destruct n; reflexivity. Qed.

Lemma cmap_nil t : cmap [] t = t.
Proof.
  unfold cmap. rewrite <- (map_id t) at 2. apply map_ext. intros [k n]. cbn [fst snd]. rewrite upd_nil. reflexivity.
Qed.

Lemma lookup_map_fg (f : path -> path) (g : path -> node -> node) t q n :
  (forall k, In k (keys t) -> f k = f q -> k = q) -> lookup t q = Some n ->
  lookup (map (fun e => (f (fst e), g (fst e) (snd e))) t) (f q) = Some (g q n).
Proof.
  unfold keys. induction t as [|[k x] t IH]; intros Inj L; cbn [map lookup fst snd] in *; [discriminate|].
  destruct (path_eqb k q) eqn:E.
  - apply path_eqb_eq in E. subst k. rewrite path_eqb_refl. inversion L. reflexivity.
  - assert (X : path_eqb (f k) (f q) = false).
    { apply path_eqb_neq. intro Y. apply path_eqb_neq in E. apply E. apply Inj; [left; reflexivity|exact Y]. }
    rewrite X. apply IH; [|exact L]. intros k' I. apply Inj. right. exact I.
Qed.

Lemma lookup_app a b q : lookup (a ++ b) q = match lookup a q with Some n => Some n | None => lookup b q end.
Proof.
  induction a as [|[k n] a IH]; cbn [app lookup]; [reflexivity|]. destruct (path_eqb k q); [reflexivity|exact IH].
Qed.

Lemma not_key_lookup t q : ~ In q (keys t) -> lookup t q = None.
Proof. intro N. apply lookup_none. intros k I ->. exact (N I). Qed.

Lemma lookup_none_not_key t q : lookup t q = None -> ~ In q (keys t).
Proof. intros L I. exact (proj1 (lookup_none t q) L q I eq_refl). Qed.

(* the complete planned content of a file *)
Definition planned (c : bytes) (es : list edit) : bytes := spec_splice c (sort_edits es).

(* ==================================================================================== *)
(* 1. the content stage, operation by operation                                           *)
(* ==================================================================================== *)

(* the operations issued for one planned file: they only depend on what the ORIGINAL tree holds at the
   file (the files are pairwise distinct and an edit only replaces its own file) *)
Definition file_ops (t : fs) (fe : path * list edit) : list mop :=
  match lookup t (fst fe) with
  | Some (File m c) => content_ops (fst fe) m (planned c (snd fe))
  | _ => []
  end.
Definition content_trace_of (files : list (path * list edit)) (t : fs) : list mop := flat_map (file_ops t) files.

(* what may sit at the temp name of the file that is being edited: the temp file is created empty with
   mode 0644, receives the complete planned content in one write, then the original mode *)
Inductive tmp_state (files : list (path * list edit)) (t0 : fs) (i : nat) : fs -> Prop :=
| ts_none : tmp_state files t0 i []
| ts_tmp f es m c x :
    nth_error files i = Some (f, es) -> lookup t0 f = Some (File m c) ->
    x = File 420%N [] \/ x = File 420%N (planned c es) \/ x = File m (planned c es) ->
    tmp_state files t0 i [(tmp_of f, x)].

(* the trees of the content stage: the first [i] files done, plus possibly the temp file of file [i] *)
Definition PC (files : list (path * list edit)) (t0 : fs) (T : fs) : Prop :=
  exists i extra, i <= length files /\ tmp_state files t0 i extra /\
                  Permutation T (extra ++ cmap (firstn i files) t0).

Section OneFileExact.
  Variables (q : path) (m : N) (c : bytes) (t : fs).
  Hypothesis Hq : lookup t q = Some (File m c).
  Hypothesis Hfree : free_at t (tmp_of q).
  Hypothesis Hpar : is_dir t (parent q) = true.

  (* [content_ops_inv_run] of Apply2P with the exact temp nodes *)
  Lemma content_ops_inv_exact (P : fs -> Prop) new :
    P t -> P ((tmp_of q, File 420%N []) :: t) -> P ((tmp_of q, File 420%N new) :: t) ->
    P ((tmp_of q, File m new) :: t) -> P ((q, File m new) :: remove t q) ->
    inv_run P (content_ops q m new) t.
  Proof.
    intros P0 P1 P2 P3 P4. unfold content_ops. destruct new as [|b new]; cbn [app inv_run].
    - rewrite (of_step_create q t Hfree Hpar), (of_step_chmod q m t Hfree),
        (of_step_rename q m c t Hq Hfree Hpar). repeat split; auto.
    - rewrite (of_step_create q t Hfree Hpar), (of_step_write q t Hfree),
        (of_step_chmod q m t Hfree), (of_step_rename q m c t Hq Hfree Hpar). repeat split; auto.
  Qed.
End OneFileExact.

Lemma cmap_step t p es m c fl :
  NoDup (keys t) -> lookup t p = Some (File m c) -> ~ In p (map fst fl) ->
  Permutation (cmap fl ((p, File m (planned c es)) :: remove t p)) (cmap ((p, es) :: fl) t).
Proof.
  intros NDt L Np.
  eapply perm_trans; [|apply Permutation_sym; unfold cmap; apply Permutation_map; apply (perm_extract t p _ NDt L)].
  unfold cmap. cbn [map fst snd].
  assert (X1 : upd fl p (File m (planned c es)) = File m (planned c es)).
  { cbn [upd]. rewrite (find_key_none fl p Np). reflexivity. }
  assert (X2 : upd ((p, es) :: fl) p (File m c) = File m (planned c es)).
  { cbn [upd find fst]. rewrite path_eqb_refl. reflexivity. }
  rewrite X1, X2. apply perm_skip.
  replace (map (fun e => (fst e, upd ((p, es) :: fl) (fst e) (snd e))) (remove t p))
    with (map (fun e => (fst e, upd fl (fst e) (snd e))) (remove t p)); [apply Permutation_refl|].
  apply map_ext_in. intros [k n] I. cbn [fst snd]. f_equal.
  assert (Nk : k <> p).
  { apply (remove_key_neq t p). apply in_map_iff. exists (k, n). auto. }
  destruct n as [m' c'| |]; cbn [upd find fst]; try reflexivity.
  assert (Z : path_eqb p k = false) by (apply path_eqb_neq; congruence). rewrite Z. reflexivity.
Qed.

Lemma content_stage_crash : forall files s,
  NoDup (map fst files) -> NoDup (keys (s_fs s)) ->
  (forall f es, In (f, es) files -> file_ok (s_fs s) f es) ->
  exists s', content_stage no_fault files s = inl s' /\
             s_trace s' = rev (content_trace_of files (s_fs s)) ++ s_trace s /\
             exec_all (content_trace_of files (s_fs s)) (s_fs s) = Some (s_fs s') /\
             Permutation (s_fs s') (cmap files (s_fs s)) /\
             inv_run (PC files (s_fs s)) (content_trace_of files (s_fs s)) (s_fs s).
Proof.
  induction files as [|[p es] files IH]; intros s NDf NDt OK; cbn [content_stage].
  - exists s. cbn [content_trace_of flat_map rev app exec_all inv_run]. repeat split; auto.
    + rewrite cmap_nil. apply Permutation_refl.
    + exists 0, []. split; [cbn; lia|]. split; [constructor|]. cbn [firstn app]. rewrite cmap_nil. apply Permutation_refl.
  - inversion NDf as [|? ? Np NDf']; subst.
    destruct (OK p es (or_introl eq_refl)) as (m & c & L & U & W & F & D).
    set (t := s_fs s) in *. set (new := planned c es).
    unfold edit_file. fold t. rewrite L, U. cbn [negb]. rewrite (wf_sorted_apply c es U W). fold (planned c es). fold new.
    pose proof (content_ops_exec p m c t L F D new) as X.
    destruct (exec_all_do_ops _ s _ X) as (s1 & D1 & E1). rewrite D1.
    apply do_ops_no_fault in D1 as [_ T1].
    assert (Kp : In p (keys t)) by (eapply lookup_some_in; exact L).
    assert (K1 : forall k, In k (map fst (s_fs s1)) -> In k (map fst t)).
    { rewrite E1. cbn [map fst]. intros k [<-|I]; [exact Kp|]. eapply remove_keys; exact I. }
    assert (ND1 : NoDup (keys (s_fs s1))).
    { rewrite E1. unfold keys. cbn [map fst]. constructor; [|apply keys_remove_nodup; exact NDt].
      intro I. exact (remove_key_neq _ _ _ I eq_refl). }
    assert (Lneq : forall q, q <> p -> lookup (s_fs s1) q = lookup t q).
    { intros q N. rewrite E1, lookup_cons_neq by congruence. apply lookup_remove_neq. exact N. }
    assert (Nin : forall f es', In (f, es') files -> f <> p).
    { intros f es' I ->. apply Np. apply in_map_iff. exists (p, es'). auto. }
    destruct (IH s1 NDf' ND1) as (s' & C & Tr & Ex & P & Inv).
    { intros f es' I. destruct (OK f es' (or_intror I)) as (m' & c' & L' & U' & W' & F' & D').
      pose proof (Nin f es' I) as Nf.
      exists m', c'. split; [rewrite Lneq by exact Nf; exact L'|]. split; [exact U'|]. split; [exact W'|].
      split; [eapply free_at_sub; [exact K1|exact F']|].
      unfold is_dir in *. destruct (parent f) as [|a0 a'] eqn:Ep; [reflexivity|]. rewrite <- Ep in *.
      destruct (path_dec (parent f) p) as [Epp|Npp].
      - rewrite Epp, L in D'. discriminate.
      - rewrite Lneq by exact Npp. exact D'. }
    (* the operations of the remaining files are the same on [s_fs s1] and on [t] *)
    assert (Same : content_trace_of files (s_fs s1) = content_trace_of files t).
    { unfold content_trace_of. rewrite !flat_map_concat_map. f_equal. apply map_ext_in. intros [f es'] I.
      unfold file_ops. cbn [fst snd]. rewrite Lneq by (eapply Nin; exact I). reflexivity. }
    assert (Here : content_trace_of ((p, es) :: files) t = content_ops p m new ++ content_trace_of files t).
    { unfold content_trace_of. cbn [flat_map]. unfold file_ops at 1. cbn [fst snd]. rewrite L. reflexivity. }
    rewrite Same in *. rewrite Here.
    exists s'. split; [exact C|]. split; [|split; [|split]].
    + rewrite Tr, T1, rev_app_distr, app_assoc. reflexivity.
    + rewrite exec_all_app, X, <- E1. exact Ex.
    + eapply perm_trans; [exact P|]. rewrite E1. apply cmap_step; assumption.
    + eapply inv_run_app; [|exact X|].
      * (* during the operations of [p] *)
        assert (Tmp : forall x, x = File 420%N [] \/ x = File 420%N new \/ x = File m new ->
                                PC ((p, es) :: files) t ((tmp_of p, x) :: t)).
        { intros x Hx. exists 0, [(tmp_of p, x)]. split; [cbn; lia|]. split.
          - eapply ts_tmp; [reflexivity|exact L|exact Hx].
          - cbn [firstn app]. rewrite cmap_nil. apply Permutation_refl. }
        apply (content_ops_inv_exact p m c t L F D).
        -- exists 0, []. split; [cbn; lia|]. split; [constructor|]. cbn [firstn app]. rewrite cmap_nil. apply Permutation_refl.
        -- apply Tmp. auto.
        -- apply Tmp. auto.
        -- apply Tmp. auto.
        -- exists 1, []. split; [cbn; lia|]. split; [constructor|]. cbn [firstn app].
           rewrite <- (cmap_nil ((p, File m new) :: remove t p)).
           apply (cmap_step t p es m c [] NDt L). intros [].
      * (* afterwards *)
        rewrite <- E1. eapply inv_run_impl; [|exact Inv].
        intros T (i & extra & Hi & Ts & Pm). exists (S i), extra. split; [cbn [length]; lia|]. split.
        -- destruct Ts as [|f es' m' c' x Hn Hl Hx]; [constructor|].
           eapply ts_tmp; [exact Hn| |exact Hx]. rewrite <- Hl. symmetry. apply Lneq.
           apply nth_error_In in Hn. eapply Nin; exact Hn.
        -- eapply perm_trans; [exact Pm|]. apply Permutation_app_head. cbn [firstn]. rewrite E1.
           apply cmap_step; [exact NDt|exact L|].
           intro I. apply Np. apply in_map_iff in I as [[f es'] [Ef If]]. cbn [fst] in Ef. subst f.
           apply in_map_iff. exists (p, es'). split; [reflexivity|]. eapply firstn_In_incl; exact If.
Qed.

(* ==================================================================================== *)
(* 2. the rename stage, operation by operation                                            *)
(* ==================================================================================== *)

Definition step_ops (st : path * path) : list mop := rename_ops (fst st) (snd st).
Definition rename_trace_of (steps : list (path * path)) : list mop := flat_map step_ops steps.

Lemma stage_steps_length L : forall perf, length (stage_steps L perf) = length L.
Proof. induction L as [|r L IH]; intro perf; cbn [stage_steps length]; [reflexivity|]. rewrite IH. reflexivity. Qed.

(* the operations of one rename: the states in between are the tree itself, the tree plus the empty probe
   file (case-only renames only), the tree itself again, the renamed tree *)
Lemma rename_ops_inv (P : fs -> Prop) from to T0 T1 :
  rename_fs from to T0 = FOk T1 ->
  (case_only from to = true ->
   is_dir T0 (parent (parent from ++ [probe_name])) = true /\ lookup T0 (parent from ++ [probe_name]) = None) ->
  P T0 -> (case_only from to = true -> P ((parent from ++ [probe_name], File 420%N []) :: T0)) -> P T1 ->
  inv_run P (rename_ops from to) T0 /\ exec_all (rename_ops from to) T0 = Some T1.
Proof.
  intros R Pr P0 P1 P2. unfold rename_ops. destruct (case_only from to).
  - destruct (Pr eq_refl) as [D N]. destruct (probe_roundtrip _ _ D N) as [C U].
    cbn [app inv_run exec_all exec_mop]. rewrite C. cbn [inv_run exec_all exec_mop]. rewrite U.
    cbn [inv_run exec_all exec_mop]. rewrite R. cbn [inv_run exec_all]. repeat split; auto.
  - cbn [app inv_run exec_all exec_mop]. rewrite R. cbn [inv_run exec_all]. repeat split; auto.
Qed.

Section FsStageCrash.
  Variables (L : list aren) (t : fs).
  Hypothesis O : ok L.
  Hypothesis G1 : forall k, In k (map fst t) -> avoids L k.
  Hypothesis G2 : forall r, In r L -> lookup t (ar_path r) <> None.
  Hypothesis G3 : forall r, In r L -> lookup t (ar_new r) = None.
  Hypothesis G4 : forall r, In r L -> forall a b, ar_path r = a ++ b -> a <> [] -> b <> [] ->
                                   exists m, lookup t a = Some (Dir m).
  Hypothesis G5 : forall r, In r L -> case_only (ar_path r) (ar_new r) = true ->
                    lookup t (parent (ar_path r) ++ [probe_name]) = None /\
                    forall r1, In r1 L -> ar_new r1 <> parent (ar_path r) ++ [probe_name].

  (* the probe of the j-th executed rename, when that rename is case-only *)
  Inductive probe_state (j : nat) : fs -> Prop :=
  | ps_none : probe_state j []
  | ps_probe from to :
      nth_error (stage_steps L []) j = Some (from, to) -> case_only from to = true ->
      lookup (mapF (firstn j L) t) (parent from ++ [probe_name]) = None ->
      probe_state j [(parent from ++ [probe_name], File 420%N [])].

  (* the trees of the rename stage: the first [j] renames done, plus possibly the probe of rename [j] *)
  Definition PR (T : fs) : Prop :=
    exists j extra, j <= length L /\ probe_state j extra /\ T = extra ++ mapF (firstn j L) t.

  Lemma stage_fs_crash : forall L2 L1 st,
    L1 ++ L2 = L -> s_fs st = mapF L1 t ->
    exists s', rename_stage no_fault L2 (stage_perf L1 []) (stage_steps L1 []) st
               = inl (s', stage_perf L [], stage_steps L []) /\
               s_fs s' = mapF L t /\
               s_trace s' = rev (rename_trace_of (stage_steps L2 (stage_perf L1 []))) ++ s_trace st /\
               exec_all (rename_trace_of (stage_steps L2 (stage_perf L1 []))) (s_fs st) = Some (s_fs s') /\
               inv_run PR (rename_trace_of (stage_steps L2 (stage_perf L1 []))) (s_fs st).
  Proof.
    induction L2 as [|r L2 IH]; intros L1 st E Hst.
    - rewrite app_nil_r in E. subst L1. exists st. cbn [rename_stage stage_steps rename_trace_of flat_map rev app exec_all inv_run].
      repeat split; auto. exists (length L), []. split; [lia|]. split; [constructor|].
      rewrite firstn_all. exact Hst.
    - assert (E' : (L1 ++ [r]) ++ L2 = L) by (rewrite <- app_assoc; exact E).
      assert (O1 : ok (L1 ++ [r])) by (apply (ok_app_l _ L2); rewrite E'; exact O).
      assert (OL1 : ok L1) by (apply (ok_app_l _ [r]); exact O1).
      assert (Ir : In r L) by (rewrite <- E; apply in_or_app; right; left; reflexivity).
      assert (Sub : forall x, In x (L1 ++ [r]) -> In x L).
      { intros x H. rewrite <- E'. apply in_or_app. left. exact H. }
      cbn [rename_stage stage_steps]. cbn zeta.
      destruct (stage_invariant _ OL1) as [IA _]. rewrite !IA.
      set (from := final_path L1 (ar_path r)). set (to := final_path L1 (ar_new r)).
      pose proof (fs_step L1 r t O1
                    (fun k H => avoids_sub _ _ _ Sub (G1 k H)) (G2 r Ir) (G3 r Ir) (G4 r Ir)) as F.
      fold from to in F. rewrite <- Hst in F.
      assert (C : case_only from to = true ->
                  is_dir (s_fs st) (parent (parent from ++ [probe_name])) = true /\
                  lookup (s_fs st) (parent from ++ [probe_name]) = None).
      { intro C. rewrite Hst.
        assert (C' : case_only (ar_path r) (ar_new r) = true).
        { destruct (adjusted_ends _ _ O1) as [s0 [c [n [E1 [E2 [Fs Fd]]]]]]. unfold from, to in C.
          rewrite Fs, Fd, (case_only_snoc _ s0), <- E1, <- E2 in C. exact C. }
        destruct (G5 r Ir C') as [Hfree Hnd].
        apply (fs_step_probe L1 r t O1 (fun k H => avoids_sub _ _ _ Sub (G1 k H)) (G4 r Ir) Hfree).
        intros r1 Ir1. apply Hnd. apply Sub. apply in_or_app. left. exact Ir1. }
      assert (Len1 : length L1 <= length L) by (rewrite <- E, app_length; lia).
      assert (Fn1 : firstn (length L1) L = L1) by (rewrite <- E; apply firstn_app_len).
      assert (Fn2 : firstn (S (length L1)) L = L1 ++ [r]).
      { rewrite <- E'. replace (S (length L1)) with (length (L1 ++ [r])) by (rewrite app_length; cbn; lia).
        apply firstn_app_len. }
      assert (Nth : nth_error (stage_steps L []) (length L1) = Some (from, to)).
      { rewrite <- E, stage_steps_app, nth_error_app2 by (rewrite stage_steps_length; lia).
        rewrite stage_steps_length, Nat.sub_diag. cbn [stage_steps nth_error]. cbn zeta. rewrite !IA. reflexivity. }
      destruct (rename_ops_inv PR from to (s_fs st) (mapF (L1 ++ [r]) t) F C) as [Inv1 Ex1].
      { exists (length L1), []. split; [exact Len1|]. split; [constructor|]. rewrite Fn1. exact Hst. }
      { intro Cs. exists (length L1), [(parent from ++ [probe_name], File 420%N [])]. split; [exact Len1|]. split.
        - apply (ps_probe _ from to Nth Cs). rewrite Fn1, <- Hst. exact (proj2 (C Cs)).
        - rewrite Fn1, Hst. reflexivity. }
      { exists (S (length L1)), []. split; [rewrite <- E, app_length; cbn; lia|]. split; [constructor|].
        rewrite Fn2. reflexivity. }
      destruct (exec_all_do_ops _ st _ Ex1) as (st' & D & Hst'). rewrite D.
      apply do_ops_no_fault in D as [_ Tr1].
      subst from to.
      rewrite <- (stage_perf_snoc L1 r OL1), <- (stage_steps_snoc L1 r OL1).
      destruct (IH (L1 ++ [r]) st' E' Hst') as (s' & R & Fs & Tr & Ex & Inv).
      exists s'. split; [exact R|]. split; [exact Fs|].
      cbn [rename_trace_of flat_map]. fold (rename_trace_of (stage_steps L2 (stage_perf (L1 ++ [r]) []))).
      change (step_ops (final_path L1 (ar_path r), final_path L1 (ar_new r)))
        with (rename_ops (final_path L1 (ar_path r)) (final_path L1 (ar_new r))).
      split; [|split].
      + rewrite Tr, Tr1, rev_app_distr, app_assoc. reflexivity.
      + rewrite exec_all_app, Ex1, <- Hst'. exact Ex.
      + eapply inv_run_app; [exact Inv1|exact Ex1|]. rewrite <- Hst'. exact Inv.
  Qed.
End FsStageCrash.

(* ==================================================================================== *)
(* 3. the vocabulary of the statement                                                     *)
(* ==================================================================================== *)

Definition files_of (p : aplan) : list (path * list edit) := edits_by_file (ap_hunks p).
Definition sorted_of (p : aplan) : list aren := sort_renames (ap_renames p).
(* the executed rename sequence *)
Definition steps_of (p : aplan) : list (path * path) := stage_steps (sorted_of p) [].

(* the operation sequence of the fault-free run: the content stage, then the rename stage *)
Definition content_trace (p : aplan) (t : fs) : list mop := content_trace_of (files_of p) t.
Definition rename_trace (p : aplan) : list mop := rename_trace_of (steps_of p).
Definition content_len (p : aplan) (t : fs) : nat := length (content_trace p t).

(* where the original path [q] is after the first [j] executed renames *)
Definition loc (p : aplan) (j : nat) (q : path) : path := run_steps (firstn j (steps_of p)) q.
(* what the original node [n] of [q] looks like when the first [i] planned files have been rewritten *)
Definition content_at (p : aplan) (i : nat) (q : path) (n : node) : node := upd (firstn i (files_of p)) q n.
(* the original tree, [i] files rewritten, [j] renames performed *)
Definition view (p : aplan) (t : fs) (i j : nat) : fs :=
  map (fun e => (loc p j (fst e), content_at p i (fst e) (snd e))) t.

(* the only entries that are not nodes of the original tree: at most one, and exactly this *)
Inductive extra_ok (p : aplan) (t : fs) (i j : nat) : fs -> Prop :=
| ex_none : extra_ok p t i j []
| ex_tmp f es m c x :
    (* the temp file of the file being edited (content stage, no rename performed yet): empty with mode
       0644, or the COMPLETE planned content with mode 0644, or the complete planned content with the
       file's mode *)
    j = 0 -> nth_error (files_of p) i = Some (f, es) -> lookup t f = Some (File m c) ->
    x = File 420%N [] \/ x = File 420%N (planned c es) \/ x = File m (planned c es) ->
    extra_ok p t i j [(tmp_of f, x)]
| ex_probe from to :
    (* the empty case-sensitivity probe next to the source of the case-only rename being performed *)
    i = length (files_of p) -> nth_error (steps_of p) j = Some (from, to) -> case_only from to = true ->
    extra_ok p t i j [(parent from ++ [probe_name], File 420%N [])].

Definition crash_shape (p : aplan) (t : fs) (i j : nat) (extra T : fs) : Prop :=
  extra_ok p t i j extra /\ Permutation T (extra ++ view p t i j) /\ NoDup (keys T).

(* ==================================================================================== *)
(* 4. paths: a prefix of the executed renames is the run of a prefix of the sorted plan    *)
(* ==================================================================================== *)

Lemma firstn_stage_steps L j : firstn j (stage_steps L []) = stage_steps (firstn j L) [].
Proof.
  destruct (le_lt_dec j (length L)) as [H|H].
  - rewrite <- (firstn_skipn j L) at 1. rewrite stage_steps_app.
    assert (Len : length (stage_steps (firstn j L) []) = j) by (rewrite stage_steps_length, firstn_length; lia).
    rewrite <- Len at 1. apply firstn_app_len.
  - rewrite !firstn_all2; [reflexivity|lia|rewrite stage_steps_length; lia].
Qed.

Lemma ok_firstn L j : ok L -> ok (firstn j L).
Proof. intro O. apply (ok_app_l _ (skipn j L)). rewrite firstn_skipn. exact O. Qed.

Lemma run_firstn_final L j q :
  ok L -> avoids L q -> run_steps (firstn j (stage_steps L [])) q = final_path (firstn j L) q.
Proof.
  intros O A. rewrite firstn_stage_steps. apply stage_invariant; [apply ok_firstn; exact O|].
  eapply avoids_sub; [|exact A]. intros x I. eapply firstn_In_incl. exact I.
Qed.

(* ==================================================================================== *)
(* 5. the composition                                                                     *)
(* ==================================================================================== *)

Section Crash.
  Variables (p : aplan) (t : fs).
  Hypothesis W : plan_ok p t.

  Let hs := ap_hunks p.
  Let rs := ap_renames p.
  Let files := files_of p.
  Let L := sorted_of p.
  Let s0 := {| s_fs := t; s_n := 0; s_trace := [] |}.

  Lemma cr_ok : ok L.
  Proof.
    apply wf_sorted_ok.
    exact (tree_wf_renames rs t (po_shape _ _ W) (po_src_nodup _ _ W) (po_dst_inj _ _ W) (po_fs _ _ W)).
  Qed.

  Lemma cr_sub x : In x L -> In x rs.
  Proof. intro H. eapply Permutation_in; [apply sort_renames_perm|exact H]. Qed.

  Lemma cr_key_avoids k : In k (keys t) -> avoids L k.
  Proof.
    intro I. eapply avoids_sub; [exact cr_sub|].
    exact (key_avoids rs t (po_shape _ _ W) (po_fs _ _ W) k I).
  Qed.

  Lemma cr_len : length L = length rs.
  Proof. apply Permutation_length, sort_renames_perm. Qed.

  (* both stages run to the end, and every intermediate tree is of the announced form *)
  Lemma cr_run : exists s1 s2,
    content_stage no_fault files s0 = inl s1 /\
    rename_stage no_fault L [] [] s1 = inl (s2, stage_perf L [], stage_steps L []) /\
    s_trace s1 = rev (content_trace p t) /\
    exec_all (content_trace p t) t = Some (s_fs s1) /\
    Permutation (s_fs s1) (cmap files t) /\
    inv_run (PC files t) (content_trace p t) t /\
    s_fs s2 = mapF L (s_fs s1) /\
    s_trace s2 = rev (rename_trace p) ++ s_trace s1 /\
    exec_all (rename_trace p) (s_fs s1) = Some (s_fs s2) /\
    inv_run (PR L (s_fs s1)) (rename_trace p) (s_fs s1).
  Proof.
    destruct (content_stage_crash files s0 (edits_by_file_nodup hs) (po_nodup _ _ W))
      as (s1 & C & Tr1 & Ex1 & P & Inv1).
    { intros f es I. apply (co_files_ok p t W). exact I. }
    cbn [s_fs s_trace s0] in *. rewrite app_nil_r in Tr1. exists s1.
    pose proof (po_fs _ _ W) as Hfs. fold rs in Hfs.
    pose proof (po_shape _ _ W) as Hshape. pose proof (po_src_nodup _ _ W) as Hnodup.
    pose proof (po_dst_inj _ _ W) as Hinj. fold rs in Hshape, Hnodup, Hinj.
    assert (Lk : forall q, lookup (s_fs s1) q = option_map (upd files q) (lookup t q)).
    { intro q. rewrite <- (lookup_perm _ _ q (Permutation_sym P)).
      - apply (lookup_map_val (upd files)).
      - rewrite keys_cmap. exact (po_nodup _ _ W). }
    assert (Kk : forall k, In k (map fst (s_fs s1)) -> In k (map fst t)).
    { intros k I. apply (Permutation_in _ (Permutation_map fst P)) in I.
      fold (keys (cmap files t)) in I. rewrite keys_cmap in I. exact I. }
    destruct (stage_fs_crash L (s_fs s1) cr_ok) with (L2 := L) (L1 := @nil aren) (st := s1)
      as (s2 & R & Fs & Tr2 & Ex2 & Inv2).
    - intros k H. apply cr_key_avoids, Kk, H.
    - intros r I. destruct (fo_src _ _ Hfs r (cr_sub r I)) as [n [Hn _]]. rewrite Lk, Hn. discriminate.
    - intros r I. rewrite Lk, (fo_dst _ _ Hfs r (cr_sub r I)). reflexivity.
    - intros r I a b E Na Nb. destruct (fo_src _ _ Hfs r (cr_sub r I)) as [n [Hn _]].
      destruct (fo_chain _ _ Hfs (ar_path r) a b (lookup_some_in _ _ _ Hn) E Na Nb) as [m Hm].
      exists m. rewrite Lk, Hm. reflexivity.
    - intros r I Cs. destruct (po_probe _ _ W r (cr_sub r I) Cs) as [Hf Hn]. split.
      + rewrite Lk, Hf. reflexivity.
      + intros r1 I1. apply Hn. apply cr_sub. exact I1.
    - reflexivity.
    - rewrite mapF_nil. reflexivity.
    - cbn [stage_perf stage_steps] in R, Tr2, Ex2, Inv2.
      exists s2. repeat split; assumption.
  Qed.

  (* the operation sequence of the run, and its result *)
  Theorem trace_shape :
    r_trace (apply_core no_fault p t) = content_trace p t ++ rename_trace p /\
    exec_all (content_trace p t ++ rename_trace p) t = Some (r_fs (apply_core no_fault p t)).
  Proof.
    destruct cr_run as (s1 & s2 & C & R & Tr1 & Ex1 & _ & _ & _ & Tr2 & Ex2 & _).
    pose proof (po_fs _ _ W) as Hfs. fold rs in Hfs.
    assert (A : apply_core no_fault p t =
                {| r_fs := s_fs s2; r_ok := true; r_fail := None; r_trace := rev (s_trace s2);
                   r_performed := stage_perf L [] |}).
    { unfold apply_core. unfold rs in Hfs. rewrite (no_conflict t _ Hfs), (all_readable p t W).
      unfold files, files_of, L, sorted_of, s0 in C, R. rewrite C, R. reflexivity. }
    rewrite A. cbn [r_trace r_fs]. split.
    - rewrite Tr2, Tr1, rev_app_distr, !rev_involutive. reflexivity.
    - rewrite exec_all_app, Ex1. exact Ex2.
  Qed.

  (* ---------------------------------------------------------------------------------- *)
  (* from the stage invariants to the announced shape                                    *)
  (* ---------------------------------------------------------------------------------- *)

  Lemma loc_0 q : loc p 0 q = q.
  Proof. reflexivity. Qed.

  Lemma view_content i : view p t i 0 = cmap (firstn i files) t.
  Proof. reflexivity. Qed.

  Lemma cr_loc_final j k : In k (keys t) -> loc p j k = final_path (firstn j L) k.
  Proof. intro I. apply run_firstn_final; [exact cr_ok|apply cr_key_avoids; exact I]. Qed.

  Lemma view_renamed j : view p t (length files) j = mapF (firstn j L) (cmap files t).
  Proof.
    unfold view, mapF, cmap. rewrite map_map. cbn [fst snd]. apply map_ext_in. intros [k n] I. cbn [fst snd].
    unfold content_at. fold files. rewrite firstn_all. f_equal. apply cr_loc_final.
    apply in_map_iff. exists (k, n). auto.
  Qed.

  Lemma PC_shape T : PC files t T -> exists i extra, i <= length files /\ crash_shape p t i 0 extra T.
  Proof.
    intros (i & extra & Hi & Ts & Pm). exists i, extra. split; [exact Hi|]. split; [|split].
    - destruct Ts as [|f es m c x Hn Hl Hx]; [constructor|]. eapply ex_tmp; eauto.
    - rewrite view_content. exact Pm.
    - eapply Permutation_NoDup; [apply Permutation_map, Permutation_sym; exact Pm|].
      rewrite map_app. fold (keys (cmap (firstn i files) t)). rewrite keys_cmap.
      destruct Ts as [|f es m c x Hn Hl Hx]; cbn [map app fst]; [exact (po_nodup _ _ W)|].
      constructor; [|exact (po_nodup _ _ W)].
      apply lookup_none_not_key. apply free_at_lookup.
      destruct (co_files_ok p t W f es (nth_error_In _ _ Hn)) as (m' & c' & _ & _ & _ & F & _). exact F.
  Qed.

  Lemma PR_shape t1 T : Permutation t1 (cmap files t) -> PR L t1 T ->
    exists j extra, j <= length rs /\ crash_shape p t (length files) j extra T.
  Proof.
    intros P1 (j & extra & Hj & Ps & ->). exists j, extra. split; [rewrite <- cr_len; exact Hj|].
    assert (K1 : forall k, In k (keys t1) -> In k (keys t)).
    { intros k I. apply (Permutation_in _ (Permutation_map fst P1)) in I.
      fold (keys (cmap files t)) in I. rewrite keys_cmap in I. exact I. }
    assert (ND1 : NoDup (keys t1)).
    { eapply Permutation_NoDup; [apply Permutation_map, Permutation_sym; exact P1|].
      fold (keys (cmap files t)). rewrite keys_cmap. exact (po_nodup _ _ W). }
    split; [|split].
    - destruct Ps as [|from to Hn Hc Hl]; [constructor|]. apply (ex_probe p t _ _ from to); auto.
    - rewrite view_renamed. apply Permutation_app_head. unfold mapF. apply Permutation_map. exact P1.
    - unfold keys. rewrite map_app.
      assert (NDm : NoDup (map fst (mapF (firstn j L) t1))).
      { unfold mapF. rewrite map_map. cbn [fst]. rewrite <- (map_map fst (final_path (firstn j L))).
        apply final_keys_nodup.
        - intros r I. apply (po_shape _ _ W). apply cr_sub. eapply firstn_In_incl; exact I.
        - intros r1 r2 I1 I2. apply (po_dst_inj _ _ W); apply cr_sub; eapply firstn_In_incl; eassumption.
        - exact ND1.
        - intros k I. eapply avoids_sub; [|apply cr_key_avoids, K1, I]. intros x Ix. eapply firstn_In_incl; exact Ix. }
      destruct Ps as [|from to Hn Hc Hl]; cbn [map app fst]; [exact NDm|].
      constructor; [|exact NDm]. apply lookup_none_not_key. exact Hl.
  Qed.

  (* ---------------------------------------------------------------------------------- *)
  (* MAIN THEOREMS: the tree after a kill before operation k                              *)
  (* ---------------------------------------------------------------------------------- *)

  (* up to the end of the content stage: no rename has been performed *)
  Theorem crash_during_content k : k <= content_len p t ->
    exists i extra, i <= length (files_of p) /\ crash_shape p t i 0 extra (crash_prefix p t k).
  Proof.
    intro Hk. destruct cr_run as (s1 & s2 & _ & _ & _ & _ & _ & Inv1 & _).
    apply PC_shape. unfold crash_prefix. rewrite (proj1 trace_shape), firstn_app_le by exact Hk.
    apply inv_run_firstn. exact Inv1.
  Qed.

  (* from the end of the content stage on: every planned file has been rewritten *)
  Theorem crash_during_renames k : content_len p t <= k ->
    exists j extra, j <= length (ap_renames p) /\
                    crash_shape p t (length (files_of p)) j extra (crash_prefix p t k).
  Proof.
    intro Hk. destruct cr_run as (s1 & s2 & _ & _ & _ & Ex1 & P1 & _ & _ & _ & _ & Inv2).
    apply (PR_shape (s_fs s1)); [exact P1|]. unfold crash_prefix.
    rewrite (proj1 trace_shape), firstn_app_ge by exact Hk.
    rewrite (run_ops_app_exec _ _ _ _ Ex1). apply inv_run_firstn. exact Inv2.
  Qed.

  (* after the last operation: the result of the run, which is [spec_apply] as a finite map *)
  Theorem crash_at_end k : length (r_trace (apply_core no_fault p t)) <= k ->
    crash_prefix p t k = r_fs (apply_core no_fault p t) /\
    forall q, lookup (crash_prefix p t k) q = lookup (spec_apply p t) q.
  Proof.
    intro Hk. assert (E : crash_prefix p t k = r_fs (apply_core no_fault p t)).
    { unfold crash_prefix. rewrite firstn_all2 by exact Hk. apply run_ops_exec_all.
      rewrite (proj1 trace_shape). exact (proj2 trace_shape). }
    split; [exact E|]. rewrite E. destruct (apply_is_spec p t W) as (_ & _ & _ & _ & _ & Lk & _). exact Lk.
  Qed.

  (* ---------------------------------------------------------------------------------- *)
  (* reading the shape with [lookup]                                                     *)
  (* ---------------------------------------------------------------------------------- *)

  Lemma loc_inj j q1 q2 : In q1 (keys t) -> In q2 (keys t) -> loc p j q1 = loc p j q2 -> q1 = q2.
  Proof.
    intros I1 I2. rewrite !cr_loc_final by assumption.
    apply (final_path_inj_eq (firstn j L)).
    - intros r I. apply (po_shape _ _ W). apply cr_sub. eapply firstn_In_incl; exact I.
    - intros r1 r2 J1 J2. apply (po_dst_inj _ _ W); apply cr_sub; eapply firstn_In_incl; eassumption.
    - eapply avoids_sub; [|apply cr_key_avoids, I1]. intros x Ix. eapply firstn_In_incl; exact Ix.
    - eapply avoids_sub; [|apply cr_key_avoids, I2]. intros x Ix. eapply firstn_In_incl; exact Ix.
  Qed.

  Lemma loc_all q : In q (keys t) -> loc p (length rs) q = final_path rs q.
  Proof.
    intro I. rewrite cr_loc_final by exact I. rewrite <- cr_len, firstn_all.
    symmetry. apply final_path_perm; [apply Permutation_sym, sort_renames_perm|exact (po_src_nodup _ _ W)].
  Qed.

  Lemma content_at_cases i q n :
    content_at p i q n = n \/
    exists m c es, n = File m c /\ In (q, es) (firstn i files) /\ content_at p i q n = File m (planned c es).
  Proof.
    unfold content_at. fold files. destruct n as [m c| |]; cbn [upd]; auto.
    destruct (find _ (firstn i files)) as [[f es]|] eqn:E; [|auto].
    right. apply find_some in E as [I Eq]. cbn [fst] in Eq. apply path_eqb_eq in Eq. subst f.
    exists m, c, es. auto.
  Qed.

  Lemma content_at_all q n : content_at p (length files) q n = spec_content (ap_hunks p) q n.
  Proof. unfold content_at. fold files. rewrite firstn_all. reflexivity. Qed.

  Section Shape.
    Variables (i j : nat) (extra T : fs).
    Hypothesis S : crash_shape p t i j extra T.

    Lemma shape_lookup q : lookup T q = lookup (extra ++ view p t i j) q.
    Proof. destruct S as (_ & Pm & ND). apply lookup_perm; assumption. Qed.

    Lemma shape_extra_fresh q' n' q : In (q', n') extra -> In q (keys t) -> q' <> loc p j q.
    Proof.
      intros Ie Iq E. destruct S as (_ & Pm & ND).
      assert (ND' : NoDup (map fst (extra ++ view p t i j))).
      { eapply Permutation_NoDup; [apply Permutation_map; exact Pm|exact ND]. }
      rewrite map_app in ND'. apply in_split in Ie as (e1 & e2 & ->).
      rewrite map_app in ND'. cbn [map fst] in ND'. rewrite <- app_assoc in ND'. cbn [app] in ND'.
      apply NoDup_remove_2 in ND'. apply ND'. apply in_or_app. right. apply in_or_app. right.
      unfold view. rewrite map_map. cbn [fst]. subst q'. apply (in_map (loc p j)) in Iq.
      unfold keys in Iq. rewrite map_map in Iq. exact Iq.
    Qed.

    (* (1) every node of the original tree is present, at the place the renames performed so far send it to,
       with its original content or - a planned file already rewritten - its complete planned content *)
    Lemma shape_present q n : lookup t q = Some n -> lookup T (loc p j q) = Some (content_at p i q n).
    Proof.
      intro Lq. assert (Iq : In q (keys t)) by (eapply lookup_some_in; exact Lq).
      rewrite shape_lookup, lookup_app.
      destruct (lookup extra (loc p j q)) as [x|] eqn:Le.
      - exfalso. apply lookup_some_in_pair in Le. exact (shape_extra_fresh _ _ q Le Iq eq_refl).
      - unfold view. apply (lookup_map_fg (loc p j) (content_at p i)); [|exact Lq].
        intros k Ik E. apply (loc_inj j); assumption.
    Qed.

    (* ... nothing else is in the tree except the one extra entry *)
    Lemma shape_only q' n' : lookup T q' = Some n' ->
      In (q', n') extra \/
      exists q n, lookup t q = Some n /\ q' = loc p j q /\ n' = content_at p i q n.
    Proof.
      rewrite shape_lookup. intro Lq. apply lookup_some_in_pair in Lq. apply in_app_or in Lq as [I|I]; [left; exact I|].
      right. unfold view in I. apply in_map_iff in I as [[q n] [E I]]. cbn [fst snd] in E. inversion E; subst.
      exists q, n. split; [|auto]. apply lookup_in_nodup; [exact (po_nodup _ _ W)|exact I].
    Qed.

    (* ... and nothing is duplicated *)
    Lemma shape_count : length T = length extra + length t /\ NoDup (keys T).
    Proof.
      destruct S as (_ & Pm & ND). split; [|exact ND].
      rewrite (Permutation_length Pm), app_length. unfold view. rewrite map_length. reflexivity.
    Qed.
  End Shape.
End Crash.

(* ==================================================================================== *)
(* 6. THE CRASH THEOREM FOR PLANS WITH RENAMES, in one statement                          *)
(* ==================================================================================== *)

(* (4), first half: killed before the first operation *)
Theorem crash_at_zero p t : crash_prefix p t 0 = t.
Proof. reflexivity. Qed.

(* For every k there are a number i of rewritten files, a number j of performed renames and at most one extra
   entry such that ... *)
Theorem crash_with_renames p t k :
  plan_ok p t ->
  let T := crash_prefix p t k in
  exists i j extra,
    i <= length (files_of p) /\ j <= length (ap_renames p) /\
    (* the rename stage does not start before the content stage is complete; (3) from then on every planned
       file is rewritten *)
    (k < content_len p t -> j = 0) /\
    (content_len p t <= k -> i = length (files_of p) /\
                             forall q n, content_at p i q n = spec_content (ap_hunks p) q n) /\
    (* what else may be in the tree: nothing, the temp file of the file being edited, or the empty probe *)
    extra_ok p t i j extra /\
    (* the tree as a finite map *)
    Permutation T (extra ++ view p t i j) /\
    (forall q, lookup T q = lookup (extra ++ view p t i j) q) /\
    (* (1) every node is present at the place the first j executed renames send its path to ... *)
    (forall q n, lookup t q = Some n -> lookup T (loc p j q) = Some (content_at p i q n)) /\
    (* ... two nodes never at the same place ... *)
    (forall q1 q2, In q1 (keys t) -> In q2 (keys t) -> loc p j q1 = loc p j q2 -> q1 = q2) /\
    (* ... nothing else appears, nothing is duplicated ... *)
    (forall q' n', lookup T q' = Some n' ->
       In (q', n') extra \/ exists q n, lookup t q = Some n /\ q' = loc p j q /\ n' = content_at p i q n) /\
    NoDup (keys T) /\ length T = length extra + length t /\
    (forall q' n' q, In (q', n') extra -> In q (keys t) -> q' <> loc p j q) /\
    (* ... and that place is on the way to the final path: the final path for the first j sorted renames *)
    (forall q, In q (keys t) -> loc p j q = final_path (firstn j (sorted_of p)) q) /\
    (* (2) a node is as it was, or - a planned regular file - has its COMPLETE planned content, same mode *)
    (forall q n, content_at p i q n = n \/
       exists m c es, n = File m c /\ In (q, es) (firstn i (files_of p)) /\
                      content_at p i q n = File m (planned c es)).
Proof.
  intros W T.
  assert (Common : forall i j extra, crash_shape p t i j extra T ->
    extra_ok p t i j extra /\
    Permutation T (extra ++ view p t i j) /\
    (forall q, lookup T q = lookup (extra ++ view p t i j) q) /\
    (forall q n, lookup t q = Some n -> lookup T (loc p j q) = Some (content_at p i q n)) /\
    (forall q1 q2, In q1 (keys t) -> In q2 (keys t) -> loc p j q1 = loc p j q2 -> q1 = q2) /\
    (forall q' n', lookup T q' = Some n' ->
       In (q', n') extra \/ exists q n, lookup t q = Some n /\ q' = loc p j q /\ n' = content_at p i q n) /\
    NoDup (keys T) /\ length T = length extra + length t /\
    (forall q' n' q, In (q', n') extra -> In q (keys t) -> q' <> loc p j q) /\
    (forall q, In q (keys t) -> loc p j q = final_path (firstn j (sorted_of p)) q) /\
    (forall q n, content_at p i q n = n \/
       exists m c es, n = File m c /\ In (q, es) (firstn i (files_of p)) /\
                      content_at p i q n = File m (planned c es))).
  { intros i j extra S. split; [exact (proj1 S)|]. split; [exact (proj1 (proj2 S))|].
    split; [exact (shape_lookup p t i j extra T S)|].
    split; [exact (shape_present p t W i j extra T S)|].
    split; [exact (loc_inj p t W j)|].
    split; [exact (shape_only p t W i j extra T S)|].
    destruct (shape_count p t i j extra T S) as [Len ND].
    split; [exact ND|]. split; [exact Len|].
    split; [exact (shape_extra_fresh p t i j extra T S)|].
    split; [exact (cr_loc_final p t W j)|]. exact (content_at_cases p i). }
  destruct (le_lt_dec (content_len p t) k) as [Hk|Hk].
  - destruct (crash_during_renames p t W k Hk) as (j & extra & Hj & S).
    exists (length (files_of p)), j, extra. split; [lia|]. split; [exact Hj|].
    split; [intro; lia|]. split; [intros _; split; [reflexivity|exact (content_at_all p)]|].
    apply Common. exact S.
  - destruct (crash_during_content p t W k) as (i & extra & Hi & S); [lia|].
    exists i, 0, extra. split; [exact Hi|]. split; [lia|].
    split; [reflexivity|]. split; [intro; lia|].
    apply Common. exact S.
Qed.

(* the sentence of the property, file by file: after a kill at ANY operation every regular file of the
   original tree is intact at a path that is its original one or one on the way to its planned one (the same
   renames applied to every path: a directory is never split), with its complete previous or its complete
   planned content and its original mode; every other node is unchanged; whatever else is in the tree is the
   single extra entry described by [extra_ok] *)
Corollary crash_files_intact p t k :
  plan_ok p t ->
  let T := crash_prefix p t k in
  exists i j extra,
    j <= length (ap_renames p) /\ extra_ok p t i j extra /\
    (forall q m c, lookup t q = Some (File m c) ->
       exists c', lookup T (loc p j q) = Some (File m c') /\
                  (c' = c \/ exists es, In (q, es) (files_of p) /\ c' = planned c es)) /\
    (forall q n, lookup t q = Some n -> (forall m c, n <> File m c) -> lookup T (loc p j q) = Some n) /\
    (forall q' n', lookup T q' = Some n' -> In (q', n') extra \/ exists q, In q (keys t) /\ q' = loc p j q).
Proof.
  intros W T. destruct (crash_with_renames p t k W) as (i & j & extra & _ & Hj & _ & _ & Ex & _ & _ & Pr & _ & On & _ & _ & _ & _ & Cs).
  exists i, j, extra. split; [exact Hj|]. split; [exact Ex|]. split; [|split].
  - intros q m c Lq. specialize (Pr q _ Lq). destruct (Cs q (File m c)) as [E|(m' & c' & es & E1 & I & E2)].
    + exists c. rewrite E in Pr. auto.
    + inversion E1; subst m' c'. exists (planned c es). rewrite E2 in Pr. split; [exact Pr|]. right. exists es.
      split; [eapply firstn_In_incl; exact I|reflexivity].
  - intros q n Lq Nf. specialize (Pr q _ Lq). destruct (Cs q n) as [E|(m' & c' & es & E1 & _)].
    + rewrite E in Pr. exact Pr.
    + exfalso. exact (Nf _ _ E1).
  - intros q' n' Lq. destruct (On q' n' Lq) as [I|(q & n & Lt & E & _)]; [left; exact I|].
    right. exists q. split; [eapply lookup_some_in; exact Lt|exact E].
Qed.

(* (3) for one edited file, in the words of ApplySpecP.apply_edited_file: from the end of the content stage on,
   the file sits at its current location with the reference splice of its ORIGINAL content *)
Corollary crash_edited_after_content p t k h m c :
  plan_ok p t -> content_len p t <= k -> In h (ap_hunks p) -> lookup t (ah_file h) = Some (File m c) ->
  exists j, j <= length (ap_renames p) /\
    lookup (crash_prefix p t k) (loc p j (ah_file h))
    = Some (File m (planned c (edits_of (ap_hunks p) (ah_file h)))).
Proof.
  intros W Hk Ih Lq. destruct (crash_during_renames p t W k Hk) as (j & extra & Hj & S).
  exists j. split; [exact Hj|]. rewrite (shape_present p t W _ j extra _ S _ _ Lq), (content_at_all p).
  cbn [spec_content]. pose proof (edits_by_file_has_key _ _ Ih) as K. apply in_map_iff in K as [[f es] [E I]].
  cbn [fst] in E. subst f.
  rewrite (find_in_nodup _ _ _ (edits_by_file_nodup _) I), (edits_by_file_group _ _ _ I). reflexivity.
Qed.

(* (4), second half *)
Corollary crash_after_last_op p t k :
  plan_ok p t -> length (r_trace (apply_core no_fault p t)) <= k ->
  crash_prefix p t k = r_fs (apply_core no_fault p t) /\
  forall q, lookup (crash_prefix p t k) q = lookup (spec_apply p t) q.
Proof. intros W Hk. exact (crash_at_end p t W k Hk). Qed.

(* the operation sequence itself *)
Corollary crash_trace_shape p t :
  plan_ok p t ->
  r_trace (apply_core no_fault p t) = content_trace p t ++ rename_trace p /\
  length (r_trace (apply_core no_fault p t)) = content_len p t + length (rename_trace p).
Proof.
  intro W. destruct (trace_shape p t W) as [E _]. split; [exact E|]. rewrite E, app_length. reflexivity.
Qed.

(* ==================================================================================== *)
(* 7. non-vacuity: every crash position of two concrete runs, by computation              *)
(* ==================================================================================== *)

(* a checker of (1)-(3) that does not go through the theorem: for some number j of executed renames every
   original node sits at [loc p j] of its path with its original or its reference node, the entries that do
   not carry a temp/probe name are exactly as many as the original nodes, at most one extra entry, keys
   pairwise distinct; before the end of the content stage j = 0, from then on every node is the reference one *)
Definition is_extra_name (p : aplan) (q : path) : bool :=
  existsb (fun fe => path_eqb q (tmp_of (fst fe))) (files_of p) || beq (last q []) probe_name.

Fixpoint nodupb (l : list path) : bool :=
  match l with [] => true | x :: l' => negb (existsb (path_eqb x) l') && nodupb l' end.

Definition shape_checkb (p : aplan) (t : fs) (k : nat) (T : fs) : bool :=
  let users := filter (fun e => negb (is_extra_name p (fst e))) T in
  nodupb (map fst T) && Nat.eqb (length users) (length t) && Nat.leb (length T) (S (length t)) &&
  existsb (fun j =>
    forallb (fun e =>
      match lookup T (loc p j (fst e)) with
      | Some n' => node_eqb n' (snd e) || node_eqb n' (spec_content (ap_hunks p) (fst e) (snd e))
      | None => false
      end &&
      (if Nat.leb (content_len p t) k
       then onode_eqb (lookup T (loc p j (fst e))) (Some (spec_content (ap_hunks p) (fst e) (snd e)))
       else Nat.eqb j 0)) t)
    (seq 0 (S (length (ap_renames p)))).
Definition crash_checkb (p : aplan) (t : fs) (k : nat) : bool := shape_checkb p t k (crash_prefix p t k).

Definition all_positions (p : aplan) (t : fs) : list nat :=
  seq 0 (S (S (length (r_trace (apply_core no_fault p t))))).

(* A. ApplySpecP.Witness: directory rename d -> e containing d/f.txt, edited (two hunks, multi-byte text, mode
   0600) and itself renamed to g.txt, a bystander inside the directory and one outside *)
Module CrashWitness.
  Import Witness.

  Example p0_trace :
    r_trace (apply_core no_fault p0 t0) =
      [MCreate (tmp_of [d; ftxt]); MWrite (tmp_of [d; ftxt]) [110; 32; 195; 169; 32; 110; 101; 119; 101; 114]%N;
       MChmod (tmp_of [d; ftxt]) 384%N; MRename (tmp_of [d; ftxt]) [d; ftxt];
       MRename [d] [e]; MRename [e; ftxt] [e; gtxt]] /\
    content_len p0 t0 = 4 /\ steps_of p0 = [([d], [e]); ([e; ftxt], [e; gtxt])].
  Proof. vm_compute. repeat split. Qed.

  (* every crash position, k = 0 .. length of the trace + 1 *)
  Example p0_every_crash_position : forallb (crash_checkb p0 t0) (all_positions p0 t0) = true.
  Proof. vm_compute. reflexivity. Qed.

  (* the two positions inside the rename stage, spelled out: after the directory rename the edited file is at
     e/f.txt (neither its original nor its final path, but on the way), complete, with the planned content *)
  Example p0_between_the_renames :
    crash_prefix p0 t0 5 =
      [([e; ftxt], File 384%N [110; 32; 195; 169; 32; 110; 101; 119; 101; 114]%N);
       ([e], Dir 493%N); ([e; y], File 420%N [1; 2; 3]%N); ([z], File 420%N c0)] /\
    loc p0 1 [d; ftxt] = [e; ftxt] /\ loc p0 2 [d; ftxt] = [e; gtxt] /\ final_path (ap_renames p0) [d; ftxt] = [e; gtxt].
  Proof. vm_compute. repeat split. Qed.

  (* the temp file: empty, then the complete planned content with mode 0644, then with mode 0600 *)
  Example p0_temp_file :
    map (fun k => lookup (crash_prefix p0 t0 k) (tmp_of [d; ftxt])) [0; 1; 2; 3; 4] =
      [None; Some (File 420%N []); Some (File 420%N [110; 32; 195; 169; 32; 110; 101; 119; 101; 114]%N);
       Some (File 384%N [110; 32; 195; 169; 32; 110; 101; 119; 101; 114]%N); None] /\
    map (fun k => lookup (crash_prefix p0 t0 k) [d; ftxt]) [0; 1; 2; 3; 4] =
      [Some (File 384%N c0); Some (File 384%N c0); Some (File 384%N c0); Some (File 384%N c0);
       Some (File 384%N [110; 32; 195; 169; 32; 110; 101; 119; 101; 114]%N)].
  Proof. vm_compute. repeat split. Qed.

  (* the checker is not trivially true: the three failures the property is about are rejected at a position
     inside the rename stage - a directory whose children are split between the old and the new parent, a file
     reachable under no name, a file with a partial content *)
  Definition newc : bytes := [110; 32; 195; 169; 32; 110; 101; 119; 101; 114]%N.
  Example checker_rejects_split_directory :
    shape_checkb p0 t0 5 [([e; ftxt], File 384%N newc); ([e], Dir 493%N); ([d; y], File 420%N [1; 2; 3]%N); ([z], File 420%N c0)]
    = false.
  Proof. vm_compute. reflexivity. Qed.
  Example checker_rejects_lost_file :
    shape_checkb p0 t0 5 [([e], Dir 493%N); ([e; y], File 420%N [1; 2; 3]%N); ([z], File 420%N c0)] = false.
  Proof. vm_compute. reflexivity. Qed.
  Example checker_rejects_partial_content :
    shape_checkb p0 t0 5 [([e; ftxt], File 384%N [110; 32; 195]%N); ([e], Dir 493%N); ([e; y], File 420%N [1; 2; 3]%N);
                          ([z], File 420%N c0)] = false.
  Proof. vm_compute. reflexivity. Qed.
  Example checker_rejects_old_content_after_content_stage :
    shape_checkb p0 t0 5 [([e; ftxt], File 384%N c0); ([e], Dir 493%N); ([e; y], File 420%N [1; 2; 3]%N); ([z], File 420%N c0)]
    = false.
  Proof. vm_compute. reflexivity. Qed.

  (* the theorems apply to it *)
  Example p0_during_content k (Hk : k <= content_len p0 t0) := crash_during_content p0 t0 p0_ok k Hk.
  Example p0_during_renames k (Hk : content_len p0 t0 <= k) := crash_during_renames p0 t0 p0_ok k Hk.
  Example p0_after_last_op k (Hk : length (r_trace (apply_core no_fault p0 t0)) <= k) :=
    crash_after_last_op p0 t0 k p0_ok Hk.
  Example p0_trace_shape := crash_trace_shape p0 t0 p0_ok.
  Example p0_theorem k := crash_with_renames p0 t0 k p0_ok.
  Example p0_intact k := crash_files_intact p0 t0 k p0_ok.
  Example p0_edited k (Hk : 4 <= k) :=
    crash_edited_after_content p0 t0 k (hk [d; ftxt] 0 3 [111; 108; 100]%N [110]%N) 384%N c0 p0_ok Hk
      (or_intror (or_introl eq_refl)) eq_refl.
End CrashWitness.

(* B. case-only renames (the probe's two operations are in the trace): RenameP2.Example1 - a -> A (dir),
   a/b -> a/B (dir), a/b/f -> a/b/F (file), x -> X (file) - plus an edit of a/b/f *)
Module CrashCaseOnly.
  Import Example1.
  Definition hk f a b o n := {| ah_file := f; ah_start := a; ah_end := b; ah_content := o; ah_replace := n |}.
  Definition p1 : aplan :=
    {| ap_id := []; ap_hunks := [hk [a; b; f] 0 1 [1]%N [55; 56]%N]; ap_renames := rs1 |}.

  Lemma p1_ok : plan_ok p1 t1.
  Proof.
    split.
    - repeat constructor; cbn; intuition discriminate.
    - intros h I. each_in I. eexists; eexists; split; [vm_compute; reflexivity|]. repeat split; vm_compute; reflexivity.
    - exact ex_shape.
    - exact ex_nodup.
    - exact ex_inj.
    - exact ex_fs_ok.
    - intros r I _. split.
      + each_in I; vm_compute; reflexivity.
      + intros r1 I1. each_in I; each_in I1; cbn; discriminate.
  Qed.

  Example p1_trace_length :
    length (r_trace (apply_core no_fault p1 t1)) = 16 /\ content_len p1 t1 = 4 /\
    forallb (fun st => case_only (fst st) (snd st)) (steps_of p1) = true.
  Proof. vm_compute. repeat split. Qed.

  Example p1_every_crash_position : forallb (crash_checkb p1 t1) (all_positions p1 t1) = true.
  Proof. vm_compute. reflexivity. Qed.

  (* the probe of the second rename (a/b -> a/B, performed as A/b -> A/B) sits in the ALREADY RENAMED directory *)
  Example p1_probe :
    lookup (crash_prefix p1 t1 8) [A; probe_name] = Some (File 420%N []) /\
    length (crash_prefix p1 t1 8) = S (length t1) /\ length (crash_prefix p1 t1 9) = length t1.
  Proof. vm_compute. repeat split. Qed.

  Example p1_theorem k := crash_with_renames p1 t1 k p1_ok.
End CrashCaseOnly.

(* ==================================================================================== *)
(* Assumptions                                                                           *)
(* ==================================================================================== *)
Print Assumptions crash_with_renames.
Print Assumptions crash_during_content.
Print Assumptions crash_during_renames.
Print Assumptions crash_files_intact.
Print Assumptions crash_edited_after_content.
Print Assumptions crash_at_zero.
Print Assumptions crash_after_last_op.
Print Assumptions crash_trace_shape.
Check loc_0.     (* loc p 0 q = q *)
Check loc_all.   (* plan_ok p t -> In q (keys t) -> loc p (length (ap_renames p)) q = final_path (ap_renames p) q *)
Print Assumptions loc_all.
Print Assumptions CrashWitness.p0_every_crash_position.
Print Assumptions CrashCaseOnly.p1_ok.
Print Assumptions CrashCaseOnly.p1_every_crash_position.
