(* Proofs/HunkTailP.v — the tail of scanner.rs::generate_hunks (Model/HunkTail.v) on a standalone
   occurrence of a multi-word term written in a visible style (C06):
     T2  context_of_standalone        extract_immediate_context returns the occurrence itself, for
                                      EVERY style (also the spaced / dotted ones): the two loops only
                                      move outwards, so spaces or dots inside the occurrence are
                                      irrelevant; the coercion oracle then returns None by its early
                                      return (coercion_silent_on_standalone)
     T3  standalone_hunk_same_style   the single match of the scanner yields the hunk
                                      occ -> to_style acr rw S, spliced into its line, and applying
                                      that edit to the file gives dl ++ to_style acr rw S ++ dr;
         standalone_hunk_any_context  the same hunk for arbitrary text around the occurrence (only the
                                      two neighbouring bytes are constrained): the context for coercion
                                      is taken at the match's OWN COLUMN (scanner.rs after the fix of the
                                      line.find(content) bug), see match_pos_own / context_at_own_column
     T4  filters and generate_hunks as a sublist of the per-match hunks
   T1 (the occurrence is not ambiguous, so the resolver is not consulted) is Proofs/HunkTailP1.v.
   For all acronym tables with wf_acr (needed by C06_standalone only).  Stdlib + lia only. *)
From Coq Require Import Lia.
From RN Require Import Base.Bytes Model.StyleDef Model.CaseModel Model.CaseSpec Model.Matcher Model.Edits.
From RN Require Import Model.ConstraintsDef Model.Constraints Gen.GenStyles.
From RN Require Import Proofs.CaseP1 Proofs.CaseP2 Proofs.CaseP3 Proofs.StandaloneP Proofs.ConstraintsP
                       Proofs.HunksP Proofs.HunkTailP1.
From RN Require Import Model.Enhanced Model.HunkTail.
Close Scope N_scope.
Open Scope bool_scope.

(* ------------------------------------------------------------------------------------------ *)
(* list utilities                                                                             *)
(* ------------------------------------------------------------------------------------------ *)
Lemma firstn_app_exact {A} (a b : list A) : firstn (length a) (a ++ b) = a.
Proof. induction a as [|x a IH]; cbn [length firstn app]; [destruct b; reflexivity|]. rewrite IH. reflexivity. Qed.

Lemma skipn_app_exact {A} (a b : list A) : skipn (length a) (a ++ b) = b.
Proof. induction a as [|x a IH]; cbn [length skipn app]; [reflexivity|]. exact IH. Qed.

Lemma skipn_app_exact2 {A} (a b c : list A) : skipn (length a + length b) (a ++ b ++ c) = c.
Proof. rewrite <- app_length, app_assoc. apply skipn_app_exact. Qed.

(* ------------------------------------------------------------------------------------------ *)
(* lines_with_terminator                                                                      *)
(* ------------------------------------------------------------------------------------------ *)
Definition nonl (s : bytes) : bool := forallb (fun c => negb (c =? 10)%N) s.

Definition ends_nl (s : bytes) : Prop := s = [] \/ exists s', s = s' ++ [10%N].

Lemma nonl_app a b : nonl (a ++ b) = nonl a && nonl b.
Proof. apply forallb_app. Qed.

Lemma nonl_count s : nonl s = true -> count_byte 10 s = 0.
Proof.
  induction s as [|x s IH]; [reflexivity|]. cbn [nonl forallb count_byte]. intro H.
  apply andb_true_iff in H as [Hx Hs]. apply negb_true_iff in Hx. rewrite Hx. rewrite (IH Hs). reflexivity.
Qed.

Lemma lines_wt_line l rest : nonl l = true -> lines_wt (l ++ 10%N :: rest) = (l ++ [10%N]) :: lines_wt rest.
Proof.
  induction l as [|x l IH]; intro H; [reflexivity|].
  cbn [nonl forallb] in H. apply andb_true_iff in H as [Hx Hl]. apply negb_true_iff in Hx.
  cbn [app lines_wt]. rewrite Hx. rewrite (IH Hl). reflexivity.
Qed.

Lemma lines_wt_last l : nonl l = true -> l <> [] -> lines_wt l = [l].
Proof.
  induction l as [|x l IH]; intros H Hne; [congruence|].
  cbn [nonl forallb] in H. apply andb_true_iff in H as [Hx Hl]. apply negb_true_iff in Hx.
  cbn [lines_wt]. rewrite Hx. destruct l as [|y l]; [reflexivity|].
  rewrite (IH Hl) by discriminate. reflexivity.
Qed.

Lemma lines_wt_ne s : s <> [] -> lines_wt s <> [].
Proof.
  destruct s as [|x s]; [congruence|]. intros _. cbn [lines_wt].
  destruct (x =? 10)%N; [discriminate|]. destruct (lines_wt s); discriminate.
Qed.

Lemma ends_nl_tail x s : ends_nl (x :: s) -> (x = 10%N /\ s = []) \/ (s <> [] /\ ends_nl s).
Proof.
  intros [H|[s' H]]; [discriminate|].
  destruct s' as [|y s']; cbn [app] in H; inversion H; subst.
  - left. auto.
  - right. split; [destruct s'; discriminate|]. right. exists s'. reflexivity.
Qed.

Lemma lines_wt_app pre rest : ends_nl pre -> lines_wt (pre ++ rest) = lines_wt pre ++ lines_wt rest.
Proof.
  induction pre as [|x pre IH]; intro H; [reflexivity|].
  apply ends_nl_tail in H as [[-> ->]|[Hne H]]; [reflexivity|].
  cbn [app lines_wt]. rewrite (IH H).
  destruct (x =? 10)%N; [reflexivity|].
  pose proof (lines_wt_ne pre Hne) as Hl. destruct (lines_wt pre) as [|l ls]; [congruence|]. reflexivity.
Qed.

Lemma lines_wt_length pre : ends_nl pre -> length (lines_wt pre) = count_byte 10 pre.
Proof.
  induction pre as [|x pre IH]; intro H; [reflexivity|].
  apply ends_nl_tail in H as [[-> ->]|[Hne H]]; [reflexivity|].
  cbn [lines_wt count_byte]. specialize (IH H).
  destruct (x =? 10)%N; [cbn [length]; lia|].
  pose proof (lines_wt_ne pre Hne) as Hl. destruct (lines_wt pre) as [|l ls]; [congruence|].
  cbn [length] in *. lia.
Qed.

(* the part of a string after its last newline, and up to (and including) its first newline *)
Fixpoint take_nonl (s : bytes) : bytes :=
  match s with [] => [] | c :: s' => if (c =? 10)%N then [] else c :: take_nonl s' end.
Definition after_nl (s : bytes) : bytes := rev (take_nonl (rev s)).
Fixpoint upto_nl (s : bytes) : bytes :=
  match s with [] => [] | c :: s' => if (c =? 10)%N then [c] else c :: upto_nl s' end.

Lemma take_nonl_spec s : exists r, s = take_nonl s ++ r /\ nonl (take_nonl s) = true /\
  (r = [] \/ exists r', r = 10%N :: r').
Proof.
  induction s as [|x s (r & E & Hn & Hr)]; [exists []; auto|].
  cbn [take_nonl]. destruct (x =? 10)%N eqn:Ex.
  - apply N.eqb_eq in Ex. subst x. exists (10%N :: s). split; [reflexivity|]. split; [reflexivity|]. right. eauto.
  - exists r. split; [cbn [app]; congruence|]. split; [|exact Hr]. cbn [nonl forallb]. rewrite Ex. exact Hn.
Qed.

Lemma nonl_rev s : nonl (rev s) = nonl s.
Proof.
  induction s as [|x s IH]; [reflexivity|]. cbn [rev]. rewrite nonl_app, IH. cbn [nonl forallb].
  rewrite andb_true_r. apply andb_comm.
Qed.

Lemma after_nl_spec s : exists s1, s = s1 ++ after_nl s /\ ends_nl s1 /\ nonl (after_nl s) = true.
Proof.
  destruct (take_nonl_spec (rev s)) as (r & E & Hn & Hr). unfold after_nl.
  exists (rev r). split; [|split].
  - rewrite <- rev_app_distr, <- E, rev_involutive. reflexivity.
  - destruct Hr as [->|[r' ->]]; [left; reflexivity|]. right. exists (rev r'). reflexivity.
  - rewrite nonl_rev. exact Hn.
Qed.

Lemma upto_nl_spec s : exists r2, s = upto_nl s ++ r2 /\
  ((nonl (upto_nl s) = true /\ r2 = []) \/ exists r1, upto_nl s = r1 ++ [10%N] /\ nonl r1 = true).
Proof.
  induction s as [|x s (r2 & E & H)]; [exists []; split; [reflexivity|]; left; auto|].
  cbn [upto_nl]. destruct (x =? 10)%N eqn:Ex.
  - apply N.eqb_eq in Ex. subst x. exists s. split; [reflexivity|]. right. exists []. auto.
  - exists r2. split; [cbn [app]; congruence|].
    destruct H as [[Hn ->]|(r1 & E1 & Hn)].
    + left. split; [|reflexivity]. cbn [nonl forallb]. rewrite Ex. exact Hn.
    + right. exists (x :: r1). rewrite E1. split; [reflexivity|]. cbn [nonl forallb]. rewrite Ex. exact Hn.
Qed.

Lemma nonl_after_nl s : nonl s = true -> after_nl s = s.
Proof.
  intro H. unfold after_nl. rewrite <- nonl_rev in H. rewrite <- (rev_involutive s) at 2. f_equal.
  induction (rev s) as [|x l IH]; [reflexivity|]. cbn [nonl forallb] in H.
  apply andb_true_iff in H as [Hx Hl]. apply negb_true_iff in Hx. cbn [take_nonl]. rewrite Hx, (IH Hl). reflexivity.
Qed.

Lemma nonl_upto_nl s : nonl s = true -> upto_nl s = s.
Proof.
  induction s as [|x l IH]; [reflexivity|]. cbn [nonl forallb]. intro H.
  apply andb_true_iff in H as [Hx Hl]. apply negb_true_iff in Hx. cbn [upto_nl]. rewrite Hx, (IH Hl). reflexivity.
Qed.

Lemma forallb_after_nl (p : N -> bool) s : forallb p s = true -> forallb p (after_nl s) = true.
Proof.
  intro H. destruct (after_nl_spec s) as (s1 & E & _). rewrite E, forallb_app in H.
  apply andb_true_iff in H as [_ H]. exact H.
Qed.

Lemma forallb_upto_nl (p : N -> bool) s : forallb p s = true -> forallb p (upto_nl s) = true.
Proof.
  intro H. destruct (upto_nl_spec s) as (r2 & E & _). rewrite E, forallb_app in H.
  apply andb_true_iff in H as [H _]. exact H.
Qed.

(* the line of a one-line occurrence inside dl ++ occ ++ dr, its number and the column *)
Lemma line_of_standalone dl occ dr :
  nonl occ = true -> occ <> [] ->
  let c := dl ++ occ ++ dr in
  nth_error (lines_wt c) (line_of c (length dl) - 1) = Some (after_nl dl ++ occ ++ upto_nl dr) /\
  col_of c (length dl) = length (after_nl dl).
Proof.
  intros Hocc Hne c.
  destruct (after_nl_spec dl) as (s1 & E1 & He1 & Hn2). set (l2 := after_nl dl) in *.
  destruct (upto_nl_spec dr) as (r2 & E2 & Hr). set (r1 := upto_nl dr) in *.
  assert (Hline : line_of c (length dl) - 1 = length (lines_wt s1)).
  { unfold line_of, c. rewrite firstn_app_exact. rewrite E1, count_byte_app, (nonl_count l2 Hn2).
    rewrite (lines_wt_length s1 He1). lia. }
  split.
  - rewrite Hline. unfold c. rewrite E1 at 1. rewrite <- app_assoc.
    rewrite (lines_wt_app s1 _ He1). rewrite nth_error_app2 by lia. rewrite Nat.sub_diag.
    destruct Hr as [[Hn1 ->]|(r1' & Er1 & Hn1)].
    + rewrite app_nil_r in E2. rewrite E2.
      rewrite lines_wt_last; [reflexivity| |].
      * rewrite !nonl_app, Hn2, Hocc, Hn1. reflexivity.
      * destruct l2; [destruct occ; [congruence|discriminate]|discriminate].
    + rewrite E2, Er1.
      replace (l2 ++ occ ++ (r1' ++ [10%N]) ++ r2) with ((l2 ++ occ ++ r1') ++ 10%N :: r2)
        by (rewrite <- !app_assoc; reflexivity).
      rewrite lines_wt_line by (rewrite !nonl_app, Hn2, Hocc, Hn1; reflexivity).
      cbn [nth_error]. rewrite <- !app_assoc. reflexivity.
  - unfold col_of.
    assert (Hls : length s1 = line_start c (length dl)).
    { apply line_start_unique.
      - unfold c. rewrite app_length. lia.
      - rewrite E1, app_length. lia.
      - destruct He1 as [->|[s' ->]]; [left; reflexivity|]. right.
        unfold c. rewrite E1. rewrite app_length. cbn [length]. rewrite <- !app_assoc.
        replace (length s' + 1 - 1) with (length s') by lia.
        rewrite nth_error_app2 by lia. rewrite Nat.sub_diag. reflexivity.
      - unfold c. rewrite E1. rewrite <- app_assoc, skipn_app_exact.
        rewrite app_length. replace (length s1 + length l2 - length s1) with (length l2) by lia.
        rewrite firstn_app_exact. apply nonl_count, Hn2. }
    rewrite <- Hls. rewrite E1 at 1. rewrite app_length. lia.
Qed.

(* ------------------------------------------------------------------------------------------ *)
(* the position at which the context is taken: the match's own column                         *)
(* ------------------------------------------------------------------------------------------ *)
Lemma has_at_app l occ r : has_at (l ++ occ ++ r) occ (length l) = true.
Proof.
  unfold has_at. rewrite skipn_app_exact, is_prefix_app.
  replace (Nat.leb (length l) (length (l ++ occ ++ r))) with true
    by (symmetry; apply Nat.leb_le; rewrite app_length; lia).
  reflexivity.
Qed.

(* whenever the line has the content at the match's column, that column is used (whatever stands
   earlier on the line) *)
Theorem match_pos_own line content col : has_at line content col = true -> match_pos line content col = Some col.
Proof. intro H. unfold match_pos. rewrite H. reflexivity. Qed.

(* ------------------------------------------------------------------------------------------ *)
(* T2: the context of a standalone occurrence                                                 *)
(* ------------------------------------------------------------------------------------------ *)
Lemma run_hd_false (p : N -> bool) s : hd_is p s = false -> run p s = 0.
Proof. destruct s as [|x s]; [reflexivity|]. cbn [hd_is run]. intros ->. reflexivity. Qed.

(* whatever the occurrence contains (spaces and dots included): when the byte before it and the
   byte after it, if any, are not alphanumeric, '_' or '-', the "immediate context" is the
   occurrence itself *)
Theorem context_of_standalone : forall l occ r,
  hd_is is_ident_char (rev l) = false -> hd_is is_ident_char r = false ->
  extract_immediate_context (l ++ occ ++ r) (length l) (length l + length occ) = occ.
Proof.
  intros l occ r Hl Hr. unfold extract_immediate_context.
  rewrite firstn_app_exact, (run_hd_false _ _ Hl).
  rewrite skipn_app_exact2, (run_hd_false _ _ Hr).
  rewrite Nat.sub_0_r, Nat.add_0_r, skipn_app_exact.
  replace (length l + length occ - length l) with (length occ) by lia.
  apply firstn_app_exact.
Qed.

Lemma ctx_not_ident x : is_ctx x = true -> is_ident_char x = false.
Proof.
  unfold is_ctx, is_ident_char. intro H.
  apply andb_true_iff in H as [H H3]. apply andb_true_iff in H as [H1 H2].
  apply negb_true_iff in H1, H2, H3. rewrite H1, H2, H3. reflexivity.
Qed.

Lemma ctxs_hd s : ctxs s = true -> hd_is is_ident_char s = false.
Proof.
  destruct s as [|x s]; [reflexivity|]. cbn [ctxs forallb hd_is]. intro H.
  apply andb_true_iff in H as [H _]. apply ctx_not_ident, H.
Qed.

Lemma ctxs_rev s : ctxs s = true -> ctxs (rev s) = true.
Proof.
  unfold ctxs. rewrite !forallb_forall. intros H x Hx. apply H, in_rev, Hx.
Qed.

Corollary context_of_standalone_ctxs : forall l occ r,
  ctxs l = true -> ctxs r = true ->
  extract_immediate_context (l ++ occ ++ r) (length l) (length l + length occ) = occ.
Proof. intros. apply context_of_standalone; apply ctxs_hd; auto using ctxs_rev. Qed.

(* the hypothesis is on the two NEIGHBOURS only; what else stands on the line is irrelevant now that
   the context is taken at the match's own column (own_column_context at the end) *)

(* ------------------------------------------------------------------------------------------ *)
(* the first-letter fix-up is a no-op between two renderings in the same style                *)
(* ------------------------------------------------------------------------------------------ *)
Lemma first_letter_fix_same_style acr sw rw S :
  all_neutral acr sw = true -> sw <> [] -> all_neutral acr rw = true -> rw <> [] ->
  first_letter_fix (to_style acr sw S) (to_style acr rw S) = to_style acr rw S.
Proof.
  intros Hs Hsne Hr Hrne.
  destruct (to_style_first acr sw S Hs Hsne) as (c & s' & Hc & ->).
  destruct (to_style_first acr rw S Hr Hrne) as (d & t' & Hd & ->).
  unfold first_letter_fix. rewrite (hd_byte_upper S c Hc), (hd_byte_lower S d Hd).
  destruct (low_hd S); reflexivity.
Qed.

(* ------------------------------------------------------------------------------------------ *)
(* the edit a hunk stands for                                                                 *)
(* ------------------------------------------------------------------------------------------ *)
Definition edit_of_thunk (h : thunk) : edit :=
  {| Edits.e_start := t_start h; e_stop := t_end h; e_old := t_content h; e_new := t_replace h |}.

Lemma alpha_not_cont x : is_alpha x = true -> is_cont x = false.
Proof. unfold is_cont. intro H. bsolve. Qed.

Lemma apply_single_edit dl occ dr new :
  hd_is is_alpha occ = true -> head_ok dr = true ->
  apply_edits_rev (dl ++ occ ++ dr)
    [{| Edits.e_start := length dl; e_stop := length dl + length occ; e_old := occ; e_new := new |}]
  = Ok (dl ++ new ++ dr).
Proof.
  intros Ho Hd.
  assert (Hb1 : char_boundary (dl ++ occ ++ dr) (length dl) = true).
  { unfold char_boundary. rewrite nth_error_app2 by lia. rewrite Nat.sub_diag.
    destruct occ as [|x occ]; [discriminate|]. cbn [app nth_error hd_is] in *.
    rewrite (alpha_not_cont x Ho). reflexivity. }
  assert (Hb2 : char_boundary (dl ++ occ ++ dr) (length dl + length occ) = true).
  { unfold char_boundary. rewrite app_assoc, <- app_length, nth_error_app2 by lia. rewrite Nat.sub_diag.
    destruct dr as [|y dr]; cbn [nth_error].
    - rewrite app_nil_r. apply Nat.eqb_refl.
    - exact Hd. }
  unfold apply_edits_rev. cbn [sort_edits fold_right ins_edit ordered_from Edits.e_start e_stop].
  replace (Nat.leb (length dl) (length dl + length occ)) with true by (symmetry; apply Nat.leb_le; lia).
  cbn [Nat.leb andb]. unfold apply_edits_pos. cbn [rev app apply_rev_aux Edits.e_start e_stop e_old e_new].
  assert (Hle : Nat.leb (length dl + length occ) (length (dl ++ occ ++ dr)) = true)
    by (apply Nat.leb_le; rewrite !app_length; lia).
  unfold str_slice, replace_range.
  replace (Nat.leb (length dl) (length dl + length occ)) with true by (symmetry; apply Nat.leb_le; lia).
  rewrite Hle, Hb1, Hb2. cbn [andb].
  replace (length dl + length occ - length dl) with (length occ) by lia.
  rewrite skipn_app_exact, firstn_app_exact, beq_refl.
  rewrite firstn_app_exact, skipn_app_exact2. reflexivity.
Qed.

(* ------------------------------------------------------------------------------------------ *)
(* the core computation: one exact, unambiguous match at its own column                       *)
(* ------------------------------------------------------------------------------------------ *)
Lemma nonl_existsb s : nonl s = negb (existsb (N.eqb 10) s).
Proof.
  induction s as [|x s IH]; [reflexivity|]. cbn [nonl forallb existsb]. fold (nonl s).
  rewrite IH, negb_orb, (N.eqb_sym 10 x). reflexivity.
Qed.

Section Core.
Variable acr : acr_tab.
Variable resolve : bytes -> bytes -> bytes -> bytes -> nat -> style.
Variable coercion_fires : bytes -> bytes -> bytes -> bool.
Variable coerce_variant : bytes -> bytes -> bytes -> option bytes.
Variable compound_note : bytes -> bytes -> bytes -> bool.
Variable line_excluded : bytes -> bool.

(* THE assumed fact about coercion::apply_coercion (coercion.rs 534-540): after extract_prefix has
   set a leading "__" or "_" aside, a container equal to old_pattern up to case yields None *)
Hypothesis coercion_early_return : forall container old new,
  lower (strip_us_prefix container) = lower old -> coercion_fires container old new = false.

Lemma coercion_silent_on_standalone occ new :
  hd_is is_alpha occ = true -> coercion_fires occ occ new = false.
Proof.
  intro H. apply coercion_early_return. f_equal.
  destruct occ as [|x occ]; [reflexivity|]. cbn [hd_is] in H. cbn [strip_us_prefix].
  destruct (x =? 95)%N eqn:E; [|reflexivity]. apply N.eqb_eq in E. subst x. discriminate H.
Qed.

Lemma hunk_core o vm c repl m line l2 occ r1 new :
  e_variant m = occ -> e_text m = occ ->
  nth_error (lines_wt c) (e_line m - 1) = Some line -> line = l2 ++ occ ++ r1 -> e_col m = length l2 ->
  hd_is is_ident_char (rev l2) = false -> hd_is is_ident_char r1 = false -> hd_is is_alpha occ = true ->
  is_ambiguous acr occ gen_all_styles = false -> amap_get occ vm = Some new ->
  first_letter_fix occ new = new ->
  mem occ (o_exclude_match o) = false -> line_excluded line = false ->
  hunk_of_match acr resolve coercion_fires coerce_variant compound_note line_excluded o vm c repl m =
  Some {| t_line := e_line m; t_col := e_col m; t_start := Enhanced.e_start m; t_end := e_end m;
          t_variant := occ; t_content := occ; t_replace := new;
          t_before := line; t_after := l2 ++ new ++ r1; t_note := false |}.
Proof.
  intros Hv Ht Hnth Hline Hcol Hl Hr Hs Hamb Hget Hfix Hmem Hexcl.
  assert (Hat : has_at line occ (length l2) = true) by (rewrite Hline; apply has_at_app).
  assert (Hctx : extract_immediate_context line (length l2) (length l2 + length occ) = occ)
    by (rewrite Hline; apply context_of_standalone; assumption).
  assert (Hafter : line_after_of line occ new (length l2) = l2 ++ new ++ r1).
  { unfold line_after_of. rewrite Hat, Hline, firstn_app_exact, skipn_app_exact2. reflexivity. }
  unfold hunk_of_match, hunk_pre, ambiguous_all. rewrite Hv, Ht, Hamb, andb_false_r, Hmem.
  cbn [orb]. rewrite Hnth, Hexcl, Hget, Hcol, (match_pos_own _ _ _ Hat), Hctx.
  assert (Hstep : forall ctx, ctx = None \/ ctx = Some occ ->
            coerce_step coercion_fires coerce_variant compound_note occ
              {| p_line := line; p_compound := false; p_replace := new; p_ctx := ctx |} = (new, false)).
  { intros ctx [->| ->]; unfold coerce_step; cbn [p_ctx p_compound p_replace]; [reflexivity|].
    rewrite coercion_silent_on_standalone by exact Hs. reflexivity. }
  destruct (o_coerce_auto o); cbn [option_map]; unfold hunk_post; rewrite Hv;
    rewrite Hstep by auto; cbn [p_line]; rewrite Hfix, Hcol, Hafter; reflexivity.
Qed.

End Core.

(* ------------------------------------------------------------------------------------------ *)
(* T4: the filters, and generate_hunks as an order-preserving selection of the per-match hunks *)
(* ------------------------------------------------------------------------------------------ *)
Section Filters.
Variable acr : acr_tab.
Variable resolve : bytes -> bytes -> bytes -> bytes -> nat -> style.
Variable coercion_fires : bytes -> bytes -> bytes -> bool.
Variable coerce_variant : bytes -> bytes -> bytes -> option bytes.
Variable compound_note : bytes -> bytes -> bytes -> bool.
Variable line_excluded : bytes -> bool.
Variable o : hopts.
Variable vm : amap.
Variable c repl : bytes.

Let hom := hunk_of_match acr resolve coercion_fires coerce_variant compound_note line_excluded o vm c repl.
Let gen := generate_hunks acr resolve coercion_fires coerce_variant compound_note line_excluded o vm c repl.

Theorem excluded_match_filtered m :
  mem (e_variant m) (o_exclude_match o) = true \/ mem (e_text m) (o_exclude_match o) = true -> hom m = None.
Proof.
  intro H. unfold hom, hunk_of_match, hunk_pre.
  destruct (o_ignore_ambiguous o && ambiguous_all acr (e_variant m)); [reflexivity|].
  replace (mem (e_variant m) (o_exclude_match o) || mem (e_text m) (o_exclude_match o)) with true; [reflexivity|].
  symmetry. apply orb_true_iff. exact H.
Qed.

Theorem excluded_line_filtered m line :
  nth_error (lines_wt c) (e_line m - 1) = Some line -> line_excluded line = true -> hom m = None.
Proof.
  intros Hn He. unfold hom, hunk_of_match, hunk_pre.
  destruct (o_ignore_ambiguous o && ambiguous_all acr (e_variant m)); [reflexivity|].
  destruct (mem (e_variant m) (o_exclude_match o) || mem (e_text m) (o_exclude_match o)); [reflexivity|].
  rewrite Hn, He. reflexivity.
Qed.

Theorem line_out_of_range_filtered m :
  length (lines_wt c) <= e_line m - 1 -> hom m = None.
Proof.
  intro H. unfold hom, hunk_of_match, hunk_pre.
  destruct (o_ignore_ambiguous o && ambiguous_all acr (e_variant m)); [reflexivity|].
  destruct (mem (e_variant m) (o_exclude_match o) || mem (e_text m) (o_exclude_match o)); [reflexivity|].
  apply nth_error_None in H. rewrite H. reflexivity.
Qed.

Theorem ignored_ambiguous_filtered m :
  o_ignore_ambiguous o = true -> is_ambiguous acr (e_variant m) gen_all_styles = true -> hom m = None.
Proof. intros H1 H2. unfold hom, hunk_of_match, hunk_pre, ambiguous_all. rewrite H1, H2. reflexivity. Qed.

(* what a hunk records about its match *)
Theorem hunk_records_match m h : hom m = Some h ->
  t_line h = e_line m /\ t_col h = e_col m /\ t_start h = Enhanced.e_start m /\ t_end h = e_end m /\
  t_variant h = e_variant m /\ t_content h = e_variant m /\
  nth_error (lines_wt c) (e_line m - 1) = Some (t_before h) /\ line_excluded (t_before h) = false /\
  mem (e_variant m) (o_exclude_match o) = false /\ mem (e_text m) (o_exclude_match o) = false.
Proof.
  unfold hom, hunk_of_match, hunk_pre.
  destruct (o_ignore_ambiguous o && ambiguous_all acr (e_variant m)); [discriminate|].
  destruct (mem (e_variant m) (o_exclude_match o)) eqn:E1; [discriminate|].
  destruct (mem (e_text m) (o_exclude_match o)) eqn:E2; [discriminate|]. cbn [orb].
  destruct (nth_error (lines_wt c) (e_line m - 1)) as [line|] eqn:En; [|discriminate].
  destruct (line_excluded line) eqn:Ex; [discriminate|].
  destruct (amap_get (e_variant m) vm) as [v|]; [destruct (ambiguous_all acr (e_variant m))|];
    cbn [option_map]; unfold hunk_post;
    match goal with |- context [coerce_step ?a ?b ?c ?d ?e] => destruct (coerce_step a b c d e) as [r1 note] end;
    intro H; inversion H; subst h; cbn [t_line t_col t_start t_end t_variant t_content t_before p_line];
    rewrite ?Ex; repeat split; reflexivity.
Qed.

(* generate_hunks keeps the order of the matches and drops exactly the filtered ones *)
Theorem generate_hunks_app ms1 ms2 : gen (ms1 ++ ms2) = gen ms1 ++ gen ms2.
Proof. unfold gen, generate_hunks. apply flat_map_app. Qed.

Theorem generate_hunks_In h ms : In h (gen ms) <-> exists m, In m ms /\ hom m = Some h.
Proof.
  unfold gen, generate_hunks. rewrite in_flat_map. split; intros (m & Hm & H); exists m; split; auto; fold (hom m) in *.
  - destruct (hom m) as [h'|]; [|contradiction]. destruct H as [->|[]]. reflexivity.
  - rewrite H. left. reflexivity.
Qed.

Definition kept (m : ematch) : bool := match hom m with Some _ => true | None => false end.

Theorem generate_hunks_count ms : length (gen ms) = length (filter kept ms).
Proof.
  unfold gen, generate_hunks, kept. induction ms as [|m ms IH]; [reflexivity|].
  cbn [flat_map filter]. fold (hom m). destruct (hom m); cbn [app length]; rewrite IH; reflexivity.
Qed.

(* the recorded spans are the spans of the kept matches, in order *)
Theorem generate_hunks_spans ms :
  map (fun h => (t_line h, t_col h, t_start h, t_end h, t_variant h)) (gen ms) =
  map (fun m => (e_line m, e_col m, Enhanced.e_start m, e_end m, e_variant m)) (filter kept ms).
Proof.
  induction ms as [|m ms IH]; [reflexivity|].
  change (gen (m :: ms)) with (gen ([m] ++ ms)). rewrite generate_hunks_app, map_app, IH.
  unfold gen at 1, generate_hunks, kept. cbn [flat_map filter]. fold (hom m).
  destruct (hom m) as [h|] eqn:E; [|reflexivity].
  destruct (hunk_records_match m h E) as (H1 & H2 & H3 & H4 & H5 & _).
  cbn [app map]. rewrite H1, H2, H3, H4, H5. reflexivity.
Qed.

Corollary generate_hunks_le ms : length (gen ms) <= length ms.
Proof.
  rewrite generate_hunks_count. induction ms as [|m ms IH]; [reflexivity|].
  cbn [filter]. destruct (kept m); cbn [length]; lia.
Qed.

End Filters.

(* ------------------------------------------------------------------------------------------ *)
(* T3: the hunk of a standalone occurrence                                                    *)
(* ------------------------------------------------------------------------------------------ *)
Lemma to_style_nonl acr ws S : all_neutral acr ws = true -> 2 <= length ws -> nonl (to_style acr ws S) = true.
Proof.
  intros Hn Hlen. rewrite nonl_existsb, (to_style_render acr ws S Hn).
  rewrite (flag_class acr ws Hn Hlen (N.eqb 10) S).
  - rewrite (good_list_no_byte acr _ ws 10%N eq_refl (toks_of_good acr S ws Hn)). reflexivity.
  - intros d Hd. destruct (10 =? d)%N eqn:E; [|reflexivity]. apply N.eqb_eq in E. subst d. discriminate Hd.
Qed.

Lemma hd_after_nl (p : N -> bool) s : hd_is p (rev s) = false -> hd_is p (rev (after_nl s)) = false.
Proof.
  unfold after_nl. rewrite rev_involutive. destruct (rev s) as [|x l]; [reflexivity|].
  cbn [take_nonl hd_is]. destruct (x =? 10)%N; [reflexivity|]. cbn [hd_is]. auto.
Qed.

Lemma hd_upto_nl (p : N -> bool) s : hd_is p s = false -> hd_is p (upto_nl s) = false.
Proof. destruct s as [|x l]; [reflexivity|]. cbn [upto_nl hd_is]. destruct (x =? 10)%N; cbn [hd_is]; auto. Qed.

(* Strongest form (possible since the context is taken at the match's own column): the file is
   dl ++ occ ++ dr with dl and dr ARBITRARY bytes — letters, other identifiers, earlier copies of the
   occurrence, other lines — except that the byte before the occurrence and the byte after it, if
   any, are not alphanumeric, '_' or '-' (and dr does not begin with a UTF-8 continuation byte:
   always true in the ASCII domain).  For the pre-hunk match of the occurrence (the scanner's
   find_matches need not return only this match once dl, dr contain letters, so the statement is
   about this match inside ANY pre-hunk list): its hunk is occ -> to_style acr rw S, spliced at its
   own column, without coercion, and the edit gives dl ++ to_style acr rw S ++ dr.
   Options arbitrary except that occ is not listed in exclude_match and its line is not excluded. *)
Theorem standalone_hunk_any_context :
  forall acr resolve coercion_fires coerce_variant compound_note line_excluded o repl
         defaults amb S0 S1 S sw rw styles dl dr,
  (forall container old new,
     lower (strip_us_prefix container) = lower old -> coercion_fires container old new = false) ->
  wf_acr acr = true -> visible S0 = true -> visible S1 = true -> visible S = true ->
  2 <= length sw -> rw <> [] -> all_neutral acr sw = true -> all_neutral acr rw = true ->
  In S styles ->
  hd_is is_ident_char (rev dl) = false -> hd_is is_ident_char dr = false -> head_ok dr = true ->
  let vm := variant_map_core acr defaults [] [] false amb (to_style acr sw S0) (to_style acr rw S1)
              (Some styles) in
  let occ := to_style acr sw S in
  let new := to_style acr rw S in
  let c := dl ++ occ ++ dr in
  let line := after_nl dl ++ occ ++ upto_nl dr in
  mem occ (o_exclude_match o) = false -> line_excluded line = false ->
  let m := mk_ematch (line_of c (length dl)) (col_of c (length dl)) (length dl) (length dl + length occ)
             occ occ in
  let h := {| t_line := line_of c (length dl); t_col := length (after_nl dl);
              t_start := length dl; t_end := length dl + length occ;
              t_variant := occ; t_content := occ; t_replace := new;
              t_before := line; t_after := after_nl dl ++ new ++ upto_nl dr; t_note := false |} in
  hunk_of_match acr resolve coercion_fires coerce_variant compound_note line_excluded o vm c repl m = Some h /\
  (forall ms, In m ms ->
     In h (generate_hunks acr resolve coercion_fires coerce_variant compound_note line_excluded o vm c repl ms)) /\
  apply_edits_rev c [edit_of_thunk h] = Ok (dl ++ new ++ dr).
Proof.
  intros acr resolve coercion_fires coerce_variant compound_note line_excluded o repl
         defaults amb S0 S1 S sw rw styles dl dr Hearly Hwf Hv0 Hv1 Hv Hlen Hrne Hns Hnr Hin Hdl Hdr Hhd
         vm occ new c line Hmem Hexcl m h.
  assert (Hsne : sw <> []) by (clear - Hlen; destruct sw; [cbn [length] in Hlen; lia|discriminate]).
  destruct (C06_standalone_ctx acr defaults amb S0 S1 S sw rw styles [] []
              Hwf Hv0 Hv1 Hv Hlen Hrne Hns Hnr Hin eq_refl eq_refl) as [_ Hget].
  fold vm occ in Hget. fold new in Hget.
  destruct (occ_shape acr sw Hsne Hns S) as (Hs & _). fold occ in Hs.
  assert (Honl : nonl occ = true) by (apply to_style_nonl; assumption).
  assert (Hone : occ <> []) by (apply to_style_ne; assumption).
  destruct (line_of_standalone dl occ dr Honl Hone) as [Hnth Hcol]. fold c in Hnth, Hcol.
  destruct (visible_unambiguous acr sw S Hns Hlen Hv) as [_ Hamb]. fold occ in Hamb.
  pose proof (first_letter_fix_same_style acr sw rw S Hns Hsne Hnr Hrne) as Hfix. fold occ new in Hfix.
  assert (Hh : hunk_of_match acr resolve coercion_fires coerce_variant compound_note line_excluded o vm c repl m
               = Some h).
  { rewrite (hunk_core acr resolve coercion_fires coerce_variant compound_note line_excluded Hearly
               o vm c repl m line (after_nl dl) occ (upto_nl dr) new);
      try reflexivity; try assumption.
    - unfold h, m. cbn [e_line e_col Enhanced.e_start e_end]. rewrite Hcol. reflexivity.
    - apply hd_after_nl, Hdl.
    - apply hd_upto_nl, Hdr. }
  split; [exact Hh|]. split.
  - intros ms Hms. apply generate_hunks_In. exists m. auto.
  - unfold edit_of_thunk, h. cbn [t_start t_end t_content t_replace]. apply apply_single_edit; assumption.
Qed.

(* The file-level form: dl and dr are any bytes that are neither alphanumeric nor '-' nor '_' (so they
   may contain newlines); then the scanner has exactly one match, and generate_hunks one hunk. *)
Theorem standalone_hunk_same_style_ctx :
  forall acr resolve coercion_fires coerce_variant compound_note line_excluded o repl
         defaults amb S0 S1 S sw rw styles dl dr,
  (forall container old new,
     lower (strip_us_prefix container) = lower old -> coercion_fires container old new = false) ->
  wf_acr acr = true -> visible S0 = true -> visible S1 = true -> visible S = true ->
  2 <= length sw -> rw <> [] -> all_neutral acr sw = true -> all_neutral acr rw = true ->
  In S styles -> ctxs dl = true -> ctxs dr = true -> head_ok dr = true ->
  let vm := variant_map_core acr defaults [] [] false amb (to_style acr sw S0) (to_style acr rw S1)
              (Some styles) in
  let occ := to_style acr sw S in
  let new := to_style acr rw S in
  let c := dl ++ occ ++ dr in
  let line := after_nl dl ++ occ ++ upto_nl dr in
  mem occ (o_exclude_match o) = false -> line_excluded line = false ->
  let h := {| t_line := line_of c (length dl); t_col := length (after_nl dl);
              t_start := length dl; t_end := length dl + length occ;
              t_variant := occ; t_content := occ; t_replace := new;
              t_before := line; t_after := after_nl dl ++ new ++ upto_nl dr; t_note := false |} in
  exists m,
    find_matches (keys vm) c = [m] /\
    hunk_of_match acr resolve coercion_fires coerce_variant compound_note line_excluded o vm c repl
      (ematch_of_exact m) = Some h /\
    generate_hunks acr resolve coercion_fires coerce_variant compound_note line_excluded o vm c repl
      (map ematch_of_exact (find_matches (keys vm) c)) = [h] /\
    apply_edits_rev c [edit_of_thunk h] = Ok (dl ++ new ++ dr).
Proof.
  intros acr resolve coercion_fires coerce_variant compound_note line_excluded o repl
         defaults amb S0 S1 S sw rw styles dl dr Hearly Hwf Hv0 Hv1 Hv Hlen Hrne Hns Hnr Hin Hdl Hdr Hhd
         vm occ new c line Hmem Hexcl h.
  destruct (C06_standalone_ctx acr defaults amb S0 S1 S sw rw styles dl dr
              Hwf Hv0 Hv1 Hv Hlen Hrne Hns Hnr Hin Hdl Hdr) as [Hfm _].
  fold vm occ c in Hfm.
  destruct (standalone_hunk_any_context acr resolve coercion_fires coerce_variant compound_note
              line_excluded o repl defaults amb S0 S1 S sw rw styles dl dr Hearly Hwf Hv0 Hv1 Hv Hlen
              Hrne Hns Hnr Hin (ctxs_hd _ (ctxs_rev _ Hdl)) (ctxs_hd _ Hdr) Hhd Hmem Hexcl) as (Hh & _ & Happ).
  fold vm occ new c line in Hh, Happ.
  eexists. split; [exact Hfm|]. split; [exact Hh|]. split; [|exact Happ].
  rewrite Hfm. cbn [map]. unfold generate_hunks. cbn [flat_map].
  change (ematch_of_exact _) with
    (mk_ematch (line_of c (length dl)) (col_of c (length dl)) (length dl) (length dl + length occ) occ occ).
  rewrite Hh. reflexivity.
Qed.

(* The form asked for: exactly the hypotheses of C06_standalone (dl, dr strings of neutral
   delimiters, hence a one-line file: line 1, column = offset), no filter options. *)
Lemma delims_nonl s : delims s = true -> nonl s = true.
Proof.
  unfold delims, nonl. apply forallb_impl. intros x Hx.
  destruct (x =? 10)%N eqn:E; [|reflexivity]. apply N.eqb_eq in E. subst x. discriminate Hx.
Qed.

Lemma delims_head_ok s : delims s = true -> head_ok s = true.
Proof.
  destruct s as [|x s]; [reflexivity|]. cbn [delims forallb head_ok]. intro H.
  apply andb_true_iff in H as [H _]. unfold is_ndelim in H. cbn [existsb] in H.
  repeat (apply orb_true_iff in H as [H|H]; [apply N.eqb_eq in H; subst x; reflexivity|]).
  discriminate H.
Qed.

Theorem standalone_hunk_same_style :
  forall acr resolve coercion_fires coerce_variant compound_note coerce_auto repl
         defaults amb S0 S1 S sw rw styles dl dr,
  (forall container old new,
     lower (strip_us_prefix container) = lower old -> coercion_fires container old new = false) ->
  wf_acr acr = true -> visible S0 = true -> visible S1 = true -> visible S = true ->
  2 <= length sw -> rw <> [] -> all_neutral acr sw = true -> all_neutral acr rw = true ->
  In S styles -> delims dl = true -> delims dr = true ->
  let vm := variant_map_core acr defaults [] [] false amb (to_style acr sw S0) (to_style acr rw S1)
              (Some styles) in
  let occ := to_style acr sw S in
  let new := to_style acr rw S in
  let c := dl ++ occ ++ dr in
  let o := {| o_ignore_ambiguous := false; o_exclude_match := []; o_coerce_auto := coerce_auto |} in
  let h := {| t_line := 1; t_col := length dl; t_start := length dl; t_end := length dl + length occ;
              t_variant := occ; t_content := occ; t_replace := new;
              t_before := c; t_after := dl ++ new ++ dr; t_note := false |} in
  exists m,
    find_matches (keys vm) c = [m] /\
    hunk_of_match acr resolve coercion_fires coerce_variant compound_note (fun _ => false) o vm c repl
      (ematch_of_exact m) = Some h /\
    generate_hunks acr resolve coercion_fires coerce_variant compound_note (fun _ => false) o vm c repl
      (map ematch_of_exact (find_matches (keys vm) c)) = [h] /\
    apply_edits_rev c [edit_of_thunk h] = Ok (dl ++ new ++ dr).
Proof.
  intros acr resolve coercion_fires coerce_variant compound_note coerce_auto repl
         defaults amb S0 S1 S sw rw styles dl dr Hearly Hwf Hv0 Hv1 Hv Hlen Hrne Hns Hnr Hin Hdl Hdr
         vm occ new c o h.
  pose proof (standalone_hunk_same_style_ctx acr resolve coercion_fires coerce_variant compound_note
                (fun _ => false) o repl defaults amb S0 S1 S sw rw styles dl dr Hearly Hwf Hv0 Hv1 Hv Hlen
                Hrne Hns Hnr Hin (delims_ctxs dl Hdl) (delims_ctxs dr Hdr) (delims_head_ok dr Hdr)
                eq_refl eq_refl) as H.
  cbv zeta in H. fold vm occ new c in H.
  rewrite (nonl_after_nl dl (delims_nonl dl Hdl)), (nonl_upto_nl dr (delims_nonl dr Hdr)) in H.
  assert (Hl1 : line_of c (length dl) = 1).
  { unfold line_of, c. rewrite firstn_app_exact, (nonl_count dl (delims_nonl dl Hdl)). reflexivity. }
  rewrite Hl1 in H. exact H.
Qed.

(* ------------------------------------------------------------------------------------------ *)
(* the in-plan form on its own, and the own-column rule at the level of hunk_pre               *)
(* ------------------------------------------------------------------------------------------ *)
(* T3 for ANY list of pre-hunk matches that contains the match of the occurrence (the scanner feeds
   generate_hunks with find_enhanced_matches, which merges exact and compound candidates), with
   ARBITRARY text before and after the occurrence apart from its two neighbouring bytes *)
Corollary standalone_hunk_in_plan :
  forall acr resolve coercion_fires coerce_variant compound_note line_excluded o repl
         defaults amb S0 S1 S sw rw styles dl dr,
  (forall container old new,
     lower (strip_us_prefix container) = lower old -> coercion_fires container old new = false) ->
  wf_acr acr = true -> visible S0 = true -> visible S1 = true -> visible S = true ->
  2 <= length sw -> rw <> [] -> all_neutral acr sw = true -> all_neutral acr rw = true ->
  In S styles ->
  hd_is is_ident_char (rev dl) = false -> hd_is is_ident_char dr = false -> head_ok dr = true ->
  let vm := variant_map_core acr defaults [] [] false amb (to_style acr sw S0) (to_style acr rw S1)
              (Some styles) in
  let occ := to_style acr sw S in
  let new := to_style acr rw S in
  let c := dl ++ occ ++ dr in
  let line := after_nl dl ++ occ ++ upto_nl dr in
  mem occ (o_exclude_match o) = false -> line_excluded line = false ->
  forall ms,
  In (mk_ematch (line_of c (length dl)) (col_of c (length dl)) (length dl) (length dl + length occ) occ occ) ms ->
  In {| t_line := line_of c (length dl); t_col := length (after_nl dl);
        t_start := length dl; t_end := length dl + length occ;
        t_variant := occ; t_content := occ; t_replace := new;
        t_before := line; t_after := after_nl dl ++ new ++ upto_nl dr; t_note := false |}
     (generate_hunks acr resolve coercion_fires coerce_variant compound_note line_excluded o vm c repl ms).
Proof.
  intros acr resolve coercion_fires coerce_variant compound_note line_excluded o repl
         defaults amb S0 S1 S sw rw styles dl dr Hearly Hwf Hv0 Hv1 Hv Hlen Hrne Hns Hnr Hin Hdl Hdr Hhd
         vm occ new c line Hmem Hexcl ms Hms.
  destruct (standalone_hunk_any_context acr resolve coercion_fires coerce_variant compound_note
              line_excluded o repl defaults amb S0 S1 S sw rw styles dl dr Hearly Hwf Hv0 Hv1 Hv Hlen
              Hrne Hns Hnr Hin Hdl Hdr Hhd Hmem Hexcl) as (_ & H & _).
  apply H, Hms.
Qed.

(* the own-column rule for EVERY match that is not filtered (exact, ambiguous or compound): in Auto
   mode, when the line has the content at the match's column, the context handed to the coercion
   oracles is computed at that column, whatever else the line contains *)
Theorem context_at_own_column :
  forall acr resolve line_excluded o vm c repl m p,
  hunk_pre acr resolve line_excluded o vm c repl m = Some p ->
  o_coerce_auto o = true ->
  has_at (p_line p) (e_variant m) (e_col m) = true ->
  p_ctx p = Some (extract_immediate_context (p_line p) (e_col m) (e_col m + length (e_variant m))).
Proof.
  intros acr resolve line_excluded o vm c repl m p H Hauto Hat. unfold hunk_pre in H.
  destruct (o_ignore_ambiguous o && ambiguous_all acr (e_variant m)); [discriminate|].
  destruct (mem (e_variant m) (o_exclude_match o) || mem (e_text m) (o_exclude_match o)); [discriminate|].
  destruct (nth_error (lines_wt c) (e_line m - 1)) as [line|]; [|discriminate].
  destruct (line_excluded line); [discriminate|].
  rewrite Hauto in H.
  destruct (amap_get (e_variant m) vm) as [v|]; [destruct (ambiguous_all acr (e_variant m))|];
    inversion H; subst p; cbn [p_line p_ctx] in *; rewrite (match_pos_own _ _ _ Hat); reflexivity.
Qed.

(* ------------------------------------------------------------------------------------------ *)
(* examples                                                                                   *)
(* ------------------------------------------------------------------------------------------ *)
(* line  my_OldName OldName : the second (standalone) OldName is an exact match at column 11.  The
   first textual occurrence of "OldName" is at 3, inside my_OldName (where the code before the fix took
   the context: my_OldName, Snake, so the standalone OldName became New_name); the context is now
   taken at column 11 and is the occurrence itself *)
Example own_column_context :
  let line := [109;121;95;79;108;100;78;97;109;101;32;79;108;100;78;97;109;101]%N in
  let occ := [79;108;100;78;97;109;101]%N in
  find_sub occ line = Some 3 /\
  extract_immediate_context line 3 (3 + length occ) = [109;121;95;79;108;100;78;97;109;101]%N /\
  has_at line occ 11 = true /\ match_pos line occ 11 = Some 11 /\
  extract_immediate_context line 11 (11 + length occ) = occ.
Proof. vm_compute. repeat split; reflexivity. Qed.

(* the hypotheses of T3 are satisfiable (the early-return fact by an oracle that never fires) ... *)
From Coq Require Import Strings.String.
From RN Require Import Base.Str Gen.GenAcronyms.
Example ex_t3_inst :=
  standalone_hunk_same_style gen_acronyms (fun _ _ _ _ _ => Snake) (fun _ _ _ => false) (fun _ _ _ => None)
    (fun _ _ _ => false) true (bs "new_title_word") gen_default_styles false Snake Snake Title ex_sw ex_rw
    gen_default_styles (bs "(") (bs ");")
    ltac:(reflexivity) ltac:(vm_compute; reflexivity) eq_refl eq_refl eq_refl
    ltac:(cbn; lia) ltac:(discriminate)
    ltac:(vm_compute; reflexivity) ltac:(vm_compute; reflexivity)
    ltac:(cbn; tauto) ltac:(vm_compute; reflexivity) ltac:(vm_compute; reflexivity).

(* ... and what the general form says on a two-line file, computed directly with an oracle that DOES
   fire whenever its early return does not apply: a Title-style occurrence, coercion Auto *)
Example ex_t3_computed :
  let fires := fun ctr old (_ : bytes) => negb (beq (lower (strip_us_prefix ctr)) (lower old)) in
  let c := bs "x = 1;" ++ [10%N] ++ bs "  (Old Name)," ++ [10%N] ++ bs "." in
  let o := {| o_ignore_ambiguous := true; o_exclude_match := [bs "old_name"]; o_coerce_auto := true |} in
  map ematch_of_exact (find_matches (keys ex_vm) c) = [mk_ematch 2 3 10 18 (bs "Old Name") (bs "Old Name")] /\
  generate_hunks gen_acronyms (fun _ _ _ _ _ => Snake) fires (fun _ _ _ => Some (bs "COERCED"))
    (fun _ _ _ => true) (fun _ => false) o ex_vm c (bs "new_title_word")
    (map ematch_of_exact (find_matches (keys ex_vm) c)) =
  [{| t_line := 2; t_col := 3; t_start := 10; t_end := 18; t_variant := bs "Old Name";
      t_content := bs "Old Name"; t_replace := bs "New Title Word";
      t_before := bs "  (Old Name)," ++ [10%N]; t_after := bs "  (New Title Word)," ++ [10%N];
      t_note := false |}].
Proof. vm_compute. split; reflexivity. Qed.

(* the formerly shadowed line, end to end, with a coercion oracle that fires whenever its early return
   does not apply and a variant oracle that would visibly corrupt the result: OldName -> NewName *)
Example ex_shadowed_line_hunk :
  let fires := fun ctr old (_ : bytes) => negb (beq (lower (strip_us_prefix ctr)) (lower old)) in
  let vm := variant_map_core gen_acronyms gen_default_styles [] [] false false
              (bs "old_name") (bs "new_name") (Some gen_default_styles) in
  let c := bs "my_OldName OldName" ++ [10%N] in
  let o := {| o_ignore_ambiguous := false; o_exclude_match := []; o_coerce_auto := true |} in
  hunk_of_match gen_acronyms (fun _ _ _ _ _ => Snake) fires (fun _ _ _ => Some (bs "COERCED"))
    (fun _ _ _ => true) (fun _ => false) o vm c (bs "new_name")
    (mk_ematch 1 11 11 18 (bs "OldName") (bs "OldName")) =
  Some {| t_line := 1; t_col := 11; t_start := 11; t_end := 18; t_variant := bs "OldName";
          t_content := bs "OldName"; t_replace := bs "NewName";
          t_before := c; t_after := bs "my_OldName NewName" ++ [10%N]; t_note := false |}.
Proof. vm_compute. reflexivity. Qed.

Print Assumptions context_of_standalone.
Print Assumptions standalone_hunk_any_context.
Print Assumptions standalone_hunk_same_style_ctx.
Print Assumptions standalone_hunk_same_style.
Print Assumptions standalone_hunk_in_plan.
Print Assumptions context_at_own_column.
Print Assumptions match_pos_own.
Print Assumptions excluded_match_filtered.
Print Assumptions excluded_line_filtered.
Print Assumptions hunk_records_match.
Print Assumptions generate_hunks_spans.
Print Assumptions generate_hunks_count.
Print Assumptions ex_t3_inst.
