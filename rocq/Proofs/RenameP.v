(* Proofs/RenameP.v — the rename stage of apply_plan reaches the specified final path
   (path level).  The renames are sorted (directories first, shallow first; files deepest
   first), each one is re-based on the renames already performed, and the composition of the
   issued rename(2) calls sends every path to [final_path rs p].
   Stdlib only, no axioms. *)
From Coq Require Import List Arith Lia Bool Permutation Sorted.
From RN Require Import Base.Bytes Model.Edits Model.Fs Model.ApplyModel.
Import ListNotations.

(* ------------------------------------------------------------------------------------ *)
(* Definitions of the statement                                                        *)
(* ------------------------------------------------------------------------------------ *)

(* the sequence of actual (from, to) renames that rename_stage issues *)
Fixpoint stage_steps (rs : list aren) (performed : list (path * path)) : list (path * path) :=
  match rs with
  | [] => []
  | r :: rs' =>
      let from := adjust performed (ar_path r) in
      let to := adjust performed (ar_new r) in
      (from, to) :: stage_steps rs' (performed ++ [(ar_path r, to)])
  end.

(* the bookkeeping list after the stage *)
Fixpoint stage_perf (rs : list aren) (performed : list (path * path)) : list (path * path) :=
  match rs with
  | [] => performed
  | r :: rs' => stage_perf rs' (performed ++ [(ar_path r, adjust performed (ar_new r))])
  end.

(* where a path ends up after the renames have been executed one after the other *)
Definition run_steps (steps : list (path * path)) (p : path) : path :=
  fold_left (fun q st => rebase (fst st) (snd st) q) steps p.

(* a rename changes only the last component *)
Definition shape (r : aren) : Prop :=
  ar_path r <> [] /\
  removelast (ar_new r) = removelast (ar_path r) /\
  length (ar_new r) = length (ar_path r).

(* order-independent conditions *)
Record wf_base (rs : list aren) : Prop := {
  wb_shape : forall r, In r rs -> shape r;
  wb_nodup : NoDup (map ar_path rs);
  (* two different renames never have the same destination *)
  wb_dest_inj : forall r1 r2, In r1 rs -> In r2 rs -> ar_new r1 = ar_new r2 -> ar_path r1 = ar_path r2;
  (* a destination (of a rename that is not the identity) is not at or above a source *)
  wb_dest_src : forall r1 r2, In r1 rs -> In r2 rs -> ar_new r1 <> ar_path r1 ->
                              path_prefix (ar_new r1) (ar_path r2) = false
}.

Record wf_renames (rs : list aren) : Prop := {
  wf_b : wf_base rs;
  (* a rename whose source is strictly above another source is a directory rename *)
  wf_dirs : forall r1 r2, In r1 rs -> In r2 rs ->
                          proper_prefix (ar_path r1) (ar_path r2) = true -> ar_dir r1 = true
}.

(* the path is not at or below a destination (of a rename that is not the identity) *)
Definition avoids (rs : list aren) (p : path) : Prop :=
  forall r, In r rs -> ar_new r <> ar_path r -> path_prefix (ar_new r) p = false.

(* the ordering property of the sorted list that the proof uses: a source strictly above
   another source is processed first *)
Definition topo (L : list aren) : Prop :=
  forall L1 r L2, L = L1 ++ r :: L2 ->
  forall r1, In r1 L1 -> proper_prefix (ar_path r) (ar_path r1) = false.

(* ------------------------------------------------------------------------------------ *)
(* Lists                                                                               *)
(* ------------------------------------------------------------------------------------ *)

Lemma skipn_app_len {A} (p t : list A) : skipn (length p) (p ++ t) = t.
Proof. induction p as [|x p IH]; cbn; auto. Qed.

Lemma firstn_app_len {A} (p t : list A) : firstn (length p) (p ++ t) = p.
Proof. induction p as [|x p IH]; cbn; [destruct t; reflexivity|]. f_equal. exact IH. Qed.

Lemma app_eq_len {A} (a b c d : list A) :
  a ++ b = c ++ d -> length a = length c -> a = c /\ b = d.
Proof.
  revert c; induction a as [|x a IH]; intros [|y c] H L; cbn in *; try discriminate; auto.
  inversion H; subst. destruct (IH c H2) as [-> ->]; [lia|]. auto.
Qed.

Lemma NoDup_app_l {A} (a b : list A) : NoDup (a ++ b) -> NoDup a.
Proof.
  induction a as [|x a IH]; cbn; intro H; [constructor|]. inversion H; subst.
  constructor; [|apply IH; assumption]. intro I. apply H2. apply in_or_app. auto.
Qed.

Lemma snoc_cases {A} (l : list A) : l = [] \/ exists l' x, l = l' ++ [x].
Proof.
  destruct l as [|a l]; [left; reflexivity|right].
  destruct (@exists_last A (a :: l)) as [l' [x E]]; [discriminate|]. eauto.
Qed.

(* ------------------------------------------------------------------------------------ *)
(* Paths                                                                               *)
(* ------------------------------------------------------------------------------------ *)

Lemma path_eqb_eq p q : path_eqb p q = true <-> p = q.
Proof.
  revert q; induction p as [|a p IH]; intros [|b q]; cbn [path_eqb]; split; intro H;
    try reflexivity; try discriminate.
  - apply andb_true_iff in H as [H1 H2]. apply beq_eq in H1. apply IH in H2. congruence.
  - inversion H; subst. rewrite beq_refl. cbn. apply IH. reflexivity.
Qed.

Lemma path_eqb_refl p : path_eqb p p = true.
Proof. apply path_eqb_eq. reflexivity. Qed.

Lemma path_eqb_neq p q : path_eqb p q = false <-> p <> q.
Proof.
  split; intro H.
  - intro E. apply path_eqb_eq in E. congruence.
  - destruct (path_eqb p q) eqn:E; [|reflexivity]. apply path_eqb_eq in E. contradiction.
Qed.

Lemma path_prefix_spec p q : path_prefix p q = true <-> exists t, q = p ++ t.
Proof.
  revert q; induction p as [|a p IH]; intros q; cbn [path_prefix].
  - split; [intros _; exists q; reflexivity | reflexivity].
  - destruct q as [|b q]; [split; [discriminate | intros [t H]; discriminate]|].
    split.
    + intro H. apply andb_true_iff in H as [H1 H2]. apply beq_eq in H1. subst b.
      apply IH in H2 as [t ->]. exists t. reflexivity.
    + intros [t H]. inversion H; subst. rewrite beq_refl. cbn. apply IH. exists t. reflexivity.
Qed.

Lemma path_prefix_app p t : path_prefix p (p ++ t) = true.
Proof. apply path_prefix_spec. eauto. Qed.

Lemma path_prefix_refl p : path_prefix p p = true.
Proof. apply path_prefix_spec. exists []. rewrite app_nil_r. reflexivity. Qed.

Lemma path_prefix_app_r p q t : path_prefix p q = true -> path_prefix p (q ++ t) = true.
Proof.
  intro H. apply path_prefix_spec in H as [u ->]. rewrite <- app_assoc. apply path_prefix_app.
Qed.

Lemma path_prefix_length p q : path_prefix p q = true -> (length p <= length q)%nat.
Proof. intro H. apply path_prefix_spec in H as [u ->]. rewrite app_length. lia. Qed.

Lemma path_prefix_same_length p q :
  path_prefix p q = true -> length p = length q -> p = q.
Proof.
  intros H L. apply path_prefix_spec in H as [u ->]. rewrite app_length in L.
  destruct u; [rewrite app_nil_r; reflexivity | cbn in L; lia].
Qed.

Lemma proper_prefix_spec p q : proper_prefix p q = true <-> exists t, t <> [] /\ q = p ++ t.
Proof.
  unfold proper_prefix. rewrite andb_true_iff, negb_true_iff, path_prefix_spec, path_eqb_neq.
  split.
  - intros [[t ->] N]. exists t. split; [|reflexivity]. intros ->. rewrite app_nil_r in N. auto.
  - intros [t [N ->]]. split; [eauto|]. intro E. apply N.
    rewrite <- (app_nil_r p) in E at 1. apply app_inv_head in E. auto.
Qed.

Lemma proper_prefix_length p q : proper_prefix p q = true -> (length p < length q)%nat.
Proof.
  intro H. apply proper_prefix_spec in H as [t [N ->]]. rewrite app_length.
  destruct t; [contradiction | cbn; lia].
Qed.

Lemma proper_prefix_irrefl p : proper_prefix p p = false.
Proof. unfold proper_prefix. rewrite path_eqb_refl, path_prefix_refl. reflexivity. Qed.

Lemma rebase_hit s d t : rebase s d (s ++ t) = d ++ t.
Proof. unfold rebase. rewrite path_prefix_app, skipn_app_len. reflexivity. Qed.

Lemma rebase_miss s d q : path_prefix s q = false -> rebase s d q = q.
Proof. unfold rebase. intros ->. reflexivity. Qed.

(* ------------------------------------------------------------------------------------ *)
(* The sort                                                                            *)
(* ------------------------------------------------------------------------------------ *)

Definition rle (a b : aren) : Prop := ren_le a b = true.

Lemma ren_le_total a b : ren_le a b = true \/ ren_le b a = true.
Proof.
  unfold ren_le. destruct (ar_dir a), (ar_dir b); auto; rewrite !Nat.leb_le; lia.
Qed.

Lemma ren_le_trans a b c : ren_le a b = true -> ren_le b c = true -> ren_le a c = true.
Proof.
  unfold ren_le. destruct (ar_dir a), (ar_dir b), (ar_dir c); auto; try discriminate;
    rewrite !Nat.leb_le; lia.
Qed.

Lemma ins_ren_perm r l : Permutation (r :: l) (ins_ren r l).
Proof.
  induction l as [|x l IH]; cbn [ins_ren]; [apply Permutation_refl|].
  destruct (negb (ren_le r x)); [|apply Permutation_refl].
  eapply Permutation_trans; [apply perm_swap|]. apply perm_skip. exact IH.
Qed.

Theorem sort_renames_perm rs : Permutation (sort_renames rs) rs.
Proof.
  unfold sort_renames. induction rs as [|r rs IH]; cbn [fold_right]; [apply Permutation_refl|].
  eapply Permutation_trans; [apply Permutation_sym, ins_ren_perm|]. apply perm_skip. exact IH.
Qed.

Lemma ins_ren_sorted r l : StronglySorted rle l -> StronglySorted rle (ins_ren r l).
Proof.
  induction l as [|x l IH]; intro S; cbn [ins_ren].
  - constructor; constructor.
  - apply StronglySorted_inv in S as [S F]. destruct (ren_le r x) eqn:R; cbn [negb].
    + constructor; [constructor; assumption|].
      constructor; [exact R|]. rewrite Forall_forall in *. intros y Hy.
      eapply ren_le_trans; [exact R|]. apply F. exact Hy.
    + assert (E : ren_le x r = true) by (destruct (ren_le_total r x); congruence).
      constructor; [apply IH; exact S|].
      apply Forall_forall. intros y Hy.
      apply (Permutation_in _ (Permutation_sym (ins_ren_perm r l))) in Hy.
      destruct Hy as [<- | Hy]; [exact E|]. rewrite Forall_forall in F. apply F. exact Hy.
Qed.

Lemma sort_renames_sorted rs : StronglySorted rle (sort_renames rs).
Proof.
  unfold sort_renames. induction rs as [|r rs IH]; cbn [fold_right]; [constructor|].
  apply ins_ren_sorted. exact IH.
Qed.

Lemma sorted_before L1 r L2 r1 :
  StronglySorted rle (L1 ++ r :: L2) -> In r1 L1 -> ren_le r1 r = true.
Proof.
  induction L1 as [|x L1 IH]; intros S I; [contradiction|].
  cbn in S. apply StronglySorted_inv in S as [S F]. destruct I as [<- | I].
  - rewrite Forall_forall in F. apply F. apply in_or_app. right. left. reflexivity.
  - apply IH; assumption.
Qed.

(* whatever precedes b in the sorted list is ren_le b *)
Theorem sort_renames_ordered rs L1 a L2 b L3 :
  sort_renames rs = L1 ++ a :: L2 ++ b :: L3 -> ren_le a b = true.
Proof.
  intro E. pose proof (sort_renames_sorted rs) as S. rewrite E in S.
  replace (L1 ++ a :: L2 ++ b :: L3) with ((L1 ++ a :: L2) ++ b :: L3) in S
    by (rewrite <- app_assoc; reflexivity).
  eapply sorted_before; [exact S|]. apply in_or_app. right. left. reflexivity.
Qed.

(* every directory rename precedes every file rename; directories are in non-decreasing depth *)
Theorem sort_renames_dirs_first rs L1 a L2 b L3 :
  sort_renames rs = L1 ++ a :: L2 ++ b :: L3 -> ar_dir b = true ->
  ar_dir a = true /\ (length (ar_path a) <= length (ar_path b))%nat.
Proof.
  intros E Hb. pose proof (sort_renames_ordered _ _ _ _ _ _ E) as R. unfold ren_le in R.
  rewrite Hb in R. destruct (ar_dir a); [|discriminate]. apply Nat.leb_le in R. auto.
Qed.

(* whatever follows a file rename is a file rename, not deeper *)
Theorem sort_renames_files_last rs L1 a L2 b L3 :
  sort_renames rs = L1 ++ a :: L2 ++ b :: L3 -> ar_dir a = false ->
  ar_dir b = false /\ (length (ar_path b) <= length (ar_path a))%nat.
Proof.
  intros E Ha. pose proof (sort_renames_ordered _ _ _ _ _ _ E) as R. unfold ren_le in R.
  rewrite Ha in R. destruct (ar_dir b); [discriminate|]. apply Nat.leb_le in R. auto.
Qed.

Lemma sort_renames_topo rs :
  (forall r1 r2, In r1 rs -> In r2 rs ->
                 proper_prefix (ar_path r1) (ar_path r2) = true -> ar_dir r1 = true) ->
  topo (sort_renames rs).
Proof.
  intros D L1 r L2 E r1 I.
  destruct (proper_prefix (ar_path r) (ar_path r1)) eqn:P; [exfalso|reflexivity].
  pose proof (sort_renames_sorted rs) as S. rewrite E in S.
  pose proof (sorted_before _ _ _ _ S I) as R.
  assert (Ir : In r rs).
  { apply (Permutation_in _ (sort_renames_perm rs)). rewrite E. apply in_or_app. right. left. reflexivity. }
  assert (Ir1 : In r1 rs).
  { apply (Permutation_in _ (sort_renames_perm rs)). rewrite E. apply in_or_app. left. exact I. }
  pose proof (D r r1 Ir Ir1 P) as Dr. apply proper_prefix_length in P.
  unfold ren_le in R. rewrite Dr in R. destruct (ar_dir r1); [|discriminate].
  apply Nat.leb_le in R. lia.
Qed.

Lemma topo_app_l L1 L2 : topo (L1 ++ L2) -> topo L1.
Proof.
  intros T A r B E r1 I. apply (T A r (B ++ L2)); [|exact I].
  rewrite E. rewrite <- app_assoc. reflexivity.
Qed.

(* ------------------------------------------------------------------------------------ *)
(* new_name_of and final_path                                                          *)
(* ------------------------------------------------------------------------------------ *)

Lemma new_name_of_none rs pre :
  new_name_of rs pre = None <-> forall r, In r rs -> ar_path r <> pre.
Proof.
  unfold new_name_of. induction rs as [|x rs IH]; cbn [find].
  - split; [intros _ r []|reflexivity].
  - destruct (path_eqb (ar_path x) pre) eqn:E.
    + split; [discriminate|]. intro H. exfalso. apply (H x); [left; reflexivity|].
      apply path_eqb_eq. exact E.
    + rewrite IH. apply path_eqb_neq in E. split.
      * intros H r [<- | I]; auto.
      * intros H r I. apply H. right. exact I.
Qed.

Lemma new_name_of_some rs pre n :
  new_name_of rs pre = Some n ->
  exists r, In r rs /\ ar_path r = pre /\ n = last (ar_new r) [].
Proof.
  unfold new_name_of. destruct (find _ rs) as [r|] eqn:E; [|discriminate].
  intro H. inversion H; subst. apply find_some in E as [I P]. apply path_eqb_eq in P.
  exists r. auto.
Qed.

Lemma new_name_of_snoc rs r pre :
  new_name_of (rs ++ [r]) pre =
  match new_name_of rs pre with
  | Some n => Some n
  | None => if path_eqb (ar_path r) pre then Some (last (ar_new r) []) else None
  end.
Proof.
  unfold new_name_of. induction rs as [|x rs IH]; cbn [find app].
  - destruct (path_eqb (ar_path r) pre); reflexivity.
  - destruct (path_eqb (ar_path x) pre); [reflexivity|]. exact IH.
Qed.

Lemma new_name_of_in rs r :
  NoDup (map ar_path rs) -> In r rs -> new_name_of rs (ar_path r) = Some (last (ar_new r) []).
Proof.
  unfold new_name_of. induction rs as [|x rs IH]; intros N I; [contradiction|].
  cbn [find]. cbn in N. inversion N as [|? ? Nx N']; subst. destruct I as [-> | I].
  - rewrite path_eqb_refl. reflexivity.
  - destruct (path_eqb (ar_path x) (ar_path r)) eqn:E.
    + exfalso. apply path_eqb_eq in E. apply Nx. rewrite E. apply in_map. exact I.
    + apply IH; assumption.
Qed.

Lemma new_name_of_perm rs rs' pre :
  Permutation rs rs' -> NoDup (map ar_path rs) -> new_name_of rs pre = new_name_of rs' pre.
Proof.
  intros P N.
  assert (N' : NoDup (map ar_path rs')).
  { eapply Permutation_NoDup; [apply Permutation_map; exact P|exact N]. }
  destruct (new_name_of rs pre) as [n|] eqn:E.
  - apply new_name_of_some in E as [r [I [<- ->]]]. symmetry. apply new_name_of_in; [exact N'|].
    eapply Permutation_in; eassumption.
  - symmetry. apply new_name_of_none. intros r I. rewrite new_name_of_none in E. apply E.
    eapply Permutation_in; [apply Permutation_sym; exact P|exact I].
Qed.

Definition nm (rs : list aren) (pre : path) (c : name) : name :=
  match new_name_of rs pre with Some n => n | None => c end.

Lemma final_from_length rs d t : length (final_from rs d t) = length t.
Proof. revert d; induction t as [|c t IH]; intro d; cbn; [reflexivity|]. rewrite IH. reflexivity. Qed.

Lemma final_path_length rs p : length (final_path rs p) = length p.
Proof. apply final_from_length. Qed.

Lemma final_from_app rs d t1 t2 :
  final_from rs d (t1 ++ t2) = final_from rs d t1 ++ final_from rs (d ++ t1) t2.
Proof.
  revert d; induction t1 as [|c t1 IH]; intro d; cbn [app final_from].
  - rewrite app_nil_r. reflexivity.
  - f_equal. rewrite IH. rewrite <- app_assoc. reflexivity.
Qed.

Lemma final_path_app rs a b : final_path rs (a ++ b) = final_path rs a ++ final_from rs a b.
Proof. unfold final_path. rewrite final_from_app. reflexivity. Qed.

Lemma final_path_snoc rs q c : final_path rs (q ++ [c]) = final_path rs q ++ [nm rs (q ++ [c]) c].
Proof. rewrite final_path_app. reflexivity. Qed.

Lemma final_path_nil rs : final_path rs [] = [].
Proof. reflexivity. Qed.

Lemma final_from_ext rs rs' d t :
  (forall t1 t2, t = t1 ++ t2 -> t1 <> [] -> new_name_of rs (d ++ t1) = new_name_of rs' (d ++ t1)) ->
  final_from rs d t = final_from rs' d t.
Proof.
  revert d; induction t as [|c t IH]; intros d H; cbn [final_from]; [reflexivity|].
  rewrite (H [c] t) by (reflexivity || discriminate). f_equal.
  apply IH. intros t1 t2 -> N. rewrite <- app_assoc. apply (H (c :: t1) t2); [reflexivity|discriminate].
Qed.

Lemma final_from_id rs d t :
  (forall t1 t2, t = t1 ++ t2 -> t1 <> [] -> new_name_of rs (d ++ t1) = None) ->
  final_from rs d t = t.
Proof.
  revert d; induction t as [|c t IH]; intros d H; cbn [final_from]; [reflexivity|].
  rewrite (H [c] t) by (reflexivity || discriminate). f_equal.
  apply IH. intros t1 t2 -> N. rewrite <- app_assoc. apply (H (c :: t1) t2); [reflexivity|discriminate].
Qed.

Lemma final_path_no_renames p : final_path [] p = p.
Proof. apply final_from_id. reflexivity. Qed.

(* nothing below s is renamed *)
Lemma final_from_noext rs s t :
  (forall r, In r rs -> proper_prefix s (ar_path r) = false) -> final_from rs s t = t.
Proof.
  intro H. apply final_from_id. intros t1 t2 _ N. apply new_name_of_none. intros r I E.
  specialize (H r I). rewrite E in H.
  assert (proper_prefix s (s ++ t1) = true) by (apply proper_prefix_spec; eauto). congruence.
Qed.

Lemma final_path_perm rs rs' p :
  Permutation rs rs' -> NoDup (map ar_path rs) -> final_path rs p = final_path rs' p.
Proof.
  intros P N. unfold final_path. apply final_from_ext. intros. apply new_name_of_perm; assumption.
Qed.

(* ------------------------------------------------------------------------------------ *)
(* Shape of a rename                                                                   *)
(* ------------------------------------------------------------------------------------ *)

Lemma shape_snoc r : shape r ->
  exists s0 c n, ar_path r = s0 ++ [c] /\ ar_new r = s0 ++ [n] /\ n = last (ar_new r) [].
Proof.
  intros [Hs [Hr Hl]].
  assert (Hd : ar_new r <> []).
  { intro E. rewrite E in Hl. cbn in Hl. destruct (ar_path r); [contradiction|discriminate]. }
  exists (removelast (ar_path r)), (last (ar_path r) []), (last (ar_new r) []).
  split; [apply app_removelast_last; exact Hs|]. split; [|reflexivity].
  rewrite <- Hr. apply app_removelast_last. exact Hd.
Qed.

(* ------------------------------------------------------------------------------------ *)
(* avoids                                                                              *)
(* ------------------------------------------------------------------------------------ *)

Lemma avoids_app_l rs a b : avoids rs (a ++ b) -> avoids rs a.
Proof.
  intros H r I N. destruct (path_prefix (ar_new r) a) eqn:E; [|reflexivity].
  rewrite <- (H r I N). symmetry. apply path_prefix_app_r. exact E.
Qed.

Lemma avoids_sub rs rs' p : (forall r, In r rs' -> In r rs) -> avoids rs p -> avoids rs' p.
Proof. intros S H r I N. apply H; auto. Qed.

(* ------------------------------------------------------------------------------------ *)
(* final_path is injective on paths that avoid the destinations                         *)
(* ------------------------------------------------------------------------------------ *)

Section Inj.
  Variable rs : list aren.
  Hypothesis Hshape : forall r, In r rs -> shape r.
  Hypothesis Hinj : forall r1 r2, In r1 rs -> In r2 rs -> ar_new r1 = ar_new r2 -> ar_path r1 = ar_path r2.

  Lemma new_name_dest a c n :
    new_name_of rs (a ++ [c]) = Some n ->
    exists r, In r rs /\ ar_path r = a ++ [c] /\ ar_new r = a ++ [n].
  Proof.
    intro H. apply new_name_of_some in H as [r [I [P L]]]. exists r. split; [exact I|]. split; [exact P|].
    destruct (shape_snoc r (Hshape r I)) as [s0 [c' [n' [E1 [E2 E3]]]]].
    rewrite E1 in P. apply app_inj_tail in P as [-> ->]. rewrite E2. congruence.
  Qed.

  Lemma final_path_inj_eq q1 : forall q2,
    avoids rs q1 -> avoids rs q2 -> final_path rs q1 = final_path rs q2 -> q1 = q2.
  Proof.
    induction q1 as [|c1 a1 IH] using rev_ind; intros q2 A1 A2 E.
    - pose proof (f_equal (@length _) E) as L. rewrite !final_path_length in L.
      destruct q2; [reflexivity|discriminate].
    - destruct (snoc_cases q2) as [-> | [a2 [c2 ->]]].
      { pose proof (f_equal (@length _) E) as L. rewrite !final_path_length, app_length in L.
        cbn in L. lia. }
      rewrite !final_path_snoc in E. apply app_inj_tail in E as [E1 E2].
      assert (a1 = a2) as <-.
      { apply IH; [eapply avoids_app_l; exact A1 | eapply avoids_app_l; exact A2 | exact E1]. }
      f_equal. f_equal. unfold nm in E2.
      destruct (new_name_of rs (a1 ++ [c1])) as [n1|] eqn:N1;
        destruct (new_name_of rs (a1 ++ [c2])) as [n2|] eqn:N2.
      + apply new_name_dest in N1 as [r1 [I1 [P1 D1]]]. apply new_name_dest in N2 as [r2 [I2 [P2 D2]]].
        subst n2. assert (ar_path r1 = ar_path r2) as P by (apply Hinj; congruence).
        rewrite P1, P2 in P. apply app_inj_tail in P as [_ P]. exact P.
      + apply new_name_dest in N1 as [r1 [I1 [P1 D1]]]. subst n1.
        destruct (list_eq_dec (list_eq_dec N.eq_dec) (ar_new r1) (ar_path r1)) as [Q|Q].
        * rewrite P1, D1 in Q. apply app_inj_tail in Q as [_ Q]. congruence.
        * exfalso. specialize (A2 r1 I1 Q). rewrite D1, path_prefix_refl in A2. discriminate.
      + apply new_name_dest in N2 as [r2 [I2 [P2 D2]]]. subst c1.
        destruct (list_eq_dec (list_eq_dec N.eq_dec) (ar_new r2) (ar_path r2)) as [Q|Q].
        * rewrite P2, D2 in Q. apply app_inj_tail in Q as [_ Q]. congruence.
        * exfalso. specialize (A1 r2 I2 Q). rewrite D2, path_prefix_refl in A1. discriminate.
      + exact E2.
  Qed.

  Lemma final_path_inj_prefix q1 q2 :
    avoids rs q1 -> avoids rs q2 ->
    path_prefix (final_path rs q1) (final_path rs q2) = true -> path_prefix q1 q2 = true.
  Proof.
    intros A1 A2 H. pose proof (path_prefix_length _ _ H) as L. rewrite !final_path_length in L.
    rewrite <- (firstn_skipn (length q1) q2) in H, A2.
    rewrite final_path_app in H. apply path_prefix_spec in H as [t H].
    apply app_eq_len in H as [H _].
    2:{ rewrite !final_path_length, firstn_length. lia. }
    symmetry in H. apply final_path_inj_eq in H; [|exact A1|eapply avoids_app_l; exact A2].
    apply path_prefix_spec. exists (skipn (length q1) q2). rewrite H at 1.
    symmetry. apply firstn_skipn.
  Qed.
End Inj.

(* ------------------------------------------------------------------------------------ *)
(* One more rename                                                                     *)
(* ------------------------------------------------------------------------------------ *)

Section Step.
  Variables (L1 : list aren) (r : aren).
  Hypothesis Hshape : shape r.
  (* no processed source is at or below the new source *)
  Hypothesis Hext : forall r1, In r1 L1 -> path_prefix (ar_path r) (ar_path r1) = false.
  (* the new destination is not a processed source *)
  Hypothesis Hd : forall r1, In r1 L1 -> ar_path r1 <> ar_new r.

  Lemma Hext_proper L : L = L1 \/ L = L1 ++ [r] ->
    forall r1, In r1 L -> proper_prefix (ar_path r) (ar_path r1) = false.
  Proof.
    intros HL r1 I.
    assert (C : In r1 L1 \/ r1 = r).
    { destruct HL as [-> | ->]; [left; exact I|]. apply in_app_or in I as [I | [<- | []]]; auto. }
    destruct C as [C | ->]; [|apply proper_prefix_irrefl].
    unfold proper_prefix. rewrite (Hext r1 C). reflexivity.
  Qed.

  (* paths not below the new source are unaffected *)
  Lemma step_miss q : path_prefix (ar_path r) q = false ->
    final_path (L1 ++ [r]) q = final_path L1 q.
  Proof.
    intro H. unfold final_path. apply final_from_ext. intros t1 t2 -> N. cbn [app].
    rewrite new_name_of_snoc. destruct (new_name_of L1 t1); [reflexivity|].
    destruct (path_eqb (ar_path r) t1) eqn:E; [|reflexivity].
    apply path_eqb_eq in E. subst t1. rewrite path_prefix_app in H. discriminate.
  Qed.

  (* paths below the new source move with it *)
  Lemma step_hit t : final_path (L1 ++ [r]) (ar_path r ++ t) = final_path L1 (ar_new r) ++ t.
  Proof.
    destruct (shape_snoc r Hshape) as [s0 [c [n [E1 [E2 E3]]]]].
    rewrite final_path_app. rewrite final_from_noext by (apply Hext_proper; auto).
    f_equal. rewrite E1, E2, !final_path_snoc. f_equal.
    - apply step_miss. destruct (path_prefix (ar_path r) s0) eqn:P; [|reflexivity].
      apply path_prefix_length in P. rewrite E1, app_length in P. cbn in P. lia.
    - f_equal. unfold nm. rewrite new_name_of_snoc.
      assert (N1 : new_name_of L1 (s0 ++ [c]) = None).
      { apply new_name_of_none. intros r1 I E. pose proof (Hext r1 I) as X.
        rewrite E, E1, path_prefix_refl in X. discriminate. }
      assert (N2 : new_name_of L1 (s0 ++ [n]) = None).
      { apply new_name_of_none. intros r1 I E. apply (Hd r1 I). congruence. }
      rewrite N1, N2, <- E1, path_eqb_refl. congruence.
  Qed.

  Lemma step_hit_old t : final_path L1 (ar_path r ++ t) = final_path L1 (ar_path r) ++ t.
  Proof. rewrite final_path_app. rewrite final_from_noext by (apply Hext_proper; auto). reflexivity. Qed.
End Step.

(* ------------------------------------------------------------------------------------ *)
(* The stage                                                                           *)
(* ------------------------------------------------------------------------------------ *)

Lemma stage_steps_app L1 L2 perf :
  stage_steps (L1 ++ L2) perf = stage_steps L1 perf ++ stage_steps L2 (stage_perf L1 perf).
Proof.
  revert perf; induction L1 as [|r L1 IH]; intro perf; cbn [app stage_steps stage_perf]; [reflexivity|].
  cbn zeta. rewrite IH. reflexivity.
Qed.

Lemma stage_perf_app L1 L2 perf :
  stage_perf (L1 ++ L2) perf = stage_perf L2 (stage_perf L1 perf).
Proof.
  revert perf; induction L1 as [|r L1 IH]; intro perf; cbn [app stage_perf]; [reflexivity|]. apply IH.
Qed.

Lemma adjust_snoc perf a b q :
  adjust (perf ++ [(a, b)]) q = if path_prefix a q then b ++ skipn (length a) q else adjust perf q.
Proof. unfold adjust. rewrite fold_left_app. reflexivity. Qed.

Lemma run_steps_snoc steps a b p : run_steps (steps ++ [(a, b)]) p = rebase a b (run_steps steps p).
Proof. unfold run_steps. rewrite fold_left_app. reflexivity. Qed.

(* what the proof needs of the (ordered) list; stable under taking initial segments *)
Record ok (L : list aren) : Prop := {
  ok_base : wf_base L;
  ok_topo : topo L
}.

Lemma wf_base_app_l L1 L2 : wf_base (L1 ++ L2) -> wf_base L1.
Proof.
  intros [S N I D]. split.
  - intros r H. apply S. apply in_or_app. auto.
  - rewrite map_app in N. eapply NoDup_app_l. exact N.
  - intros r1 r2 H1 H2. apply I; apply in_or_app; auto.
  - intros r1 r2 H1 H2. apply D; apply in_or_app; auto.
Qed.

Lemma ok_app_l L1 L2 : ok (L1 ++ L2) -> ok L1.
Proof. intros [B T]. split; [eapply wf_base_app_l; exact B | eapply topo_app_l; exact T]. Qed.

(* the hypotheses of Section Step, from ok (L1 ++ [r]) *)
Lemma ok_snoc_facts L1 r : ok (L1 ++ [r]) ->
  shape r /\
  (forall r1, In r1 L1 -> path_prefix (ar_path r) (ar_path r1) = false) /\
  (forall r1, In r1 L1 -> ar_path r1 <> ar_new r) /\
  avoids L1 (ar_path r).
Proof.
  intros [[S N I D] T].
  assert (Ir : In r (L1 ++ [r])) by (apply in_or_app; right; left; reflexivity).
  assert (Nr : forall r1, In r1 L1 -> ar_path r1 <> ar_path r).
  { intros r1 I1 E. rewrite map_app in N. cbn in N. apply NoDup_remove_2 in N.
    apply N. rewrite app_nil_r. rewrite <- E. apply in_map. exact I1. }
  split; [apply S; exact Ir|]. split; [|split].
  - intros r1 I1. pose proof (T L1 r [] eq_refl r1 I1) as P. unfold proper_prefix in P.
    destruct (path_prefix (ar_path r) (ar_path r1)); [|reflexivity]. cbn in P.
    apply negb_false_iff, path_eqb_eq in P. exfalso. apply (Nr r1 I1). congruence.
  - intros r1 I1 E.
    destruct (list_eq_dec (list_eq_dec N.eq_dec) (ar_new r) (ar_path r)) as [Q|Q].
    + apply (Nr r1 I1). congruence.
    + pose proof (D r r1 Ir (in_or_app _ _ _ (or_introl I1)) Q) as X.
      rewrite E, path_prefix_refl in X. discriminate.
  - intros r1 I1 Q. apply D; [apply in_or_app; left; exact I1 | exact Ir | exact Q].
Qed.

Lemma avoids_snoc_l L1 r p : avoids (L1 ++ [r]) p -> avoids L1 p.
Proof. apply avoids_sub. intros x I. apply in_or_app. auto. Qed.

(* the invariant: the bookkeeping list computes the current location of every path, and the
   renames issued so far have moved every (destination-avoiding) path to its current location *)
Lemma stage_invariant L : ok L ->
  (forall q, adjust (stage_perf L []) q = final_path L q) /\
  (forall p, avoids L p -> run_steps (stage_steps L []) p = final_path L p).
Proof.
  induction L as [|r L1 IH] using rev_ind; intro O.
  - split; intros; symmetry; apply final_path_no_renames.
  - destruct (IH (ok_app_l _ _ O)) as [IA IR].
    destruct (ok_snoc_facts _ _ O) as [Hs [Hext [Hd Hav]]].
    assert (IA' : forall q, adjust (stage_perf (L1 ++ [r]) []) q = final_path (L1 ++ [r]) q).
    { intro q. rewrite stage_perf_app. cbn [stage_perf]. rewrite adjust_snoc, !IA.
      destruct (path_prefix (ar_path r) q) eqn:P.
      - apply path_prefix_spec in P as [t ->]. rewrite skipn_app_len.
        symmetry. apply step_hit; assumption.
      - symmetry. apply step_miss. exact P. }
    split; [exact IA'|].
    intros p Ap. rewrite stage_steps_app. cbn [stage_steps]. cbn zeta.
    rewrite run_steps_snoc, !IA, (IR p (avoids_snoc_l _ _ _ Ap)).
    destruct (path_prefix (ar_path r) p) eqn:P.
    + apply path_prefix_spec in P as [t ->].
      rewrite (step_hit_old L1 r Hext), rebase_hit. symmetry. apply step_hit; assumption.
    + rewrite rebase_miss; [symmetry; apply step_miss; exact P|].
      destruct (path_prefix (final_path L1 (ar_path r)) (final_path L1 p)) eqn:Q; [|reflexivity].
      pose proof (ok_base _ (ok_app_l _ _ O)) as [S1 _ I1 _].
      apply (final_path_inj_prefix L1 S1 I1) in Q; [congruence | exact Hav |].
      eapply avoids_snoc_l. exact Ap.
Qed.

(* ------------------------------------------------------------------------------------ *)
(* Main theorems (path level)                                                          *)
(* ------------------------------------------------------------------------------------ *)

Lemma wf_base_perm rs rs' : Permutation rs rs' -> wf_base rs -> wf_base rs'.
Proof.
  intros P [S N I D].
  assert (B : forall x, In x rs' -> In x rs).
  { intros x H. eapply Permutation_in; [apply Permutation_sym; exact P|exact H]. }
  split; auto. eapply Permutation_NoDup; [apply Permutation_map; exact P|exact N].
Qed.

Lemma wf_sorted_ok rs : wf_renames rs -> ok (sort_renames rs).
Proof.
  intros [B D]. split.
  - eapply wf_base_perm; [apply Permutation_sym, sort_renames_perm|exact B].
  - apply sort_renames_topo. exact D.
Qed.

(* for any processing order in which a source strictly above another source comes first *)
Theorem ordered_stage_reaches_final_path L p :
  wf_base L -> topo L -> avoids L p ->
  run_steps (stage_steps L []) p = final_path L p.
Proof. intros B T A. apply stage_invariant; [split; assumption|exact A]. Qed.

Theorem rename_stage_reaches_final_path rs p :
  wf_renames rs -> avoids rs p ->
  run_steps (stage_steps (sort_renames rs) []) p = final_path rs p.
Proof.
  intros W A. pose proof (wf_sorted_ok rs W) as O.
  rewrite (final_path_perm rs (sort_renames rs) p).
  - apply stage_invariant; [exact O|]. eapply avoids_sub; [|exact A].
    intros x H. eapply Permutation_in; [apply sort_renames_perm|exact H].
  - apply Permutation_sym, sort_renames_perm.
  - apply W.
Qed.

(* the bookkeeping list maps EVERY path (no side condition) to its final location *)
Theorem rename_stage_adjust_final rs q :
  wf_renames rs -> adjust (stage_perf (sort_renames rs) []) q = final_path rs q.
Proof.
  intros W. pose proof (wf_sorted_ok rs W) as O.
  rewrite (final_path_perm rs (sort_renames rs) q).
  - apply stage_invariant. exact O.
  - apply Permutation_sym, sort_renames_perm.
  - apply W.
Qed.

(* one step, in isolation: re-basing the current location of p by the adjusted rename *)
Lemma step_rebase L1 r p : ok (L1 ++ [r]) -> avoids (L1 ++ [r]) p ->
  rebase (final_path L1 (ar_path r)) (final_path L1 (ar_new r)) (final_path L1 p)
  = final_path (L1 ++ [r]) p.
Proof.
  intros O A. destruct (stage_invariant _ O) as [_ R].
  destruct (stage_invariant _ (ok_app_l _ _ O)) as [IA IR].
  rewrite <- (R p A). rewrite stage_steps_app. cbn [stage_steps]. cbn zeta.
  rewrite run_steps_snoc, !IA, IR; [reflexivity|]. eapply avoids_snoc_l. exact A.
Qed.

(* ------------------------------------------------------------------------------------ *)
(* Why the two destination conditions of wf_base and the hypothesis [avoids] are needed:  *)
(* each example satisfies the three conditions on sources (shape, distinct sources,      *)
(* sources above sources are directories) and every rename is a directory rename          *)
(* ------------------------------------------------------------------------------------ *)
Module Counterexamples.
  Definition mk p n d := {| ar_path := p; ar_new := n; ar_dir := d |}.
  Definition a : name := [97]. Definition b : name := [98]. Definition c : name := [99].
  Definition x : name := [120]. Definition y : name := [121].
  Definition reached rs p := run_steps (stage_steps (sort_renames rs) []) p.

  (* without [avoids]: p = b/x lies below the destination of a -> b *)
  Example need_avoids :
    let rs := [mk [a] [b] true; mk [a; x] [a; y] true] in
    reached rs [b; x] = [b; y] /\ final_path rs [b; x] = [b; x].
  Proof. vm_compute. split; reflexivity. Qed.

  (* without wb_dest_src (destination = another source): a -> b, b -> c *)
  Example need_dest_not_source :
    let rs := [mk [a] [b] true; mk [b] [c] true] in
    reached rs [a] = [c] /\ final_path rs [a] = [b].
  Proof. vm_compute. split; reflexivity. Qed.

  (* without wb_dest_src (destination strictly above another source): a -> b, b/x -> b/y *)
  Example need_dest_not_above_source :
    let rs := [mk [a] [b] true; mk [b; x] [b; y] true] in
    reached rs [a; x] = [b; y] /\ final_path rs [a; x] = [b; x].
  Proof. vm_compute. split; reflexivity. Qed.

  (* without wb_dest_inj (two renames onto the same destination) *)
  Example need_dest_inj :
    let rs := [mk [a] [c] true; mk [b] [c] true; mk [a; x] [a; y] true] in
    reached rs [b; x] = [c; y] /\ final_path rs [b; x] = [c; x].
  Proof. vm_compute. split; reflexivity. Qed.
End Counterexamples.
