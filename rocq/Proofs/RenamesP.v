(* Proofs/RenamesP.v — structure of planned renames, for every name function and listing. *)
From RN Require Import Base.Bytes Model.Fs Model.ApplyModel Model.Renames Proofs.RenameP.

Lemma path_eqb_refl p : path_eqb p p = true.
Proof. induction p as [|a p IH]; cbn; [reflexivity|]. rewrite beq_refl, IH. reflexivity. Qed.

Lemma path_eqb_true p q : path_eqb p q = true -> p = q.
Proof.
  revert q; induction p as [|a p IH]; intros [|b q] H; cbn in H; try discriminate; [reflexivity|].
  apply andb_true_iff in H as [H1 H2]. apply beq_eq in H1. apply IH in H2. congruence.
Qed.

(* every planned rename changes exactly the last component of its source, to a different name *)
Lemma plan_entry_shape namefn e r :
  In r (plan_entry namefn e) ->
  ar_path r = en_path e /\ ar_dir r = en_dir e /\ shape r /\ ar_new r <> ar_path r.
Proof.
  unfold plan_entry. destruct (rev (en_path e)) as [|last pre] eqn:E; [intros []|].
  destruct (namefn last) as [n|]; [|intros []].
  destruct (beq n last) eqn:B; [intros []|]. intros [<-|[]]. unfold shape. cbn.
  assert (P : en_path e = rev pre ++ [last]).
  { rewrite <- (rev_involutive (en_path e)), E. reflexivity. }
  rewrite P. split; [reflexivity|]. split; [reflexivity|]. split.
  - split; [destruct (rev pre); discriminate|]. split.
    + rewrite !removelast_last. reflexivity.
    + rewrite !app_length. reflexivity.
  - intro H. apply app_inv_head in H. inversion H; subst. rewrite beq_refl in B. discriminate.
Qed.

Theorem plan_listing_shape namefn rf rd l r :
  In r (plan_listing namefn rf rd l) ->
  shape r /\ ar_new r <> ar_path r /\
  exists e, In e l /\ ar_path r = en_path e /\ ar_dir r = en_dir e /\ (if en_dir e then rd else rf) = true.
Proof.
  unfold plan_listing. intro H. apply in_flat_map in H as [e [He Hr]].
  destruct (if en_dir e then rd else rf) eqn:F; [|destruct Hr].
  destruct (plan_entry_shape namefn e r Hr) as (A & B & C & D).
  split; [exact C|]. split; [exact D|]. exists e. repeat split; assumption.
Qed.

(* each listing entry is scheduled at most once *)
Lemma plan_entry_at_most_one namefn e : (length (plan_entry namefn e) <= 1)%nat.
Proof.
  unfold plan_entry. destruct (rev (en_path e)) as [|last pre]; [cbn; lia|].
  destruct (namefn last) as [n|]; [|cbn; lia]. destruct (beq n last); cbn; lia.
Qed.

Theorem plan_listing_sources_nodup namefn rf rd l :
  NoDup (map en_path l) -> NoDup (map ar_path (plan_listing namefn rf rd l)).
Proof.
  induction l as [|e l IH]; intro H; cbn; [constructor|].
  inversion H as [|? ? Hn Hrest]; subst. specialize (IH Hrest).
  unfold plan_listing in *. cbn [flat_map]. rewrite map_app.
  destruct (if en_dir e then rd else rf); [|cbn; exact IH].
  pose proof (plan_entry_at_most_one namefn e) as L.
  destruct (plan_entry namefn e) as [|r [|r2 rest]] eqn:E; [cbn; exact IH | | cbn in L; lia].
  cbn. constructor; [|exact IH].
  assert (Hr : ar_path r = en_path e).
  { destruct (plan_entry_shape namefn e r) as [A _]; [rewrite E; left; reflexivity | exact A]. }
  rewrite Hr. intro Hin. apply Hn.
  apply in_map_iff in Hin as [r' [Hp Hin']]. apply in_flat_map in Hin' as [e' [He' Hr']].
  destruct (if en_dir e' then rd else rf); [|destruct Hr'].
  destruct (plan_entry_shape namefn e' r' Hr') as [A' _].
  apply in_map_iff. exists e'. split; [congruence | exact He'].
Qed.

(* the switches: --no-rename-files / --no-rename-dirs *)
Theorem no_rename_files_no_file_renames namefn rd l r :
  In r (plan_listing namefn false rd l) -> ar_dir r = true.
Proof.
  intro H. destruct (plan_listing_shape namefn false rd l r H) as (_ & _ & e & _ & _ & Hd & F).
  destruct (en_dir e); [exact Hd | discriminate].
Qed.
Theorem no_rename_dirs_no_dir_renames namefn rf l r :
  In r (plan_listing namefn rf false l) -> ar_dir r = false.
Proof.
  intro H. destruct (plan_listing_shape namefn rf false l r H) as (_ & _ & e & _ & _ & Hd & F).
  destruct (en_dir e); [discriminate | exact Hd].
Qed.

(* after the conflict filter no two renames share a destination *)
Lemma target_count_pos rs r : In r rs -> (1 <= target_count rs (ar_new r))%nat.
Proof.
  intro H. unfold target_count. induction rs as [|x rs IH]; [destruct H|].
  cbn. destruct H as [->|H].
  - rewrite path_eqb_refl. cbn. lia.
  - destruct (path_eqb (ar_new x) (ar_new r)); cbn; [lia | apply IH; exact H].
Qed.

Theorem without_conflicts_distinct_targets rs r1 r2 :
  NoDup rs -> In r1 (without_conflicts rs) -> In r2 (without_conflicts rs) -> ar_new r1 = ar_new r2 -> r1 = r2.
Proof.
  unfold without_conflicts. intros Hnd H1 H2 Heq.
  apply filter_In in H1 as [I1 C1]. apply filter_In in H2 as [I2 C2].
  apply negb_true_iff in C1. apply Nat.ltb_ge in C1.
  destruct (in_split _ _ I1) as (l1 & l2 & ->).
  (* r2 is r1 or elsewhere; if elsewhere the target is counted twice *)
  apply in_app_or in I2. unfold target_count in C1. rewrite filter_app in C1. cbn in C1.
  rewrite path_eqb_refl in C1. rewrite app_length in C1. cbn in C1.
  assert (Z : forall l, In r2 l -> (1 <= length (filter (fun r => path_eqb (ar_new r) (ar_new r1)) l))%nat).
  { intros l Hl. induction l as [|x l IHl]; [destruct Hl|]. cbn. destruct Hl as [->|Hl].
    - rewrite <- Heq, path_eqb_refl. cbn. lia.
    - destruct (path_eqb (ar_new x) (ar_new r1)); cbn; [lia | apply IHl; exact Hl]. }
  destruct I2 as [I2|[I2|I2]]; [apply Z in I2; lia | congruence | apply Z in I2; lia].
Qed.

(* de-duplication over roots leaves each source once *)
Lemma dedupe_not_seen seen rs r : In r (dedupe_paths seen rs) -> existsb (path_eqb (ar_path r)) seen = false.
Proof.
  revert seen; induction rs as [|x rs IH]; intros seen H; [destruct H|]. cbn in H.
  destruct (existsb (path_eqb (ar_path x)) seen) eqn:E; [apply IH; exact H|].
  destruct H as [->|H]; [exact E|].
  apply IH in H. cbn in H. apply orb_false_iff in H as [_ H]. exact H.
Qed.

Theorem dedupe_paths_nodup rs : NoDup (map ar_path (dedupe_paths [] rs)).
Proof.
  generalize (@nil path). induction rs as [|x rs IH]; intro seen; cbn; [constructor|].
  destruct (existsb (path_eqb (ar_path x)) seen); [apply IH|].
  cbn. constructor; [|apply IH].
  intro Hin. apply in_map_iff in Hin as [r [Hp Hr]].
  apply dedupe_not_seen in Hr. cbn in Hr. rewrite Hp, path_eqb_refl in Hr. discriminate.
Qed.
