(* Proofs/HunksP.v — the matcher scan (M1-M3), line positions (P1), the planner's hunks (H1),
   plan consistency implies a well-formed edit list (H2), and the diff preview's "after" line
   equals the line once the plan is applied (H3).  Stdlib + lia only. *)
From RN Require Import Base.Bytes Model.Edits Model.Matcher Model.Hunks Proofs.EditsP.
Open Scope nat_scope.

(* ------------------------------------------------------------------------------------------ *)
(* small list facts                                                                           *)
(* ------------------------------------------------------------------------------------------ *)

Lemma skipn_cons_S {A} (c : list A) pos x rest' :
  skipn pos c = x :: rest' -> skipn (S pos) c = rest'.
Proof.
  intro H. change (S pos) with (1 + pos). rewrite <- skipn_skipn, H. reflexivity.
Qed.

Lemma nth_error_firstn_lt {A} (l : list A) n i :
  i < n -> nth_error (firstn n l) i = nth_error l i.
Proof.
  revert l i; induction n as [|n IH]; intros l i H; [lia|].
  destruct l as [|x l]; [destruct i; reflexivity|].
  destruct i as [|i]; [reflexivity|]. cbn. apply IH. lia.
Qed.

Lemma count_byte_app b s t : count_byte b (s ++ t) = count_byte b s + count_byte b t.
Proof. induction s as [|x s IH]; cbn [app count_byte]; [reflexivity|]. rewrite IH. lia. Qed.

Lemma existsb_count_byte s :
  existsb (N.eqb 10) s = false <-> count_byte 10 s = 0.
Proof.
  induction s as [|x s IH]; cbn [existsb count_byte]; [tauto|].
  rewrite (N.eqb_sym 10 x). destruct (N.eqb x 10); cbn [orb]; [split; [discriminate|lia]|].
  rewrite IH. reflexivity.
Qed.

Lemma is_prefix_firstn v s : is_prefix v s = true -> firstn (length v) s = v.
Proof.
  intro H. apply is_prefix_spec in H as [r ->].
  rewrite firstn_app, Nat.sub_diag, firstn_all. cbn. apply app_nil_r.
Qed.

Lemma is_prefix_length v s : is_prefix v s = true -> length v <= length s.
Proof. intro H. apply is_prefix_spec in H as [r ->]. rewrite app_length. lia. Qed.

(* ------------------------------------------------------------------------------------------ *)
(* M1-M3: the literal alternation scan                                                        *)
(* ------------------------------------------------------------------------------------------ *)

Lemma ins_len_In v l x : In x (ins_len v l) <-> x = v \/ In x l.
Proof.
  induction l as [|y l IH]; cbn [ins_len].
  - cbn. intuition congruence.
  - destruct (Nat.leb (length y) (length v)); cbn [In]; [intuition congruence|].
    rewrite IH. intuition congruence.
Qed.

Lemma longest_first_In vs x : In x (longest_first vs) <-> In x vs.
Proof.
  induction vs as [|v vs IH]; [reflexivity|].
  change (longest_first (v :: vs)) with (ins_len v (longest_first vs)).
  rewrite ins_len_In, IH. cbn. intuition congruence.
Qed.

Lemma first_alt_some alts rest v :
  first_alt alts rest = Some v -> In v alts /\ v <> [] /\ is_prefix v rest = true.
Proof.
  unfold first_alt. intro H. apply find_some in H as [H1 H2].
  apply andb_true_iff in H2 as [H2 H3]. repeat split; auto.
  intros ->. discriminate.
Qed.

Lemma scan_sound c alts : forall fuel pos rest a b v,
  rest = skipn pos c -> In (a, b, v) (scan fuel alts pos rest) ->
  pos <= a /\ b = a + length v /\ In v alts /\ v <> [] /\ is_prefix v (skipn a c) = true.
Proof.
  induction fuel as [|fuel IH]; intros pos rest a b v Hr Hin; cbn [scan] in Hin; [contradiction|].
  destruct rest as [|x rest']; [contradiction|].
  destruct (first_alt alts (x :: rest')) as [w|] eqn:E.
  - destruct Hin as [Hin|Hin].
    + inversion Hin; subst a b v. apply first_alt_some in E as (H1 & H2 & H3).
      rewrite <- Hr. repeat split; auto.
    + apply IH in Hin.
      * destruct Hin as (? & ? & ? & ? & ?). repeat split; auto. lia.
      * rewrite Hr, skipn_skipn. f_equal. lia.
  - apply IH in Hin.
    + destruct Hin as (? & ? & ? & ? & ?). repeat split; auto. lia.
    + symmetry. eapply skipn_cons_S. symmetry. exact Hr.
Qed.

(* M1 *)
Theorem find_iter_sound : forall vs c a b v, In (a, b, v) (find_iter vs c) ->
  b = (a + length v)%nat /\ (b <= length c)%nat /\ firstn (b - a) (skipn a c) = v /\ In v vs /\ v <> [].
Proof.
  intros vs c a b v H. unfold find_iter in H.
  apply (scan_sound c) in H; [|reflexivity].
  destruct H as (_ & Hb & Hin & Hne & Hp).
  apply (proj1 (longest_first_In _ _)) in Hin.
  pose proof (is_prefix_length _ _ Hp) as Hl. rewrite skipn_length in Hl.
  assert (0 < length v) by (destruct v; [congruence|cbn; lia]).
  subst b. split; [reflexivity|]. split; [lia|]. split; [|split; [exact Hin|exact Hne]].
  replace (a + length v - a) with (length v) by lia. apply is_prefix_firstn. exact Hp.
Qed.

(* spans are in increasing order, non-empty and do not overlap, all at or after [pos] *)
Fixpoint spans_ok (pos : nat) (l : list (nat * nat * bytes)) : Prop :=
  match l with
  | [] => True
  | (a, b, _) :: l' => (pos <= a)%nat /\ (a < b)%nat /\ spans_ok b l'
  end.

Lemma spans_ok_weaken l : forall p q, q <= p -> spans_ok p l -> spans_ok q l.
Proof.
  destruct l as [|[[a b] v] l]; intros p q Hq H; [exact I|].
  cbn [spans_ok] in *. destruct H as (? & ? & ?). repeat split; auto. lia.
Qed.

Lemma scan_spans_ok alts : forall fuel pos rest, spans_ok pos (scan fuel alts pos rest).
Proof.
  induction fuel as [|fuel IH]; intros pos rest; cbn [scan]; [exact I|].
  destruct rest as [|x rest']; [exact I|].
  destruct (first_alt alts (x :: rest')) as [w|] eqn:E.
  - apply first_alt_some in E as (_ & Hne & _).
    assert (0 < length w) by (destruct w; [congruence|cbn; lia]).
    cbn [spans_ok]. repeat split; [lia|lia|apply IH].
  - apply spans_ok_weaken with (p := S pos); [lia|apply IH].
Qed.

(* M2 *)
Theorem find_iter_sorted_disjoint : forall vs c, spans_ok 0 (find_iter vs c).
Proof. intros vs c. unfold find_iter. apply scan_spans_ok. Qed.

(* M2, literally in the [let fix] form *)
Theorem find_iter_sorted_disjoint_letfix : forall vs c,
  let fix ok (pos : nat) (l : list (nat * nat * bytes)) : Prop :=
    match l with [] => True | (a, b, _) :: l' => (pos <= a)%nat /\ (a < b)%nat /\ ok b l' end in
  ok 0%nat (find_iter vs c).
Proof. intros vs c. exact (find_iter_sorted_disjoint vs c). Qed.

(* M3 *)
Theorem find_matches_sound : forall vs c m, In m (find_matches vs c) ->
  In (m_start m, m_end m, m_text m) (find_iter vs c) /\ is_boundary c (m_start m) (m_end m) = true /\
  m_line m = line_of c (m_start m) /\ m_col m = col_of c (m_start m).
Proof.
  intros vs c m H. unfold find_matches in H. apply in_flat_map in H as ([[a b] v] & Hin & Hm).
  destruct (is_boundary c a b) eqn:E; [|contradiction].
  destruct Hm as [<-|[]]. cbn. auto.
Qed.

(* and conversely every boundary span of find_iter is reported (find_matches loses nothing else) *)
Theorem find_matches_complete : forall vs c a b v,
  In (a, b, v) (find_iter vs c) -> is_boundary c a b = true ->
  In {| m_line := line_of c a; m_col := col_of c a; m_start := a; m_end := b; m_text := v |}
     (find_matches vs c).
Proof.
  intros vs c a b v Hin Hb. unfold find_matches. apply in_flat_map.
  exists (a, b, v). split; [exact Hin|]. rewrite Hb. left. reflexivity.
Qed.

(* ------------------------------------------------------------------------------------------ *)
(* P1: line_start                                                                             *)
(* ------------------------------------------------------------------------------------------ *)

Lemma last_nl_spec : forall s i best,
  match last_nl s i best with
  | Some p =>
      (best = Some p /\ count_byte 10 s = 0) \/
      (i <= p < i + length s /\ nth_error s (p - i) = Some 10%N /\
       count_byte 10 (skipn (S (p - i)) s) = 0)
  | None => best = None /\ count_byte 10 s = 0
  end.
Proof.
  induction s as [|x s IH]; intros i best; cbn [last_nl].
  - destruct best as [p|]; cbn; auto.
  - specialize (IH (S i) (if (x =? 10)%N then Some i else best)).
    destruct (last_nl s (S i) (if (x =? 10)%N then Some i else best)) as [p|].
    + destruct IH as [[Hb Hc]|(Hr & Hn & Hc)].
      * destruct (x =? 10)%N eqn:E.
        -- inversion Hb; subst p. apply N.eqb_eq in E. subst x. right.
           rewrite Nat.sub_diag. cbn [length nth_error skipn]. repeat split; auto; lia.
        -- left. cbn [count_byte]. rewrite E. split; [exact Hb|lia].
      * right. replace (p - i) with (S (p - S i)) by lia.
        cbn [length nth_error skipn]. repeat split; auto; lia.
    + destruct IH as [Hb Hc]. destruct (x =? 10)%N eqn:E; [discriminate|].
      cbn [count_byte]. rewrite E. split; [exact Hb|lia].
Qed.

(* P1 *)
Theorem line_start_spec : forall c off, (off <= length c)%nat ->
  (line_start c off <= off)%nat /\
  (line_start c off = 0%nat \/ nth_error c (line_start c off - 1) = Some 10%N) /\
  count_byte 10 (firstn (off - line_start c off) (skipn (line_start c off) c)) = 0%nat.
Proof.
  intros c off Hoff. unfold line_start.
  pose proof (last_nl_spec (firstn off c) 0 None) as H.
  destruct (last_nl (firstn off c) 0 None) as [p|].
  - destruct H as [[H _]|(Hr & Hn & Hc)]; [discriminate|].
    rewrite firstn_length_le in Hr by exact Hoff. rewrite Nat.sub_0_r in Hn, Hc.
    split; [lia|]. split.
    + right. replace (S p - 1) with p by lia. rewrite nth_error_firstn_lt in Hn by lia. exact Hn.
    + rewrite firstn_skipn_comm. replace (S p + (off - S p)) with off by lia. exact Hc.
  - destruct H as [_ Hc]. split; [lia|]. split; [left; reflexivity|].
    rewrite Nat.sub_0_r. cbn [skipn]. exact Hc.
Qed.

(* line_start also makes sense past the end of the file: it saturates at the last line *)
Lemma line_start_le c off : line_start c off <= off.
Proof.
  unfold line_start. pose proof (last_nl_spec (firstn off c) 0 None) as H.
  destruct (last_nl (firstn off c) 0 None) as [p|]; [|lia].
  destruct H as [[H _]|(Hr & _)]; [discriminate|]. rewrite firstn_length in Hr. lia.
Qed.

(* ------------------------------------------------------------------------------------------ *)
(* H2 (C03 -> C02): a consistent plan is a well-formed edit list                               *)
(* ------------------------------------------------------------------------------------------ *)

Lemma hunk_ok_slice wt c h :
  hunk_ok wt c h = true ->
  match str_slice c (fh_start h) (fh_end h) with
  | Some actual => beq actual (fh_content h)
  | None => false
  end = true.
Proof.
  unfold hunk_ok. intro H.
  repeat (apply andb_true_iff in H as [H _]). exact H.
Qed.

Lemma consistent_wf_from wt c : forall hs pos,
  forallb (hunk_ok wt c) hs = true -> sorted_disjoint pos hs = true ->
  forallb (fun h => head_ok (fh_replace h)) hs = true ->
  wf_edits_from c pos (map edit_of_hunk hs) = true.
Proof.
  induction hs as [|h hs IH]; intros pos Hok Hsd Hho; [reflexivity|].
  cbn [forallb] in Hok, Hho. cbn [sorted_disjoint] in Hsd.
  apply andb_true_iff in Hok as [Hok1 Hok2]. apply andb_true_iff in Hho as [Hho1 Hho2].
  apply andb_true_iff in Hsd as [Hsd Hsd3]. apply andb_true_iff in Hsd as [Hsd1 Hsd2].
  cbn [map wf_edits_from edit_of_hunk e_start e_stop e_old e_new].
  rewrite Hsd1, (hunk_ok_slice _ _ _ Hok1), Hho1. cbn [andb].
  apply IH; assumption.
Qed.

(* H2 *)
Theorem consistent_is_wf : forall wt c hs,
  file_consistent wt c hs = true -> forallb (fun h => head_ok (fh_replace h)) hs = true ->
  wf_edits c (map edit_of_hunk hs) = true.
Proof.
  intros wt c hs H Hho. unfold file_consistent in H. apply andb_true_iff in H as [H1 H2].
  unfold wf_edits. eapply consistent_wf_from; eassumption.
Qed.

Corollary consistent_applies : forall wt c hs,
  head_ok c = true -> file_consistent wt c hs = true ->
  forallb (fun h => head_ok (fh_replace h)) hs = true ->
  apply_edits_rev c (map edit_of_hunk hs) = Ok (spec_splice c (map edit_of_hunk hs)).
Proof.
  intros wt c hs Hc H Hho. apply apply_edits_rev_spec; [exact Hc|].
  eapply consistent_is_wf; eassumption.
Qed.

(* ------------------------------------------------------------------------------------------ *)
(* H1: the hunk the planner builds is consistent with the file                                 *)
(* ------------------------------------------------------------------------------------------ *)

(* H1: holds for both flavours of line context without any further condition, because
   [hunk_ok] compares the recorded context with the same expression [mk_hunk] records *)
Theorem mk_hunk_ok : forall wt c start stop repl,
  (start < stop)%nat -> (stop <= length c)%nat ->
  char_boundary c start = true -> char_boundary c stop = true ->
  existsb (N.eqb 10) (firstn (stop - start) (skipn start c)) = false ->
  hunk_ok wt c (mk_hunk wt c start stop repl) = true.
Proof.
  intros wt c start stop repl Hlt Hle Hb1 Hb2 Hnl.
  unfold hunk_ok, mk_hunk.
  cbn [fh_line fh_col fh_char fh_start fh_end fh_content fh_replace fh_before fh_after].
  unfold str_slice. rewrite Hb1, Hb2.
  replace (Nat.leb start stop) with true by (symmetry; apply Nat.leb_le; lia).
  replace (Nat.leb stop (length c)) with true by (symmetry; apply Nat.leb_le; lia).
  replace (Nat.eqb start stop) with false by (symmetry; apply Nat.eqb_neq; lia).
  cbn [andb negb]. rewrite Hnl, beq_refl, !Nat.eqb_refl. cbn [andb negb obeq].
  rewrite !beq_refl. reflexivity.
Qed.

(* ------------------------------------------------------------------------------------------ *)
(* H3 (C15): the diff preview's "after" line is the line after the whole plan                  *)
(* ------------------------------------------------------------------------------------------ *)

(* the hunk's content is non-empty and is found at its column in [l] *)
Definition hunk_at (l : bytes) (h : fhunk) : bool :=
  negb (Nat.eqb (length (fh_content h)) 0) &&
  beq (firstn (length (fh_content h)) (skipn (fh_col h) l)) (fh_content h).

(* increasing column order, non-overlapping, every content found at its column *)
Fixpoint cols_ok (l : bytes) (pos : nat) (hs : list fhunk) : bool :=
  match hs with
  | [] => true
  | h :: hs' =>
      Nat.leb pos (fh_col h) && hunk_at l h && cols_ok l (fh_col h + length (fh_content h)) hs'
  end.

Definition line_hunks_okb (l : bytes) (hs : list fhunk) : bool :=
  cols_ok l 0 hs &&
  match hs with
  | [] => true
  | [h] => obeq (fh_after h) (splice_line l (fh_col h) (fh_content h) (fh_replace h))
  | h0 :: _ => obeq (fh_before h0) l
  end.

Definition line_hunks_ok (l : bytes) (hs : list fhunk) : Prop := line_hunks_okb l hs = true.

Lemma hunk_at_spec l h :
  hunk_at l h = true ->
  0 < length (fh_content h) /\
  firstn (length (fh_content h)) (skipn (fh_col h) l) = fh_content h /\
  fh_col h + length (fh_content h) <= length l.
Proof.
  unfold hunk_at. intro H. apply andb_true_iff in H as [H1 H2].
  apply negb_true_iff, Nat.eqb_neq in H1. apply beq_eq in H2.
  split; [lia|]. split; [exact H2|].
  pose proof (f_equal (@length _) H2) as HL. rewrite firstn_length, skipn_length in HL. lia.
Qed.

Lemma cols_ok_cons l pos h hs :
  cols_ok l pos (h :: hs) = true ->
  pos <= fh_col h /\ hunk_at l h = true /\ cols_ok l (fh_col h + length (fh_content h)) hs = true.
Proof.
  cbn [cols_ok]. intro H. apply andb_true_iff in H as [H H3]. apply andb_true_iff in H as [H1 H2].
  apply Nat.leb_le in H1. auto.
Qed.

Lemma cols_ok_lower l : forall hs pos,
  cols_ok l pos hs = true -> Forall (fun x => pos <= fh_col x) hs.
Proof.
  induction hs as [|h hs IH]; intros pos H; constructor.
  - apply cols_ok_cons in H. tauto.
  - apply cols_ok_cons in H as (H1 & _ & H3). apply IH in H3.
    eapply Forall_impl; [|exact H3]. cbn. intros. lia.
Qed.

Lemma ins_col_desc_gt h : forall l,
  Forall (fun x => fh_col h < fh_col x) l -> ins_col_desc h l = l ++ [h].
Proof.
  induction l as [|a l IH]; intros H; cbn [ins_col_desc app]; [reflexivity|].
  inversion H; subst.
  replace (Nat.leb (fh_col a) (fh_col h)) with false by (symmetry; apply Nat.leb_gt; lia).
  f_equal. auto.
Qed.

(* on a well-formed line plan the descending sort is just list reversal *)
Lemma sort_col_desc_rev l : forall hs pos, cols_ok l pos hs = true -> sort_col_desc hs = rev hs.
Proof.
  induction hs as [|h hs IH]; intros pos H; [reflexivity|].
  change (sort_col_desc (h :: hs)) with (ins_col_desc h (sort_col_desc hs)).
  apply cols_ok_cons in H as (H1 & H2 & H3). rewrite (IH _ H3). cbn [rev].
  apply ins_col_desc_gt. apply Forall_rev.
  apply hunk_at_spec in H2 as (Hpos & _). apply cols_ok_lower in H3.
  eapply Forall_impl; [|exact H3]. cbn. intros. lia.
Qed.

(* the loop body of diff.rs: splice one hunk under the starts_with guard *)
Definition dstep (acc : bytes) (h : fhunk) : bytes :=
  if is_prefix (fh_content h) (skipn (fh_col h) acc) && Nat.ltb (fh_col h) (length acc)
  then firstn (fh_col h) acc ++ fh_replace h ++ skipn (fh_col h + length (fh_content h)) acc
  else acc.

Lemma fold_dstep l : forall hs pos, cols_ok l pos hs = true ->
  fold_right (fun h acc => dstep acc h) l hs = firstn pos l ++ splice_cols pos (skipn pos l) hs.
Proof.
  induction hs as [|h hs IH]; intros pos H.
  - cbn. symmetry. apply firstn_skipn.
  - apply cols_ok_cons in H as (Hle & Hat & Hrest).
    apply hunk_at_spec in Hat as (Hpos & Hfound & Hlen).
    cbn [fold_right splice_cols]. rewrite (IH _ Hrest).
    set (col := fh_col h) in *. set (len := length (fh_content h)) in *.
    set (X := splice_cols (col + len) (skipn (col + len) l) hs).
    assert (HF : length (firstn (col + len) l) = col + len) by (apply firstn_length_le; exact Hlen).
    assert (E1 : skipn col (firstn (col + len) l ++ X) = fh_content h ++ X).
    { rewrite skipn_app, HF. replace (col - (col + len)) with 0 by lia. cbn [skipn].
      rewrite skipn_firstn_comm. replace (col + len - col) with len by lia.
      rewrite Hfound. reflexivity. }
    assert (E2 : firstn col (firstn (col + len) l ++ X) = firstn col l).
    { rewrite firstn_app, HF. replace (col - (col + len)) with 0 by lia. cbn [firstn].
      rewrite app_nil_r, firstn_firstn. f_equal. lia. }
    assert (E3 : skipn (col + len) (firstn (col + len) l ++ X) = X).
    { rewrite skipn_app, HF, Nat.sub_diag. cbn [skipn].
      rewrite skipn_all2 by lia. reflexivity. }
    unfold dstep. fold col. fold len. rewrite E1, E2, E3, is_prefix_app.
    replace (Nat.ltb col (length (firstn (col + len) l ++ X))) with true
      by (symmetry; apply Nat.ltb_lt; rewrite app_length, HF; lia).
    cbn [andb]. rewrite (app_assoc (firstn pos l)). rewrite <- firstn_split_at by exact Hle.
    unfold X. rewrite skipn_skipn. replace (col + len - pos + pos) with (col + len) by lia.
    reflexivity.
Qed.

Lemma diff_after_many l h0 h1 hs :
  cols_ok l 0 (h0 :: h1 :: hs) = true -> fh_before h0 = Some l ->
  diff_after (h0 :: h1 :: hs) = line_after_plan l (h0 :: h1 :: hs).
Proof.
  intros Hc Hb. unfold line_after_plan.
  change (diff_after (h0 :: h1 :: hs)) with
    (fold_left dstep (sort_col_desc (h0 :: h1 :: hs))
       (match fh_before h0 with Some b => b | None => fh_content h0 end)).
  rewrite Hb, (sort_col_desc_rev _ _ _ Hc).
  pose proof (fold_left_rev_right (fun h acc => dstep acc h) (rev (h0 :: h1 :: hs)) l) as E.
  rewrite rev_involutive in E. cbv beta in E.
  transitivity (fold_right (fun h acc => dstep acc h) l (h0 :: h1 :: hs)); [symmetry; exact E|].
  rewrite (fold_dstep _ _ _ Hc). reflexivity.
Qed.

(* H3 *)
Theorem diff_after_is_line_after_plan : forall l hs,
  line_hunks_ok l hs -> hs <> [] -> diff_after hs = line_after_plan l hs.
Proof.
  intros l hs H Hne. unfold line_hunks_ok, line_hunks_okb in H.
  apply andb_true_iff in H as [Hc Hctx].
  destruct hs as [|h0 [|h1 hs]]; [congruence| |].
  - unfold obeq in Hctx. destruct (fh_after h0) as [a|] eqn:Ea; [|discriminate].
    apply beq_eq in Hctx. subst a.
    cbn [diff_after]. rewrite Ea. unfold line_after_plan, splice_line. cbn [splice_cols].
    rewrite !Nat.sub_0_r. reflexivity.
  - unfold obeq in Hctx. destruct (fh_before h0) as [b|] eqn:Eb; [|discriminate].
    apply beq_eq in Hctx. subst b. apply diff_after_many; assumption.
Qed.

(* ------------------------------------------------------------------------------------------ *)
(* H1+: the recorded content really sits at the recorded column of the recorded line context   *)
(*      (this is what links a planner hunk to [hunk_at] / [line_hunks_ok] of H3)               *)
(* ------------------------------------------------------------------------------------------ *)

Lemma index_nl_ge : forall s i n,
  index_nl s = Some i -> count_byte 10 (firstn n s) = 0 -> n <= i.
Proof.
  induction s as [|x s IH]; intros i n H Hc; cbn [index_nl] in H; [discriminate|].
  destruct n as [|n]; [lia|]. cbn [firstn count_byte] in Hc.
  destruct (x =? 10)%N eqn:E; [lia|].
  destruct (index_nl s) as [j|] eqn:E2; cbn in H; [|discriminate].
  inversion H; subst i. specialize (IH j n eq_refl). lia.
Qed.

Lemma index_nl_some : forall s i,
  index_nl s = Some i -> nth_error s i = Some 10%N /\ count_byte 10 (firstn i s) = 0.
Proof.
  induction s as [|x s IH]; intros i H; cbn [index_nl] in H; [discriminate|].
  destruct (x =? 10)%N eqn:E.
  - inversion H; subst i. apply N.eqb_eq in E. subst x. cbn. auto.
  - destruct (index_nl s) as [j|] eqn:E2; cbn in H; [|discriminate].
    inversion H; subst i. destruct (IH j eq_refl) as [H1 H2].
    cbn [nth_error firstn count_byte]. rewrite E. split; [exact H1|lia].
Qed.

Lemma index_nl_none : forall s, index_nl s = None -> count_byte 10 s = 0.
Proof.
  induction s as [|x s IH]; intro H; cbn [index_nl] in H; [reflexivity|].
  destruct (x =? 10)%N eqn:E; [discriminate|].
  destruct (index_nl s); [discriminate|]. cbn [count_byte]. rewrite E, IH; reflexivity.
Qed.

(* the span start..stop lies inside the line of [start], before its terminator *)
Lemma span_in_line c start stop :
  start < stop -> stop <= length c ->
  existsb (N.eqb 10) (firstn (stop - start) (skipn start c)) = false ->
  count_byte 10 (firstn (stop - line_start c start) (skipn (line_start c start) c)) = 0.
Proof.
  intros Hlt Hle Hnl.
  destruct (line_start_spec c start ltac:(lia)) as (Hls & _ & Hc).
  rewrite (firstn_split_at _ (start - line_start c start)) by lia.
  rewrite count_byte_app, Hc, skipn_skipn.
  replace (start - line_start c start + line_start c start) with start by lia.
  replace (stop - line_start c start - (start - line_start c start)) with (stop - start) by lia.
  apply existsb_count_byte in Hnl. rewrite Hnl. reflexivity.
Qed.

(* with the terminator kept: always *)
Lemma line_at_content c start stop :
  start < stop -> stop <= length c ->
  existsb (N.eqb 10) (firstn (stop - start) (skipn start c)) = false ->
  firstn (stop - start) (skipn (col_of c start) (line_at c start)) =
  firstn (stop - start) (skipn start c).
Proof.
  intros Hlt Hle Hnl.
  pose proof (span_in_line c start stop Hlt Hle Hnl) as Hspan.
  pose proof (line_start_le c start) as Hls.
  unfold line_at, col_of. set (ls := line_start c start) in *.
  assert (Hsk : skipn (start - ls) (skipn ls c) = skipn start c).
  { rewrite skipn_skipn. f_equal. lia. }
  destruct (index_nl (skipn ls c)) as [i|] eqn:E.
  - pose proof (index_nl_ge _ _ _ E Hspan) as Hi.
    rewrite skipn_firstn_comm, Hsk, firstn_firstn. f_equal. lia.
  - rewrite Hsk. reflexivity.
Qed.

(* strip_eol through boolean tests instead of pattern matching on numerals *)
Definition strip_eol' (l : bytes) : bytes :=
  match rev l with
  | x :: r =>
      if (x =? 10)%N then
        match r with
        | y :: r' => if (y =? 13)%N then rev r' else rev r
        | [] => rev r
        end
      else l
  | [] => l
  end.

Lemma strip_eol_eq l : strip_eol l = strip_eol' l.
Proof.
  unfold strip_eol, strip_eol'. destruct (rev l) as [|x r]; [reflexivity|].
  destruct (N.eqb_spec x 10) as [->|Hx].
  - destruct r as [|y r']; [reflexivity|].
    destruct (N.eqb_spec y 13) as [->|Hy]; [reflexivity|].
    destruct y as [|p]; [reflexivity|].
    do 4 (try destruct p as [p|p|]); try reflexivity; congruence.
  - destruct x as [|p]; [reflexivity|].
    do 4 (try destruct p as [p|p|]); try reflexivity; congruence.
Qed.

(* strip_eol only removes a suffix *)
Lemma strip_eol_prefix l : strip_eol l = firstn (length (strip_eol l)) l.
Proof.
  assert (H : exists t, l = strip_eol l ++ t).
  { rewrite strip_eol_eq. unfold strip_eol'.
    destruct (rev l) as [|x r] eqn:E; [exists []; symmetry; apply app_nil_r|].
    destruct (x =? 10)%N; [|exists []; symmetry; apply app_nil_r].
    apply (f_equal (@rev _)) in E. rewrite rev_involutive in E.
    destruct r as [|y r'].
    - exists l. reflexivity.
    - destruct (y =? 13)%N.
      + exists [y; x]. rewrite E. cbn [rev]. rewrite <- app_assoc. reflexivity.
      + exists [x]. rewrite E. reflexivity. }
  destruct H as [t Ht]. set (s := strip_eol l) in *. clearbody s. subst l.
  rewrite firstn_app, Nat.sub_diag, firstn_all. cbn. symmetry. apply app_nil_r.
Qed.

(* with the terminator stripped: exactly when the span ends inside the stripped line *)
Lemma strip_line_at_content c start stop :
  start < stop -> stop <= length c ->
  existsb (N.eqb 10) (firstn (stop - start) (skipn start c)) = false ->
  col_of c start + (stop - start) <= length (strip_eol (line_at c start)) ->
  firstn (stop - start) (skipn (col_of c start) (strip_eol (line_at c start))) =
  firstn (stop - start) (skipn start c).
Proof.
  intros Hlt Hle Hnl Hfit.
  rewrite strip_eol_prefix, skipn_firstn_comm, firstn_firstn.
  rewrite Nat.min_l by lia. apply line_at_content; assumption.
Qed.

Lemma strip_line_at_content_conv c start stop :
  stop <= length c -> start < stop ->
  firstn (stop - start) (skipn (col_of c start) (strip_eol (line_at c start))) =
  firstn (stop - start) (skipn start c) ->
  col_of c start + (stop - start) <= length (strip_eol (line_at c start)).
Proof.
  intros Hle Hlt H. apply (f_equal (@length _)) in H.
  rewrite !firstn_length, !skipn_length in H. lia.
Qed.

(* H1+ : the hunk of the planner satisfies [hunk_at] for its own line context *)
Theorem mk_hunk_at : forall wt c start stop repl,
  (start < stop)%nat -> (stop <= length c)%nat ->
  existsb (N.eqb 10) (firstn (stop - start) (skipn start c)) = false ->
  (wt = false ->
   (col_of c start + (stop - start) <= length (strip_eol (line_at c start)))%nat) ->
  exists l, fh_before (mk_hunk wt c start stop repl) = Some l /\
            fh_after (mk_hunk wt c start stop repl) =
              Some (splice_line l (fh_col (mk_hunk wt c start stop repl))
                      (fh_content (mk_hunk wt c start stop repl)) repl) /\
            hunk_at l (mk_hunk wt c start stop repl) = true.
Proof.
  intros wt c start stop repl Hlt Hle Hnl Hfit.
  unfold mk_hunk. cbn [fh_before fh_after fh_col fh_content].
  eexists. split; [reflexivity|]. split; [reflexivity|].
  unfold hunk_at. cbn [fh_col fh_content].
  assert (HL : length (firstn (stop - start) (skipn start c)) = stop - start).
  { rewrite firstn_length, skipn_length. lia. }
  rewrite HL. replace (Nat.eqb (stop - start) 0) with false by (symmetry; apply Nat.eqb_neq; lia).
  cbn [negb andb]. apply beq_eq.
  destruct wt.
  - apply line_at_content; assumption.
  - apply strip_line_at_content; auto.
Qed.

(* the fitting condition in terms of the file bytes: the span must not end with the '\r' of a
   "\r\n" terminator *)
Lemma nth_error_skipn_add {A} (l : list A) : forall n j, nth_error (skipn n l) j = nth_error l (n + j).
Proof.
  induction l as [|x l IH]; intros n j.
  - rewrite skipn_nil. destruct j, n; reflexivity.
  - destruct n as [|n]; [reflexivity|]. cbn [skipn Nat.add nth_error]. apply IH.
Qed.

Lemma firstn_S_nth {A} (l : list A) : forall i x,
  nth_error l i = Some x -> firstn (S i) l = firstn i l ++ [x].
Proof.
  induction l as [|y l IH]; intros i x H; [destruct i; discriminate|].
  destruct i as [|i]; [inversion H; reflexivity|].
  cbn [nth_error] in H. rewrite firstn_cons, (IH _ _ H). reflexivity.
Qed.

Lemma count_byte_nth b s : forall i, nth_error s i = Some b -> 0 < count_byte b s.
Proof.
  induction s as [|x s IH]; intros i H; [destruct i; discriminate|].
  destruct i as [|i]; cbn [nth_error count_byte] in *.
  - inversion H; subst. rewrite N.eqb_refl. lia.
  - specialize (IH _ H). lia.
Qed.

Lemma strip_eol_no_nl l : count_byte 10 l = 0 -> strip_eol l = l.
Proof.
  intro H. rewrite strip_eol_eq. unfold strip_eol'.
  destruct (rev l) as [|x r] eqn:E; [reflexivity|].
  destruct (N.eqb_spec x 10) as [->|]; [|reflexivity].
  apply (f_equal (@rev _)) in E. rewrite rev_involutive in E. subst l.
  cbn [rev] in H. rewrite count_byte_app in H. cbn [count_byte] in H. rewrite N.eqb_refl in H. lia.
Qed.

Lemma strip_eol_snoc_length P :
  length (strip_eol (P ++ [10%N])) =
  if match nth_error P (length P - 1) with Some y => (y =? 13)%N | None => false end
  then length P - 1 else length P.
Proof.
  rewrite strip_eol_eq. unfold strip_eol'. rewrite rev_app_distr. cbn [rev app].
  rewrite N.eqb_refl.
  destruct (rev P) as [|y r'] eqn:E.
  - apply (f_equal (@rev _)) in E. rewrite rev_involutive in E. subst P. reflexivity.
  - pose proof E as E'. apply (f_equal (@rev _)) in E'. rewrite rev_involutive in E'.
    cbn [rev] in E'.
    assert (HL : length P = S (length r')).
    { rewrite E', app_length, rev_length. cbn. lia. }
    assert (HN : nth_error P (length P - 1) = Some y).
    { rewrite HL. replace (S (length r') - 1) with (length (rev r')) by (rewrite rev_length; lia).
      rewrite E', nth_error_app2 by lia. rewrite Nat.sub_diag. reflexivity. }
    rewrite HN. destruct (y =? 13)%N.
    + rewrite rev_length. lia.
    + rewrite <- E, rev_involutive. reflexivity.
Qed.

Theorem strip_fit_iff : forall c start stop,
  (start < stop)%nat -> (stop <= length c)%nat ->
  existsb (N.eqb 10) (firstn (stop - start) (skipn start c)) = false ->
  ((col_of c start + (stop - start) <= length (strip_eol (line_at c start)))%nat <->
   ~ (nth_error c (stop - 1) = Some 13%N /\ nth_error c stop = Some 10%N)).
Proof.
  intros c start stop Hlt Hle Hnl.
  pose proof (span_in_line c start stop Hlt Hle Hnl) as Hspan.
  pose proof (line_start_le c start) as Hls.
  unfold line_at, col_of. set (ls := line_start c start) in *.
  set (R := skipn ls c) in *.
  replace (start - ls + (stop - start)) with (stop - ls) by lia.
  assert (HR : forall j, nth_error R j = nth_error c (ls + j)) by (intro; apply nth_error_skipn_add).
  assert (HRlen : length R = length c - ls) by apply skipn_length.
  destruct (index_nl R) as [i|] eqn:E.
  - pose proof (index_nl_ge _ _ _ E Hspan) as Hki.
    destruct (index_nl_some _ _ E) as [Hnl_i Hbefore].
    assert (Hi : i < length R) by (apply nth_error_Some; congruence).
    rewrite (firstn_S_nth _ _ _ Hnl_i), strip_eol_snoc_length.
    rewrite firstn_length_le by lia.
    destruct (Nat.eq_dec (stop - ls) i) as [Heq|Hne].
    + (* the span ends right at the newline *)
      assert (Hc1 : nth_error c stop = Some 10%N).
      { rewrite <- Hnl_i, HR. f_equal. lia. }
      assert (Hc2 : nth_error (firstn i R) (i - 1) = nth_error c (stop - 1)).
      { rewrite nth_error_firstn_lt by lia. rewrite HR. f_equal. lia. }
      rewrite Hc2.
      destruct (nth_error c (stop - 1)) as [y|] eqn:Ey.
      * destruct (N.eqb_spec y 13) as [->|Hy].
        -- split; [lia|]. intro H. exfalso. apply H. auto.
        -- split; [|lia]. intros _ [H _]. congruence.
      * split; [|lia]. intros _ [H _]. congruence.
    + (* the span ends before it *)
      split.
      * intros _ [_ H].
        assert (Hk : nth_error (firstn i R) (stop - ls) = Some 10%N).
        { rewrite nth_error_firstn_lt by lia. rewrite HR, <- H. f_equal. lia. }
        apply count_byte_nth in Hk. lia.
      * intros _. destruct (match nth_error (firstn i R) (i - 1) with
                            | Some y => (y =? 13)%N | None => false end); lia.
  - apply index_nl_none in E. rewrite (strip_eol_no_nl _ E).
    split; [|lia]. intros _ [_ H].
    assert (Hk : nth_error R (stop - ls) = Some 10%N).
    { rewrite HR, <- H. f_equal. lia. }
    apply count_byte_nth in Hk. lia.
Qed.

(* H1+ for the "replace" flavour with the condition on the file bytes *)
Corollary mk_hunk_at_noterm : forall c start stop repl,
  (start < stop)%nat -> (stop <= length c)%nat ->
  existsb (N.eqb 10) (firstn (stop - start) (skipn start c)) = false ->
  ~ (nth_error c (stop - 1) = Some 13%N /\ nth_error c stop = Some 10%N) ->
  hunk_at (strip_eol (line_at c start)) (mk_hunk false c start stop repl) = true.
Proof.
  intros c start stop repl Hlt Hle Hnl Hcr.
  destruct (mk_hunk_at false c start stop repl Hlt Hle Hnl) as (l & Hb & _ & Hat).
  - intros _. apply (proj2 (strip_fit_iff c start stop Hlt Hle Hnl)). exact Hcr.
  - unfold mk_hunk in Hb. cbn [fh_before] in Hb. injection Hb as <-. exact Hat.
Qed.

Corollary mk_hunk_at_term : forall c start stop repl,
  (start < stop)%nat -> (stop <= length c)%nat ->
  existsb (N.eqb 10) (firstn (stop - start) (skipn start c)) = false ->
  hunk_at (line_at c start) (mk_hunk true c start stop repl) = true.
Proof.
  intros c start stop repl Hlt Hle Hnl.
  destruct (mk_hunk_at true c start stop repl Hlt Hle Hnl) as (l & Hb & _ & Hat).
  - discriminate.
  - unfold mk_hunk in Hb. cbn [fh_before] in Hb. injection Hb as <-. exact Hat.
Qed.

(* and the condition is necessary: a span swallowing the '\r' of "\r\n" is NOT found at its
   column in the stripped line *)
Theorem mk_hunk_at_noterm_conv : forall c start stop repl,
  (start < stop)%nat -> (stop <= length c)%nat ->
  existsb (N.eqb 10) (firstn (stop - start) (skipn start c)) = false ->
  hunk_at (strip_eol (line_at c start)) (mk_hunk false c start stop repl) = true ->
  ~ (nth_error c (stop - 1) = Some 13%N /\ nth_error c stop = Some 10%N).
Proof.
  intros c start stop repl Hlt Hle Hnl Hat.
  apply (proj1 (strip_fit_iff c start stop Hlt Hle Hnl)).
  apply hunk_at_spec in Hat as (_ & _ & Hfit).
  unfold mk_hunk in Hfit. cbn [fh_col fh_content] in Hfit.
  rewrite firstn_length, skipn_length in Hfit. lia.
Qed.

(* ------------------------------------------------------------------------------------------ *)
(* C03 -> C15: the hunks a consistent plan has on one line satisfy [line_hunks_ok]             *)
(* ------------------------------------------------------------------------------------------ *)

Definition line_ctx (wt : bool) (c : bytes) (off : nat) : bytes :=
  if wt then line_at c off else strip_eol (line_at c off).

(* the hunk does not end with the '\r' of a "\r\n" line terminator *)
Definition no_cr_cut (c : bytes) (h : fhunk) : Prop :=
  ~ (nth_error c (fh_end h - 1) = Some 13%N /\ nth_error c (fh_end h) = Some 10%N).

Lemma obeq_eq a b : obeq a b = true -> a = Some b.
Proof. destruct a as [x|]; cbn; [|discriminate]. intro H. apply beq_eq in H. congruence. Qed.

Lemma hunk_ok_facts wt c h :
  hunk_ok wt c h = true ->
  fh_start h < fh_end h /\ fh_end h <= length c /\
  fh_content h = firstn (fh_end h - fh_start h) (skipn (fh_start h) c) /\
  fh_line h = line_of c (fh_start h) /\ fh_col h = col_of c (fh_start h) /\
  existsb (N.eqb 10) (fh_content h) = false /\
  fh_before h = Some (line_ctx wt c (fh_start h)) /\
  fh_after h = Some (splice_line (line_ctx wt c (fh_start h)) (fh_col h) (fh_content h) (fh_replace h)).
Proof.
  unfold hunk_ok. intro H.
  apply andb_true_iff in H as [H H8]. apply andb_true_iff in H as [H H7].
  apply andb_true_iff in H as [H H6]. apply andb_true_iff in H as [H H5].
  apply andb_true_iff in H as [H H4]. apply andb_true_iff in H as [H H3].
  apply andb_true_iff in H as [H1 H2].
  destruct (str_slice c (fh_start h) (fh_end h)) as [actual|] eqn:Es; [|discriminate].
  apply str_slice_some in Es as (Hab & Hb & _ & _ & Hact). apply beq_eq in H1.
  apply negb_true_iff, Nat.eqb_neq in H2. apply Nat.eqb_eq in H3. apply Nat.eqb_eq in H4.
  apply negb_true_iff in H6. apply obeq_eq in H7. apply obeq_eq in H8.
  repeat split; try assumption; try lia. congruence.
Qed.

Lemma hunk_ok_at wt c h :
  hunk_ok wt c h = true -> (wt = false -> no_cr_cut c h) ->
  hunk_at (line_ctx wt c (fh_start h)) h = true.
Proof.
  intros H Hcr. apply hunk_ok_facts in H as (Hlt & Hle & Hcont & _ & Hcol & Hnl & _).
  unfold hunk_at.
  assert (HL : length (fh_content h) = fh_end h - fh_start h).
  { rewrite Hcont, firstn_length, skipn_length. lia. }
  rewrite HL. replace (Nat.eqb (fh_end h - fh_start h) 0) with false
    by (symmetry; apply Nat.eqb_neq; lia).
  cbn [negb andb]. apply beq_eq. rewrite Hcol. rewrite Hcont in Hnl.
  transitivity (firstn (fh_end h - fh_start h) (skipn (fh_start h) c)); [|symmetry; exact Hcont].
  unfold line_ctx. destruct wt.
  - apply line_at_content; assumption.
  - apply strip_line_at_content; try assumption.
    apply (proj2 (strip_fit_iff c _ _ Hlt Hle Hnl)). apply Hcr. reflexivity.
Qed.

(* line_start is the only position with the three properties of P1 *)
Lemma line_start_unique c off p :
  off <= length c -> p <= off ->
  (p = 0 \/ nth_error c (p - 1) = Some 10%N) ->
  count_byte 10 (firstn (off - p) (skipn p c)) = 0 ->
  p = line_start c off.
Proof.
  intros Hoff Hp Hnl Hc.
  destruct (line_start_spec c off Hoff) as (Hq & Hnlq & Hcq).
  set (q := line_start c off) in *.
  destruct (Nat.lt_trichotomy p q) as [Hlt|[Heq|Hgt]]; [|exact Heq|]; exfalso.
  - destruct Hnlq as [Hz|Hn]; [lia|].
    assert (Hk : nth_error (firstn (off - p) (skipn p c)) (q - 1 - p) = Some 10%N).
    { rewrite nth_error_firstn_lt by lia. rewrite nth_error_skipn_add, <- Hn. f_equal. lia. }
    apply count_byte_nth in Hk. lia.
  - destruct Hnl as [Hz|Hn]; [lia|].
    assert (Hk : nth_error (firstn (off - q) (skipn q c)) (p - 1 - q) = Some 10%N).
    { rewrite nth_error_firstn_lt by lia. rewrite nth_error_skipn_add, <- Hn. f_equal. lia. }
    apply count_byte_nth in Hk. lia.
Qed.

(* two offsets with the same line number have the same line start *)
Lemma same_line_start c a b :
  a <= b -> b <= length c -> line_of c a = line_of c b -> line_start c a = line_start c b.
Proof.
  intros Hab Hb Hl. unfold line_of in Hl. injection Hl as Hl.
  rewrite (firstn_split_at c a b Hab), count_byte_app in Hl.
  destruct (line_start_spec c a ltac:(lia)) as (Hq & Hnlq & Hcq).
  apply line_start_unique; try assumption; try lia.
  rewrite (firstn_split_at _ (a - line_start c a)) by lia.
  rewrite count_byte_app, Hcq, skipn_skipn.
  replace (a - line_start c a + line_start c a) with a by lia.
  replace (b - line_start c a - (a - line_start c a)) with (b - a) by lia. lia.
Qed.

Lemma line_ctx_same wt c a b : line_start c a = line_start c b -> line_ctx wt c a = line_ctx wt c b.
Proof. intro H. unfold line_ctx, line_at. rewrite H. reflexivity. Qed.

Lemma sorted_disjoint_lower : forall hs P,
  sorted_disjoint P hs = true -> forall h, In h hs -> P <= fh_start h.
Proof.
  induction hs as [|x hs IH]; intros P H h Hin; [contradiction|].
  cbn [sorted_disjoint] in H. apply andb_true_iff in H as [H H3].
  apply andb_true_iff in H as [H1 H2]. apply Nat.leb_le in H1. apply Nat.leb_le in H2.
  destruct Hin as [<-|Hin]; [exact H1|]. specialize (IH _ H3 _ Hin). lia.
Qed.

Lemma cols_ok_of_consistent wt c ls l : forall hs P,
  forallb (hunk_ok wt c) hs = true -> sorted_disjoint P hs = true ->
  (forall h, In h hs -> line_start c (fh_start h) = ls /\ hunk_at l h = true) ->
  cols_ok l (P - ls) hs = true.
Proof.
  induction hs as [|h hs IH]; intros P Hok Hsd Hall; [reflexivity|].
  cbn [forallb] in Hok. apply andb_true_iff in Hok as [Hok1 Hok2].
  cbn [sorted_disjoint] in Hsd. apply andb_true_iff in Hsd as [Hsd Hsd3].
  apply andb_true_iff in Hsd as [Hsd1 Hsd2]. apply Nat.leb_le in Hsd1.
  destruct (Hall h (or_introl eq_refl)) as [Hls Hat].
  apply hunk_ok_facts in Hok1 as (Hlt & Hle & Hcont & _ & Hcol & _).
  assert (HL : length (fh_content h) = fh_end h - fh_start h).
  { rewrite Hcont, firstn_length, skipn_length. lia. }
  pose proof (line_start_le c (fh_start h)) as Hlsle.
  cbn [cols_ok]. rewrite Hat, Hcol. unfold col_of. rewrite Hls, HL.
  replace (Nat.leb (P - ls) (fh_start h - ls)) with true by (symmetry; apply Nat.leb_le; lia).
  cbn [andb].
  replace (fh_start h - ls + (fh_end h - fh_start h)) with (fh_end h - ls) by lia.
  apply IH; try assumption. intros h' Hin. apply Hall. right. exact Hin.
Qed.

Theorem consistent_line_hunks_ok : forall wt c h0 hs,
  file_consistent wt c (h0 :: hs) = true ->
  (forall h, In h hs -> fh_line h = fh_line h0) ->
  (wt = false -> forall h, In h (h0 :: hs) -> no_cr_cut c h) ->
  line_hunks_ok (line_ctx wt c (fh_start h0)) (h0 :: hs).
Proof.
  intros wt c h0 hs Hfc Hline Hcr.
  unfold file_consistent in Hfc. apply andb_true_iff in Hfc as [Hok Hsd].
  pose proof Hok as Hok'. cbn [forallb] in Hok'. apply andb_true_iff in Hok' as [Hok0 Hoks].
  pose proof (hunk_ok_facts _ _ _ Hok0) as (Hlt0 & Hle0 & _ & Hl0 & _ & _ & Hbef0 & Haft0).
  assert (Hall : forall h, In h (h0 :: hs) ->
            line_start c (fh_start h) = line_start c (fh_start h0) /\
            hunk_at (line_ctx wt c (fh_start h0)) h = true).
  { intros h Hin.
    assert (Hokh : hunk_ok wt c h = true) by (eapply forallb_forall in Hok; eassumption).
    assert (Hath : hunk_at (line_ctx wt c (fh_start h)) h = true).
    { apply hunk_ok_at; [exact Hokh|]. intro E. apply (Hcr E). exact Hin. }
    destruct Hin as [<-|Hin]; [split; [reflexivity|exact Hath]|].
    assert (Hls : line_start c (fh_start h) = line_start c (fh_start h0)).
    { pose proof (hunk_ok_facts _ _ _ Hokh) as (Hlt & Hle & _ & Hl & _).
      symmetry. apply same_line_start; [|lia|].
      - cbn [sorted_disjoint] in Hsd. apply andb_true_iff in Hsd as [Hsd Hsd3].
        pose proof (sorted_disjoint_lower _ _ Hsd3 _ Hin). lia.
      - rewrite <- Hl0, <- Hl. symmetry. apply Hline. exact Hin. }
    split; [exact Hls|]. rewrite <- (line_ctx_same wt c _ _ Hls). exact Hath. }
  unfold line_hunks_ok, line_hunks_okb. apply andb_true_iff. split.
  - replace 0 with (0 - line_start c (fh_start h0)) by lia.
    eapply cols_ok_of_consistent; eassumption.
  - destruct hs as [|h1 hs].
    + rewrite Haft0. cbn [obeq]. apply beq_refl.
    + rewrite Hbef0. cbn [obeq]. apply beq_refl.
Qed.

(* C03 -> C15 in one statement: for the hunks a consistent plan has on one line, the diff preview
   shows exactly that line with all of them applied *)
Corollary consistent_diff_after : forall wt c h0 hs,
  file_consistent wt c (h0 :: hs) = true ->
  (forall h, In h hs -> fh_line h = fh_line h0) ->
  (wt = false -> forall h, In h (h0 :: hs) -> no_cr_cut c h) ->
  diff_after (h0 :: hs) = line_after_plan (line_ctx wt c (fh_start h0)) (h0 :: hs).
Proof.
  intros wt c h0 hs H1 H2 H3. apply diff_after_is_line_after_plan; [|discriminate].
  apply consistent_line_hunks_ok; assumption.
Qed.

(* the hunks of one line are a contiguous segment of the file's hunk list; consistency of the
   whole list carries over to the segment *)
Lemma sorted_disjoint_weaken : forall hs P Q, Q <= P -> sorted_disjoint P hs = true -> sorted_disjoint Q hs = true.
Proof.
  destruct hs as [|h hs]; intros P Q HQ H; [reflexivity|].
  cbn [sorted_disjoint] in *. apply andb_true_iff in H as [H H3]. apply andb_true_iff in H as [H1 H2].
  apply Nat.leb_le in H1. rewrite H2, H3.
  replace (Nat.leb Q (fh_start h)) with true by (symmetry; apply Nat.leb_le; lia). reflexivity.
Qed.

Lemma sorted_disjoint_app : forall a b P,
  sorted_disjoint P (a ++ b) = true -> sorted_disjoint P a = true /\ sorted_disjoint 0 b = true.
Proof.
  induction a as [|h a IH]; intros b P H.
  - split; [reflexivity|]. eapply sorted_disjoint_weaken; [|exact H]. lia.
  - cbn [app sorted_disjoint] in *. apply andb_true_iff in H as [H H3].
    destruct (IH _ _ H3) as [Ha Hb]. rewrite H, Ha. auto.
Qed.

Theorem file_consistent_segment : forall wt c pre mid post,
  file_consistent wt c (pre ++ mid ++ post) = true -> file_consistent wt c mid = true.
Proof.
  intros wt c pre mid post H. unfold file_consistent in *.
  apply andb_true_iff in H as [H1 H2].
  rewrite !forallb_app in H1. apply andb_true_iff in H1 as [_ H1]. apply andb_true_iff in H1 as [H1 _].
  apply sorted_disjoint_app in H2 as [_ H2]. apply sorted_disjoint_app in H2 as [H2 _].
  rewrite H1, H2. reflexivity.
Qed.

(* ------------------------------------------------------------------------------------------ *)
(* concrete witnesses (vm_compute): the hypotheses above are needed                            *)
(* ------------------------------------------------------------------------------------------ *)

Module Witness.
  Definition foo : bytes := [102;111;111]%N.
  (* " foofo\nfoo\r\nxfoo" *)
  Definition c1 : bytes := [32;102;111;111;102;111;10;102;111;111;13;10;120;102;111;111]%N.

  Example scan_ex :
    find_iter [[102;111]%N; foo; []] c1 =
    [(1, 4, foo); (4, 6, [102;111]%N); (7, 10, foo); (13, 16, foo)].
  Proof. vm_compute. reflexivity. Qed.

  (* H1 holds for wt = false even when the span swallows the '\r' of "\r\n" ... *)
  Example h1_noterm_cr : hunk_ok false c1 (mk_hunk false c1 7 11 [88]%N) = true.
  Proof. vm_compute. reflexivity. Qed.
  (* ... but then the content is not found at its column in the recorded (stripped) line *)
  Example h1_noterm_cr_not_at :
    hunk_at (strip_eol (line_at c1 7)) (mk_hunk false c1 7 11 [88]%N) = false.
  Proof. vm_compute. reflexivity. Qed.

  (* "a foo\r\n": plan  a -> b  and  "foo\r" -> X  with stripped line context: consistent, yet the
     preview drops the second hunk (starts_with guard fails) *)
  Definition c2 : bytes := [97;32;102;111;111;13;10]%N.
  Definition hs2 := [mk_hunk false c2 0 1 [98]%N; mk_hunk false c2 2 6 [88]%N].
  Example cr_cut_consistent : file_consistent false c2 hs2 = true.
  Proof. vm_compute. reflexivity. Qed.
  Example cr_cut_preview :
    diff_after hs2 = [98;32;102;111;111]%N /\
    line_after_plan (line_ctx false c2 0) hs2 = [98;32;88]%N.
  Proof. vm_compute. auto. Qed.

  (* H3: hunks given out of column order *)
  Definition l1 : bytes := [102;111;111;32;102;111;111;10]%N.
  Definition mkh col content repl before after : fhunk :=
    {| fh_line := 1; fh_col := col; fh_char := col; fh_start := col; fh_end := col + length content;
       fh_content := content; fh_replace := repl; fh_before := before; fh_after := after |}.
  Example h3_unsorted :
    let hs := [mkh 4 foo [3]%N (Some l1) None; mkh 0 foo [1;2]%N None None] in
    line_hunks_okb l1 hs = false /\ diff_after hs <> line_after_plan l1 hs.
  Proof. vm_compute. split; [reflexivity|discriminate]. Qed.
  (* H3: single hunk with a stale line_after *)
  Example h3_stale_after :
    let hs := [mkh 4 foo [3]%N (Some l1) (Some [9]%N)] in
    line_hunks_okb l1 hs = false /\ diff_after hs <> line_after_plan l1 hs.
  Proof. vm_compute. split; [reflexivity|discriminate]. Qed.
  Example h3_ok :
    let hs := [mkh 0 foo [1;2]%N (Some l1) None; mkh 4 foo [3]%N None None] in
    line_hunks_okb l1 hs = true /\ diff_after hs = [1;2;32;3;10]%N.
  Proof. vm_compute. auto. Qed.
End Witness.
