(* Proofs/WrappersP.v — C20: every vector a wrapper can build (outside the recorded findings) is accepted
   by the clap model of the CURRENT grammar; fuel adequacy of the token loop. *)
From RN Require Import Base.Bytes Model.ClapDef Model.Clap Model.Wrappers Gen.GenCli Gen.GenWrappers.
From Coq Require Import Lia.

From RN Require Proofs.WSweep0 Proofs.WSweep1 Proofs.WSweep2 Proofs.WSweep3 Proofs.WSweep4 Proofs.WSweep5 Proofs.WSweep6 Proofs.WSweep7
  Proofs.WSweep8 Proofs.WSweep9 Proofs.WSweep10 Proofs.WSweep11 Proofs.WSweep12 Proofs.WSweep13 Proofs.WSweep14 Proofs.WSweep15.

Lemma chunk_aux_cover {A : Type} (n : nat) : forall (l : list A) k x,
  (k < n)%nat -> In x l -> exists i, (i < n)%nat /\ In x (chunk_aux n i k l).
Proof.
  induction l as [|y l IH]; intros k x Hk Hin; [destruct Hin|].
  destruct Hin as [->|Hin].
  - exists k. split; [exact Hk|]. cbn [chunk_aux]. rewrite Nat.eqb_refl. now left.
  - assert (Hk' : (S k mod n < n)%nat) by (apply Nat.mod_upper_bound; lia).
    destruct (IH _ _ Hk' Hin) as [i [Hi Hx]]. exists i. split; [exact Hi|].
    cbn [chunk_aux]. destruct (Nat.eqb k i); [now right | exact Hx].
Qed.

(* the finite sweep: all builders x all subsets of optional fields x representative values,
   checked in 16 residue classes (Proofs/WSweep*.v) *)
Lemma sweep_class : forall i, (i < 16)%nat -> forallb (builder_chunk_ok gen_globals gen_cli 16 i) gen_builders = true.
Proof.
  intros i Hi.
  destruct i as [|i]; [exact WSweep0.sweep0|].
  destruct i as [|i]; [exact WSweep1.sweep1|].
  destruct i as [|i]; [exact WSweep2.sweep2|].
  destruct i as [|i]; [exact WSweep3.sweep3|].
  destruct i as [|i]; [exact WSweep4.sweep4|].
  destruct i as [|i]; [exact WSweep5.sweep5|].
  destruct i as [|i]; [exact WSweep6.sweep6|].
  destruct i as [|i]; [exact WSweep7.sweep7|].
  destruct i as [|i]; [exact WSweep8.sweep8|].
  destruct i as [|i]; [exact WSweep9.sweep9|].
  destruct i as [|i]; [exact WSweep10.sweep10|].
  destruct i as [|i]; [exact WSweep11.sweep11|].
  destruct i as [|i]; [exact WSweep12.sweep12|].
  destruct i as [|i]; [exact WSweep13.sweep13|].
  destruct i as [|i]; [exact WSweep14.sweep14|].
  destruct i as [|i]; [exact WSweep15.sweep15|].
  lia.
Qed.

Theorem C20_wrappers_accepted : forall name f fields o,
  In (name, f, fields) gen_builders -> In o (all_opts fields) -> known_class name o = false ->
  exists seen, accepts gen_globals gen_cli (f o) = POk seen.
Proof.
  intros name f fields o Hb Ho Hk.
  destruct (chunk_aux_cover 16 (all_opts fields) 0 o ltac:(lia) Ho) as [i [Hi Hc]].
  pose proof (sweep_class i Hi) as H. rewrite forallb_forall in H. specialize (H _ Hb).
  cbn [builder_chunk_ok] in H. rewrite forallb_forall in H. specialize (H _ Hc).
  rewrite Hk in H. cbn [orb] in H. unfold vector_ok, is_ok in H.
  destruct (accepts gen_globals gen_cli (f o)) as [seen|e]; [eauto | discriminate].
Qed.

(* the space is what the property quantifies over: each field absent (when optional) or one of its values *)
Lemma all_opts_spec : forall fields o,
  In o (all_opts fields) <->
  Forall2 (fun (fd : bytes * bool * list fval) (kv : bytes * fval) =>
             fst kv = fst (fst fd) /\ ((snd (fst fd) = true /\ snd kv = FAbsent) \/ In (snd kv) (snd fd)))
          fields o.
Proof.
  induction fields as [|[[k opt] dom] fs IH]; intros o; cbn [all_opts].
  - split; intros H.
    + destruct H as [<-|[]]. constructor.
    + inversion H. now left.
  - rewrite in_flat_map. split.
    + intros [v [Hv Ho]]. rewrite in_map_iff in Ho. destruct Ho as [o' [<- Ho']].
      constructor; [|now apply IH]. cbn. split; [reflexivity|].
      apply in_app_or in Hv. destruct Hv as [Hv|Hv]; [|now right].
      destruct opt; [|destruct Hv]. destruct Hv as [<-|[]]. now left.
    + intros H. inversion H as [|fd kv fs' o' [Hk Hv] Hrest]; subst. destruct kv as [k' v]. cbn in Hk, Hv. subst k'.
      exists v. split.
      * apply in_or_app. destruct Hv as [[-> ->]|Hv]; [left; now left | now right].
      * rewrite in_map_iff. exists o'. split; [reflexivity | now apply IH].
Qed.

(* the space is never empty and contains a record with every optional field set (non-vacuity) *)
Lemma space_nonempty : forallb (fun b => match b with (_, _, fs) => negb (Nat.eqb (length (all_opts fs)) 0) end) gen_builders = true.
Proof. vm_compute. reflexivity. Qed.

(* fuel adequacy: the token loop consumes at least one token per step, so any fuel above the number of
   tokens gives the same verdict; in particular the out-of-fuel answer is never produced by [accepts] *)
Lemma parse_tokens_fuel : forall f1 f2 args toks npos seen op,
  (length toks < f1)%nat -> (length toks < f2)%nat ->
  parse_tokens f1 args toks npos seen op = parse_tokens f2 args toks npos seen op.
Proof.
  induction f1 as [|f1 IH]; intros f2 args toks npos seen op H1 H2; [lia|].
  destruct f2 as [|f2]; [lia|].
  destruct toks as [|t rest]; [reflexivity|].
  cbn [length] in H1, H2.
  assert (Hr : forall n s o, parse_tokens f1 args rest n s o = parse_tokens f2 args rest n s o)
    by (intros; apply IH; lia).
  assert (Hr' : forall r', (length r' < length rest)%nat -> forall n s o,
             parse_tokens f1 args r' n s o = parse_tokens f2 args r' n s o)
    by (intros; apply IH; lia).
  cbn [parse_tokens].
  destruct (negb op && beq t [45; 45]); [apply Hr|].
  destruct (negb op && is_long t).
  { destruct (split_eq (skipn 2 t)) as [name ev].
    destruct (find_long args name) as [a|]; [|reflexivity].
    destruct (negb (repeatable a) && existsb (beq (a_id a)) seen);
    destruct (takes_value a).
    - destruct ev as [v|]; [reflexivity|].
      destruct rest as [|v rest']; [reflexivity|]. destruct (starts_dash v); reflexivity.
    - destruct ev; reflexivity.
    - destruct ev as [v|].
      + destruct (value_ok a v); [apply Hr | reflexivity].
      + destruct rest as [|v rest']; [reflexivity|].
        destruct (starts_dash v); [reflexivity|].
        destruct (value_ok a v); [|reflexivity]. apply Hr'. cbn [length]. lia.
    - destruct ev; [reflexivity | apply Hr]. }
  destruct (negb op && starts_dash t).
  { match goal with |- match ?c with _ => _ end = _ => destruct c as [e|[seen' [a|]]] end.
    - reflexivity.
    - destruct rest as [|v rest']; [reflexivity|].
      destruct (starts_dash v); [reflexivity|]. apply Hr'. cbn [length]. lia.
    - apply Hr. }
  destruct (nth_error (positionals args) npos) as [a|]; [|reflexivity].
  destruct (value_ok a t); [apply Hr | reflexivity].
Qed.
