(* Proofs/LockP.v — the lock protocol: refutations by explicit schedules, and what does hold. *)
From RN Require Import Model.Lock.

(* ---- refutation 1: a stale lock, two processes starting concurrently ---- *)
Definition w_stale : world := init (Some (CValid 99 0)) 1000 [1; 2].
Definition sched_stale : list ev :=
  [Step 1; Step 2;            (* both: exists() = true *)
   Step 1; Step 2;            (* both: read "99:0" *)
   Step 1; Step 2;            (* both: stale -> will remove *)
   Step 1; Step 1;            (* 1: remove, create              => 1 is in its critical section *)
   Step 2;                    (* 2: remove_file -- removes the lock of the running holder 1 *)
   Step 2].                   (* 2: create                      => 2 is in its critical section too *)

Lemma stale_two_holders :
  exists w, exec w_stale sched_stale = Some w /\ in_critical w = [1; 2] /\ mutex w = false.
Proof. eexists. split; [vm_compute; reflexivity|]. split; vm_compute; reflexivity. Qed.

(* the step in which process 2 deletes the lock file of the live holder 1 *)
Lemma stale_foreign_removal :
  exists w w', exec w_stale (firstn 8 sched_stale) = Some w /\ exec1 w (Step 2) = Some w' /\
               lock w = Some (CValid 1 1000) /\ in_critical w = [1] /\ lock w' = None.
Proof. eexists. eexists. split; [vm_compute; reflexivity|]. repeat split; vm_compute; reflexivity. Qed.

(* ---- refutation 2: no stale lock at all, three processes, no clock tick, no crash:
   3 reads the lock of 1 just before 1 finishes, 2 acquires, 3 then treats the lock it read as
   orphaned and deletes the file -- which is now 2's ---- *)
Definition w_fresh3 : world := init None 1000 [1; 2; 3].
Definition sched_aba : list ev :=
  [Step 1; Step 1;                    (* 1: exists()=false, create: critical *)
   Step 3; Step 3;                    (* 3: exists()=true, read "1:1000" *)
   Step 1; Step 1; Step 1;            (* 1: finishes: Drop checks, removes, exits *)
   Step 2; Step 2;                    (* 2: exists()=false, create: critical *)
   Step 3;                            (* 3: owner 1 is not running -> orphaned *)
   Step 3;                            (* 3: remove_file -- removes 2's lock *)
   Step 3].                           (* 3: create: critical *)

Lemma aba_two_holders :
  exists w, exec w_fresh3 sched_aba = Some w /\ in_critical w = [2; 3] /\ mutex w = false.
Proof. eexists. split; [vm_compute; reflexivity|]. split; vm_compute; reflexivity. Qed.

(* ---- what holds for every world, whatever the other processes do ---- *)

(* a process that reads the lock of a live holder whose timestamp is fresh exits without touching
   the lock file *)
Lemma live_fresh_holder_respected w p o ts :
  get_pc (procs w) p = Some (PRead (CValid o ts)) ->
  now w - ts <= stale_secs -> running w o = true ->
  exists w', step w p = Some w' /\ lock w' = lock w /\ get_pc (procs w') p = Some (PDone false).
Proof.
  intros Hpc Hfresh Hrun. unfold step. rewrite Hpc.
  assert (E : Nat.ltb stale_secs (now w - ts) = false) by (apply Nat.ltb_ge; exact Hfresh).
  rewrite E, Hrun. eexists. split; [reflexivity|]. split; [reflexivity|].
  unfold finish; cbn [procs].
  clear - Hpc. induction (procs w) as [|[q c] ps IH]; cbn in *; [discriminate|].
  destruct (Nat.eqb q p) eqn:Eq; cbn; rewrite Eq; [reflexivity|]. apply IH. exact Hpc.
Qed.

(* create_new is the only way into the critical path, and it needs the file to be absent *)
Lemma enter_needs_absent w p w' :
  get_pc (procs w) p = Some PCreate -> step w p = Some w' ->
  (lock w = None /\ lock w' = Some (CValid p (now w))) \/ (lock w <> None /\ lock w' = lock w).
Proof.
  intros Hpc H. unfold step in H. rewrite Hpc in H.
  destruct (lock w) as [c|] eqn:E; inversion H; subst; cbn; [right; split; [discriminate|reflexivity] | left; auto].
Qed.

(* once Drop's remove has run the lock file is gone *)
Lemma drop_releases w p w' :
  get_pc (procs w) p = Some PDropRemove -> step w p = Some w' -> lock w' = None.
Proof. intros Hpc H. unfold step in H. rewrite Hpc in H. inversion H. reflexivity. Qed.

(* a malformed lock file (empty, or without a colon) is never removed by acquire: every process
   that finds it fails at create_new -- safe, but the workspace stays blocked *)
Lemma malformed_blocks w p c :
  lock w = Some c -> (c = CEmpty \/ c = CNoColon) ->
  get_pc (procs w) p = Some (PRead c) ->
  exists w1 w2, step w p = Some w1 /\ lock w1 = Some c /\ get_pc (procs w1) p = Some PCreate /\
                (get_pc (procs w1) p = Some PCreate -> step w1 p = Some w2 -> lock w2 = Some c).
Proof.
  intros Hl Hc Hpc. unfold step at 1. rewrite Hpc.
  assert (Hset : forall ps x, get_pc ps p = Some (PRead c) -> get_pc (set_pc ps p x) p = Some x).
  { clear. induction ps as [|[q c0] ps IH]; intros x H; cbn in *; [discriminate|].
    destruct (Nat.eqb q p) eqn:Eq; cbn; rewrite Eq; [reflexivity|]. apply IH. exact H. }
  destruct Hc as [-> | ->].
  - eexists. exists (finish (upd w p PCreate (lock w)) p false (lock w)).
    split; [reflexivity|]. split; [cbn; exact Hl|]. split; [cbn; apply Hset; exact Hpc|].
    intros Hpc1 Hs. unfold step in Hs. rewrite Hpc1 in Hs. cbn [lock upd] in Hs. rewrite Hl in Hs.
    inversion Hs. cbn. exact Hl.
  - eexists. exists (finish (upd w p PCreate (lock w)) p false (lock w)).
    split; [reflexivity|]. split; [cbn; exact Hl|]. split; [cbn; apply Hset; exact Hpc|].
    intros Hpc1 Hs. unfold step in Hs. rewrite Hpc1 in Hs. cbn [lock upd] in Hs. rewrite Hl in Hs.
    inversion Hs. cbn. exact Hl.
Qed.
