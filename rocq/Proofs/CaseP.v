(* Proofs/CaseP.v — the C18 case-algebra theorems, exact statements.
   Proofs live in CaseP1 (fuel, find_longest_match, concat), CaseP2 (tokens of a rendered name),
   CaseP3 (detect_style, idempotence, injectivity, variant table). *)
From RN Require Import Base.Bytes Model.StyleDef Model.CaseModel Model.CaseSpec.
From RN Require Import Gen.GenAcronyms.
From RN Require Proofs.CaseP1 Proofs.CaseP2 Proofs.CaseP3.

(* T0: the fuel in parse_to_tokens never runs out *)
Theorem tokens_total : forall acr s, parse_to_tokens acr s <> None.
Proof. exact CaseP1.tokens_total. Qed.

(* T1: round trip for the 12 boundary-visible styles *)
Theorem C18_roundtrip : forall acr S ws,
  wf_acr acr = true -> visible S = true -> ws <> [] -> all_neutral acr ws = true ->
  map lower (tokens acr (to_style acr ws S)) = ws.
Proof. exact CaseP2.C18_roundtrip. Qed.

(* T2: a rendered multi-word name is recognised as its style *)
Theorem C18_detect : forall acr S ws,
  wf_acr acr = true -> visible S = true -> (2 <= length ws)%nat -> all_neutral acr ws = true ->
  detect_style acr (to_style acr ws S) = Some S.
Proof. exact CaseP3.C18_detect. Qed.

(* T3: converting is idempotent, all 14 styles *)
Theorem C18_idempotent : forall acr S ws,
  wf_acr acr = true -> ws <> [] -> all_neutral acr ws = true ->
  to_style acr (tokens acr (to_style acr ws S)) S = to_style acr ws S.
Proof. exact CaseP3.C18_idempotent. Qed.

(* T4: rendering is injective in the style for multi-word neutral names *)
Theorem C18_render_style_injective : forall acr S S' ws,
  wf_acr acr = true -> visible S = true -> (2 <= length ws)%nat -> all_neutral acr ws = true ->
  to_style acr ws S = to_style acr ws S' -> S = S'.
Proof. exact CaseP3.C18_render_style_injective. Qed.

(* T5: the variant table (plural variants off) maps the search term in each enabled visible style
   to the replacement in that same style *)
Theorem C18_variant_table_core : forall acr defaults S0 S1 sw rw styles S amb,
  wf_acr acr = true -> visible S0 = true -> visible S1 = true -> visible S = true ->
  (2 <= length sw)%nat -> rw <> [] -> all_neutral acr sw = true -> all_neutral acr rw = true ->
  In S styles ->
  amap_get (to_style acr sw S)
    (variant_map_core acr defaults [] [] false amb (to_style acr sw S0) (to_style acr rw S1) (Some styles))
  = Some (to_style acr rw S).
Proof. exact CaseP3.C18_variant_table_core. Qed.

(* T6: the default table satisfies the side condition *)
Theorem gen_acronyms_wf : wf_acr gen_acronyms = true.
Proof. vm_compute. reflexivity. Qed.

Print Assumptions tokens_total.
Print Assumptions C18_roundtrip.
Print Assumptions C18_detect.
Print Assumptions C18_idempotent.
Print Assumptions C18_render_style_injective.
Print Assumptions C18_variant_table_core.
Print Assumptions gen_acronyms_wf.
