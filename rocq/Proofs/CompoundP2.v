From Coq Require Import String.
From Coq Require Import Lia.
From RN Require Import Base.Bytes Base.Str Model.StyleDef Model.CaseModel Model.CaseSpec Model.Compound.
From RN Require Import Gen.GenAcronyms Gen.GenStyles.
From RN Require Import Proofs.CaseP1 Proofs.CaseP2 Proofs.CaseP3 Proofs.CaseP Proofs.CompoundP1.
From RN Require Import Proofs.CompoundP.
Open Scope N_scope.
Open Scope list_scope.

(* ================================================================== (c') upper-case styles, Pascal *)
(* The same statement for SCREAMING_SNAKE, SCREAMING-TRAIN and PascalCase (and again for the three
   lower-case separator styles), in one proof.  [form S] is how style S writes a word inside an
   identifier, [nform S] is what the function does to each token of the replacement, [glue S]
   re-assembles. *)
Definition sup (S : style) : bool :=
  match S with Snake | Kebab | Dot | ScreamingSnake | ScreamingTrain | Pascal => true | _ => false end.
Definition form (S : style) : bytes -> bytes :=
  match S with ScreamingSnake | ScreamingTrain => upper | Pascal => capw | _ => fun w => w end.
Definition nform (S : style) : bytes -> bytes :=
  match S with ScreamingSnake | ScreamingTrain => upper | Pascal => upcase_first | _ => lower end.
Definition glue (S : style) (l : list bytes) : bytes :=
  match sep_of S with Some d => join [d] l | None => concat l end.

Lemma removelast_map {A B} (f : A -> B) l : removelast (map f l) = map f (removelast l).
Proof.
  induction l as [|x l IH]; [reflexivity|]. destruct l as [|y l]; [reflexivity|].
  cbn [map removelast] in *. rewrite IH. reflexivity.
Qed.

Lemma ends_with_alpha d X : is_delim d = true -> forallb is_alpha X = true -> ends_with d X = false.
Proof.
  intros Hd HX. destruct X as [|c X] using rev_ind; [reflexivity|]. clear IHX.
  rewrite ends_with_app. rewrite forallb_app in HX. apply andb_true_iff in HX as [_ Hc].
  cbn [forallb] in Hc. apply andb_true_iff in Hc as [Hc _].
  destruct (c =? d) eqn:E; [|reflexivity]. apply N.eqb_eq in E. subst c.
  assert (is_alpha d = false) by (clear - Hd; bsolve). congruence.
Qed.

(* arithmetic facts, proved once in an empty context: [lia] (its [zify] pre-processing) must not be
   run in the context of [locality_gen], whose hypotheses mention [N.eqb], [contains], [render] *)
Lemma compound_lengths {A} (pre sw post : list A) :
  sw <> [] -> pre ++ post <> [] ->
  (2 <= length (pre ++ sw ++ post))%nat /\ (length sw < length (pre ++ sw ++ post))%nat.
Proof.
  intros Hsw Hpp. rewrite !app_length.
  destruct sw as [|x sw]; [contradiction|].
  destruct pre as [|y pre]; destruct post as [|z post]; cbn [length app] in *;
    [contradiction | split; lia ..].
Qed.

Section Gen.
Variable acr : acr_tab.
Hypothesis Hwf : wf_acr acr = true.

Lemma toks_form S ws : sup S = true -> toks_of S ws = map (form S) ws.
Proof. destruct S; try discriminate; intros _; cbn [toks_of form]; rewrite ?map_id; reflexivity. Qed.

Lemma hd_byte_not_us S c : is_lower c = true -> (hd_byte S c =? 95) = false.
Proof.
  intro Hc. assert (H1 : (c =? 95) = false) by (clear - Hc; apply N.eqb_neq; bsolve).
  assert (H2 : (to_upper c =? 95) = false).
  { pose proof (to_upper_lower_is_upper _ Hc) as HU. clear - HU. apply N.eqb_neq.
    intro E. rewrite E in HU. discriminate. }
  destruct S; cbn [hd_byte]; assumption.
Qed.

Lemma extract_prefix_nus pfx c s : pfx = [] \/ pfx = [95] \/ pfx = [95; 95] -> (c =? 95) = false ->
  extract_prefix (pfx ++ c :: s) = (pfx, c :: s).
Proof.
  intros Hp E.
  destruct Hp as [->|[->| ->]]; cbn [app extract_prefix]; rewrite ?N.eqb_refl, ?E; reflexivity.
Qed.

(* a case-insensitive window inside a rendered token list is a literal occurrence of the words *)
Lemma ci_window_toks S ot sw l : sup S = true -> all_neutral acr l = true -> map lower ot = sw ->
  ci_window ot (toks_of S l) -> exists l1 l2, l = l1 ++ sw ++ l2.
Proof.
  intros HS Hn Hot (l1 & w & l2 & E & Hw).
  rewrite (toks_form S l HS) in E.
  apply map_eq_app in E as (a & b & -> & _ & E).
  apply map_eq_app in E as (b1 & b2 & -> & E & _).
  exists a, b2. f_equal. f_equal.
  unfold all_neutral in Hn. rewrite !forallb_app in Hn.
  apply andb_true_iff in Hn as [_ Hn]. apply andb_true_iff in Hn as [Hn _].
  rewrite <- E, <- (toks_form S b1 HS), (map_lower_toks_of acr S b1 Hn) in Hw. congruence.
Qed.

Lemma detect_upper_none X : X <> [] -> forallb is_upper X = true -> detect_style acr X = None.
Proof.
  intros Hne HX.
  assert (Ha : forallb is_alpha X = true) by (eapply forallb_impl; [|exact HX]; apply upper_alpha).
  assert (Hlo : existsb is_lower X = false)
    by (eapply existsb_false_forall; [|exact HX]; apply upper_not_lower).
  unfold detect_style. destruct X as [|c X']; [contradiction|].
  rewrite (alpha_no_byte _ 95), (alpha_no_byte _ 45), (alpha_no_byte _ 46), (alpha_no_byte _ 32);
    try exact Ha; try reflexivity.
  rewrite Hlo. cbn [andb]. destruct (existsb is_upper (c :: X')); reflexivity.
Qed.

Lemma detect_capw_pascal w : neutral acr w = true -> detect_style acr (capw w) = Some Pascal.
Proof.
  intro Hn. pose proof (nw_alpha_cap acr w Hn) as Ha.
  pose proof (nw_up_cap acr w Hn) as Hu. pose proof (nw_lo_cap acr w Hn) as Hl.
  destruct (neutral_shape _ _ Hn) as (c & c1 & w2 & E & Hc & _).
  unfold detect_style. destruct (capw w) as [|C X'] eqn:EC; [subst w; discriminate|].
  rewrite (alpha_no_byte _ 95), (alpha_no_byte _ 45), (alpha_no_byte _ 46), (alpha_no_byte _ 32);
    try exact Ha; try reflexivity.
  rewrite Hu, Hl. cbn [andb].
  assert (HC : is_upper C = true).
  { subst w. cbn [capw] in EC. injection EC as <- _. apply to_upper_lower_is_upper, Hc. }
  rewrite HC. reflexivity.
Qed.

(* the style chosen for the replacement tokens is the style of the identifier *)
Lemma final_style_form S ident idw sw : sup S = true ->
  detect_style acr idw = Some S -> contains 32 ident = false ->
  all_neutral acr sw = true -> sw <> [] ->
  final_style acr ident idw (map (form S) sw) = Some S.
Proof.
  intros HS Hdet Hsp Hsw Hne.
  pose proof (proj1 (all_neutral_Forall acr sw) Hsw) as HF.
  assert (Hm : matched_style acr ident idw (map (form S) sw) = None \/
               matched_style acr ident idw (map (form S) sw) = Some S).
  { destruct HF as [|w sw' Hw HF']; [contradiction|].
    destruct (neutral_shape _ _ Hw) as (c & c1 & w2 & Ew & Hc & Hc1 & Hw2 & _).
    destruct (neutral_inv _ _ Hw) as (_ & Hlow & _).
    destruct S; try discriminate; cbn [form map].
    - (* Snake *) unfold matched_style. destruct sw' as [|w' sw''].
      + left. apply detect_word_none, Hw.
      + right. assert (Ht : forallb is_title_word (w :: w' :: sw'') = false)
          by (cbn [forallb]; rewrite (nw_title_low acr w Hw); reflexivity).
        rewrite map_id, Ht, (neutral_all_lower acr _ Hsw). cbn [andb]. exact Hdet.
    - (* Kebab *) unfold matched_style. destruct sw' as [|w' sw''].
      + left. apply detect_word_none, Hw.
      + right. assert (Ht : forallb is_title_word (w :: w' :: sw'') = false)
          by (cbn [forallb]; rewrite (nw_title_low acr w Hw); reflexivity).
        rewrite map_id, Ht, (neutral_all_lower acr _ Hsw). cbn [andb]. exact Hdet.
    - (* Pascal *) right. unfold matched_style. destruct sw' as [|w' sw''].
      + apply detect_capw_pascal, Hw.
      + assert (Ht : forallb is_title_word (capw w :: map capw (w' :: sw'')) = true).
        { change (capw w :: map capw (w' :: sw'')) with (map capw (w :: w' :: sw'')).
          rewrite forallb_forall. intros X HX. apply in_map_iff in HX as (y & <- & Hy).
          apply (nw_title_cap acr). rewrite Forall_forall in HF'.
          destruct Hy as [<-|Hy]; [exact Hw | apply HF', Hy]. }
        cbn [map] in Ht |- *. rewrite Ht, Hsp. reflexivity.
    - (* ScreamingSnake *) left. unfold matched_style. destruct sw' as [|w' sw''].
      + cbn [map]. apply detect_upper_none; [subst w; discriminate | apply upper_all_upper, Hlow].
      + assert (Ht : forallb is_title_word (upper w :: map upper (w' :: sw'')) = false).
        { cbn [forallb]. subst w. cbn [upper map is_title_word forallb].
          rewrite (upper_not_lower _ (to_upper_lower_is_upper _ Hc1)), !andb_false_r. reflexivity. }
        assert (Hl : forallb (forallb is_lower) (upper w :: map upper (w' :: sw'')) = false).
        { cbn [forallb]. subst w. cbn [upper map forallb].
          rewrite (upper_not_lower _ (to_upper_lower_is_upper _ Hc)). reflexivity. }
        cbn [map] in Ht, Hl |- *. rewrite Ht, Hl. cbn [andb].
        apply detect_upper_none.
        * subst w. discriminate.
        * change (upper w :: upper w' :: map upper sw'') with (map upper (w :: w' :: sw'')).
          apply forallb_concat. rewrite Forall_forall. intros X HX.
          apply in_map_iff in HX as (y & <- & Hy). apply upper_all_upper.
          unfold all_neutral in Hsw. rewrite forallb_forall in Hsw.
          destruct (neutral_inv _ _ (Hsw y Hy)) as (_ & H & _). exact H.
    - (* ScreamingTrain *) left. unfold matched_style. destruct sw' as [|w' sw''].
      + cbn [map]. apply detect_upper_none; [subst w; discriminate | apply upper_all_upper, Hlow].
      + assert (Ht : forallb is_title_word (upper w :: map upper (w' :: sw'')) = false).
        { cbn [forallb]. subst w. cbn [upper map is_title_word forallb].
          rewrite (upper_not_lower _ (to_upper_lower_is_upper _ Hc1)), !andb_false_r. reflexivity. }
        assert (Hl : forallb (forallb is_lower) (upper w :: map upper (w' :: sw'')) = false).
        { cbn [forallb]. subst w. cbn [upper map forallb].
          rewrite (upper_not_lower _ (to_upper_lower_is_upper _ Hc)). reflexivity. }
        cbn [map] in Ht, Hl |- *. rewrite Ht, Hl. cbn [andb].
        apply detect_upper_none.
        * subst w. discriminate.
        * change (upper w :: upper w' :: map upper sw'') with (map upper (w :: w' :: sw'')).
          apply forallb_concat. rewrite Forall_forall. intros X HX.
          apply in_map_iff in HX as (y & <- & Hy). apply upper_all_upper.
          unfold all_neutral in Hsw. rewrite forallb_forall in Hsw.
          destruct (neutral_inv _ _ (Hsw y Hy)) as (_ & H & _). exact H.
    - (* Dot *) unfold matched_style. destruct sw' as [|w' sw''].
      + left. apply detect_word_none, Hw.
      + right. assert (Ht : forallb is_title_word (w :: w' :: sw'') = false)
          by (cbn [forallb]; rewrite (nw_title_low acr w Hw); reflexivity).
        rewrite map_id, Ht, (neutral_all_lower acr _ Hsw). cbn [andb]. exact Hdet. }
  unfold final_style. rewrite Hdet.
  destruct Hm as [-> | ->]; destruct S; try discriminate; reflexivity.
Qed.

Lemma concat_flatten (a X b : list bytes) : concat (a ++ [concat X] ++ b) = concat (a ++ X ++ b).
Proof. rewrite !concat_app. cbn [concat]. rewrite app_nil_r. reflexivity. Qed.

Lemma glue_style_new S nt w a b : sup S = true -> nt <> [] ->
  glue S (a ++ style_new acr nt w (Some S) ++ b) = glue S (a ++ map (nform S) nt ++ b).
Proof.
  intros HS Hnt. destruct nt as [|t0 nt'] eqn:Ent; [contradiction|]. rewrite <- Ent.
  assert (Hne : forall f : bytes -> bytes, map f nt <> []) by (intros f; rewrite Ent; discriminate).
  destruct S; try discriminate; unfold glue; cbn [sep_of style_new nform]; try reflexivity.
  - (* Pascal *) apply concat_flatten.
  - (* ScreamingTrain *)
    replace (to_style acr nt ScreamingTrain) with (join [45] (map upper nt)) by (rewrite Ent; reflexivity).
    apply join_flatten, Hne.
  - (* Dot *)
    replace (to_style acr nt Dot) with (join [46] (map lower nt)) by (rewrite Ent; reflexivity).
    apply join_flatten, Hne.
Qed.

Lemma ends_with_glue S d ws : all_neutral acr ws = true -> ws <> [] -> is_delim d = true ->
  ends_with d (glue S (toks_of S ws)) = false.
Proof.
  intros Hn Hne Hd. pose proof (toks_of_good acr S ws Hn) as HG.
  assert (Hne' : toks_of S ws <> []).
  { intro E. apply (f_equal (@length bytes)) in E. rewrite toks_of_length in E.
    destruct ws; [contradiction | discriminate]. }
  destruct (toks_of S ws) as [|X Xs] using rev_ind; [contradiction|]. clear IHXs Hne'.
  apply Forall2_app_inv_l in HG as (wa & wb & _ & HX & _).
  inversion HX as [|X' w' ? ? HXg _]; subst.
  pose proof (good_alpha acr X w' HXg) as Ha. pose proof (good_nonempty acr X w' HXg) as HXne.
  pose proof (ends_with_alpha d X Hd Ha) as HE.
  unfold glue. destruct (sep_of S) as [sep|].
  - destruct Xs as [|Y Ys]; [exact HE|].
    rewrite join_snoc by discriminate. rewrite app_assoc, ends_with_app_ne by exact HXne. exact HE.
  - rewrite concat_app. cbn [concat]. rewrite app_nil_r, ends_with_app_ne by exact HXne. exact HE.
Qed.

Theorem locality_gen S pfx pre sw post search repl styles :
  sup S = true ->
  pfx = [] \/ pfx = [95] \/ pfx = [95; 95] ->
  all_neutral acr pre = true -> all_neutral acr sw = true -> all_neutral acr post = true ->
  sw <> [] -> pre ++ post <> [] ->
  map lower (tokens acr search) = sw ->
  tokens acr repl <> [] ->
  (forall l1 l2, pre ++ removelast sw <> l1 ++ sw ++ l2) ->
  (forall l1 l2, post <> l1 ++ sw ++ l2) ->
  existsb (style_eqb S) styles = true ->
  fcv acr (pfx ++ to_style acr (pre ++ sw ++ post) S) search repl styles =
  [mk_cmatch (pfx ++ to_style acr (pre ++ sw ++ post) S)
             (pfx ++ glue S (map (form S) pre ++ map (nform S) (tokens acr repl) ++ map (form S) post))
             S 0 0].
Proof.
  intros HS Hpfx Hpre Hsw Hpost Hswne Hpp Hsearch Hrepl Hno1 Hno2 Hsty.
  set (ws := pre ++ sw ++ post).
  assert (Hn : all_neutral acr ws = true).
  { unfold ws, all_neutral. rewrite !forallb_app. unfold all_neutral in *.
    rewrite Hpre, Hsw, Hpost. reflexivity. }
  destruct (compound_lengths pre sw post Hswne Hpp) as [Hlen Hswlen]. fold ws in Hlen, Hswlen.
  assert (Hne : ws <> []).
  { clear - Hlen. intro E. rewrite E in Hlen. cbn [length] in Hlen. lia. }
  assert (Hvis : visible S = true) by (destruct S; try discriminate; reflexivity).
  rewrite (to_style_render acr ws S Hn).
  set (idw := render S ws).
  assert (Hglue : idw = glue S (toks_of S ws)) by (apply render_sep, Hne).
  (* prefix *)
  assert (Hhd : exists c s, idw = c :: s /\ (c =? 95) = false).
  { unfold idw. pose proof (proj1 (all_neutral_Forall acr ws) Hn) as HF.
    inversion HF as [E0|w0 ws' Hw0 _ E0]; [symmetry in E0; contradiction|].
    destruct (neutral_shape _ _ Hw0) as (c & c1 & w2 & -> & Hc & _).
    destruct (render_hd S c (c1 :: w2) ws') as [s' E].
    exists (hd_byte S c), s'. split; [exact E | apply hd_byte_not_us, Hc]. }
  destruct Hhd as (c0 & s0 & Eidw & Hc0).
  unfold fcv. rewrite Eidw, (extract_prefix_nus pfx c0 s0 Hpfx Hc0). rewrite <- Eidw.
  (* tokens *)
  assert (Hit : tokens acr idw = map (form S) pre ++ map (form S) sw ++ map (form S) post).
  { unfold idw. rewrite <- (to_style_render acr ws S Hn).
    rewrite (tokens_render acr S ws Hwf Hvis Hne Hn), (toks_form S ws HS).
    unfold ws. rewrite !map_app. reflexivity. }
  rewrite Hit.
  set (ot := tokens acr search) in *. set (nt := tokens acr repl) in *.
  set (f := form S) in *.
  assert (Hotlen : length ot = length sw) by (rewrite <- Hsearch, map_length; reflexivity).
  assert (Hotne : ot <> []) by (intro E; rewrite E in Hotlen; destruct sw; [contradiction|discriminate]).
  assert (Hitlen : length (map f pre ++ map f sw ++ map f post) = length ws).
  { unfold ws. rewrite !app_length, !map_length. reflexivity. }
  assert (Hwslen : (length ot < length ws)%nat) by (rewrite Hotlen; exact Hswlen).
  assert (Hotpos : (0 < length ot)%nat).
  { clear - Hotne. destruct ot; [contradiction | cbn [length]; lia]. }
  assert (Hntpos : (0 < length nt)%nat).
  { clear - Hrepl. destruct nt; [contradiction | cbn [length]; lia]. }
  assert (Ea : Nat.eqb (length ws) (length ot) = false)
    by (clear - Hwslen; apply Nat.eqb_neq; lia).
  assert (Eb : Nat.ltb (length ws) (length ot) = false)
    by (clear - Hwslen; apply Nat.ltb_ge; lia).
  assert (Ec : Nat.eqb (length ot) 0 = false) by (clear - Hotpos; apply Nat.eqb_neq; lia).
  assert (Ed : Nat.eqb (length ws) 0 = false) by (clear - Hlen; apply Nat.eqb_neq; lia).
  assert (Ee : Nat.eqb (length nt) 0 = false) by (clear - Hntpos; apply Nat.eqb_neq; lia).
  rewrite Hitlen, Ea.
  cbn [andb].
  (* separator flags *)
  assert (Hc : forall d, is_delim d = true ->
               contains d idw = match sep_of S with Some d' => d =? d' | None => false end).
  { intros d Hd. unfold contains, idw. apply (flag_byte acr ws Hn Hlen S d Hd). }
  pose proof (Hc 95 eq_refl) as H95. pose proof (Hc 45 eq_refl) as H45.
  pose proof (Hc 46 eq_refl) as H46. pose proof (Hc 32 eq_refl) as H32.
  assert (Hmixed : (contains 95 idw && contains 45 idw) || (contains 95 idw && contains 46 idw)
                   || (contains 45 idw && contains 46 idw) = false).
  { rewrite H95, H45, H46. destruct S; reflexivity. }
  rewrite Hmixed. cbn [andb].
  rewrite Eb, Ec, Ed, Ee.
  cbn [orb].
  (* the scan *)
  assert (Hswl : map lower (map f sw) = map lower ot).
  { unfold f. rewrite <- (toks_form S sw HS), (map_lower_toks_of acr S sw Hsw). symmetry. exact Hsearch. }
  assert (Hnw1 : ~ ci_window ot (map f pre ++ removelast (map f sw))).
  { rewrite removelast_map, <- map_app. unfold f. rewrite <- (toks_form S _ HS).
    intro Hw. eapply ci_window_toks in Hw as (l1 & l2 & E); [| exact HS | | exact Hsearch].
    - exact (Hno1 l1 l2 E).
    - unfold all_neutral in *. rewrite forallb_app, Hpre. cbn [andb].
      apply forallb_removelast, Hsw. }
  assert (Hnw2 : ~ ci_window ot (map f post)).
  { unfold f. rewrite <- (toks_form S _ HS).
    intro Hw. eapply ci_window_toks in Hw as (l1 & l2 & E); [| exact HS | exact Hpost | exact Hsearch].
    exact (Hno2 l1 l2 E). }
  rewrite (scan_one acr (pfx ++ idw) idw ot nt (map f pre) (map f sw) (map f post) Hotne Hswl Hnw1 Hnw2).
  cbn [Nat.eqb].
  (* styles *)
  assert (Hdet : detect_style acr idw = Some S).
  { unfold idw. rewrite (detect_render acr S ws Hlen Hn), Hvis. reflexivity. }
  assert (Hsp : contains 32 (pfx ++ idw) = false).
  { unfold contains. rewrite existsb_app. fold (contains 32 idw). rewrite H32.
    assert (E : existsb (N.eqb 32) pfx = false) by (destruct Hpfx as [->|[->| ->]]; reflexivity).
    rewrite E. destruct S; try discriminate; reflexivity. }
  unfold f. rewrite (final_style_form S (pfx ++ idw) idw sw HS Hdet Hsp Hsw Hswne). fold f.
  unfold inferred_style. rewrite Hdet, Hsty.
  (* rejoin and trailing delimiter *)
  assert (Hrejoin : forall rt, rejoin acr idw rt S = glue S rt).
  { intro rt. unfold rejoin, glue. rewrite H95, H45, H46, H32.
    destruct S; try discriminate; reflexivity. }
  rewrite Hrejoin.
  unfold f. rewrite (glue_style_new S nt (map (form S) sw) _ _ HS Hrepl). fold f.
  assert (Htrail : forall r, restore_trailing idw r = r).
  { intro r. unfold restore_trailing. rewrite Hglue.
    rewrite !(ends_with_glue S _ ws Hn Hne) by reflexivity. reflexivity. }
  rewrite Htrail. reflexivity.
Qed.

End Gen.

(* ------------------------------------------------------------------ (c'), exported statements *)
(* the four all-upper-case styles *)
Definition all_caps (S : style) : bool :=
  match S with ScreamingSnake | ScreamingTrain | UpperSentence | UpperFlat => true | _ => false end.

Lemma capw_idem w : capw (capw w) = capw w.
Proof. destruct w as [|c w]; [reflexivity|]. cbn [capw]. rewrite to_upper_idem. reflexivity. Qed.

Lemma capw_upper w : capw (upper w) = upper w.
Proof. destruct w as [|c w]; [reflexivity|]. cbn [upper map capw]. rewrite to_upper_idem. reflexivity. Qed.

Lemma upcase_first_capw w : upcase_first w = capw w.
Proof. reflexivity. Qed.

(* what the upper-case styles do to the tokens of a replacement written in style S *)
Lemma map_upper_toks_of S ws : map upper (toks_of S ws) = map upper ws.
Proof.
  assert (E1 : map upper (map upper ws) = map upper ws)
    by (rewrite map_map; apply map_ext; intro; apply upper_idem).
  assert (E2 : forall l, map upper (map capw l) = map upper l)
    by (intro l; rewrite map_map; apply map_ext; intro; apply upper_capw).
  destruct S; cbn [toks_of]; auto;
    destruct ws as [|w0 ws']; cbn [map]; rewrite ?E2, ?upper_capw; reflexivity.
Qed.

(* what Pascal does to them: the first byte is upper-cased, THE REST IS KEPT, so a replacement
   written in an all-caps style stays all-caps *)
Lemma map_upcase_toks_of S ws :
  map upcase_first (toks_of S ws) = map (if all_caps S then upper else capw) ws.
Proof.
  assert (E0 : map upcase_first ws = map capw ws) by reflexivity.
  assert (E1 : map upcase_first (map upper ws) = map upper ws)
    by (rewrite map_map; apply map_ext; intro; apply capw_upper).
  assert (E2 : forall l, map upcase_first (map capw l) = map capw l)
    by (intro l; rewrite map_map; apply map_ext; intro; apply capw_idem).
  destruct S; cbn [toks_of all_caps]; auto;
    destruct ws as [|w0 ws']; cbn [map]; rewrite ?E2, ?upcase_first_capw, ?capw_idem; reflexivity.
Qed.

Section LocTop2.
Local Notation acr := gen_acronyms.

Lemma to_style_screaming_snake ws : all_neutral acr ws = true ->
  to_style acr ws ScreamingSnake = join [95] (map upper ws).
Proof. intro H. rewrite (to_style_render acr ws _ H). destruct ws; reflexivity. Qed.

Lemma to_style_screaming_train ws : all_neutral acr ws = true ->
  to_style acr ws ScreamingTrain = join [45] (map upper ws).
Proof. intro H. rewrite (to_style_render acr ws _ H). destruct ws; reflexivity. Qed.

Lemma to_style_pascal ws : all_neutral acr ws = true ->
  to_style acr ws Pascal = concat (map capw ws).
Proof. intro H. rewrite (to_style_render acr ws _ H). destruct ws; reflexivity. Qed.

Lemma all_neutral_app3 a b c : all_neutral acr a = true -> all_neutral acr b = true ->
  all_neutral acr c = true -> all_neutral acr (a ++ b ++ c) = true.
Proof. unfold all_neutral. intros Ha Hb Hc. rewrite !forallb_app, Ha, Hb, Hc. reflexivity. Qed.

Lemma tokens_words_ne rw S1 : visible S1 = true -> rw <> [] -> all_neutral acr rw = true ->
  tokens acr (to_style acr rw S1) <> [].
Proof.
  intros Hv Hne Hrw. rewrite (tokens_render acr S1 rw gen_acronyms_wf Hv Hne Hrw).
  intro E. apply (f_equal (@length bytes)) in E. rewrite toks_of_length in E.
  destruct rw; [contradiction | discriminate].
Qed.

(* The search term and the replacement are neutral words sw / rw written in ANY boundary-visible
   styles S0 / S1 (user_name, userName, USER-NAME, "User Name", ...).  Hypotheses as for
   compound_locality_snake_words (Proofs/CompoundP.v): prefix "", "_" or "__"; neutral words; a
   proper compound; the term occurs exactly once.  Conclusion: one match; every word outside the
   term, the separators and the prefix are unchanged; the words of the term are replaced by the
   words of the replacement, upper-cased. *)
Corollary compound_locality_screaming_snake_words : forall pfx pre sw rw post S0 S1 styles,
  pfx_ok pfx ->
  all_neutral acr pre = true -> all_neutral acr sw = true -> all_neutral acr post = true ->
  all_neutral acr rw = true ->
  sw <> [] -> rw <> [] -> pre ++ post <> [] ->
  visible S0 = true -> visible S1 = true ->
  no_occ sw (pre ++ removelast sw) -> no_occ sw post ->
  existsb (style_eqb ScreamingSnake) styles = true ->
  find_compound_variants (pfx ++ join [95] (map upper (pre ++ sw ++ post)))
                         (to_style acr sw S0) (to_style acr rw S1) styles =
  [mk_cmatch (pfx ++ join [95] (map upper (pre ++ sw ++ post)))
             (pfx ++ join [95] (map upper (pre ++ rw ++ post))) ScreamingSnake 0 0].
Proof.
  intros pfx pre sw rw post S0 S1 styles Hp Hpre Hsw Hpost Hrw Hswne Hrwne Hpp Hv0 Hv1 Hn1 Hn2 Hst.
  rewrite <- (to_style_screaming_snake (pre ++ sw ++ post) (all_neutral_app3 _ _ _ Hpre Hsw Hpost)).
  unfold find_compound_variants.
  rewrite (locality_gen acr gen_acronyms_wf ScreamingSnake pfx pre sw post _ _ styles
             eq_refl Hp Hpre Hsw Hpost Hswne Hpp
             (C18_roundtrip acr S0 sw gen_acronyms_wf Hv0 Hswne Hsw)
             (tokens_words_ne rw S1 Hv1 Hrwne Hrw) Hn1 Hn2 Hst).
  rewrite (tokens_render acr S1 rw gen_acronyms_wf Hv1 Hrwne Hrw).
  unfold glue. cbn [sep_of form nform]. rewrite map_upper_toks_of, <- !map_app. reflexivity.
Qed.

Corollary compound_locality_screaming_train_words : forall pfx pre sw rw post S0 S1 styles,
  pfx_ok pfx ->
  all_neutral acr pre = true -> all_neutral acr sw = true -> all_neutral acr post = true ->
  all_neutral acr rw = true ->
  sw <> [] -> rw <> [] -> pre ++ post <> [] ->
  visible S0 = true -> visible S1 = true ->
  no_occ sw (pre ++ removelast sw) -> no_occ sw post ->
  existsb (style_eqb ScreamingTrain) styles = true ->
  find_compound_variants (pfx ++ join [45] (map upper (pre ++ sw ++ post)))
                         (to_style acr sw S0) (to_style acr rw S1) styles =
  [mk_cmatch (pfx ++ join [45] (map upper (pre ++ sw ++ post)))
             (pfx ++ join [45] (map upper (pre ++ rw ++ post))) ScreamingTrain 0 0].
Proof.
  intros pfx pre sw rw post S0 S1 styles Hp Hpre Hsw Hpost Hrw Hswne Hrwne Hpp Hv0 Hv1 Hn1 Hn2 Hst.
  rewrite <- (to_style_screaming_train (pre ++ sw ++ post) (all_neutral_app3 _ _ _ Hpre Hsw Hpost)).
  unfold find_compound_variants.
  rewrite (locality_gen acr gen_acronyms_wf ScreamingTrain pfx pre sw post _ _ styles
             eq_refl Hp Hpre Hsw Hpost Hswne Hpp
             (C18_roundtrip acr S0 sw gen_acronyms_wf Hv0 Hswne Hsw)
             (tokens_words_ne rw S1 Hv1 Hrwne Hrw) Hn1 Hn2 Hst).
  rewrite (tokens_render acr S1 rw gen_acronyms_wf Hv1 Hrwne Hrw).
  unfold glue. cbn [sep_of form nform]. rewrite map_upper_toks_of, <- !map_app. reflexivity.
Qed.

(* Pascal.  The function builds the Pascal replacement with "first byte to upper case, rest of the
   token untouched" (compound_matcher.rs lines 245-248; [upcase_first] in Model/Compound.v), so the
   case of the replacement AS TYPED leaks into the result: an all-caps replacement stays all-caps
   (GetUserNameNow, user_name -> ACCOUNT_ID gives GetACCOUNTIDNow, not GetAccountIdNow; the Rust
   function does the same, checked through rn-harness).  The general statement therefore has
   [upper] or [capw] on the words of the replacement, depending on S1 ... *)
Theorem compound_locality_pascal_words_gen : forall pfx pre sw rw post S0 S1 styles,
  pfx_ok pfx ->
  all_neutral acr pre = true -> all_neutral acr sw = true -> all_neutral acr post = true ->
  all_neutral acr rw = true ->
  sw <> [] -> rw <> [] -> pre ++ post <> [] ->
  visible S0 = true -> visible S1 = true ->
  no_occ sw (pre ++ removelast sw) -> no_occ sw post ->
  existsb (style_eqb Pascal) styles = true ->
  find_compound_variants (pfx ++ concat (map capw (pre ++ sw ++ post)))
                         (to_style acr sw S0) (to_style acr rw S1) styles =
  [mk_cmatch (pfx ++ concat (map capw (pre ++ sw ++ post)))
             (pfx ++ concat (map capw pre ++ map (if all_caps S1 then upper else capw) rw
                             ++ map capw post)) Pascal 0 0].
Proof.
  intros pfx pre sw rw post S0 S1 styles Hp Hpre Hsw Hpost Hrw Hswne Hrwne Hpp Hv0 Hv1 Hn1 Hn2 Hst.
  rewrite <- (to_style_pascal (pre ++ sw ++ post) (all_neutral_app3 _ _ _ Hpre Hsw Hpost)).
  unfold find_compound_variants.
  rewrite (locality_gen acr gen_acronyms_wf Pascal pfx pre sw post _ _ styles
             eq_refl Hp Hpre Hsw Hpost Hswne Hpp
             (C18_roundtrip acr S0 sw gen_acronyms_wf Hv0 Hswne Hsw)
             (tokens_words_ne rw S1 Hv1 Hrwne Hrw) Hn1 Hn2 Hst).
  rewrite (tokens_render acr S1 rw gen_acronyms_wf Hv1 Hrwne Hrw).
  unfold glue. cbn [sep_of form nform]. rewrite map_upcase_toks_of. reflexivity.
Qed.

(* ... and the statement asked for needs the extra hypothesis [all_caps S1 = false]: the
   replacement is not typed in SCREAMING_SNAKE, SCREAMING-TRAIN or "UPPER SENTENCE" (UPPERFLAT is
   already excluded by [visible S1]).  Without it the conclusion is false, see
   compound_pascal_caps_leak below. *)
Corollary compound_locality_pascal_words : forall pfx pre sw rw post S0 S1 styles,
  pfx_ok pfx ->
  all_neutral acr pre = true -> all_neutral acr sw = true -> all_neutral acr post = true ->
  all_neutral acr rw = true ->
  sw <> [] -> rw <> [] -> pre ++ post <> [] ->
  visible S0 = true -> visible S1 = true -> all_caps S1 = false ->
  no_occ sw (pre ++ removelast sw) -> no_occ sw post ->
  existsb (style_eqb Pascal) styles = true ->
  find_compound_variants (pfx ++ concat (map capw (pre ++ sw ++ post)))
                         (to_style acr sw S0) (to_style acr rw S1) styles =
  [mk_cmatch (pfx ++ concat (map capw (pre ++ sw ++ post)))
             (pfx ++ concat (map capw (pre ++ rw ++ post))) Pascal 0 0].
Proof.
  intros pfx pre sw rw post S0 S1 styles Hp Hpre Hsw Hpost Hrw Hswne Hrwne Hpp Hv0 Hv1 Hcaps Hn1 Hn2 Hst.
  rewrite (compound_locality_pascal_words_gen pfx pre sw rw post S0 S1 styles); auto.
  rewrite Hcaps, <- !map_app. reflexivity.
Qed.

(* all-caps replacement: the words of the replacement are inserted upper-cased *)
Corollary compound_locality_pascal_words_caps : forall pfx pre sw rw post S0 S1 styles,
  pfx_ok pfx ->
  all_neutral acr pre = true -> all_neutral acr sw = true -> all_neutral acr post = true ->
  all_neutral acr rw = true ->
  sw <> [] -> rw <> [] -> pre ++ post <> [] ->
  visible S0 = true -> visible S1 = true -> all_caps S1 = true ->
  no_occ sw (pre ++ removelast sw) -> no_occ sw post ->
  existsb (style_eqb Pascal) styles = true ->
  find_compound_variants (pfx ++ concat (map capw (pre ++ sw ++ post)))
                         (to_style acr sw S0) (to_style acr rw S1) styles =
  [mk_cmatch (pfx ++ concat (map capw (pre ++ sw ++ post)))
             (pfx ++ concat (map capw pre ++ map upper rw ++ map capw post)) Pascal 0 0].
Proof.
  intros pfx pre sw rw post S0 S1 styles Hp Hpre Hsw Hpost Hrw Hswne Hrwne Hpp Hv0 Hv1 Hcaps Hn1 Hn2 Hst.
  rewrite (compound_locality_pascal_words_gen pfx pre sw rw post S0 S1 styles); auto.
  rewrite Hcaps. reflexivity.
Qed.
End LocTop2.

(* the witness for the extra hypothesis of compound_locality_pascal_words *)
Theorem compound_pascal_caps_leak :
  find_compound_variants (bs "GetUserNameNow") (bs "user_name") (bs "ACCOUNT_NUMBER") gen_all_styles =
  [mk_cmatch (bs "GetUserNameNow") (bs "GetACCOUNTNUMBERNow") Pascal 0 0].
Proof. vm_compute. reflexivity. Qed.

(* concrete instances of the three corollaries, by computation *)
Example screaming_snake_instance :
  find_compound_variants (bs "__GET_USER_NAME_NOW") (bs "userName") (bs "account-number") gen_all_styles =
  [mk_cmatch (bs "__GET_USER_NAME_NOW") (bs "__GET_ACCOUNT_NUMBER_NOW") ScreamingSnake 0 0].
Proof. vm_compute. reflexivity. Qed.

Example screaming_train_instance :
  find_compound_variants (bs "_GET-USER-NAME-NOW") (bs "User Name") (bs "accountNumber") gen_all_styles =
  [mk_cmatch (bs "_GET-USER-NAME-NOW") (bs "_GET-ACCOUNT-NUMBER-NOW") ScreamingTrain 0 0].
Proof. vm_compute. reflexivity. Qed.

Example pascal_instance :
  find_compound_variants (bs "__GetUserNameNow") (bs "USER_NAME") (bs "account.number") gen_all_styles =
  [mk_cmatch (bs "__GetUserNameNow") (bs "__GetAccountNumberNow") Pascal 0 0].
Proof. vm_compute. reflexivity. Qed.

Print Assumptions locality_gen.
Print Assumptions compound_locality_screaming_snake_words.
Print Assumptions compound_locality_screaming_train_words.
Print Assumptions compound_locality_pascal_words_gen.
Print Assumptions compound_locality_pascal_words.
Print Assumptions compound_locality_pascal_words_caps.
