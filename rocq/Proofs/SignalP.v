(* Proofs/SignalP.v — signals never change what a mutating command does to the tree. *)
From RN Require Import Base.Bytes Model.Fs Model.Signal.

(* two states that differ at most in the interrupt flag *)
Definition agree (x y : sstate) : Prop :=
  g_fs x = g_fs y /\ g_done x = g_done y /\ g_lock x = g_lock y /\ g_exit x = g_exit y /\
  g_prompt x = false /\ g_prompt y = false.

Lemma deliver_outside_prompt s x :
  g_prompt s = false ->
  g_fs (deliver s x) = g_fs s /\ g_prompt (deliver s x) = false /\ g_lock (deliver s x) = g_lock s /\
  g_exit (deliver s x) = g_exit s /\ g_done (deliver s x) = g_done s.
Proof.
  intro H. unfold deliver. destruct (g_exit s) eqn:E; [repeat split; auto|].
  destruct x; [rewrite H|]; cbn; repeat split; auto.
Qed.

Lemma delivers_outside_prompt l s :
  g_prompt s = false ->
  g_fs (fold_left deliver l s) = g_fs s /\ g_prompt (fold_left deliver l s) = false /\
  g_lock (fold_left deliver l s) = g_lock s /\ g_exit (fold_left deliver l s) = g_exit s /\
  g_done (fold_left deliver l s) = g_done s.
Proof.
  revert s; induction l as [|x l IH]; intros s H; cbn [fold_left]; [repeat split; auto|].
  destruct (deliver_outside_prompt s x H) as (A & B & C & D & E).
  destruct (IH (deliver s x) B) as (A' & B' & C' & D' & E').
  repeat split; congruence.
Qed.

Lemma delivers_agree l1 l2 x y : agree x y -> agree (fold_left deliver l1 x) (fold_left deliver l2 y).
Proof.
  intros (A & B & C & D & Px & Py).
  destruct (delivers_outside_prompt l1 x Px) as (A1 & B1 & C1 & D1 & E1).
  destruct (delivers_outside_prompt l2 y Py) as (A2 & B2 & C2 & D2 & E2).
  unfold agree. repeat split; congruence.
Qed.

Definition promptless_step (st : sstep) : Prop :=
  match st with SPromptBegin | SPromptEnd _ => False | _ => True end.
Definition promptless (prog : list sstep) : Prop := Forall promptless_step prog.

Lemma exec_step_agree st x y :
  promptless_step st -> agree x y ->
  agree (fst (exec_step x st)) (fst (exec_step y st)) /\ snd (exec_step x st) = snd (exec_step y st).
Proof.
  intros Hst (A & B & C & D & Px & Py). unfold exec_step. rewrite <- D.
  destruct (g_exit x) eqn:Ex; [cbn; unfold agree; repeat split; congruence|].
  destruct st as [o| |yy| |]; try (destruct Hst); cbn.
  - rewrite <- A. destruct (exec_mop o (g_fs x)); cbn; unfold agree; cbn; repeat split; congruence.
  - unfold agree; cbn; repeat split; congruence.
  - unfold agree; cbn; repeat split; congruence.
Qed.

Lemma run_prog_agree : forall prog i sg1 sg2 x y,
  promptless prog -> agree x y -> agree (run_prog prog i sg1 x) (run_prog prog i sg2 y).
Proof.
  induction prog as [|st prog IH]; intros i sg1 sg2 x y Hp Hxy; cbn [run_prog]; [exact Hxy|].
  inversion Hp as [|? ? Hst Hrest]; subst.
  pose proof (delivers_agree (sg1 i) (sg2 i) x y Hxy) as H1.
  destruct (exec_step_agree st _ _ Hst H1) as [H2 H3].
  destruct (exec_step (fold_left deliver (sg1 i) x) st) as [xa ca].
  destruct (exec_step (fold_left deliver (sg2 i) y) st) as [ya cb].
  cbn in H2, H3. subst cb.
  destruct ca; [apply IH; assumption|].
  destruct H2 as (A & B & C & D & Px & Py). rewrite <- D.
  destruct (g_exit xa) eqn:E; unfold agree; cbn; repeat split; congruence.
Qed.

(* Signal transparency: whatever signals arrive, whenever and however many, a command without a
   prompt (-y, apply, undo, redo) performs exactly the operations of the undisturbed run, leaves the
   same tree and the same lock state *)
Theorem signals_transparent : forall prog sigs t,
  promptless prog ->
  let a := run_prog prog 0 sigs (s0 t) in
  let b := run_prog prog 0 no_sigs (s0 t) in
  g_fs a = g_fs b /\ g_done a = g_done b /\ g_lock a = g_lock b /\ g_exit a = g_exit b.
Proof.
  intros prog sigs t Hp.
  assert (H : agree (s0 t) (s0 t)) by (unfold agree; cbn; repeat split; reflexivity).
  destruct (run_prog_agree prog 0 sigs no_sigs _ _ Hp H) as (A & B & C & D & _). auto.
Qed.

(* the handler never exits the process outside the prompt: the command always runs to its end *)
Theorem no_exit_outside_prompt : forall prog sigs t,
  promptless prog -> g_exit (run_prog prog 0 sigs (s0 t)) = None.
Proof.
  intros prog sigs t Hp.
  destruct (signals_transparent prog sigs t Hp) as (_ & _ & _ & E). rewrite E.
  clear E sigs. generalize 0%nat. generalize (s0 t) (eq_refl : g_exit (s0 t) = None).
  induction prog as [|st prog IH]; intros s Hs i; cbn [run_prog]; [exact Hs|].
  inversion Hp as [|? ? Hst Hrest]; subst. cbn [no_sigs fold_left].
  unfold exec_step. rewrite Hs.
  destruct st as [o| |yy| |]; try (destruct Hst).
  - destruct (exec_mop o (g_fs s)); [apply IH; auto | cbn; rewrite Hs; reflexivity].
  - apply IH; auto.
  - apply IH; auto.
Qed.

(* SIGINT while the confirmation prompt is active: the process exits 130 at once, nothing of the
   command has touched the tree yet (the prompt precedes every mutating operation) and the lock is
   released *)
Definition prompted (ops : list mop) (answer : bool) : list sstep :=
  [SLockAcquire; SPromptBegin; SPromptEnd answer] ++ map SOp ops ++ [SLockRelease].

Theorem sigint_at_prompt_changes_nothing : forall ops answer t,
  let s := run_prog (prompted ops answer) 0 (fun i => if Nat.eqb i 2 then [SigInt] else []) (s0 t) in
  g_fs s = t /\ g_done s = [] /\ g_lock s = false /\ g_exit s = Some 130%nat.
Proof. intros ops answer t. cbn. repeat split; reflexivity. Qed.

(* exit status: 130 whenever a signal arrived before the command returned, the command's own otherwise *)
Theorem exit_status_no_signal : forall prog t own,
  promptless prog -> final_exit (run_prog prog 0 no_sigs (s0 t)) own = own.
Proof.
  intros prog t own Hp. unfold final_exit.
  rewrite (no_exit_outside_prompt prog no_sigs t Hp).
  assert (F : forall p i s, g_flag s = false -> g_flag (run_prog p i no_sigs s) = false).
  { induction p as [|st p IHp]; intros i s Hs; cbn [run_prog no_sigs fold_left]; [exact Hs|].
    unfold exec_step. destruct (g_exit s) eqn:Ex; [rewrite Ex; exact Hs|].
    destruct st as [o| |yy| |]; try (apply IHp; exact Hs).
    - destruct (exec_mop o (g_fs s)); [apply IHp; exact Hs | rewrite Ex; exact Hs].
    - destruct yy; [apply IHp; exact Hs | cbn; exact Hs]. }
  rewrite F by reflexivity. reflexivity.
Qed.
