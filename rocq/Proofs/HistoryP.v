(* Proofs/HistoryP.v — invariants of the undo/redo history state machine (Model/History.v),
   for all command sequences of any length and any clock seconds. *)
From RN Require Import Model.History.


(* ------------------------------------------------------------------ *)
(* reflection                                                           *)
(* ------------------------------------------------------------------ *)
Lemma params_eqb_eq : forall a b, params_eqb a b = true <-> a = b.
Proof.
  intros [p f] [q g]; unfold params_eqb; simpl.
  rewrite andb_true_iff, Nat.eqb_eq, eqb_true_iff. split.
  - intros [-> ->]; reflexivity.
  - intros H; injection H; auto.
Qed.

Lemma params_eqb_refl : forall a, params_eqb a a = true.
Proof. intros; apply params_eqb_eq; reflexivity. Qed.

Lemma ident_eqb_eq : forall a b, ident_eqb a b = true <-> a = b.
Proof.
  induction a as [p s | x IH s | x IH s]; intros [q t | y t | y t]; simpl;
    try (split; intros H; discriminate H).
  - rewrite andb_true_iff, Nat.eqb_eq, params_eqb_eq. split.
    + intros [-> ->]; reflexivity.
    + intros H; injection H; auto.
  - rewrite andb_true_iff, Nat.eqb_eq, IH. split.
    + intros [-> ->]; reflexivity.
    + intros H; injection H; auto.
  - rewrite andb_true_iff, Nat.eqb_eq, IH. split.
    + intros [-> ->]; reflexivity.
    + intros H; injection H; auto.
Qed.

Lemma ident_eqb_refl : forall a, ident_eqb a a = true.
Proof. intros; apply ident_eqb_eq; reflexivity. Qed.

Lemma ident_eqb_neq : forall a b, ident_eqb a b = false <-> a <> b.
Proof.
  intros a b. destruct (ident_eqb a b) eqn:E.
  - apply ident_eqb_eq in E. split; [discriminate | congruence].
  - split; [| reflexivity]. intros _ H. apply ident_eqb_eq in H. congruence.
Qed.

Lemma ident_eq_dec : forall a b : ident, {a = b} + {a <> b}.
Proof.
  intros a b. destruct (ident_eqb a b) eqn:E.
  - left; apply ident_eqb_eq; exact E.
  - right; apply ident_eqb_neq; exact E.
Qed.

(* ------------------------------------------------------------------ *)
(* the boolean observers of a history                                   *)
(* ------------------------------------------------------------------ *)
Lemma has_id_In : forall h i, has_id h i = true <-> In i (ids h).
Proof.
  intros h i. unfold has_id, ids. rewrite existsb_exists, in_map_iff. split.
  - intros [e [He E]]. apply ident_eqb_eq in E. eauto.
  - intros [e [E He]]. exists e. split; [exact He|]. apply ident_eqb_eq; exact E.
Qed.

Lemma has_id_false : forall h i, has_id h i = false <-> ~ In i (ids h).
Proof.
  intros h i. rewrite <- has_id_In. destruct (has_id h i); split; congruence.
Qed.

Lemma reverted_spec : forall h i,
  reverted h i = true <-> exists e, In e h /\ e_revert_of e = Some i.
Proof.
  intros h i. unfold reverted. rewrite existsb_exists. split.
  - intros [e [He E]]. exists e. split; [exact He|].
    destruct (e_revert_of e) as [j|]; [| discriminate]. apply ident_eqb_eq in E. congruence.
  - intros [e [He E]]. exists e. split; [exact He|]. rewrite E. apply ident_eqb_refl.
Qed.

Lemma redone_spec : forall h i,
  redone h i = true <-> exists e t, In e h /\ e_id e = IdRedo i t.
Proof.
  intros h i. unfold redone. rewrite existsb_exists. split.
  - intros [e [He E]]. unfold is_redo_of in E.
    destruct (e_id e) as [p s | x s | x s] eqn:Ei; try discriminate.
    apply ident_eqb_eq in E. subst x. eauto.
  - intros [e [t [He E]]]. exists e. split; [exact He|]. unfold is_redo_of. rewrite E.
    apply ident_eqb_refl.
Qed.

Lemma has_id_snoc : forall h e i, has_id (h ++ [e]) i = has_id h i || ident_eqb (e_id e) i.
Proof. intros. unfold has_id. rewrite existsb_app. simpl. rewrite orb_false_r. reflexivity. Qed.

Lemma reverted_snoc_none : forall h e i,
  e_revert_of e = None -> reverted (h ++ [e]) i = reverted h i.
Proof.
  intros h e i H. unfold reverted. rewrite existsb_app. simpl. rewrite H.
  rewrite !orb_false_r. reflexivity.
Qed.

Lemma reverted_snoc_some : forall h e j i,
  e_revert_of e = Some j -> reverted (h ++ [e]) i = reverted h i || ident_eqb j i.
Proof.
  intros h e j i H. unfold reverted. rewrite existsb_app. simpl. rewrite H.
  rewrite orb_false_r. reflexivity.
Qed.

Lemma redone_snoc : forall h e i,
  redone (h ++ [e]) i = redone h i || is_redo_of i (e_id e).
Proof. intros. unfold redone. rewrite existsb_app. simpl. rewrite orb_false_r. reflexivity. Qed.

Lemma find_entry_spec : forall h i e, find_entry h i = Some e -> In e h /\ e_id e = i.
Proof.
  intros h i e H. unfold find_entry in H. apply find_some in H. destruct H as [H1 H2].
  apply ident_eqb_eq in H2. auto.
Qed.

Lemma ids_snoc : forall h e, ids (h ++ [e]) = ids h ++ [e_id e].
Proof. intros. unfold ids. rewrite map_app. reflexivity. Qed.

(* ------------------------------------------------------------------ *)
(* live_ids                                                             *)
(* ------------------------------------------------------------------ *)
Lemma In_live_ids : forall h i,
  In i (live_ids h) <->
  exists e, In e h /\ e_id e = i /\ e_revert_of e = None /\ reverted h i = false.
Proof.
  intros h i. unfold live_ids. rewrite in_map_iff. split.
  - intros [e [E He]]. apply filter_In in He. destruct He as [He L]. exists e.
    destruct (e_revert_of e) eqn:R; [discriminate|]. subst i.
    repeat split; auto. apply negb_true_iff in L. exact L.
  - intros [e [He [E [R V]]]]. exists e. split; [exact E|]. apply filter_In. split; [exact He|].
    rewrite R, E, V. reflexivity.
Qed.

Lemma live_ids_incl_ids : forall h i, In i (live_ids h) -> In i (ids h).
Proof.
  intros h i H. apply In_live_ids in H. destruct H as [e [He [E _]]].
  unfold ids. apply in_map_iff. eauto.
Qed.

Lemma NoDup_map_filter : forall (A B : Type) (f : A -> B) (p : A -> bool) (l : list A),
  NoDup (map f l) -> NoDup (map f (filter p l)).
Proof.
  induction l as [|a l IH]; simpl; intros H; [constructor|].
  inversion H as [|x xs Hn Hd]; subst.
  destruct (p a); simpl; [| auto]. constructor; [| auto].
  intros Hin. apply Hn. apply in_map_iff in Hin. destruct Hin as [b [E Hb]].
  apply filter_In in Hb. apply in_map_iff. exists b. tauto.
Qed.

Lemma live_ids_nodup_of_ids : forall h, NoDup (ids h) -> NoDup (live_ids h).
Proof. intros h H. unfold live_ids. apply NoDup_map_filter. exact H. Qed.

(* pushing an operation (non-revert) entry whose id is not reverted *)
Lemma live_ids_push_op : forall h e,
  e_revert_of e = None -> reverted h (e_id e) = false ->
  live_ids (h ++ [e]) = live_ids h ++ [e_id e].
Proof.
  intros h e R V. unfold live_ids. rewrite filter_app, map_app. f_equal.
  - f_equal. apply filter_ext_in. intros a _.
    destruct (e_revert_of a); [reflexivity|]. rewrite reverted_snoc_none by exact R. reflexivity.
  - simpl. rewrite R. rewrite reverted_snoc_none by exact R. rewrite V. reflexivity.
Qed.

Lemma live_filter_aux : forall (R : ident -> bool) j l,
  map e_id (filter (fun a => match e_revert_of a with
                             | None => negb (R (e_id a) || ident_eqb j (e_id a))
                             | Some _ => false end) l)
  = filter (fun i => negb (ident_eqb j i))
      (map e_id (filter (fun a => match e_revert_of a with
                                  | None => negb (R (e_id a))
                                  | Some _ => false end) l)).
Proof.
  intros R j. induction l as [|a l IH]; simpl; [reflexivity|].
  destruct (e_revert_of a); [exact IH|].
  destruct (R (e_id a)); simpl; [exact IH|].
  destruct (ident_eqb j (e_id a)); simpl; rewrite IH; reflexivity.
Qed.

(* pushing a revert entry removes exactly its target, and adds nothing *)
Lemma live_ids_push_rev : forall h e j,
  e_revert_of e = Some j ->
  live_ids (h ++ [e]) = filter (fun i => negb (ident_eqb j i)) (live_ids h).
Proof.
  intros h e j R. unfold live_ids. rewrite filter_app. simpl. rewrite R. rewrite app_nil_r.
  rewrite <- live_filter_aux. f_equal. apply filter_ext_in. intros a _.
  destruct (e_revert_of a); [reflexivity|]. rewrite (reverted_snoc_some _ _ _ _ R). reflexivity.
Qed.

(* ------------------------------------------------------------------ *)
(* list / permutation facts                                             *)
(* ------------------------------------------------------------------ *)
Lemma remove_one_perm : forall p t, In p t -> Permutation t (p :: remove_one p t).
Proof.
  induction t as [|q t IH]; simpl; intros H; [contradiction|].
  destruct (params_eqb p q) eqn:E.
  - apply params_eqb_eq in E. subst q. reflexivity.
  - destruct H as [H|H].
    + subst q. rewrite params_eqb_refl in E. discriminate.
    + eapply perm_trans; [apply perm_skip; apply IH; exact H | apply perm_swap].
Qed.

Lemma remove_one_perm_cons : forall p t t',
  Permutation t (p :: t') -> Permutation (remove_one p t) t'.
Proof.
  intros p t t' H. apply Permutation_cons_inv with (a := p).
  eapply perm_trans; [| exact H]. symmetry. apply remove_one_perm.
  eapply Permutation_in; [symmetry; exact H | left; reflexivity].
Qed.

Lemma filter_all_true : forall (A : Type) (p : A -> bool) l,
  (forall x, In x l -> p x = true) -> filter p l = l.
Proof.
  induction l as [|a l IH]; simpl; intros H; [reflexivity|].
  rewrite (H a) by auto. f_equal. apply IH. intros; apply H; auto.
Qed.

Lemma map_remove_perm : forall (B : Type) (f : ident -> B) id L,
  NoDup L -> In id L ->
  Permutation (map f L) (f id :: map f (filter (fun i => negb (ident_eqb id i)) L)).
Proof.
  induction L as [|a L IH]; simpl; intros Hnd Hin; [contradiction|].
  inversion Hnd as [|x xs Hn Hd]; subst.
  destruct (ident_eqb id a) eqn:E; simpl.
  - apply ident_eqb_eq in E. subst a. rewrite filter_all_true; [reflexivity|].
    intros x Hx. apply negb_true_iff. apply ident_eqb_neq. intros ->. contradiction.
  - destruct Hin as [Hin|Hin].
    + subst a. rewrite ident_eqb_refl in E. discriminate.
    + eapply perm_trans; [apply perm_skip; apply IH; assumption | apply perm_swap].
Qed.

Lemma NoDup_snoc : forall (A : Type) (l : list A) a, NoDup l -> ~ In a l -> NoDup (l ++ [a]).
Proof.
  intros A l a H Hn. apply Permutation_NoDup with (l := a :: l).
  - apply Permutation_cons_append.
  - constructor; assumption.
Qed.

(* ------------------------------------------------------------------ *)
(* the invariant                                                        *)
(* ------------------------------------------------------------------ *)
Definition Inv (s : hstate) : Prop :=
  NoDup (ids (h_hist s)) /\
  Permutation (h_tree s) (implied_tree (h_hist s)) /\
  (forall e, In e (h_hist s) -> forall j, e_revert_of e = Some j ->
       exists e', In e' (h_hist s) /\ e_id e' = j /\ e_revert_of e' = None).

(* H1 *)
Theorem inv_init : Inv h_init.
Proof.
  unfold Inv, h_init; simpl. split; [constructor|]. split; [reflexivity|].
  intros e [].
Qed.

(* under Inv, an id that is reverted is present *)
Lemma inv_reverted_has_id : forall s i,
  Inv s -> reverted (h_hist s) i = true ->
  exists e', In e' (h_hist s) /\ e_id e' = i /\ e_revert_of e' = None.
Proof.
  intros s i [_ [_ H3]] H. apply reverted_spec in H. destruct H as [e [He E]]. eauto.
Qed.

Lemma inv_fresh_not_reverted : forall s i,
  Inv s -> has_id (h_hist s) i = false -> reverted (h_hist s) i = false.
Proof.
  intros s i HI F. destruct (reverted (h_hist s) i) eqn:V; [| reflexivity].
  destruct (inv_reverted_has_id _ _ HI V) as [e' [He' [E _]]].
  apply has_id_false in F. exfalso. apply F. unfold ids. apply in_map_iff. eauto.
Qed.

Lemma inv_push_op : forall s e t,
  Inv s -> e_revert_of e = None -> has_id (h_hist s) (e_id e) = false ->
  Permutation t (params_of (e_id e) :: h_tree s) ->
  Inv (push s e t).
Proof.
  intros s e t HI R F P. pose proof (inv_fresh_not_reverted _ _ HI F) as V.
  destruct HI as [H1 [H2 H3]]. unfold Inv, push; simpl. split; [| split].
  - rewrite ids_snoc. apply NoDup_snoc; [exact H1|]. apply has_id_false; exact F.
  - unfold implied_tree. rewrite (live_ids_push_op _ _ R V). rewrite map_app. simpl.
    eapply perm_trans; [exact P|]. eapply perm_trans; [| apply Permutation_cons_append].
    apply perm_skip. exact H2.
  - intros e0 He0 j Ej. apply in_app_or in He0. destruct He0 as [He0 | [<- | []]].
    + destruct (H3 _ He0 _ Ej) as [e' [A [B C]]]. exists e'. split; [apply in_or_app; auto | auto].
    + congruence.
Qed.

Lemma inv_push_rev : forall s e0 sec,
  Inv s -> In e0 (h_hist s) -> e_revert_of e0 = None ->
  reverted (h_hist s) (e_id e0) = false ->
  has_id (h_hist s) (IdRevert (e_id e0) sec) = false ->
  Inv (push s {| e_id := IdRevert (e_id e0) sec; e_revert_of := Some (e_id e0) |}
            (remove_one (params_of (e_id e0)) (h_tree s))).
Proof.
  intros s e0 sec HI He0 R V F. destruct HI as [H1 [H2 H3]].
  unfold Inv, push; simpl. split; [| split].
  - rewrite ids_snoc. apply NoDup_snoc; [exact H1|]. apply has_id_false; exact F.
  - unfold implied_tree. rewrite live_ids_push_rev with (j := e_id e0) by reflexivity.
    apply remove_one_perm_cons. eapply perm_trans; [exact H2|]. unfold implied_tree.
    apply map_remove_perm.
    + apply live_ids_nodup_of_ids; exact H1.
    + apply In_live_ids. exists e0. auto.
  - intros e He j Ej. apply in_app_or in He. destruct He as [He | [<- | []]].
    + destruct (H3 _ He _ Ej) as [e' [A [B C]]]. exists e'. split; [apply in_or_app; auto | auto].
    + simpl in Ej. injection Ej as <-. exists e0. split; [apply in_or_app; auto | auto].
Qed.

(* ------------------------------------------------------------------ *)
(* a case characterisation of [step]                                    *)
(* ------------------------------------------------------------------ *)
Inductive step_shape (s : hstate) : cmd -> nat -> hstate * outcome -> Prop :=
| SS_same : forall c sec o, o <> Succeeded -> step_shape s c sec (s, o)
| SS_rename : forall p sec,
    has_id (h_hist s) (IdPlan p sec) = false ->
    step_shape s (CRename p) sec
      (push s {| e_id := IdPlan p sec; e_revert_of := None |} (p :: h_tree s), Succeeded)
| SS_undo : forall r sec e0,
    resolve (h_hist s) true r = Some (e_id e0) ->
    In e0 (h_hist s) -> e_revert_of e0 = None ->
    reverted (h_hist s) (e_id e0) = false ->
    has_id (h_hist s) (IdRevert (e_id e0) sec) = false ->
    step_shape s (CUndo r) sec
      (push s {| e_id := IdRevert (e_id e0) sec; e_revert_of := Some (e_id e0) |}
            (remove_one (params_of (e_id e0)) (h_tree s)), Succeeded)
| SS_redo : forall r sec id,
    resolve (h_hist s) false r = Some id ->
    has_id (h_hist s) id = true ->
    reverted (h_hist s) id = true ->
    redone (h_hist s) id = false ->
    has_id (h_hist s) (IdRedo id sec) = false ->
    step_shape s (CRedo r) sec
      (push s {| e_id := IdRedo id sec; e_revert_of := None |} (params_of id :: h_tree s), Succeeded).

Lemma step_has_shape : forall s c sec, step_shape s c sec (step s c sec).
Proof.
  intros s c sec. destruct c as [p | r | r]; unfold step.
  - destruct (applied_in_tree p (h_tree s) && negb (feeds p)).
    + apply SS_same; discriminate.
    + destruct (has_id (h_hist s) (IdPlan p sec)) eqn:F.
      * apply SS_same; discriminate.
      * apply SS_rename; exact F.
  - destruct (resolve (h_hist s) true r) as [id|] eqn:Rs; [| apply SS_same; discriminate].
    destruct (find_entry (h_hist s) id) as [e|] eqn:Fe; [| apply SS_same; discriminate].
    apply find_entry_spec in Fe. destruct Fe as [He Ei]. subst id.
    destruct (e_revert_of e) eqn:R; [apply SS_same; discriminate|].
    destruct (reverted (h_hist s) (e_id e)) eqn:V; [apply SS_same; discriminate|].
    destruct (has_id (h_hist s) (IdRevert (e_id e) sec)) eqn:F; [apply SS_same; discriminate|].
    apply SS_undo; assumption.
  - destruct (resolve (h_hist s) false r) as [id|] eqn:Rs; [| apply SS_same; discriminate].
    destruct (has_id (h_hist s) id) eqn:Hid; simpl; [| apply SS_same; discriminate].
    destruct (reverted (h_hist s) id) eqn:V; simpl; [| apply SS_same; discriminate].
    destruct (redone (h_hist s) id) eqn:D; [apply SS_same; discriminate|].
    destruct (has_id (h_hist s) (IdRedo id sec)) eqn:F; [apply SS_same; discriminate|].
    apply SS_redo; assumption.
Qed.

(* H2 *)
Theorem step_preserves_inv : forall s c sec, Inv s -> Inv (fst (step s c sec)).
Proof.
  intros s c sec HI. destruct (step_has_shape s c sec); simpl.
  - exact HI.
  - apply inv_push_op; auto; reflexivity.
  - apply inv_push_rev; auto.
  - apply inv_push_op; auto; reflexivity.
Qed.

(* H3 *)
Theorem run_preserves_inv : forall cs s, Inv s -> Inv (fst (run s cs)).
Proof.
  induction cs as [| [c sec] cs IH]; intros s HI; simpl; [exact HI|].
  pose proof (step_preserves_inv s c sec HI) as H1.
  destruct (step s c sec) as [s1 o]. simpl in H1.
  pose proof (IH s1 H1) as H2. destruct (run s1 cs) as [s2 os]. exact H2.
Qed.

Corollary reachable_inv : forall cs, Inv (fst (run h_init cs)).
Proof. intros cs. apply run_preserves_inv. apply inv_init. Qed.

(* H4 *)
Theorem step_append_only : forall s c sec,
  h_hist (fst (step s c sec)) = h_hist s \/
  exists e, h_hist (fst (step s c sec)) = h_hist s ++ [e].
Proof.
  intros s c sec. destruct (step_has_shape s c sec); simpl; eauto.
Qed.

Theorem run_prefix : forall cs s, exists l, h_hist (fst (run s cs)) = h_hist s ++ l.
Proof.
  induction cs as [| [c sec] cs IH]; intros s; simpl.
  - exists []. rewrite app_nil_r. reflexivity.
  - pose proof (step_append_only s c sec) as H1.
    destruct (step s c sec) as [s1 o]. simpl in H1.
    destruct (IH s1) as [l Hl]. destruct (run s1 cs) as [s2 os]. simpl in *.
    destruct H1 as [H1 | [e H1]]; rewrite Hl, H1.
    + eauto.
    + rewrite <- app_assoc. eauto.
Qed.

(* H5 *)
Theorem step_succeeded : forall s c sec s', step s c sec = (s', Succeeded) ->
  exists e, h_hist s' = h_hist s ++ [e] /\ has_id (h_hist s) (e_id e) = false.
Proof.
  intros s c sec s' H. pose proof (step_has_shape s c sec) as S. rewrite H in S.
  inversion S; subst; simpl.
  - congruence.
  - eexists; split; [reflexivity | assumption].
  - eexists; split; [reflexivity | assumption].
  - eexists; split; [reflexivity | assumption].
Qed.

Theorem step_not_succeeded_unchanged : forall s c sec s' o,
  step s c sec = (s', o) -> o <> Succeeded -> s' = s.
Proof.
  intros s c sec s' o H Ho. pose proof (step_has_shape s c sec) as S. rewrite H in S.
  inversion S; subst; congruence.
Qed.

(* H6 *)
Theorem undo_only_when_live_strong : forall s r sec s',
  step s (CUndo r) sec = (s', Succeeded) ->
  exists id, resolve (h_hist s) true r = Some id /\ In id (live_ids (h_hist s)) /\
             h_tree s' = remove_one (params_of id) (h_tree s) /\ ~ In id (live_ids (h_hist s')) /\
             h_hist s' = h_hist s ++ [{| e_id := IdRevert id sec; e_revert_of := Some id |}].
Proof.
  intros s r sec s' H. pose proof (step_has_shape s (CUndo r) sec) as S. rewrite H in S.
  inversion S; subst; [congruence|]. exists (e_id e0). simpl.
  split; [assumption|]. split; [| split; [reflexivity | split; [| reflexivity]]].
  - apply In_live_ids. exists e0. auto.
  - rewrite live_ids_push_rev with (j := e_id e0) by reflexivity.
    intros Hin. apply filter_In in Hin. destruct Hin as [_ Hin].
    rewrite ident_eqb_refl in Hin. discriminate.
Qed.

Theorem undo_only_when_live : forall s r sec s', Inv s -> step s (CUndo r) sec = (s', Succeeded) ->
  exists id, resolve (h_hist s) true r = Some id /\ In id (live_ids (h_hist s)) /\
             h_tree s' = remove_one (params_of id) (h_tree s) /\ ~ In id (live_ids (h_hist s')).
Proof.
  intros s r sec s' _ H. destruct (undo_only_when_live_strong _ _ _ _ H) as [id [A [B [C [D _]]]]].
  exists id. auto.
Qed.

Theorem redo_only_when_undone_strong : forall s r sec s',
  step s (CRedo r) sec = (s', Succeeded) ->
  exists id, resolve (h_hist s) false r = Some id /\ reverted (h_hist s) id = true /\
             redone (h_hist s) id = false /\ h_tree s' = params_of id :: h_tree s /\
             h_hist s' = h_hist s ++ [{| e_id := IdRedo id sec; e_revert_of := None |}].
Proof.
  intros s r sec s' H. pose proof (step_has_shape s (CRedo r) sec) as S. rewrite H in S.
  inversion S; subst; [congruence|]. exists id. simpl. auto.
Qed.

Theorem redo_only_when_undone : forall s r sec s', Inv s -> step s (CRedo r) sec = (s', Succeeded) ->
  exists id, resolve (h_hist s) false r = Some id /\ reverted (h_hist s) id = true /\
             redone (h_hist s) id = false /\ h_tree s' = params_of id :: h_tree s.
Proof.
  intros s r sec s' _ H. destruct (redo_only_when_undone_strong _ _ _ _ H) as [id [A [B [C [D _]]]]].
  exists id. auto.
Qed.

(* under Inv, the operation being undone is in the tree, and the one being redone is not live *)
Theorem undo_target_in_tree : forall s r sec s', Inv s -> step s (CUndo r) sec = (s', Succeeded) ->
  exists id, resolve (h_hist s) true r = Some id /\ In (params_of id) (h_tree s) /\
             Permutation (h_tree s) (params_of id :: h_tree s').
Proof.
  intros s r sec s' HI H. destruct (undo_only_when_live_strong _ _ _ _ H) as [id [A [B [C _]]]].
  exists id. split; [exact A|].
  assert (Hin : In (params_of id) (h_tree s)).
  { destruct HI as [_ [P _]]. eapply Permutation_in; [symmetry; exact P|].
    unfold implied_tree. apply in_map. exact B. }
  split; [exact Hin|]. rewrite C. apply remove_one_perm. exact Hin.
Qed.

Theorem redo_target_not_live : forall s r sec s', step s (CRedo r) sec = (s', Succeeded) ->
  exists id, resolve (h_hist s) false r = Some id /\ ~ In id (live_ids (h_hist s)).
Proof.
  intros s r sec s' H. destruct (redo_only_when_undone_strong _ _ _ _ H) as [id [A [B _]]].
  exists id. split; [exact A|]. intros Hin. apply In_live_ids in Hin.
  destruct Hin as [e [_ [_ [_ V]]]]. congruence.
Qed.

(* H7 *)
Theorem live_ids_nodup : forall s, Inv s -> NoDup (live_ids (h_hist s)).
Proof. intros s [H _]. apply live_ids_nodup_of_ids. exact H. Qed.

(* ------------------------------------------------------------------ *)
(* H7+: the "at most once" property that the already-redone check buys *)
(* ------------------------------------------------------------------ *)
(* the original operation a chain of redos goes back to *)
Fixpoint root (i : ident) : ident :=
  match i with
  | IdPlan p s => IdPlan p s
  | IdRevert x s => IdRevert x s
  | IdRedo x _ => root x
  end.

Lemma params_of_root : forall i, params_of (root i) = params_of i.
Proof. induction i; simpl; auto. Qed.

(* strengthened invariant: a redo's target is reverted; among the operation entries going back
   to the same original operation at most one has not been redone *)
Definition SInv (s : hstate) : Prop :=
  Inv s /\
  (forall e, In e (h_hist s) -> forall x t, e_id e = IdRedo x t -> reverted (h_hist s) x = true) /\
  (forall e1 e2, In e1 (h_hist s) -> In e2 (h_hist s) ->
     e_revert_of e1 = None -> e_revert_of e2 = None ->
     root (e_id e1) = root (e_id e2) ->
     redone (h_hist s) (e_id e1) = false -> redone (h_hist s) (e_id e2) = false ->
     e_id e1 = e_id e2).

Theorem sinv_init : SInv h_init.
Proof.
  split; [apply inv_init|]. split.
  - intros e [].
  - intros e1 e2 [].
Qed.

Lemma reverted_snoc_mono : forall h e i, reverted h i = true -> reverted (h ++ [e]) i = true.
Proof. intros h e i H. unfold reverted in *. rewrite existsb_app, H. reflexivity. Qed.

Lemma root_in_ids : forall s, SInv s -> forall i, In i (ids (h_hist s)) -> In (root i) (ids (h_hist s)).
Proof.
  intros s [HI [Hb _]]. induction i as [p t | x IH t | x IH t]; simpl; intros Hin; auto.
  apply IH. unfold ids in Hin. apply in_map_iff in Hin. destruct Hin as [e [E He]].
  pose proof (Hb _ He _ _ E) as V.
  destruct (inv_reverted_has_id _ _ HI V) as [e' [He' [E' _]]].
  unfold ids. apply in_map_iff. eauto.
Qed.

Lemma sinv_live_not_redone : forall s i,
  SInv s -> reverted (h_hist s) i = false -> redone (h_hist s) i = false.
Proof.
  intros s i [_ [Hb _]] V. destruct (redone (h_hist s) i) eqn:D; [| reflexivity].
  apply redone_spec in D. destruct D as [e [t [He E]]]. rewrite (Hb _ He _ _ E) in V. discriminate.
Qed.

Lemma In_snoc : forall (A : Type) (l : list A) a x, In x (l ++ [a]) -> In x l \/ x = a.
Proof. intros A l a x H. apply in_app_or in H. destruct H as [H | [H | []]]; auto. Qed.

Theorem step_preserves_sinv : forall s c sec, SInv s -> SInv (fst (step s c sec)).
Proof.
  intros s c sec HS. pose proof HS as [HI [Hb He]].
  split; [apply step_preserves_inv; exact HI|].
  destruct (step_has_shape s c sec); simpl; [split; assumption | | |].
  - (* rename *)
    set (n := {| e_id := IdPlan p sec; e_revert_of := None |}).
    assert (Hfresh : forall e, In e (h_hist s) -> root (e_id e) <> IdPlan p sec).
    { intros e Hin E. apply has_id_false in H. apply H. rewrite <- E.
      apply root_in_ids; [exact HS|]. unfold ids. apply in_map. exact Hin. }
    split.
    + intros e Hin x t E. apply reverted_snoc_mono. apply In_snoc in Hin.
      destruct Hin as [Hin | ->]; [eapply Hb; eauto | discriminate E].
    + intros e1 e2 H1 H2 R1 R2 Er D1 D2.
      rewrite redone_snoc in D1, D2. apply orb_false_iff in D1, D2.
      destruct D1 as [D1 _], D2 as [D2 _].
      apply In_snoc in H1. apply In_snoc in H2.
      destruct H1 as [H1 | ->], H2 as [H2 | ->].
      * apply He; assumption.
      * exfalso. apply (Hfresh _ H1). exact Er.
      * exfalso. apply (Hfresh _ H2). symmetry. exact Er.
      * reflexivity.
  - (* undo *)
    split.
    + intros e Hin x t E. apply reverted_snoc_mono. apply In_snoc in Hin.
      destruct Hin as [Hin | ->]; [eapply Hb; eauto | discriminate E].
    + intros e1 e2 H4 H5 R1 R2 Er D1 D2.
      rewrite redone_snoc in D1, D2. apply orb_false_iff in D1, D2.
      destruct D1 as [D1 _], D2 as [D2 _].
      apply In_snoc in H4. apply In_snoc in H5.
      destruct H4 as [H4 | ->]; [| discriminate R1].
      destruct H5 as [H5 | ->]; [| discriminate R2].
      apply He; assumption.
  - (* redo *)
    destruct (inv_reverted_has_id _ _ HI H1) as [e' [He' [Ee' Re']]].
    assert (Hcl : forall e, In e (h_hist s) -> e_revert_of e = None ->
                    root (e_id e) = root id -> redone (h_hist s) (e_id e) = false ->
                    ident_eqb id (e_id e) = false -> False).
    { intros e Hin R Er D Ne. apply ident_eqb_neq in Ne. apply Ne. rewrite <- Ee'.
      apply He; try assumption; rewrite Ee'; [symmetry|]; assumption. }
    split.
    + intros e Hin x t E. apply reverted_snoc_mono. apply In_snoc in Hin.
      destruct Hin as [Hin | ->]; [eapply Hb; eauto |].
      simpl in E. injection E as <- _. exact H1.
    + intros e1 e2 H4 H5 R1 R2 Er D1 D2.
      rewrite redone_snoc in D1, D2. apply orb_false_iff in D1, D2.
      destruct D1 as [D1 N1], D2 as [D2 N2]. simpl in N1, N2.
      apply In_snoc in H4. apply In_snoc in H5.
      destruct H4 as [H4 | ->], H5 as [H5 | ->].
      * apply He; assumption.
      * exfalso. simpl in Er. eapply Hcl; eauto.
      * exfalso. simpl in Er. eapply Hcl; eauto.
      * reflexivity.
Qed.

Theorem run_preserves_sinv : forall cs s, SInv s -> SInv (fst (run s cs)).
Proof.
  induction cs as [| [c sec] cs IH]; intros s HI; simpl; [exact HI|].
  pose proof (step_preserves_sinv s c sec HI) as H1.
  destruct (step s c sec) as [s1 o]. simpl in H1.
  pose proof (IH s1 H1) as H2. destruct (run s1 cs) as [s2 os]. exact H2.
Qed.

Corollary reachable_sinv : forall cs, SInv (fst (run h_init cs)).
Proof. intros cs. apply run_preserves_sinv. apply sinv_init. Qed.

Lemma NoDup_map_inj_in : forall (A B : Type) (f : A -> B) l,
  NoDup l -> (forall x y, In x l -> In y l -> f x = f y -> x = y) -> NoDup (map f l).
Proof.
  induction l as [|a l IH]; simpl; intros Hnd Hinj; [constructor|].
  inversion Hnd as [|x xs Hn Hd]; subst. constructor.
  - intros Hin. apply in_map_iff in Hin. destruct Hin as [b [E Hb]].
    assert (b = a) by (apply Hinj; auto). subst b. contradiction.
  - apply IH; [exact Hd|]. intros; apply Hinj; auto.
Qed.

(* no original operation is applied twice: the live entries go back to pairwise different
   original operations *)
Theorem live_roots_nodup : forall s, SInv s -> NoDup (map root (live_ids (h_hist s))).
Proof.
  intros s HS. pose proof HS as [HI [Hb He]].
  apply NoDup_map_inj_in; [apply live_ids_nodup; exact HI|].
  intros x y Hx Hy E. apply In_live_ids in Hx, Hy.
  destruct Hx as [e1 [H1 [E1 [R1 V1]]]]. destruct Hy as [e2 [H2 [E2 [R2 V2]]]]. subst x y.
  apply He; try assumption; apply sinv_live_not_redone; assumption.
Qed.

Corollary reachable_live_roots_nodup : forall cs,
  NoDup (map root (live_ids (h_hist (fst (run h_init cs))))).
Proof. intros cs. apply live_roots_nodup. apply reachable_sinv. Qed.

(* ------------------------------------------------------------------ *)
(* H8: the old behaviour: machine-checked witnesses                     *)
(* ------------------------------------------------------------------ *)
Fixpoint run_old (s : hstate) (cs : list (cmd * nat)) : hstate * list outcome :=
  match cs with
  | [] => (s, [])
  | (c, sec) :: cs' =>
      let (s1, o) := step_old s c sec in
      let (s2, os) := run_old s1 cs' in
      (s2, o :: os)
  end.

Definition pC : params := {| pp := 3; feeds := true |}.   (* feeds: C -> CC *)
Definition pD : params := {| pp := 4; feeds := false |}.

(* (a1) double redo at distinct seconds *)
Definition w_double_redo : list (cmd * nat) :=
  [(CRename pC, 0); (CUndo RLatest, 1); (CRedo RLatest, 2); (CRedo RLatest, 3)].

(* NOTE: for this witness the tree IS a permutation of the implied tree (both are [pC; pC]):
   the second redo entry is itself a live entry.  What is violated is that no original
   operation is applied twice. *)
Theorem old_double_redo_perm_still_holds :
  let s := fst (run_old h_init w_double_redo) in
  h_tree s = [pC; pC] /\ implied_tree (h_hist s) = [pC; pC].
Proof. vm_compute. split; reflexivity. Qed.

Theorem old_double_redo_applies_twice :
  let s := fst (run_old h_init w_double_redo) in
  snd (run_old h_init w_double_redo) = [Succeeded; Succeeded; Succeeded; Succeeded] /\
  h_tree s = [pC; pC] /\
  map root (live_ids (h_hist s)) = [IdPlan pC 0; IdPlan pC 0] /\
  ~ NoDup (map root (live_ids (h_hist s))) /\
  (* the repaired machine on the same commands *)
  snd (run h_init w_double_redo) = [Succeeded; Succeeded; Succeeded; Rejected] /\
  h_tree (fst (run h_init w_double_redo)) = [pC].
Proof.
  vm_compute. repeat split.
  intros H. inversion H as [|x xs Hn Hd]; subst. apply Hn. left. reflexivity.
Qed.

Theorem old_double_redo_breaks_sinv : exists cs, ~ SInv (fst (run_old h_init cs)).
Proof.
  exists w_double_redo. intros HS. apply live_roots_nodup in HS.
  destruct old_double_redo_applies_twice as [_ [_ [_ [H _]]]]. exact (H HS).
Qed.

(* (a2) double redo in the same second: the id collides, the old code reports Rejected after
   having changed the tree: the tree is no longer what the history implies *)
Definition w_double_redo_same_sec : list (cmd * nat) :=
  [(CRename pC, 0); (CUndo RLatest, 1); (CRedo RLatest, 2); (CRedo RLatest, 2)].

Theorem old_double_redo_same_second :
  let s := fst (run_old h_init w_double_redo_same_sec) in
  snd (run_old h_init w_double_redo_same_sec) = [Succeeded; Succeeded; Succeeded; Rejected] /\
  h_tree s = [pC; pC] /\ implied_tree (h_hist s) = [pC] /\
  ~ Permutation (h_tree s) (implied_tree (h_hist s)).
Proof.
  vm_compute. repeat split.
  intros H. apply Permutation_length in H. discriminate H.
Qed.

Theorem old_double_redo_breaks_inv : exists cs, ~ Inv (fst (run_old h_init cs)).
Proof.
  exists w_double_redo_same_sec. intros [_ [P _]].
  destruct old_double_redo_same_second as [_ [_ [_ H]]]. exact (H P).
Qed.

(* (b) same-second identical rename after an undo: Rejected, but the tree has changed *)
Definition w_same_sec_rename : list (cmd * nat) :=
  [(CRename pD, 0); (CUndo RLatest, 0)].

Theorem old_same_second_mutates_on_reject_witness :
  let s := fst (run_old h_init w_same_sec_rename) in
  h_tree s = [] /\
  snd (step_old s (CRename pD) 0) = Rejected /\
  h_hist (fst (step_old s (CRename pD) 0)) = h_hist s /\
  h_tree (fst (step_old s (CRename pD) 0)) = [pD] /\
  ~ Inv (fst (step_old s (CRename pD) 0)) /\
  (* the repaired machine *)
  step s (CRename pD) 0 = (s, Rejected).
Proof.
  vm_compute. repeat split.
  intros [_ [P _]]. vm_compute in P. apply Permutation_length in P. discriminate P.
Qed.

Theorem old_same_second_mutates_on_reject :
  exists s c sec s', step_old s c sec = (s', Rejected) /\ s' <> s.
Proof.
  exists (fst (run_old h_init w_same_sec_rename)), (CRename pD), 0.
  eexists. split; [vm_compute; reflexivity|]. vm_compute. intros H. discriminate H.
Qed.

(* the state in which it happens is reachable and well-formed *)
Theorem old_same_second_mutates_on_reject_reachable :
  exists cs c sec s', let s := fst (run h_init cs) in
    Inv s /\ step_old s c sec = (s', Rejected) /\ s' <> s /\ ~ Inv s'.
Proof.
  exists w_same_sec_rename, (CRename pD), 0. eexists. cbv zeta.
  split; [apply reachable_inv|]. split; [vm_compute; reflexivity|]. split.
  - vm_compute. intros H. discriminate H.
  - intros [_ [P _]]. vm_compute in P. apply Permutation_length in P. discriminate P.
Qed.

(* ------------------------------------------------------------------ *)
Print Assumptions inv_init.
Print Assumptions step_preserves_inv.
Print Assumptions run_preserves_inv.
Print Assumptions reachable_inv.
Print Assumptions step_append_only.
Print Assumptions run_prefix.
Print Assumptions step_succeeded.
Print Assumptions step_not_succeeded_unchanged.
Print Assumptions undo_only_when_live_strong.
Print Assumptions undo_only_when_live.
Print Assumptions redo_only_when_undone_strong.
Print Assumptions redo_only_when_undone.
Print Assumptions undo_target_in_tree.
Print Assumptions redo_target_not_live.
Print Assumptions live_ids_nodup.
Print Assumptions step_preserves_sinv.
Print Assumptions reachable_sinv.
Print Assumptions live_roots_nodup.
Print Assumptions reachable_live_roots_nodup.
Print Assumptions old_double_redo_perm_still_holds.
Print Assumptions old_double_redo_applies_twice.
Print Assumptions old_double_redo_breaks_sinv.
Print Assumptions old_double_redo_same_second.
Print Assumptions old_double_redo_breaks_inv.
Print Assumptions old_same_second_mutates_on_reject_witness.
Print Assumptions old_same_second_mutates_on_reject.
Print Assumptions old_same_second_mutates_on_reject_reachable.
