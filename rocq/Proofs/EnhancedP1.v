(* Proofs/EnhancedP1.v — the identifier extractor of Model/Enhanced.v (compound_scanner.rs
   IdentifierExtractor::find_all): every returned triple is a non-empty slice of the content, and
   the list is strictly increasing and pairwise disjoint.  Also the same facts for the per-line
   re-extraction (scoped_identifiers) and for identifiers_for.  Stdlib + lia only. *)
From RN Require Import Base.Bytes Model.StyleDef Model.CaseModel Model.Matcher Model.Compound Model.Enhanced.
From RN Require Import Proofs.EditsP Proofs.HunksP.
Open Scope nat_scope.

(* [id] is the non-empty slice s..e of c *)
Definition is_slice (c : bytes) (s e : nat) (id : bytes) : Prop :=
  s < e /\ e <= length c /\ id = firstn (e - s) (skipn s c).

(* ------------------------------------------------------------------ the regex at one position *)
Lemma run_le p s : run p s <= length s.
Proof. induction s as [|x s IH]; cbn [run length]; [lia|]. destruct (p x); lia. Qed.

Lemma backtrack_range s : forall n m, backtrack s n = Some m -> 1 <= m <= n.
Proof.
  induction n as [|k IH]; intros m; cbn [backtrack]; [discriminate|].
  destruct (wb_at s (S k)).
  - intro H; injection H as <-. lia.
  - intro H. apply IH in H. lia.
Qed.

Lemma ident_match_range s n : ident_match s = Some n -> 1 <= n <= length s.
Proof.
  unfold ident_match. destruct s as [|c r]; [discriminate|].
  destruct (is_id_start c); [|discriminate].
  intro H. apply backtrack_range in H. pose proof (run_le is_id_char r) as Hr. cbn [length]. lia.
Qed.

Lemma title_word_range s w : title_word s = Some w -> 2 <= w <= length s.
Proof.
  unfold title_word. destruct s as [|c r]; [discriminate|].
  destruct (is_upper c); [|discriminate].
  pose proof (run_le is_lower r) as Hr. destruct (run is_lower r) as [|n]; [discriminate|].
  intro H; injection H as <-. cbn [length]. lia.
Qed.

Lemma title_ends_range : forall fuel off s e, In e (title_ends fuel off s) -> off < e <= off + length s.
Proof.
  induction fuel as [|fuel IH]; intros off s e; cbn [title_ends]; [intros []|].
  pose proof (run_le is_space s) as Hk.
  destruct (run is_space s) as [|k0] eqn:Ek; [intros []|].
  destruct (title_word (skipn (S k0) s)) as [w|] eqn:Ew; [|intros []].
  apply title_word_range in Ew. rewrite skipn_length in Ew.
  intros [<-|Hin].
  - lia.
  - apply IH in Hin. rewrite skipn_length in Hin. lia.
Qed.

Lemma title_match_range s n : title_match s = Some n -> 1 <= n <= length s.
Proof.
  unfold title_match. destruct (title_word s) as [w|] eqn:Ew; [|discriminate].
  intro H. apply find_some in H as [Hin _]. apply in_rev in Hin.
  apply title_word_range in Ew. destruct Hin as [<-|Hin]; [lia|].
  apply title_ends_range in Hin. rewrite skipn_length in Hin. lia.
Qed.

Lemma match_at_range title prev s n : match_at title prev s = Some n -> 1 <= n <= length s.
Proof.
  unfold match_at. destruct (wb prev (nth_error s 0)); [|discriminate].
  destruct title.
  - destruct (title_match s) as [m|] eqn:Et.
    + intro H; injection H as <-. apply title_match_range. exact Et.
    + apply ident_match_range.
  - apply ident_match_range.
Qed.

(* ------------------------------------------------------------------ find_iter *)
Lemma rscan_sound title : forall s prev skip pos a b id,
  In (a, b, id) (rscan title prev skip pos s) ->
  pos + skip <= a /\ a < b /\ b <= pos + length s /\ id = firstn (b - a) (skipn (a - pos) s).
Proof.
  induction s as [|x s' IH]; intros prev skip pos a b id; cbn [rscan]; [intros []|].
  destruct skip as [|k].
  - destruct (match_at title prev (x :: s')) as [n|] eqn:Em.
    + apply match_at_range in Em. cbn [length] in Em.
      intros [Hhd|Hin].
      * injection Hhd as <- <- <-. cbn [length].
        replace (pos + n - pos) with n by lia. rewrite Nat.sub_diag. cbn [skipn].
        repeat split; try lia.
      * apply IH in Hin. destruct Hin as (H1 & H2 & H3 & H4). cbn [length].
        replace (a - pos) with (S (a - S pos)) by lia. cbn [skipn]. repeat split; try lia. exact H4.
    + intro Hin. apply IH in Hin. destruct Hin as (H1 & H2 & H3 & H4). cbn [length].
      replace (a - pos) with (S (a - S pos)) by lia. cbn [skipn]. repeat split; try lia. exact H4.
  - intro Hin. apply IH in Hin. destruct Hin as (H1 & H2 & H3 & H4). cbn [length].
    replace (a - pos) with (S (a - S pos)) by lia. cbn [skipn]. repeat split; try lia. exact H4.
Qed.

Lemma rscan_spans_ok title : forall s prev skip pos, spans_ok (pos + skip) (rscan title prev skip pos s).
Proof.
  induction s as [|x s' IH]; intros prev skip pos; cbn [rscan]; [exact I|].
  destruct skip as [|k].
  - destruct (match_at title prev (x :: s')) as [n|] eqn:Em.
    + apply match_at_range in Em. cbn [spans_ok]. split; [lia|]. split; [lia|].
      replace (pos + n) with (S pos + (n - 1)) by lia. apply IH.
    + apply spans_ok_weaken with (p := S pos + 0); [lia|apply IH].
  - replace (pos + S k) with (S pos + k) by lia. apply IH.
Qed.

Theorem regex_find_iter_sound title c a b id :
  In (a, b, id) (regex_find_iter title c) -> is_slice c a b id.
Proof.
  unfold regex_find_iter. intro H. apply rscan_sound in H. destruct H as (_ & H2 & H3 & H4).
  rewrite Nat.sub_0_r in H4. unfold is_slice. repeat split; [lia|lia|exact H4].
Qed.

Theorem regex_find_iter_spans_ok title c : spans_ok 0 (regex_find_iter title c).
Proof. unfold regex_find_iter. apply (rscan_spans_ok title c None 0 0). Qed.

(* ------------------------------------------------------------------ split('.') *)
Lemma split_on_nonnil sep s : split_on sep s <> [].
Proof.
  destruct s as [|c s]; cbn [split_on]; [discriminate|].
  destruct (N.eqb c sep); [discriminate|]. destruct (split_on sep s); discriminate.
Qed.

Lemma join_split_on sep s : join [sep] (split_on sep s) = s.
Proof.
  induction s as [|c s IH]; cbn [split_on]; [reflexivity|].
  destruct (N.eqb c sep) eqn:E.
  - apply N.eqb_eq in E. subst c.
    destruct (split_on sep s) as [|w ws] eqn:Es; [exfalso; exact (split_on_nonnil _ _ Es)|].
    change (join [sep] ([] :: w :: ws)) with ([] ++ [sep] ++ join [sep] (w :: ws)).
    rewrite IH. reflexivity.
  - destruct (split_on sep s) as [|w ws] eqn:Es; [exfalso; exact (split_on_nonnil _ _ Es)|].
    rewrite <- IH. destruct ws as [|w2 ws]; reflexivity.
Qed.

Lemma skipn_app_exact {A} (l r : list A) n : skipn (length l + n) (l ++ r) = skipn n r.
Proof. induction l as [|x l IH]; [reflexivity | exact IH]. Qed.

Lemma firstn_app_exact {A} (l r : list A) : firstn (length l) (l ++ r) = l.
Proof. induction l as [|x l IH]; [reflexivity | cbn; f_equal; exact IH]. Qed.

Lemma join_cons_length sep (p : bytes) ps : ps <> [] ->
  join [sep] (p :: ps) = p ++ sep :: join [sep] ps.
Proof. destruct ps; [congruence|reflexivity]. Qed.

Lemma place_parts_sound : forall parts pos a b p,
  In (a, b, p) (place_parts pos parts) ->
  pos <= a /\ a < b /\ b <= pos + length (join [46%N] parts) /\
  p = firstn (b - a) (skipn (a - pos) (join [46%N] parts)).
Proof.
  induction parts as [|q ps IH]; intros pos a b p; cbn [place_parts]; [intros []|].
  intro Hin. apply in_app_or in Hin. destruct Hin as [Hhd|Htl].
  - destruct q as [|q0 q']; [destruct Hhd|].
    remember (q0 :: q') as q eqn:Eq.
    assert (Hq : 0 < length q) by (rewrite Eq; cbn [length]; lia).
    destruct Hhd as [Hhd|[]].
    injection Hhd as <- <- <-.
    replace (pos + length q - pos) with (length q) by lia.
    rewrite Nat.sub_diag. cbn [skipn].
    destruct ps as [|p2 ps].
    + cbn [join]. rewrite firstn_all. repeat split; lia.
    + rewrite join_cons_length by discriminate. rewrite firstn_app_exact, app_length.
      cbn [length]. repeat split; lia.
  - destruct ps as [|p2 ps]; [destruct Htl|].
    apply IH in Htl. destruct Htl as (H1 & H2 & H3 & H4).
    rewrite join_cons_length by discriminate. rewrite app_length. cbn [length].
    replace (a - pos) with (length q + S (a - (pos + length q + 1))) by lia.
    rewrite skipn_app_exact. cbn [skipn]. repeat split; try lia. exact H4.
Qed.

Lemma spans_ok_app : forall l1 l2 lo mid,
  lo <= mid -> spans_ok lo l1 -> (forall a b v, In (a, b, v) l1 -> b <= mid) -> spans_ok mid l2 ->
  spans_ok lo (l1 ++ l2).
Proof.
  induction l1 as [|[[a b] v] l1 IH]; intros l2 lo mid Hlo H1 Hb H2; cbn [app].
  - apply spans_ok_weaken with (p := mid); assumption.
  - cbn [spans_ok] in *. destruct H1 as (Ha & Hab & H1). split; [exact Ha|]. split; [exact Hab|].
    apply IH with (mid := mid).
    + apply (Hb a b v). left. reflexivity.
    + exact H1.
    + intros a' b' v' Hin. apply (Hb a' b' v'). right. exact Hin.
    + exact H2.
Qed.

Lemma place_parts_spans_ok : forall parts pos, spans_ok pos (place_parts pos parts).
Proof.
  induction parts as [|q ps IH]; intros pos; cbn [place_parts]; [exact I|].
  destruct q as [|q0 q']; cbn [app].
  - apply spans_ok_weaken with (p := pos + length (@nil N) + 1); [lia|apply IH].
  - cbn [spans_ok]. split; [lia|]. split; [cbn [length]; lia|].
    apply spans_ok_weaken with (p := pos + length (q0 :: q') + 1); [lia|apply IH].
Qed.

(* a slice of a slice *)
Lemma slice_slice (c : bytes) a b s e : a <= s -> s <= e -> e <= b ->
  firstn (e - s) (skipn (s - a) (firstn (b - a) (skipn a c))) = firstn (e - s) (skipn s c).
Proof.
  intros H1 H2 H3.
  rewrite skipn_firstn_comm, firstn_firstn, skipn_skipn.
  replace (s - a + a) with s by lia. f_equal. lia.
Qed.

(* ------------------------------------------------------------------ find_all *)
Definition expand (split : bool) (t : nat * nat * bytes) : list (nat * nat * bytes) :=
  let '(a, b, id) := t in
  if contains 46 id && split then place_parts a (split_on 46 id) else [(a, b, id)].

Lemma find_all_with_eq title split c :
  find_all_with title split c = flat_map (expand split) (regex_find_iter title c).
Proof. reflexivity. Qed.

Lemma expand_sound split c a b id s e p :
  is_slice c a b id -> In (s, e, p) (expand split (a, b, id)) ->
  is_slice c s e p /\ a <= s /\ e <= b.
Proof.
  intros (Hab & Hb & Hid) Hin. unfold expand in Hin.
  assert (Hlen : length id = b - a).
  { rewrite Hid, firstn_length, skipn_length. lia. }
  destruct (contains 46 id && split).
  - apply place_parts_sound in Hin. rewrite join_split_on in Hin.
    destruct Hin as (H1 & H2 & H3 & H4). unfold is_slice.
    repeat split; try lia. rewrite H4, Hid. apply slice_slice; lia.
  - destruct Hin as [Hin|[]]. injection Hin as <- <- <-. unfold is_slice. repeat split; try lia. exact Hid.
Qed.

Lemma expand_spans_ok split a b id : a < b -> spans_ok a (expand split (a, b, id)).
Proof.
  intro Hab. unfold expand. destruct (contains 46 id && split).
  - apply place_parts_spans_ok.
  - cbn [spans_ok]. repeat split; lia.
Qed.

Lemma flat_map_expand_spans_ok split c : forall l lo,
  spans_ok lo l -> (forall a b id, In (a, b, id) l -> is_slice c a b id) ->
  spans_ok lo (flat_map (expand split) l).
Proof.
  induction l as [|[[a b] id] l IH]; intros lo Hl Hs; cbn [flat_map]; [exact I|].
  cbn [spans_ok] in Hl. destruct Hl as (Ha & Hab & Hl).
  apply spans_ok_app with (mid := b).
  - lia.
  - apply spans_ok_weaken with (p := a); [exact Ha|]. apply expand_spans_ok. exact Hab.
  - intros s e p Hin.
    destruct (expand_sound split c a b id s e p (Hs a b id (or_introl eq_refl)) Hin) as (_ & _ & He).
    exact He.
  - apply IH; [exact Hl|]. intros a' b' id' Hin. apply Hs. right. exact Hin.
Qed.

Theorem find_all_with_sound title split c s e id :
  In (s, e, id) (find_all_with title split c) -> is_slice c s e id.
Proof.
  rewrite find_all_with_eq. intro H. apply in_flat_map in H as ([[a b] id0] & Hin & Hex).
  apply regex_find_iter_sound in Hin.
  destruct (expand_sound split c a b id0 s e id Hin Hex) as (H & _). exact H.
Qed.

Theorem find_all_with_spans_ok title split c : spans_ok 0 (find_all_with title split c).
Proof.
  rewrite find_all_with_eq. apply flat_map_expand_spans_ok with (c := c).
  - apply regex_find_iter_spans_ok.
  - intros a b id. apply regex_find_iter_sound.
Qed.

(* C1: every identifier is a non-empty slice of the content at its recorded offsets, and the list
   is strictly increasing and pairwise disjoint (spans_ok: each start is at or after the previous
   end, and start < end) *)
Theorem identifiers_sound : forall styles c,
  (forall s e id, In (s, e, id) (find_all styles c) ->
     s < e /\ e <= length c /\ id = firstn (e - s) (skipn s c)) /\
  spans_ok 0 (find_all styles c).
Proof.
  intros styles c. split.
  - intros s e id H. exact (find_all_with_sound _ _ c s e id H).
  - apply find_all_with_spans_ok.
Qed.

(* the same, spelled out without spans_ok: for two entries, the earlier one ends before the later
   one starts *)
Lemma spans_ok_lower : forall l lo a b v, spans_ok lo l -> In (a, b, v) l -> lo <= a /\ a < b.
Proof.
  induction l as [|[[a0 b0] v0] l IH]; intros lo a b v H Hin; [destruct Hin|].
  cbn [spans_ok] in H. destruct H as (H1 & H2 & H3). destruct Hin as [Hin|Hin].
  - injection Hin as <- <- <-. lia.
  - destruct (IH b0 a b v H3 Hin). lia.
Qed.

Corollary identifiers_pairwise_disjoint : forall styles c l1 a1 b1 v1 l2 a2 b2 v2 l3,
  find_all styles c = l1 ++ (a1, b1, v1) :: l2 ++ (a2, b2, v2) :: l3 ->
  a1 < b1 /\ b1 <= a2 /\ a2 < b2.
Proof.
  intros styles c l1 a1 b1 v1 l2 a2 b2 v2 l3 E.
  pose proof (proj2 (identifiers_sound styles c)) as H. rewrite E in H. clear E.
  revert H. generalize 0. induction l1 as [|[[a b] v] l1 IH]; intros lo H; cbn [app] in H.
  - cbn [spans_ok] in H. destruct H as (_ & Hab & H).
    assert (Hin : In (a2, b2, v2) (l2 ++ (a2, b2, v2) :: l3)).
    { apply in_or_app. right. left. reflexivity. }
    destruct (spans_ok_lower _ b1 a2 b2 v2 H Hin). lia.
  - cbn [spans_ok] in H. destruct H as (_ & _ & H). exact (IH _ H).
Qed.

(* ------------------------------------------------------------------ line offsets *)
Fixpoint incr_from (lo : nat) (l : list nat) : Prop :=
  match l with
  | [] => True
  | x :: l' => lo <= x /\ incr_from (S x) l'
  end.

Lemma incr_from_weaken l : forall p q, q <= p -> incr_from p l -> incr_from q l.
Proof. destruct l as [|x l]; intros p q Hq H; [exact I|]. cbn [incr_from] in *. destruct H. split; [lia|assumption]. Qed.

Lemma line_offsets_from_incr : forall c pos b,
  incr_from pos (line_offsets_from pos b c) /\
  Forall (fun x => x < pos + length c) (line_offsets_from pos b c).
Proof.
  induction c as [|x c IH]; intros pos b; cbn [line_offsets_from]; [split; [exact I|constructor]|].
  destruct (IH (S pos) (N.eqb x 10)) as (H1 & H2).
  assert (H2' : Forall (fun y => y < pos + length (x :: c)) (line_offsets_from (S pos) (N.eqb x 10) c)).
  { eapply Forall_impl; [|exact H2]. cbn [length]. intros y Hy. cbn beta in Hy. lia. }
  destruct b; cbn [app].
  - split.
    + cbn [incr_from]. split; [lia|exact H1].
    + constructor; [cbn [length]; lia|exact H2'].
  - split; [apply incr_from_weaken with (p := S pos); [lia|exact H1] | exact H2'].
Qed.

Lemma incr_from_nth : forall l lo i x, incr_from lo l -> nth_error l i = Some x -> lo <= x.
Proof.
  induction l as [|y l IH]; intros lo i x H Hn; [destruct i; discriminate|].
  cbn [incr_from] in H. destruct H as (H1 & H2). destruct i as [|i].
  - injection Hn as <-. exact H1.
  - cbn [nth_error] in Hn. apply (IH _ _ _ H2) in Hn. lia.
Qed.

Lemma incr_from_nth_S : forall l lo i x y, incr_from lo l ->
  nth_error l i = Some x -> nth_error l (S i) = Some y -> x < y.
Proof.
  induction l as [|z l IH]; intros lo i x y H Hx Hy; [destruct i; discriminate|].
  cbn [incr_from] in H. destruct H as (H1 & H2). destruct i as [|i].
  - injection Hx as <-. change (nth_error l 0 = Some y) in Hy.
    apply (incr_from_nth _ _ _ _ H2) in Hy. lia.
  - cbn [nth_error] in Hx, Hy. exact (IH _ _ _ _ H2 Hx Hy).
Qed.

(* the line slice used by scoped_identifiers is a genuine slice start..stop of the content *)
Lemma line_bounds c idx start :
  nth_error (line_offsets c) idx = Some start ->
  let stop := match nth_error (line_offsets c) (S idx) with Some e => e | None => length c end in
  start < stop /\ stop <= length c.
Proof.
  intro Hs. unfold line_offsets in *.
  destruct (line_offsets_from_incr c 0 true) as (Hi & Hf).
  assert (Hlt : forall i x, nth_error (line_offsets_from 0 true c) i = Some x -> x < length c).
  { intros i x Hx. apply nth_error_In in Hx. rewrite Forall_forall in Hf. apply Hf in Hx. lia. }
  cbn zeta. destruct (nth_error (line_offsets_from 0 true c) (S idx)) as [e|] eqn:Ee.
  - split; [exact (incr_from_nth_S _ _ _ _ _ Hi Hs Ee)|]. apply Hlt in Ee. lia.
  - apply Hlt in Hs. lia.
Qed.

(* ------------------------------------------------------------------ scoped identifiers *)
Theorem scoped_identifiers_sound styles c lines s e id :
  In (s, e, id) (scoped_identifiers styles c lines) ->
  is_slice c s e id /\
  exists start stop a b,
    start <= stop /\ stop <= length c /\ s = start + a /\ e = start + b /\
    In (a, b, id) (find_all styles (firstn (stop - start) (skipn start c))).
Proof.
  unfold scoped_identifiers. intro H. apply in_flat_map in H as (line_idx & _ & H).
  destruct (nth_error (line_offsets c) (line_idx - 1)) as [start|] eqn:Es; [|destruct H].
  pose proof (line_bounds c _ _ Es) as Hb. cbn zeta in Hb.
  set (stop := match nth_error (line_offsets c) (S (line_idx - 1)) with Some e0 => e0 | None => length c end) in *.
  destruct Hb as (Hb1 & Hb2).
  apply in_map_iff in H as ([[a b] id0] & Heq & Hin). injection Heq as <- <- <-.
  pose proof (find_all_with_sound _ _ _ a b id0 Hin) as (Hab & Hlen & Hid).
  rewrite firstn_length, skipn_length in Hlen.
  split.
  - unfold is_slice. split; [lia|]. split; [lia|].
    rewrite Hid.
    replace a with (start + a - start) at 2 by lia.
    replace (b - a) with (start + b - (start + a)) by lia.
    apply slice_slice; lia.
  - exists start, stop, a, b. repeat split; try lia. exact Hin.
Qed.

(* identifiers_for: every identifier handed to the compound pass is a slice of the content, and
   comes from the extractor run on the content or on a line slice of it *)
Definition from_extractor (styles : list style) (c : bytes) (s e : nat) (id : bytes) : Prop :=
  exists start stop a b,
    start <= stop /\ stop <= length c /\ s = start + a /\ e = start + b /\
    In (a, b, id) (find_all styles (firstn (stop - start) (skipn start c))).

Theorem identifiers_for_sound styles c exact extra s e id :
  In (s, e, id) (identifiers_for styles c exact extra) ->
  is_slice c s e id /\ from_extractor styles c s e id.
Proof.
  assert (Hwhole : In (s, e, id) (find_all styles c) ->
                   is_slice c s e id /\ from_extractor styles c s e id).
  { intro H. split; [exact (find_all_with_sound _ _ c s e id H)|].
    exists 0, (length c), s, e. rewrite Nat.sub_0_r. cbn [skipn]. rewrite firstn_all.
    repeat split; try lia. exact H. }
  unfold identifiers_for. destruct exact as [|m ms]; [exact Hwhole|].
  destruct (candidate_lines (m :: ms) extra) as [|l ls]; [exact Hwhole|].
  apply scoped_identifiers_sound.
Qed.

(* ------------------------------------------------------------------ fuel and examples *)
(* the fuel of title_ends is never used up: any two amounts >= length s give the same list *)
Lemma title_ends_fuel : forall f1 f2 off s, length s <= f1 -> length s <= f2 ->
  title_ends f1 off s = title_ends f2 off s.
Proof.
  induction f1 as [|f1 IH]; intros f2 off s H1 H2.
  - destruct s; [|cbn [length] in H1; lia]. destruct f2; reflexivity.
  - destruct f2 as [|f2].
    + destruct s; [reflexivity|cbn [length] in H2; lia].
    + cbn [title_ends]. pose proof (run_le is_space s) as Hk.
      destruct (run is_space s) as [|k0]; [reflexivity|].
      destruct (title_word (skipn (S k0) s)) as [w|] eqn:Ew; [|reflexivity].
      apply title_word_range in Ew. rewrite skipn_length in Ew.
      f_equal. apply IH; rewrite skipn_length; lia.
Qed.

From Coq Require Import String.
From RN Require Import Base.Str.
Open Scope string_scope.

(* IDENT gives back a trailing '-' so that `\b` holds *)
Example ex_trailing_dash : find_all [Snake] (bs "foo- x") = [(0, 3, bs "foo"); (5, 6, bs "x")].
Proof. vm_compute. reflexivity. Qed.
(* TITLE gives back its last word when a digit follows it; IDENT then takes that word *)
Example ex_title_backtrack :
  find_all [Title] (bs "Hello World2") = [(0, 5, bs "Hello"); (6, 12, bs "World2")].
Proof. vm_compute. reflexivity. Qed.
(* with Title in the style list a Train-case identifier is cut at its hyphens, and a Title run
   crosses a line break (`\s` matches '\n') *)
Example ex_title_cuts_train :
  find_all [Title] (bs "Old-Name_x") = [(0, 3, bs "Old"); (4, 10, bs "Name_x")].
Proof. vm_compute. reflexivity. Qed.
Example ex_title_spans_lines :
  find_all [Title] [79; 108; 100; 10; 78; 97; 109; 101]%N =
  [(0, 8, [79; 108; 100; 10; 78; 97; 109; 101]%N)].
Proof. vm_compute. reflexivity. Qed.
(* dot splitting: empty parts are dropped, positions keep counting the dots *)
Example ex_dots : find_all [Snake] (bs "a.b..c. d") =
  [(0, 1, bs "a"); (2, 3, bs "b"); (5, 6, bs "c"); (8, 9, bs "d")].
Proof. vm_compute. reflexivity. Qed.
Example ex_dots_kept : find_all [Dot] (bs "a.b..c. d") = [(0, 6, bs "a.b..c"); (8, 9, bs "d")].
Proof. vm_compute. reflexivity. Qed.
Close Scope string_scope.

Print Assumptions identifiers_sound.
Print Assumptions identifiers_pairwise_disjoint.
Print Assumptions scoped_identifiers_sound.
Print Assumptions identifiers_for_sound.
