(* Proofs/EnhancedP2.v — find_enhanced_matches of Model/Enhanced.v (compound_scanner.rs lines
   114-380): the sort by (line, column) is a sort by start offset, the overlap-resolution loop
   keeps a sorted, pairwise disjoint list (C3), every final match lies inside the content with
   the right line / column (C4), and every final match is an exact match or a compound match on
   an extractor identifier (C2, composed with compound_soundness).  Stdlib + lia only.

   The one input family that needs a side condition is the "degenerate" one found while
   modelling: an EMPTY content with a variant table without a non-empty key gives one empty
   match 0..0 (build_pattern compiles `$^`).  It is stated explicitly wherever it matters. *)
From RN Require Import Base.Bytes Model.StyleDef Model.CaseModel Model.Matcher Model.Compound Model.Enhanced.
From RN Require Import Gen.GenAcronyms Gen.GenStyles.
From RN Require Import Proofs.EditsP Proofs.HunksP Proofs.CompoundP1 Proofs.CompoundP Proofs.EnhancedP1.
Open Scope nat_scope.

(* ================================================================== positions and keys *)
Lemma line_of_mono c a b : a <= b -> line_of c a <= line_of c b.
Proof.
  intro H. unfold line_of. rewrite (firstn_split_at c a b H), count_byte_app. lia.
Qed.

(* (line, column) is a strictly increasing function of the offset *)
Lemma pos_key_mono c a b : a < b -> b <= length c ->
  line_of c a < line_of c b \/ (line_of c a = line_of c b /\ col_of c a < col_of c b).
Proof.
  intros Hab Hb. pose proof (line_of_mono c a b ltac:(lia)) as Hm.
  destruct (Nat.eq_dec (line_of c a) (line_of c b)) as [E|E]; [right|left; lia].
  split; [exact E|]. unfold col_of.
  rewrite <- (same_line_start c a b ltac:(lia) Hb E).
  pose proof (line_start_le c a). lia.
Qed.

Definition good (c : bytes) (m : ematch) : Prop :=
  e_start m < e_end m /\ e_end m <= length c /\
  e_line m = line_of c (e_start m) /\ e_col m = col_of c (e_start m).

Lemma key_le_spec a b : key_le a b = true <->
  (e_line a < e_line b \/ (e_line a = e_line b /\ e_col a <= e_col b)).
Proof.
  unfold key_le. rewrite orb_true_iff, andb_true_iff, Nat.ltb_lt, Nat.eqb_eq, Nat.leb_le. reflexivity.
Qed.

Lemma key_le_total a b : key_le a b = false -> key_le b a = true.
Proof.
  intro H. apply key_le_spec. destruct (key_le b a) eqn:E; [apply key_le_spec in E; exact E|].
  exfalso. assert (Hn : ~ (e_line a < e_line b \/ (e_line a = e_line b /\ e_col a <= e_col b))).
  { intro K. apply key_le_spec in K. congruence. }
  assert (Hm : ~ (e_line b < e_line a \/ (e_line b = e_line a /\ e_col b <= e_col a))).
  { intro K. apply key_le_spec in K. congruence. }
  clear - Hn Hm. lia.
Qed.

Lemma key_le_trans a b d : key_le a b = true -> key_le b d = true -> key_le a d = true.
Proof. rewrite !key_le_spec. lia. Qed.

Lemma key_le_start c x y : good c x -> good c y -> key_le x y = true -> e_start x <= e_start y.
Proof.
  intros (Hx1 & Hx2 & Hx3 & Hx4) (Hy1 & Hy2 & Hy3 & Hy4) H. apply key_le_spec in H.
  destruct (Nat.le_gt_cases (e_start x) (e_start y)) as [L|L]; [exact L|exfalso].
  pose proof (pos_key_mono c (e_start y) (e_start x) L ltac:(lia)) as K.
  rewrite <- Hx3, <- Hx4, <- Hy3, <- Hy4 in K. clear - H K. lia.
Qed.

(* ================================================================== the stable sort *)
Fixpoint ksorted (l : list ematch) : Prop :=
  match l with
  | [] => True
  | x :: l' => (forall y, In y l' -> key_le x y = true) /\ ksorted l'
  end.

Lemma ins_key_In m : forall l y, In y (ins_key m l) <-> y = m \/ In y l.
Proof.
  induction l as [|x l IH]; intros y; cbn [ins_key].
  - cbn [In]. intuition.
  - destruct (key_le m x).
    + cbn [In]. intuition.
    + cbn [In]. rewrite IH. intuition.
Qed.

Lemma sort_key_In l : forall y, In y (sort_key l) <-> In y l.
Proof.
  induction l as [|x l IH]; intros y; cbn [sort_key fold_right]; [reflexivity|].
  fold (sort_key l). rewrite ins_key_In, IH. cbn [In]. intuition.
Qed.

Lemma ins_key_ksorted m : forall l, ksorted l -> ksorted (ins_key m l).
Proof.
  induction l as [|x l IH]; intros H; cbn [ins_key].
  - cbn [ksorted]. split; [intros y []|exact I].
  - cbn [ksorted] in H. destruct H as (Hx & Hl). destruct (key_le m x) eqn:E.
    + cbn [ksorted]. split; [|split; assumption].
      intros y [<-|Hy]; [exact E|]. apply key_le_trans with (b := x); [exact E|apply Hx, Hy].
    + cbn [ksorted]. split; [|apply IH, Hl].
      intros y Hy. apply ins_key_In in Hy. destruct Hy as [-> |Hy]; [apply key_le_total, E|apply Hx, Hy].
Qed.

Lemma sort_key_ksorted l : ksorted (sort_key l).
Proof.
  induction l as [|x l IH]; cbn [sort_key fold_right]; [exact I|]. apply ins_key_ksorted, IH.
Qed.

(* nondecreasing starts, all at or after lo *)
Fixpoint sorted_from (lo : nat) (l : list ematch) : Prop :=
  match l with
  | [] => True
  | m :: l' => lo <= e_start m /\ sorted_from (e_start m) l'
  end.

Lemma ksorted_sorted_from c : forall l lo,
  (forall m, In m l -> good c m) -> ksorted l -> (forall m, In m l -> lo <= e_start m) ->
  sorted_from lo l.
Proof.
  induction l as [|x l IH]; intros lo Hg Hs Hlo; [exact I|].
  cbn [ksorted] in Hs. destruct Hs as (Hx & Hl). cbn [sorted_from]. split.
  - apply Hlo. left. reflexivity.
  - apply IH.
    + intros m Hm. apply Hg. right. exact Hm.
    + exact Hl.
    + intros m Hm. apply (key_le_start c).
      * apply Hg. left. reflexivity.
      * apply Hg. right. exact Hm.
      * apply Hx, Hm.
Qed.

(* ================================================================== the resolution loop *)
(* sorted by start, non-empty, each ends before the next starts *)
Fixpoint schain (lo : nat) (l : list ematch) : Prop :=
  match l with
  | [] => True
  | m :: l' => lo <= e_start m /\ e_start m < e_end m /\ schain (e_end m) l'
  end.

Lemma schain_snoc cand : forall l lo,
  schain lo l -> lo <= e_start cand -> e_start cand < e_end cand ->
  (forall s, In s l -> e_end s <= e_start cand) -> schain lo (l ++ [cand]).
Proof.
  induction l as [|m l IH]; intros lo H Hlo Hc Hall; cbn [app schain].
  - repeat split; assumption.
  - cbn [schain] in H. destruct H as (H1 & H2 & H3). split; [exact H1|]. split; [exact H2|].
    apply IH; [exact H3| |exact Hc|].
    + apply Hall. left. reflexivity.
    + intros s Hs. apply Hall. right. exact Hs.
Qed.

Lemma no_overlap_end cand s : overlaps cand s = false -> e_start s <= e_start cand ->
  e_start cand < e_end cand -> e_end s <= e_start cand.
Proof.
  unfold overlaps. intros H Hs Hc. apply andb_false_iff in H.
  destruct H as [H|H]; apply Nat.ltb_ge in H; lia.
Qed.

Section Resolve.
Variable pr : list (nat * nat).

(* only the LAST selected match can overlap the next candidate; replacing it keeps the order *)
Lemma resolve_first_schain cand : forall final lo,
  schain lo final -> (forall s, In s final -> e_start s <= e_start cand) ->
  e_start cand < e_end cand -> schain lo (resolve_first pr cand final).
Proof.
  induction final as [|sel rest IH]; intros lo H Hall Hc; cbn [resolve_first]; [exact I|].
  cbn [schain] in H. destruct H as (H1 & H2 & H3).
  destruct (overlaps cand sel) eqn:Eo.
  - destruct (should_replace pr cand sel); [|cbn [schain]; repeat split; assumption].
    cbn [schain]. pose proof (Hall sel (or_introl eq_refl)) as Hs.
    split; [lia|]. split; [exact Hc|].
    destruct rest as [|s2 r2]; [exact I|exfalso].
    cbn [schain] in H3. destruct H3 as (H4 & _).
    pose proof (Hall s2 (or_intror (or_introl eq_refl))) as Hs2.
    unfold overlaps in Eo. apply andb_true_iff in Eo as [Eo _]. apply Nat.ltb_lt in Eo. lia.
  - cbn [schain]. split; [exact H1|]. split; [exact H2|].
    apply IH; [exact H3| |exact Hc]. intros s Hs. apply Hall. right. exact Hs.
Qed.

Lemma resolve_first_In cand : forall final x,
  In x (resolve_first pr cand final) -> In x final \/ x = cand.
Proof.
  induction final as [|sel rest IH]; intros x; cbn [resolve_first]; [intros []|].
  destruct (overlaps cand sel).
  - destruct (should_replace pr cand sel); cbn [In]; intuition.
  - cbn [In]. intros [<-|H]; [auto|]. apply IH in H. intuition.
Qed.

Lemma resolve_step_In final cand x :
  In x (resolve_step pr final cand) -> In x final \/ x = cand.
Proof.
  unfold resolve_step. destruct (existsb (overlaps cand) final).
  - apply resolve_first_In.
  - intro H. apply in_app_or in H. cbn [In] in H. intuition.
Qed.

Lemma resolve_step_schain final cand :
  schain 0 final -> (forall s, In s final -> e_start s <= e_start cand) ->
  e_start cand < e_end cand -> schain 0 (resolve_step pr final cand).
Proof.
  intros H Hall Hc. unfold resolve_step. destruct (existsb (overlaps cand) final) eqn:Ee.
  - apply resolve_first_schain; assumption.
  - apply schain_snoc; [exact H|lia|exact Hc|].
    intros s Hs. apply no_overlap_end; [|apply Hall, Hs|exact Hc].
    destruct (overlaps cand s) eqn:Eo; [|reflexivity].
    assert (existsb (overlaps cand) final = true) by (apply existsb_exists; exists s; auto).
    congruence.
Qed.

Lemma resolve_fold_schain : forall rest final lo,
  schain 0 final -> (forall s, In s final -> e_start s <= lo) -> sorted_from lo rest ->
  (forall m, In m rest -> e_start m < e_end m) ->
  schain 0 (fold_left (resolve_step pr) rest final).
Proof.
  induction rest as [|cand rest IH]; intros final lo H Hall Hs Hne; cbn [fold_left]; [exact H|].
  cbn [sorted_from] in Hs. destruct Hs as (Hlo & Hs).
  apply IH with (lo := e_start cand).
  - apply resolve_step_schain; [exact H| |apply Hne; left; reflexivity].
    intros s Hin. apply Hall in Hin. lia.
  - intros s Hin. apply resolve_step_In in Hin. destruct Hin as [Hin| ->]; [|lia].
    apply Hall in Hin. lia.
  - exact Hs.
  - intros m Hm. apply Hne. right. exact Hm.
Qed.

Lemma resolve_fold_In : forall rest final x,
  In x (fold_left (resolve_step pr) rest final) -> In x final \/ In x rest.
Proof.
  induction rest as [|cand rest IH]; intros final x; cbn [fold_left]; [auto|].
  intro H. apply IH in H. destruct H as [H|H]; [|right; right; exact H].
  apply resolve_step_In in H. destruct H as [H| ->]; [left; exact H|right; left; reflexivity].
Qed.

Lemma resolve_In all x : In x (resolve pr all) -> In x all.
Proof. unfold resolve. intro H. apply resolve_fold_In in H. destruct H as [[]|H]. exact H. Qed.

(* the loop on any list of candidates that is sorted by start and has no empty span *)
Theorem resolve_schain all :
  sorted_from 0 all -> (forall m, In m all -> e_start m < e_end m) -> schain 0 (resolve pr all).
Proof.
  intros Hs Hne. unfold resolve. apply resolve_fold_schain with (lo := 0); auto.
  - exact I.
  - intros s [].
Qed.
End Resolve.

(* ================================================================== the candidates *)
Definition degenerate (keys : list bytes) (c : bytes) : bool :=
  forallb (fun k => Nat.eqb (length k) 0) keys && Nat.eqb (length c) 0.

Definition empty_match : ematch := mk_ematch 1 0 0 0 [] [].

(* (a) exact match: reported by Matcher.find_matches on the keys, boundary test passed *)
Definition exact_kind (keys : list bytes) (c : bytes) (m : ematch) : Prop :=
  In {| m_line := e_line m; m_col := e_col m; m_start := e_start m; m_end := e_end m;
        m_text := e_text m |} (find_matches keys c) /\
  In (e_start m, e_end m, e_text m) (find_iter keys c) /\
  is_boundary c (e_start m) (e_end m) = true /\
  e_variant m = e_text m.

(* (b) compound match: the span is an identifier returned by the extractor on the content or on a
   line slice of it, and find_compound_variants on that identifier is not empty; the match carries
   the first result *)
Definition compound_kind (styles : list style) (c search replace : bytes) (m : ematch) : Prop :=
  exists id cm rest,
    is_slice c (e_start m) (e_end m) id /\
    from_extractor styles c (e_start m) (e_end m) id /\
    find_compound_variants id search replace styles = cm :: rest /\
    find_compound_variants id search replace styles <> [] /\
    e_variant m = cm_full cm /\ e_text m = cm_repl cm /\
    e_line m = line_of c (e_start m) /\ e_col m = col_of c (e_start m).

Lemma exact_pass_nondeg keys c : degenerate keys c = false -> exact_pass keys c = find_matches keys c.
Proof. unfold degenerate, exact_pass. intros ->. reflexivity. Qed.

Lemma exact_pass_deg keys c : degenerate keys c = true ->
  exact_pass keys c = [{| m_line := 1; m_col := 0; m_start := 0; m_end := 0; m_text := [] |}].
Proof. unfold degenerate, exact_pass. intros ->. reflexivity. Qed.

Lemma exact_matches_kind keys search styles c m :
  degenerate keys c = false -> In m (exact_matches keys search styles c) ->
  exact_kind keys c m /\ good c m.
Proof.
  intros Hd H. unfold exact_matches in H. destruct (skip_exact_match search styles); [destruct H|].
  rewrite (exact_pass_nondeg _ _ Hd) in H. apply in_map_iff in H as (mm & <- & Hin).
  pose proof (find_matches_sound keys c mm Hin) as (Hit & Hb & Hl & Hc).
  pose proof (find_iter_sound keys c _ _ _ Hit) as (Hlen & Hle & _ & _ & Hne).
  destruct mm as [ml mc ms me mt]. cbn [m_line m_col m_start m_end m_text] in *.
  unfold exact_kind, good, ematch_of_exact.
  cbn [e_line e_col e_start e_end e_variant e_text m_line m_col m_start m_end m_text].
  assert (0 < length mt) by (destruct mt; [congruence|cbn [length]; lia]).
  repeat split; try assumption; lia.
Qed.

Lemma compound_pass_kind c search replace styles pr exact extra m :
  In m (compound_pass c search replace styles pr (identifiers_for styles c exact extra)) ->
  compound_kind styles c search replace m /\ good c m.
Proof.
  unfold compound_pass. intro H. apply in_flat_map in H as ([[s e] id] & Hid & H).
  destruct (should_skip pr s e); [destruct H|].
  destruct (find_compound_variants id search replace styles) as [|cm rest] eqn:Ef; [destruct H|].
  destruct H as [<-|[]].
  apply identifiers_for_sound in Hid. destruct Hid as (Hs & Hx).
  pose proof Hs as (Hs1 & Hs2 & Hs3).
  unfold compound_kind, good. cbn [e_line e_col e_start e_end e_variant e_text]. split.
  - exists id, cm, rest. rewrite Ef. repeat split; try assumption; try reflexivity. discriminate.
  - repeat split; assumption.
Qed.

Lemma all_candidates_kind c search replace keys styles extra m :
  degenerate keys c = false -> In m (all_candidates c search replace keys styles extra) ->
  (exact_kind keys c m \/ compound_kind styles c search replace m) /\ good c m.
Proof.
  intros Hd H. unfold all_candidates in H. apply in_app_or in H. destruct H as [H|H].
  - destruct (exact_matches_kind _ _ _ _ _ Hd H). auto.
  - destruct (compound_pass_kind _ _ _ _ _ _ _ _ H). auto.
Qed.

(* ------------------------------------------------------------------ the degenerate input *)
Lemma scoped_identifiers_nil styles : forall ls, scoped_identifiers styles [] ls = [].
Proof.
  induction ls as [|l ls IH]; [reflexivity|].
  unfold scoped_identifiers in *. cbn [flat_map]. rewrite IH.
  change (line_offsets []) with (@nil nat). destruct (l - 1); reflexivity.
Qed.

Lemma identifiers_for_nil styles exact extra : identifiers_for styles [] exact extra = [].
Proof.
  unfold identifiers_for. destruct exact as [|m ms]; [reflexivity|].
  destruct (candidate_lines (m :: ms) extra); [reflexivity|apply scoped_identifiers_nil].
Qed.

Theorem degenerate_result c search replace keys styles extra :
  degenerate keys c = true ->
  c = [] /\
  find_enhanced_matches c search replace keys styles extra =
    if skip_exact_match search styles then [] else [empty_match].
Proof.
  intro Hd. assert (Hc : c = []).
  { unfold degenerate in Hd. apply andb_true_iff in Hd as [_ Hd]. apply Nat.eqb_eq in Hd.
    destruct c; [reflexivity|discriminate]. }
  split; [exact Hc|]. subst c.
  unfold find_enhanced_matches, all_candidates. rewrite identifiers_for_nil.
  unfold exact_matches. rewrite (exact_pass_deg _ _ Hd).
  destruct (skip_exact_match search styles); reflexivity.
Qed.

(* ================================================================== C3 *)
(* sorted by start and consecutive elements do not overlap; spans may be empty here (only the
   degenerate input produces one) *)
Fixpoint chain (lo : nat) (l : list ematch) : Prop :=
  match l with
  | [] => True
  | m :: l' => lo <= e_start m /\ e_start m <= e_end m /\ chain (e_end m) l'
  end.

Lemma schain_chain : forall l lo, schain lo l -> chain lo l.
Proof.
  induction l as [|m l IH]; intros lo H; [exact I|]. cbn [schain chain] in *.
  destruct H as (H1 & H2 & H3). repeat split; [exact H1|lia|apply IH, H3].
Qed.

Theorem enhanced_sorted_disjoint_strict : forall c search replace keys styles extra,
  degenerate keys c = false ->
  schain 0 (find_enhanced_matches c search replace keys styles extra).
Proof.
  intros c search replace keys styles extra Hd. unfold find_enhanced_matches.
  set (all := all_candidates c search replace keys styles extra).
  assert (Hg : forall m, In m (sort_key all) -> good c m).
  { intros m Hm. apply (proj1 (sort_key_In _ _)) in Hm. exact (proj2 (all_candidates_kind _ _ _ _ _ _ _ Hd Hm)). }
  apply resolve_schain.
  - apply (ksorted_sorted_from c); [exact Hg|apply sort_key_ksorted|intros; lia].
  - intros m Hm. exact (proj1 (Hg m Hm)).
Qed.

(* C3, for every input *)
Theorem enhanced_sorted_disjoint : forall c search replace keys styles extra,
  chain 0 (find_enhanced_matches c search replace keys styles extra).
Proof.
  intros c search replace keys styles extra.
  destruct (degenerate keys c) eqn:Hd.
  - destruct (degenerate_result c search replace keys styles extra Hd) as (_ & ->).
    destruct (skip_exact_match search styles); cbn; auto.
  - apply schain_chain, enhanced_sorted_disjoint_strict, Hd.
Qed.

(* the same, spelled out on consecutive elements and on arbitrary pairs *)
Lemma chain_lower : forall l lo m, chain lo l -> In m l -> lo <= e_start m /\ e_start m <= e_end m.
Proof.
  induction l as [|x l IH]; intros lo m H Hin; [destruct Hin|].
  cbn [chain] in H. destruct H as (H1 & H2 & H3). destruct Hin as [<-|Hin]; [lia|].
  destruct (IH _ _ H3 Hin). lia.
Qed.

Corollary enhanced_pairwise_disjoint : forall c search replace keys styles extra l1 m1 l2 m2 l3,
  find_enhanced_matches c search replace keys styles extra = l1 ++ m1 :: l2 ++ m2 :: l3 ->
  e_start m1 <= e_end m1 /\ e_end m1 <= e_start m2 /\ e_start m2 <= e_end m2.
Proof.
  intros c search replace keys styles extra l1 m1 l2 m2 l3 E.
  pose proof (enhanced_sorted_disjoint c search replace keys styles extra) as H. rewrite E in H.
  clear E. revert H. generalize 0. induction l1 as [|x l1 IH]; intros lo H; cbn [app] in H.
  - cbn [chain] in H. destruct H as (_ & H1 & H).
    assert (Hin : In m2 (l2 ++ m2 :: l3)) by (apply in_or_app; right; left; reflexivity).
    destruct (chain_lower _ _ _ H Hin). lia.
  - cbn [chain] in H. destruct H as (_ & _ & H). exact (IH _ H).
Qed.

Corollary enhanced_consecutive_disjoint : forall c search replace keys styles extra l1 m1 m2 l3,
  find_enhanced_matches c search replace keys styles extra = l1 ++ m1 :: m2 :: l3 ->
  e_start m1 <= e_start m2 /\ e_end m1 <= e_start m2.
Proof.
  intros c search replace keys styles extra l1 m1 m2 l3 E.
  destruct (enhanced_pairwise_disjoint c search replace keys styles extra l1 m1 [] m2 l3 E). lia.
Qed.

(* ================================================================== C2 and C4 *)
Lemma final_in_candidates c search replace keys styles extra m :
  In m (find_enhanced_matches c search replace keys styles extra) ->
  In m (all_candidates c search replace keys styles extra).
Proof.
  unfold find_enhanced_matches. intro H. apply resolve_In in H. apply (proj1 (sort_key_In _ _)) in H. exact H.
Qed.

(* C4 *)
Theorem enhanced_within_content : forall c search replace keys styles extra m,
  degenerate keys c = false ->
  In m (find_enhanced_matches c search replace keys styles extra) ->
  e_start m < e_end m /\ e_end m <= length c /\
  e_line m = line_of c (e_start m) /\ e_col m = col_of c (e_start m).
Proof.
  intros c search replace keys styles extra m Hd H. apply final_in_candidates in H.
  exact (proj2 (all_candidates_kind _ _ _ _ _ _ _ Hd H)).
Qed.

(* C4 for every input: the only exception to start < end is the empty match of the degenerate
   input, and even that one has the right line and column *)
Theorem enhanced_within_content_all : forall c search replace keys styles extra m,
  In m (find_enhanced_matches c search replace keys styles extra) ->
  (e_start m < e_end m \/ (c = [] /\ degenerate keys c = true /\ m = empty_match)) /\
  e_end m <= length c /\
  e_line m = line_of c (e_start m) /\ e_col m = col_of c (e_start m).
Proof.
  intros c search replace keys styles extra m H.
  destruct (degenerate keys c) eqn:Hd.
  - destruct (degenerate_result c search replace keys styles extra Hd) as (Hc & E).
    rewrite E in H. destruct (skip_exact_match search styles); [destruct H|].
    destruct H as [<-|[]]. subst c. cbn. auto.
  - destruct (enhanced_within_content _ _ _ _ _ _ _ Hd H) as (H1 & H2 & H3 & H4). auto.
Qed.

(* C2 *)
Theorem enhanced_candidates_classified : forall c search replace keys styles extra m,
  In m (find_enhanced_matches c search replace keys styles extra) ->
  exact_kind keys c m \/ compound_kind styles c search replace m \/
  (c = [] /\ degenerate keys c = true /\ m = empty_match).
Proof.
  intros c search replace keys styles extra m H.
  destruct (degenerate keys c) eqn:Hd.
  - destruct (degenerate_result c search replace keys styles extra Hd) as (Hc & E).
    rewrite E in H. destruct (skip_exact_match search styles); [destruct H|].
    destruct H as [<-|[]]. auto.
  - apply final_in_candidates in H.
    destruct (proj1 (all_candidates_kind _ _ _ _ _ _ _ Hd H)); auto.
Qed.

(* (b) composed with compound_soundness: the identifier under a compound match contains the
   tokens of the search term as a contiguous, case-insensitive window *)
Corollary enhanced_compound_has_window : forall styles c search replace m,
  compound_kind styles c search replace m ->
  exists id,
    e_start m < e_end m /\ e_end m <= length c /\
    id = firstn (e_end m - e_start m) (skipn (e_start m) c) /\ e_variant m = id /\
    ci_window (tokens gen_acronyms search) (tokens gen_acronyms (snd (extract_prefix id))).
Proof.
  intros styles c search replace m (id & cm & rest & (H1 & H2 & H3) & _ & Hf & Hne & Hv & _).
  exists id. repeat split; try assumption.
  - rewrite Hv. clear - Hf. unfold find_compound_variants, fcv in Hf.
    destruct (extract_prefix id) as [prefix idw].
    repeat match type of Hf with
           | (if ?b then _ else _) = _ => destruct b; try discriminate
           | (let (_, _) := ?p in _) = _ => destruct p
           | match ?o with Some _ => _ | None => _ end = _ => destruct o; try discriminate
           end; injection Hf as <- _; reflexivity.
  - exact (compound_soundness id search replace styles Hne).
Qed.

Corollary enhanced_matches_sound : forall c search replace keys styles extra m,
  In m (find_enhanced_matches c search replace keys styles extra) ->
  exact_kind keys c m \/
  (exists id,
     e_start m < e_end m /\ e_end m <= length c /\
     id = firstn (e_end m - e_start m) (skipn (e_start m) c) /\ e_variant m = id /\
     ci_window (tokens gen_acronyms search) (tokens gen_acronyms (snd (extract_prefix id)))) \/
  (c = [] /\ degenerate keys c = true /\ m = empty_match).
Proof.
  intros c search replace keys styles extra m H.
  destruct (enhanced_candidates_classified _ _ _ _ _ _ _ H) as [Ha|[Hb|Hc]]; auto.
  right. left. exact (enhanced_compound_has_window _ _ _ _ _ Hb).
Qed.

(* the degenerate input is real: an empty file and a table with no non-empty key *)
Theorem enhanced_empty_match_witness :
  find_enhanced_matches [] [45%N] [120%N] [] [Snake; Kebab] None = [empty_match].
Proof. vm_compute. reflexivity. Qed.

(* line scoping: a compound identifier far from every exact match is reported when the file has no
   exact match at all, and silently dropped when an unrelated exact match exists elsewhere (unless
   the caller lists its line in additional_lines).  Keys = the CLI-default table of old_name.
   Replayed on the real code: same two answers. *)
From Coq Require Import String.
From RN Require Import Base.Str.
Definition keys_old_name : list bytes :=
  [bs "OLD NAME"; bs "OLD-NAME"; bs "OLD_NAME"; bs "Old Name"; bs "Old name"; bs "Old-Name";
   bs "OldName"; bs "old name"; bs "old-name"; bs "oldName"; bs "old_name"].
Definition far_compound (first_line : bytes) : bytes :=
  first_line ++ [10; 10; 10]%N ++ bs "get_Old_name_x" ++ [10]%N.

Theorem enhanced_scoping_witness :
  map e_variant (find_enhanced_matches (far_compound (bs "xxx_name")) (bs "old_name") (bs "new_name")
                   keys_old_name Gen.GenStyles.gen_default_styles None) = [bs "get_Old_name_x"] /\
  map e_variant (find_enhanced_matches (far_compound (bs "old_name")) (bs "old_name") (bs "new_name")
                   keys_old_name Gen.GenStyles.gen_default_styles None) = [bs "old_name"] /\
  map e_variant (find_enhanced_matches (far_compound (bs "old_name")) (bs "old_name") (bs "new_name")
                   keys_old_name Gen.GenStyles.gen_default_styles (Some [4])) =
    [bs "old_name"; bs "get_Old_name_x"].
Proof. vm_compute. repeat split; reflexivity. Qed.

(* in-place replacement loses matches: the exact match 0..7 ("foo.foo") is first overwritten by the
   compound 0..11 that contains it, and that compound is then overwritten by the exact match 8..15
   it merely overlaps; nothing in the final list covers 0..7 any more.  Replayed on the real code
   (styles Dot + LowerSentence, term "foo foo"): same answer, one match 8..15. *)
Theorem enhanced_lost_exact_witness :
  let c := bs "foo.foo.foo foo" in
  let keys := [bs "foo foo"; bs "foo.foo"] in
  map (fun m => (e_start m, e_end m)) (exact_matches keys (bs "foo foo") [Dot; LowerSentence] c)
    = [(0, 7); (8, 15)] /\
  map (fun m => (e_start m, e_end m))
      (find_enhanced_matches c (bs "foo foo") (bs "bar baz") keys [Dot; LowerSentence] None)
    = [(8, 15)].
Proof. vm_compute. split; reflexivity. Qed.

Print Assumptions enhanced_sorted_disjoint.
Print Assumptions enhanced_sorted_disjoint_strict.
Print Assumptions enhanced_pairwise_disjoint.
Print Assumptions enhanced_within_content.
Print Assumptions enhanced_within_content_all.
Print Assumptions enhanced_candidates_classified.
Print Assumptions enhanced_compound_has_window.
Print Assumptions enhanced_matches_sound.
Print Assumptions enhanced_empty_match_witness.
Print Assumptions enhanced_scoping_witness.
Print Assumptions enhanced_lost_exact_witness.
