(* Proofs/WalkerP.v — scope facts that hold for every oracle (any gitignore / glob semantics). *)
From Coq Require Import Strings.String.
From RN Require Import Base.Bytes Base.Str Model.Fs Model.WalkerDef Gen.GenWalker Model.Walker.

Lemma excluded_all_levels n :
  (forall level, existsb (beq n) (w_excluded (gen_walker level)) = true) <->
  (existsb (beq n) (w_excluded (gen_walker 0%nat)) = true /\ existsb (beq n) (w_excluded (gen_walker 1%nat)) = true /\
   existsb (beq n) (w_excluded (gen_walker 2%nat)) = true /\ existsb (beq n) (w_excluded (gen_walker 4%nat)) = true).
Proof.
  split.
  - intro H. repeat split; apply H.
  - intros (H0 & H1 & H2 & H4) level.
    destruct level as [|[|[|[|l]]]]; try assumption; exact H4.
Qed.

Lemma git_excluded : forall level, existsb (beq (bs ".git")) (w_excluded (gen_walker level)) = true.
Proof. apply excluded_all_levels. vm_compute. repeat split. Qed.

Lemma renamify_excluded : forall level, existsb (beq (bs ".renamify")) (w_excluded (gen_walker level)) = true.
Proof. apply excluded_all_levels. vm_compute. repeat split. Qed.

Lemma excluded_component_out_of_scope ign glob dirs level inc exc n p :
  existsb (beq n) (w_excluded (gen_walker level)) = true -> has_component n p = true ->
  in_scope ign glob dirs level inc exc p = false.
Proof.
  intros Hn Hp. unfold in_scope.
  assert (E : existsb (fun m => has_component m p) (w_excluded (gen_walker level)) = true).
  { apply existsb_exists in Hn as [m [Hin Hm]]. apply beq_eq in Hm. subst m.
    apply existsb_exists. exists n. split; assumption. }
  rewrite E. reflexivity.
Qed.

(* whatever the ignore files and globs say, at every level *)
Theorem git_never_in_scope : forall ign glob dirs level inc exc p,
  has_component (bs ".git") p = true -> in_scope ign glob dirs level inc exc p = false.
Proof. intros. eapply excluded_component_out_of_scope; [apply git_excluded | assumption]. Qed.

Theorem renamify_never_in_scope : forall ign glob dirs level inc exc p,
  has_component (bs ".renamify") p = true -> in_scope ign glob dirs level inc exc p = false.
Proof. intros. eapply excluded_component_out_of_scope; [apply renamify_excluded | assumption]. Qed.

(* the ignore files consulted per level are the documented ones *)
Theorem level_table_as_documented : forall level k, (level <= 3)%nat ->
  consulted (gen_walker level) k = documented level k.
Proof.
  intros level k H. destruct level as [|[|[|[|l]]]]; [| | | |lia]; destruct k; vm_compute; reflexivity.
Qed.

(* an entry ignored by a consulted ignore file is out of scope; an excluded glob likewise *)
Theorem ignored_out_of_scope : forall ign glob dirs level inc exc p k d,
  consulted (gen_walker level) k = true -> In d (dirs p) -> ign (ikind_name k) d p = true ->
  in_scope ign glob dirs level inc exc p = false.
Proof.
  intros ign glob dirs level inc exc p k d Hc Hd Hi. unfold in_scope.
  assert (E : ignored_by_files ign dirs (gen_walker level) p = true).
  { unfold ignored_by_files. apply existsb_exists. exists k. split; [destruct k; cbn; auto|].
    rewrite Hc. cbn. apply existsb_exists. exists d. split; assumption. }
  rewrite E. rewrite andb_false_r. reflexivity.
Qed.

Theorem excluded_glob_out_of_scope : forall ign glob dirs level inc exc p,
  exc <> [] -> glob exc p = true -> in_scope ign glob dirs level inc exc p = false.
Proof.
  intros ign glob dirs level inc exc p Hne Hg. unfold in_scope.
  destruct exc as [|e exc]; [congruence|]. rewrite Hg. cbn. rewrite andb_false_r. reflexivity.
Qed.

Theorem not_included_out_of_scope : forall ign glob dirs level inc exc p,
  inc <> [] -> glob inc p = false -> in_scope ign glob dirs level inc exc p = false.
Proof.
  intros ign glob dirs level inc exc p Hne Hg. unfold in_scope.
  destruct inc as [|i inc]; [congruence|]. rewrite Hg. rewrite andb_false_r. reflexivity.
Qed.

(* binary files are not scanned for content below the -uuu level *)
Theorem binary_not_scanned_below_uuu : forall ign glob dirs level inc exc p,
  (level < 3)%nat -> content_scanned ign glob dirs level inc exc p true = false.
Proof.
  intros. unfold content_scanned. cbn [negb orb].
  replace (Nat.leb gen_binary_as_text_level level) with false; [apply andb_false_r|].
  symmetry. apply Nat.leb_gt. vm_compute. vm_compute in H. lia.
Qed.
