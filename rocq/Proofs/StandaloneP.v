(* Proofs/StandaloneP.v — C06, first clause: a standalone occurrence of a multi-word search term
   written in an enabled style is found by the scan (exactly once, with its own text), passes
   the boundary test, and is mapped to the replacement in that same style; an occurrence in a
   disabled style is not matched at all.  For all word lists, styles and delimiter strings.

   Method: a letter-content argument.  [lets s] is the lower-cased string of the letters of [s].
   Every rendering of a neutral word list [ws] (any of the 14 styles) starts with a letter, ends
   with a letter and has [lets = concat ws].  Stdlib + lia only. *)
From Coq Require Import Lia ZArith ZifyBool String.
From RN Require Import Base.Bytes Base.Str Model.StyleDef Model.CaseModel Model.CaseSpec Model.Matcher.
From RN Require Import Gen.GenStyles Gen.GenAcronyms.
From RN Require Import Proofs.CaseP1 Proofs.CaseP2 Proofs.CaseP3 Proofs.HunksP.
Open Scope nat_scope.

(* ------------------------------------------------------------------------------------------ *)
(* definitions (all computable)                                                               *)
(* ------------------------------------------------------------------------------------------ *)

(* the neutral delimiter bytes: space, double quote, single quote, ( ) [ ] { } / : , ; = < >, tab.
   ([CaseModel.is_delim] is the tokenizer's separator class _ - . space; this one is different) *)
Definition is_ndelim (c : N) : bool :=
  existsb (N.eqb c) [32; 34; 39; 40; 41; 91; 93; 123; 125; 47; 58; 44; 59; 61; 60; 62; 9]%N.
Definition delims (s : bytes) : bool := forallb is_ndelim s.

(* the widest context class for which the boundary test succeeds whatever the matched text is:
   not a letter, not a digit, not '-' and not '_'  (contains every [is_ndelim] byte, and also
   '.', newline, CR, '!', '#', ...) *)
Definition is_ctx (c : N) : bool := negb (is_alnum c) && negb (c =? 45)%N && negb (c =? 95)%N.
Definition ctxs (s : bytes) : bool := forallb is_ctx s.

(* the widest context class for the scan itself: no letters *)
Definition noalpha (s : bytes) : bool := forallb (fun c => negb (is_alpha c)) s.

Definition keys (m : amap) : list bytes := map fst m.

(* letter content *)
Definition lets (s : bytes) : bytes := map to_lower (filter is_alpha s).

(* [x] occurs in [y] as a contiguous block *)
Definition is_infix (x y : bytes) : bool :=
  existsb (fun k => is_prefix x (skipn k y)) (seq 0 (S (length y))).

Lemma is_ndelim_ctx c : is_ndelim c = true -> is_ctx c = true.
Proof.
  unfold is_ndelim. cbn [existsb]. intro H.
  repeat (apply orb_true_iff in H as [H|H]; [apply N.eqb_eq in H; subst c; reflexivity|]).
  discriminate.
Qed.

Lemma is_ctx_noalpha c : is_ctx c = true -> negb (is_alpha c) = true.
Proof.
  unfold is_ctx, is_alnum. intro H. apply andb_true_iff in H as [H _]. apply andb_true_iff in H as [H _].
  destruct (is_alpha c); [discriminate|reflexivity].
Qed.

Lemma delims_ctxs s : delims s = true -> ctxs s = true.
Proof. apply forallb_impl, is_ndelim_ctx. Qed.

Lemma ctxs_noalpha s : ctxs s = true -> noalpha s = true.
Proof. apply forallb_impl, is_ctx_noalpha. Qed.

(* ------------------------------------------------------------------------------------------ *)
(* letter content                                                                             *)
(* ------------------------------------------------------------------------------------------ *)

Lemma lets_app a b : lets (a ++ b) = lets a ++ lets b.
Proof. unfold lets. rewrite filter_app, map_app. reflexivity. Qed.

Lemma filter_all {A} (p : A -> bool) l : forallb p l = true -> filter p l = l.
Proof.
  induction l as [|x l IH]; cbn [forallb filter]; [reflexivity|].
  intro H. apply andb_true_iff in H as [Hx H]. rewrite Hx, (IH H). reflexivity.
Qed.

Lemma lets_noalpha s : noalpha s = true -> lets s = [].
Proof.
  unfold lets, noalpha. induction s as [|x s IH]; cbn [forallb filter]; [reflexivity|].
  intro H. apply andb_true_iff in H as [Hx H]. apply negb_true_iff in Hx. rewrite Hx. apply IH, H.
Qed.

Lemma lets_alpha X : forallb is_alpha X = true -> lets X = lower X.
Proof. intro H. unfold lets. rewrite (filter_all _ _ H). reflexivity. Qed.

Lemma lets_good acr X w : good acr X w -> lets X = w.
Proof. intro H. rewrite (lets_alpha _ (good_alpha acr X w H)). apply (good_lower acr), H. Qed.

Lemma lets_byte d : is_alpha d = false -> lets [d] = [].
Proof. intro H. unfold lets. cbn [filter]. rewrite H. reflexivity. Qed.

Lemma lets_join d Xs : is_alpha d = false -> lets (join [d] Xs) = lets (concat Xs).
Proof.
  intro Hd. induction Xs as [|X Xs IH]; [reflexivity|].
  destruct Xs as [|Y Zs].
  - cbn [join concat]. rewrite app_nil_r. reflexivity.
  - change (join [d] (X :: Y :: Zs)) with (X ++ [d] ++ join [d] (Y :: Zs)).
    change (concat (X :: Y :: Zs)) with (X ++ concat (Y :: Zs)).
    rewrite (lets_app X), (lets_app [d]), IH, (lets_byte d Hd), (lets_app X). reflexivity.
Qed.

Lemma lets_concat_good acr Xs ws : Forall2 (good acr) Xs ws -> lets (concat Xs) = concat ws.
Proof.
  induction 1 as [|X w Xs ws HX _ IH]; [reflexivity|].
  cbn [concat]. rewrite lets_app, IH, (lets_good acr X w HX). reflexivity.
Qed.

Lemma sep_not_alpha S d : sep_of S = Some d -> is_alpha d = false.
Proof. destruct S; cbn; intro H; inversion H; reflexivity. Qed.

Lemma lets_render acr S ws : all_neutral acr ws = true -> lets (render S ws) = concat ws.
Proof.
  intro Hn. destruct ws as [|w0 ws']; [destruct S; reflexivity|].
  rewrite render_sep by discriminate.
  pose proof (toks_of_good acr S _ Hn) as HG.
  destruct (sep_of S) as [d|] eqn:E.
  - rewrite (lets_join d _ (sep_not_alpha S d E)). apply (lets_concat_good acr), HG.
  - apply (lets_concat_good acr), HG.
Qed.

(* ------------------------------------------------------------------------------------------ *)
(* first and last byte                                                                        *)
(* ------------------------------------------------------------------------------------------ *)

Definition starts_alpha (s : bytes) : Prop := hd_is is_alpha s = true.
Definition ends_alpha (s : bytes) : Prop := exists s' c, s = s' ++ [c] /\ is_alpha c = true.

Lemma ends_alpha_app a b : ends_alpha b -> ends_alpha (a ++ b).
Proof. intros (s' & c & -> & Hc). exists (a ++ s'), c. rewrite app_assoc. auto. Qed.

Lemma ends_alpha_word X : X <> [] -> forallb is_alpha X = true -> ends_alpha X.
Proof.
  intros Hne Ha. destruct (exists_last Hne) as (s' & c & ->). exists s', c. split; [reflexivity|].
  rewrite forallb_app in Ha. apply andb_true_iff in Ha as [_ Ha]. cbn in Ha.
  rewrite andb_true_r in Ha. exact Ha.
Qed.

Lemma ends_alpha_suffix a l : ends_alpha (a ++ l) -> l <> [] -> ends_alpha l.
Proof.
  intros (s' & c & E & Hc) Hne. destruct (exists_last Hne) as (l' & c' & ->).
  rewrite app_assoc in E. apply app_inj_tail in E as [_ ->]. exists l', c. auto.
Qed.

Lemma ends_alpha_lets l : ends_alpha l -> lets l <> [].
Proof.
  intros (s' & c & -> & Hc) E. rewrite lets_app in E. apply app_eq_nil in E as [_ E].
  unfold lets in E. cbn [filter] in E. rewrite Hc in E. discriminate.
Qed.

Lemma starts_alpha_lets l : starts_alpha l -> lets l <> [].
Proof.
  unfold starts_alpha. destruct l as [|c l]; cbn [hd_is]; [discriminate|].
  intros Hc. unfold lets. cbn [filter]. rewrite Hc. discriminate.
Qed.

Lemma ends_alpha_good acr d Xs ws : Forall2 (good acr) Xs ws -> Xs <> [] ->
  ends_alpha (join [d] Xs) /\ ends_alpha (concat Xs).
Proof.
  induction 1 as [|X w Xs ws HX HF IH]; [congruence|]. intros _.
  assert (HXe : ends_alpha X) by (apply ends_alpha_word; eauto using good_nonempty, good_alpha).
  destruct Xs as [|Y Zs].
  - cbn [join concat]. rewrite app_nil_r. auto.
  - destruct IH as [I1 I2]; [discriminate|].
    change (join [d] (X :: Y :: Zs)) with (X ++ [d] ++ join [d] (Y :: Zs)).
    change (concat (X :: Y :: Zs)) with (X ++ concat (Y :: Zs)).
    split; [apply ends_alpha_app, ends_alpha_app, I1 | apply ends_alpha_app, I2].
Qed.

(* the shape of a variant of the word list [ws] *)
Definition shape (ws : list bytes) (v : bytes) : Prop :=
  starts_alpha v /\ ends_alpha v /\ lets v = concat ws.

Lemma render_shape acr S ws : all_neutral acr ws = true -> ws <> [] -> shape ws (render S ws).
Proof.
  intros Hn Hne. split; [|split].
  - destruct ws as [|w0 ws']; [congruence|].
    pose proof (proj1 (all_neutral_Forall acr _) Hn) as HF. inversion HF as [|? ? H0 _]; subst.
    destruct (neutral_shape _ _ H0) as (c & c1 & w2 & -> & Hc & _).
    destruct (render_hd S c (c1 :: w2) ws') as [s' E]. unfold starts_alpha.
    cut (hd_is is_alpha (hd_byte S c :: s') = true); [intro X; rewrite <- E in X; exact X|].
    cbn [hd_is].
    destruct S; cbn [hd_byte]; auto using lower_alpha, upper_alpha, to_upper_lower_is_upper.
  - rewrite render_sep by exact Hne.
    pose proof (toks_of_good acr S _ Hn) as HG.
    assert (Hte : toks_of S ws <> []).
    { intro E. apply (f_equal (@List.length bytes)) in E. rewrite toks_of_length in E.
      destruct ws; [congruence|discriminate]. }
    destruct (sep_of S) as [d|].
    + apply (ends_alpha_good acr d _ _ HG Hte).
    + apply (ends_alpha_good acr 0%N _ _ HG Hte).
  - apply (lets_render acr S ws Hn).
Qed.

Lemma shape_ne ws v : shape ws v -> v <> [].
Proof. intros (H & _) ->. discriminate H. Qed.

(* ------------------------------------------------------------------------------------------ *)
(* where a variant can sit in  dl ++ occ ++ dr                                                *)
(* ------------------------------------------------------------------------------------------ *)

Lemma length_app_nil {A} (a b c : list A) : length (a ++ b ++ c) = length b -> a = [] /\ c = [].
Proof.
  rewrite !app_length. intro H. destruct a, c; cbn [length] in H; try lia. auto.
Qed.

(* two strings with equally many letters, both ending in a letter, one a prefix of the other
   up to letter-free material: they are equal *)
Lemma prefix_eq occ dr v r :
  ends_alpha occ -> ends_alpha v -> length (lets occ) = length (lets v) ->
  occ ++ dr = v ++ r -> v = occ.
Proof.
  intros Ho Hv Hl E. apply app_eq_app in E as [l [[E1 E2]|[E1 E2]]].
  - destruct l as [|x l]; [rewrite app_nil_r in E1; auto|].
    exfalso. subst occ. apply ends_alpha_suffix in Ho; [|discriminate].
    apply ends_alpha_lets in Ho. rewrite lets_app, app_length in Hl.
    destruct (lets (x :: l)); [congruence|cbn [length] in Hl; lia].
  - destruct l as [|x l]; [rewrite app_nil_r in E1; auto|].
    exfalso. subst v. apply ends_alpha_suffix in Hv; [|discriminate].
    apply ends_alpha_lets in Hv. rewrite lets_app, app_length in Hl.
    destruct (lets (x :: l)); [congruence|cbn [length] in Hl; lia].
Qed.

Lemma noalpha_In s x : noalpha s = true -> In x s -> is_alpha x = false.
Proof.
  unfold noalpha. rewrite forallb_forall. intros H Hx. apply negb_true_iff, H, Hx.
Qed.

(* the key lemma: a variant with as many letters as [occ] occurs in [dl ++ occ ++ dr] only at
   offset [length dl], and then it is [occ] itself *)
Lemma variant_at dl dr occ p v r :
  noalpha dl = true -> noalpha dr = true ->
  starts_alpha occ -> ends_alpha occ -> starts_alpha v -> ends_alpha v ->
  length (lets occ) = length (lets v) ->
  dl ++ occ ++ dr = p ++ v ++ r -> p = dl /\ v = occ.
Proof.
  intros Hdl Hdr Hso Heo Hsv Hev Hl E.
  assert (Hp : lets p = []).
  { pose proof (f_equal lets E) as EL. rewrite !lets_app in EL.
    rewrite (lets_noalpha _ Hdl), (lets_noalpha _ Hdr), app_nil_r in EL. cbn [app] in EL.
    rewrite EL in Hl. apply length_app_nil in Hl. tauto. }
  apply app_eq_app in E as [l [[E1 E2]|[E1 E2]]].
  - destruct l as [|d l].
    + rewrite app_nil_r in E1. subst p. split; [reflexivity|].
      cbn [app] in E2. symmetry in E2. eapply prefix_eq; eauto.
    + exfalso. assert (Hd : is_alpha d = false).
      { apply (noalpha_In dl); [exact Hdl|]. rewrite E1. apply in_or_app. right. left. reflexivity. }
      unfold starts_alpha in Hsv. destruct v as [|cv v']; [discriminate|].
      cbn [hd_is app] in *. injection E2 as -> _. congruence.
  - destruct l as [|d l].
    + rewrite app_nil_r in E1. subst p. split; [reflexivity|].
      cbn [app] in E2. eapply prefix_eq; eauto.
    + exfalso. unfold starts_alpha in Hso. destruct occ as [|co occ']; [discriminate|].
      cbn [hd_is app] in *. injection E2 as -> _.
      subst p. rewrite lets_app in Hp. apply app_eq_nil in Hp as [_ Hp].
      unfold lets in Hp. cbn [filter] in Hp. rewrite Hso in Hp. discriminate.
Qed.

(* ------------------------------------------------------------------------------------------ *)
(* scan lemmas                                                                                *)
(* ------------------------------------------------------------------------------------------ *)

Lemma scan_none alts : forall fuel rest pos,
  (forall k, k < length rest -> first_alt alts (skipn k rest) = None) ->
  scan fuel alts pos rest = [].
Proof.
  induction fuel as [|fuel IH]; intros rest pos H; cbn [scan]; [reflexivity|].
  destruct rest as [|x rest']; [reflexivity|].
  pose proof (H 0 ltac:(cbn; lia)) as H0. cbn [skipn] in H0. rewrite H0.
  apply IH. intros k Hk. apply (H (S k)). cbn [length]. lia.
Qed.

Lemma scan_skip alts rest : forall pre fuel pos,
  (forall k, k < length pre -> first_alt alts (skipn k (pre ++ rest)) = None) ->
  scan (length pre + fuel) alts pos (pre ++ rest) = scan fuel alts (pos + length pre) rest.
Proof.
  induction pre as [|x pre IH]; intros fuel pos H.
  - cbn [length app Nat.add]. rewrite Nat.add_0_r. reflexivity.
  - pose proof (H 0 ltac:(cbn; lia)) as H0. cbn [skipn app] in H0.
    cbn [length app Nat.add scan]. rewrite H0.
    rewrite IH.
    + f_equal. lia.
    + intros k Hk. apply (H (S k)). cbn [length]. lia.
Qed.

Lemma scan_hit alts fuel pos rest v : rest <> [] -> first_alt alts rest = Some v ->
  scan (S fuel) alts pos rest =
  (pos, pos + length v, v) :: scan fuel alts (pos + length v) (skipn (length v) rest).
Proof. intros Hne H. destruct rest; [congruence|]. cbn [scan]. rewrite H. reflexivity. Qed.

Lemma first_alt_none alts rest :
  (forall v, In v alts -> v <> [] -> is_prefix v rest = true -> False) -> first_alt alts rest = None.
Proof.
  unfold first_alt. induction alts as [|a alts IH]; intro H; cbn [find]; [reflexivity|].
  destruct (negb (Nat.eqb (length a) 0) && is_prefix a rest) eqn:E.
  - exfalso. apply andb_true_iff in E as [E1 E2]. apply (H a); [left; reflexivity| |exact E2].
    intros ->. discriminate.
  - apply IH. intros v Hv. apply H. right. exact Hv.
Qed.

Lemma first_alt_not_none alts rest v : In v alts -> v <> [] -> is_prefix v rest = true ->
  first_alt alts rest <> None.
Proof.
  intros Hin Hne Hp E. unfold first_alt in E. pose proof (find_none _ _ E v Hin) as F.
  cbv beta in F. rewrite Hp, andb_true_r in F. destruct v; [congruence|discriminate].
Qed.

(* a prefix at offset k, as a decomposition of the whole text *)
Lemma prefix_at_decomp v c k : k < length c -> is_prefix v (skipn k c) = true ->
  exists p r, c = p ++ v ++ r /\ length p = k.
Proof.
  intros Hk H. apply is_prefix_spec in H as [r Hr]. exists (firstn k c), r.
  rewrite <- Hr, firstn_skipn. split; [reflexivity|]. apply firstn_length_le. lia.
Qed.

(* ------------------------------------------------------------------------------------------ *)
(* the scan over  dl ++ occ ++ dr  for any set of alternatives of the right shape              *)
(* ------------------------------------------------------------------------------------------ *)

Section ScanShape.
Variable ws : list bytes.
Variable vs : list bytes.
Hypothesis Hvs : forall v, In v vs -> shape ws v.
Variables dl dr occ : bytes.
Hypothesis Hdl : noalpha dl = true.
Hypothesis Hdr : noalpha dr = true.
Hypothesis Hocc : shape ws occ.

Lemma shape_at p v r : In v (longest_first vs) -> dl ++ occ ++ dr = p ++ v ++ r -> p = dl /\ v = occ.
Proof.
  intros Hin E. apply longest_first_In, Hvs in Hin. destruct Hin as (V1 & V2 & V3).
  destruct Hocc as (O1 & O2 & O3).
  eapply variant_at; eauto. rewrite O3, V3. reflexivity.
Qed.

Lemma no_alt_at k : k < length (dl ++ occ ++ dr) -> k <> length dl ->
  first_alt (longest_first vs) (skipn k (dl ++ occ ++ dr)) = None.
Proof.
  intros Hk Hne. apply first_alt_none. intros v Hin _ Hp.
  destruct (prefix_at_decomp v _ k Hk Hp) as (p & r & E & Hlen).
  destruct (shape_at p v r Hin E) as [-> _]. congruence.
Qed.

Lemma no_alt_dr k : first_alt (longest_first vs) (skipn k dr) = None.
Proof.
  apply first_alt_none. intros v Hin _ Hp. apply is_prefix_spec in Hp as [r Hr].
  apply longest_first_In, Hvs in Hin. destruct Hin as (V1 & _ & _).
  apply starts_alpha_lets in V1. apply V1.
  assert (E : lets dr = []) by (apply lets_noalpha, Hdr).
  rewrite <- (firstn_skipn k dr), Hr, !lets_app in E.
  apply app_eq_nil in E as [_ E]. apply app_eq_nil in E as [E _]. exact E.
Qed.

(* the occurrence is one of the alternatives: exactly one match, the occurrence itself *)
Lemma scan_occ_in : In occ vs ->
  find_iter vs (dl ++ occ ++ dr) = [(length dl, length dl + length occ, occ)].
Proof.
  intro Hin. unfold find_iter.
  assert (Hone : occ <> []) by (eapply shape_ne, Hocc).
  replace (S (length (dl ++ occ ++ dr))) with (length dl + S (length (occ ++ dr)))
    by (rewrite !app_length; lia).
  rewrite scan_skip.
  - cbn [Nat.add].
    assert (F : first_alt (longest_first vs) (occ ++ dr) = Some occ).
    { destruct (first_alt (longest_first vs) (occ ++ dr)) as [v|] eqn:F.
      - apply first_alt_some in F as (F1 & _ & F3). apply is_prefix_spec in F3 as [r Hr].
        destruct (shape_at dl v r F1) as [_ ->]; [rewrite Hr; reflexivity|reflexivity].
      - exfalso. revert F. apply (first_alt_not_none _ _ occ); auto using is_prefix_app.
        apply longest_first_In, Hin. }
    rewrite (scan_hit _ _ _ _ occ); [|destruct occ; [congruence|discriminate]|exact F].
    rewrite skipn_app, skipn_all, Nat.sub_diag. cbn [app skipn].
    rewrite scan_none; [reflexivity|]. intros k _. apply no_alt_dr.
  - intros k Hk. apply no_alt_at; [rewrite app_length|]; lia.
Qed.

(* the occurrence is not one of the alternatives: no match *)
Lemma scan_occ_out : ~ In occ vs -> find_iter vs (dl ++ occ ++ dr) = [].
Proof.
  intro Hout. unfold find_iter. apply scan_none. intros k Hk.
  apply first_alt_none. intros v Hin _ Hp.
  destruct (prefix_at_decomp v _ k Hk Hp) as (p & r & E & Hlen).
  destruct (shape_at p v r Hin E) as [_ ->]. apply Hout, longest_first_In, Hin.
Qed.
End ScanShape.

(* ------------------------------------------------------------------------------------------ *)
(* the boundary test in a neutral context (any matched text)                                   *)
(* ------------------------------------------------------------------------------------------ *)

Lemma ctx_side spacey c : is_ctx c = true ->
  (if spacey : bool then
     is_ws c || (is_punct c && negb (c =? 45)%N && negb (c =? 95)%N) ||
     (negb (is_alnum c) && negb (c =? 45)%N && negb (c =? 95)%N)
   else negb (is_alnum c)) = true.
Proof.
  unfold is_ctx. intro H. apply andb_true_iff in H as [H H3]. apply andb_true_iff in H as [H1 H2].
  destruct spacey; [|exact H1]. rewrite H1, H2, H3. apply orb_true_r.
Qed.

Lemma ctxs_In s x : ctxs s = true -> In x s -> is_ctx x = true.
Proof. unfold ctxs. rewrite forallb_forall. auto. Qed.

Lemma boundary_ctx dl m dr : ctxs dl = true -> ctxs dr = true ->
  is_boundary (dl ++ m ++ dr) (length dl) (length dl + length m) = true.
Proof.
  intros Hdl Hdr. unfold is_boundary.
  set (spacey := existsb (N.eqb 32) _). clearbody spacey.
  apply andb_true_iff. split.
  - destruct (length dl) as [|p] eqn:El; [reflexivity|].
    unfold nth_byte. rewrite app_nth1 by lia.
    assert (Hc : is_ctx (nth p dl 0%N) = true) by (apply (ctxs_In dl); [exact Hdl|apply nth_In; lia]).
    pose proof (ctx_side spacey _ Hc) as X. destruct spacey.
    + exact X.
    + rewrite X. reflexivity.
  - destruct (Nat.leb (length (dl ++ m ++ dr)) (length dl + length m)) eqn:El; [reflexivity|].
    apply Nat.leb_gt in El. rewrite !app_length in El.
    destruct dr as [|d dr']; [cbn [length] in El; lia|].
    unfold nth_byte. rewrite app_nth2 by lia. rewrite app_nth2 by lia.
    replace (length dl + length m - length dl - length m) with 0 by lia. cbn [nth].
    assert (Hc : is_ctx d = true) by (apply (ctxs_In (d :: dr')); [exact Hdr|left; reflexivity]).
    pose proof (ctx_side spacey _ Hc) as X. destruct spacey.
    + exact X.
    + rewrite X. reflexivity.
Qed.

(* ------------------------------------------------------------------------------------------ *)
(* the keys of the variant table                                                              *)
(* ------------------------------------------------------------------------------------------ *)

Lemma amap_get_keys k m : In k (keys m) <-> amap_get k m <> None.
Proof.
  unfold keys. induction m as [|[k' v] m IH]; cbn [map fst In amap_get].
  - split; [contradiction|congruence].
  - destruct (beq k k') eqn:E.
    + apply beq_eq in E. subst k'. split; [discriminate|auto].
    + rewrite <- IH. split; [|auto]. intros [->|H]; [|exact H].
      rewrite beq_refl in E. discriminate.
Qed.

Lemma keys_put_all K V styles k :
  In k (keys (put_all K V styles [])) <-> exists s, In s styles /\ k = K s.
Proof.
  destruct (put_all_inv K V styles []) as (I1 & _ & I3). rewrite amap_get_keys. split.
  - intro H. destruct (amap_get k (put_all K V styles [])) as [v|] eqn:G; [|congruence].
    apply I1 in G as [G|(s & Hs & Hk & _)]; [discriminate|]. exists s. auto.
  - intros (s & Hs & ->). apply I3, Hs.
Qed.

Section Table.
Variable acr : acr_tab.
Variable defaults : list style.
Variables S0 S1 : style.
Variables sw rw : list bytes.
Variable styles : list style.
Variable amb : bool.
Hypothesis Hwf : wf_acr acr = true.
Hypothesis Hv0 : visible S0 = true.
Hypothesis Hv1 : visible S1 = true.
Hypothesis Hsne : sw <> [].
Hypothesis Hrne : rw <> [].
Hypothesis Hns : all_neutral acr sw = true.
Hypothesis Hnr : all_neutral acr rw = true.

Let vm := variant_map_core acr defaults [] [] false amb (to_style acr sw S0) (to_style acr rw S1)
            (Some styles).

Lemma to_style_ne s : to_style acr sw s <> [].
Proof.
  rewrite (to_style_render acr sw s Hns). eapply shape_ne, render_shape; eauto.
Qed.

Lemma vm_put_all :
  vm = put_all (fun s => to_style acr sw s) (fun s => to_style acr rw s) styles [].
Proof.
  assert (E : forall m0,
              fold_left (fun m s =>
                fold_left (fun m (pr : list bytes * list bytes) =>
                  amap_put_ne false (to_style acr (fst pr) s) (to_style acr (snd pr) s) m)
                  [(toks_of S0 sw, toks_of S1 rw)] m) styles m0 =
              put_all (fun s => to_style acr sw s) (fun s => to_style acr rw s) styles m0).
  { unfold put_all. induction styles as [|s sts IH]; intros m0; [reflexivity|].
    cbn [fold_left fst snd].
    rewrite (to_style_good acr _ sw s (toks_of_good acr S0 sw Hns)).
    rewrite (to_style_good acr _ rw s (toks_of_good acr S1 rw Hnr)).
    rewrite <- (to_style_render acr sw s Hns), <- (to_style_render acr rw s Hnr).
    rewrite (amap_put_ne_ne false _ _ _ (to_style_ne s)).
    apply IH. }
  unfold vm, variant_map_core, variant_models.
  rewrite (tokens_render acr S0 sw Hwf Hv0 Hsne Hns), (tokens_render acr S1 rw Hwf Hv1 Hrne Hnr).
  cbn [app]. apply E.
Qed.

(* the alternatives handed to the matcher are exactly the search term in the enabled styles *)
Lemma keys_vm k : In k (keys vm) <-> exists s, In s styles /\ k = to_style acr sw s.
Proof. rewrite vm_put_all. apply keys_put_all. Qed.

Lemma keys_vm_shape v : In v (keys vm) -> shape sw v.
Proof.
  intro H. apply keys_vm in H as (s & _ & ->). rewrite (to_style_render acr sw s Hns).
  apply (render_shape acr); auto.
Qed.

Lemma occ_shape S : shape sw (to_style acr sw S).
Proof. rewrite (to_style_render acr sw S Hns). apply (render_shape acr); auto. Qed.

(* 1, general form: any letter-free context (digits, '.', '-', '_', newlines ... allowed),
   any enabled style (the two flat styles included), search term of one or more words *)
Lemma scan_standalone_gen S dl dr :
  In S styles -> noalpha dl = true -> noalpha dr = true ->
  find_iter (keys vm) (dl ++ to_style acr sw S ++ dr) =
  [(length dl, length dl + length (to_style acr sw S), to_style acr sw S)].
Proof.
  intros Hin Hdl Hdr. apply (scan_occ_in sw); auto using keys_vm_shape, occ_shape.
  apply keys_vm. exists S. auto.
Qed.

(* 4, general form: any letter-free context; [styles] may contain the flat styles *)
Lemma disabled_untouched_gen S dl dr :
  visible S = true -> (2 <= length sw) -> ~ In S styles -> noalpha dl = true -> noalpha dr = true ->
  find_iter (keys vm) (dl ++ to_style acr sw S ++ dr) = [].
Proof.
  intros Hv Hlen Hout Hdl Hdr. apply (scan_occ_out sw); auto using keys_vm_shape, occ_shape.
  intro H. apply keys_vm in H as (s & Hs & E).
  apply (C18_render_style_injective acr S s sw Hwf Hv Hlen Hns) in E. subst s. contradiction.
Qed.

(* 5, general form *)
Lemma none_left_gen S dl dr :
  is_infix (concat sw) (concat rw) = false -> noalpha dl = true -> noalpha dr = true ->
  find_iter (keys vm) (dl ++ to_style acr rw S ++ dr) = [].
Proof.
  intros Hinf Hdl Hdr. unfold find_iter. apply scan_none. intros k Hk.
  apply first_alt_none. intros v Hin _ Hp.
  destruct (prefix_at_decomp v _ k Hk Hp) as (p & r & E & _).
  apply longest_first_In, keys_vm_shape in Hin. destruct Hin as (_ & _ & V3).
  apply (f_equal lets) in E. rewrite !lets_app in E.
  rewrite (lets_noalpha _ Hdl), (lets_noalpha _ Hdr), app_nil_r, V3 in E. cbn [app] in E.
  rewrite (to_style_render acr rw S Hnr), (lets_render acr S rw Hnr) in E.
  assert (X : is_infix (concat sw) (concat rw) = true); [|congruence].
  unfold is_infix. apply existsb_exists. exists (length (lets p)). split.
  - apply in_seq. rewrite E, !app_length. lia.
  - rewrite E, skipn_app, skipn_all, Nat.sub_diag. cbn [app skipn]. apply is_prefix_app.
Qed.
End Table.

(* ------------------------------------------------------------------------------------------ *)
(* the C06 theorems                                                                           *)
(* ------------------------------------------------------------------------------------------ *)

(* 1. exactly one match, at the occurrence, with the occurrence's own text.
   Weaker hypotheses than asked for are enough: S need not be visible, [styles] may contain the
   flat styles, one word is enough, the context only has to be free of letters. *)
Theorem scan_standalone : forall acr defaults amb S0 S1 S sw rw styles dl dr,
  wf_acr acr = true -> visible S0 = true -> visible S1 = true ->
  sw <> [] -> rw <> [] -> all_neutral acr sw = true -> all_neutral acr rw = true ->
  In S styles -> noalpha dl = true -> noalpha dr = true ->
  let vm := variant_map_core acr defaults [] [] false amb (to_style acr sw S0) (to_style acr rw S1)
              (Some styles) in
  let occ := to_style acr sw S in
  find_iter (keys vm) (dl ++ occ ++ dr) = [(length dl, length dl + length occ, occ)].
Proof. intros. apply scan_standalone_gen; auto. Qed.

(* 2. the boundary test accepts the occurrence; true for ANY matched text [occ], spacey or not,
   and for the wider context class [is_ctx] (which also contains '.', newline, CR) *)
Theorem standalone_boundary : forall occ dl dr,
  ctxs dl = true -> ctxs dr = true ->
  is_boundary (dl ++ occ ++ dr) (length dl) (length dl + length occ) = true.
Proof. intros. apply boundary_ctx; auto. Qed.

(* 3. one boundary-accepted match, and the table maps it to the replacement in the same style *)
Theorem C06_standalone : forall acr defaults amb S0 S1 S sw rw styles dl dr,
  wf_acr acr = true -> visible S0 = true -> visible S1 = true -> visible S = true ->
  (2 <= length sw) -> rw <> [] -> all_neutral acr sw = true -> all_neutral acr rw = true ->
  In S styles -> delims dl = true -> delims dr = true ->
  let vm := variant_map_core acr defaults [] [] false amb (to_style acr sw S0) (to_style acr rw S1)
              (Some styles) in
  let occ := to_style acr sw S in
  let c := dl ++ occ ++ dr in
  find_iter (keys vm) c = [(length dl, length dl + length occ, occ)] /\
  is_boundary c (length dl) (length dl + length occ) = true /\
  find_matches (keys vm) c =
    [{| m_line := line_of c (length dl); m_col := col_of c (length dl);
        m_start := length dl; m_end := length dl + length occ; m_text := occ |}] /\
  amap_get occ vm = Some (to_style acr rw S).
Proof.
  intros acr defaults amb S0 S1 S sw rw styles dl dr Hwf Hv0 Hv1 Hv Hlen Hrne Hns Hnr Hin Hdl Hdr
         vm occ c.
  assert (Hsne : sw <> []) by (destruct sw; [cbn in Hlen; lia | discriminate]).
  apply delims_ctxs in Hdl, Hdr.
  assert (F : find_iter (keys vm) c = [(length dl, length dl + length occ, occ)])
    by (apply scan_standalone; auto using ctxs_noalpha).
  assert (B : is_boundary c (length dl) (length dl + length occ) = true)
    by (apply standalone_boundary; auto).
  split; [exact F|]. split; [exact B|]. split.
  - unfold find_matches. rewrite F. cbn [flat_map]. rewrite B. reflexivity.
  - apply C18_variant_table_core; auto.
Qed.

(* the same for the wider context class (start/end of text: dl = [] / dr = []; '.', newline) *)
Theorem C06_standalone_ctx : forall acr defaults amb S0 S1 S sw rw styles dl dr,
  wf_acr acr = true -> visible S0 = true -> visible S1 = true -> visible S = true ->
  (2 <= length sw) -> rw <> [] -> all_neutral acr sw = true -> all_neutral acr rw = true ->
  In S styles -> ctxs dl = true -> ctxs dr = true ->
  let vm := variant_map_core acr defaults [] [] false amb (to_style acr sw S0) (to_style acr rw S1)
              (Some styles) in
  let occ := to_style acr sw S in
  let c := dl ++ occ ++ dr in
  find_matches (keys vm) c =
    [{| m_line := line_of c (length dl); m_col := col_of c (length dl);
        m_start := length dl; m_end := length dl + length occ; m_text := occ |}] /\
  amap_get occ vm = Some (to_style acr rw S).
Proof.
  intros acr defaults amb S0 S1 S sw rw styles dl dr Hwf Hv0 Hv1 Hv Hlen Hrne Hns Hnr Hin Hdl Hdr
         vm occ c.
  assert (Hsne : sw <> []) by (destruct sw; [cbn in Hlen; lia | discriminate]).
  split.
  - unfold find_matches, c, occ, vm. rewrite scan_standalone by auto using ctxs_noalpha.
    cbn [flat_map]. rewrite standalone_boundary by auto. reflexivity.
  - apply C18_variant_table_core; auto.
Qed.

(* 4. an occurrence in a style that is not enabled is not matched at all (not even before the
   boundary filter).  [styles] may contain the flat styles; the context only has to be
   letter-free. *)
Theorem C06_disabled_untouched : forall acr defaults amb S0 S1 S sw rw styles dl dr,
  wf_acr acr = true -> visible S0 = true -> visible S1 = true -> visible S = true ->
  (2 <= length sw) -> rw <> [] -> all_neutral acr sw = true -> all_neutral acr rw = true ->
  ~ In S styles -> noalpha dl = true -> noalpha dr = true ->
  let vm := variant_map_core acr defaults [] [] false amb (to_style acr sw S0) (to_style acr rw S1)
              (Some styles) in
  find_iter (keys vm) (dl ++ to_style acr sw S ++ dr) = [] /\
  find_matches (keys vm) (dl ++ to_style acr sw S ++ dr) = [].
Proof.
  intros acr defaults amb S0 S1 S sw rw styles dl dr Hwf Hv0 Hv1 Hv Hlen Hrne Hns Hnr Hout Hdl Hdr vm.
  assert (Hsne : sw <> []) by (destruct sw; [cbn in Hlen; lia | discriminate]).
  assert (F : find_iter (keys vm) (dl ++ to_style acr sw S ++ dr) = [])
    by (apply disabled_untouched_gen; auto).
  split; [exact F|]. unfold find_matches. rewrite F. reflexivity.
Qed.

(* 5. after the replacement nothing is left to match, provided the letters of the search term
   (its words concatenated) do not occur as a contiguous block in the letters of the
   replacement term.  S is any style, visible or not. *)
Theorem C06_none_left : forall acr defaults amb S0 S1 S sw rw styles dl dr,
  wf_acr acr = true -> visible S0 = true -> visible S1 = true ->
  sw <> [] -> rw <> [] -> all_neutral acr sw = true -> all_neutral acr rw = true ->
  is_infix (concat sw) (concat rw) = false -> noalpha dl = true -> noalpha dr = true ->
  let vm := variant_map_core acr defaults [] [] false amb (to_style acr sw S0) (to_style acr rw S1)
              (Some styles) in
  find_iter (keys vm) (dl ++ to_style acr rw S ++ dr) = [] /\
  find_matches (keys vm) (dl ++ to_style acr rw S ++ dr) = [].
Proof.
  intros acr defaults amb S0 S1 S sw rw styles dl dr Hwf Hv0 Hv1 Hsne Hrne Hns Hnr Hinf Hdl Hdr vm.
  assert (F : find_iter (keys vm) (dl ++ to_style acr rw S ++ dr) = [])
    by (apply none_left_gen; auto).
  split; [exact F|]. unfold find_matches. rewrite F. reflexivity.
Qed.

(* ------------------------------------------------------------------------------------------ *)
(* concrete instances and counterexamples (vm_compute)                                        *)
(* ------------------------------------------------------------------------------------------ *)
Definition ex_sw : list bytes := [bs "old"; bs "name"].
Definition ex_rw : list bytes := [bs "new"; bs "title"; bs "word"].
Definition ex_vm : amap :=
  variant_map_core gen_acronyms gen_default_styles [] [] false false
    (to_style gen_acronyms ex_sw Snake) (to_style gen_acronyms ex_rw Snake) (Some gen_default_styles).

(* the hypotheses of C06_standalone are satisfiable: instantiate it *)
Example ex_standalone_inst :=
  C06_standalone gen_acronyms gen_default_styles false Snake Snake Train ex_sw ex_rw
    gen_default_styles (bs "(") (bs ");")
    ltac:(vm_compute; reflexivity) eq_refl eq_refl eq_refl
    ltac:(cbn; lia) ltac:(discriminate)
    ltac:(vm_compute; reflexivity) ltac:(vm_compute; reflexivity)
    ltac:(cbn; tauto) ltac:(vm_compute; reflexivity) ltac:(vm_compute; reflexivity).
Check ex_standalone_inst.

(* and what it says, computed directly *)
Example ex_standalone_computed :
  to_style gen_acronyms ex_sw Train = bs "Old-Name" /\
  find_iter (keys ex_vm) (bs "(Old-Name);") = [(1, 9, bs "Old-Name")] /\
  is_boundary (bs "(Old-Name);") 1 9 = true /\
  amap_get (bs "Old-Name") ex_vm = Some (bs "New-Title-Word") /\
  (* Dot is not among the default styles: untouched *)
  find_iter (keys ex_vm) (bs "(old.name);") = [] /\
  (* after the replacement nothing is left *)
  is_infix (concat ex_sw) (concat ex_rw) = false /\
  find_iter (keys ex_vm) (bs "(New-Title-Word);") = [].
Proof. vm_compute. repeat split; reflexivity. Qed.

(* every byte of the requested delimiter list passes the boundary test for every style, spacey
   or not (standalone_boundary), so no restriction of [is_ndelim] was needed.  '-' and '_' are
   NOT admissible contexts: they pass for the non-spacey styles but fail for Title/Sentence *)
Example ex_hyphen_context :
  is_boundary (bs "-old_name-") 1 9 = true /\ is_boundary (bs "-Old Name-") 1 9 = false /\
  is_boundary (bs "_Old name_") 1 9 = false /\ is_boundary (bs ".Old Name.") 1 9 = true.
Proof. vm_compute. repeat split; reflexivity. Qed.

(* theorem 5 is false under the weaker hypothesis "rw has no window of words equal to sw":
   sw = old name, rw = xold name; the raw scan finds old_name inside xold_name
   (only the boundary filter of find_matches rejects it) *)
Example ex_none_left_cex :
  let rw := [bs "xold"; bs "name"] in
  let vm := variant_map_core gen_acronyms gen_default_styles [] [] false false
              (to_style gen_acronyms ex_sw Snake) (to_style gen_acronyms rw Snake)
              (Some gen_default_styles) in
  all_neutral gen_acronyms rw = true /\
  find_iter (keys vm) (to_style gen_acronyms rw Snake) = [(1, 9, bs "old_name")] /\
  find_matches (keys vm) (to_style gen_acronyms rw Snake) = [] /\
  is_infix (concat ex_sw) (concat rw) = true.
Proof. vm_compute. repeat split; reflexivity. Qed.

(* theorem 4 needs two words: with one word Snake and Kebab render alike *)
Example ex_one_word_cex :
  let vm := variant_map_core gen_acronyms gen_default_styles [] [] false false
              (bs "old") (bs "new") (Some [Snake]) in
  find_iter (keys vm) (to_style gen_acronyms [bs "old"] Kebab) = [(0, 3, bs "old")].
Proof. vm_compute. reflexivity. Qed.

Print Assumptions scan_standalone.
Print Assumptions standalone_boundary.
Print Assumptions C06_standalone.
Print Assumptions C06_standalone_ctx.
Print Assumptions C06_disabled_untouched.
Print Assumptions C06_none_left.
Print Assumptions ex_standalone_inst.
Print Assumptions ex_standalone_computed.
