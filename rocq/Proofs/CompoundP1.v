(* Proofs/CompoundP1.v — auxiliary lemmas for Proofs/CompoundP.v:
   (1) the tokenizer is local at delimiters: tokens (s ++ d :: r) starts with tokens s;
   (2) the window scan of Model/Compound.v: soundness and the single-occurrence normal form;
   (3) small facts about join / contains / ends_with. *)
From Coq Require Import Lia.
From RN Require Import Base.Bytes Model.StyleDef Model.CaseModel Model.CaseSpec Model.Compound.
From RN Require Import Proofs.CaseP1.
Open Scope N_scope.

(* ------------------------------------------------------------------ lists *)
Lemma skipn_app_le {A} (l1 l2 : list A) n : (n <= length l1)%nat -> skipn n (l1 ++ l2) = skipn n l1 ++ l2.
Proof.
  intro H. rewrite skipn_app. replace (n - length l1)%nat with O by lia. reflexivity.
Qed.

(* ------------------------------------------------------------------ look-ahead stops at a delimiter *)
Lemma hd_is_app_tail (p : N -> bool) s tail : hd_is p tail = false ->
  hd_is p (s ++ tail) = hd_is p s.
Proof. intro H. destruct s; [exact H | reflexivity]. Qed.

Lemma span_app_stop (p : N -> bool) s tail : hd_is p tail = false ->
  span p (s ++ tail) = (fst (span p s), snd (span p s) ++ tail).
Proof.
  intro Ht. induction s as [|c s IH]; cbn [app].
  - destruct tail as [|d t]; [reflexivity|]. cbn in Ht. cbn [span]. rewrite Ht. reflexivity.
  - cbn [span]. destruct (p c) eqn:E; [|reflexivity].
    rewrite IH. destruct (span p s) as [a b]. reflexivity.
Qed.

Lemma tail_de_hd (p : N -> bool) tail :
  (forall d, is_delim d = true -> p d = false) -> tail_de tail -> hd_is p tail = false.
Proof. intros Hp Ht. destruct tail as [|d t]; [reflexivity|]. cbn in *. auto. Qed.

Lemma delim_not_digit c : is_delim c = true -> is_digit c = false.
Proof. bsolve. Qed.

Section Tok.
Variable acr : acr_tab.
Hypothesis Hwf : wf_acr acr = true.

Lemma flm_app_delim s tail : tail_de tail ->
  find_longest_match acr (s ++ tail) = find_longest_match acr s.
Proof.
  intro Ht. rewrite !flm_eq, (flm_len_app_delim acr s tail Hwf Ht).
  destruct (flm_len acr s) as [n|] eqn:E; [|reflexivity]. cbn [option_map].
  apply flm_len_some in E as (best & _ & Hp & Hl & _). apply ci_prefix_len in Hp.
  rewrite firstn_app_le by lia. reflexivity.
Qed.

Lemma flm_is_firstn s a : find_longest_match acr s = Some a ->
  exists n, (n <= length s)%nat /\ a = firstn n s.
Proof.
  rewrite flm_eq. destruct (flm_len acr s) as [n|] eqn:E; [|discriminate]. cbn [option_map].
  apply flm_len_some in E as (best & _ & Hp & Hl & _). apply ci_prefix_len in Hp.
  intro H; injection H as <-. exists n. split; [lia | reflexivity].
Qed.

Lemma try_acronym_app_delim b s tail : tail_de tail ->
  try_acronym acr b (s ++ tail) = try_acronym acr b s.
Proof.
  intro Ht. unfold try_acronym. rewrite (flm_app_delim s tail Ht).
  destruct (find_longest_match acr s) as [a|] eqn:E; [|reflexivity].
  destruct (flm_is_firstn s a E) as (n & Hn & ->).
  rewrite firstn_length_le by exact Hn.
  destruct (negb _); [reflexivity|].
  rewrite skipn_app_le by exact Hn.
  destruct (skipn n s) as [|nb t] eqn:Es; cbn [app].
  - destruct tail as [|d tl]; [reflexivity|]. cbn in Ht.
    rewrite (delim_not_upper _ Ht), (delim_not_digit _ Ht), (delim_not_lower _ Ht).
    rewrite !andb_false_r. reflexivity.
  - change (nb :: t ++ tail) with ((nb :: t) ++ tail). rewrite (flm_app_delim (nb :: t) tail Ht).
    reflexivity.
Qed.

Lemma try_upper_run_app_delim b s tail : tail_de tail ->
  try_upper_run acr b (s ++ tail) = try_upper_run acr b s.
Proof.
  intro Ht. unfold try_upper_run. destruct (is_upper b); [|reflexivity].
  rewrite (span_app_stop is_upper s tail (tail_de_hd _ _ delim_not_upper Ht)).
  destruct (span is_upper s) as [run after]. cbn [fst snd].
  rewrite (hd_is_app_tail is_lower after tail (tail_de_hd _ _ delim_not_lower Ht)). reflexivity.
Qed.

Lemma should_split_app_delim p b cur s s' tail : tail_de tail ->
  should_split acr p b cur (s ++ tail) (s' ++ tail) = should_split acr p b cur s s'.
Proof.
  intro Ht. unfold should_split.
  rewrite (hd_is_app_tail is_lower s' tail (tail_de_hd _ _ delim_not_lower Ht)).
  rewrite (span_app_stop (fun c => is_upper c || is_digit c) s tail)
    by (apply tail_de_hd; [apply delim_not_ud | exact Ht]).
  rewrite (span_app_stop is_upper s tail (tail_de_hd _ _ delim_not_upper Ht)).
  destruct (span (fun c => is_upper c || is_digit c) s) as [a1 b1].
  destruct (span is_upper s) as [a2 b2]. reflexivity.
Qed.

(* spare fuel is irrelevant *)
Lemma tok_fuel_irrel : forall f1 f2 prev rest cur acc,
  (length rest <= f1)%nat -> (length rest <= f2)%nat ->
  tok f1 acr prev rest cur acc = tok f2 acr prev rest cur acc.
Proof.
  induction f1 as [|f1 IH]; intros f2 prev rest cur acc H1 H2.
  - destruct rest; [|cbn in H1; lia]. destruct f2; reflexivity.
  - destruct rest as [|b rest']; [destruct f2; reflexivity|].
    destruct f2 as [|f2]; [cbn in H2; lia|].
    cbn [length] in H1, H2. cbn [tok].
    destruct (is_delim b); [apply IH; lia|].
    destruct (is_alpha b || is_digit b); [|apply IH; lia].
    destruct cur as [|c cur].
    + destruct (match try_acronym acr b (b :: rest') with
                | Some a => Some a | None => try_upper_run acr b (b :: rest') end) as [a|] eqn:E.
      * apply start_some in E as (k & Hk & ->).
        rewrite firstn_length_le by lia. apply IH; rewrite skipn_length; cbn [length] in *; lia.
      * destruct prev; apply IH; lia.
    + destruct prev as [p|]; [destruct (should_split acr p b (c :: cur) (b :: rest') rest')|];
        apply IH; lia.
Qed.

(* finished tokens are never touched again *)
Lemma tok_acc_prefix : forall fuel prev rest cur acc l,
  tok fuel acr prev rest cur acc = Some l -> exists X, l = rev acc ++ X.
Proof.
  assert (Hpush : forall cur acc, exists X, rev (push_tok cur acc) = rev acc ++ X).
  { intros cur acc. destruct cur; cbn [push_tok rev]; [exists []; rewrite app_nil_r; reflexivity|].
    eexists; reflexivity. }
  assert (Hext : forall (x : bytes) acc l, (exists X, l = rev (x :: acc) ++ X) -> exists X, l = rev acc ++ X).
  { intros x acc l [X ->]. cbn [rev]. rewrite <- app_assoc. eexists; reflexivity. }
  induction fuel as [|fuel IH]; intros prev rest cur acc l.
  - destruct rest; cbn [tok]; [|discriminate]. intro H; injection H as <-. apply Hpush.
  - destruct rest as [|b rest']; cbn [tok].
    { intro H; injection H as <-. apply Hpush. }
    destruct (is_delim b).
    { intro H. apply IH in H as [X ->]. destruct (Hpush cur acc) as [Y ->].
      rewrite <- app_assoc. eexists; reflexivity. }
    destruct (is_alpha b || is_digit b); [|apply IH].
    destruct cur as [|c cur].
    + destruct (match try_acronym acr b (b :: rest') with
                | Some a => Some a | None => try_upper_run acr b (b :: rest') end) as [a|].
      * intro H. apply IH in H. eapply Hext, H.
      * destruct prev; apply IH.
    + destruct prev as [p|]; [destruct (should_split acr p b (c :: cur) (b :: rest') rest')|];
        intro H; apply IH in H; auto. eapply Hext, H.
Qed.

(* the tokenizer state after [s] does not depend on what follows a delimiter *)
Lemma tok_split d r : is_delim d = true -> forall fuel s prev cur acc,
  (length (s ++ d :: r) <= fuel)%nat ->
  tok fuel acr prev (s ++ d :: r) cur acc =
  match tok fuel acr prev s cur acc with
  | Some l => tok (length r) acr (Some d) r [] (rev l)
  | None => None
  end.
Proof.
  intro Hd. assert (Ht : tail_de (d :: r)) by exact Hd.
  induction fuel as [|fuel IH]; intros s prev cur acc Hl.
  { rewrite app_length in Hl. cbn in Hl. lia. }
  destruct s as [|b s'].
  - cbn [app tok]. rewrite Hd, rev_involutive. cbn [app length] in Hl.
    apply tok_fuel_irrel; lia.
  - cbn [app length] in Hl. cbn [app tok].
    destruct (is_delim b); [apply IH; lia|].
    destruct (is_alpha b || is_digit b); [|apply IH; lia].
    destruct cur as [|c cur].
    + change (b :: s' ++ d :: r) with ((b :: s') ++ d :: r).
      rewrite (try_acronym_app_delim b (b :: s') (d :: r) Ht).
      rewrite (try_upper_run_app_delim b (b :: s') (d :: r) Ht).
      destruct (match try_acronym acr b (b :: s') with
                | Some a => Some a | None => try_upper_run acr b (b :: s') end) as [a|] eqn:E.
      * apply start_some in E as (k & Hk & ->).
        rewrite firstn_length_le by lia.
        rewrite skipn_app_le by lia.
        apply IH. rewrite app_length, skipn_length. rewrite app_length in Hl.
        cbn [length] in *. lia.
      * destruct prev; apply IH; lia.
    + destruct prev as [p|].
      * change (b :: s' ++ d :: r) with ((b :: s') ++ d :: r).
        rewrite (should_split_app_delim p b (c :: cur) (b :: s') s' (d :: r) Ht).
        destruct (should_split acr p b (c :: cur) (b :: s') s'); apply IH; lia.
      * apply IH; lia.
Qed.

Theorem tokens_app_delim d s r : is_delim d = true ->
  exists X, tokens acr (s ++ d :: r) = tokens acr s ++ X.
Proof.
  intro Hd. unfold tokens at 1, parse_to_tokens.
  rewrite (tok_split d r Hd) by lia.
  rewrite (tok_fuel_irrel _ (S (length s)) None s [] [])
    by (rewrite ?app_length; cbn [length]; lia).
  fold (parse_to_tokens acr s). unfold tokens.
  destruct (parse_to_tokens acr s) as [l|] eqn:E; [|exfalso; exact (tokens_total acr s E)].
  destruct (tok (length r) acr (Some d) r [] (rev l)) as [l'|] eqn:E2.
  - apply tok_acc_prefix in E2 as [X ->]. rewrite rev_involutive. eexists; reflexivity.
  - exfalso. exact (tok_total _ _ _ _ _ _ (le_n _) E2).
Qed.

End Tok.

(* ------------------------------------------------------------------ tokens_match *)
Lemma tokens_match_spec a b : tokens_match a b = true <-> map lower a = map lower b.
Proof.
  revert b; induction a as [|x a IH]; intros [|y b]; cbn [tokens_match map]; split; intro H;
    try reflexivity; try discriminate.
  - apply andb_true_iff in H as [H1 H2]. apply beq_eq in H1. apply IH in H2. congruence.
  - injection H as H1 H2. apply andb_true_iff. split; [apply beq_eq, H1 | apply IH, H2].
Qed.

(* ------------------------------------------------------------------ windows *)
(* [ot] occurs in [it] as a contiguous window, case-insensitively *)
Definition ci_window (ot it : list bytes) : Prop :=
  exists l1 w l2, it = l1 ++ w ++ l2 /\ map lower w = map lower ot.

Lemma ci_window_cons ot x it : ci_window ot it -> ci_window ot (x :: it).
Proof. intros (l1 & w & l2 & -> & H). exists (x :: l1), w, l2. auto. Qed.

Section Scan.
Variable acr : acr_tab.
Variables ident idw : bytes.
Variables ot nt : list bytes.

Lemma scan_sound : forall l skip r n,
  scan acr ident idw ot nt skip l = (r, n) -> n <> O -> ci_window ot l.
Proof.
  induction l as [|x l IH]; intros skip r n; cbn [scan].
  - intro H; injection H as <- <-. contradiction.
  - destruct skip as [|k].
    + destruct (tokens_match (firstn (length ot) (x :: l)) ot) eqn:E.
      * intros _ _. apply tokens_match_spec in E.
        exists [], (firstn (length ot) (x :: l)), (skipn (length ot) (x :: l)).
        split; [|exact E]. cbn [app]. symmetry. apply firstn_skipn.
      * destruct (scan acr ident idw ot nt 0 l) as [r' n'] eqn:E2.
        intro H; injection H as <- <-. intro Hn. apply ci_window_cons. eapply IH; eauto.
    + intros H Hn. apply ci_window_cons. eapply IH; eauto.
Qed.

Lemma scan_skip : forall k l, scan acr ident idw ot nt k l = scan acr ident idw ot nt 0 (skipn k l).
Proof.
  induction k as [|k IH]; intros l; [reflexivity|].
  destruct l as [|x l]; [reflexivity|]. cbn [scan skipn]. apply IH.
Qed.

Lemma scan_none : forall l, ~ ci_window ot l -> scan acr ident idw ot nt 0 l = (l, O).
Proof.
  induction l as [|x l IH]; intro Hno; [reflexivity|]. cbn [scan].
  destruct (tokens_match (firstn (length ot) (x :: l)) ot) eqn:E.
  - exfalso. apply Hno. apply tokens_match_spec in E.
    exists [], (firstn (length ot) (x :: l)), (skipn (length ot) (x :: l)).
    split; [|exact E]. cbn [app]. symmetry. apply firstn_skipn.
  - rewrite IH; [reflexivity|]. intro Hw. apply Hno, ci_window_cons, Hw.
Qed.

(* exactly one occurrence: nothing before it (not even straddling into it), nothing after it *)
Lemma scan_one : forall pre w post,
  ot <> [] -> map lower w = map lower ot ->
  ~ ci_window ot (pre ++ removelast w) -> ~ ci_window ot post ->
  scan acr ident idw ot nt 0 (pre ++ w ++ post) =
  (pre ++ style_new acr nt w (final_style acr ident idw w) ++ post, 1%nat).
Proof.
  intros pre w post Hne Hw Hpre Hpost.
  assert (Hlen : length w = length ot).
  { rewrite <- (map_length lower w), Hw, map_length. reflexivity. }
  induction pre as [|x pre IH].
  - cbn [app] in *. destruct w as [|x w']; [destruct ot; [contradiction | discriminate]|].
    cbn [app scan].
    change (x :: w' ++ post) with ((x :: w') ++ post).
    rewrite firstn_app_exact by exact Hlen.
    rewrite (proj2 (tokens_match_spec _ _) Hw).
    rewrite scan_skip. cbn [length] in Hlen.
    rewrite skipn_app_exact by lia.
    rewrite (scan_none post Hpost). reflexivity.
  - cbn [app scan].
    destruct (tokens_match (firstn (length ot) (x :: pre ++ w ++ post)) ot) eqn:E.
    + exfalso. apply Hpre. apply tokens_match_spec in E.
      destruct w as [|y w'] using rev_ind; [destruct ot; [contradiction | discriminate]|].
      clear IHw'. rewrite removelast_last.
      rewrite app_length in Hlen. cbn [length] in Hlen.
      assert (Hf : firstn (length ot) (x :: pre ++ (w' ++ [y]) ++ post) =
                   firstn (length ot) (x :: pre ++ w')).
      { replace (x :: pre ++ (w' ++ [y]) ++ post) with ((x :: pre ++ w') ++ ([y] ++ post))
          by (cbn [app]; rewrite <- !app_assoc; reflexivity).
        apply firstn_app_le. cbn [length]. rewrite app_length. lia. }
      rewrite Hf in E.
      exists [], (firstn (length ot) (x :: pre ++ w')), (skipn (length ot) (x :: pre ++ w')).
      split; [|exact E]. cbn [app]. symmetry. apply firstn_skipn.
    + rewrite IH; [reflexivity|]. intro Hw'. apply Hpre. cbn [app]. apply ci_window_cons, Hw'.
Qed.

End Scan.

(* ------------------------------------------------------------------ join / contains / ends_with *)
Lemma join_cons2 sep (x y : bytes) l : join sep (x :: y :: l) = x ++ sep ++ join sep (y :: l).
Proof. reflexivity. Qed.

Lemma join_snoc sep l (w : bytes) : l <> [] -> join sep (l ++ [w]) = join sep l ++ sep ++ w.
Proof.
  induction l as [|x l IH]; intro H; [contradiction|].
  destruct l as [|y l]; [reflexivity|].
  change ((x :: y :: l) ++ [w]) with (x :: y :: (l ++ [w])). rewrite !join_cons2.
  change (y :: l ++ [w]) with ((y :: l) ++ [w]). rewrite IH by discriminate.
  rewrite <- !app_assoc. reflexivity.
Qed.

Lemma ends_with_app c s x : ends_with c (s ++ [x]) = (x =? c).
Proof.
  induction s as [|y s IH]; [reflexivity|].
  cbn [app]. destruct (s ++ [x]) as [|z t] eqn:E; [destruct s; discriminate|].
  change (ends_with c (y :: z :: t)) with (ends_with c (z :: t)). exact IH.
Qed.

Lemma ends_with_app_ne c s t : t <> [] -> ends_with c (s ++ t) = ends_with c t.
Proof.
  intro H. destruct t as [|y t] using rev_ind; [contradiction|]. clear IHt.
  rewrite app_assoc, !ends_with_app. reflexivity.
Qed.

Lemma join_app sep (a b : list bytes) : a <> [] -> b <> [] ->
  join sep (a ++ b) = join sep a ++ sep ++ join sep b.
Proof.
  intros Ha Hb. induction a as [|x a IH]; [contradiction|].
  destruct a as [|y a].
  - destruct b as [|z b]; [contradiction|]. reflexivity.
  - change ((x :: y :: a) ++ b) with (x :: y :: (a ++ b)). rewrite !join_cons2.
    change (y :: a ++ b) with ((y :: a) ++ b). rewrite IH by discriminate.
    rewrite <- !app_assoc. reflexivity.
Qed.

(* joining a token that is itself a join is the join of the flattened list *)
Lemma join_flatten sep (a X b : list bytes) : X <> [] ->
  join sep (a ++ [join sep X] ++ b) = join sep (a ++ X ++ b).
Proof.
  intro HX.
  assert (H1 : join sep ([join sep X] ++ b) = join sep (X ++ b)).
  { destruct b as [|z b]; [rewrite !app_nil_r; reflexivity|].
    rewrite (join_app sep X (z :: b)) by (auto; discriminate). reflexivity. }
  destruct a as [|x a]; [exact H1|].
  rewrite (join_app sep (x :: a) ([join sep X] ++ b)) by discriminate.
  rewrite (join_app sep (x :: a) (X ++ b)); [|discriminate|].
  - rewrite H1. reflexivity.
  - destruct X; [contradiction | discriminate].
Qed.
