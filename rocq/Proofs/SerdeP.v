(* Proofs/SerdeP.v — decode (encode x) = Some x for the plan structs, for ALL values, from the
   serde attributes transcribed from the current source (Gen/GenSerde.v). *)
From Coq Require Import Strings.String.
From RN Require Import Base.Bytes Base.Str Model.SerdeAttr Gen.GenSerde Model.Serde.

Lemma lookup_app k o1 o2 :
  lookup k (o1 ++ o2) = match lookup k o1 with Some v => Some v | None => lookup k o2 end.
Proof.
  induction o1 as [|[k' v] o1 IH]; cbn [app lookup]; [reflexivity|].
  destruct (beq k k'); [reflexivity|apply IH].
Qed.

Lemma lookup_emit k skip a j :
  lookup k (emit skip a j) = if (negb skip && beq k (fa_name a))%bool then Some j else None.
Proof. unfold emit. destruct skip; cbn; [reflexivity|]. destruct (beq k (fa_name a)); reflexivity. Qed.

Lemma mapM_map {A B} (enc : A -> B) (dec : B -> option A) (l : list A) :
  (forall x, dec (enc x) = Some x) -> mapM dec (map enc l) = Some l.
Proof.
  intro H. induction l as [|x l IH]; cbn; [reflexivity|]. rewrite H, IH. reflexivity.
Qed.

Lemma dec_arr_str l : dec_arr dec_str (JArr (map JStr l)) = Some l.
Proof. cbn. apply mapM_map. reflexivity. Qed.

(* One field at a time: evaluate the attribute rows (literals), push the lookup through the
   concatenation, evaluate the key comparisons, then split on the emptiness of whatever
   value is still scrutinised. *)
Ltac eval_attrs :=
  repeat match goal with
         | |- context [at_ ?T ?k] =>
           let v := eval vm_compute in (at_ T k) in change (at_ T k) with v
         end.
Ltac eval_beq :=
  repeat match goal with
         | |- context [beq ?a ?b] =>
           let v := eval vm_compute in (beq a b) in change (beq a b) with v
         end.
Ltac split_scrutinee :=
  repeat match goal with
         | |- context [match ?x with _ => _ end] => is_var x; destruct x
         end.
Ltac proj_tac :=
  cbn [h_file h_line h_byte_offset h_char_offset h_variant h_content h_replace h_start h_end
       h_line_before h_line_after h_coercion h_original_file h_renamed_file h_patch_hash
       r_path r_new_path r_kind r_coercion
       st_files_scanned st_total_matches st_by_variant st_files_with_matches
       p_id p_created_at p_search p_replace p_styles p_includes p_excludes p_matches p_paths
       p_stats p_version p_created_dirs].
Ltac field_tac :=
  unfold hunk_obj, rename_obj, stats_obj, plan_obj; proj_tac;
  eval_attrs;
  unfold get_str, get_num, get_optstr, get_json, emit_str, emit_num, emit_optstr, emit_json;
  repeat rewrite lookup_app; repeat rewrite lookup_emit;
  cbn [fa_name fa_skip fa_default skips_str skips_opt];
  eval_beq;
  cbn [negb andb enc_opt];
  split_scrutinee; cbn [negb andb enc_opt]; try reflexivity.

Section HunkRT.
  Variable h : hunk.
  Notation T := gen_matchhunk.
  Notation o := (hunk_obj gen_matchhunk h).
  Lemma hf_file : get_str (at_ T (bs "file")) o = Some (h_file h).            Proof. destruct h; field_tac. Qed.
  Lemma hf_line : get_num (at_ T (bs "line")) o = Some (h_line h).            Proof. destruct h; field_tac. Qed.
  Lemma hf_bo : get_num (at_ T (bs "byte_offset")) o = Some (h_byte_offset h). Proof. destruct h; field_tac. Qed.
  Lemma hf_co : get_num (at_ T (bs "char_offset")) o = Some (h_char_offset h). Proof. destruct h; field_tac. Qed.
  Lemma hf_variant : get_str (at_ T (bs "variant")) o = Some (h_variant h).   Proof. destruct h; field_tac. Qed.
  Lemma hf_content : get_str (at_ T (bs "content")) o = Some (h_content h).   Proof. destruct h; field_tac. Qed.
  Lemma hf_replace : get_str (at_ T (bs "replace")) o = Some (h_replace h).   Proof. destruct h; field_tac. Qed.
  Lemma hf_start : get_num (at_ T (bs "start")) o = Some (h_start h).         Proof. destruct h; field_tac. Qed.
  Lemma hf_end : get_num (at_ T (bs "end")) o = Some (h_end h).               Proof. destruct h; field_tac. Qed.
  Lemma hf_lb : get_optstr (at_ T (bs "line_before")) o = Some (h_line_before h). Proof. destruct h; field_tac. Qed.
  Lemma hf_la : get_optstr (at_ T (bs "line_after")) o = Some (h_line_after h).   Proof. destruct h; field_tac. Qed.
  Lemma hf_ca : get_optstr (at_ T (bs "coercion_applied")) o = Some (h_coercion h). Proof. destruct h; field_tac. Qed.
  Lemma hf_of : get_optstr (at_ T (bs "original_file")) o = Some (h_original_file h). Proof. destruct h; field_tac. Qed.
  Lemma hf_rf : get_optstr (at_ T (bs "renamed_file")) o = Some (h_renamed_file h).   Proof. destruct h; field_tac. Qed.
  Lemma hf_ph : get_optstr (at_ T (bs "patch_hash")) o = Some (h_patch_hash h).       Proof. destruct h; field_tac. Qed.
End HunkRT.

Theorem hunk_roundtrip : forall h, decode_hunk gen_matchhunk (encode_hunk gen_matchhunk h) = Some h.
Proof.
  intro h. unfold decode_hunk, encode_hunk.
  rewrite hf_file, hf_line, hf_bo, hf_co, hf_variant, hf_content, hf_replace, hf_start, hf_end,
          hf_lb, hf_la, hf_ca, hf_of, hf_rf, hf_ph.
  destruct h; reflexivity.
Qed.

Section RenameRT.
  Variable r : rename.
  Notation T := gen_rename.
  Notation o := (rename_obj gen_rename r).
  Lemma rf_path : get_str (at_ T (bs "path")) o = Some (r_path r).         Proof. destruct r; field_tac. Qed.
  Lemma rf_new : get_str (at_ T (bs "new_path")) o = Some (r_new_path r).  Proof. destruct r; field_tac. Qed.
  Lemma rf_kind : get_json (at_ T (bs "kind")) o = Some (enc_kind (r_kind r)). Proof. destruct r; field_tac. Qed.
  Lemma rf_co : get_optstr (at_ T (bs "coercion_applied")) o = Some (r_coercion r). Proof. destruct r; field_tac. Qed.
End RenameRT.

Theorem rename_roundtrip : forall r, decode_rename gen_rename (encode_rename gen_rename r) = Some r.
Proof.
  intro r. unfold decode_rename, encode_rename.
  rewrite rf_path, rf_new, rf_kind, rf_co.
  destruct r as [p np k c]; destruct k; reflexivity.
Qed.

Section StatsRT.
  Variable s : stats.
  Notation T := gen_stats.
  Notation o := (stats_obj gen_stats s).
  Lemma sf_a : get_num (at_ T (bs "files_scanned")) o = Some (st_files_scanned s). Proof. destruct s; field_tac. Qed.
  Lemma sf_b : get_num (at_ T (bs "total_matches")) o = Some (st_total_matches s). Proof. destruct s; field_tac. Qed.
  Lemma sf_c : get_json (at_ T (bs "matches_by_variant")) o =
               Some (JObj (map (fun kv => (fst kv, JNum (snd kv))) (st_by_variant s))). Proof. destruct s; field_tac. Qed.
  Lemma sf_d : get_num (at_ T (bs "files_with_matches")) o = Some (st_files_with_matches s). Proof. destruct s; field_tac. Qed.
End StatsRT.

Theorem stats_roundtrip : forall s, decode_stats gen_stats (encode_stats gen_stats s) = Some s.
Proof.
  intro s. unfold decode_stats, encode_stats.
  rewrite sf_a, sf_b, sf_c, sf_d.
  rewrite (mapM_map (fun kv : bytes * N => (fst kv, JNum (snd kv))) dec_kv).
  - destruct s; reflexivity.
  - intros [k n]; reflexivity.
Qed.

Section PlanRT.
  Variable p : plan.
  Notation T := gen_plan.
  Notation o := (plan_obj gen_plan gen_matchhunk gen_rename gen_stats p).
  Lemma pf_id : get_str (at_ T (bs "id")) o = Some (p_id p).                 Proof. destruct p; field_tac. Qed.
  Lemma pf_ca : get_str (at_ T (bs "created_at")) o = Some (p_created_at p). Proof. destruct p; field_tac. Qed.
  Lemma pf_se : get_str (at_ T (bs "search")) o = Some (p_search p).         Proof. destruct p; field_tac. Qed.
  Lemma pf_re : get_str (at_ T (bs "replace")) o = Some (p_replace p).       Proof. destruct p; field_tac. Qed.
  Lemma pf_st : get_json (at_ T (bs "styles")) o = Some (JArr (map JStr (p_styles p))).     Proof. destruct p; field_tac. Qed.
  Lemma pf_in : get_json (at_ T (bs "includes")) o = Some (JArr (map JStr (p_includes p))). Proof. destruct p; field_tac. Qed.
  Lemma pf_ex : get_json (at_ T (bs "excludes")) o = Some (JArr (map JStr (p_excludes p))). Proof. destruct p; field_tac. Qed.
  Lemma pf_ma : get_json (at_ T (bs "matches")) o = Some (JArr (map (encode_hunk gen_matchhunk) (p_matches p))). Proof. destruct p; field_tac. Qed.
  Lemma pf_pa : get_json (at_ T (bs "paths")) o = Some (JArr (map (encode_rename gen_rename) (p_paths p))).     Proof. destruct p; field_tac. Qed.
  Lemma pf_ss : get_json (at_ T (bs "stats")) o = Some (encode_stats gen_stats (p_stats p)). Proof. destruct p; field_tac. Qed.
  Lemma pf_ve : get_str (at_ T (bs "version")) o = Some (p_version p).       Proof. destruct p; field_tac. Qed.
  Lemma pf_cd : get_optlist (at_ T (bs "created_directories")) o = Some (p_created_dirs p).
  Proof.
    destruct p as [? ? ? ? ? ? ? ? ? ? ? cd]; unfold get_optlist, plan_obj.
    proj_tac. eval_attrs. unfold emit_str, emit_json.
    repeat rewrite lookup_app; repeat rewrite lookup_emit.
    cbn [fa_name fa_skip fa_default skips_str skips_opt p_created_dirs]. eval_beq.
    cbn [negb andb].
    destruct cd as [l|]; cbn [negb andb enc_opt]; [|split_scrutinee; reflexivity].
    split_scrutinee; rewrite dec_arr_str; reflexivity.
  Qed.
End PlanRT.

(* C17 core: every plan value survives serialisation and deserialisation *)
Theorem plan_roundtrip : forall p, dec_plan (enc_plan p) = Some p.
Proof.
  intro p. unfold dec_plan, enc_plan, decode_plan, encode_plan.
  rewrite pf_id, pf_ca, pf_se, pf_re, pf_st, pf_in, pf_ex, pf_ma, pf_pa, pf_ss, pf_ve, pf_cd.
  rewrite !dec_arr_str.
  unfold dec_arr.
  rewrite (mapM_map (encode_hunk gen_matchhunk) (decode_hunk gen_matchhunk)) by apply hunk_roundtrip.
  rewrite (mapM_map (encode_rename gen_rename) (decode_rename gen_rename)) by apply rename_roundtrip.
  rewrite stats_roundtrip.
  destruct p; reflexivity.
Qed.

(* the field lists the hand-written records assume are the ones in the source *)
Example hunk_fields_match_source :
  map fa_name gen_matchhunk =
  map bs ["file"; "line"; "byte_offset"; "char_offset"; "variant"; "content"; "replace"; "start";
          "end"; "line_before"; "line_after"; "coercion_applied"; "original_file"; "renamed_file";
          "patch_hash"]%string.
Proof. vm_compute. reflexivity. Qed.
Example rename_fields_match_source :
  map fa_name gen_rename = map bs ["path"; "new_path"; "kind"; "coercion_applied"]%string.
Proof. vm_compute. reflexivity. Qed.
Example stats_fields_match_source :
  map fa_name gen_stats =
  map bs ["files_scanned"; "total_matches"; "matches_by_variant"; "files_with_matches"]%string.
Proof. vm_compute. reflexivity. Qed.
Example plan_fields_match_source :
  map fa_name gen_plan =
  map bs ["id"; "created_at"; "search"; "replace"; "styles"; "includes"; "excludes"; "matches";
          "paths"; "stats"; "version"; "created_directories"]%string.
Proof. vm_compute. reflexivity. Qed.

(* non-vacuity and the corner the property names: empty replacement, search-mode rename *)
Example empty_replacement_roundtrips :
  let h := {| h_file := bs "a.txt"; h_line := 1; h_byte_offset := 0; h_char_offset := 0;
              h_variant := bs "old"; h_content := bs "old"; h_replace := []; h_start := 0; h_end := 3;
              h_line_before := Some (bs "old"); h_line_after := Some []; h_coercion := None;
              h_original_file := None; h_renamed_file := None; h_patch_hash := None |} in
  decode_hunk gen_matchhunk (encode_hunk gen_matchhunk h) = Some h /\
  lookup (bs "replace") (hunk_obj gen_matchhunk h) = None.
Proof. vm_compute. split; reflexivity. Qed.
