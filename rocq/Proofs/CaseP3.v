(* Proofs/CaseP3.v — detect_style on rendered names (T2), idempotence (T3), injectivity in the
   style (T4), the variant table (T5), the default acronym table (T6). *)
From Coq Require Import Lia ZArith ZifyBool.
From RN Require Import Base.Bytes Model.StyleDef Model.CaseModel Model.CaseSpec.
From RN Require Import Proofs.CaseP1 Proofs.CaseP2.
Open Scope N_scope.

(* ------------------------------------------------------------------ existsb helpers *)
Lemma existsb_false_forall {A} (p q : A -> bool) l :
  (forall x, q x = true -> p x = false) -> forallb q l = true -> existsb p l = false.
Proof.
  intros H. induction l as [|x l IH]; cbn [forallb existsb]; [reflexivity|].
  intro Hq. apply andb_true_iff in Hq as [Hx Hq]. rewrite (H x Hx), (IH Hq). reflexivity.
Qed.

Lemma existsb_concat {A} (p : A -> bool) Xs : existsb p (concat Xs) = existsb (existsb p) Xs.
Proof.
  induction Xs as [|X Xs IH]; cbn [concat existsb]; [reflexivity|].
  rewrite existsb_app, IH. reflexivity.
Qed.

Lemma existsb_join_cons p d X Xs :
  existsb p (join [d] (X :: Xs)) =
  existsb (existsb p) (X :: Xs) || (Nat.leb 2 (length (X :: Xs)) && p d).
Proof.
  revert X; induction Xs as [|Y Zs IH]; intros X.
  - cbn [join existsb length Nat.leb andb]. rewrite !orb_false_r. reflexivity.
  - change (join [d] (X :: Y :: Zs)) with (X ++ d :: join [d] (Y :: Zs)).
    rewrite existsb_app. cbn [existsb]. rewrite IH.
    cbn [existsb length Nat.leb andb].
    destruct (existsb p X), (p d), (existsb p Y), (existsb (existsb p) Zs),
      (match length Zs with O => false | S _ => true end); reflexivity.
Qed.

Lemma existsb_join p d Xs : (2 <= length Xs)%nat ->
  existsb p (join [d] Xs) = existsb (existsb p) Xs || p d.
Proof.
  intro H. destruct Xs as [|X Xs]; [cbn in H; lia|]. rewrite existsb_join_cons.
  replace (Nat.leb 2 (length (X :: Xs))) with true by (symmetry; apply Nat.leb_le, H).
  reflexivity.
Qed.

Lemma existsb2_false {A} (p : A -> bool) Xs :
  Forall (fun X => existsb p X = false) Xs -> existsb (existsb p) Xs = false.
Proof. induction 1 as [|X Xs H _ IH]; cbn [existsb]; [reflexivity|]. rewrite H, IH. reflexivity. Qed.

Lemma existsb2_hd {A} (p : A -> bool) X Xs : existsb p X = true -> existsb (existsb p) (X :: Xs) = true.
Proof. intro H. cbn [existsb]. rewrite H. reflexivity. Qed.

(* ------------------------------------------------------------------ per-word character classes *)
Section WordFacts.
Variable acr : acr_tab.
Variable w : bytes.
Hypothesis Hn : neutral acr w = true.

Lemma nw_up_low : existsb is_upper w = false.
Proof.
  destruct (neutral_inv _ _ Hn) as (_ & Hlow & _).
  eapply existsb_false_forall; [|exact Hlow]. apply lower_not_upper.
Qed.

Lemma nw_lo_low : existsb is_lower w = true.
Proof.
  destruct (neutral_shape _ _ Hn) as (c & c1 & w2 & -> & Hc & _). cbn [existsb]. rewrite Hc. reflexivity.
Qed.

Lemma nw_up_up : existsb is_upper (upper w) = true.
Proof.
  destruct (neutral_shape _ _ Hn) as (c & c1 & w2 & -> & Hc & _). cbn [upper map existsb].
  rewrite (to_upper_lower_is_upper _ Hc). reflexivity.
Qed.

Lemma nw_lo_up : existsb is_lower (upper w) = false.
Proof.
  destruct (neutral_inv _ _ Hn) as (_ & Hlow & _).
  eapply existsb_false_forall; [|exact (upper_all_upper _ Hlow)]. apply upper_not_lower.
Qed.

Lemma nw_up_cap : existsb is_upper (capw w) = true.
Proof.
  destruct (neutral_shape _ _ Hn) as (c & c1 & w2 & -> & Hc & _). cbn [capw existsb].
  rewrite (to_upper_lower_is_upper _ Hc). reflexivity.
Qed.

Lemma nw_lo_cap : existsb is_lower (capw w) = true.
Proof.
  destruct (neutral_shape _ _ Hn) as (c & c1 & w2 & -> & Hc & Hc1 & _). cbn [capw existsb].
  rewrite Hc1, orb_true_r. reflexivity.
Qed.

Lemma nw_alpha_low : forallb is_alpha w = true.
Proof.
  destruct (neutral_inv _ _ Hn) as (_ & Hlow & _). eapply forallb_impl; [|exact Hlow]. apply lower_alpha.
Qed.

Lemma nw_alpha_up : forallb is_alpha (upper w) = true.
Proof.
  destruct (neutral_inv _ _ Hn) as (_ & Hlow & _).
  eapply forallb_impl; [|exact (upper_all_upper _ Hlow)]. apply upper_alpha.
Qed.

Lemma nw_alpha_cap : forallb is_alpha (capw w) = true.
Proof.
  destruct (neutral_inv _ _ Hn) as (_ & Hlow & _). clear Hn.
  destruct w as [|c w']; [reflexivity|]. cbn [capw forallb] in *.
  apply andb_true_iff in Hlow as [Hc Hlow].
  rewrite (upper_alpha _ (to_upper_lower_is_upper _ Hc)). cbn [andb].
  eapply forallb_impl; [|exact Hlow]. apply lower_alpha.
Qed.

Lemma nw_title_cap : is_title_word (capw w) = true.
Proof.
  destruct (neutral_inv _ _ Hn) as (_ & Hlow & _).
  destruct (neutral_shape _ _ Hn) as (c & c1 & w2 & -> & Hc & _). cbn [capw is_title_word].
  rewrite (to_upper_lower_is_upper _ Hc).
  cbn [forallb] in Hlow. apply andb_true_iff in Hlow as [_ Hlow]. exact Hlow.
Qed.

Lemma nw_title_low : is_title_word w = false.
Proof.
  destruct (neutral_shape _ _ Hn) as (c & c1 & w2 & -> & Hc & _). cbn [is_title_word].
  rewrite (lower_not_upper _ Hc). reflexivity.
Qed.

Lemma nw_noupper : forallb (fun c => negb (is_upper c)) w = true.
Proof.
  destruct (neutral_inv _ _ Hn) as (_ & Hlow & _). eapply forallb_impl; [|exact Hlow].
  intros x Hx. rewrite (lower_not_upper _ Hx). reflexivity.
Qed.
End WordFacts.

Lemma good_alpha acr X w : good acr X w -> forallb is_alpha X = true.
Proof.
  intros [Hn [->|[->| ->]]]; eauto using nw_alpha_low, nw_alpha_up, nw_alpha_cap.
Qed.

Lemma alpha_no_byte X d : is_alpha d = false -> forallb is_alpha X = true -> existsb (N.eqb d) X = false.
Proof.
  intros Hd. apply existsb_false_forall. intros x Hx.
  destruct (d =? x) eqn:E; [|reflexivity]. apply N.eqb_eq in E. subst x. congruence.
Qed.

Lemma good_list_no_byte acr Xs ws d : is_alpha d = false -> Forall2 (good acr) Xs ws ->
  existsb (existsb (N.eqb d)) Xs = false.
Proof.
  intros Hd HF. apply existsb2_false. induction HF as [|X w Xs ws HX _ IH]; constructor; auto.
  eapply alpha_no_byte; eauto using good_alpha.
Qed.

(* ------------------------------------------------------------------ per-list character classes *)
Section ListFacts.
Variable acr : acr_tab.
Variable ws : list bytes.
Hypothesis HF : Forall (fun w => neutral acr w = true) ws.

Lemma nl_up_low : existsb (existsb is_upper) ws = false.
Proof. apply existsb2_false. eapply Forall_impl; [|exact HF]. intros w Hw. eapply nw_up_low, Hw. Qed.

Lemma nl_lo_up : existsb (existsb is_lower) (map upper ws) = false.
Proof.
  apply existsb2_false. rewrite Forall_map. eapply Forall_impl; [|exact HF].
  intros w Hw. eapply nw_lo_up, Hw.
Qed.

Hypothesis Hne : ws <> [].

Lemma nl_lo_low : existsb (existsb is_lower) ws = true.
Proof. destruct HF as [|w ws' Hw _]; [contradiction|]. eapply existsb2_hd, nw_lo_low, Hw. Qed.

Lemma nl_up_up : existsb (existsb is_upper) (map upper ws) = true.
Proof. destruct HF as [|w ws' Hw _]; [contradiction|]. cbn [map]. eapply existsb2_hd, nw_up_up, Hw. Qed.

Lemma nl_up_cap : existsb (existsb is_upper) (map capw ws) = true.
Proof. destruct HF as [|w ws' Hw _]; [contradiction|]. cbn [map]. eapply existsb2_hd, nw_up_cap, Hw. Qed.

Lemma nl_lo_cap : existsb (existsb is_lower) (map capw ws) = true.
Proof. destruct HF as [|w ws' Hw _]; [contradiction|]. cbn [map]. eapply existsb2_hd, nw_lo_cap, Hw. Qed.
End ListFacts.

(* ------------------------------------------------------------------ separators and flags *)
Definition sep_of (S : style) : option N :=
  match S with
  | Snake | ScreamingSnake => Some 95
  | Kebab | Train | ScreamingTrain => Some 45
  | Dot => Some 46
  | Title | Sentence | LowerSentence | UpperSentence => Some 32
  | Camel | Pascal | LowerFlat | UpperFlat => None
  end.

Definition up_of (S : style) : bool :=
  match S with Snake | Kebab | Dot | LowerSentence | LowerFlat => false | _ => true end.
Definition lo_of (S : style) : bool :=
  match S with ScreamingSnake | ScreamingTrain | UpperSentence | UpperFlat => false | _ => true end.

Lemma render_sep S ws : ws <> [] ->
  render S ws = match sep_of S with
                | Some d => join [d] (toks_of S ws)
                | None => concat (toks_of S ws)
                end.
Proof. intro H. destruct ws as [|w0 ws]; [contradiction|]. destruct S; reflexivity. Qed.

Lemma toks_of_length S ws : length (toks_of S ws) = length ws.
Proof. destruct S; cbn [toks_of]; rewrite ?map_length; auto; destruct ws; cbn [length]; rewrite ?map_length; auto. Qed.

Lemma sep_of_delim S d : sep_of S = Some d -> is_delim d = true.
Proof. destruct S; cbn; intro H; inversion H; reflexivity. Qed.

Section Flags.
Variable acr : acr_tab.
Variable ws : list bytes.
Hypothesis Hn : all_neutral acr ws = true.
Hypothesis Hlen : (2 <= length ws)%nat.

Lemma flag_byte S d : is_delim d = true ->
  existsb (N.eqb d) (render S ws) = match sep_of S with Some d' => d =? d' | None => false end.
Proof.
  intro Hd. assert (Hne : ws <> []) by (destruct ws; [cbn in Hlen; lia | discriminate]).
  rewrite (render_sep S ws Hne).
  assert (Ha : is_alpha d = false) by (clear - Hd; bsolve).
  pose proof (good_list_no_byte acr _ _ d Ha (toks_of_good acr S ws Hn)) as E.
  destruct (sep_of S) as [d'|].
  - rewrite existsb_join by (rewrite toks_of_length; exact Hlen). rewrite E. reflexivity.
  - rewrite existsb_concat. exact E.
Qed.

Lemma flag_class p S : (forall d, is_delim d = true -> p d = false) ->
  existsb p (render S ws) = existsb (existsb p) (toks_of S ws).
Proof.
  intro Hp. assert (Hne : ws <> []) by (destruct ws; [cbn in Hlen; lia | discriminate]).
  rewrite (render_sep S ws Hne). destruct (sep_of S) as [d'|] eqn:E.
  - rewrite existsb_join by (rewrite toks_of_length; exact Hlen).
    rewrite (Hp d' (sep_of_delim _ _ E)). apply orb_false_r.
  - apply existsb_concat.
Qed.

Lemma toks_up S : existsb (existsb is_upper) (toks_of S ws) = up_of S.
Proof.
  pose proof (proj1 (all_neutral_Forall acr ws) Hn) as HF.
  assert (Hne : ws <> []) by (destruct ws; [cbn in Hlen; lia | discriminate]).
  destruct S; cbn [toks_of up_of];
    eauto using nl_up_low, nl_up_up, nl_up_cap.
  - (* Camel *) destruct ws as [|w0 [|w1 ws']]; cbn [length] in Hlen; try lia.
    inversion HF as [|? ? H0 HF']; subst. cbn [existsb].
    rewrite (nw_up_low acr w0 H0). cbn [orb]. eapply nl_up_cap; eauto. discriminate.
  - (* Sentence *) destruct ws as [|w0 ws']; [contradiction|].
    inversion HF as [|? ? H0 HF']; subst. eapply existsb2_hd, nw_up_cap, H0.
Qed.

Lemma toks_lo S : existsb (existsb is_lower) (toks_of S ws) = lo_of S.
Proof.
  pose proof (proj1 (all_neutral_Forall acr ws) Hn) as HF.
  assert (Hne : ws <> []) by (destruct ws; [cbn in Hlen; lia | discriminate]).
  destruct S; cbn [toks_of lo_of];
    eauto using nl_lo_low, nl_lo_up, nl_lo_cap.
  - (* Camel *) destruct ws as [|w0 ws']; [contradiction|].
    inversion HF as [|? ? H0 HF']; subst. eapply existsb2_hd, nw_lo_low, H0.
  - (* Sentence *) destruct ws as [|w0 ws']; [contradiction|].
    inversion HF as [|? ? H0 HF']; subst. eapply existsb2_hd, nw_lo_cap, H0.
Qed.

Lemma flag_up S : existsb is_upper (render S ws) = up_of S.
Proof. rewrite flag_class by apply delim_not_upper. apply toks_up. Qed.

Lemma flag_lo S : existsb is_lower (render S ws) = lo_of S.
Proof. rewrite flag_class by apply delim_not_lower. apply toks_lo. Qed.
End Flags.

(* ------------------------------------------------------------------ split_on *)
Lemma split_on_word sep X : existsb (N.eqb sep) X = false -> split_on sep X = [X].
Proof.
  induction X as [|c X IH]; cbn [existsb split_on]; [reflexivity|].
  intro H. apply orb_false_iff in H as [Hc H]. rewrite N.eqb_sym in Hc. rewrite Hc, (IH H). reflexivity.
Qed.

Lemma split_on_app sep X r : existsb (N.eqb sep) X = false ->
  split_on sep (X ++ sep :: r) = X :: split_on sep r.
Proof.
  induction X as [|c X IH]; cbn [existsb split_on app].
  - intros _. rewrite N.eqb_refl. reflexivity.
  - intro H. apply orb_false_iff in H as [Hc H]. rewrite N.eqb_sym in Hc. rewrite Hc, (IH H). reflexivity.
Qed.

Lemma split_on_join sep Xs : Xs <> [] -> Forall (fun X => existsb (N.eqb sep) X = false) Xs ->
  split_on sep (join [sep] Xs) = Xs.
Proof.
  intros Hne HF. induction HF as [|X Xs HX HF IH]; [contradiction|].
  destruct Xs as [|Y Zs].
  - cbn [join]. apply split_on_word, HX.
  - change (join [sep] (X :: Y :: Zs)) with (X ++ sep :: join [sep] (Y :: Zs)).
    rewrite split_on_app by exact HX. rewrite IH by discriminate. reflexivity.
Qed.

Lemma split_on_render acr S ws d : all_neutral acr ws = true -> ws <> [] -> sep_of S = Some d ->
  split_on d (render S ws) = toks_of S ws.
Proof.
  intros Hn Hne Hs. rewrite (render_sep S ws Hne), Hs.
  pose proof (toks_of_good acr S ws Hn) as HG.
  apply split_on_join.
  - intro E. apply (f_equal (@length bytes)) in E. rewrite toks_of_length in E.
    destruct ws; [contradiction|discriminate].
  - assert (Ha : is_alpha d = false) by (apply sep_of_delim in Hs; clear - Hs; bsolve).
    clear - HG Ha. induction HG as [|X w Xs ws' HX _ IH]; constructor; auto.
    eapply alpha_no_byte; eauto using good_alpha.
Qed.

(* ------------------------------------------------------------------ first byte *)
Definition hd_byte (S : style) (c : N) : N :=
  match S with
  | Snake | Kebab | Camel | Dot | LowerFlat | LowerSentence => c
  | _ => to_upper c
  end.

Lemma render_hd S c w1 ws' : exists s', render S ((c :: w1) :: ws') = hd_byte S c :: s'.
Proof.
  destruct S; cbn [render hd_byte map upper capw concat app];
    try (destruct ws'; cbn [join map app]; eexists; reflexivity);
    eexists; reflexivity.
Qed.

(* ------------------------------------------------------------------ T2 (and the flat styles) *)
Lemma detect_render acr S ws :
  (2 <= length ws)%nat -> all_neutral acr ws = true ->
  detect_style acr (render S ws) = if visible S then Some S else None.
Proof.
  intros Hlen Hn.
  pose proof (proj1 (all_neutral_Forall acr ws) Hn) as HF.
  destruct ws as [|w0 [|w1 ws']]; cbn [length] in Hlen; try lia.
  assert (Hne : w0 :: w1 :: ws' <> []) by discriminate.
  change (2 <= length (w0 :: w1 :: ws'))%nat in Hlen.
  remember (w0 :: w1 :: ws') as ws eqn:Ews.
  pose proof (flag_byte acr ws Hn Hlen S 95 eq_refl) as Hus.
  pose proof (flag_byte acr ws Hn Hlen S 45 eq_refl) as Hhy.
  pose proof (flag_byte acr ws Hn Hlen S 46 eq_refl) as Hdt.
  pose proof (flag_byte acr ws Hn Hlen S 32 eq_refl) as Hsp.
  pose proof (flag_up acr ws Hn Hlen S) as Hup.
  pose proof (flag_lo acr ws Hn Hlen S) as Hlo.
  subst ws.
  inversion HF as [|? ? Hn0 HF']; subst. inversion HF' as [|? ? Hn1 HF'']; subst.
  destruct (neutral_shape _ _ Hn0) as (c & c1 & w2 & Hw0 & Hc & Hc1 & _).
  assert (exists s', render S (w0 :: w1 :: ws') = hd_byte S c :: s') as [s' Es]
    by (rewrite Hw0; apply render_hd).
  (* style-specific predicates *)
  assert (Htitle : sep_of S = Some 32 ->
            is_title_case (render S (w0 :: w1 :: ws')) = forallb is_title_word (toks_of S (w0 :: w1 :: ws'))).
  { intro E. unfold is_title_case. rewrite (split_on_render acr S _ 32 Hn Hne E). reflexivity. }
  assert (Htrain : sep_of S = Some 45 ->
            is_train_case acr (render S (w0 :: w1 :: ws')) =
            forallb (fun w => match w with
                              | [] => false
                              | _ => is_title_word w ||
                                     (Nat.leb 2 (length w) && forallb is_upper w && is_acronym acr w)
                              end) (toks_of S (w0 :: w1 :: ws'))).
  { intro E. unfold is_train_case. rewrite (split_on_render acr S _ 45 Hn Hne E). reflexivity. }
  assert (Hcaps : forallb is_title_word (map capw (w0 :: w1 :: ws')) = true).
  { apply forallb_forall. intros X HX. apply in_map_iff in HX as (w & <- & Hw).
    rewrite Forall_forall in HF. eapply nw_title_cap, HF, Hw. }
  unfold detect_style. rewrite Es. cbv beta iota zeta. rewrite <- Es.
  rewrite Hus, Hhy, Hdt, Hsp, Hup, Hlo.
  destruct S; cbn [sep_of up_of lo_of visible hd_byte]; try reflexivity.
  - (* Camel *) rewrite (lower_not_upper _ Hc), Hc. reflexivity.
  - (* Pascal *) rewrite (to_upper_lower_is_upper _ Hc). reflexivity.
  - (* Title *) rewrite (Htitle eq_refl). cbn [toks_of]. rewrite Hcaps. reflexivity.
  - (* Train *) rewrite (Htrain eq_refl). cbn [toks_of].
    replace (forallb _ (map capw (w0 :: w1 :: ws'))) with true; [reflexivity|].
    symmetry. apply forallb_forall. intros X HX. rewrite forallb_forall in Hcaps.
    rewrite (Hcaps X HX). destruct X; [|reflexivity].
    specialize (Hcaps [] HX). discriminate.
  - (* Dot *) replace (c =? 46) with false by (clear - Hc; bsolve). reflexivity.
  - (* Sentence *) rewrite (Htitle eq_refl). cbn [toks_of forallb].
    rewrite (nw_title_low acr w1 Hn1). rewrite andb_false_r.
    unfold is_sentence_case. rewrite (split_on_render acr Sentence _ 32 Hn Hne eq_refl).
    cbn [toks_of]. rewrite (nw_title_cap acr w0 Hn0).
    replace (forallb _ (w1 :: ws')) with true; [reflexivity|].
    symmetry. apply forallb_forall. intros X HX. rewrite Forall_forall in HF'.
    pose proof (HF' X HX) as HnX. pose proof (nw_noupper acr X HnX) as Hnu.
    destruct (neutral_shape _ _ HnX) as (x & x1 & x2 & -> & _). exact Hnu.
Qed.

Theorem C18_detect : forall acr S ws,
  wf_acr acr = true -> visible S = true -> (2 <= length ws)%nat -> all_neutral acr ws = true ->
  detect_style acr (to_style acr ws S) = Some S.
Proof.
  intros acr S ws _ Hv Hlen Hn. rewrite (to_style_render acr ws S Hn).
  rewrite (detect_render acr S ws Hlen Hn), Hv. reflexivity.
Qed.

(* ------------------------------------------------------------------ T3 *)
Lemma forallb_concat {A} (p : A -> bool) Xs :
  Forall (fun X => forallb p X = true) Xs -> forallb p (concat Xs) = true.
Proof.
  induction 1 as [|X Xs H _ IH]; cbn [concat]; [reflexivity|]. rewrite forallb_app, H, IH. reflexivity.
Qed.

Lemma concat_map_lower Ts : concat (map lower Ts) = lower (concat Ts).
Proof. unfold lower. symmetry. apply concat_map. Qed.
Lemma concat_map_upper Ts : concat (map upper Ts) = upper (concat Ts).
Proof. unfold upper. symmetry. apply concat_map. Qed.

Lemma to_style_lowerflat acr Ts : to_style acr Ts LowerFlat = lower (concat Ts).
Proof. rewrite <- concat_map_lower. destruct Ts; reflexivity. Qed.
Lemma to_style_upperflat acr Ts : to_style acr Ts UpperFlat = upper (concat Ts).
Proof. rewrite <- concat_map_upper. destruct Ts; reflexivity. Qed.

Theorem C18_idempotent : forall acr S ws,
  wf_acr acr = true -> ws <> [] -> all_neutral acr ws = true ->
  to_style acr (tokens acr (to_style acr ws S)) S = to_style acr ws S.
Proof.
  intros acr S ws Hwf Hne Hn.
  destruct (visible S) eqn:Hv.
  - rewrite (tokens_render acr S ws Hwf Hv Hne Hn).
    rewrite (to_style_good acr _ ws S (toks_of_good acr S ws Hn)).
    symmetry. apply to_style_render, Hn.
  - pose proof (proj1 (all_neutral_Forall acr ws) Hn) as HF.
    destruct S; try discriminate.
    + (* LowerFlat *)
      rewrite !to_style_lowerflat.
      assert (Hlow : forallb is_lower (lower (concat ws)) = true).
      { rewrite lower_of_lower; apply forallb_concat; eapply Forall_impl; try exact HF;
          intros w Hw; apply neutral_inv in Hw; tauto. }
      rewrite tokens_concat.
      * apply lower_of_lower, Hlow.
      * eapply forallb_impl; [|exact Hlow]. intros x Hx. unfold is_alnum.
        rewrite (lower_alpha _ Hx). reflexivity.
    + (* UpperFlat *)
      rewrite !to_style_upperflat.
      assert (Hup : forallb is_upper (upper (concat ws)) = true).
      { apply upper_all_upper. apply forallb_concat; eapply Forall_impl; try exact HF;
          intros w Hw; apply neutral_inv in Hw; tauto. }
      rewrite tokens_concat.
      * apply upper_of_upper, Hup.
      * eapply forallb_impl; [|exact Hup]. intros x Hx. unfold is_alnum.
        rewrite (upper_alpha _ Hx). reflexivity.
Qed.

(* ------------------------------------------------------------------ T4 *)
Theorem C18_render_style_injective : forall acr S S' ws,
  wf_acr acr = true -> visible S = true -> (2 <= length ws)%nat -> all_neutral acr ws = true ->
  to_style acr ws S = to_style acr ws S' -> S = S'.
Proof.
  intros acr S S' ws _ Hv Hlen Hn E.
  rewrite !(to_style_render acr ws _ Hn) in E.
  pose proof (detect_render acr S ws Hlen Hn) as H1.
  pose proof (detect_render acr S' ws Hlen Hn) as H2.
  rewrite E, H2, Hv in H1. destruct (visible S'); congruence.
Qed.

(* ------------------------------------------------------------------ T5 *)
Lemma get_put_cases ow k k' v v' m : amap_get k (amap_put ow k' v' m) = Some v ->
  (k = k' /\ v = v') \/ amap_get k m = Some v.
Proof.
  induction m as [|[k1 v1] m IH]; cbn [amap_put amap_get].
  - destruct (beq k k') eqn:E; intro H; [|discriminate].
    apply beq_eq in E. injection H as <-. auto.
  - destruct (beq k' k1) eqn:E1.
    + apply beq_eq in E1. subst k1. destruct ow; [|auto].
      cbn [amap_get]. destruct (beq k k') eqn:E2.
      * apply beq_eq in E2. intro H; injection H as <-. auto.
      * auto.
    + destruct (bytes_ltb k' k1).
      * cbn [amap_get]. destruct (beq k k') eqn:E2.
        -- apply beq_eq in E2. intro H; injection H as <-. auto.
        -- auto.
      * cbn [amap_get]. destruct (beq k k1); auto.
Qed.

Lemma get_put_mono ow k k' v' m : amap_get k m <> None -> amap_get k (amap_put ow k' v' m) <> None.
Proof.
  induction m as [|[k1 v1] m IH]; cbn [amap_put amap_get]; [congruence|].
  destruct (beq k' k1) eqn:E1.
  - apply beq_eq in E1. subst k1. destruct ow; [|auto].
    cbn [amap_get]. destruct (beq k k'); auto. discriminate.
  - destruct (bytes_ltb k' k1).
    + cbn [amap_get]. destruct (beq k k'); [discriminate|auto].
    + cbn [amap_get]. destruct (beq k k1); auto.
Qed.

Lemma get_put_same ow k v m : amap_get k (amap_put ow k v m) <> None.
Proof.
  induction m as [|[k1 v1] m IH]; cbn [amap_put amap_get].
  - rewrite beq_refl. discriminate.
  - destruct (beq k k1) eqn:E1.
    + destruct ow; cbn [amap_get]; [rewrite beq_refl | rewrite E1]; discriminate.
    + destruct (bytes_ltb k k1); cbn [amap_get]; [rewrite beq_refl; discriminate|].
      rewrite E1. exact IH.
Qed.

Section FoldPut.
Variable K V : style -> bytes.

Definition put_all (styles : list style) (m : amap) : amap :=
  fold_left (fun m s => amap_put false (K s) (V s) m) styles m.

Lemma put_all_inv styles : forall m,
  (forall k v, amap_get k (put_all styles m) = Some v ->
     amap_get k m = Some v \/ exists s, In s styles /\ k = K s /\ v = V s) /\
  (forall k, amap_get k m <> None -> amap_get k (put_all styles m) <> None) /\
  (forall s, In s styles -> amap_get (K s) (put_all styles m) <> None).
Proof.
  induction styles as [|s0 styles IH]; intros m; cbn [put_all fold_left].
  - repeat split; auto.
  - fold (put_all styles (amap_put false (K s0) (V s0) m)).
    destruct (IH (amap_put false (K s0) (V s0) m)) as (I1 & I2 & I3).
    repeat split.
    + intros k v H. apply I1 in H as [H|(s & Hs & Hk & Hv)].
      * apply get_put_cases in H as [[-> ->]|H]; [|auto].
        right. exists s0. split; [left; reflexivity|auto].
      * right. exists s. split; [right; exact Hs|auto].
    + intros k H. apply I2, get_put_mono, H.
    + intros s [<-|Hs]; [|apply I3, Hs]. apply I2, get_put_same.
Qed.
End FoldPut.

Lemma amap_put_ne_ne ow k v m : k <> [] -> amap_put_ne ow k v m = amap_put ow k v m.
Proof. destruct k; [congruence | reflexivity]. Qed.

Theorem C18_variant_table_core : forall acr defaults S0 S1 sw rw styles S amb,
  wf_acr acr = true -> visible S0 = true -> visible S1 = true -> visible S = true ->
  (2 <= length sw)%nat -> rw <> [] -> all_neutral acr sw = true -> all_neutral acr rw = true ->
  In S styles ->
  amap_get (to_style acr sw S)
    (variant_map_core acr defaults [] [] false amb (to_style acr sw S0) (to_style acr rw S1) (Some styles))
  = Some (to_style acr rw S).
Proof.
  intros acr defaults S0 S1 sw rw styles S amb Hwf Hv0 Hv1 Hv Hlen Hrne Hns Hnr Hin.
  assert (Hsne : sw <> []) by (destruct sw; [cbn in Hlen; lia | discriminate]).
  assert (E : forall m0,
              fold_left (fun m s =>
                fold_left (fun m (pr : list bytes * list bytes) =>
                  amap_put_ne false (to_style acr (fst pr) s) (to_style acr (snd pr) s) m)
                  [(toks_of S0 sw, toks_of S1 rw)] m) styles m0 =
              put_all (fun s => to_style acr sw s) (fun s => to_style acr rw s) styles m0).
  { clear Hin. unfold put_all. induction styles as [|s styles IH]; intros m0; [reflexivity|].
    cbn [fold_left fst snd].
    rewrite (to_style_good acr _ sw s (toks_of_good acr S0 sw Hns)).
    rewrite (to_style_good acr _ rw s (toks_of_good acr S1 rw Hnr)).
    rewrite <- (to_style_render acr sw s Hns), <- (to_style_render acr rw s Hnr).
    assert (Hne : to_style acr sw s <> []).
    { rewrite (to_style_render acr sw s Hns). destruct sw as [|[|c w1] ws']; [congruence| |].
      - cbn in Hns. discriminate.
      - destruct (render_hd s c w1 ws') as [s' Hs']. intro E. pose proof (eq_trans (eq_sym Hs') E) as X. discriminate X. }
    rewrite (amap_put_ne_ne false _ _ _ Hne).
    apply IH. }
  unfold variant_map_core, variant_models.
  rewrite (tokens_render acr S0 sw Hwf Hv0 Hsne Hns), (tokens_render acr S1 rw Hwf Hv1 Hrne Hnr).
  cbn [app].
  rewrite E.
  destruct (put_all_inv (fun s => to_style acr sw s) (fun s => to_style acr rw s) styles [])
    as (I1 & _ & I3).
  specialize (I3 S Hin). cbv beta in I3.
  destruct (amap_get (to_style acr sw S) _) as [v|] eqn:G; [|congruence].
  apply I1 in G as [G|(s & Hs & Hk & Hvv)]; [discriminate|].
  apply (C18_render_style_injective acr S s sw Hwf Hv Hlen Hns) in Hk. subst s v. reflexivity.
Qed.
