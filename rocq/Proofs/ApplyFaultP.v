(* Proofs/ApplyFaultP.v — the apply model under a single injected fault. *)
From RN Require Import Base.Bytes Model.Edits Model.Fs Model.ApplyModel.

(* every executed or attempted operation is recorded in the trace *)
Lemma do_op_trace inj o s :
  match do_op inj o s with
  | inl s' => s_trace s' = o :: s_trace s
  | inr (_, s') => s_trace s' = o :: s_trace s /\ s_fs s' = s_fs s
  end.
Proof.
  unfold do_op. destruct (inj (s_n s)); cbn; [auto|].
  destruct (exec_mop o (s_fs s)); cbn; auto.
Qed.

Lemma do_ops_trace_len inj os s :
  match do_ops inj os s with
  | inl s' => length (s_trace s') = (length (s_trace s) + length os)%nat
  | inr (_, s') => (length (s_trace s) < length (s_trace s'))%nat
  end.
Proof.
  revert s; induction os as [|o os IH]; intro s; cbn [do_ops]; [cbn; lia|].
  pose proof (do_op_trace inj o s) as H. destruct (do_op inj o s) as [s1|[f s1]].
  - specialize (IH s1). destruct (do_ops inj os s1) as [s2|[f2 s2]]; rewrite H in IH; cbn in *; lia.
  - destruct H as [H _]. rewrite H. cbn. lia.
Qed.

Lemma do_ops_nil_trace_fs inj os s s' :
  do_ops inj os s = inl s' -> length (s_trace s') = length (s_trace s) -> s_fs s' = s_fs s.
Proof.
  intros H Hl. pose proof (do_ops_trace_len inj os s) as L. rewrite H in L.
  destruct os; [cbn in H; inversion H; reflexivity | cbn in L; lia].
Qed.

(* monotonicity of the trace through the stages *)
Lemma edit_file_trace inj p es s :
  match edit_file inj p es s with
  | inl s' => (length (s_trace s) <= length (s_trace s'))%nat /\
              (length (s_trace s') = length (s_trace s) -> s_fs s' = s_fs s)
  | inr (_, s') => (length (s_trace s) <= length (s_trace s'))%nat /\
              (length (s_trace s') = length (s_trace s) -> s_fs s' = s_fs s)
  end.
Proof.
  unfold edit_file.
  destruct (lookup (s_fs s) p) as [[m c| |]|]; try (split; [lia|reflexivity]).
  destruct (negb (utf8_ok c)); [split; [lia|reflexivity]|].
  destruct (apply_edits_rev c es); try (split; [lia|reflexivity]).
  pose proof (do_ops_trace_len inj (content_ops p m a) s) as L.
  destruct (do_ops inj (content_ops p m a) s) as [s1|[f s1]] eqn:E.
  - split; [lia|]. intro Hl. eapply do_ops_nil_trace_fs; eauto.
  - split; [lia|]. intro Hl. lia.
Qed.

Lemma content_stage_trace inj files s :
  match content_stage inj files s with
  | inl s' => (length (s_trace s) <= length (s_trace s'))%nat /\
              (length (s_trace s') = length (s_trace s) -> s_fs s' = s_fs s)
  | inr (_, s') => (length (s_trace s) <= length (s_trace s'))%nat /\
              (length (s_trace s') = length (s_trace s) -> s_fs s' = s_fs s)
  end.
Proof.
  revert s; induction files as [|[p es] files IH]; intro s; cbn [content_stage]; [split; [lia|reflexivity]|].
  pose proof (edit_file_trace inj p es s) as H.
  destruct (edit_file inj p es s) as [s1|[f s1]]; [|exact H].
  specialize (IH s1). destruct H as [H1 H2].
  destruct (content_stage inj files s1) as [s2|[f2 s2]]; destruct IH as [I1 I2];
    (split; [lia|]; intro Hl; rewrite I2 by lia; apply H2; lia).
Qed.

Lemma rollback_trace_mono inj rp s :
  (length (s_trace s) <= length (s_trace (rollback inj rp s)))%nat.
Proof.
  revert s; induction rp as [|[a b] rp IH]; intro s; cbn [rollback]; [lia|].
  pose proof (do_op_trace inj (MRename b a) s) as D.
  destruct (do_op inj (MRename b a) s) as [sx|[fx sx]]; specialize (IH sx);
    [rewrite D in IH | destruct D as [D _]; rewrite D in IH]; cbn in IH; lia.
Qed.

Lemma rename_stage_fail_trace inj rs perf0 exe0 s f' s' perf' exe' :
  rename_stage inj rs perf0 exe0 s = inr (f', s', perf', exe') ->
  (length (s_trace s) < length (s_trace s'))%nat.
Proof.
  revert perf0 exe0 s; induction rs as [|r rs IH]; intros perf0 exe0 s E; cbn [rename_stage] in E; [discriminate|].
  pose proof (do_ops_trace_len inj (rename_ops (adjust perf0 (ar_path r)) (adjust perf0 (ar_new r))) s) as D.
  destruct (do_ops inj (rename_ops (adjust perf0 (ar_path r)) (adjust perf0 (ar_new r))) s) as [sx|[fx sx]].
  - apply IH in E. lia.
  - inversion E; subst. exact D.
Qed.

(* A command that failed without having issued a single operation left the tree untouched:
   this covers the occupied-destination refusal and a stale / unreadable FIRST file. *)
Theorem fail_before_first_op_changes_nothing inj p t :
  r_trace (apply_core inj p t) = [] -> r_ok (apply_core inj p t) = false -> r_fs (apply_core inj p t) = t.
Proof.
  unfold apply_core. destruct (first_conflict t (ap_renames p)); [cbn; auto|].
  destruct (first_unreadable t (edits_by_file (ap_hunks p))); [cbn; auto|].
  set (s0 := {| s_fs := t; s_n := 0; s_trace := [] |}).
  pose proof (content_stage_trace inj (edits_by_file (ap_hunks p)) s0) as H.
  destruct (content_stage inj (edits_by_file (ap_hunks p)) s0) as [s1|[f s1]].
  - destruct (rename_stage inj (sort_renames (ap_renames p)) [] [] s1) as [[[s2 perf] exe]|[[[f s2] perf] exe]] eqn:E;
      cbn; [discriminate|].
    intros Htr _. exfalso.
    apply rename_stage_fail_trace in E.
    pose proof (rollback_trace_mono inj (rev exe) s2) as L.
    assert (Z : length (s_trace (rollback inj (rev exe) s2)) = 0%nat)
      by (rewrite <- rev_length, Htr; reflexivity).
    lia.
  - cbn. intros Htr _. destruct H as [H1 H2]. apply H2.
    assert (length (s_trace s1) = 0%nat) by (rewrite <- rev_length, Htr; reflexivity).
    subst s0; cbn in *. lia.
Qed.

(* since repo fix 5a35404 every file with planned edits is read before any file is changed: a planned file that is missing, not a
   regular file or not valid UTF-8 fails the apply without a single operation, whatever else the plan holds *)
Theorem unreadable_file_changes_nothing inj p t f :
  first_conflict t (ap_renames p) = None ->
  first_unreadable t (edits_by_file (ap_hunks p)) = Some f ->
  r_ok (apply_core inj p t) = false /\ r_fail (apply_core inj p t) = Some (FailRead f) /\
  r_fs (apply_core inj p t) = t /\ r_trace (apply_core inj p t) = [].
Proof. intros FC FU. unfold apply_core. rewrite FC, FU. repeat split. Qed.

(* and first_unreadable finds such a file whenever there is one *)
Lemma first_unreadable_some t files f es :
  In (f, es) files -> readable t f = false -> exists g, first_unreadable t files = Some g.
Proof.
  intros I U. unfold first_unreadable.
  destruct (find (fun fe => negb (readable t (fst fe))) files) as [fe|] eqn:E; [eexists; reflexivity|].
  exfalso. apply (find_none _ _ E) in I. cbn [fst] in I. rewrite U in I. discriminate.
Qed.

(* success and failure are reported consistently *)
Theorem ok_iff_no_failure inj p t :
  r_ok (apply_core inj p t) = true <-> r_fail (apply_core inj p t) = None.
Proof.
  unfold apply_core. destruct (first_conflict t (ap_renames p)); [cbn; split; discriminate|].
  destruct (first_unreadable t (edits_by_file (ap_hunks p))); [cbn; split; discriminate|].
  destruct (content_stage inj _ _) as [s1|[f s1]]; [|cbn; split; discriminate].
  destruct (rename_stage inj _ [] [] s1) as [[[s2 perf] exe]|[[[f s2] perf] exe]]; cbn; split; congruence.
Qed.

(* ---- the full statement "a failed apply changes nothing" is FALSE of the faithful model ---- *)
Definition w_file (n : N) : path := [[n]].
Definition w_tree : fs := [ (w_file 97, File 420 [111; 108; 100]); (w_file 98, File 420 [111; 108; 100]) ].
Definition w_plan : aplan :=
  {| ap_id := [];
     ap_hunks := [ {| ah_file := w_file 97; ah_start := 0; ah_end := 3; ah_content := [111;108;100]; ah_replace := [110;101;119] |};
                   {| ah_file := w_file 98; ah_start := 0; ah_end := 3; ah_content := [111;108;100]; ah_replace := [110;101;119] |} ];
     ap_renames := [] |}.

(* fault at the rename(2) that installs the SECOND file (mutating op index 7): the first file
   keeps its new content and the temp file of the second is left behind *)
Lemma refuted_second_file :
  let r := apply_core (one_fault 7) w_plan w_tree in
  r_ok r = false /\ fs_eqb (user_view (r_fs r)) (user_view w_tree) = false /\
  lookup (r_fs r) (w_file 97) = Some (File 420 [110; 101; 119]).
Proof. vm_compute. repeat split. Qed.

(* stale plan: the second file was edited after planning *)
Definition w_tree_stale : fs := [ (w_file 97, File 420 [111; 108; 100]); (w_file 98, File 420 [120; 108; 100]) ].
Lemma refuted_stale_second :
  let r := apply_core no_fault w_plan w_tree_stale in
  r_ok r = false /\ r_fail r = Some (FailMismatch (w_file 98)) /\
  fs_eqb (user_view (r_fs r)) (user_view w_tree_stale) = false.
Proof. vm_compute. repeat split. Qed.

(* non-vacuity: the fault-free run of the same plan succeeds *)
Example witness_plan_applies :
  r_ok (apply_core no_fault w_plan w_tree) = true /\
  fs_eqb (r_fs (apply_core no_fault w_plan w_tree)) (spec_apply w_plan w_tree) = true.
Proof. vm_compute. split; reflexivity. Qed.
