(* Proofs/PathNameP.v — C08, "an entry whose own name contains the term in an enabled style is renamed
   to the name with the term rewritten in the same style", for the model of the new-name computation
   (Model/PathName.v over Model/Coercion.v).
   name = pre ++ occ ++ post with occ = to_style acr sw S (neutral multi-word term, visible enabled S).
     sole            the hypothesis everything rests on: occ at offset |pre| is the ONLY place where ANY key
                     of the table occurs in the name (then the BTreeMap order of the keys is irrelevant)
     sole_letterfree letter-free pre/post (digits, '_', '-', '.', spaces, any non-letters) imply it
     sole_barrier    so do ARBITRARY pre/post that contain no key and are cut off from occ by a byte that
                     occurs in no key (path_name_off_barrier; instance: occ.ext, path_name_off_ext)
     P2 Off   path_name_off / path_name_off_letterfree : new name = pre ++ to_style acr rw S ++ post
     P2 Auto  path_name_auto_shape: new name = pre ++ X ++ post where X = to_style acr rw S when coercion
              answers None, and X = render_tokens(tokenize(to_style acr rw S), T) when it answers Some with
              style T — the exact deviation; same-style when pre is empty, one or two underscores and
              post is empty (path_name_auto_bare); deviations exhibited (the auto_deviation lemmas),
              replayed on the real planner
     P3       no key -> no rename; composition with Renames.plan_listing (the C08 theorems): path_rename_scheduled
   Stdlib + lia only. *)
From Coq Require Import Lia.
From RN Require Import Base.Bytes Model.StyleDef Model.CaseModel Model.CaseSpec Model.Matcher.
From RN Require Import Model.ConstraintsDef Model.Constraints Gen.GenStyles.
From RN Require Import Model.Fs Model.ApplyModel Model.Coercion Model.Renames Model.PathName.
From RN Require Import Proofs.CaseP1 Proofs.CaseP2 Proofs.CaseP3 Proofs.StandaloneP Proofs.HunkTailP1
                       Proofs.CoercionP Proofs.RenamesP.
Close Scope N_scope.
Open Scope bool_scope.

(* ------------------------------------------------------------------------------------------ *)
(* str::contains / str::replace                                                               *)
(* ------------------------------------------------------------------------------------------ *)
Lemma contains_occ k : forall s, contains k s = true -> exists j, is_prefix k (skipn j s) = true.
Proof.
  induction s as [|c s IH]; cbn [contains]; intro H.
  - exists 0. destruct k; [reflexivity|discriminate].
  - apply orb_true_iff in H as [H|H]; [exists 0; exact H|].
    destruct (IH H) as [j Hj]. exists (S j). exact Hj.
Qed.

Lemma occ_contains k : forall s j, is_prefix k (skipn j s) = true -> contains k s = true.
Proof.
  induction s as [|c s IH]; intros j H.
  - rewrite skipn_nil in H. cbn [contains]. destruct k; [reflexivity|discriminate].
  - cbn [contains]. destruct j as [|j]; [cbn [skipn] in H; rewrite H; reflexivity|].
    cbn [skipn] in H. rewrite (IH j H). apply orb_true_r.
Qed.

Lemma contains_app p k r : contains k (p ++ k ++ r) = true.
Proof.
  apply (occ_contains k _ (length p)).
  rewrite skipn_app, skipn_all, Nat.sub_diag. cbn [app skipn]. apply is_prefix_app.
Qed.

Lemma replace_all_step fuel k v c s : k <> [] ->
  replace_all (S fuel) k v (c :: s) =
  if is_prefix k (c :: s) then v ++ replace_all fuel k v (skipn (length k) (c :: s))
  else c :: replace_all fuel k v s.
Proof. destruct k; [congruence|reflexivity]. Qed.

Lemma replace_all_none k v : k <> [] -> forall fuel s, length s < fuel ->
  (forall j, j < length s -> is_prefix k (skipn j s) = false) -> replace_all fuel k v s = s.
Proof.
  intro Hne. induction fuel as [|fuel IH]; intros s Hf H; [lia|].
  destruct s as [|c s']; [reflexivity|]. rewrite replace_all_step by exact Hne.
  pose proof (H 0 ltac:(cbn [length]; lia)) as H0. cbn [skipn] in H0. rewrite H0.
  f_equal. apply IH; [cbn [length] in Hf; lia|]. intros j Hj. apply (H (S j)). cbn [length]. lia.
Qed.

Lemma replace_all_single k v r : k <> [] ->
  (forall j, j < length r -> is_prefix k (skipn j r) = false) ->
  forall fuel p, length (p ++ k ++ r) < fuel ->
  (forall j, j < length p -> is_prefix k (skipn j (p ++ k ++ r)) = false) ->
  replace_all fuel k v (p ++ k ++ r) = p ++ v ++ r.
Proof.
  intros Hne Hr. induction fuel as [|fuel IH]; intros p Hf Hp; [lia|].
  destruct p as [|c p'].
  - cbn [app] in Hf |- *. rewrite app_length in Hf.
    destruct (k ++ r) as [|c t] eqn:E; [destruct k; [congruence|discriminate]|].
    rewrite replace_all_step by exact Hne. rewrite <- E, is_prefix_app.
    rewrite skipn_app, skipn_all, Nat.sub_diag. cbn [app skipn].
    f_equal. apply replace_all_none; [exact Hne| |exact Hr].
    destruct k; [congruence|cbn [length] in Hf; lia].
  - change ((c :: p') ++ k ++ r) with (c :: (p' ++ k ++ r)). rewrite replace_all_step by exact Hne.
    pose proof (Hp 0 ltac:(cbn [length]; lia)) as H0. cbn [skipn] in H0.
    change ((c :: p') ++ k ++ r) with (c :: (p' ++ k ++ r)) in H0. rewrite H0.
    cbn [app]. f_equal. apply IH; [cbn [app length] in Hf; lia|].
    intros j Hj. apply (Hp (S j)). cbn [length]. lia.
Qed.

(* ------------------------------------------------------------------------------------------ *)
(* the sole-occurrence hypothesis                                                             *)
(* ------------------------------------------------------------------------------------------ *)
(* occ at offset p is the only place where any key of the table occurs in the name *)
Definition sole (vm : amap) (name : bytes) (p : nat) (occ : bytes) : Prop :=
  forall k j, In k (keys vm) -> is_prefix k (skipn j name) = true -> j = p /\ k = occ.

Lemma sole_tail kv vm name p occ : sole (kv :: vm) name p occ -> sole vm name p occ.
Proof. intros H k j Hk. apply H. right. exact Hk. Qed.

(* the first key in table order contained in the name is the occurrence's own variant *)
Lemma first_key_sole name p occ new : forall vm,
  sole vm name p occ -> contains occ name = true -> amap_get occ vm = Some new ->
  first_key vm name = Some (occ, new).
Proof.
  unfold first_key. induction vm as [|[k v] vm IH]; intros Hs Hc Hg; [discriminate|].
  cbn [find fst]. cbn [amap_get] in Hg.
  destruct (contains k name) eqn:Ek.
  - destruct (contains_occ k name Ek) as [j Hj].
    destruct (Hs k j (or_introl eq_refl) Hj) as [_ ->]. rewrite beq_refl in Hg. congruence.
  - destruct (beq occ k) eqn:Eb; [apply beq_eq in Eb; subst k; congruence|].
    apply IH; auto. eapply sole_tail, Hs.
Qed.

Lemma skipn_app_plus {A} (a l : list A) j : skipn (length a + j) (a ++ l) = skipn j l.
Proof. induction a as [|x a IH]; cbn [length app Nat.add skipn]; auto. Qed.

Lemma sole_replace vm pre occ post v :
  sole vm (pre ++ occ ++ post) (length pre) occ -> In occ (keys vm) -> occ <> [] ->
  replace_all (S (length (pre ++ occ ++ post))) occ v (pre ++ occ ++ post) = pre ++ v ++ post.
Proof.
  intros Hs Hin Hne. apply replace_all_single; auto.
  - intros j Hj. destruct (is_prefix occ (skipn j post)) eqn:E; [exfalso|reflexivity].
    destruct (Hs occ (length pre + length occ + j) Hin) as [Hj' _].
    + rewrite <- Nat.add_assoc, !skipn_app_plus. exact E.
    + destruct occ; [congruence|]. cbn [length] in Hj'. lia.
  - intros j Hj. destruct (is_prefix occ (skipn j (pre ++ occ ++ post))) eqn:E; [exfalso|reflexivity].
    destruct (Hs occ j Hin E) as [Hj' _]. lia.
Qed.

Lemma amap_get_In k v : forall vm, amap_get k vm = Some v -> In k (keys vm).
Proof.
  induction vm as [|[k' v'] vm IH]; [discriminate|]. cbn [amap_get keys map fst].
  destruct (beq k k') eqn:E; [apply beq_eq in E; subst; left; reflexivity|]. intro H. right. apply IH, H.
Qed.

(* ------------------------------------------------------------------------------------------ *)
(* P2, coercion Off — under the sole-occurrence hypothesis, for any table                     *)
(* ------------------------------------------------------------------------------------------ *)
Theorem path_name_off : forall acr resolve_name vm repl pre occ post new,
  sole vm (pre ++ occ ++ post) (length pre) occ ->
  amap_get occ vm = Some new -> occ <> [] ->
  is_ambiguous acr occ gen_all_styles = false ->
  path_new_name_full acr resolve_name false vm repl (pre ++ occ ++ post) = Some (pre ++ new ++ post, false).
Proof.
  intros acr resolve_name vm repl pre occ post new Hs Hg Hne Hamb.
  unfold path_new_name_full.
  rewrite (first_key_sole _ (length pre) occ new vm Hs (contains_app pre occ post) Hg).
  unfold filename_replacement. rewrite Hamb.
  rewrite (sole_replace vm pre occ post new Hs (amap_get_In _ _ _ Hg) Hne). reflexivity.
Qed.

(* letter-free contexts imply the sole-occurrence hypothesis (keys: the renderings of a neutral term) *)
Lemma sole_letterfree : forall ws vm pre occ post,
  (forall k, In k (keys vm) -> shape ws k) -> shape ws occ ->
  noalpha pre = true -> noalpha post = true ->
  sole vm (pre ++ occ ++ post) (length pre) occ.
Proof.
  intros ws vm pre occ post Hk (Hs & He & Hl) Hpre Hpost k j Hin Hpref.
  destruct (Hk k Hin) as (Ks & Ke & Kl).
  assert (Hj : j < length (pre ++ occ ++ post)).
  { destruct (Nat.lt_ge_cases j (length (pre ++ occ ++ post))) as [H|H]; [exact H|].
    rewrite skipn_all2 in Hpref by exact H. destruct k; [discriminate Ks|discriminate]. }
  destruct (prefix_at_decomp k _ j Hj Hpref) as (p & r & Ec & Hp).
  destruct (variant_at pre post occ p k r Hpre Hpost Hs He Ks Ke) as [-> ->]; [congruence|exact Ec|].
  auto.
Qed.

(* ------------------------------------------------------------------------------------------ *)
(* barrier contexts: ARBITRARY text (letters included) around the occurrence, cut off from it by   *)
(* a byte that occurs in no key, and containing no key itself                                  *)
(* ------------------------------------------------------------------------------------------ *)
Definition left_ok (vm : amap) (pre : bytes) : Prop :=
  pre = [] \/ exists pre0 b, pre = pre0 ++ [b] /\
    forall k, In k (keys vm) -> existsb (N.eqb b) k = false /\ contains k pre0 = false.
Definition right_ok (vm : amap) (post : bytes) : Prop :=
  post = [] \/ exists b post0, post = b :: post0 /\
    forall k, In k (keys vm) -> existsb (N.eqb b) k = false /\ contains k post0 = false.

Lemma existsb_eqb_app b (x y : bytes) : existsb (N.eqb b) (x ++ b :: y) = true.
Proof. rewrite existsb_app. cbn [existsb]. rewrite N.eqb_refl. apply orb_true_r. Qed.

(* a block that does not contain the byte b lies on one side of an occurrence of b *)
Lemma split_at_byte (b : N) (x y p k r : bytes) :
  x ++ b :: y = p ++ k ++ r -> existsb (N.eqb b) k = false ->
  (exists r', x = p ++ k ++ r') \/ (exists p', y = p' ++ k ++ r /\ p = x ++ b :: p').
Proof.
  intros E Hb. destruct (app_eq_app _ _ _ _ E) as [l [[Ex Ek]|[Ep Ey]]].
  - destruct (app_eq_app _ _ _ _ Ek) as [m [[Ek' Em]|[El Er]]].
    + destruct m as [|b' m'].
      * left. exists []. rewrite app_nil_r in Ek'. subst. rewrite app_nil_r. reflexivity.
      * cbn [app] in Em. inversion Em; subst b'. subst k. rewrite existsb_eqb_app in Hb. discriminate.
    + left. exists m. subst. rewrite <- ?app_assoc. reflexivity.
  - destruct l as [|b' l'].
    + cbn [app] in Ey. destruct k as [|b0 k'].
      * left. exists []. subst p. rewrite !app_nil_r. reflexivity.
      * cbn [app] in Ey. inversion Ey; subst b0. cbn [existsb] in Hb. rewrite N.eqb_refl in Hb. discriminate.
    + cbn [app] in Ey. inversion Ey; subst b'. right. exists l'. auto.
Qed.

Lemma lets_length_le s : length (lets s) <= length s.
Proof.
  unfold lets. rewrite map_length. induction s as [|c s IH]; [reflexivity|]. cbn [filter].
  destruct (is_alpha c); cbn [length]; lia.
Qed.

(* a key inside the occurrence is the occurrence *)
Lemma within_occ ws occ k p r : shape ws occ -> shape ws k -> occ = p ++ k ++ r -> p = [] /\ r = [].
Proof.
  intros (Os & Oe & Ol) (Ks & Ke & Kl) E.
  assert (HL : lets p = [] /\ lets r = []).
  { pose proof (f_equal (fun x => length (lets x)) E) as H. cbv beta in H.
    rewrite !lets_app, !app_length, Ol, Kl in H.
    split; apply length_zero_iff_nil; lia. }
  destruct HL as [Hp Hr]. split.
  - destruct p as [|c p']; [reflexivity|]. exfalso. apply (starts_alpha_lets (c :: p')); [|exact Hp].
    subst occ. exact Os.
  - destruct r as [|c r']; [reflexivity|]. exfalso. apply (ends_alpha_lets (c :: r')); [|exact Hr].
    subst occ. rewrite app_assoc in Oe. apply (ends_alpha_suffix _ _ Oe). discriminate.
Qed.

Lemma sole_barrier : forall ws vm pre occ post,
  (forall k, In k (keys vm) -> shape ws k) -> shape ws occ ->
  left_ok vm pre -> right_ok vm post ->
  sole vm (pre ++ occ ++ post) (length pre) occ.
Proof.
  intros ws vm pre occ post Hk Hocc Hl Hr k j Hin Hpref.
  pose proof (Hk k Hin) as Hks. destruct Hks as (Ks & Ke & Kl).
  assert (Hj : j < length (pre ++ occ ++ post)).
  { destruct (Nat.lt_ge_cases j (length (pre ++ occ ++ post))) as [H|H]; [exact H|].
    rewrite skipn_all2 in Hpref by exact H. destruct k; [discriminate Ks|discriminate]. }
  destruct (prefix_at_decomp k _ j Hj Hpref) as (p & r & Ec & Hp).
  (* right side *)
  assert (H1 : exists r', pre ++ occ = p ++ k ++ r').
  { destruct Hr as [->|(b & post0 & -> & Hb)].
    - exists r. rewrite app_nil_r in Ec. exact Ec.
    - destruct (Hb k Hin) as [Hbk Hc]. rewrite app_assoc in Ec.
      destruct (split_at_byte b _ _ _ _ _ Ec Hbk) as [[r' E]|(p' & E & _)]; [eauto|].
      rewrite E, contains_app in Hc. discriminate. }
  destruct H1 as [r' E1].
  (* left side *)
  assert (H2 : exists p', occ = p' ++ k ++ r' /\ p = pre ++ p').
  { destruct Hl as [->|(pre0 & b & -> & Hb)].
    - exists p. auto.
    - destruct (Hb k Hin) as [Hbk Hc]. rewrite <- app_assoc in E1. cbn [app] in E1.
      destruct (split_at_byte b _ _ _ _ _ E1 Hbk) as [[r'' E]|(p' & E & Ep)].
      + rewrite E, contains_app in Hc. discriminate.
      + exists p'. split; [exact E|]. rewrite Ep, <- app_assoc. reflexivity. }
  destruct H2 as (p' & E2 & Ep).
  destruct (within_occ ws occ k p' r' Hocc (Hk k Hin) E2) as [-> ->].
  rewrite app_nil_r in Ep. cbn [app] in E2. rewrite app_nil_r in E2. subst p k. auto.
Qed.

(* ------------------------------------------------------------------------------------------ *)
(* case-insensitive uniqueness, and the prefix apply_coercion sets aside                      *)
(* ------------------------------------------------------------------------------------------ *)
Lemma alpha_to_lower c : is_alpha (to_lower c) = is_alpha c.
Proof. bsolve. Qed.

Lemma noalpha_lower s : noalpha s = true -> noalpha (lower s) = true.
Proof.
  unfold noalpha, lower. induction s as [|c s IH]; [reflexivity|]. cbn [forallb map]. intro H.
  apply andb_true_iff in H as [Hc Hs]. rewrite alpha_to_lower, Hc, (IH Hs). reflexivity.
Qed.

Lemma starts_alpha_lower s : starts_alpha s -> starts_alpha (lower s).
Proof. destruct s as [|c s]; [auto|]. unfold starts_alpha. cbn [lower map hd_is]. rewrite alpha_to_lower. auto. Qed.

Lemma ends_alpha_lower s : ends_alpha s -> ends_alpha (lower s).
Proof.
  intros (s' & c & -> & Hc). exists (lower s'), (to_lower c). rewrite lower_app. cbn [lower map].
  rewrite alpha_to_lower. auto.
Qed.

Lemma noalpha_skipn j s : noalpha s = true -> noalpha (skipn j s) = true.
Proof.
  unfold noalpha. intro H. rewrite <- (firstn_skipn j s), forallb_app in H.
  apply andb_true_iff in H as [_ H]. exact H.
Qed.

Lemma no_occ_in_noalpha k s j : noalpha s = true -> starts_alpha k -> is_prefix k (skipn j s) = false.
Proof.
  intros Hs Hk. pose proof (noalpha_skipn j s Hs) as H.
  destruct k as [|a k]; [discriminate Hk|]. destruct (skipn j s) as [|x t]; [reflexivity|].
  cbn [is_prefix]. destruct (a =? x)%N eqn:E; [|reflexivity]. apply N.eqb_eq in E. subst x.
  unfold starts_alpha in Hk. cbn [hd_is] in Hk. cbn [noalpha forallb] in H. rewrite Hk in H. discriminate H.
Qed.

Lemma ci_single pre occ post x :
  noalpha pre = true -> noalpha post = true -> starts_alpha occ -> ends_alpha occ ->
  replace_ci (pre ++ occ ++ post) occ x = pre ++ x ++ post.
Proof.
  intros Hpre Hpost Hs He. apply replace_ci_single.
  - destruct occ; [discriminate Hs|discriminate].
  - intros j Hj.
    destruct (is_prefix (lower occ) (skipn j (lower (pre ++ occ ++ post)))) eqn:E; [exfalso|reflexivity].
    destruct (prefix_at_decomp (lower occ) (lower (pre ++ occ ++ post)) j) as (p & r & Ec & Hp); [|exact E|].
    { rewrite lower_length, app_length. lia. }
    rewrite !lower_app in Ec.
    destruct (variant_at (lower pre) (lower post) (lower occ) p (lower occ) r) as [-> _];
      auto using noalpha_lower, starts_alpha_lower, ends_alpha_lower.
    rewrite lower_length in Hp. lia.
  - intros j Hj. apply no_occ_in_noalpha; auto using noalpha_lower, starts_alpha_lower.
Qed.

(* extract_prefix on pre ++ rest where rest starts with a letter: the prefix is a prefix of pre *)
Lemma extract_prefix_split pre rest : hd_is is_alpha rest = true ->
  exists px pre', pre = px ++ pre' /\ extract_prefix (pre ++ rest) = (px, pre' ++ rest).
Proof.
  intro Hr.
  assert (Hnu : forall t, extract_prefix (rest ++ t) = ([], rest ++ t)).
  { intro t. apply extract_prefix_alpha. destruct rest; [discriminate|exact Hr]. }
  destruct pre as [|a pre1].
  - exists [], []. split; [reflexivity|]. rewrite <- (app_nil_r rest) at 1 2. cbn [app]. rewrite (Hnu []). reflexivity.
  - cbn [app extract_prefix]. destruct (a =? 95)%N eqn:Ea.
    2:{ exists [], (a :: pre1). auto. }
    apply N.eqb_eq in Ea. subst a. destruct pre1 as [|b pre2].
    + cbn [app]. destruct rest as [|r0 rest']; [discriminate|]. cbn [hd_is] in Hr.
      destruct (r0 =? 95)%N eqn:E0; [apply N.eqb_eq in E0; subst r0; discriminate Hr|].
      exists [95%N], []. auto.
    + cbn [app]. destruct (b =? 95)%N eqn:Eb.
      * apply N.eqb_eq in Eb. subst b. exists [95%N; 95%N], pre2. auto.
      * exists [95%N], (b :: pre2). auto.
Qed.

Section Term.
Variables (acr : acr_tab) (defaults : list style) (amb : bool) (S0 S1 S : style) (sw rw : list bytes)
          (styles : list style).
Hypothesis Hwf : wf_acr acr = true.
Hypothesis Hv0 : visible S0 = true.
Hypothesis Hv1 : visible S1 = true.
Hypothesis Hv : visible S = true.
Hypothesis Hlen : 2 <= length sw.
Hypothesis Hrne : rw <> [].
Hypothesis Hns : all_neutral acr sw = true.
Hypothesis Hnr : all_neutral acr rw = true.
Hypothesis Hin : In S styles.

Let vm := variant_map_core acr defaults [] [] false amb (to_style acr sw S0) (to_style acr rw S1) (Some styles).
Let occ := to_style acr sw S.
Let new := to_style acr rw S.

Lemma sw_ne : sw <> [].
Proof. clear - Hlen. destruct sw; [cbn [length] in Hlen; lia|discriminate]. Qed.

Lemma term_get : amap_get occ vm = Some new.
Proof.
  destruct (C06_standalone_ctx acr defaults amb S0 S1 S sw rw styles [] []
              Hwf Hv0 Hv1 Hv Hlen Hrne Hns Hnr Hin eq_refl eq_refl) as [_ H]. exact H.
Qed.

Lemma term_keys_shape k : In k (keys vm) -> shape sw k.
Proof. apply keys_vm_shape; auto using sw_ne. Qed.

Lemma term_occ_shape : shape sw occ.
Proof. apply occ_shape; auto using sw_ne. Qed.

Lemma term_occ_ne : occ <> [].
Proof. apply to_style_ne; auto using sw_ne. Qed.

Lemma term_unambiguous : is_ambiguous acr occ gen_all_styles = false.
Proof. apply visible_unambiguous; assumption. Qed.

(* P2 Off, letter-free contexts: pre and post any bytes that are not letters (digits, '_', '-', '.',
   spaces, brackets ...).  Whatever the order of the keys in the table. *)
Theorem path_name_off_letterfree : forall resolve_name repl pre post,
  noalpha pre = true -> noalpha post = true ->
  path_new_name_full acr resolve_name false vm repl (pre ++ occ ++ post) = Some (pre ++ new ++ post, false).
Proof.
  intros resolve_name repl pre post Hpre Hpost. apply path_name_off.
  - apply (sole_letterfree sw); auto using term_keys_shape, term_occ_shape.
  - apply term_get.
  - apply term_occ_ne.
  - apply term_unambiguous.
Qed.

(* P2 Off, barrier contexts *)
Theorem path_name_off_barrier : forall resolve_name repl pre post,
  left_ok vm pre -> right_ok vm post ->
  path_new_name_full acr resolve_name false vm repl (pre ++ occ ++ post) = Some (pre ++ new ++ post, false).
Proof.
  intros resolve_name repl pre post Hl Hr. apply path_name_off.
  - apply (sole_barrier sw); auto using term_keys_shape, term_occ_shape.
  - apply term_get.
  - apply term_occ_ne.
  - apply term_unambiguous.
Qed.

(* the instance asked for: name = occ ++ "." ++ ext.  When the Dot style is not enabled no key contains
   a '.', and an extension shorter than the term's letters cannot contain a key: whatever letters
   the extension is made of *)
Lemma key_no_dot k : ~ In Dot styles -> In k (keys vm) -> existsb (N.eqb 46%N) k = false.
Proof.
  intros Hnd Hk. apply (keys_vm acr defaults S0 S1 sw rw styles amb Hwf Hv0 Hv1 sw_ne Hrne Hns Hnr) in Hk.
  destruct Hk as (s & Hs & ->). rewrite (to_style_render acr sw s Hns).
  rewrite (flag_byte acr sw Hns Hlen s 46%N eq_refl).
  destruct s; try reflexivity. contradiction.
Qed.

Lemma contains_length k : forall s, contains k s = true -> length k <= length s.
Proof.
  intros s H. destruct (contains_occ k s H) as [j Hj]. apply is_prefix_spec in Hj as [r Hr].
  pose proof (f_equal (@length N) Hr) as HL. rewrite skipn_length, app_length in HL. lia.
Qed.

Theorem path_name_off_ext : forall resolve_name repl ext,
  ~ In Dot styles -> length ext < length (concat sw) ->
  path_new_name_full acr resolve_name false vm repl (occ ++ 46%N :: ext) = Some (new ++ 46%N :: ext, false).
Proof.
  intros resolve_name repl ext Hnd Hext.
  apply (path_name_off_barrier resolve_name repl [] (46%N :: ext)); [left; reflexivity|].
  right. exists 46%N, ext. split; [reflexivity|]. intros k Hk. split; [apply key_no_dot; assumption|].
  destruct (contains k ext) eqn:E; [exfalso|reflexivity].
  apply contains_length in E. destruct (term_keys_shape k Hk) as (_ & _ & Kl).
  pose proof (lets_length_le k) as HL. rewrite Kl in HL. lia.
Qed.

(* P2 Auto, letter-free contexts: the exact shape.  The coercion either declines (same-style name) or
   answers with ONE style T and the new name is pre ++ render_tokens(tokenize(new), T) ++ post *)
Theorem path_name_auto_shape : forall resolve_name repl pre post,
  noalpha pre = true -> noalpha post = true ->
  let name := pre ++ occ ++ post in
  (co_apply_coercion acr name occ new = None /\
   path_new_name_full acr resolve_name true vm repl name = Some (pre ++ new ++ post, false)) \/
  (exists r partial T,
     co_apply_coercion acr name occ new = Some (r, partial, T) /\ mixed_or_dot T = false /\
     r = pre ++ co_render (co_tokenize new) T ++ post /\
     path_new_name_full acr resolve_name true vm repl name = Some (r, true)).
Proof.
  intros resolve_name repl pre post Hpre Hpost name.
  pose proof (path_name_off_letterfree resolve_name repl pre post Hpre Hpost) as Hoff.
  destruct term_occ_shape as (Hs & He & _).
  unfold path_new_name_full in *. fold name in Hoff.
  destruct (first_key vm name) as [[k v]|] eqn:Ek; [|discriminate].
  assert (Hkv : k = occ /\ v = new).
  { pose proof (first_key_sole name (length pre) occ new vm) as H. unfold name in *.
    rewrite H in Ek; [inversion Ek; auto| | |apply term_get].
    - apply (sole_letterfree sw); auto using term_keys_shape, term_occ_shape.
    - apply contains_app. }
  destruct Hkv as [-> ->].
  destruct (co_apply_coercion acr name occ new) as [[[r partial] T]|] eqn:Ec.
  - right. exists r, partial, T. destruct (co_some_shape _ _ _ _ _ _ _ Ec) as (Er & Hm & _).
    split; [reflexivity|]. split; [exact Hm|]. split; [|reflexivity].
    destruct (extract_prefix_split pre (occ ++ post)) as (px & pre' & Epre & Eex).
    { destruct occ; [discriminate Hs|exact Hs]. }
    unfold name in Er. rewrite Eex in Er. cbn [fst snd] in Er.
    rewrite ci_single in Er; auto.
    + rewrite Er, Epre, <- app_assoc. reflexivity.
    + rewrite Epre in Hpre. unfold noalpha in Hpre. rewrite forallb_app in Hpre.
      apply andb_true_iff in Hpre as [_ H]. exact H.
  - left. split; [reflexivity|exact Hoff].
Qed.

(* hence: Auto gives the same-style name exactly when the coercion declines or its style T renders the
   tokens of the new variant back to the new variant *)
Corollary path_name_auto_same_iff : forall resolve_name repl pre post,
  noalpha pre = true -> noalpha post = true ->
  let name := pre ++ occ ++ post in
  (exists note, path_new_name_full acr resolve_name true vm repl name = Some (pre ++ new ++ post, note)) <->
  (co_apply_coercion acr name occ new = None \/
   exists r partial T, co_apply_coercion acr name occ new = Some (r, partial, T) /\
                       co_render (co_tokenize new) T = new).
Proof.
  intros resolve_name repl pre post Hpre Hpost name.
  destruct (path_name_auto_shape resolve_name repl pre post Hpre Hpost) as [[Hc Hp]|(r & pa & T & Hc & _ & Er & Hp)];
    fold name in Hc, Hp.
  - split; [auto|]. intros _. eauto.
  - split.
    + intros [note H]. rewrite Hp in H. injection H as E _. right. exists r, pa, T. split; [exact Hc|].
      rewrite Er in E. apply app_inv_head in E. apply app_inv_tail in E. exact E.
    + intros [H|(r' & pa' & T' & H & E)]; [congruence|]. rewrite Hc in H. inversion H; subst.
      exists true. rewrite Hp, E. reflexivity.
Qed.

(* the bare name, possibly behind one or two underscores: the early return of apply_coercion *)
Theorem path_name_auto_bare : forall resolve_name repl pre,
  pre = [] \/ pre = [95%N] \/ pre = [95%N; 95%N] ->
  path_new_name_full acr resolve_name true vm repl (pre ++ occ) = Some (pre ++ new, false).
Proof.
  intros resolve_name repl pre Hpre.
  assert (Hn : noalpha pre = true) by (destruct Hpre as [->|[->| ->]]; reflexivity).
  destruct term_occ_shape as (Hs & _).
  assert (Hc : co_apply_coercion acr (pre ++ occ ++ []) occ new = None).
  { apply co_early_return. rewrite app_nil_r. f_equal.
    destruct occ as [|a o'] eqn:Eo; [discriminate Hs|]. unfold starts_alpha in Hs. cbn [hd_is] in Hs.
    assert (Ha : (a =? 95)%N = false).
    { destruct (a =? 95)%N eqn:E; [|reflexivity]. apply N.eqb_eq in E. subst a. discriminate Hs. }
    destruct Hpre as [->|[->| ->]]; cbn [app extract_prefix snd]; rewrite ?N.eqb_refl, ?Ha; reflexivity. }
  destruct (path_name_auto_shape resolve_name repl pre [] Hn eq_refl) as [[_ Hp]|(r & pa & T & Hc' & _)].
  - rewrite !app_nil_r in Hp. exact Hp.
  - congruence.
Qed.

End Term.

(* ------------------------------------------------------------------------------------------ *)
(* P3: no key, no rename; composition with the listing-level planner (Props/C08)              *)
(* ------------------------------------------------------------------------------------------ *)
Theorem no_key_no_rename : forall acr resolve_name coerce_auto vm repl name,
  (forall k, In k (keys vm) -> contains k name = false) ->
  path_new_name acr resolve_name coerce_auto vm repl name = None.
Proof.
  intros acr resolve_name coerce_auto vm repl name H. unfold path_new_name, path_new_name_full, first_key.
  replace (find (fun kv => contains (fst kv) name) vm) with (@None (bytes * bytes)); [reflexivity|].
  symmetry. induction vm as [|[k v] vm IH]; [reflexivity|]. cbn [find fst].
  rewrite (H k (or_introl eq_refl)). apply IH. intros k' Hk'. apply H. right. exact Hk'.
Qed.

(* the C08 structure theorems hold for the modelled name function (they hold for every namefn) *)
Theorem path_plan_shape : forall acr resolve_name coerce_auto vm repl rf rd l r,
  In r (plan_listing (path_new_name acr resolve_name coerce_auto vm repl) rf rd l) ->
  RenameP.shape r /\ ar_new r <> ar_path r /\
  exists e, In e l /\ ar_path r = en_path e /\ ar_dir r = en_dir e /\ (if en_dir e then rd else rf) = true.
Proof. intros acr resolve_name coerce_auto vm repl. apply plan_listing_shape. Qed.

(* completeness for one entry, for ANY name function: if the function renames the entry's own name
   and the kind is enabled, exactly that rename is scheduled *)
Lemma plan_listing_complete namefn rf rd l e parent name n :
  In e l -> en_path e = parent ++ [name] -> (if en_dir e then rd else rf) = true ->
  namefn name = Some n -> n <> name ->
  In {| ar_path := en_path e; ar_new := parent ++ [n]; ar_dir := en_dir e |} (plan_listing namefn rf rd l).
Proof.
  intros He Hp Hk Hn Hne. unfold plan_listing. apply in_flat_map. exists e. split; [exact He|].
  rewrite Hk. unfold plan_entry. rewrite Hp, rev_app_distr. cbn [rev app]. rewrite Hn.
  destruct (beq n name) eqn:E; [apply beq_eq in E; contradiction|].
  rewrite rev_involutive. left. reflexivity.
Qed.

Section Scheduled.
Variables (acr : acr_tab) (defaults : list style) (amb : bool) (S0 S1 S : style) (sw rw : list bytes)
          (styles : list style).
Hypothesis Hwf : wf_acr acr = true.
Hypothesis Hv0 : visible S0 = true.
Hypothesis Hv1 : visible S1 = true.
Hypothesis Hv : visible S = true.
Hypothesis Hlen : 2 <= length sw.
Hypothesis Hrne : rw <> [].
Hypothesis Hns : all_neutral acr sw = true.
Hypothesis Hnr : all_neutral acr rw = true.
Hypothesis Hin : In S styles.
Hypothesis Hdiff : to_style acr rw S <> to_style acr sw S.

Let vm := variant_map_core acr defaults [] [] false amb (to_style acr sw S0) (to_style acr rw S1) (Some styles).
Let occ := to_style acr sw S.
Let new := to_style acr rw S.

(* C08, same-style clause, coercion Off: every listed file, directory or symlink (symlinks are listed
   as non-directories) of an enabled kind whose own name is pre ++ occ ++ post with letter-free pre/post
   is scheduled for the rename of exactly its last component to pre ++ new ++ post *)
Theorem path_rename_scheduled_off : forall resolve_name repl rf rd l e parent pre post,
  In e l -> en_path e = parent ++ [pre ++ occ ++ post] -> (if en_dir e then rd else rf) = true ->
  noalpha pre = true -> noalpha post = true ->
  In {| ar_path := en_path e; ar_new := parent ++ [pre ++ new ++ post]; ar_dir := en_dir e |}
     (plan_listing (path_new_name acr resolve_name false vm repl) rf rd l).
Proof.
  intros resolve_name repl rf rd l e parent pre post He Hp Hk Hpre Hpost.
  apply (plan_listing_complete _ rf rd l e parent (pre ++ occ ++ post)); auto.
  - unfold path_new_name, vm, occ, new.
    rewrite (path_name_off_letterfree acr defaults amb S0 S1 S sw rw styles Hwf Hv0 Hv1 Hv Hlen Hrne Hns Hnr Hin
               resolve_name repl pre post Hpre Hpost). reflexivity.
  - intro E. apply app_inv_head in E. apply app_inv_tail in E. exact (Hdiff E).
Qed.

Theorem path_rename_scheduled_off_barrier : forall resolve_name repl rf rd l e parent pre post,
  In e l -> en_path e = parent ++ [pre ++ occ ++ post] -> (if en_dir e then rd else rf) = true ->
  left_ok vm pre -> right_ok vm post ->
  In {| ar_path := en_path e; ar_new := parent ++ [pre ++ new ++ post]; ar_dir := en_dir e |}
     (plan_listing (path_new_name acr resolve_name false vm repl) rf rd l).
Proof.
  intros resolve_name repl rf rd l e parent pre post He Hp Hk Hpre Hpost.
  apply (plan_listing_complete _ rf rd l e parent (pre ++ occ ++ post)); auto.
  - unfold path_new_name, vm, occ, new.
    rewrite (path_name_off_barrier acr defaults amb S0 S1 S sw rw styles Hwf Hv0 Hv1 Hv Hlen Hrne Hns Hnr Hin
               resolve_name repl pre post Hpre Hpost). reflexivity.
  - intro E. apply app_inv_head in E. apply app_inv_tail in E. exact (Hdiff E).
Qed.

(* coercion Auto: the bare name (behind at most two underscores) *)
Theorem path_rename_scheduled_auto_bare : forall resolve_name repl rf rd l e parent pre,
  In e l -> en_path e = parent ++ [pre ++ occ] -> (if en_dir e then rd else rf) = true ->
  pre = [] \/ pre = [95%N] \/ pre = [95%N; 95%N] ->
  In {| ar_path := en_path e; ar_new := parent ++ [pre ++ new]; ar_dir := en_dir e |}
     (plan_listing (path_new_name acr resolve_name true vm repl) rf rd l).
Proof.
  intros resolve_name repl rf rd l e parent pre He Hp Hk Hpre.
  apply (plan_listing_complete _ rf rd l e parent (pre ++ occ)); auto.
  - unfold path_new_name, vm, occ, new.
    rewrite (path_name_auto_bare acr defaults amb S0 S1 S sw rw styles Hwf Hv0 Hv1 Hv Hlen Hrne Hns Hnr Hin
               resolve_name repl pre Hpre). reflexivity.
  - intro E. apply app_inv_head in E. exact (Hdiff E).
Qed.

End Scheduled.

(* ------------------------------------------------------------------------------------------ *)
(* witnesses (all replayed on the real planner, see the report)                               *)
(* ------------------------------------------------------------------------------------------ *)
From Coq Require Import Strings.String.
From RN Require Import Base.Str Gen.GenAcronyms.

Definition ex_vm : amap :=
  variant_map_core gen_acronyms gen_default_styles [] [] false false (bs "old_name") (bs "new_name")
    (Some gen_default_styles).
Definition ex_name (auto : bool) (n : bytes) : option (bytes * bool) :=
  path_new_name_full gen_acronyms (fun _ _ => Snake) auto ex_vm (bs "new_name") n.

(* Auto deviates from the same-style name: a camelCase / PascalCase occurrence next to an underscore
   is rewritten in snake_case (the container's style), lower-casing a Pascal occurrence *)
Example auto_deviation_camel :
  ex_name true (bs "oldName_2") = Some (bs "new_name_2", true) /\
  ex_name false (bs "oldName_2") = Some (bs "newName_2", false).
Proof. vm_compute. split; reflexivity. Qed.
Example auto_deviation_pascal :
  ex_name true (bs "OldName_2") = Some (bs "new_name_2", true) /\
  ex_name true (bs "_oldName_") = Some (bs "_new_name_", true) /\
  ex_name false (bs "OldName_2") = Some (bs "NewName_2", false).
Proof. vm_compute. repeat split; reflexivity. Qed.
(* ... while these letter-free contexts keep the style in Auto (coercion answers in the same style) *)
Example auto_same_style :
  ex_name true (bs "old_name2") = Some (bs "new_name2", true) /\
  ex_name true (bs "oldName-2") = Some (bs "newName-2", true) /\
  ex_name true (bs "Old-Name-2") = Some (bs "New-Name-2", true) /\
  ex_name true (bs "oldName.2") = Some (bs "newName.2", false) /\
  ex_name true (bs "OLD-NAME_1") = Some (bs "NEW-NAME_1", false).
Proof. vm_compute. repeat split; reflexivity. Qed.

(* without the sole-occurrence hypothesis: only ONE variant is rewritten — the first key in byte order
   (upper case sorts first), not the leftmost occurrence — and the new name still contains the term *)
Example second_variant_left_behind :
  ex_name false (bs "OldName old_name") = Some (bs "NewName old_name", false) /\
  ex_name false (bs "old_name_OldName") = Some (bs "old_name_NewName", false) /\
  ex_name true (bs "old_name_OldName") = Some (bs "old_name_new_name", true).
Proof. vm_compute. repeat split; reflexivity. Qed.

(* path_name_off_ext needs "Dot is not enabled": with it, the dot variant tic.tic occurs ACROSS the
   extension boundary of tic_tic.tic, sorts before tic_tic ('.' < '_') and is the one rewritten *)
Example ext_counterexample_dot :
  let sw := [bs "tic"; bs "tic"] in
  let vm := variant_map_core gen_acronyms gen_default_styles [] [] false false (bs "tic_tic") (bs "bbb_ccc")
              (Some (Dot :: gen_default_styles)) in
  all_neutral gen_acronyms sw = true /\
  first_key vm (bs "tic_tic.tic") = Some (bs "tic.tic", bs "bbb.ccc") /\
  path_new_name_full gen_acronyms (fun _ _ => Snake) false vm (bs "bbb_ccc") (bs "tic_tic.tic")
    = Some (bs "tic_bbb.ccc", false).
Proof. vm_compute. repeat split; reflexivity. Qed.

Print Assumptions path_name_off.
Print Assumptions path_name_off_letterfree.
Print Assumptions path_name_off_barrier.
Print Assumptions path_name_off_ext.
Print Assumptions path_name_auto_shape.
Print Assumptions path_name_auto_same_iff.
Print Assumptions path_name_auto_bare.
Print Assumptions no_key_no_rename.
Print Assumptions path_plan_shape.
Print Assumptions path_rename_scheduled_off.
Print Assumptions path_rename_scheduled_auto_bare.
Print Assumptions path_rename_scheduled_off_barrier.
