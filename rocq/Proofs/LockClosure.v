(* Proofs/LockClosure.v — two processes starting concurrently on a workspace without a lock file
   (or with the lock of a live, fresh holder): under EVERY interleaving of their file-system
   calls, including a crash of either at any point, at most one is ever in its critical section.
   The reachable state space is finite (the clock does not advance: the run is shorter than the
   stale timeout); it is computed inside Coq, shown closed under every step, and the claim is
   lifted to all schedules by induction. *)
From RN Require Import Model.Lock.

Definition content_eqb (a b : content) : bool :=
  match a, b with
  | CEmpty, CEmpty | CNoColon, CNoColon | CGarbageColon, CGarbageColon => true
  | CValid o t, CValid o' t' => Nat.eqb o o' && Nat.eqb t t'
  | _, _ => false
  end.
Definition pc_eqb (a b : pc) : bool :=
  match a, b with
  | PStart, PStart | PSawExists, PSawExists | PRemove, PRemove | PCreate, PCreate | PWrite, PWrite
  | PCritical, PCritical | PDropCheck, PDropCheck | PDropRemove, PDropRemove => true
  | PRead x, PRead y => content_eqb x y
  | PDone x, PDone y => Bool.eqb x y
  | _, _ => false
  end.
Definition ocontent_eqb (a b : option content) : bool :=
  match a, b with Some x, Some y => content_eqb x y | None, None => true | _, _ => false end.
Fixpoint procs_eqb (a b : list (pid * pc)) : bool :=
  match a, b with
  | [], [] => true
  | (p, c) :: a', (q, d) :: b' => Nat.eqb p q && pc_eqb c d && procs_eqb a' b'
  | _, _ => false
  end.
Fixpoint nats_eqb (a b : list nat) : bool :=
  match a, b with
  | [], [] => true
  | x :: a', y :: b' => Nat.eqb x y && nats_eqb a' b'
  | _, _ => false
  end.
Definition world_eqb (a b : world) : bool :=
  ocontent_eqb (lock a) (lock b) && Nat.eqb (now a) (now b) && procs_eqb (procs a) (procs b) &&
  nats_eqb (dead a) (dead b).

Lemma content_eqb_eq a b : content_eqb a b = true -> a = b.
Proof.
  destruct a, b; cbn; intro H; try discriminate; try reflexivity.
  apply andb_true_iff in H as [H1 H2]. apply Nat.eqb_eq in H1. apply Nat.eqb_eq in H2. congruence.
Qed.
Lemma pc_eqb_eq a b : pc_eqb a b = true -> a = b.
Proof.
  destruct a, b; cbn; intro H; try discriminate; try reflexivity.
  - apply content_eqb_eq in H. congruence.
  - apply Bool.eqb_prop in H. congruence.
Qed.
Lemma procs_eqb_eq a b : procs_eqb a b = true -> a = b.
Proof.
  revert b; induction a as [|[p c] a IH]; intros [|[q d] b] H; cbn in H; try discriminate; [reflexivity|].
  apply andb_true_iff in H as [H H3]. apply andb_true_iff in H as [H1 H2].
  apply Nat.eqb_eq in H1. apply pc_eqb_eq in H2. apply IH in H3. congruence.
Qed.
Lemma nats_eqb_eq a b : nats_eqb a b = true -> a = b.
Proof.
  revert b; induction a as [|x a IH]; intros [|y b] H; cbn in H; try discriminate; [reflexivity|].
  apply andb_true_iff in H as [H1 H2]. apply Nat.eqb_eq in H1. apply IH in H2. congruence.
Qed.
Lemma world_eqb_eq a b : world_eqb a b = true -> a = b.
Proof.
  unfold world_eqb. intro H.
  apply andb_true_iff in H as [H H4]. apply andb_true_iff in H as [H H3]. apply andb_true_iff in H as [H1 H2].
  destruct a as [la na pa da], b as [lb nb pb db]; cbn in *.
  apply Nat.eqb_eq in H2. apply procs_eqb_eq in H3. apply nats_eqb_eq in H4.
  assert (la = lb).
  { destruct la, lb; cbn in H1; try discriminate; [apply content_eqb_eq in H1; congruence | reflexivity]. }
  congruence.
Qed.

Definition mem (w : world) (S : list world) : bool := existsb (world_eqb w) S.

Lemma mem_In w S : mem w S = true -> In w S.
Proof.
  unfold mem. intro H. apply existsb_exists in H as [x [Hin He]]. apply world_eqb_eq in He. subst. exact Hin.
Qed.

(* the events two processes 1 and 2 can produce *)
Definition evs12 : list ev := [Step 1; Step 2; Crash 1; Crash 2].
Definition succs (w : world) : list world :=
  flat_map (fun e => match exec1 w e with Some w' => [w'] | None => [] end) evs12.

Fixpoint explore (fuel : nat) (frontier seen : list world) : list world :=
  match fuel with
  | O => seen
  | S fuel' =>
      match frontier with
      | [] => seen
      | w :: rest =>
          if mem w seen then explore fuel' rest seen
          else explore fuel' (succs w ++ rest) (w :: seen)
      end
  end.

Definition closed (S : list world) : bool :=
  forallb (fun w => forallb (fun w' => mem w' S) (succs w)) S.

(* two fresh processes, no lock file *)
Definition w2 : world := init None 1000 [1; 2].
Definition S2 : list world := Eval vm_compute in explore 5000 [w2] [].

Lemma S2_closed : closed S2 = true.           Proof. vm_compute. reflexivity. Qed.
Lemma S2_init : mem w2 S2 = true.             Proof. vm_compute. reflexivity. Qed.
Lemma S2_mutex : forallb mutex S2 = true.     Proof. vm_compute. reflexivity. Qed.

Definition ev12 (e : ev) : Prop :=
  match e with Step _ => True | Crash _ => True | Tick _ => False end.

Lemma step_other w p : get_pc (procs w) p = None -> step w p = None.
Proof. intro H. unfold step. rewrite H. reflexivity. Qed.

Lemma procs_pids_S2 w : In w S2 -> forall p, p <> 1 -> p <> 2 -> get_pc (procs w) p = None.
Proof.
  intros Hin p H1 H2.
  assert (A : forallb (fun w => match procs w with
                                | [(a, _); (b, _)] => Nat.eqb a 1 && Nat.eqb b 2
                                | _ => false end) S2 = true)
    by (vm_compute; reflexivity).
  rewrite forallb_forall in A. specialize (A w Hin).
  destruct (procs w) as [|[a ca] [|[b cb] [|x r]]]; try discriminate.
  apply andb_true_iff in A as [A1 A2]. apply Nat.eqb_eq in A1. apply Nat.eqb_eq in A2. subst a b.
  cbn [get_pc].
  destruct (Nat.eqb 1 p) eqn:E1; [apply Nat.eqb_eq in E1; congruence|].
  destruct (Nat.eqb 2 p) eqn:E2; [apply Nat.eqb_eq in E2; congruence|].
  reflexivity.
Qed.

Lemma succ_in_S2 w e w' : In w S2 -> ev12 e -> exec1 w e = Some w' -> In w' S2.
Proof.
  intros Hin He Hx.
  pose proof S2_closed as C. unfold closed in C. rewrite forallb_forall in C.
  specialize (C w Hin). rewrite forallb_forall in C.
  apply mem_In. apply C. unfold succs. apply in_flat_map.
  destruct e as [p|n|p]; [| destruct He |].
  - destruct (Nat.eq_dec p 1) as [->|N1]; [exists (Step 1); split; [cbn; auto| rewrite Hx; cbn; auto]|].
    destruct (Nat.eq_dec p 2) as [->|N2]; [exists (Step 2); split; [cbn; auto| rewrite Hx; cbn; auto]|].
    cbn in Hx. rewrite step_other in Hx by (apply procs_pids_S2; assumption). discriminate.
  - destruct (Nat.eq_dec p 1) as [->|N1]; [exists (Crash 1); split; [cbn; auto| rewrite Hx; cbn; auto]|].
    destruct (Nat.eq_dec p 2) as [->|N2]; [exists (Crash 2); split; [cbn; auto| rewrite Hx; cbn; auto]|].
    cbn in Hx. rewrite (procs_pids_S2 w Hin p N1 N2) in Hx. discriminate.
Qed.

Theorem two_fresh_processes_mutex : forall es w,
  Forall ev12 es -> exec w2 es = Some w -> mutex w = true.
Proof.
  assert (G : forall es w0 w, In w0 S2 -> Forall ev12 es -> exec w0 es = Some w -> In w S2).
  { induction es as [|e es IH]; intros w0 w Hin Hall Hx; cbn in Hx.
    - inversion Hx; subst. exact Hin.
    - inversion Hall; subst. destruct (exec1 w0 e) as [w1|] eqn:E; [|discriminate].
      eapply IH; [eapply succ_in_S2; eauto | assumption | exact Hx]. }
  intros es w Hall Hx.
  pose proof S2_mutex as M. rewrite forallb_forall in M. apply M.
  eapply G; [apply mem_In; exact S2_init | exact Hall | exact Hx].
Qed.

(* the same from a lock held by a live, fresh third party: nobody ever enters *)
Definition w2_held : world := init (Some (CValid 77 1000)) 1000 [1; 2].
Definition S2h : list world := Eval vm_compute in explore 5000 [w2_held] [].
Lemma S2h_closed : closed S2h = true.        Proof. vm_compute. reflexivity. Qed.
Lemma S2h_nobody : forallb (fun w => match in_critical w with [] => true | _ => false end) S2h = true.
Proof. vm_compute. reflexivity. Qed.
Lemma S2h_lock_kept : forallb (fun w => ocontent_eqb (lock w) (Some (CValid 77 1000))) S2h = true.
Proof. vm_compute. reflexivity. Qed.
