(* Proofs/WSweep8.v — residue class 8 (mod 16) of the C20 sweep over every builder's option space *)
From RN Require Import Base.Bytes Model.ClapDef Model.Clap Model.Wrappers Gen.GenCli Gen.GenWrappers.
Lemma sweep8 : forallb (builder_chunk_ok gen_globals gen_cli 16 8) gen_builders = true.
Proof. vm_compute. reflexivity. Qed.
