(* Proofs/CaseP1.v — basic facts about bytes, find_longest_match, the tokenizer's fuel (T0),
   and the "tokens concatenate back" lemma for alphanumeric input. *)
From Coq Require Import Lia ZArith ZifyBool.
From RN Require Import Base.Bytes Model.StyleDef Model.CaseModel Model.CaseSpec.
Open Scope N_scope.

(* ------------------------------------------------------------------ byte classes *)
Ltac bsolve :=
  unfold is_delim, is_alnum, is_alpha, to_upper, to_lower, is_upper, is_lower, is_digit in *;
  repeat match goal with
  | |- context [if ?b then _ else _] => destruct b eqn:?
  | H : context [if ?b then _ else _] |- _ => destruct b eqn:?
  end; try lia.

Lemma lower_not_upper c : is_lower c = true -> is_upper c = false.
Proof. intro; bsolve. Qed.
Lemma lower_not_digit c : is_lower c = true -> is_digit c = false.
Proof. intro; bsolve. Qed.
Lemma lower_not_delim c : is_lower c = true -> is_delim c = false.
Proof. intro; bsolve. Qed.
Lemma lower_alpha c : is_lower c = true -> is_alpha c = true.
Proof. intro; bsolve. Qed.
Lemma upper_not_lower c : is_upper c = true -> is_lower c = false.
Proof. intro; bsolve. Qed.
Lemma upper_not_digit c : is_upper c = true -> is_digit c = false.
Proof. intro; bsolve. Qed.
Lemma upper_not_delim c : is_upper c = true -> is_delim c = false.
Proof. intro; bsolve. Qed.
Lemma upper_alpha c : is_upper c = true -> is_alpha c = true.
Proof. intro; bsolve. Qed.
Lemma delim_not_ud c : is_delim c = true -> is_upper c || is_digit c = false.
Proof. intro; bsolve. Qed.
Lemma delim_not_lower c : is_delim c = true -> is_lower c = false.
Proof. intro; bsolve. Qed.
Lemma delim_not_upper c : is_delim c = true -> is_upper c = false.
Proof. intro; bsolve. Qed.
Lemma delim_not_alnum c : is_delim c = true -> is_alnum c = false.
Proof. intro; bsolve. Qed.
Lemma to_upper_lower_is_upper c : is_lower c = true -> is_upper (to_upper c) = true.
Proof. intro; bsolve. Qed.
Lemma to_lower_to_upper c : is_lower c = true -> to_lower (to_upper c) = c.
Proof. intro; bsolve. Qed.
Lemma to_lower_lower c : is_lower c = true -> to_lower c = c.
Proof. intro; bsolve. Qed.
Lemma to_upper_upper c : is_upper c = true -> to_upper c = c.
Proof. intro; bsolve. Qed.
Lemma to_upper_idem c : to_upper (to_upper c) = to_upper c.
Proof. bsolve. Qed.
Lemma to_upper_delim c : is_delim c = true -> to_upper c = c.
Proof. intro; bsolve. Qed.

(* ------------------------------------------------------------------ list helpers *)
Lemma firstn_app_exact {A} (l1 l2 : list A) n : length l1 = n -> firstn n (l1 ++ l2) = l1.
Proof. intros <-. rewrite firstn_app, Nat.sub_diag, firstn_all. cbn. apply app_nil_r. Qed.

Lemma skipn_app_exact {A} (l1 l2 : list A) n : length l1 = n -> skipn n (l1 ++ l2) = l2.
Proof. intros <-. rewrite skipn_app, Nat.sub_diag, skipn_all. reflexivity. Qed.

Lemma firstn_app_le {A} (l1 l2 : list A) n : (n <= length l1)%nat -> firstn n (l1 ++ l2) = firstn n l1.
Proof.
  intro H. rewrite firstn_app. replace (n - length l1)%nat with 0%nat by lia. cbn. apply app_nil_r.
Qed.

Lemma forallb_false_in {A} (p : A -> bool) l x : In x l -> p x = false -> forallb p l = false.
Proof.
  intros Hin Hp. destruct (forallb p l) eqn:E; [|reflexivity].
  rewrite forallb_forall in E. rewrite (E _ Hin) in Hp. discriminate.
Qed.

Lemma forallb_impl {A} (p q : A -> bool) l :
  (forall x, p x = true -> q x = true) -> forallb p l = true -> forallb q l = true.
Proof. intros H. rewrite !forallb_forall. intros Hp x Hx. apply H, Hp, Hx. Qed.

Lemma split_at {A} (l : list A) n : (n <= length l)%nat ->
  exists l1 l2, l = l1 ++ l2 /\ length l1 = n.
Proof.
  intro H. exists (firstn n l), (skipn n l). split; [symmetry; apply firstn_skipn|].
  apply firstn_length_le, H.
Qed.

(* ------------------------------------------------------------------ upper / lower on words *)
Lemma upper_length w : length (upper w) = length w.
Proof. apply map_length. Qed.
Lemma lower_length w : length (lower w) = length w.
Proof. apply map_length. Qed.

Lemma upper_idem w : upper (upper w) = upper w.
Proof. unfold upper. rewrite map_map. apply map_ext. intro; apply to_upper_idem. Qed.

Lemma upper_app a b : upper (a ++ b) = upper a ++ upper b.
Proof. apply map_app. Qed.

Lemma lower_of_lower w : forallb is_lower w = true -> lower w = w.
Proof.
  induction w as [|c w IH]; cbn [forallb lower map]; [reflexivity|].
  intro H. apply andb_true_iff in H as [H1 H2]. rewrite to_lower_lower by assumption.
  f_equal. apply IH, H2.
Qed.

Lemma lower_upper w : forallb is_lower w = true -> lower (upper w) = w.
Proof.
  induction w as [|c w IH]; cbn [forallb lower upper map]; [reflexivity|].
  intro H. apply andb_true_iff in H as [H1 H2]. rewrite to_lower_to_upper by assumption.
  f_equal. apply IH, H2.
Qed.

Lemma upper_of_upper w : forallb is_upper w = true -> upper w = w.
Proof.
  induction w as [|c w IH]; cbn [forallb upper map]; [reflexivity|].
  intro H. apply andb_true_iff in H as [H1 H2]. rewrite to_upper_upper by assumption.
  f_equal. apply IH, H2.
Qed.

Lemma upper_all_upper w : forallb is_lower w = true -> forallb is_upper (upper w) = true.
Proof.
  induction w as [|c w IH]; cbn [forallb upper map]; [reflexivity|].
  intro H. apply andb_true_iff in H as [H1 H2].
  rewrite to_upper_lower_is_upper by assumption. apply IH, H2.
Qed.

(* ------------------------------------------------------------------ ci_prefix *)
Lemma ci_prefix_len c r : ci_prefix c r = true -> (length c <= length r)%nat.
Proof.
  revert r; induction c as [|x c IH]; intros [|y r]; cbn [ci_prefix length]; intro H;
    try lia; try discriminate.
  apply andb_true_iff in H as [_ H]. apply IH in H. lia.
Qed.

Lemma ci_prefix_upper c r : ci_prefix c r = true -> c = upper (firstn (length c) r).
Proof.
  revert r; induction c as [|x c IH]; intros [|y r]; cbn [ci_prefix length firstn upper map]; intro H;
    try reflexivity; try discriminate.
  apply andb_true_iff in H as [H1 H]. apply N.eqb_eq in H1. apply IH in H.
  unfold upper in H. rewrite <- H. congruence.
Qed.

Definition tail_de (tail : bytes) : Prop :=
  match tail with [] => True | d :: _ => is_delim d = true end.

Definition tail_ok (tail : bytes) : Prop :=
  match tail with [] => True | d :: _ => is_delim d = true \/ is_upper d = true end.

Lemma tail_de_ok t : tail_de t -> tail_ok t.
Proof. destruct t; cbn; auto. Qed.

Lemma ci_prefix_app_delim c W tail :
  forallb (fun x => is_upper x || is_digit x) c = true -> tail_de tail ->
  ci_prefix c (W ++ tail) = ci_prefix c W.
Proof.
  intros Hc Ht. revert W; induction c as [|x c IH]; intros W; [destruct W; reflexivity|].
  cbn [forallb] in Hc. apply andb_true_iff in Hc as [Hx Hc].
  destruct W as [|y W]; cbn [app ci_prefix].
  - destruct tail as [|d more]; [reflexivity|]. cbn in Ht. cbn [ci_prefix].
    rewrite (to_upper_delim _ Ht).
    destruct (d =? x) eqn:E; [|reflexivity]. apply N.eqb_eq in E. subst x.
    rewrite (delim_not_ud _ Ht) in Hx. discriminate.
  - rewrite IH by assumption. reflexivity.
Qed.

(* ------------------------------------------------------------------ find_longest_match *)
Definition cands (acr : acr_tab) (rest : bytes) : list bytes :=
  filter (fun a => ci_prefix a rest && negb (Nat.eqb (length a) 0)) acr.

Definition pick (b a : bytes) : bytes := if Nat.ltb (length b) (length a) then a else b.

Definition flm_len (acr : acr_tab) (rest : bytes) : option nat :=
  match cands acr rest with
  | [] => None
  | _ => Some (length (fold_left pick (cands acr rest) []))
  end.

Lemma flm_eq acr rest :
  find_longest_match acr rest = option_map (fun n => firstn n rest) (flm_len acr rest).
Proof.
  unfold find_longest_match, flm_len. fold (cands acr rest).
  destruct (cands acr rest); reflexivity.
Qed.

Lemma fold_pick_inv cs : forall b,
  (fold_left pick cs b = b \/ In (fold_left pick cs b) cs) /\
  (length b <= length (fold_left pick cs b))%nat /\
  (forall c, In c cs -> (length c <= length (fold_left pick cs b))%nat).
Proof.
  induction cs as [|a cs IH]; intros b; cbn [fold_left].
  - repeat split; auto. intros c [].
  - destruct (IH (pick b a)) as (H1 & H2 & H3).
    assert (Hp : (length b <= length (pick b a))%nat /\ (length a <= length (pick b a))%nat /\
                 (pick b a = b \/ pick b a = a)).
    { unfold pick. destruct (Nat.ltb (length b) (length a)) eqn:E.
      - apply Nat.ltb_lt in E. cbn iota. repeat split; auto; lia.
      - apply Nat.ltb_ge in E. cbn iota. repeat split; auto; lia. }
    destruct Hp as (Hb & Ha & Hor).
    repeat split.
    + destruct H1 as [H1|H1].
      * rewrite H1. destruct Hor as [->| ->]; [left; reflexivity | right; left; reflexivity].
      * right; right; exact H1.
    + lia.
    + intros c [<-|Hc]; [lia | apply H3, Hc].
Qed.

Lemma flm_len_some acr rest n : flm_len acr rest = Some n ->
  exists best, In best acr /\ ci_prefix best rest = true /\ length best = n /\ n <> 0%nat.
Proof.
  unfold flm_len. destruct (cands acr rest) as [|c0 cs] eqn:E; [discriminate|].
  intro H. injection H as H.
  destruct (fold_pick_inv (c0 :: cs) []) as (H1 & _ & H3).
  assert (Hall : forall c, In c (c0 :: cs) -> In c acr /\ ci_prefix c rest = true /\ length c <> 0%nat).
  { intros c Hc. rewrite <- E in Hc. unfold cands in Hc. apply filter_In in Hc as [Hi Hc].
    apply andb_true_iff in Hc as [Hp Hl]. repeat split; auto.
    apply negb_true_iff, Nat.eqb_neq in Hl. exact Hl. }
  destruct H1 as [H1|H1].
  - exfalso. specialize (H3 c0 (or_introl eq_refl)). rewrite H1 in H3. cbn in H3.
    destruct (Hall c0 (or_introl eq_refl)) as (_ & _ & Hl). lia.
  - destruct (Hall _ H1) as (Ha & Hb & Hc).
    exists (fold_left pick (c0 :: cs) []). change (fold_left pick cs (pick [] c0)) with (fold_left pick (c0 :: cs) []) in H. repeat split; auto. lia.
Qed.

Lemma flm_len_ext acr r1 r2 :
  (forall c, In c acr -> ci_prefix c r1 = ci_prefix c r2) -> flm_len acr r1 = flm_len acr r2.
Proof.
  intro H. unfold flm_len.
  replace (cands acr r1) with (cands acr r2); [reflexivity|].
  unfold cands. apply filter_ext_in. intros c Hc. rewrite (H c Hc). reflexivity.
Qed.

Lemma wf_acr_in acr c : wf_acr acr = true -> In c acr ->
  (2 <= length c)%nat /\ forallb (fun x => is_upper x || is_digit x) c = true.
Proof.
  unfold wf_acr. rewrite forallb_forall. intros H Hc. specialize (H c Hc).
  apply andb_true_iff in H as [H1 H2]. apply Nat.leb_le in H1. auto.
Qed.

Lemma flm_len_app_delim acr W tail : wf_acr acr = true -> tail_de tail ->
  flm_len acr (W ++ tail) = flm_len acr W.
Proof.
  intros Hwf Ht. apply flm_len_ext. intros c Hc.
  apply ci_prefix_app_delim; [|exact Ht]. apply (wf_acr_in acr c Hwf Hc).
Qed.

(* ------------------------------------------------------------------ span *)
Lemma span_spec p s run after : span p s = (run, after) -> s = run ++ after /\ forallb p run = true.
Proof.
  revert run after; induction s as [|c s IH]; intros run after; cbn [span].
  - intro H; injection H as <- <-. auto.
  - destruct (p c) eqn:E.
    + destruct (span p s) as [a b]. intro H; injection H as <- <-.
      destruct (IH a b eq_refl) as [-> H2]. cbn [forallb app]. rewrite E, H2. auto.
    + intro H; injection H as <- <-. auto.
Qed.

Lemma span_app p W tail : forallb p W = true -> hd_is p tail = false -> span p (W ++ tail) = (W, tail).
Proof.
  intros HW Ht. induction W as [|c W IH]; cbn [app span].
  - destruct tail as [|d t]; [reflexivity|]. cbn in Ht. cbn [span]. rewrite Ht. reflexivity.
  - cbn [forallb] in HW. apply andb_true_iff in HW as [Hc HW]. rewrite Hc, (IH HW). reflexivity.
Qed.

(* ------------------------------------------------------------------ token starts are prefixes *)
Lemma try_acronym_some acr b rest a : try_acronym acr b rest = Some a ->
  exists k, (1 <= k <= length rest)%nat /\ a = firstn k rest.
Proof.
  unfold try_acronym. rewrite flm_eq. destruct (flm_len acr rest) as [n|] eqn:E; [|discriminate].
  cbn [option_map]. apply flm_len_some in E as (best & _ & Hp & Hl & Hn).
  apply ci_prefix_len in Hp.
  destruct (negb _); [discriminate|].
  match goal with |- (if ?c then _ else _) = _ -> _ => destruct c end; [discriminate|].
  intro H; injection H as <-. exists n. split; [lia|reflexivity].
Qed.

Lemma try_upper_run_some acr b rest a : try_upper_run acr b rest = Some a ->
  exists k, (1 <= k <= length rest)%nat /\ a = firstn k rest.
Proof.
  unfold try_upper_run. destruct (is_upper b); [|discriminate].
  destruct (span is_upper rest) as [run after] eqn:E. apply span_spec in E as [-> _].
  destruct (Nat.ltb 1 (length run) && hd_is is_lower after) eqn:E2; [|discriminate].
  apply andb_true_iff in E2 as [E2 _]. apply Nat.ltb_lt in E2.
  rewrite app_length.
  destruct (find _ _) as [k|] eqn:F.
  - apply find_some in F as [F _]. apply in_rev, in_seq in F.
    intro H; injection H as <-. exists k. split; [lia|].
    symmetry; apply firstn_app_le; lia.
  - intro H; injection H as <-. exists (length run - 1)%nat. split; [lia|].
    symmetry; apply firstn_app_le; lia.
Qed.

Lemma start_some acr b rest a :
  match try_acronym acr b rest with Some a => Some a | None => try_upper_run acr b rest end = Some a ->
  exists k, (1 <= k <= length rest)%nat /\ a = firstn k rest.
Proof.
  destruct (try_acronym acr b rest) eqn:E.
  - intro H; injection H as <-. eapply try_acronym_some, E.
  - apply try_upper_run_some.
Qed.

(* ------------------------------------------------------------------ T0 *)
Lemma tok_total : forall fuel acr prev rest cur acc,
  (length rest <= fuel)%nat -> tok fuel acr prev rest cur acc <> None.
Proof.
  induction fuel as [|fuel IH]; intros acr prev rest cur acc Hl.
  - destruct rest; cbn in *; [discriminate | lia].
  - destruct rest as [|b rest']; [cbn; discriminate|].
    cbn [length] in Hl. cbn [tok].
    destruct (is_delim b); [apply IH; lia|].
    destruct (is_alpha b || is_digit b); [|apply IH; lia].
    destruct cur as [|c cur].
    + destruct (match try_acronym acr b (b :: rest') with
                | Some a => Some a | None => try_upper_run acr b (b :: rest') end) as [a|] eqn:E.
      * apply start_some in E as (k & Hk & ->). apply IH.
        rewrite firstn_length_le by lia. rewrite skipn_length. cbn [length] in *. lia.
      * destruct prev; apply IH; lia.
    + destruct prev as [p|]; [destruct (should_split acr p b (c :: cur) (b :: rest') rest')|];
        apply IH; lia.
Qed.

Theorem tokens_total : forall acr s, parse_to_tokens acr s <> None.
Proof. intros. unfold parse_to_tokens. apply tok_total. lia. Qed.

(* ------------------------------------------------------------------ concat of tokens *)
Lemma concat_rev_cons (x : bytes) acc : concat (rev (x :: acc)) = concat (rev acc) ++ x.
Proof. cbn [rev]. rewrite concat_app. cbn. rewrite app_nil_r. reflexivity. Qed.

Lemma concat_rev_push cur acc : concat (rev (push_tok cur acc)) = concat (rev acc) ++ cur.
Proof.
  destruct cur; cbn [push_tok]; [rewrite app_nil_r; reflexivity | apply concat_rev_cons].
Qed.

Lemma tok_concat : forall fuel acr prev rest cur acc l,
  forallb is_alnum rest = true -> tok fuel acr prev rest cur acc = Some l ->
  concat l = concat (rev acc) ++ cur ++ rest.
Proof.
  induction fuel as [|fuel IH]; intros acr prev rest cur acc l Hal.
  - destruct rest; cbn [tok]; [|discriminate]. intro H; injection H as <-.
    rewrite app_nil_r. apply concat_rev_push.
  - destruct rest as [|b rest'].
    { cbn [tok]. intro H; injection H as <-. rewrite app_nil_r. apply concat_rev_push. }
    cbn [forallb] in Hal. apply andb_true_iff in Hal as [Hb Hal].
    cbn [tok].
    destruct (is_delim b) eqn:Ed; [rewrite (delim_not_alnum _ Ed) in Hb; discriminate|].
    unfold is_alnum in Hb. rewrite Hb.
    destruct cur as [|c cur].
    + destruct (match try_acronym acr b (b :: rest') with
                | Some a => Some a | None => try_upper_run acr b (b :: rest') end) as [a|] eqn:E.
      * apply start_some in E as (k & Hk & ->).
        rewrite firstn_length_le by lia. intro H. apply IH in H.
        -- rewrite H, concat_rev_cons. cbn [app]. rewrite <- app_assoc, firstn_skipn. reflexivity.
        -- assert (Hall : forallb is_alnum (b :: rest') = true)
             by (cbn [forallb]; unfold is_alnum at 1; rewrite Hb, Hal; reflexivity).
           rewrite <- (firstn_skipn k (b :: rest')) in Hall. rewrite forallb_app in Hall.
           apply andb_true_iff in Hall as [_ Hall]. exact Hall.
      * assert (Hs : match prev with Some _ => false | None => false end = false)
          by (destruct prev; reflexivity).
        destruct prev; intro H; apply IH in H; auto.
    + destruct prev as [p|]; [destruct (should_split acr p b (c :: cur) (b :: rest') rest')|];
        intro H; apply IH in H; auto; rewrite H.
      * rewrite concat_rev_cons. rewrite <- !app_assoc. reflexivity.
      * rewrite <- !app_assoc. reflexivity.
      * rewrite <- !app_assoc. reflexivity.
Qed.

Lemma tokens_concat acr s : forallb is_alnum s = true -> concat (tokens acr s) = s.
Proof.
  intro H. unfold tokens. destruct (parse_to_tokens acr s) as [l|] eqn:E.
  - unfold parse_to_tokens in E. apply tok_concat in E; auto.
  - exfalso. exact (tokens_total acr s E).
Qed.
