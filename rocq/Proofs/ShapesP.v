(* Proofs/ShapesP.v — C19: soundness of the syntactic compatibility check [compat] of Model/Shapes.v:
   whatever serde writes ([enc]) for a value of a Rust type that is [compat]ible with a TypeScript type
   [conforms] to that TypeScript type.  For all fuels, tables, types and values.

   Fuel: [compat] may accept without consuming its last unit of fuel (an enum against a union of
   literals, an Option against a union: the literals / null are not descended into), while [conforms]
   needs one more step to look at the literal.  Hence [compat f] gives [conforms (S f)], and every larger
   fuel by [conforms_mono]. *)
From Coq Require Import Strings.String.
From RN Require Import Base.Bytes Base.Str Model.Shapes Gen.GenShapes.

Lemma beq_sym a b : beq a b = beq b a.
Proof.
  destruct (beq a b) eqn:E1, (beq b a) eqn:E2; try reflexivity.
  - apply beq_eq in E1. subst. rewrite beq_refl in E2. discriminate.
  - apply beq_eq in E2. subst. rewrite beq_refl in E1. discriminate.
Qed.

(* ------------------------------------------------------------------------------------------------ *)
(* One step of each function, with the local fixpoints as standalone functions of the recursive call *)

Section EncStep.
  Variable E : rty -> rval -> option json.
  Fixpoint enc_list_ (t : rty) (l : list rval) : option (list json) :=
    match l with
    | [] => Some []
    | x :: l' => match E t x, enc_list_ t l' with
                 | Some j, Some js => Some (j :: js) | _, _ => None end
    end.
  Fixpoint enc_map_ (t : rty) (m : list (bytes * rval)) : option (list (bytes * json)) :=
    match m with
    | [] => Some []
    | (k, x) :: m' => match E t x, enc_map_ t m' with
                      | Some j, Some js => Some ((k, j) :: js) | _, _ => None end
    end.
  Fixpoint enc_fields_ (fs : list (bytes * rty * skipk)) (vs : list rval) : option (list (bytes * json)) :=
    match fs, vs with
    | [], [] => Some []
    | (name, ft, sk) :: fs', x :: vs' =>
        match E ft x, enc_fields_ fs' vs' with
        | Some j, Some js => Some (if skipped sk x then js else (name, j) :: js)
        | _, _ => None
        end
    | _, _ => None
    end.
  Definition enc_step (ds : rdefs) (t : rty) (v : rval) : option json :=
    match t, v with
    | RStr, VS s => Some (JStr s)
    | RNum, VN n => Some (JNum n)
    | RBool, VB b => Some (JBool b)
    | ROpt _, VO None => Some JNull
    | ROpt t', VO (Some x) => E t' x
    | RVec t', VL l => match enc_list_ t' l with Some js => Some (JArr js) | None => None end
    | RMap t', VM m => match enc_map_ t' m with Some js => Some (JObj js) | None => None end
    | RPair a b, VP x y => match E a x, E b y with
                           | Some j1, Some j2 => Some (JArr [j1; j2]) | _, _ => None end
    | RRef n, _ =>
        match rfind ds n, v with
        | Some (RStruct fs), VRec vs => match enc_fields_ fs vs with Some js => Some (JObj js) | None => None end
        | Some (REnum names), VE i => match nth_error names i with Some s => Some (JStr s) | None => None end
        | _, _ => None
        end
    | _, _ => None
    end.
End EncStep.

Lemma enc_S g ds t v : enc (S g) ds t v = enc_step (enc g ds) ds t v.
Proof. reflexivity. Qed.

Section ConfStep.
  Variable K : tty -> json -> bool.
  Fixpoint all_list_ (t : tty) (l : list json) : bool :=
    match l with [] => true | x :: l' => K t x && all_list_ t l' end.
  Fixpoint all_vals_ (t : tty) (m : list (bytes * json)) : bool :=
    match m with [] => true | (_, x) :: m' => K t x && all_vals_ t m' end.
  Fixpoint tuple_ (ts : list tty) (l : list json) : bool :=
    match ts, l with
    | [], [] => true
    | t :: ts', x :: l' => K t x && tuple_ ts' l'
    | _, _ => false
    end.
  Fixpoint any_ (ts : list tty) (j : json) : bool :=
    match ts with [] => false | t :: ts' => K t j || any_ ts' j end.
  Fixpoint fields_ (fs : list (bytes * bool * tty)) (o : list (bytes * json)) : bool :=
    match fs with
    | [] => true
    | (name, optional, ft) :: fs' =>
        match lookup name o with
        | Some x => K ft x
        | None => optional
        end && fields_ fs' o
    end.
  Definition conf_step (ds : tdefs) (t : tty) (j : json) : bool :=
    match t, j with
    | TStr, JStr _ => true
    | TNum, JNum _ => true
    | TBool, JBool _ => true
    | TNull, JNull => true
    | TLit s, JStr s' => beq s s'
    | TArr t', JArr l => all_list_ t' l
    | TRecord t', JObj m => all_vals_ t' m
    | TTuple ts, JArr l => tuple_ ts l
    | TUnion ts, _ => any_ ts j
    | TObj fs, JObj o => fields_ fs o
    | TRef n, _ => match tfind ds n with Some t' => K t' j | None => false end
    | _, _ => false
    end.
End ConfStep.

Lemma conf_S f ds t j : conforms (S f) ds t j = conf_step (conforms f ds) ds t j.
Proof. reflexivity. Qed.

Definition rnames (fs : list (bytes * rty * skipk)) : list bytes := map (fun f => fst (fst f)) fs.
Definition tnames (tfs : list (bytes * bool * tty)) : list bytes := map (fun f => fst (fst f)) tfs.

(* the per-field condition of [each_rfield] *)
Definition fcond (C : rty -> tty -> bool) (sk : skipk) (ft : rty) (optional : bool) (fty : tty) : bool :=
  match sk with
  | SkNever => C ft fty
  | SkOptNone => optional && match ft with ROpt ft' => C ft' fty | _ => false end
  | SkStrEmpty | SkPathEmpty | SkVecEmpty => optional && C ft fty
  | SkOther => false
  end.

Section CompatStep.
  Variable C : rty -> tty -> bool.
  Fixpoint each_rfield_ (fs : list (bytes * rty * skipk)) (tfs : list (bytes * bool * tty)) : bool :=
    match fs with
    | [] => true
    | (name, ft, sk) :: fs' =>
        match tfield tfs name with
        | None => true
        | Some (optional, fty) =>
            match sk with
            | SkNever => C ft fty
            | SkOptNone =>
                optional && match ft with ROpt ft' => C ft' fty | _ => false end
            | SkStrEmpty | SkPathEmpty | SkVecEmpty => optional && C ft fty
            | SkOther => false
            end
        end && each_rfield_ fs' tfs
    end.
  Fixpoint each_tfield_ (tfs : list (bytes * bool * tty)) (fs : list (bytes * rty * skipk)) : bool :=
    match tfs with
    | [] => true
    | (name, optional, _) :: tfs' =>
        (optional || match rfield fs name with Some (_, SkNever) => true | _ => false end)
        && each_tfield_ tfs' fs
    end.
  Fixpoint any_union_ (ts : list tty) (r : rty) : bool :=
    match ts with [] => false | t :: ts' => C r t || any_union_ ts' r end.
  Definition compat_step (rds : rdefs) (tds : tdefs) (r : rty) (t : tty) : bool :=
    match r, t with
    | _, TRef n => match tfind tds n with Some t' => C r t' | None => false end
    | RStr, TStr => true
    | RNum, TNum => true
    | RBool, TBool => true
    | ROpt r', TUnion ts =>
        existsb (fun t => match t with TNull => true | _ => false end) ts && any_union_ ts r'
    | RVec r', TArr t' => C r' t'
    | RMap r', TRecord t' => C r' t'
    | RPair a b, TTuple [ta; tb] => C a ta && C b tb
    | RRef n, _ =>
        match rfind rds n, t with
        | Some (RStruct fs), TObj tfs =>
            names_nodup (map (fun f => fst (fst f)) fs) && names_nodup (map (fun f => fst (fst f)) tfs)
            && each_rfield_ fs tfs && each_tfield_ tfs fs
        | Some (REnum names), TUnion ts => forallb (fun s => existsb (fun t => match t with TLit s' => beq s s' | _ => false end) ts) names
        | Some (REnum names), TLit s => forallb (beq s) names
        | _, _ => false
        end
    | _, TUnion ts => any_union_ ts r
    | _, _ => false
    end.
End CompatStep.

Lemma compat_S f rds tds r t : compat (S f) rds tds r t = compat_step (compat f rds tds) rds tds r t.
Proof. reflexivity. Qed.

(* ------------------------------------------------------------------------------------------------ *)
(* Monotonicity of [conforms] in the fuel *)

Section ConfMono.
  Variables K K' : tty -> json -> bool.
  Hypothesis HK : forall t j, K t j = true -> K' t j = true.

  Lemma all_list_mono t l : all_list_ K t l = true -> all_list_ K' t l = true.
  Proof.
    induction l as [|x l IH]; simpl; [reflexivity|]. intro H.
    apply andb_true_iff in H as [H1 H2]. rewrite (HK _ _ H1), (IH H2). reflexivity.
  Qed.
  Lemma all_vals_mono t m : all_vals_ K t m = true -> all_vals_ K' t m = true.
  Proof.
    induction m as [|[k x] m IH]; simpl; [reflexivity|]. intro H.
    apply andb_true_iff in H as [H1 H2]. rewrite (HK _ _ H1), (IH H2). reflexivity.
  Qed.
  Lemma tuple_mono ts l : tuple_ K ts l = true -> tuple_ K' ts l = true.
  Proof.
    revert l; induction ts as [|t ts IH]; intros [|x l]; simpl; try reflexivity; try discriminate.
    intro H. apply andb_true_iff in H as [H1 H2]. rewrite (HK _ _ H1), (IH _ H2). reflexivity.
  Qed.
  Lemma any_mono ts j : any_ K ts j = true -> any_ K' ts j = true.
  Proof.
    induction ts as [|t ts IH]; simpl; [discriminate|]. intro H.
    apply orb_true_iff in H as [H|H].
    - rewrite (HK _ _ H). reflexivity.
    - rewrite (IH H). apply orb_true_r.
  Qed.
  Lemma fields_mono fs o : fields_ K fs o = true -> fields_ K' fs o = true.
  Proof.
    induction fs as [|[[name opt] ft] fs IH]; simpl; [reflexivity|]. intro H.
    apply andb_true_iff in H as [H1 H2]. rewrite (IH H2), andb_true_r.
    destruct (lookup name o) as [x|]; [apply HK; exact H1 | exact H1].
  Qed.
  Lemma conf_step_mono ds t j : conf_step K ds t j = true -> conf_step K' ds t j = true.
  Proof.
    unfold conf_step. destruct t; destruct j; try discriminate; try (intro; reflexivity);
      try apply all_list_mono; try apply all_vals_mono; try apply tuple_mono; try apply any_mono;
      try apply fields_mono; try (intro H; exact H);
      try (destruct (tfind ds n) as [t'|]; [apply HK | discriminate]).
  Qed.
End ConfMono.

Lemma conforms_mono : forall (f f' : nat) tds t j, (f <= f')%nat -> conforms f tds t j = true -> conforms f' tds t j = true.
Proof.
  induction f as [|f IH]; intros f' tds t j Hle H; [discriminate H|].
  destruct f' as [|f']; [lia|]. rewrite conf_S in *.
  apply (conf_step_mono (conforms f tds)); [|exact H].
  intros t0 j0. apply IH. lia.
Qed.

(* ------------------------------------------------------------------------------------------------ *)
(* Field tables *)

Notation names l := (map (fun f => fst (fst f)) l).

Lemma rfield_notin fs n : existsb (beq n) (names fs) = false -> rfield fs n = None.
Proof.
  induction fs as [|[[k t] s] fs IH]; simpl; [reflexivity|]. intro H.
  apply orb_false_iff in H as [H1 H2]. rewrite beq_sym, H1. apply IH, H2.
Qed.

Lemma tfield_in tfs n o t :
  names_nodup (names tfs) = true -> In (n, o, t) tfs -> tfield tfs n = Some (o, t).
Proof.
  induction tfs as [|[[k o'] t'] tfs IH]; simpl; [contradiction|]. intros Hnd [Heq|Hin].
  - inversion Heq; subst. rewrite beq_refl. reflexivity.
  - apply andb_true_iff in Hnd as [H1 H2]. apply negb_true_iff in H1.
    destruct (beq k n) eqn:E.
    + apply beq_eq in E; subst k. exfalso.
      assert (Hx : existsb (beq n) (names tfs) = true).
      { apply existsb_exists. exists n. split; [|apply beq_refl].
        apply in_map_iff. exists (n, o, t). split; [reflexivity | exact Hin]. }
      congruence.
    + apply IH; assumption.
Qed.

Lemma skipped_never x : skipped SkNever x = false.
Proof. reflexivity. Qed.

(* what [lookup] finds in the object written for a struct with distinct field names *)
Lemma lookup_enc_fields E fs : forall vs js,
  names_nodup (names fs) = true -> enc_fields_ E fs vs = Some js -> forall n,
  match lookup n js with
  | Some x => exists ft sk v, rfield fs n = Some (ft, sk) /\ E ft v = Some x /\ skipped sk v = false
  | None => match rfield fs n with Some (_, SkNever) => False | _ => True end
  end.
Proof.
  induction fs as [|[[name ft] sk] fs IH]; intros vs js Hnd He n.
  - destruct vs; simpl in He; [|discriminate]. inversion He; subst. simpl. exact I.
  - destruct vs as [|x vs]; simpl in He; [discriminate|].
    destruct (E ft x) as [j0|] eqn:Ex; [|discriminate].
    destruct (enc_fields_ E fs vs) as [js'|] eqn:Efs; [|discriminate].
    inversion He; subst js; clear He.
    simpl in Hnd. apply andb_true_iff in Hnd as [Hn1 Hn2]. apply negb_true_iff in Hn1.
    specialize (IH vs js' Hn2 Efs n).
    simpl (rfield _ n).
    destruct (beq name n) eqn:Ebn.
    + apply beq_eq in Ebn; subst n.
      pose proof (rfield_notin fs name Hn1) as Hrf. rewrite Hrf in IH.
      assert (Hl : lookup name js' = None).
      { destruct (lookup name js'); [destruct IH as (? & ? & ? & IH1 & _); discriminate | reflexivity]. }
      destruct (skipped sk x) eqn:Esk.
      * rewrite Hl. destruct sk; try exact I. rewrite skipped_never in Esk. discriminate.
      * simpl. rewrite beq_refl. exists ft, sk, x. repeat split; assumption.
    + assert (Hq : lookup n (if skipped sk x then js' else (name, j0) :: js') = lookup n js').
      { destruct (skipped sk x); [reflexivity|]. simpl. rewrite beq_sym, Ebn. reflexivity. }
      rewrite Hq. exact IH.
Qed.

Lemma each_rfield_get C fs tfs n ft sk o fty :
  each_rfield_ C fs tfs = true -> rfield fs n = Some (ft, sk) -> tfield tfs n = Some (o, fty) ->
  fcond C sk ft o fty = true.
Proof.
  induction fs as [|[[k t] s] fs IH]; simpl; [intros; discriminate|]. intros H Hr Ht.
  apply andb_true_iff in H as [H1 H2]. destruct (beq k n) eqn:E.
  - apply beq_eq in E; subst k. inversion Hr; subst. rewrite Ht in H1. exact H1.
  - apply IH; assumption.
Qed.

(* ------------------------------------------------------------------------------------------------ *)
(* The local loops, abstractly in the recursive calls *)

Section Loops.
  Variable E : rty -> rval -> option json.
  Variable K : tty -> json -> bool.
  Variable C : rty -> tty -> bool.

  Lemma list_sound r t l : (forall v j, E r v = Some j -> K t j = true) ->
    forall js, enc_list_ E r l = Some js -> all_list_ K t js = true.
  Proof.
    intro H. induction l as [|x l IHl]; simpl; intros js He.
    - inversion He; reflexivity.
    - destruct (E r x) as [j0|] eqn:E0; [|discriminate].
      destruct (enc_list_ E r l) as [js'|]; [|discriminate]. inversion He; subst. simpl.
      rewrite (H _ _ E0), (IHl _ eq_refl). reflexivity.
  Qed.

  Lemma map_sound r t m : (forall v j, E r v = Some j -> K t j = true) ->
    forall js, enc_map_ E r m = Some js -> all_vals_ K t js = true.
  Proof.
    intro H. induction m as [|[k x] m IHm]; simpl; intros js He.
    - inversion He; reflexivity.
    - destruct (E r x) as [j0|] eqn:E0; [|discriminate].
      destruct (enc_map_ E r m) as [js'|]; [|discriminate]. inversion He; subst. simpl.
      rewrite (H _ _ E0), (IHm _ eq_refl). reflexivity.
  Qed.

  Lemma any_sound ts r j : any_union_ C ts r = true -> (forall t, C r t = true -> K t j = true) ->
    any_ K ts j = true.
  Proof.
    intros H HK. induction ts as [|t ts IHt]; simpl in *; [discriminate|].
    apply orb_true_iff in H as [H|H].
    - rewrite (HK _ H). reflexivity.
    - rewrite (IHt H). apply orb_true_r.
  Qed.

  Lemma null_sound ts : existsb (fun t => match t with TNull => true | _ => false end) ts = true ->
    K TNull JNull = true -> any_ K ts JNull = true.
  Proof.
    intros H HK. induction ts as [|t ts IHt]; simpl in *; [discriminate|].
    apply orb_true_iff in H as [H|H].
    - destruct t; try discriminate. rewrite HK. reflexivity.
    - rewrite (IHt H). apply orb_true_r.
  Qed.

  Lemma lit_sound ts s :
    existsb (fun t => match t with TLit s' => beq s s' | _ => false end) ts = true ->
    (forall s', K (TLit s') (JStr s) = beq s' s) -> any_ K ts (JStr s) = true.
  Proof.
    intros H HK. induction ts as [|t ts IHt]; simpl in *; [discriminate|].
    apply orb_true_iff in H as [H|H].
    - destruct t; try discriminate. rewrite HK, beq_sym, H. reflexivity.
    - rewrite (IHt H). apply orb_true_r.
  Qed.

  Lemma struct_sound fs tfs vs js :
    names_nodup (names fs) = true -> names_nodup (names tfs) = true ->
    each_rfield_ C fs tfs = true -> each_tfield_ tfs fs = true ->
    enc_fields_ E fs vs = Some js ->
    (forall sk ft o fty v x, fcond C sk ft o fty = true -> E ft v = Some x -> skipped sk v = false ->
                             K fty x = true) ->
    fields_ K tfs js = true.
  Proof.
    intros Hndr Hndt Her Het He HV.
    assert (G : forall tfs0, (forall n o t, In (n, o, t) tfs0 -> In (n, o, t) tfs) ->
                             each_tfield_ tfs0 fs = true -> fields_ K tfs0 js = true).
    { induction tfs0 as [|[[n o] t] tfs0 IHt]; intros Hin Ht0; simpl; [reflexivity|].
      simpl in Ht0. apply andb_true_iff in Ht0 as [Ht1 Ht2].
      rewrite (IHt (fun n' o' t' Hi => Hin n' o' t' (or_intror Hi)) Ht2), andb_true_r.
      pose proof (tfield_in tfs n o t Hndt (Hin n o t (or_introl eq_refl))) as Htf.
      pose proof (lookup_enc_fields E fs vs js Hndr He n) as Hl.
      destruct (lookup n js) as [x|].
      - destruct Hl as (ft & sk & v & Hrf & Hev & Hsk).
        apply (HV sk ft o t v x); [|assumption|assumption].
        apply (each_rfield_get C fs tfs n ft sk o t); assumption.
      - destruct o; [reflexivity|]. simpl in Ht1.
        destruct (rfield fs n) as [[ft sk]|]; [|discriminate]. destruct sk; try discriminate.
        contradiction. }
    apply G; [auto|assumption].
  Qed.
End Loops.

(* ------------------------------------------------------------------------------------------------ *)
(* The induction step *)

Section Step.
  Variables (rds : rdefs) (tds : tdefs) (f : nat).
  Hypothesis IH : forall g r t v j,
    compat f rds tds r t = true -> enc g rds r v = Some j -> conforms (S f) tds t j = true.

  (* a field that was written conforms to the declared type of the TS field of that name *)
  Lemma field_val g sk ft o fty v x :
    fcond (compat f rds tds) sk ft o fty = true -> enc g rds ft v = Some x -> skipped sk v = false ->
    conforms (S f) tds fty x = true.
  Proof.
    intros Hc He Hs. destruct sk; cbv beta iota delta [fcond] in Hc; try discriminate Hc.
    - eapply IH; eassumption.
    - apply andb_true_iff in Hc as [_ Hc]. eapply IH; eassumption.
    - apply andb_true_iff in Hc as [_ Hc]. destruct ft; try discriminate Hc.
      destruct g as [|g]; [discriminate He|]. rewrite enc_S in He. unfold enc_step in He.
      destruct v as [ | | |[y|]| | | | | ]; try discriminate He.
      + eapply IH; eassumption.
      + discriminate Hs.
    - apply andb_true_iff in Hc as [_ Hc]. eapply IH; eassumption.
    - apply andb_true_iff in Hc as [_ Hc]. eapply IH; eassumption.
  Qed.

  (* named Rust types: structs against object types, unit enums against literals *)
  Lemma ref_sound g rn t v j :
    compat_step (compat f rds tds) rds tds (RRef rn) t = true ->
    enc_step (enc g rds) rds (RRef rn) v = Some j ->
    match t with TRef _ => False | _ => True end ->
    conf_step (conforms (S f) tds) tds t j = true.
  Proof.
    unfold compat_step, enc_step. intros Hc He Ht.
    destruct (rfind rds rn) as [[fs|en]|].
    - destruct t as [ | | | | s | t' | t' | ts | ts | tfs | n]; try contradiction; try discriminate Hc.
      destruct v; try discriminate He.
      destruct (enc_fields_ (enc g rds) fs fs0) as [js|] eqn:Ef; [|discriminate He].
      inversion He; subst j; clear He.
      apply andb_true_iff in Hc as [Hc H4]. apply andb_true_iff in Hc as [Hc H3].
      apply andb_true_iff in Hc as [H1 H2].
      unfold conf_step.
      apply (struct_sound (enc g rds) (conforms (S f) tds) (compat f rds tds) fs tfs fs0 js H1 H2 H3 H4 Ef).
      intros sk ft o fty v0 x Hf Hv Hs. exact (field_val g sk ft o fty v0 x Hf Hv Hs).
    - destruct v; try discriminate He.
      destruct (nth_error en i) as [s0|] eqn:En; [|discriminate He].
      inversion He; subst j; clear He. apply nth_error_In in En.
      destruct t as [ | | | | s | t' | t' | ts | ts | tfs | n]; try contradiction; try discriminate Hc.
      + unfold conf_step. rewrite forallb_forall in Hc. apply Hc. exact En.
      + unfold conf_step. rewrite forallb_forall in Hc.
        apply lit_sound; [apply Hc; exact En | intro; reflexivity].
    - destruct t; try contradiction; discriminate Hc.
  Qed.

  Lemma compat_step_sound g r t v j :
    compat (S f) rds tds r t = true -> enc g rds r v = Some j -> conforms (S (S f)) tds t j = true.
  Proof.
    intros Hc He0. destruct g as [|g]; [discriminate He0|].
    pose proof He0 as He. rewrite enc_S in He. rewrite compat_S in Hc. rewrite conf_S.
    destruct t as [ | | | | s | t' | t' | ts | ts | tfs | n].
    11: { assert (Hc' : match tfind tds n with Some t' => compat f rds tds r t' = true | None => False end).
          { unfold compat_step in Hc. destruct r; destruct (tfind tds n); try discriminate Hc; exact Hc. }
          unfold conf_step. destruct (tfind tds n) as [t'|]; [|contradiction]. eapply IH; eassumption. }
    all: destruct r as [ | | | r' | r' | r' | ra rb | rn].
    all: try solve [apply (ref_sound _ _ _ _ _ Hc He I)].
    all: unfold compat_step in Hc; cbv beta iota in Hc; try discriminate Hc.
    - unfold enc_step in He; destruct v; try discriminate He. inversion He; reflexivity.
    - unfold enc_step in He; destruct v; try discriminate He. inversion He; reflexivity.
    - unfold enc_step in He; destruct v; try discriminate He. inversion He; reflexivity.
    - unfold enc_step in He; destruct v; try discriminate He.
      destruct (enc_list_ (enc g rds) r' l) as [js|] eqn:El; [|discriminate He].
      inversion He; subst j. unfold conf_step.
      apply (list_sound (enc g rds) (conforms (S f) tds) r' t' l); [|exact El].
      intros v0 j0 Hv. exact (IH _ _ _ _ _ Hc Hv).
    - unfold enc_step in He; destruct v; try discriminate He.
      destruct (enc_map_ (enc g rds) r' m) as [js|] eqn:El; [|discriminate He].
      inversion He; subst j. unfold conf_step.
      apply (map_sound (enc g rds) (conforms (S f) tds) r' t' m); [|exact El].
      intros v0 j0 Hv. exact (IH _ _ _ _ _ Hc Hv).
    - destruct ts as [|ta [|tb [|tc ts]]]; try discriminate Hc.
      apply andb_true_iff in Hc as [Ha Hb].
      unfold enc_step in He; destruct v; try discriminate He.
      destruct (enc g rds ra v1) as [j1|] eqn:E1; [|discriminate He].
      destruct (enc g rds rb v2) as [j2|] eqn:E2; [|discriminate He].
      inversion He; subst j. unfold conf_step. cbn [tuple_].
      rewrite (IH _ _ _ _ _ Ha E1), (IH _ _ _ _ _ Hb E2). reflexivity.
    - unfold conf_step. eapply any_sound; [exact Hc|]. intros t Ht. exact (IH _ _ _ _ _ Ht He0).
    - unfold conf_step. eapply any_sound; [exact Hc|]. intros t Ht. exact (IH _ _ _ _ _ Ht He0).
    - unfold conf_step. eapply any_sound; [exact Hc|]. intros t Ht. exact (IH _ _ _ _ _ Ht He0).
    - apply andb_true_iff in Hc as [Hn Ha]. unfold enc_step in He.
      destruct v as [ | | |[y|]| | | | | ]; try discriminate He.
      + unfold conf_step. eapply any_sound; [exact Ha|]. intros t Ht. exact (IH _ _ _ _ _ Ht He).
      + inversion He; subst j. unfold conf_step. apply null_sound; [exact Hn | reflexivity].
    - unfold conf_step. eapply any_sound; [exact Hc|]. intros t Ht. exact (IH _ _ _ _ _ Ht He0).
    - unfold conf_step. eapply any_sound; [exact Hc|]. intros t Ht. exact (IH _ _ _ _ _ Ht He0).
    - unfold conf_step. eapply any_sound; [exact Hc|]. intros t Ht. exact (IH _ _ _ _ _ Ht He0).
  Qed.
End Step.

(* ------------------------------------------------------------------------------------------------ *)
(* Soundness *)

Theorem compat_sound : forall f rds tds r t g v j,
  compat f rds tds r t = true -> enc g rds r v = Some j -> conforms (S f) tds t j = true.
Proof.
  induction f as [|f IHf]; intros rds tds r t g v j Hc He; [discriminate Hc|].
  apply (compat_step_sound rds tds f (fun g r t v j => IHf rds tds r t g v j) g r t v j Hc He).
Qed.

(* any larger fuel will do *)
Corollary compat_sound_fuel : forall (f h : nat) rds tds r t g v j, (f < h)%nat ->
  compat f rds tds r t = true -> enc g rds r v = Some j -> conforms h tds t j = true.
Proof.
  intros f h rds tds r t g v j Hlt Hc He.
  apply (conforms_mono (S f) h); [lia|]. exact (compat_sound f rds tds r t g v j Hc He).
Qed.

(* the fuel cannot be the same in general: [compat] does not descend into a literal, [conforms] does *)
Example same_fuel_fails :
  let rds := [(bs "E", REnum [bs "a"])] in
  compat 1 rds [] (RRef (bs "E")) (TUnion [TLit (bs "a")]) = true /\
  enc 1 rds (RRef (bs "E")) (VE 0) = Some (JStr (bs "a")) /\
  conforms 1 [] (TUnion [TLit (bs "a")]) (JStr (bs "a")) = false.
Proof. vm_compute. repeat split. Qed.

(* why [compat] asks for distinct TS field names ([names_nodup] on the object type): without that
   conjunct this object type was accepted ([each_rfield] sees only the first declaration of "a"),
   yet the second declaration rejects every encoding, at any fuel *)
Example dup_ts_field_rejected :
  let rds := [(bs "S", RStruct [(bs "a", RStr, SkNever)])] in
  let t := TObj [(bs "a", false, TStr); (bs "a", false, TNum)] in
  compat 5 rds [] (RRef (bs "S")) t = false /\
  enc 5 rds (RRef (bs "S")) (VRec [VS (bs "x")]) = Some (JObj [(bs "a", JStr (bs "x"))]) /\
  conforms 50 [] t (JObj [(bs "a", JStr (bs "x"))]) = false.
Proof. vm_compute. repeat split. Qed.

(* ------------------------------------------------------------------------------------------------ *)
(* The published tables *)

Lemma plan_compat : compat 11 gen_rdefs gen_tdefs (RRef (bs "Plan")) (TRef (bs "Plan")) = true.
Proof. vm_compute. reflexivity. Qed.

Corollary plan_conforms : forall g v j,
  enc g gen_rdefs (RRef (bs "Plan")) v = Some j -> conforms 12 gen_tdefs (TRef (bs "Plan")) j = true.
Proof.
  intros g v j He. exact (compat_sound 11 gen_rdefs gen_tdefs _ _ g v j plan_compat He).
Qed.

(* non-vacuity: a plan with one hunk (some optional fields present, some absent), one rename and one
   stats entry is encoded, and the encoding conforms *)
Definition ex_hunk : rval :=
  VRec [VS (bs "src/lib.rs"); VN 3; VN 41; VN 41; VS (bs "snake"); VS (bs "old_name"); VS (bs "new_name");
        VN 7; VN 15;
        VO (Some (VS (bs "let old_name = 1;"))); VO (Some (VS (bs "let new_name = 1;")));
        VO None; VO None; VO (Some (VS (bs "src/new_lib.rs"))); VO None].
Definition ex_rename : rval :=
  VRec [VS (bs "src/old_name.rs"); VS (bs "src/new_name.rs"); VE 0; VO (Some (VS (bs "snake")))].
Definition ex_stats : rval := VRec [VN 10; VN 1; VM [(bs "snake", VN 1)]; VN 1].
Definition ex_plan : rval :=
  VRec [VS (bs "abc123"); VS (bs "2026-01-01T00:00:00Z"); VS (bs "old_name"); VS (bs "new_name");
        VL [VE 0; VE 2]; VL [VS (bs "src/**")]; VL []; VL [ex_hunk]; VL [ex_rename]; ex_stats;
        VS (bs "1.0.0"); VO None].

Example plan_nonvacuous :
  exists j, enc 10 gen_rdefs (RRef (bs "Plan")) ex_plan = Some j /\
            conforms 12 gen_tdefs (TRef (bs "Plan")) j = true /\
            (* the skipped fields are really absent, the others present *)
            match j with
            | JObj o => lookup (bs "created_directories") o = None /\
                        match lookup (bs "matches") o with
                        | Some (JArr [JObj h]) =>
                            lookup (bs "line_before") h = Some (JStr (bs "let old_name = 1;")) /\
                            lookup (bs "coercion_applied") h = None /\
                            lookup (bs "replace") h = Some (JStr (bs "new_name"))
                        | _ => False
                        end
            | _ => False
            end.
Proof.
  let r := eval vm_compute in (enc 10 gen_rdefs (RRef (bs "Plan")) ex_plan) in
  match r with Some ?j => exists j end.
  vm_compute. repeat split.
Qed.

Print Assumptions conforms_mono.
Print Assumptions compat_sound.
Print Assumptions plan_conforms.
