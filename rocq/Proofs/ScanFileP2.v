(* Proofs/ScanFileP2.v — the disabled-style statement of Proofs/ScanFileP.v for the eight visible styles
   whose renderings contain a non-word separator (Kebab, Title, Train, ScreamingTrain, Dot, Sentence,
   LowerSentence, UpperSentence), and the combined statement for every visible style.

   ScanFileP.disabled_reduction leaves: "the compound matcher returns [] on every identifier the
   extractor reports".  Here the extractor's output on  dl ++ occ ++ dr  is COMPUTED (an equation for
   regex_find_iter, not only a bound):
     regime W (whole)   '-' and '.' are identifier characters: unless the TITLE alternative fires, the
                        regex takes the whole occurrence (and gives back the dots of dr): Kebab,
                        ScreamingTrain, Dot, and Train when Title is not enabled.  For Dot the
                        dot-splitting loop (Dot is not enabled!) then cuts it into its words.
     regime P (pieces)  ' ' is not an identifier character, and with Title enabled TITLE = [A-Z][a-z]+
                        stops at the '-' of a Train name: the extractor reports the single words.
   The compound matcher returns [] on the whole occurrence (ScanFileP.fcv_whole_occ_nil: the inferred
   style is the disabled one) and on a single word (one token < the >= 2 tokens of the search term:
   compound_matcher.rs line 126).
   Stdlib + lia only. *)
From Coq Require Import Lia.
From RN Require Import Base.Bytes Model.StyleDef Model.CaseModel Model.CaseSpec Model.Matcher Model.Edits.
From RN Require Import Gen.GenAcronyms Model.Compound.
From RN Require Import Proofs.CaseP1 Proofs.CaseP2 Proofs.CaseP3 Proofs.CaseP Proofs.StandaloneP
                       Proofs.HunksP Proofs.EnhancedP1 Proofs.EnhancedP2 Proofs.HunkTailP Proofs.HunkTailP2.
From RN Require Import Model.Enhanced Model.HunkTail.
From RN Require Import Proofs.ScanFileP.
Close Scope N_scope.
Open Scope bool_scope.

(* ------------------------------------------------------------------------------------------ *)
(* find_iter, step by step                                                                    *)
(* ------------------------------------------------------------------------------------------ *)
Lemma lastp_cons y u prev : lastp (y :: u) prev = lastp u (Some y).
Proof. reflexivity. Qed.

Lemma rscan_skip title : forall u prev pos rest,
  rscan title prev (length u) pos (u ++ rest) = rscan title (lastp u prev) 0 (pos + length u) rest.
Proof.
  induction u as [|y u IH]; intros prev pos rest.
  - cbn [length app]. rewrite Nat.add_0_r. reflexivity.
  - cbn [length app rscan]. rewrite IH, lastp_cons. f_equal. lia.
Qed.

Lemma match_at_nonstart title prev x s :
  is_alpha x = false -> (x =? 95)%N = false -> match_at title prev (x :: s) = None.
Proof.
  intros Ha H3. unfold match_at. destruct (wb prev (nth_error (x :: s) 0)); [|reflexivity].
  assert (Hu : is_upper x = false) by (unfold is_alpha in Ha; apply orb_false_iff in Ha as [Hu _]; exact Hu).
  assert (Hi : ident_match (x :: s) = None).
  { unfold ident_match, is_id_start. rewrite Ha, H3. reflexivity. }
  destruct title; [|exact Hi]. unfold title_match, title_word. rewrite Hu. exact Hi.
Qed.

Lemma rscan_step_none title prev pos x s : match_at title prev (x :: s) = None ->
  rscan title prev 0 pos (x :: s) = rscan title (Some x) 0 (S pos) s.
Proof. intro H. cbn [rscan]. rewrite H. reflexivity. Qed.

Lemma rscan_ctx title : forall l prev pos rest, ctxs l = true ->
  rscan title prev 0 pos (l ++ rest) = rscan title (lastp l prev) 0 (pos + length l) rest.
Proof.
  induction l as [|y l IH]; intros prev pos rest Hl.
  - cbn [length app]. rewrite Nat.add_0_r. reflexivity.
  - cbn [ctxs forallb] in Hl. apply andb_true_iff in Hl as [Hy Hl]. cbn [app].
    rewrite rscan_step_none by (apply match_at_ctx, Hy).
    rewrite (IH (Some y) (S pos) rest Hl), lastp_cons. cbn [length]. f_equal. lia.
Qed.

Lemma rscan_ctx_nil title r prev pos : ctxs r = true -> rscan title prev 0 pos r = [].
Proof. intro H. rewrite <- (app_nil_r r), rscan_ctx by exact H. reflexivity. Qed.

Lemma rscan_hit title prev pos X rest : X <> [] -> match_at title prev (X ++ rest) = Some (length X) ->
  rscan title prev 0 pos (X ++ rest) =
  (pos, pos + length X, X) :: rscan title (lastp X prev) 0 (pos + length X) rest.
Proof.
  intros Hne Hm. destruct X as [|x X']; [contradiction|].
  assert (Hf : firstn (length (x :: X')) ((x :: X') ++ rest) = x :: X') by (apply firstn_app_exact; reflexivity).
  cbn [app length] in *. cbn [rscan]. rewrite Hm. rewrite Hf.
  replace (S (length X') - 1) with (length X') by lia.
  rewrite rscan_skip, lastp_cons. f_equal. f_equal. lia.
Qed.

Lemma lastp_ctx l : forall prev, ctxs l = true -> is_word_o prev = false -> is_word_o (lastp l prev) = false.
Proof.
  induction l as [|y l IH]; intros prev Hl Hp; [exact Hp|].
  cbn [ctxs forallb] in Hl. apply andb_true_iff in Hl as [Hy Hl]. rewrite lastp_cons.
  apply IH; [exact Hl|]. cbn [is_word_o]. apply ctx_not_word, Hy.
Qed.

(* ------------------------------------------------------------------------------------------ *)
(* IDENT\b on  occ ++ u ++ v : occ identifier characters ending in a letter, u context bytes    *)
(* (their dots are taken by the greedy class and given back), v not starting with an          *)
(* identifier character                                                                        *)
(* ------------------------------------------------------------------------------------------ *)
Lemma backtrack_to s k : forall n, 1 <= k -> k <= n -> wb_at s k = true ->
  (forall m, k < m -> m <= n -> wb_at s m = false) -> backtrack s n = Some k.
Proof.
  induction n as [|n IH]; intros Hk Hkn Hw Hno; [lia|].
  cbn [backtrack]. destruct (Nat.eq_dec k (S n)) as [E|Hne].
  - subst k. rewrite Hw. reflexivity.
  - rewrite (Hno (S n)) by lia. apply IH; [lia|lia|exact Hw|]. intros m H1 H2. apply Hno; lia.
Qed.

Lemma run_app_all p : forall a b, forallb p a = true -> run p (a ++ b) = length a + run p b.
Proof.
  induction a as [|x a IH]; intros b H; [reflexivity|].
  cbn [forallb] in H. apply andb_true_iff in H as [Hx H]. cbn [app run length]. rewrite Hx, (IH b H). reflexivity.
Qed.

Lemma run_hd_false p s : hd_is p s = false -> run p s = 0.
Proof. destruct s as [|x s]; [reflexivity|]. cbn [hd_is run]. intros ->. reflexivity. Qed.

Lemma run_app_le p : forall u v, hd_is p v = false -> run p (u ++ v) <= length u.
Proof.
  induction u as [|y u IH]; intros v Hv.
  - cbn [app length]. rewrite run_hd_false by exact Hv. lia.
  - cbn [app run length]. destruct (p y); [specialize (IH v Hv); lia|lia].
Qed.

Lemma id_char_word x : is_id_char x = false -> is_word x = false.
Proof.
  unfold is_id_char, is_word. intro H. apply orb_false_iff in H as [H _]. apply orb_false_iff in H as [H _]. exact H.
Qed.

Lemma tail_nonword u v j : ctxs u = true -> hd_is is_id_char v = false -> j <= length u ->
  is_word_o (nth_error (u ++ v) j) = false.
Proof.
  intros Hu Hv Hj. destruct (Nat.lt_ge_cases j (length u)) as [H|H].
  - rewrite nth_error_app1 by exact H. apply ctxs_nth_word, Hu.
  - rewrite nth_error_app2 by exact H. replace (j - length u) with 0 by lia.
    destruct v as [|x v]; [reflexivity|]. cbn [nth_error is_word_o]. apply id_char_word, Hv.
Qed.

Lemma id_start_word x : is_id_start x = true -> is_word x = true.
Proof.
  unfold is_id_start, is_word, is_alnum. intro H. apply orb_true_iff in H as [H|H]; rewrite H; [reflexivity|].
  apply orb_true_r.
Qed.

Lemma alpha_word x : is_alpha x = true -> is_word x = true.
Proof. unfold is_word, is_alnum. intros ->. reflexivity. Qed.

Lemma ident_match_run occ u v :
  hd_is is_id_start occ = true -> forallb is_id_char occ = true -> ends_alpha occ ->
  ctxs u = true -> hd_is is_id_char v = false ->
  ident_match (occ ++ u ++ v) = Some (length occ).
Proof.
  intros Hs Hc (s' & z & He & Hz) Hu Hv.
  destruct occ as [|x occ']; [discriminate Hs|]. cbn [hd_is] in Hs.
  cbn [forallb] in Hc. apply andb_true_iff in Hc as [_ Hc].
  assert (Hlen : length s' = length occ').
  { apply (f_equal (@length N)) in He. rewrite app_length in He. cbn [length] in He. lia. }
  assert (Hlast : nth_error (x :: occ') (length occ') = Some z).
  { rewrite He, <- Hlen, nth_error_app2, Nat.sub_diag by lia. reflexivity. }
  cbn [app ident_match length]. rewrite Hs, (run_app_all _ _ _ Hc).
  pose proof (run_app_le is_id_char u v Hv) as Hrun.
  change (x :: occ' ++ u ++ v) with ((x :: occ') ++ u ++ v).
  apply backtrack_to; [lia|lia| |].
  - unfold wb_at, wb. replace (S (length occ') - 1) with (length occ') by lia.
    rewrite nth_error_app1 by (cbn [length]; lia). rewrite Hlast.
    rewrite nth_error_app2 by (cbn [length]; lia).
    replace (S (length occ') - length (x :: occ')) with 0 by (cbn [length]; lia).
    rewrite (tail_nonword u v 0 Hu Hv) by lia. cbn [is_word_o]. rewrite (alpha_word z Hz). reflexivity.
  - intros m H1 H2. unfold wb_at, wb.
    rewrite (nth_error_app2 (x :: occ') (u ++ v) (n := m - 1)) by (cbn [length]; lia).
    rewrite (nth_error_app2 (x :: occ') (u ++ v) (n := m)) by (cbn [length]; lia).
    rewrite !(tail_nonword u v) by (try assumption; cbn [length]; lia). reflexivity.
Qed.

(* ------------------------------------------------------------------------------------------ *)
(* TITLE\b                                                                                    *)
(* ------------------------------------------------------------------------------------------ *)
Lemma title_word_none_hd s : hd_is is_upper s = false -> title_word s = None.
Proof. destruct s as [|c r]; [reflexivity|]. cbn [hd_is title_word]. intros ->. reflexivity. Qed.

Lemma title_word_none_snd c c1 t : is_lower c1 = false -> title_word (c :: c1 :: t) = None.
Proof. intro H. cbn [title_word run]. rewrite H. destruct (is_upper c); reflexivity. Qed.

Lemma title_match_none s : title_word s = None -> title_match s = None.
Proof. unfold title_match. intros ->. reflexivity. Qed.

Lemma hd_skipn_false (p : N -> bool) : forall n s, existsb p s = false -> hd_is p (skipn n s) = false.
Proof.
  induction n as [|n IH]; intros s H.
  - destruct s as [|x s]; [reflexivity|]. cbn [skipn hd_is]. cbn [existsb] in H. apply orb_false_iff in H as [H _]. exact H.
  - destruct s as [|x s]; [reflexivity|]. cbn [skipn]. apply IH. cbn [existsb] in H. apply orb_false_iff in H as [_ H]. exact H.
Qed.

Lemma title_ends_nil_a fuel off s : hd_is is_space s = false -> title_ends fuel off s = [].
Proof. intro H. destruct fuel; [reflexivity|]. cbn [title_ends]. rewrite (run_hd_false _ _ H). reflexivity. Qed.

Lemma title_ends_nil_b fuel off s : existsb is_upper s = false -> title_ends fuel off s = [].
Proof.
  intro H. destruct fuel; [reflexivity|]. cbn [title_ends]. destruct (run is_space s) as [|k]; [reflexivity|].
  rewrite (title_word_none_hd _ (hd_skipn_false is_upper (S k) s H)). reflexivity.
Qed.

(* ------------------------------------------------------------------------------------------ *)
(* the regex at the first byte of a rendered word                                             *)
(* ------------------------------------------------------------------------------------------ *)
(* the word is a Title word: TITLE matches it *)
Definition iscap (X : bytes) : bool := hd_is is_upper X && existsb is_lower X.

Local Notation good := CaseP2.good.

Section GoodWord.
Variable acr : acr_tab.

Lemma capw_length w : length (capw w) = length w.
Proof. destruct w; reflexivity. Qed.

Lemma title_word_capw w rest : neutral acr w = true -> hd_is is_lower rest = false ->
  title_word (capw w ++ rest) = Some (length w).
Proof.
  intros Hn Hr. destruct (neutral_shape _ _ Hn) as (c & c1 & w2 & -> & Hc & Hc1 & Hw2 & _).
  cbn [capw app title_word]. rewrite (to_upper_lower_is_upper _ Hc).
  change (c1 :: w2 ++ rest) with ((c1 :: w2) ++ rest).
  rewrite run_app_all by (cbn [forallb]; rewrite Hc1, Hw2; reflexivity).
  rewrite (run_hd_false _ _ Hr). cbn [length Nat.add]. rewrite Nat.add_0_r. reflexivity.
Qed.

Lemma nonword_not_lower rest : is_word_o (nth_error rest 0) = false -> hd_is is_lower rest = false.
Proof.
  intro Hr. destruct rest as [|x rest']; [reflexivity|]. cbn [nth_error is_word_o] in Hr. cbn [hd_is].
  destruct (is_lower x) eqn:E; [|reflexivity]. rewrite (alpha_word x (lower_alpha _ E)) in Hr. discriminate.
Qed.

Lemma title_match_capw w rest : neutral acr w = true -> is_word_o (nth_error rest 0) = false ->
  (hd_is is_space rest = false \/ existsb is_upper rest = false) ->
  title_match (capw w ++ rest) = Some (length w).
Proof.
  intros Hn Hr Hte.
  assert (Hte' : forall fuel off, title_ends fuel off rest = []).
  { intros fuel off. destruct Hte as [H|H]; [apply title_ends_nil_a|apply title_ends_nil_b]; exact H. }
  pose proof (capw_length w) as Hlen.
  destruct (neutral_inv _ _ Hn) as (H3 & _).
  unfold title_match. rewrite (title_word_capw w rest Hn (nonword_not_lower rest Hr)).
  rewrite (CaseP1.skipn_app_exact (capw w) rest (length w) Hlen), Hte'. cbn [rev app find].
  replace (wb_at (capw w ++ rest) (length w)) with true; [reflexivity|]. symmetry.
  unfold wb_at, wb.
  destruct (forallb_nth is_alpha (capw w) (length w - 1) (nw_alpha_cap acr w Hn) ltac:(lia)) as (y & Ey & Hy).
  rewrite nth_error_app1, Ey by lia. rewrite nth_error_app2, Hlen, Nat.sub_diag, Hr by lia.
  cbn [is_word_o]. rewrite (alpha_word y Hy). reflexivity.
Qed.

Lemma good_iscap X w : good acr X w -> iscap X = true -> X = capw w.
Proof.
  intros [Hn [->|[->| ->]]] H; [exfalso|exfalso|reflexivity]; unfold iscap in H; apply andb_true_iff in H as [H1 H2].
  - destruct (neutral_shape _ _ Hn) as (c & c1 & w2 & -> & Hc & _). cbn [hd_is] in H1.
    rewrite (lower_not_upper _ Hc) in H1. discriminate.
  - rewrite (nw_lo_up acr w Hn) in H2. discriminate.
Qed.

Lemma capw_iscap w : neutral acr w = true -> iscap (capw w) = true.
Proof.
  intro Hn. unfold iscap. rewrite (nw_lo_cap acr w Hn), andb_true_r.
  destruct (neutral_shape _ _ Hn) as (c & c1 & w2 & -> & Hc & _). cbn [capw hd_is].
  apply to_upper_lower_is_upper, Hc.
Qed.

Lemma good_notcap_title_none X w rest : good acr X w -> iscap X = false -> title_word (X ++ rest) = None.
Proof.
  intros [Hn [->|[->| ->]]] H.
  - destruct (neutral_shape _ _ Hn) as (c & c1 & w2 & -> & Hc & _). apply title_word_none_hd.
    cbn [app hd_is]. apply lower_not_upper, Hc.
  - destruct (neutral_shape _ _ Hn) as (c & c1 & w2 & -> & Hc & Hc1 & _).
    cbn [upper map app]. apply title_word_none_snd. apply upper_not_lower, to_upper_lower_is_upper, Hc1.
  - rewrite (capw_iscap w Hn) in H. discriminate.
Qed.

Lemma match_at_good title prev X w rest : good acr X w -> is_word_o prev = false ->
  is_word_o (nth_error rest 0) = false ->
  (title && iscap X = false ->
   exists u v, rest = u ++ v /\ ctxs u = true /\ hd_is is_id_char v = false) ->
  (title && iscap X = true -> hd_is is_space rest = false \/ existsb is_upper rest = false) ->
  match_at title prev (X ++ rest) = Some (length X).
Proof.
  intros HG Hp Hr Hid Hti.
  pose proof (good_alpha acr X w HG) as Ha. pose proof (good_nonempty acr X w HG) as Hne.
  assert (Hwb : wb prev (nth_error (X ++ rest) 0) = true).
  { destruct X as [|x X']; [contradiction|]. cbn [app nth_error]. cbn [forallb] in Ha.
    apply andb_true_iff in Ha as [Hx _]. unfold wb. cbn [is_word_o]. rewrite Hp, (alpha_word x Hx). reflexivity. }
  assert (Hident : title && iscap X = false -> ident_match (X ++ rest) = Some (length X)).
  { intro E. destruct (Hid E) as (u & v & -> & Hu & Hv). apply ident_match_run; auto.
    - destruct X as [|x X']; [contradiction|]. cbn [hd_is]. cbn [forallb] in Ha.
      apply andb_true_iff in Ha as [Hx _]. unfold is_id_start. rewrite Hx. reflexivity.
    - eapply forallb_impl; [|exact Ha]. intros c Hc. unfold is_id_char, is_alnum. rewrite Hc. reflexivity.
    - apply ends_alpha_word; assumption. }
  unfold match_at. rewrite Hwb. destruct title; [|apply Hident; reflexivity].
  destruct (iscap X) eqn:Ec.
  - rewrite (good_iscap X w HG Ec), title_match_capw; [rewrite capw_length; reflexivity|apply HG|exact Hr|].
    apply Hti. reflexivity.
  - rewrite (title_match_none _ (good_notcap_title_none X w rest HG Ec)). apply Hident. reflexivity.
Qed.

End GoodWord.

(* ------------------------------------------------------------------------------------------ *)
(* regime P: the extractor reports the words of  join [d] Xs  one by one                      *)
(* ------------------------------------------------------------------------------------------ *)
Definition tailof (d : N) (Ys : list bytes) (r : bytes) : bytes :=
  match Ys with [] => r | _ :: _ => d :: join [d] Ys ++ r end.

Lemma join_tailof d X Ys r : join [d] (X :: Ys) ++ r = X ++ tailof d Ys r.
Proof.
  destruct Ys as [|Y Zs]; [reflexivity|].
  change (join [d] (X :: Y :: Zs)) with (X ++ [d] ++ join [d] (Y :: Zs)).
  rewrite <- !app_assoc. reflexivity.
Qed.

Fixpoint pieces (pos : nat) (Xs : list bytes) : list (nat * nat * bytes) :=
  match Xs with
  | [] => []
  | X :: Ys => (pos, pos + length X, X) :: pieces (pos + length X + 1) Ys
  end.

Fixpoint pieces_ok (title : bool) (d : N) (r : bytes) (Xs : list bytes) : Prop :=
  match Xs with
  | [] => True
  | X :: Ys =>
      X <> [] /\
      (forall prev, is_word_o prev = false -> match_at title prev (X ++ tailof d Ys r) = Some (length X)) /\
      pieces_ok title d r Ys
  end.

Lemma rscan_pieces title d r :
  is_alpha d = false -> (d =? 95)%N = false -> is_word d = false -> ctxs r = true ->
  forall Xs prev pos, Xs <> [] -> pieces_ok title d r Xs -> is_word_o prev = false ->
  rscan title prev 0 pos (join [d] Xs ++ r) = pieces pos Xs.
Proof.
  intros Hda Hd3 Hdw Hr. induction Xs as [|X Ys IH]; intros prev pos Hne Hok Hp; [contradiction|].
  destruct Hok as (HX & Hm & Hok'). rewrite join_tailof, rscan_hit by auto.
  cbn [pieces]. f_equal. destruct Ys as [|Y Zs].
  - cbn [tailof pieces]. apply rscan_ctx_nil, Hr.
  - cbn [tailof]. rewrite rscan_step_none by (apply match_at_nonstart; assumption).
    replace (S (pos + length X)) with (pos + length X + 1) by lia.
    apply IH; [discriminate|exact Hok'|exact Hdw].
Qed.

Lemma pieces_in pos Xs a b id : In (a, b, id) (pieces pos Xs) -> In id Xs.
Proof.
  revert pos. induction Xs as [|X Ys IH]; intros pos H; [destruct H|].
  cbn [pieces] in H. destruct H as [H|H]; [left; congruence|right; eapply IH, H].
Qed.

Lemma ids_pieces title d l r Xs a b id :
  is_alpha d = false -> (d =? 95)%N = false -> is_word d = false -> ctxs l = true -> ctxs r = true ->
  Xs <> [] -> pieces_ok title d r Xs ->
  In (a, b, id) (regex_find_iter title (l ++ join [d] Xs ++ r)) -> In id Xs.
Proof.
  intros Hda Hd3 Hdw Hl Hr Hne Hok Hin. unfold regex_find_iter in Hin.
  rewrite rscan_ctx in Hin by exact Hl.
  rewrite (rscan_pieces title d r Hda Hd3 Hdw Hr Xs _ _ Hne Hok (lastp_ctx l None Hl eq_refl)) in Hin.
  eapply pieces_in, Hin.
Qed.

(* the tail behind a word *)
Lemma tailof_nonword d Ys r : is_word d = false -> ctxs r = true -> is_word_o (nth_error (tailof d Ys r) 0) = false.
Proof.
  intros Hd Hr. destruct Ys; cbn [tailof]; [apply ctxs_nth_word, Hr|exact Hd].
Qed.

Lemma tailof_space_split Ys r : ctxs r = true ->
  exists u v, tailof 32 Ys r = u ++ v /\ ctxs u = true /\ hd_is is_id_char v = false.
Proof.
  intro Hr. destruct Ys as [|Y Zs]; cbn [tailof].
  - exists r, []. rewrite app_nil_r. auto.
  - exists [], (32%N :: join [32%N] (Y :: Zs) ++ r). auto.
Qed.

Lemma ctxs_no_upper r : ctxs r = true -> existsb is_upper r = false.
Proof.
  intro Hr. eapply existsb_false_forall; [|exact Hr]. intros x Hx. apply is_ctx_noalpha in Hx.
  apply negb_true_iff in Hx. unfold is_alpha in Hx. apply orb_false_iff in Hx as [Hx _]. exact Hx.
Qed.

Section Regimes.
Variable acr : acr_tab.

(* space-separated, the TITLE alternative off or not applicable to any word *)
Lemma pieces_ok_space title r : ctxs r = true -> forall Xs ws, Forall2 (good acr) Xs ws ->
  (title = false \/ Forall (fun X => iscap X = false) Xs) -> pieces_ok title 32 r Xs.
Proof.
  intros Hr. induction 1 as [|X w Xs ws HX HF IH]; intro Hc; [exact I|].
  cbn [pieces_ok]. split; [eapply good_nonempty, HX|]. split.
  - intros prev Hp.
    assert (E : title && iscap X = false).
    { destruct Hc as [->|Hc]; [reflexivity|]. inversion Hc; subst. rewrite H1. apply andb_false_r. }
    apply (match_at_good acr title prev X w); auto.
    + apply tailof_nonword; auto.
    + intros _. apply tailof_space_split, Hr.
    + rewrite E. discriminate.
  - apply IH. destruct Hc as [Hc|Hc]; [left; exact Hc|right]. inversion Hc; subst. assumption.
Qed.

(* '-'-separated Title words with the TITLE alternative on (Train) *)
Lemma pieces_ok_train r : ctxs r = true -> forall ws, Forall (fun w => neutral acr w = true) ws ->
  pieces_ok true 45 r (map capw ws).
Proof.
  intros Hr. induction 1 as [|w ws Hn HF IH]; [exact I|].
  cbn [map pieces_ok]. split; [eapply good_nonempty, good_capw, Hn|]. split; [|exact IH].
  intros prev Hp. apply (match_at_good acr true prev (capw w) w); auto using good_capw.
  - apply tailof_nonword; auto.
  - rewrite (capw_iscap acr w Hn). discriminate.
  - intros _. destruct (map capw ws) as [|Y Zs]; cbn [tailof].
    + right. apply ctxs_no_upper, Hr.
    + left. reflexivity.
Qed.

(* Sentence with the TITLE alternative on: the first word is a Title word, the others lower case *)
Lemma pieces_ok_sentence r w0 ws : ctxs r = true -> neutral acr w0 = true ->
  Forall (fun w => neutral acr w = true) ws -> pieces_ok true 32 r (capw w0 :: ws).
Proof.
  intros Hr Hn0 HF. cbn [pieces_ok]. split; [eapply good_nonempty, good_capw, Hn0|]. split.
  - intros prev Hp. apply (match_at_good acr true prev (capw w0) w0); auto using good_capw.
    + apply tailof_nonword; auto.
    + rewrite (capw_iscap acr w0 Hn0). discriminate.
    + intros _. right. destruct ws as [|Y Zs]; cbn [tailof]; [apply ctxs_no_upper, Hr|].
      cbn [existsb]. rewrite existsb_app, existsb_join_cons, (nl_up_low acr _ HF), (ctxs_no_upper r Hr).
      cbn [orb]. rewrite andb_false_r. reflexivity.
  - apply (pieces_ok_space true r Hr ws ws).
    + clear - HF. induction HF; constructor; auto using good_id.
    + right. eapply Forall_impl; [|exact HF]. intros w Hw. unfold iscap.
      destruct (neutral_shape _ _ Hw) as (c & c1 & w2 & -> & Hc & _). cbn [hd_is].
      rewrite (lower_not_upper _ Hc). reflexivity.
Qed.

End Regimes.

(* ------------------------------------------------------------------------------------------ *)
(* regime W: the extractor reports the occurrence as one identifier                           *)
(* ------------------------------------------------------------------------------------------ *)
Lemma rscan_whole title l occ r :
  ctxs l = true -> ctxs r = true ->
  hd_is is_alpha occ = true -> forallb is_id_char occ = true -> ends_alpha occ ->
  (title = true -> title_word (occ ++ r) = None) ->
  regex_find_iter title (l ++ occ ++ r) = [(length l, length l + length occ, occ)].
Proof.
  intros Hl Hr Hs Hc He Ht. unfold regex_find_iter.
  assert (Hne : occ <> []) by (intros ->; discriminate Hs).
  assert (Hp : is_word_o (lastp l None) = false) by (apply lastp_ctx; auto).
  rewrite rscan_ctx by exact Hl. cbn [Nat.add].
  rewrite rscan_hit; [rewrite rscan_ctx_nil by exact Hr; reflexivity|exact Hne|].
  destruct occ as [|x occ']; [contradiction|]. cbn [hd_is] in Hs.
  unfold match_at. cbn [app nth_error]. unfold wb at 1. cbn [is_word_o]. rewrite Hp, (alpha_word x Hs). cbn [xorb].
  replace (if title then title_match (x :: occ' ++ r) else None) with (@None nat).
  2:{ destruct title; [|reflexivity]. symmetry. apply title_match_none, Ht. reflexivity. }
  change (x :: occ' ++ r) with ((x :: occ') ++ r). rewrite <- (app_nil_r r).
  apply ident_match_run; auto. cbn [hd_is]. unfold is_id_start. rewrite Hs. reflexivity.
Qed.

Lemma title_word_some_lower occ r n : ctxs r = true -> title_word (occ ++ r) = Some n ->
  hd_is is_upper occ = true /\ existsb is_lower occ = true.
Proof.
  intros Hr H. destruct occ as [|x occ'].
  - exfalso. cbn [app] in H. destruct r as [|y r']; [discriminate|]. cbn [title_word] in H.
    cbn [ctxs forallb] in Hr. apply andb_true_iff in Hr as [Hy _]. apply is_ctx_noalpha in Hy.
    apply negb_true_iff in Hy. unfold is_alpha in Hy. apply orb_false_iff in Hy as [Hy _]. rewrite Hy in H. discriminate.
  - cbn [app title_word] in H. destruct (is_upper x) eqn:Ex; [|discriminate]. split; [exact Ex|].
    destruct occ' as [|c1 t].
    + exfalso. cbn [app] in H. destruct r as [|y r']; [discriminate|]. cbn [run] in H.
      cbn [ctxs forallb] in Hr. apply andb_true_iff in Hr as [Hy _]. apply is_ctx_noalpha in Hy.
      apply negb_true_iff in Hy. unfold is_alpha in Hy. apply orb_false_iff in Hy as [_ Hy]. rewrite Hy in H. discriminate.
    + cbn [app run] in H. cbn [existsb]. destruct (is_lower c1); [apply orb_true_r|discriminate].
Qed.

(* ------------------------------------------------------------------------------------------ *)
(* the identifiers the extractor reports on  dl ++ occ ++ dr                                  *)
(* ------------------------------------------------------------------------------------------ *)
Definition sep_style (S : style) : bool :=
  match S with
  | Kebab | Title | Train | ScreamingTrain | Dot | Sentence | LowerSentence | UpperSentence => true
  | _ => false
  end.

Lemma place_parts_in ps : forall pos a b id, In (a, b, id) (place_parts pos ps) -> In id ps.
Proof.
  induction ps as [|p ps IH]; intros pos a b id H; cbn [place_parts] in H; [destruct H|].
  apply in_app_or in H as [H|H].
  - destruct p as [|y p']; [destruct H|]. destruct H as [H|[]]. left. congruence.
  - right. eapply IH, H.
Qed.

Lemma Forall2_in_l {A B} (R : A -> B -> Prop) l1 l2 x : Forall2 R l1 l2 -> In x l1 -> exists y, R x y.
Proof.
  induction 1 as [|a b l1 l2 H _ IH]; intros Hin; [destruct Hin|].
  destruct Hin as [<-|Hin]; [exists b; exact H|apply IH, Hin].
Qed.

Lemma hd_existsb (p : N -> bool) s : hd_is p s = true -> existsb p s = true.
Proof. destruct s as [|x s]; [discriminate|]. cbn [hd_is existsb]. intros ->. reflexivity. Qed.

Lemma not_in_existsb S styles : ~ In S styles -> existsb (style_eqb S) styles = false.
Proof.
  intro Hout. destruct (existsb (style_eqb S) styles) eqn:E; [|reflexivity]. exfalso. apply Hout.
  apply existsb_exists in E as (x & Hx & Ex). apply style_eqb_eq in Ex. subst x. exact Hx.
Qed.

Section Ids.
Variable sw : list bytes.
Hypothesis Hg : all_neutral gen_acronyms sw = true.
Hypothesis Hlen : 2 <= length sw.

Let Hne : sw <> [].
Proof. clear - Hlen. destruct sw; [cbn [length] in Hlen; lia|discriminate]. Qed.

Lemma toks_ne S : toks_of S sw <> [].
Proof.
  intro E. apply (f_equal (@length bytes)) in E. rewrite toks_of_length in E. cbn [length] in E. lia.
Qed.

Lemma render_id_chars S d : sep_of S = Some d -> is_id_char d = true -> forallb is_id_char (render S sw) = true.
Proof.
  intros Hs Hd. rewrite (render_sep S sw Hne), Hs. apply forallb_join; [exact Hd|].
  pose proof (toks_of_good gen_acronyms S sw Hg) as HG. clear - HG.
  induction HG as [|X w Xs ws HX _ IH]; [reflexivity|]. cbn [forallb]. rewrite IH, andb_true_r.
  eapply forallb_impl; [|exact (good_alpha gen_acronyms X w HX)].
  intros c Hc. unfold is_id_char, is_alnum. rewrite Hc. reflexivity.
Qed.

(* regime W *)
Lemma whole_case title S dl dr a b id0 :
  (S = Kebab \/ S = ScreamingTrain \/ S = Dot \/ (S = Train /\ title = false)) ->
  ctxs dl = true -> ctxs dr = true ->
  In (a, b, id0) (regex_find_iter title (dl ++ render S sw ++ dr)) -> id0 = render S sw.
Proof.
  intros HS Hdl Hdr Hin.
  destruct (render_shape gen_acronyms S sw Hg Hne) as (Hs & He & _).
  assert (Hc : forallb is_id_char (render S sw) = true).
  { destruct HS as [->|[->|[->|[-> _]]]];
      [apply (render_id_chars _ 45%N)|apply (render_id_chars _ 45%N)|apply (render_id_chars _ 46%N)
      |apply (render_id_chars _ 45%N)]; reflexivity. }
  rewrite rscan_whole in Hin; auto.
  - destruct Hin as [Hin|[]]. congruence.
  - intro Et. destruct (title_word (render S sw ++ dr)) as [n|] eqn:E; [exfalso|reflexivity].
    destruct (title_word_some_lower _ _ _ Hdr E) as [H1 H2]. apply hd_existsb in H1.
    unfold contains in *. rewrite (flag_up gen_acronyms sw Hg Hlen S) in H1.
    rewrite (flag_lo gen_acronyms sw Hg Hlen S) in H2.
    destruct HS as [->|[->|[->|[_ Ef]]]]; try discriminate. congruence.
Qed.

Lemma notcap_lower ws : Forall (fun w => neutral gen_acronyms w = true) ws -> Forall (fun X => iscap X = false) ws.
Proof.
  intro HF. eapply Forall_impl; [|exact HF]. intros w Hw. unfold iscap.
  destruct (neutral_shape _ _ Hw) as (c & c1 & w2 & -> & Hc & _). cbn [hd_is].
  rewrite (lower_not_upper _ Hc). reflexivity.
Qed.

Lemma notcap_upper ws : Forall (fun w => neutral gen_acronyms w = true) ws ->
  Forall (fun X => iscap X = false) (map upper ws).
Proof.
  induction 1 as [|w ws Hw _ IH]; cbn [map]; constructor; [|exact IH].
  unfold iscap. rewrite (nw_lo_up gen_acronyms w Hw). apply andb_false_r.
Qed.

(* regime P *)
Lemma pieces_case S styles dl dr a b id0 :
  (S = Title \/ S = Sentence \/ S = LowerSentence \/ S = UpperSentence \/ (S = Train /\ ext_title styles = true)) ->
  ~ In S styles -> ctxs dl = true -> ctxs dr = true ->
  In (a, b, id0) (regex_find_iter (ext_title styles) (dl ++ render S sw ++ dr)) -> In id0 (toks_of S sw).
Proof.
  intros HS Hout Hdl Hdr Hin.
  pose proof (proj1 (all_neutral_Forall gen_acronyms sw) Hg) as HF.
  pose proof (toks_of_good gen_acronyms S sw Hg) as HG.
  rewrite (render_sep S sw Hne) in Hin.
  destruct HS as [->|[->|[->|[->|[-> Et]]]]]; cbn [sep_of] in Hin.
  - (* Title: the TITLE alternative is off *)
    assert (Et : ext_title styles = false) by (apply not_in_existsb, Hout).
    rewrite Et in Hin. eapply (ids_pieces false 32%N); try exact Hin; auto using toks_ne.
    eapply pieces_ok_space; eauto.
  - (* Sentence *)
    eapply (ids_pieces _ 32%N); try exact Hin; auto using toks_ne.
    destruct (ext_title styles); [|eapply pieces_ok_space; eauto].
    destruct sw as [|w0 ws']; [contradiction|]. inversion HF; subst. cbn [toks_of].
    apply (pieces_ok_sentence gen_acronyms); assumption.
  - (* LowerSentence *)
    eapply (ids_pieces _ 32%N); try exact Hin; auto using toks_ne.
    eapply pieces_ok_space; eauto. right. cbn [toks_of]. apply notcap_lower, HF.
  - (* UpperSentence *)
    eapply (ids_pieces _ 32%N); try exact Hin; auto using toks_ne.
    eapply pieces_ok_space; eauto. right. cbn [toks_of]. apply notcap_upper, HF.
  - (* Train, Title enabled *)
    rewrite Et in Hin. eapply (ids_pieces true 45%N); try exact Hin; auto using toks_ne.
    cbn [toks_of]. apply (pieces_ok_train gen_acronyms); assumption.
Qed.

(* every identifier is the occurrence or one rendered word of it *)
Lemma ids_of_occ S styles dl dr s e id :
  sep_style S = true -> ~ In S styles -> ctxs dl = true -> ctxs dr = true ->
  In (s, e, id) (find_all styles (dl ++ render S sw ++ dr)) ->
  id = render S sw \/ exists w, good gen_acronyms id w.
Proof.
  intros HS Hout Hdl Hdr Hin.
  pose proof (toks_of_good gen_acronyms S sw Hg) as HG.
  unfold find_all in Hin. rewrite find_all_with_eq in Hin.
  apply in_flat_map in Hin as ([[a b] id0] & Hin & Hex).
  assert (Hreg : id0 = render S sw \/ In id0 (toks_of S sw)).
  { destruct S; try discriminate HS.
    - left. apply (whole_case (ext_title styles) Kebab dl dr a b id0); auto.
    - right. apply (pieces_case Title styles dl dr a b id0); auto.
    - destruct (ext_title styles) eqn:Et.
      + right. apply (pieces_case Train styles dl dr a b id0); auto 6. rewrite Et. exact Hin.
      + left. apply (whole_case false Train dl dr a b id0); auto 6.
    - left. apply (whole_case (ext_title styles) ScreamingTrain dl dr a b id0); auto.
    - left. apply (whole_case (ext_title styles) Dot dl dr a b id0); auto.
    - right. apply (pieces_case Sentence styles dl dr a b id0); auto 6.
    - right. apply (pieces_case LowerSentence styles dl dr a b id0); auto 6.
    - right. apply (pieces_case UpperSentence styles dl dr a b id0); auto 6. }
  unfold expand in Hex. destruct Hreg as [->|Hp].
  - destruct (contains 46 (render S sw) && ext_split styles) eqn:Ec.
    + right. apply andb_true_iff in Ec as [Ec _]. unfold contains in Ec.
      rewrite (flag_byte gen_acronyms sw Hg Hlen S 46%N eq_refl) in Ec.
      destruct S; try discriminate HS; try discriminate Ec.
      apply place_parts_in in Hex. rewrite (split_on_render gen_acronyms Dot sw 46%N Hg Hne eq_refl) in Hex.
      eapply Forall2_in_l; eauto.
    + left. destruct Hex as [Hex|[]]. congruence.
  - destruct (Forall2_in_l _ _ _ _ HG Hp) as [w Hw].
    replace (contains 46 id0) with false in Hex.
    2:{ symmetry. apply alpha_no_byte; [reflexivity|]. eapply good_alpha, Hw. }
    cbn [andb] in Hex. destruct Hex as [Hex|[]]. right. exists w. congruence.
Qed.

End Ids.

(* ------------------------------------------------------------------------------------------ *)
(* the compound matcher on one rendered word                                                  *)
(* ------------------------------------------------------------------------------------------ *)
Lemma tokens_good X w : good gen_acronyms X w -> tokens gen_acronyms X = [X].
Proof.
  intro HG. apply tokens_tk.
  exact (tk_join gen_acronyms gen_acronyms_wf 1 32%N eq_refl [X] [w] None []
           (Forall2_cons _ _ HG (Forall2_nil _)) ltac:(discriminate)).
Qed.

(* one token against a search term of two or more: compound_matcher.rs line 126 *)
Lemma fcv_word_nil X w search repl styles :
  good gen_acronyms X w -> 2 <= length (tokens gen_acronyms search) ->
  find_compound_variants X search repl styles = [].
Proof.
  intros HG Hlen. pose proof (good_alpha gen_acronyms X w HG) as Ha.
  pose proof (good_nonempty gen_acronyms X w HG) as Hne.
  assert (Hex : Compound.extract_prefix X = ([], X)).
  { destruct X as [|x t]; [contradiction|]. cbn [forallb] in Ha. apply andb_true_iff in Ha as [Hx _].
    cbn [Compound.extract_prefix]. destruct (x =? 95)%N eqn:E; [|reflexivity].
    apply N.eqb_eq in E. subst x. discriminate Hx. }
  unfold find_compound_variants, fcv. rewrite Hex, (tokens_good X w HG).
  destruct (Nat.eqb _ _ && tokens_match _ _); [reflexivity|].
  unfold contains. rewrite (alpha_no_byte X 95%N eq_refl Ha), (alpha_no_byte X 45%N eq_refl Ha). cbn [andb orb].
  replace (Nat.ltb (length [X]) (length (tokens gen_acronyms search))) with true; [reflexivity|].
  symmetry. apply Nat.ltb_lt. cbn [length]. lia.
Qed.

(* ------------------------------------------------------------------------------------------ *)
(* 3'. an occurrence in a DISABLED style with a non-word separator                            *)
(* ------------------------------------------------------------------------------------------ *)
Theorem scan_file_disabled_untouched_sep :
  forall acr defaults amb S0 S1 S sw rw styles dl dr extra,
  wf_acr acr = true -> visible S0 = true -> visible S1 = true -> sep_style S = true ->
  2 <= length sw -> rw <> [] -> all_neutral acr sw = true -> all_neutral acr rw = true ->
  all_neutral gen_acronyms sw = true ->
  ~ In S styles -> ctxs dl = true -> ctxs dr = true ->
  let search := to_style acr sw S0 in
  let repl := to_style acr rw S1 in
  let vm := variant_map_core acr defaults [] [] false amb search repl (Some styles) in
  let c := dl ++ to_style acr sw S ++ dr in
  find_enhanced_matches c search repl (keys vm) styles extra = [] /\
  forall resolve line_excluded o,
    generate_hunks_m acr resolve line_excluded o vm c repl
      (find_enhanced_matches c search repl (keys vm) styles extra) = [].
Proof.
  intros acr defaults amb S0 S1 S sw rw styles dl dr extra Hwf Hv0 Hv1 Hss Hlen Hrne Hns Hnr Hng Hout Hdl Hdr
         search repl vm c.
  assert (Hv : visible S = true) by (destruct S; try discriminate Hss; reflexivity).
  assert (Hne : sw <> []) by (clear - Hlen; destruct sw; [cbn [length] in Hlen; lia|discriminate]).
  destruct (disabled_reduction acr defaults amb S0 S1 S sw rw styles dl dr extra
              Hwf Hv0 Hv1 Hv Hlen Hrne Hns Hnr Hng Hout Hdl Hdr) as [_ Hred].
  fold search repl vm c in Hred.
  assert (Htok : length (tokens gen_acronyms search) = length sw).
  { unfold search. rewrite (to_style_render acr sw S0 Hns), <- (to_style_render gen_acronyms sw S0 Hng).
    rewrite (tokens_render gen_acronyms S0 sw gen_acronyms_wf Hv0 Hne Hng). apply toks_of_length. }
  assert (E : find_enhanced_matches c search repl (keys vm) styles extra = []).
  { apply Hred. intros s e id Hin. unfold c in Hin. rewrite (to_style_render acr sw S Hns) in Hin.
    destruct (ids_of_occ sw Hng Hlen S styles dl dr s e id Hss Hout Hdl Hdr Hin) as [->|[w Hw]].
    - apply fcv_whole_occ_nil; assumption.
    - apply (fcv_word_nil id w); [exact Hw|]. rewrite Htok. exact Hlen. }
  split; [exact E|]. intros resolve line_excluded o. rewrite E. reflexivity.
Qed.

(* ------------------------------------------------------------------------------------------ *)
(* 3. every visible style: ScanFileP.scan_file_disabled_untouched_word + the theorem above    *)
(* ------------------------------------------------------------------------------------------ *)
Theorem scan_file_disabled_untouched :
  forall acr defaults amb S0 S1 S sw rw styles dl dr extra,
  wf_acr acr = true -> visible S0 = true -> visible S1 = true -> visible S = true ->
  2 <= length sw -> rw <> [] -> all_neutral acr sw = true -> all_neutral acr rw = true ->
  all_neutral gen_acronyms sw = true ->
  ~ In S styles -> ctxs dl = true -> ctxs dr = true ->
  let search := to_style acr sw S0 in
  let repl := to_style acr rw S1 in
  let vm := variant_map_core acr defaults [] [] false amb search repl (Some styles) in
  let c := dl ++ to_style acr sw S ++ dr in
  find_enhanced_matches c search repl (keys vm) styles extra = [] /\
  forall resolve line_excluded o,
    generate_hunks_m acr resolve line_excluded o vm c repl
      (find_enhanced_matches c search repl (keys vm) styles extra) = [].
Proof.
  intros acr defaults amb S0 S1 S sw rw styles dl dr extra Hwf Hv0 Hv1 Hv Hlen Hrne Hns Hnr Hng Hout Hdl Hdr.
  destruct (word_style S) eqn:Ew.
  - apply scan_file_disabled_untouched_word; assumption.
  - apply scan_file_disabled_untouched_sep; try assumption.
    destruct S; try discriminate Hv; try discriminate Ew; reflexivity.
Qed.

(* ------------------------------------------------------------------------------------------ *)
(* instances: all hypotheses hold, a style with the SAME separator is enabled                 *)
(* ------------------------------------------------------------------------------------------ *)
From Coq Require Import Strings.String.
From RN Require Import Base.Str Gen.GenStyles.

Ltac not_in := let H := fresh "H" in cbn [In]; intro H; repeat (destruct H as [H|H]; [discriminate H|]); exact H.

(* `old-name-here` with Train, ScreamingTrain (and Title, Snake) enabled, Kebab not *)
Example ex_kebab_with_train_enabled :
  let styles := [Train; ScreamingTrain; Title; Snake] in
  let vm := variant_map_core gen_acronyms gen_default_styles [] [] false false (bs "old_name_here") (bs "newThing")
              (Some styles) in
  let c := bs ".(" ++ bs "old-name-here" ++ bs ". " in
  find_enhanced_matches c (bs "old_name_here") (bs "newThing") (keys vm) styles None = [] /\
  forall resolve line_excluded o,
    generate_hunks_m gen_acronyms resolve line_excluded o vm c (bs "newThing")
      (find_enhanced_matches c (bs "old_name_here") (bs "newThing") (keys vm) styles None) = [].
Proof.
  apply (scan_file_disabled_untouched_sep gen_acronyms gen_default_styles false Snake Camel Kebab
           [bs "old"; bs "name"; bs "here"] [bs "new"; bs "thing"] [Train; ScreamingTrain; Title; Snake]
           (bs ".(") (bs ". ") None); try (vm_compute; reflexivity); try discriminate; try (cbn [Datatypes.length]; lia).
  not_in.
Qed.

(* `old.name` with Snake, Kebab enabled, Dot not (the dot-splitting loop is active);
   `Old name here` with Title, LowerSentence enabled, Sentence not (TITLE takes `Old`);
   `Old-Name` with Title, Kebab, ScreamingTrain enabled, Train not (TITLE cuts at the '-') *)
Example ex_dot_sentence_train :
  (let styles := [Snake; Kebab] in
   let vm := variant_map_core gen_acronyms gen_default_styles [] [] false false (bs "old-name") (bs "new_thing") (Some styles) in
   find_enhanced_matches (bs "= " ++ bs "old.name" ++ bs ".;") (bs "old-name") (bs "new_thing") (keys vm) styles None = []) /\
  (let styles := [Title; LowerSentence] in
   let vm := variant_map_core gen_acronyms gen_default_styles [] [] false false (bs "Old Name Here") (bs "new_thing") (Some styles) in
   find_enhanced_matches (bs "Old name here" ++ bs ".") (bs "Old Name Here") (bs "new_thing") (keys vm) styles None = []) /\
  (let styles := [Title; Kebab; ScreamingTrain] in
   let vm := variant_map_core gen_acronyms gen_default_styles [] [] false false (bs "oldName") (bs "new_thing") (Some styles) in
   find_enhanced_matches (bs "(" ++ bs "Old-Name" ++ bs ")") (bs "oldName") (bs "new_thing") (keys vm) styles None = []).
Proof.
  split; [|split].
  - apply (scan_file_disabled_untouched gen_acronyms gen_default_styles false Kebab Snake Dot
             [bs "old"; bs "name"] [bs "new"; bs "thing"] [Snake; Kebab] (bs "= ") (bs ".;") None);
      try (vm_compute; reflexivity); try discriminate; try (cbn [Datatypes.length]; lia). not_in.
  - apply (scan_file_disabled_untouched gen_acronyms gen_default_styles false Title Snake Sentence
             [bs "old"; bs "name"; bs "here"] [bs "new"; bs "thing"] [Title; LowerSentence] [] (bs ".") None);
      try (vm_compute; reflexivity); try discriminate; try (cbn [Datatypes.length]; lia). not_in.
  - apply (scan_file_disabled_untouched gen_acronyms gen_default_styles false Camel Snake Train
             [bs "old"; bs "name"] [bs "new"; bs "thing"] [Title; Kebab; ScreamingTrain] (bs "(") (bs ")") None);
      try (vm_compute; reflexivity); try discriminate; try (cbn [Datatypes.length]; lia). not_in.
Qed.

(* what the extractor reports in the two regimes *)
Example ex_regimes :
  find_all [Train; Snake] (bs ".(old-name-here. ") = [(2, 15, bs "old-name-here")] /\
  find_all [Title; Snake] (bs ".(Old-Name-Here. ") = [(2, 5, bs "Old"); (6, 10, bs "Name"); (11, 15, bs "Here")] /\
  find_all [Snake] (bs ".(Old-Name-Here. ") = [(2, 15, bs "Old-Name-Here")] /\
  find_all [Snake] (bs ".(old.name.here. ") = [(2, 5, bs "old"); (6, 10, bs "name"); (11, 15, bs "here")] /\
  find_all [Title] (bs ".(Old name here. ") = [(2, 5, bs "Old"); (6, 10, bs "name"); (11, 15, bs "here")].
Proof. vm_compute. repeat split; reflexivity. Qed.

Print Assumptions scan_file_disabled_untouched_sep.
Print Assumptions scan_file_disabled_untouched.
