(* Proofs/ConstraintsP.v — C06, second clause: the ambiguity resolver only ever picks a style S with
   [can_match_style acr text S = true] (its contract).  For EVERY such style, rendering the
   replacement words in S
     - starts with an upper-case letter if the matched text does       (compatible_first_upper)
     - starts with a lower-case letter if the matched text does        (compatible_first_lower)
     - is all upper case if the matched text is an all-upper-case run
       that the acronym table does not excuse                          (all_upper_stays_upper)
   For all acronym tables, texts, styles and neutral word lists.  Stdlib + lia only.

   Findings (details at the examples at the end):
   * the requested statement of [compatible_all_upper] is true but over-constrained: the hypothesis
     "no lower-case letter" is redundant (given the others), and so is "first byte upper" (given
     "no lower-case letter").  The minimal form is [compatible_all_upper_min]: second byte upper
     and [has_consecutive_uppercase acr text = true].
   * the sanity claim "the styles compatible with "oldname" are exactly the all-lower ones" is
     FALSE for the model: Camel is compatible too, and Camel renders [new; name] as "newName".
     So "an all-lower-case match stays all lower case" does NOT hold (ex_oldname_camel). *)
From Coq Require Import Lia ZArith ZifyBool String.
From RN Require Import Base.Bytes Base.Str Model.StyleDef Model.CaseModel Model.CaseSpec
                       Model.ConstraintsDef Model.Constraints.
From RN Require Import Gen.GenStyles Gen.GenAcronyms Gen.GenConstraints.
From RN Require Import Proofs.CaseP1 Proofs.CaseP2 Proofs.CaseP3.
Open Scope N_scope.
Open Scope bool_scope.

(* ------------------------------------------------------------------------------------------ *)
(* definitions                                                                                *)
(* ------------------------------------------------------------------------------------------ *)

(* the styles whose renderings are all upper case *)
Definition upper_style (S : style) : bool :=
  match S with ScreamingSnake | ScreamingTrain | UpperFlat | UpperSentence => true | _ => false end.

(* maximal leading run of upper-case letters / digits *)
Definition lead_run (s : bytes) : bytes := fst (span_b (fun x => is_upper x || is_digit x) s).

(* the text is excused by the acronym table: it is an entry, or some prefix of length >= 2 of its
   leading run is an entry *)
Definition acr_excused (acr : acr_tab) (text : bytes) : bool :=
  is_acronym acr text ||
  existsb (fun len => is_acronym acr (firstn len (lead_run text))) (lens_down (length (lead_run text))).

(* ------------------------------------------------------------------------------------------ *)
(* can_match_style, per style                                                                 *)
(* ------------------------------------------------------------------------------------------ *)

Lemma cms_case acr text S : can_match_style acr text S = true ->
  match S with
  | Title => forallb (check_case acr TitlePat) (split_sep 32 text) = true
  | Train => forallb (check_case acr TitlePat) (split_sep 45 text) = true
  | Sentence =>
      match split_sep 32 text with
      | w :: ws => check_case acr TitlePat w && forallb (check_case acr AllLower) ws
      | [] => false
      end = true
  | _ => check_case acr (fst (gen_constraints S)) text = true
  end.
Proof.
  unfold can_match_style. destruct S; cbn [gen_constraints fst]; intro H;
    apply andb_true_iff in H as [H _]; exact H.
Qed.

(* in all three word-wise styles the first piece of the split must match the Title pattern *)
Definition first_piece_title (acr : acr_tab) (d : N) (text : bytes) : bool :=
  match split_sep d text with w :: _ => check_case acr TitlePat w | [] => false end.

Lemma split_sep_ne d s : split_sep d s <> [].
Proof.
  destruct s as [|c s]; cbn [split_sep]; [discriminate|].
  destruct (c =? d); [discriminate|]. destruct (split_sep d s); discriminate.
Qed.

Lemma cms_wordwise acr text S : can_match_style acr text S = true ->
  match S with
  | Title | Sentence => first_piece_title acr 32 text = true
  | Train => first_piece_title acr 45 text = true
  | _ => True
  end.
Proof.
  intro H. apply cms_case in H. unfold first_piece_title.
  destruct S; try exact I.
  - pose proof (split_sep_ne 32 text) as Hne.
    destruct (split_sep 32 text); cbn [forallb] in H; [congruence|].
    apply andb_true_iff in H as [H _]. exact H.
  - pose proof (split_sep_ne 45 text) as Hne.
    destruct (split_sep 45 text); cbn [forallb] in H; [congruence|].
    apply andb_true_iff in H as [H _]. exact H.
  - destruct (split_sep 32 text); [discriminate|].
    apply andb_true_iff in H as [H _]. exact H.
Qed.

Lemma split_sep_cons d c s :
  split_sep d (c :: s) =
  if c =? d then [] :: split_sep d s
  else match split_sep d s with w :: ws => (c :: w) :: ws | [] => [[c]] end.
Proof. reflexivity. Qed.

Lemma split_sep_hd d c rest : (c =? d) = false ->
  exists w ws, split_sep d (c :: rest) = (c :: w) :: ws.
Proof. intro H. rewrite split_sep_cons, H. destruct (split_sep d rest) as [|w ws]; eauto. Qed.

Lemma alpha_not_delim c d : is_alpha c = true -> is_delim d = true -> (c =? d) = false.
Proof.
  intros Hc Hd. destruct (c =? d) eqn:E; [|reflexivity]. apply N.eqb_eq in E. subst d.
  pose proof (delim_not_alnum c Hd) as X. unfold is_alnum in X. rewrite Hc in X. discriminate.
Qed.

(* a text that starts with a letter: the first piece starts with that letter *)
Lemma first_piece_title_hd acr d c rest : is_delim d = true -> is_alpha c = true ->
  first_piece_title acr d (c :: rest) = true -> is_upper c = true.
Proof.
  intros Hd Hc H. unfold first_piece_title in H.
  destruct (split_sep_hd d c rest (alpha_not_delim c d Hc Hd)) as (w & ws & E). rewrite E in H.
  cbn [check_case] in H. apply andb_true_iff in H as [H _]. exact H.
Qed.

(* a text whose second byte is an upper-case letter: the first piece is not a Title word *)
Lemma first_piece_title_second acr d c1 c2 rest : is_delim d = true -> is_upper c2 = true ->
  first_piece_title acr d (c1 :: c2 :: rest) = false.
Proof.
  intros Hd H2. unfold first_piece_title. rewrite split_sep_cons.
  destruct (c1 =? d) eqn:E1; [reflexivity|].
  destruct (split_sep_hd d c2 rest (alpha_not_delim c2 d (upper_alpha c2 H2) Hd)) as (w & ws & E).
  rewrite E. cbn [check_case forallb].
  rewrite (upper_not_lower c2 H2), (upper_alpha c2 H2). cbn [orb negb andb]. apply andb_false_r.
Qed.

(* ------------------------------------------------------------------------------------------ *)
(* 1, 2: the case of the first letter                                                         *)
(* ------------------------------------------------------------------------------------------ *)

(* the first byte of a rendering of a non-empty neutral word list *)
Lemma to_style_first acr rw S : all_neutral acr rw = true -> rw <> [] ->
  exists c s', is_lower c = true /\ to_style acr rw S = hd_byte S c :: s'.
Proof.
  intros Hn Hne. rewrite (to_style_render acr rw S Hn).
  destruct rw as [|w0 ws']; [congruence|].
  pose proof (proj1 (all_neutral_Forall acr _) Hn) as HF. inversion HF as [|? ? H0 _]; subst.
  destruct (neutral_shape _ _ H0) as (c & c1 & w2 & -> & Hc & _).
  destruct (render_hd S c (c1 :: w2) ws') as [s' E]. exists c, s'. auto.
Qed.

Lemma compatible_upper_hd acr c rest S :
  can_match_style acr (c :: rest) S = true -> is_upper c = true -> forall x, hd_byte S x = to_upper x.
Proof.
  intros H Hc x. apply cms_case in H.
  destruct S; try reflexivity; exfalso; cbn [gen_constraints fst check_case existsb] in H;
    try (rewrite Hc in H; cbn [orb negb] in H; discriminate).
  (* Camel *)
  rewrite (upper_not_lower c Hc) in H. cbn [andb] in H. discriminate.
Qed.

Lemma compatible_lower_hd acr c rest S :
  can_match_style acr (c :: rest) S = true -> is_lower c = true -> forall x, hd_byte S x = x.
Proof.
  intros H Hc x. pose proof (cms_wordwise acr _ S H) as W. apply cms_case in H.
  assert (Hu : is_upper c = false) by (apply lower_not_upper, Hc).
  destruct S; try reflexivity; exfalso;
    try (apply first_piece_title_hd in W; [congruence|reflexivity|apply lower_alpha, Hc]);
    cbn [gen_constraints fst check_case existsb] in H;
    try (rewrite Hc in H; cbn [orb negb] in H; discriminate).
  (* Pascal *)
  rewrite Hu in H. cbn [andb] in H. discriminate.
Qed.

Theorem compatible_first_upper : forall acr text S rw,
  can_match_style acr text S = true ->
  (exists c rest, text = c :: rest /\ is_upper c = true) ->
  all_neutral acr rw = true -> rw <> [] ->
  exists c' rest', to_style acr rw S = c' :: rest' /\ is_upper c' = true.
Proof.
  intros acr text S rw H (c & rest & -> & Hc) Hn Hne.
  destruct (to_style_first acr rw S Hn Hne) as (x & s' & Hx & E).
  exists (hd_byte S x), s'. split; [exact E|].
  rewrite (compatible_upper_hd acr c rest S H Hc). apply to_upper_lower_is_upper, Hx.
Qed.

Theorem compatible_first_lower : forall acr text S rw,
  can_match_style acr text S = true ->
  (exists c rest, text = c :: rest /\ is_lower c = true) ->
  all_neutral acr rw = true -> rw <> [] ->
  exists c' rest', to_style acr rw S = c' :: rest' /\ is_lower c' = true.
Proof.
  intros acr text S rw H (c & rest & -> & Hc) Hn Hne.
  destruct (to_style_first acr rw S Hn Hne) as (x & s' & Hx & E).
  exists (hd_byte S x), s'. split; [exact E|].
  rewrite (compatible_lower_hd acr c rest S H Hc). exact Hx.
Qed.

(* ------------------------------------------------------------------------------------------ *)
(* 3: an all-upper-case text is compatible with the four upper styles only                    *)
(* ------------------------------------------------------------------------------------------ *)

(* minimal form.  Only the second byte has to be an upper-case letter, and the text has to count
   as "consecutive upper case" for the Rust (this is what rules out Camel and Pascal). *)
Theorem compatible_all_upper_min : forall acr S c1 c2 rest,
  can_match_style acr (c1 :: c2 :: rest) S = true ->
  is_upper c2 = true ->
  has_consecutive_uppercase acr (c1 :: c2 :: rest) = true ->
  upper_style S = true.
Proof.
  intros acr S c1 c2 rest H H2 Hh. pose proof (cms_wordwise acr _ S H) as W. apply cms_case in H.
  destruct S; try reflexivity; exfalso;
    try (rewrite first_piece_title_second in W by (reflexivity || exact H2); discriminate);
    cbn [gen_constraints fst check_case existsb] in H;
    try (rewrite H2 in H; rewrite orb_true_r in H; cbn [orb negb] in H; discriminate);
    (* Camel, Pascal *)
    rewrite Hh in H; cbn [negb] in H; rewrite andb_false_r in H; discriminate.
Qed.

(* the hypothesis on has_consecutive_uppercase is exactly what decides Pascal *)
Lemma pascal_exact acr c rest : is_upper c = true ->
  can_match_style acr (c :: rest) Pascal =
  negb (has_consecutive_uppercase acr (c :: rest)) && check_separators (c :: rest) None.
Proof.
  intro Hc. unfold can_match_style. cbn [gen_constraints check_case]. rewrite Hc. reflexivity.
Qed.

(* the loop on a text that starts with an upper-case letter *)
Lemma hcu_loop_upper acr fuel c s' : is_upper c = true ->
  hcu_loop (S fuel) acr (c :: s') =
  let (run, rest) := span_b (fun x => is_upper x || is_digit x) (c :: s') in
  if Nat.leb 2 (length run) then
    if existsb (fun len => is_acronym acr (firstn len run)) (lens_down (length run))
    then hcu_loop fuel acr rest else true
  else hcu_loop fuel acr rest.
Proof. intro H. cbn [hcu_loop]. rewrite H. reflexivity. Qed.

(* two leading upper-case letters, not excused: "consecutive upper case" *)
Lemma not_excused_hcu acr c1 c2 rest :
  is_upper c1 = true -> is_upper c2 = true ->
  acr_excused acr (c1 :: c2 :: rest) = false ->
  has_consecutive_uppercase acr (c1 :: c2 :: rest) = true.
Proof.
  intros H1 H2 He. unfold acr_excused in He. apply orb_false_iff in He as [Ha Hp].
  unfold has_consecutive_uppercase. rewrite Ha. rewrite (hcu_loop_upper acr _ c1 _ H1).
  unfold lead_run in Hp.
  destruct (span_b (fun x => is_upper x || is_digit x) (c1 :: c2 :: rest)) as [run after] eqn:E.
  cbn [fst] in Hp. rewrite Hp.
  cbn [span_b] in E. rewrite H1, H2 in E. cbn [orb] in E.
  destruct (span_b (fun x => is_upper x || is_digit x) rest) as [a b].
  injection E as <- _. reflexivity.
Qed.

(* the same hypothesis in terms of membership in the table *)
Lemma is_acronym_in acr x : is_acronym acr x = true -> In x acr.
Proof.
  unfold is_acronym. intro H. apply existsb_exists in H as (y & Hy & E).
  apply beq_eq in E. subst y. exact Hy.
Qed.

Lemma In_lens_down k n : In k (lens_down n) -> (2 <= k <= n)%nat.
Proof.
  induction n as [|n IH]; [contradiction|]. destruct n as [|m]; [contradiction|].
  change (lens_down (S (S m))) with (S (S m) :: lens_down (S m)).
  intros [<-|H]; [lia|]. apply IH in H. lia.
Qed.

Lemma not_excused_prop acr text :
  ~ In text acr ->
  (forall k, (2 <= k <= length (lead_run text))%nat -> ~ In (firstn k (lead_run text)) acr) ->
  acr_excused acr text = false.
Proof.
  intros H1 H2. unfold acr_excused. apply orb_false_iff. split.
  - destruct (is_acronym acr text) eqn:E; [|reflexivity]. apply is_acronym_in in E. contradiction.
  - destruct (existsb _ _) eqn:E; [|reflexivity]. exfalso.
    apply existsb_exists in E as (k & Hk & E). apply In_lens_down in Hk.
    apply is_acronym_in in E. exact (H2 k Hk E).
Qed.

(* 3, as requested.  The hypothesis [existsb is_lower text = false] is not used: it is implied by
   the conclusion (upper_style_needs_no_lower), and without it the theorem is strictly stronger
   (e.g. the text "ABc" is compatible with no style at all). *)
Theorem compatible_all_upper : forall acr text S c1 c2 rest,
  can_match_style acr text S = true ->
  existsb is_lower text = false ->
  text = c1 :: c2 :: rest -> is_upper c1 = true -> is_upper c2 = true ->
  acr_excused acr text = false ->
  upper_style S = true.
Proof.
  intros acr text S c1 c2 rest H _ -> H1 H2 He.
  apply (compatible_all_upper_min acr S c1 c2 rest H H2). apply not_excused_hcu; assumption.
Qed.

(* the same, with the acronym hypothesis spelled out on the table *)
Corollary compatible_all_upper_prop : forall acr text S c1 c2 rest,
  can_match_style acr text S = true ->
  text = c1 :: c2 :: rest -> is_upper c1 = true -> is_upper c2 = true ->
  ~ In text acr ->
  (forall k, (2 <= k <= length (lead_run text))%nat -> ~ In (firstn k (lead_run text)) acr) ->
  upper_style S = true.
Proof.
  intros acr text S c1 c2 rest H E H1 H2 Ha Hp.
  subst text. apply (compatible_all_upper_min acr S c1 c2 rest H H2).
  apply not_excused_hcu; auto using not_excused_prop.
Qed.

(* conversely: a text compatible with an upper style has no lower-case letter *)
Lemma upper_style_needs_no_lower acr text S :
  upper_style S = true -> can_match_style acr text S = true -> existsb is_lower text = false.
Proof.
  intros HS H. apply cms_case in H.
  destruct S; try discriminate HS; cbn [gen_constraints fst] in H;
    (destruct text as [|c rest]; [reflexivity|]; cbn [check_case] in H;
     apply negb_true_iff in H; exact H).
Qed.

(* variant: "no lower-case letter" instead of "first byte upper" (no acronym hypothesis needed
   unless the first byte is an upper-case letter) *)
Theorem compatible_all_upper_nolower : forall acr S c1 c2 rest,
  can_match_style acr (c1 :: c2 :: rest) S = true ->
  existsb is_lower (c1 :: c2 :: rest) = false ->
  is_upper c2 = true ->
  (is_upper c1 = true -> has_consecutive_uppercase acr (c1 :: c2 :: rest) = true) ->
  upper_style S = true.
Proof.
  intros acr S c1 c2 rest H Hl H2 Hh. pose proof (cms_wordwise acr _ S H) as W.
  apply cms_case in H.
  cbn [existsb] in Hl. apply orb_false_iff in Hl as [Hl1 _].
  destruct S; try reflexivity; exfalso;
    try (rewrite first_piece_title_second in W by (reflexivity || exact H2); discriminate);
    cbn [gen_constraints fst check_case existsb] in H;
    try (rewrite H2 in H; rewrite orb_true_r in H; cbn [orb negb] in H; discriminate).
  - (* Camel *) rewrite Hl1 in H. discriminate.
  - (* Pascal *) apply andb_true_iff in H as [Hu H]. rewrite (Hh Hu) in H. discriminate.
Qed.

(* ------------------------------------------------------------------------------------------ *)
(* 4: the upper styles render in upper case                                                   *)
(* ------------------------------------------------------------------------------------------ *)

Lemma existsb_join_nodelim (p : N -> bool) d Xs : p d = false ->
  existsb p (join [d] Xs) = existsb (existsb p) Xs.
Proof.
  intro H. destruct Xs as [|X Xs]; [reflexivity|].
  rewrite existsb_join_cons, H, andb_false_r, orb_false_r. reflexivity.
Qed.

Lemma upper_render (p : N -> bool) S ws : upper_style S = true -> ws <> [] ->
  (forall d, is_delim d = true -> p d = false) ->
  existsb p (render S ws) = existsb (existsb p) (map upper ws).
Proof.
  intros HS Hne Hp. rewrite (render_sep S ws Hne).
  destruct S; try discriminate HS; cbn [sep_of toks_of];
    try (apply existsb_join_nodelim, Hp; reflexivity).
  apply existsb_concat.
Qed.

Theorem upper_style_renders_upper : forall acr rw S,
  upper_style S = true -> all_neutral acr rw = true ->
  existsb is_lower (to_style acr rw S) = false /\
  (rw <> [] -> existsb is_upper (to_style acr rw S) = true).
Proof.
  intros acr rw S HS Hn. rewrite (to_style_render acr rw S Hn).
  pose proof (proj1 (all_neutral_Forall acr _) Hn) as HF.
  destruct rw as [|w0 ws'].
  - split; [destruct S; reflexivity | congruence].
  - assert (Hne : w0 :: ws' <> []) by discriminate. split.
    + rewrite (upper_render is_lower S _ HS Hne delim_not_lower). apply (nl_lo_up acr), HF.
    + intros _. rewrite (upper_render is_upper S _ HS Hne delim_not_upper).
      apply (nl_up_up acr); assumption.
Qed.

(* ------------------------------------------------------------------------------------------ *)
(* 5: an all-upper-case match stays all upper case                                            *)
(* ------------------------------------------------------------------------------------------ *)

Corollary all_upper_stays_upper : forall acr text S rw c1 c2 rest,
  can_match_style acr text S = true ->
  existsb is_lower text = false ->
  text = c1 :: c2 :: rest -> is_upper c1 = true -> is_upper c2 = true ->
  acr_excused acr text = false ->
  all_neutral acr rw = true ->
  existsb is_lower (to_style acr rw S) = false /\
  (rw <> [] -> existsb is_upper (to_style acr rw S) = true).
Proof.
  intros acr text S rw c1 c2 rest H Hl E H1 H2 He Hn.
  apply upper_style_renders_upper; [|exact Hn].
  exact (compatible_all_upper acr text S c1 c2 rest H Hl E H1 H2 He).
Qed.

Corollary all_upper_stays_upper_min : forall acr S rw c1 c2 rest,
  can_match_style acr (c1 :: c2 :: rest) S = true ->
  is_upper c2 = true ->
  has_consecutive_uppercase acr (c1 :: c2 :: rest) = true ->
  all_neutral acr rw = true ->
  existsb is_lower (to_style acr rw S) = false /\
  (rw <> [] -> existsb is_upper (to_style acr rw S) = true).
Proof.
  intros acr S rw c1 c2 rest H H2 Hh Hn.
  apply upper_style_renders_upper; [|exact Hn].
  exact (compatible_all_upper_min acr S c1 c2 rest H H2 Hh).
Qed.

(* ------------------------------------------------------------------------------------------ *)
(* 6: the current table, and the need for each hypothesis (vm_compute)                        *)
(* ------------------------------------------------------------------------------------------ *)
Definition compat (acr : acr_tab) (t : string) : list style :=
  filter_compatible acr (bs t) gen_all_styles.

(* FINDING: Camel is compatible with a flat lower-case text, so the compatible styles are not
   "exactly the all-lower ones" *)
Example ex_oldname :
  compat gen_acronyms "oldname" = [Snake; Kebab; Camel; Dot; LowerFlat; LowerSentence].
Proof. vm_compute. reflexivity. Qed.

(* ... and Camel does not keep an all-lower-case match all lower case (the first letter stays
   lower-case, as compatible_first_lower says) *)
Example ex_oldname_camel :
  can_match_style gen_acronyms (bs "oldname") Camel = true /\
  all_neutral gen_acronyms [bs "new"; bs "name"] = true /\
  to_style gen_acronyms [bs "new"; bs "name"] Camel = bs "newName" /\
  existsb is_upper (bs "newName") = true.
Proof. vm_compute. repeat split; reflexivity. Qed.

Example ex_OLDNAME :
  compat gen_acronyms "OLDNAME" = [ScreamingSnake; ScreamingTrain; UpperFlat; UpperSentence] /\
  forallb upper_style (compat gen_acronyms "OLDNAME") = true /\
  filter upper_style gen_all_styles = compat gen_acronyms "OLDNAME".
Proof. vm_compute. repeat split; reflexivity. Qed.

Example ex_Old_name : compat gen_acronyms "Old name" = [Sentence].
Proof. vm_compute. reflexivity. Qed.

Example ex_Old_Name : compat gen_acronyms "Old Name" = [Title].
Proof. vm_compute. reflexivity. Qed.

(* genuinely ambiguous: Title and Sentence (and Pascal, Train) *)
Example ex_Old :
  compat gen_acronyms "Old" = [Pascal; Train; Title; Sentence] /\
  is_ambiguous gen_acronyms (bs "Old") gen_all_styles = true.
Proof. vm_compute. repeat split; reflexivity. Qed.

(* the theorems instantiated on OLDNAME -> [new; name] *)
Example ex_inst :=
  all_upper_stays_upper gen_acronyms (bs "OLDNAME") UpperFlat [bs "new"; bs "name"] _ _ _
    ltac:(vm_compute; reflexivity) ltac:(vm_compute; reflexivity) eq_refl
    ltac:(vm_compute; reflexivity) ltac:(vm_compute; reflexivity) ltac:(vm_compute; reflexivity)
    ltac:(vm_compute; reflexivity).
Check ex_inst.

(* need for "second byte is an upper-case letter": single-letter words, a capitalised word, a
   letter followed by a digit are all compatible with non-upper styles although they contain no
   lower-case letter (first and third) or start with an upper-case letter (all) *)
Example ex_need_second :
  compat gen_acronyms "A B" = [Title; UpperSentence] /\
  existsb is_lower (bs "A B") = false /\ acr_excused gen_acronyms (bs "A B") = false /\
  compat gen_acronyms "Ab" = [Pascal; Train; Title; Sentence] /\
  acr_excused gen_acronyms (bs "Ab") = false /\
  In Title (compat gen_acronyms "A1") /\ existsb is_lower (bs "A1") = false /\
  acr_excused gen_acronyms (bs "A1") = false /\
  has_consecutive_uppercase gen_acronyms (bs "A1") = true.
Proof. vm_compute. repeat split; try reflexivity. tauto. Qed.

(* need for the acronym hypothesis, both halves: the text is an entry; a prefix of the run is *)
Example ex_need_acr :
  compat [bs "API"] "API" = [Pascal; ScreamingSnake; ScreamingTrain; UpperFlat; UpperSentence] /\
  is_acronym [bs "API"] (bs "API") = true /\
  compat [bs "API"] "APIX" = [Pascal; ScreamingSnake; ScreamingTrain; UpperFlat; UpperSentence] /\
  is_acronym [bs "API"] (bs "APIX") = false /\ acr_excused [bs "API"] (bs "APIX") = true /\
  compat [] "API" = [ScreamingSnake; ScreamingTrain; UpperFlat; UpperSentence].
Proof. vm_compute. repeat split; reflexivity. Qed.

(* [acr_excused = false] is sufficient, not necessary: has_consecutive_uppercase looks at later
   runs as well *)
Example ex_excused_not_necessary :
  acr_excused gen_acronyms (bs "API!FOO") = true /\
  has_consecutive_uppercase gen_acronyms (bs "API!FOO") = true /\
  compat gen_acronyms "API!FOO" = [ScreamingSnake; ScreamingTrain; UpperFlat; UpperSentence].
Proof. vm_compute. repeat split; reflexivity. Qed.

(* of "no lower-case letter" and "first byte upper" one is needed (either one is enough):
   "aB" satisfies every other hypothesis of compatible_all_upper and is compatible with Camel *)
Example ex_need_first_or_nolower :
  compat gen_acronyms "aB" = [Camel] /\ acr_excused gen_acronyms (bs "aB") = false.
Proof. vm_compute. repeat split; reflexivity. Qed.

(* without "no lower-case letter" the other hypotheses already exclude every style *)
Example ex_ABc : compat gen_acronyms "ABc" = [].
Proof. vm_compute. reflexivity. Qed.

Print Assumptions compatible_first_upper.
Print Assumptions compatible_first_lower.
Print Assumptions compatible_all_upper_min.
Print Assumptions compatible_all_upper.
Print Assumptions compatible_all_upper_prop.
Print Assumptions compatible_all_upper_nolower.
Print Assumptions upper_style_needs_no_lower.
Print Assumptions pascal_exact.
Print Assumptions upper_style_renders_upper.
Print Assumptions all_upper_stays_upper.
Print Assumptions all_upper_stays_upper_min.
Print Assumptions ex_inst.
