(* Proofs/WSweep7.v — residue class 7 (mod 16) of the C20 sweep over every builder's option space *)
From RN Require Import Base.Bytes Model.ClapDef Model.Clap Model.Wrappers Gen.GenCli Gen.GenWrappers.
Lemma sweep7 : forallb (builder_chunk_ok gen_globals gen_cli 16 7) gen_builders = true.
Proof. vm_compute. reflexivity. Qed.
