(* Proofs/JsonTextP.v — the text layer of serde_json (Model/JsonText.v) reads back what it prints:
     parse (print_pretty j) = Some j   and   parse (print_compact j) = Some j      for every wf_json j,
   and, composed with Proofs/SerdeP.v (plan_roundtrip), the plan FILE round trip
     load_plan (save_plan p) = Some p                                            for every plan_u64 p.
   No fuel hypothesis: the only counters in [parse] are the length of the text (element loops) and
   serde_json's own recursion limit. *)
From Coq Require Import Decimal DecimalN DecimalPos Strings.String.
From RN Require Import Base.Bytes Base.Str Model.SerdeAttr Gen.GenSerde Model.Serde Model.JsonText Proofs.SerdeP.
Open Scope N_scope.

(* ------------------------------------------------------------------ induction on json trees *)
Section JsonInd.
  Variable P : json -> Prop.
  Hypothesis Hnull : P JNull.
  Hypothesis Hbool : forall b, P (JBool b).
  Hypothesis Hnum : forall n, P (JNum n).
  Hypothesis Hstr : forall s, P (JStr s).
  Hypothesis Harr : forall l, Forall P l -> P (JArr l).
  Hypothesis Hobj : forall l, Forall (fun kv => P (snd kv)) l -> P (JObj l).
  Fixpoint json_ind2 (j : json) : P j :=
    match j with
    | JNull => Hnull
    | JBool b => Hbool b
    | JNum n => Hnum n
    | JStr s => Hstr s
    | JArr l =>
      Harr l ((fix go (l : list json) : Forall P l :=
                 match l with
                 | [] => Forall_nil _
                 | e :: l' => Forall_cons e (json_ind2 e) (go l')
                 end) l)
    | JObj l =>
      Hobj l ((fix go (l : list (bytes * json)) : Forall (fun kv => P (snd kv)) l :=
                 match l with
                 | [] => Forall_nil _
                 | (k, v) :: l' => Forall_cons (k, v) (json_ind2 v : P (snd (k, v))) (go l')
                 end) l)
    end.
End JsonInd.

(* ------------------------------------------------------------------ whitespace *)
Definition allws (w : bytes) : Prop := forallb is_ws w = true.

Lemma skip_ws_app w s : allws w -> skip_ws (w ++ s) = skip_ws s.
Proof.
  unfold allws. induction w as [|c w IH]; cbn [forallb app skip_ws]; intro H; [reflexivity|].
  apply andb_true_iff in H as [H1 H2]. rewrite H1. apply IH, H2.
Qed.

Lemma skip_ws_nows c s : is_ws c = false -> skip_ws (c :: s) = c :: s.
Proof. intro H. cbn [skip_ws]. rewrite H. reflexivity. Qed.

Lemma allws_app a b : allws a -> allws b -> allws (a ++ b).
Proof. unfold allws. intros Ha Hb. rewrite forallb_app, Ha, Hb. reflexivity. Qed.

Lemma digit_range c : is_digit c = true -> 48 <= c <= 57.
Proof.
  unfold is_digit. intro H. apply andb_true_iff in H as [H1 H2].
  apply N.leb_le in H1. apply N.leb_le in H2. split; assumption.
Qed.

Lemma digit_not_ws c : is_digit c = true -> is_ws c = false.
Proof.
  intro H. apply digit_range in H. unfold is_ws.
  assert (E : forall k, c <> k -> (c =? k) = false) by (intros k Hk; apply N.eqb_neq, Hk).
  rewrite !E; [reflexivity| | | |]; clear E; lia.
Qed.

Lemma ws_not_digit c : is_ws c = true -> is_digit c = false.
Proof.
  intro H. destruct (is_digit c) eqn:E; [|reflexivity]. apply digit_not_ws in E. congruence.
Qed.

(* what may follow a number: anything but a digit *)
Definition nodigit (rest : bytes) : Prop :=
  match rest with [] => True | c :: _ => is_digit c = false end.

Lemma nodigit_ws_app w c r : allws w -> is_digit c = false -> nodigit (w ++ c :: r).
Proof.
  unfold allws. destruct w as [|x w]; cbn [app nodigit forallb]; intros H Hc; [exact Hc|].
  apply andb_true_iff in H as [H _]. apply ws_not_digit, H.
Qed.

(* ------------------------------------------------------------------ strings *)
Lemma parse_str_esc c t : parse_str (esc_byte c ++ t) = push c (parse_str t).
Proof.
  destruct (c <? 32) eqn:E32.
  - apply N.ltb_lt in E32. destruct c as [|p]; [reflexivity|].
    do 5 (destruct p as [p|p|]; try reflexivity); exfalso; clear - E32; lia.
  - destruct (c =? 34) eqn:E34; [apply N.eqb_eq in E34; subst c; reflexivity|].
    destruct (c =? 92) eqn:E92; [apply N.eqb_eq in E92; subst c; reflexivity|].
    unfold esc_byte. rewrite E34, E92, E32. cbn [app parse_str]. rewrite E34, E92, E32. reflexivity.
Qed.

Lemma parse_str_print s rest : parse_str (flat_map esc_byte s ++ 34 :: rest) = Some (s, rest).
Proof.
  induction s as [|c s IH]; [reflexivity|].
  cbn [flat_map]. rewrite <- app_assoc, parse_str_esc, IH. reflexivity.
Qed.

(* ------------------------------------------------------------------ numbers *)
Lemma read_digits_print u rest : nodigit rest -> read_digits (uint_bytes u ++ rest) = (u, rest).
Proof.
  intro H. induction u as [|u IH|u IH|u IH|u IH|u IH|u IH|u IH|u IH|u IH|u IH];
    cbn [uint_bytes app read_digits]; try (rewrite IH; reflexivity).
  destruct rest as [|c r]; [reflexivity|]. cbn [nodigit] in H. cbn [read_digits]. rewrite H. reflexivity.
Qed.

Lemma to_uint_normal n : unorm (N.to_uint n) = N.to_uint n.
Proof.
  rewrite <- (DecimalN.Unsigned.of_to n) at 2. symmetry. apply DecimalN.Unsigned.to_of.
Qed.

Lemma parse_num_print n rest :
  (n <=? u64_max) = true -> nodigit rest -> parse_num (print_num n ++ rest) = Some (n, rest).
Proof.
  intros Hn Hr. unfold parse_num, print_num. rewrite read_digits_print by assumption.
  rewrite to_uint_normal, (internal_uint_dec_lb _ _ eq_refl), DecimalN.Unsigned.of_to, Hn. reflexivity.
Qed.

Lemma print_num_head n : exists c t, print_num n = c :: t /\ is_digit c = true.
Proof.
  unfold print_num. destruct (N.to_uint n) eqn:E; cbn [uint_bytes];
    try (eexists; eexists; split; reflexivity).
  exfalso. destruct n as [|p]; [discriminate|]. exact (DecimalPos.Unsigned.to_uint_nonnil p E).
Qed.

(* ------------------------------------------------------------------ one value *)
Lemma parse_value_eq d s :
  parse_value d s = parse_value_body (match d with O => None | S d' => Some (parse_value d') end) s.
Proof. destruct d; reflexivity. Qed.

Lemma pvb_ws r w s : allws w -> parse_value_body r (w ++ s) = parse_value_body r s.
Proof. intro H. unfold parse_value_body. rewrite skip_ws_app by assumption. reflexivity. Qed.

Lemma parse_value_ws d w s : allws w -> parse_value d (w ++ s) = parse_value d s.
Proof. intro H. rewrite !parse_value_eq. apply pvb_ws, H. Qed.

Lemma pvb_num r c s :
  is_digit c = true ->
  parse_value_body r (c :: s) = match parse_num (c :: s) with Some (n, t) => Some (JNum n, t) | None => None end.
Proof.
  intro H. unfold parse_value_body. rewrite skip_ws_nows by (apply digit_not_ws, H). rewrite H. reflexivity.
Qed.

Lemma pvb_str r s :
  parse_value_body r (34 :: s) = match parse_str s with Some (t, u) => Some (JStr t, u) | None => None end.
Proof. reflexivity. Qed.

Lemma pvb_arr P s : parse_value_body (Some P) (91 :: s) = parse_arr P s.
Proof. reflexivity. Qed.

Lemma pvb_obj P s : parse_value_body (Some P) (123 :: s) = parse_obj P s.
Proof. reflexivity. Qed.

Lemma join_cons2 (sep x y : bytes) l : join sep (x :: y :: l) = x ++ sep ++ join sep (y :: l).
Proof. reflexivity. Qed.

Lemma join_length (sep : bytes) (items : list bytes) :
  (forall x, In x items -> (1 <= length x)%nat) -> (length items <= length (join sep items))%nat.
Proof.
  induction items as [|x l IH]; intro H; [apply Nat.le_refl|].
  destruct l as [|y l].
  - cbn [join length]. apply H. left. reflexivity.
  - rewrite join_cons2, !app_length. cbn [length].
    assert (H1 : (1 <= length x)%nat) by (apply H; left; reflexivity).
    assert (H2 : (length (y :: l) <= length (join sep (y :: l)))%nat)
      by (apply IH; intros z Hz; apply H; right; exact Hz).
    cbn [length] in H2. clear - H1 H2. lia.
Qed.

(* the element loop, for any element parser that reads back each printed element *)
Lemma parse_elems_print (P : bytes -> option (json * bytes)) (item : json -> bytes) (tail rest : bytes) :
  allws tail ->
  forall (l : list json) (n : nat),
  l <> [] ->
  (forall e, In e l -> forall r, nodigit r -> P (item e ++ r) = Some (e, r)) ->
  (length l <= n)%nat ->
  parse_elems P n (join [44] (map item l) ++ tail ++ 93 :: rest) = Some (l, rest).
Proof.
  intros Ht l. induction l as [|e l IH]; intros n Hne HP Hn; [contradiction|].
  destruct n as [|n]; [cbn [length] in Hn; lia|].
  destruct l as [|e2 l2].
  - cbn [map join parse_elems].
    rewrite HP; [|left; reflexivity|apply nodigit_ws_app; [assumption|reflexivity]].
    rewrite skip_ws_app by assumption. reflexivity.
  - cbn [map]. rewrite join_cons2. rewrite <- !app_assoc. cbn [app parse_elems].
    rewrite HP; [|left; reflexivity|reflexivity].
    rewrite skip_ws_nows by reflexivity.
    change (item e2 :: map item l2) with (map item (e2 :: l2)).
    rewrite IH; [reflexivity|discriminate| |cbn [length] in *; lia].
    intros x Hx. apply HP. right. exact Hx.
Qed.

(* the member loop *)
Lemma parse_members_print (P : bytes -> option (json * bytes)) (pr : json -> bytes) (nlw colw tail rest : bytes) :
  allws nlw -> allws colw -> allws tail ->
  forall (l : list (bytes * json)) (n : nat),
  l <> [] ->
  (forall kv, In kv l -> forall r, nodigit r -> P (colw ++ pr (snd kv) ++ r) = Some (snd kv, r)) ->
  (length l <= n)%nat ->
  parse_members P n
    (join [44] (map (fun kv => nlw ++ print_string (fst kv) ++ (58 :: colw) ++ pr (snd kv)) l) ++ tail ++ 125 :: rest)
  = Some (l, rest).
Proof.
  intros Hnl Hcol Ht l. induction l as [|[k v] l IH]; intros n Hne HP Hn; [contradiction|].
  destruct n as [|n]; [cbn [length] in Hn; lia|].
  set (item := fun kv : bytes * json => nlw ++ print_string (fst kv) ++ (58 :: colw) ++ pr (snd kv)) in *.
  destruct l as [|kv2 l2].
  - cbn [map join]. unfold item at 1. cbn [fst snd]. unfold print_string.
    rewrite <- !app_assoc. cbn [app]. rewrite <- !app_assoc. cbn [app parse_members].
    rewrite skip_ws_app by assumption. rewrite skip_ws_nows by reflexivity.
    change (34 =? 34) with true. cbn iota.
    rewrite parse_str_print. rewrite skip_ws_nows by reflexivity.
    change (58 =? 58) with true. cbn iota.
    rewrite (HP (k, v)); [|left; reflexivity|apply nodigit_ws_app; [assumption|reflexivity]].
    rewrite skip_ws_app by assumption. reflexivity.
  - cbn [map]. rewrite join_cons2. unfold item at 1. cbn [fst snd]. unfold print_string.
    rewrite <- !app_assoc. cbn [app]. rewrite <- !app_assoc. cbn [app parse_members].
    rewrite skip_ws_app by assumption. rewrite skip_ws_nows by reflexivity.
    change (34 =? 34) with true. cbn iota.
    rewrite parse_str_print. rewrite skip_ws_nows by reflexivity.
    change (58 =? 58) with true. cbn iota.
    rewrite (HP (k, v)); [|left; reflexivity|reflexivity].
    rewrite skip_ws_nows by reflexivity.
    change (44 =? 44) with true. cbn iota.
    change (item kv2 :: map item l2) with (map item (kv2 :: l2)).
    rewrite IH; [reflexivity|discriminate| |cbn [length] in *; lia].
    intros x Hx. apply HP. right. exact Hx.
Qed.

(* ------------------------------------------------------------------ the two formatters *)
(* all a formatter may add is whitespace: before elements, keys and closing brackets, and after the colon *)
Definition fmt_ok (F : fmt) : Prop :=
  (forall i, allws (f_nl F i)) /\ exists w, f_colon F = 58 :: w /\ allws w.

Lemma pretty_fmt_ok : fmt_ok pretty_fmt.
Proof.
  split.
  - intro i. unfold allws, pretty_fmt, f_nl. cbn [forallb]. change (is_ws 10) with true. cbn [andb].
    induction (2 * i)%nat as [|k IH]; [reflexivity|]. cbn [repeat forallb]. rewrite IH. reflexivity.
  - exists [32]. split; reflexivity.
Qed.

Lemma compact_fmt_ok : fmt_ok compact_fmt.
Proof. split; [intro i; reflexivity|]. exists []. split; reflexivity. Qed.

(* a printed value starts with a byte that is neither whitespace nor a closing bracket *)
Definition vhead (s : bytes) : Prop :=
  match s with c :: _ => is_ws c = false /\ (c =? 93) = false | [] => False end.

Lemma print_vhead F ind j : vhead (print_fmt F ind j).
Proof.
  destruct j as [|b|n|s|l|l]; cbn [print_fmt].
  - split; reflexivity.
  - destruct b; split; reflexivity.
  - destruct (print_num_head n) as (c & t & -> & Hd). cbn [vhead]. split; [apply digit_not_ws, Hd|].
    apply digit_range in Hd. apply N.eqb_neq. clear - Hd. lia.
  - split; reflexivity.
  - destruct l; split; reflexivity.
  - destruct l; split; reflexivity.
Qed.

Lemma vhead_length s : vhead s -> (1 <= length s)%nat.
Proof. destruct s; cbn [vhead length]; [contradiction|intros _; lia]. Qed.

Lemma jdepth_elems l d :
  (fold_right (fun e m => Nat.max (jdepth e) m) O l <= d)%nat -> forall e, In e l -> (jdepth e <= d)%nat.
Proof.
  induction l as [|x l IH]; cbn [fold_right In]; intros H e He; [contradiction|].
  destruct He as [->|He]; [clear - H; lia|].
  apply IH; [clear - H; lia|exact He].
Qed.

Lemma jdepth_members (l : list (bytes * json)) d :
  (fold_right (fun kv m => Nat.max (let '(_, v) := kv in jdepth v) m) O l <= d)%nat ->
  forall kv, In kv l -> (jdepth (snd kv) <= d)%nat.
Proof.
  induction l as [|[k x] l IH]; cbn [fold_right In]; intros H e He; [contradiction|].
  destruct He as [<-|He]; [cbn [snd]; clear - H; lia|].
  apply IH; [clear - H; lia|exact He].
Qed.

Section Format.
  Variable F : fmt.
  Hypothesis HF : fmt_ok F.

  Lemma nl_ws i : allws (f_nl F i).
  Proof. apply HF. Qed.

  Theorem parse_value_print :
    forall j d ind rest,
      nums_u64 j = true -> (jdepth j <= d)%nat -> nodigit rest ->
      parse_value d (print_fmt F ind j ++ rest) = Some (j, rest).
  Proof.
    induction j as [|b|n|s|l IH|l IH] using json_ind2; intros d ind rest Hn Hd Hr; rewrite parse_value_eq.
    - reflexivity.
    - destruct b; reflexivity.
    - cbn [print_fmt]. cbn [nums_u64] in Hn.
      destruct (print_num_head n) as (c & t & E & Hc).
      pose proof (parse_num_print n rest Hn Hr) as Hp. rewrite E in *. cbn [app] in *.
      rewrite pvb_num by assumption. rewrite Hp. reflexivity.
    - cbn [print_fmt]. unfold print_string. rewrite <- app_comm_cons, <- app_assoc. cbn [app].
      rewrite pvb_str, parse_str_print. reflexivity.
    - cbn [jdepth] in Hd. destruct d as [|d]; [clear - Hd; lia|]. apply le_S_n in Hd.
      cbn [nums_u64] in Hn.
      destruct l as [|e0 l0]; [reflexivity|].
      remember (e0 :: l0) as l eqn:El.
      assert (Hne : l <> []) by (subst l; discriminate).
      replace (print_fmt F ind (JArr l))
        with (91 :: join [44] (map (fun e => f_nl F (S ind) ++ print_fmt F (S ind) e) l) ++ f_nl F ind ++ [93])
        by (subst l; reflexivity).
      rewrite <- app_comm_cons, <- !app_assoc. cbn [app]. rewrite pvb_arr.
      set (item := fun e => f_nl F (S ind) ++ print_fmt F (S ind) e).
      set (text := join [44] (map item l) ++ f_nl F ind ++ 93 :: rest).
      assert (Hel : parse_elems (parse_value d) (length text) text = Some (l, rest)).
      { unfold text. apply parse_elems_print; [apply nl_ws|exact Hne| |].
        - intros e He r Hr'. unfold item. rewrite <- app_assoc, parse_value_ws by apply nl_ws.
          rewrite Forall_forall in IH. apply IH; [exact He| | |exact Hr'].
          + rewrite forallb_forall in Hn. apply Hn, He.
          + apply (jdepth_elems l d Hd), He.
        - rewrite app_length. etransitivity; [|apply Nat.le_add_r].
          etransitivity; [|apply join_length].
          + rewrite map_length. apply Nat.le_refl.
          + intros x Hx. apply in_map_iff in Hx as (e & <- & _). unfold item. rewrite app_length.
            pose proof (vhead_length _ (print_vhead F (S ind) e)) as Hl. clear - Hl. lia. }
      unfold parse_arr. rewrite Hel.
      (* the first byte after '[' and the whitespace is the head of the first element, not ']' *)
      assert (Hhd : exists c t, skip_ws text = c :: t /\ (c =? 93) = false).
      { unfold text. subst l. cbn [map]. pose proof (print_vhead F (S ind) e0) as Hv.
        destruct (print_fmt F (S ind) e0) as [|c t] eqn:Ee; [contradiction|]. destruct Hv as [Hw H93].
        destruct l0 as [|e1 l1].
        - cbn [map join]. unfold item at 1. rewrite Ee, <- !app_assoc, skip_ws_app by apply nl_ws.
          cbn [app]. rewrite skip_ws_nows by assumption. eauto.
        - cbn [map]. rewrite join_cons2. unfold item at 1. rewrite Ee, <- !app_assoc, skip_ws_app by apply nl_ws.
          cbn [app]. rewrite skip_ws_nows by assumption. eauto. }
      destruct Hhd as (c & t & -> & ->). reflexivity.
    - cbn [jdepth] in Hd. destruct d as [|d]; [clear - Hd; lia|]. apply le_S_n in Hd.
      cbn [nums_u64] in Hn.
      destruct l as [|kv0 l0]; [reflexivity|].
      remember (kv0 :: l0) as l eqn:El.
      assert (Hne : l <> []) by (subst l; discriminate).
      destruct HF as [_ (colw & Ecol & Hcolw)].
      set (item := fun kv : bytes * json =>
                     f_nl F (S ind) ++ print_string (fst kv) ++ (58 :: colw) ++ print_fmt F (S ind) (snd kv)).
      replace (print_fmt F ind (JObj l)) with (123 :: join [44] (map item l) ++ f_nl F ind ++ [125]).
      2:{ subst l. cbn [print_fmt]. f_equal. f_equal. f_equal. apply map_ext. intros [k v].
          unfold item. cbn [fst snd]. rewrite Ecol. reflexivity. }
      rewrite <- app_comm_cons, <- !app_assoc. cbn [app]. rewrite pvb_obj.
      set (text := join [44] (map item l) ++ f_nl F ind ++ 125 :: rest).
      assert (Hel : parse_members (parse_value d) (length text) text = Some (l, rest)).
      { unfold text, item. apply parse_members_print; [apply nl_ws|exact Hcolw|apply nl_ws|exact Hne| |].
        - intros kv Hkv r Hr'. rewrite parse_value_ws by exact Hcolw.
          rewrite Forall_forall in IH. apply IH; [exact Hkv| | |exact Hr'].
          + rewrite forallb_forall in Hn. specialize (Hn kv Hkv). destruct kv; exact Hn.
          + apply (jdepth_members l d Hd), Hkv.
        - rewrite app_length. etransitivity; [|apply Nat.le_add_r].
          etransitivity; [|apply join_length].
          + rewrite map_length. apply Nat.le_refl.
          + intros x Hx. apply in_map_iff in Hx as (kv & <- & _). unfold print_string.
            rewrite !app_length. cbn [length]. lia. }
      unfold parse_obj. rewrite Hel.
      assert (Hhd : exists t, skip_ws text = 34 :: t).
      { unfold text. subst l. cbn [map]. destruct l0 as [|kv1 l1].
        - cbn [map join]. unfold item at 1, print_string. rewrite <- !app_assoc, skip_ws_app by apply nl_ws.
          cbn [app]. rewrite skip_ws_nows by reflexivity. eauto.
        - cbn [map]. rewrite join_cons2. unfold item at 1, print_string. rewrite <- !app_assoc, skip_ws_app by apply nl_ws.
          cbn [app]. rewrite skip_ws_nows by reflexivity. eauto. }
      destruct Hhd as (t & ->). reflexivity.
  Qed.

  Theorem parse_print_fmt : forall j, wf_json j -> parse (print_fmt F 0 j) = Some j.
  Proof.
    intros j [Hn Hd]. unfold parse. rewrite <- (app_nil_r (print_fmt F 0 j)).
    rewrite parse_value_print; [reflexivity|exact Hn|exact Hd|exact I].
  Qed.
End Format.

(* ================================================================== MAIN THEOREMS: the text round trip
   [wf_json j] = every number of j is at most u64::MAX, and containers nest at most 127 deep.  Both conjuncts are
   forced by serde_json itself (see the two examples after the theorems); strings and keys are arbitrary byte
   strings (every byte value, bytes above 255 included, even though no text has them). *)
Theorem parse_print_pretty : forall j, wf_json j -> parse (print_pretty j) = Some j.
Proof. exact (parse_print_fmt pretty_fmt pretty_fmt_ok). Qed.

Theorem parse_print_compact : forall j, wf_json j -> parse (print_compact j) = Some j.
Proof. exact (parse_print_fmt compact_fmt compact_fmt_ok). Qed.

(* non-vacuity: a nested value with empty containers, quotes, backslashes, control bytes, DEL, UTF-8, u64::MAX *)
Definition sample_json : json :=
  JObj [(bs "a", JNull);
        ([], JBool true);
        (bs "k""\" ++ [0; 10; 31], JArr [JNum 0; JNum 18446744073709551615;
                                          JObj [(bs "x", JArr []); (bs "y", JObj [])];
                                          JStr (bs "q""\/" ++ [8; 9; 10; 11; 12; 13; 1; 31; 127; 195; 169; 240; 159; 152; 128]);
                                          JArr [JArr [JBool false]]])].

Example sample_json_wf : wf_json sample_json.
Proof. split; [vm_compute; reflexivity|apply Nat.leb_le; vm_compute; reflexivity]. Qed.

Example sample_json_pretty_text :
  print_pretty (JObj [(bs "a", JArr [JNum 1; JStr [34; 10; 1]]); (bs "b", JObj [])]) =
  bs "{" ++ [10] ++ bs "  ""a"": [" ++ [10] ++ bs "    1," ++ [10] ++ bs "    ""\""\n\u0001""" ++ [10] ++ bs "  ]," ++ [10]
     ++ bs "  ""b"": {}" ++ [10] ++ bs "}".
Proof. vm_compute. reflexivity. Qed.

Example sample_json_roundtrips :
  parse (print_pretty sample_json) = Some sample_json /\ parse (print_compact sample_json) = Some sample_json.
Proof. split; vm_compute; reflexivity. Qed.

(* the two conjuncts of wf_json are needed, and serde_json behaves the same way on these texts
   (harness op json_parse: 18446744073709551616 comes back as the float 1.8446744073709552e19; 128 nested
   brackets give "recursion limit exceeded") *)
Fixpoint nest (n : nat) (j : json) : json := match n with O => j | S n' => JArr [nest n' j] end.

Example wf_json_number_needed : parse (print_pretty (JNum 18446744073709551616)) = None.
Proof. vm_compute. reflexivity. Qed.

Example wf_json_depth_needed :
  parse (print_compact (nest 127 JNull)) = Some (nest 127 JNull) /\ parse (print_compact (nest 128 JNull)) = None.
Proof. split; vm_compute; reflexivity. Qed.

(* what parse rejects although RFC 8259 allows it (None, never another value), and what serde_json rejects too *)
Example parse_rejects :
  map (fun t => parse (bs t))
      ["-1"; "-0"; "1.0"; "1e2"; "01"; """\u00e9"""; """\ud83d\ude00"""; "[1,]"; "1 2"; ""; "tru"; "{""a"" 1}"]%string
  = [None; None; None; None; None; None; None; None; None; None; None; None].
Proof. vm_compute. reflexivity. Qed.

Example parse_accepts :
  parse (bs " { ""a\/A\u000a"" : [ 1 , true ] , ""a\/A\u000a"" : null } ") =
  Some (JObj [(bs "a/A" ++ [10], JArr [JNum 1; JBool true]); (bs "a/A" ++ [10], JNull)]).
Proof. vm_compute. reflexivity. Qed.

(* ================================================================== the plan file *)
(* W k j: the numbers of j fit a u64 and j nests at most k deep *)
Definition W (k : nat) (j : json) : Prop := nums_u64 j = true /\ (jdepth j <= k)%nat.
Definition obj_all (Q : json -> Prop) (l : list (bytes * json)) : Prop := Forall (fun kv => Q (snd kv)) l.

Lemma W_mono k k' j : (k <= k')%nat -> W k j -> W k' j.
Proof. intros H [H1 H2]. split; [exact H1|]. clear - H H2. lia. Qed.

Lemma W_null k : W k JNull.               Proof. split; [reflexivity|apply Nat.le_0_l]. Qed.
Lemma W_str k s : W k (JStr s).           Proof. split; [reflexivity|apply Nat.le_0_l]. Qed.
Lemma W_num k n : n <= u64_max -> W k (JNum n).
Proof. intro H. split; [apply N.leb_le, H|apply Nat.le_0_l]. Qed.
Lemma W_optstr k o : W k (enc_opt JStr o). Proof. destruct o; [apply W_str|apply W_null]. Qed.

Lemma W_arr k l : Forall (W k) l -> W (S k) (JArr l).
Proof.
  intro H. split.
  - cbn [nums_u64]. apply forallb_forall. rewrite Forall_forall in H. intros x Hx. apply H, Hx.
  - cbn [jdepth]. apply le_n_S. induction H as [|x l [_ Hx] _ IH]; cbn [fold_right]; [apply Nat.le_0_l|].
    clear - Hx IH. lia.
Qed.

Lemma W_obj k l : obj_all (W k) l -> W (S k) (JObj l).
Proof.
  intro H. split.
  - cbn [nums_u64]. apply forallb_forall. unfold obj_all in H. rewrite Forall_forall in H.
    intros [key x] Hx. apply (H _ Hx).
  - cbn [jdepth]. apply le_n_S. induction H as [|[key x] l [_ Hx] _ IH]; cbn [fold_right]; [apply Nat.le_0_l|].
    cbn [snd] in Hx. clear - Hx IH. lia.
Qed.

Lemma W_strs k l : W (S k) (JArr (map JStr l)).
Proof. apply W_arr, Forall_forall. intros x Hx. apply in_map_iff in Hx as (s & <- & _). apply W_str. Qed.

Lemma obj_all_app Q a b : obj_all Q a -> obj_all Q b -> obj_all Q (a ++ b).
Proof. intros Ha Hb. apply Forall_app. split; assumption. Qed.

Lemma obj_all_emit (Q : json -> Prop) skip a j : Q j -> obj_all Q (emit skip a j).
Proof. intro H. unfold emit. destruct skip; [apply Forall_nil|]. apply Forall_cons; [exact H|apply Forall_nil]. Qed.

Ltac fields_tac :=
  unfold emit_str, emit_num, emit_optstr, emit_json;
  repeat (apply obj_all_app; [apply obj_all_emit|]); try apply obj_all_emit.

(* the integer fields of a plan are u64 / usize / u32 in scanner.rs (MatchHunk, Stats); a Rust plan cannot hold more *)
Definition hunk_u64 (h : hunk) : Prop :=
  h_line h <= u64_max /\ h_byte_offset h <= u64_max /\ h_char_offset h <= u64_max /\
  h_start h <= u64_max /\ h_end h <= u64_max.
Definition stats_u64 (s : stats) : Prop :=
  st_files_scanned s <= u64_max /\ st_total_matches s <= u64_max /\ st_files_with_matches s <= u64_max /\
  Forall (fun kv => snd kv <= u64_max) (st_by_variant s).
Definition plan_u64 (p : plan) : Prop := Forall hunk_u64 (p_matches p) /\ stats_u64 (p_stats p).

Lemma hunk_W T h : hunk_u64 h -> W 1 (encode_hunk T h).
Proof.
  intros (H1 & H2 & H3 & H4 & H5). apply W_obj. unfold hunk_obj.
  fields_tac; first [apply W_str | apply W_optstr | apply W_num; assumption].
Qed.

Lemma rename_W T r : W 1 (encode_rename T r).
Proof.
  apply W_obj. unfold rename_obj. fields_tac; first [apply W_str | apply W_optstr].
Qed.

Lemma stats_W T s : stats_u64 s -> W 2 (encode_stats T s).
Proof.
  intros (H1 & H2 & H3 & H4). apply W_obj. unfold stats_obj.
  fields_tac; try (apply W_num; assumption).
  apply W_obj. unfold obj_all. rewrite Forall_forall in *. intros kv Hkv.
  apply in_map_iff in Hkv as ([k n] & <- & Hin). cbn [snd fst]. apply W_num. apply (H4 _ Hin).
Qed.

Lemma plan_W TP TH TR TS p : plan_u64 p -> W 3 (encode_plan TP TH TR TS p).
Proof.
  intros [Hm Hs]. apply W_obj. unfold plan_obj. fields_tac; try apply W_str; try apply W_strs.
  - apply W_arr, Forall_forall. intros x Hx. apply in_map_iff in Hx as (h & <- & Hh).
    apply hunk_W. rewrite Forall_forall in Hm. apply Hm, Hh.
  - apply W_arr, Forall_forall. intros x Hx. apply in_map_iff in Hx as (r & <- & _). apply rename_W.
  - apply stats_W, Hs.
  - destruct (p_created_dirs p); [apply W_strs|apply W_null].
Qed.

Lemma plan_wf_json p : plan_u64 p -> wf_json (enc_plan p).
Proof.
  intro H. destruct (plan_W gen_plan gen_matchhunk gen_rename gen_stats p H) as [H1 H2].
  split; [exact H1|]. unfold max_depth. clear - H2. unfold enc_plan. lia.
Qed.

(* C17 on the FILE: what apply writes (to_string_pretty of the Plan) is read back (from_str::<Plan>) as the same
   plan.  Composes parse_print_pretty with Proofs/SerdeP.v plan_roundtrip (= Props/C17.v C17_plan_roundtrip). *)
Theorem C17_plan_file_roundtrip : forall p : plan, plan_u64 p -> load_plan (save_plan p) = Some p.
Proof.
  intros p H. unfold load_plan, save_plan. rewrite parse_print_pretty by (apply plan_wf_json, H).
  apply plan_roundtrip.
Qed.

Theorem C17_plan_file_apply_same :
  forall (A : Type) (run : plan -> A) (p p' : plan),
    plan_u64 p -> load_plan (save_plan p) = Some p' -> run p' = run p.
Proof. intros A run p p' Hp H. rewrite C17_plan_file_roundtrip in H by exact Hp. inversion H. reflexivity. Qed.

(* non-vacuity: a plan with a hunk (empty replacement, control bytes, quotes, UTF-8, u64::MAX), a rename, a
   matches_by_variant entry and created directories satisfies plan_u64 and goes through the file *)
Definition sample_plan : plan :=
  {| p_id := bs "id""\"; p_created_at := bs "1700000000"; p_search := bs "old_name"; p_replace := [];
     p_styles := [bs "Snake"; bs "Camel"]; p_includes := []; p_excludes := [bs "*.lock"];
     p_matches := [ {| h_file := bs "src/caf" ++ [195; 169; 46; 114; 115]; h_line := 18446744073709551615;
                       h_byte_offset := 4294967295; h_char_offset := 0; h_variant := bs "old_name";
                       h_content := bs "old_name"; h_replace := []; h_start := 0; h_end := 8;
                       h_line_before := Some ([9] ++ bs "let old_name = ""x\y"";" ++ [13; 10]);
                       h_line_after := Some []; h_coercion := None; h_original_file := None;
                       h_renamed_file := Some [1; 31; 127]; h_patch_hash := None |} ];
     p_paths := [ {| r_path := bs "old_name.rs"; r_new_path := []; r_kind := KFile; r_coercion := None |} ];
     p_stats := {| st_files_scanned := 3; st_total_matches := 1; st_by_variant := [(bs "old_name", 1)];
                   st_files_with_matches := 1 |};
     p_version := bs "1.0.0"; p_created_dirs := Some [bs "a/b"] |}.

Example sample_plan_u64 : plan_u64 sample_plan.
Proof.
  split; [apply Forall_cons; [|apply Forall_nil]|]; repeat split; try (apply N.leb_le; vm_compute; reflexivity).
  apply Forall_cons; [apply N.leb_le; vm_compute; reflexivity|apply Forall_nil].
Qed.

Example sample_plan_file_roundtrips : load_plan (save_plan sample_plan) = Some sample_plan.
Proof. vm_compute. reflexivity. Qed.

(* plan_u64 is needed in the model only because its integer fields are unbounded N: the value below is not a
   Rust plan (line: u64) *)
Example plan_u64_needed :
  exists p, load_plan (save_plan p) = None.
Proof.
  exists {| p_id := []; p_created_at := []; p_search := []; p_replace := []; p_styles := []; p_includes := [];
            p_excludes := []; p_matches := []; p_paths := [];
            p_stats := {| st_files_scanned := 18446744073709551616; st_total_matches := 0; st_by_variant := [];
                          st_files_with_matches := 0 |};
            p_version := []; p_created_dirs := None |}.
  vm_compute. reflexivity.
Qed.

Print Assumptions parse_print_pretty.
Print Assumptions parse_print_compact.
Print Assumptions C17_plan_file_roundtrip.
Print Assumptions C17_plan_file_apply_same.
