(* Proofs/EditsP.v — the splice algebra: the reverse-order loop of apply.rs computes the
   left-to-right reference splice on every well-formed edit list; stale edits are rejected. *)
From RN Require Import Base.Bytes Model.Edits.
From Coq Require Import Permutation.

Lemma apply_rev_aux_app orig l1 l2 acc :
  apply_rev_aux orig (l1 ++ l2) acc =
  match apply_rev_aux orig l1 acc with
  | Ok acc' => apply_rev_aux orig l2 acc'
  | Mismatch => Mismatch
  | Panic => Panic
  end.
Proof.
  revert acc; induction l1 as [|e l1 IH]; intros acc; cbn [app apply_rev_aux]; [reflexivity|].
  destruct (str_slice orig (e_start e) (e_stop e)) as [actual|]; [|reflexivity].
  destruct (beq actual (e_old e)); [|reflexivity].
  destruct (replace_range acc (e_start e) (e_stop e) (e_new e)); [apply IH|reflexivity].
Qed.

Lemma str_slice_some s a b x :
  str_slice s a b = Some x ->
  (a <= b)%nat /\ (b <= length s)%nat /\ char_boundary s a = true /\ char_boundary s b = true /\
  x = firstn (b - a) (skipn a s).
Proof.
  unfold str_slice. intro H.
  destruct (Nat.leb a b) eqn:E1; cbn in H; [|discriminate].
  destruct (Nat.leb b (length s)) eqn:E2; cbn in H; [|discriminate].
  destruct (char_boundary s a) eqn:E3; cbn in H; [|discriminate].
  destruct (char_boundary s b) eqn:E4; cbn in H; [|discriminate].
  apply Nat.leb_le in E1. apply Nat.leb_le in E2. inversion H. auto.
Qed.

Lemma char_boundary_head s i :
  (i <= length s)%nat -> char_boundary s i = true -> head_ok (skipn i s) = true.
Proof.
  unfold char_boundary. intros Hi H.
  destruct (nth_error s i) as [c|] eqn:E.
  - apply nth_error_split in E as (l1 & l2 & -> & <-).
    rewrite skipn_app, skipn_all, Nat.sub_diag. cbn. exact H.
  - apply nth_error_None in E. assert (i = length s) by lia. subst. rewrite skipn_all. reflexivity.
Qed.

Lemma head_ok_boundary_app p x :
  head_ok x = true -> char_boundary (p ++ x) (length p) = true.
Proof.
  unfold char_boundary. intro H. rewrite nth_error_app2 by lia. rewrite Nat.sub_diag.
  destruct x as [|c x]; cbn in *.
  - rewrite app_nil_r. apply Nat.eqb_refl.
  - exact H.
Qed.

Lemma char_boundary_app_lt p x i :
  (i < length p)%nat -> char_boundary (p ++ x) i = char_boundary p i.
Proof.
  unfold char_boundary. intro H. rewrite nth_error_app1 by exact H.
  destruct (nth_error p i) eqn:E; [reflexivity|]. apply nth_error_None in E. lia.
Qed.

Lemma char_boundary_firstn s n i :
  (i < n)%nat -> (n <= length s)%nat -> char_boundary (firstn n s) i = char_boundary s i.
Proof.
  intros H1 H2. rewrite <- (firstn_skipn n s) at 2.
  rewrite char_boundary_app_lt; [reflexivity|]. rewrite firstn_length. lia.
Qed.

Lemma head_ok_app a b : head_ok a = true -> head_ok b = true -> head_ok (a ++ b) = true.
Proof. destruct a; cbn; auto. Qed.

Lemma head_ok_firstn_app n s x :
  head_ok s = true -> head_ok x = true -> head_ok (firstn n s ++ x) = true.
Proof. destruct n, s; cbn; auto. Qed.

(* the tail that has already been spliced starts on a character boundary *)
Lemma spec_from_head_ok orig es pos :
  wf_edits_from orig pos es = true -> (pos <= length orig)%nat -> char_boundary orig pos = true ->
  head_ok (spec_from pos (skipn pos orig) es) = true.
Proof.
  revert pos; induction es as [|e es IH]; intros pos Hwf Hpos Hb; cbn [spec_from].
  - apply char_boundary_head; assumption.
  - cbn [wf_edits_from] in Hwf.
    apply andb_true_iff in Hwf as [Hwf Hrest]. apply andb_true_iff in Hwf as [Hwf Hnew].
    apply andb_true_iff in Hwf as [Hle Hsl]. apply Nat.leb_le in Hle.
    destruct (str_slice orig (e_start e) (e_stop e)) as [actual|] eqn:Es; [|discriminate].
    apply str_slice_some in Es as (Hab & Hb2 & Hba & Hbb & _).
    apply head_ok_firstn_app; [apply char_boundary_head; assumption|].
    apply head_ok_app; [exact Hnew|].
    rewrite skipn_skipn. replace (e_stop e - pos + pos)%nat with (e_stop e) by lia.
    apply IH; assumption.
Qed.

Lemma firstn_split_at {A} (l : list A) pos start :
  (pos <= start)%nat -> firstn start l = firstn pos l ++ firstn (start - pos) (skipn pos l).
Proof.
  intro H. rewrite <- (firstn_skipn pos l) at 1.
  rewrite firstn_app. rewrite firstn_length.
  destruct (Nat.le_gt_cases pos (length l)) as [Hl|Hl].
  - rewrite Nat.min_l by exact Hl. rewrite firstn_all2 by (rewrite firstn_length; lia). reflexivity.
  - rewrite (skipn_all2 l) by lia. rewrite !firstn_nil, !app_nil_r.
    rewrite !firstn_all2 by (try rewrite firstn_length; lia). reflexivity.
Qed.

Lemma apply_rev_main orig es pos :
  wf_edits_from orig pos es = true -> (pos <= length orig)%nat -> char_boundary orig pos = true ->
  apply_rev_aux orig (rev es) orig = Ok (firstn pos orig ++ spec_from pos (skipn pos orig) es).
Proof.
  revert pos; induction es as [|e es IH]; intros pos Hwf Hpos Hb.
  - cbn. rewrite firstn_skipn. reflexivity.
  - cbn [rev]. rewrite apply_rev_aux_app.
    pose proof Hwf as Hwf0.
    cbn [wf_edits_from] in Hwf.
    apply andb_true_iff in Hwf as [Hwf Hrest]. apply andb_true_iff in Hwf as [Hwf Hnew].
    apply andb_true_iff in Hwf as [Hle Hsl]. apply Nat.leb_le in Hle.
    destruct (str_slice orig (e_start e) (e_stop e)) as [actual|] eqn:Es; [|discriminate].
    pose proof Es as Es0.
    apply str_slice_some in Es as (Hab & Hb2 & Hba & Hbb & Hact).
    rewrite (IH (e_stop e) Hrest Hb2 Hbb).
    cbn [apply_rev_aux]. rewrite Es0, Hsl.
    set (X := spec_from (e_stop e) (skipn (e_stop e) orig) es).
    assert (HX : head_ok X = true) by (apply spec_from_head_ok; assumption).
    assert (Hlen : length (firstn (e_stop e) orig) = e_stop e) by (rewrite firstn_length; lia).
    unfold replace_range.
    assert (Hc2 : char_boundary (firstn (e_stop e) orig ++ X) (e_stop e) = true).
    { rewrite <- Hlen at 2. apply head_ok_boundary_app. exact HX. }
    assert (Hc1 : char_boundary (firstn (e_stop e) orig ++ X) (e_start e) = true).
    { destruct (Nat.eq_dec (e_start e) (e_stop e)) as [E|E]; [rewrite E; exact Hc2|].
      rewrite char_boundary_app_lt by lia. rewrite char_boundary_firstn by lia. exact Hba. }
    rewrite Hc1, Hc2.
    replace (Nat.leb (e_start e) (e_stop e)) with true by (symmetry; apply Nat.leb_le; lia).
    replace (Nat.leb (e_stop e) (length (firstn (e_stop e) orig ++ X))) with true
      by (symmetry; apply Nat.leb_le; rewrite app_length; lia).
    cbn [andb]. f_equal.
    cbn [spec_from].
    rewrite firstn_app, Hlen, firstn_firstn.
    replace (Nat.min (e_start e) (e_stop e)) with (e_start e) by lia.
    replace (e_start e - e_stop e)%nat with 0%nat by lia. cbn [firstn]. rewrite app_nil_r.
    rewrite skipn_app, Hlen, Nat.sub_diag. cbn [skipn].
    rewrite (skipn_all2 (firstn (e_stop e) orig)) by lia. cbn [app].
    rewrite skipn_skipn. replace (e_stop e - pos + pos)%nat with (e_stop e) by lia.
    fold X. rewrite (app_assoc (firstn pos orig)). f_equal.
    apply firstn_split_at. exact Hle.
Qed.

Lemma char_boundary_0 s : head_ok s = true -> char_boundary s 0 = true.
Proof. destruct s; cbn; auto. Qed.

(* apply_edits_rev_spec: the loop of apply.rs equals the reference splice on every
   well-formed edit list (any number of edits, any lengths) *)
Theorem apply_edits_pos_spec orig es :
  head_ok orig = true -> wf_edits orig es = true ->
  apply_edits_pos orig es = Ok (spec_splice orig es).
Proof.
  intros Hh Hwf. unfold apply_edits_pos, spec_splice.
  rewrite (apply_rev_main orig es 0 Hwf); [reflexivity | lia | apply char_boundary_0; exact Hh].
Qed.

(* stale plans: if some edit's recorded text is not what the original holds there, the
   result is never Ok *)
Definition edit_matches (orig : bytes) (e : edit) : bool :=
  match str_slice orig (e_start e) (e_stop e) with
  | Some actual => beq actual (e_old e)
  | None => false
  end.

Lemma apply_rev_aux_mismatch orig l acc :
  existsb (fun e => negb (edit_matches orig e)) l = true ->
  forall r, apply_rev_aux orig l acc <> Ok r.
Proof.
  revert acc; induction l as [|e l IH]; intros acc H r; cbn in H; [discriminate|].
  cbn [apply_rev_aux]. unfold edit_matches in H.
  destruct (str_slice orig (e_start e) (e_stop e)) as [actual|]; [|discriminate].
  destruct (beq actual (e_old e)); cbn in H; [|discriminate].
  destruct (replace_range acc (e_start e) (e_stop e) (e_new e)); [|discriminate].
  apply IH. exact H.
Qed.

Theorem apply_edits_pos_mismatch orig es :
  existsb (fun e => negb (edit_matches orig e)) es = true ->
  forall r, apply_edits_pos orig es <> Ok r.
Proof.
  intros H r. unfold apply_edits_pos. apply apply_rev_aux_mismatch.
  rewrite existsb_rev. exact H.
Qed.

(* ---- the sort and the overlap pre-check in front of the loop ---- *)
Lemma wf_ordered orig : forall es pos, wf_edits_from orig pos es = true -> ordered_from pos es = true.
Proof.
  induction es as [|e es IH]; intros pos H; [reflexivity|].
  cbn [wf_edits_from] in H. cbn [ordered_from].
  apply andb_true_iff in H as [H Hrest]. apply andb_true_iff in H as [H _].
  apply andb_true_iff in H as [Hle Hsl].
  destruct (str_slice orig (e_start e) (e_stop e)) as [a|] eqn:Es; [|discriminate].
  apply str_slice_some in Es as (Hab & _).
  rewrite Hle, (IH _ Hrest). replace (Nat.leb (e_start e) (e_stop e)) with true; [reflexivity|].
  symmetry. apply Nat.leb_le. exact Hab.
Qed.

Lemma ordered_from_weaken : forall es p q, (q <= p)%nat -> ordered_from p es = true -> ordered_from q es = true.
Proof.
  intros [|e es] p q Hq H; [reflexivity|]. cbn [ordered_from] in *.
  apply andb_true_iff in H as [H Hr]. apply andb_true_iff in H as [H1 H2].
  apply Nat.leb_le in H1. rewrite H2, Hr.
  replace (Nat.leb q (e_start e)) with true; [reflexivity|]. symmetry. apply Nat.leb_le. lia.
Qed.

(* the sort leaves an ordered list as it is (so the fix changes nothing on plans the scanner produces) *)
Lemma sort_ordered_id : forall es pos, ordered_from pos es = true -> sort_edits es = es.
Proof.
  induction es as [|e es IH]; intros pos H; [reflexivity|].
  cbn [ordered_from] in H. apply andb_true_iff in H as [H Hr]. apply andb_true_iff in H as [_ H2].
  apply Nat.leb_le in H2.
  unfold sort_edits in *. cbn [fold_right]. rewrite (IH _ Hr).
  destruct es as [|x es']; [reflexivity|].
  cbn [ins_edit]. cbn [ordered_from] in Hr. apply andb_true_iff in Hr as [Hr _].
  apply andb_true_iff in Hr as [Hr _]. apply Nat.leb_le in Hr.
  replace (Nat.leb (e_start e) (e_start x)) with true; [reflexivity|]. symmetry. apply Nat.leb_le. lia.
Qed.

Lemma apply_edits_rev_ordered orig es :
  ordered_from 0 es = true -> apply_edits_rev orig es = apply_edits_pos orig es.
Proof. intros H. unfold apply_edits_rev. rewrite (sort_ordered_id es 0 H), H. reflexivity. Qed.

Theorem apply_edits_rev_spec orig es :
  head_ok orig = true -> wf_edits orig es = true ->
  apply_edits_rev orig es = Ok (spec_splice orig es).
Proof.
  intros Hh Hwf. rewrite apply_edits_rev_ordered by (apply (wf_ordered orig); exact Hwf).
  apply apply_edits_pos_spec; assumption.
Qed.

Lemma ins_edit_perm e l : Permutation.Permutation (e :: l) (ins_edit e l).
Proof.
  induction l as [|x l IH]; [apply Permutation.Permutation_refl|].
  cbn [ins_edit]. destruct (Nat.leb (e_start e) (e_start x)); [apply Permutation.Permutation_refl|].
  eapply Permutation.perm_trans; [apply Permutation.perm_swap|]. apply Permutation.perm_skip. exact IH.
Qed.

Lemma sort_edits_perm es : Permutation.Permutation es (sort_edits es).
Proof.
  induction es as [|e es IH]; [apply Permutation.perm_nil|].
  unfold sort_edits in *. cbn [fold_right].
  eapply Permutation.perm_trans; [apply Permutation.perm_skip; exact IH | apply ins_edit_perm].
Qed.

(* a plan with a stale edit anywhere (in any order) is never accepted *)
Theorem apply_edits_rev_mismatch orig es :
  existsb (fun e => negb (edit_matches orig e)) es = true ->
  forall r, apply_edits_rev orig es <> Ok r.
Proof.
  intros H r. unfold apply_edits_rev.
  destruct (ordered_from 0 (sort_edits es)); [|discriminate].
  apply apply_edits_pos_mismatch.
  apply existsb_exists in H as [e [Hin He]]. apply existsb_exists. exists e. split; [|exact He].
  eapply Permutation.Permutation_in; [apply sort_edits_perm | exact Hin].
Qed.
