(* Proofs/CoercionP.v — facts about the model of coercion.rs (Model/Coercion.v) that the path-name
   and hunk-tail theorems need.
     P1a  co_early_return        container (minus a leading "__" / "_") equal to the pattern up to case -> None
                                 (coercion.rs 537-540; formerly an ASSUMED fact about an oracle in HunkTailP)
     P1b  co_absent_none         the pattern does not occur (case-insensitively) -> None
     P1c  co_some_shape          Some (r, ..) -> r = the extracted prefix ++ a rewriting of the rest, where the
                                 rewriting is replace_case_insensitive of the rest with ONE rendering of the
                                 new pattern's tokens in the style named in the reason
     P1d  replace_ci_single      replace_case_insensitive on a text with a single (case-insensitive) occurrence
   Stdlib + lia only. *)
From Coq Require Import Lia.
From RN Require Import Base.Bytes Model.CaseModel Model.Coercion.
From RN Require Import Proofs.CaseP1.
Close Scope N_scope.
Open Scope bool_scope.

Lemma extract_prefix_app s : fst (extract_prefix s) ++ snd (extract_prefix s) = s.
Proof.
  destruct s as [|a s1]; [reflexivity|]. cbn [extract_prefix].
  destruct (a =? 95)%N eqn:Ea; [|reflexivity]. apply N.eqb_eq in Ea. subst a.
  destruct s1 as [|b s2]; [reflexivity|].
  destruct (b =? 95)%N eqn:Eb; [|reflexivity]. apply N.eqb_eq in Eb. subst b. reflexivity.
Qed.

Lemma extract_prefix_alpha s : hd_is is_alpha s = true -> extract_prefix s = ([], s).
Proof.
  destruct s as [|a s1]; [discriminate|]. cbn [hd_is extract_prefix]. intro H.
  destruct (a =? 95)%N eqn:Ea; [|reflexivity]. apply N.eqb_eq in Ea. subst a. discriminate H.
Qed.

(* P1a *)
Theorem co_early_return : forall acr container old new,
  lower (snd (extract_prefix container)) = lower old -> co_apply_coercion acr container old new = None.
Proof.
  intros acr container old new H. unfold co_apply_coercion.
  destruct (extract_prefix container) as [prefix cwp]. cbn [snd] in H. rewrite H, beq_refl. reflexivity.
Qed.

Corollary co_same_none : forall acr occ new, hd_is is_alpha occ = true -> co_apply_coercion acr occ occ new = None.
Proof. intros. apply co_early_return. rewrite extract_prefix_alpha by assumption. reflexivity. Qed.

(* P1b *)
Theorem co_absent_none : forall acr container old new,
  sfind (lower old) (lower (snd (extract_prefix container))) = None ->
  co_apply_coercion acr container old new = None.
Proof.
  intros acr container old new H. unfold co_apply_coercion.
  destruct (extract_prefix container) as [prefix cwp]. cbn [snd] in H. rewrite H.
  destruct (beq (lower cwp) (lower old)); reflexivity.
Qed.

(* P1c *)
Theorem co_some_shape : forall acr container old new r partial st,
  co_apply_coercion acr container old new = Some (r, partial, st) ->
  r = fst (extract_prefix container) ++
      replace_ci (snd (extract_prefix container)) old (co_render (co_tokenize new) st) /\
  mixed_or_dot st = false /\
  lower (snd (extract_prefix container)) <> lower old /\
  sfind (lower old) (lower (snd (extract_prefix container))) <> None.
Proof.
  intros acr container old new r partial st. unfold co_apply_coercion.
  destruct (extract_prefix container) as [prefix cwp]. cbn [fst snd].
  destruct (beq (lower cwp) (lower old)) eqn:Eb; [discriminate|]. apply beq_neq in Eb.
  destruct (sfind (lower old) (lower cwp)) as [pos|] eqn:Ef; [|discriminate].
  match goal with |- (if ?c then _ else _) = _ -> _ => destruct c end.
  - destruct (mixed_or_dot (co_detect_style acr (firstn (length old) (skipn pos cwp)))) eqn:Em; [discriminate|].
    intro H. inversion H; subst. repeat split; auto. discriminate.
  - destruct (mixed_or_dot (co_detect_style acr cwp)) eqn:Em; [discriminate|].
    intro H. inversion H; subst r partial st. repeat split; auto; try discriminate.
    (* the target style is never Mixed or Dot *)
    destruct (flat_style (co_detect_style acr cwp) && negb (flat_style (co_detect_style acr new)) &&
              negb (mixed_or_dot (co_detect_style acr new))) eqn:E1.
    + apply andb_true_iff in E1 as [_ E1]. apply negb_true_iff in E1. exact E1.
    + destruct (cstyle_eqb (co_detect_style acr old) CPascal &&
                (cstyle_eqb (co_detect_style acr cwp) CCamel || cstyle_eqb (co_detect_style acr cwp) CPascal));
        [reflexivity|exact Em].
Qed.

(* P1d: replace_case_insensitive with a single occurrence *)
Lemma lower_app a b : lower (a ++ b) = lower a ++ lower b.
Proof. apply map_app. Qed.

Lemma lower_length a : length (lower a) = length a.
Proof. apply map_length. Qed.

Lemma lower_skipn k a : lower (skipn k a) = skipn k (lower a).
Proof. unfold lower. revert a; induction k as [|k IH]; intros [|x a]; cbn [skipn map]; auto. Qed.

Lemma replace_ci_loop_none pl plen repl : forall fuel text,
  length text < fuel ->
  (forall j, j < length text -> is_prefix pl (skipn j (lower text)) = false) ->
  replace_ci_loop fuel pl plen repl text = text.
Proof.
  induction fuel as [|fuel IH]; intros text Hf H; [lia|].
  destruct text as [|c text']; [reflexivity|]. cbn [replace_ci_loop].
  pose proof (H 0 ltac:(cbn [length]; lia)) as H0. cbn [skipn] in H0. rewrite H0.
  f_equal. apply IH; [cbn [length] in Hf; lia|].
  intros j Hj. apply (H (S j)). cbn [length]. lia.
Qed.

Theorem replace_ci_single : forall p pat r repl,
  pat <> [] ->
  (forall j, j < length p -> is_prefix (lower pat) (skipn j (lower (p ++ pat ++ r))) = false) ->
  (forall j, j < length r -> is_prefix (lower pat) (skipn j (lower r)) = false) ->
  replace_ci (p ++ pat ++ r) pat repl = p ++ repl ++ r.
Proof.
  intros p pat r repl Hne Hp Hr. unfold replace_ci. destruct pat as [|x pat']; [congruence|].
  set (pat := x :: pat') in *. assert (Hpl : 1 <= length pat) by (cbn [pat length]; lia). clearbody pat.
  assert (G : forall fuel p, length (p ++ pat ++ r) < fuel ->
            (forall j, j < length p -> is_prefix (lower pat) (skipn j (lower (p ++ pat ++ r))) = false) ->
            replace_ci_loop fuel (lower pat) (length pat) repl (p ++ pat ++ r) = p ++ repl ++ r).
  { clear p Hp. induction fuel as [|fuel IH]; intros p Hf Hp; [lia|].
    destruct p as [|c p'].
    - cbn [app] in Hf |- *. rewrite app_length in Hf.
      destruct (pat ++ r) as [|c t] eqn:E.
      { destruct pat; [cbn [length] in Hpl; lia|discriminate]. }
      cbn [replace_ci_loop]. rewrite <- E. rewrite lower_app, is_prefix_app.
      rewrite skipn_app, skipn_all, Nat.sub_diag. cbn [app skipn].
      f_equal. apply replace_ci_loop_none; [lia|exact Hr].
    - cbn [app replace_ci_loop].
      pose proof (Hp 0 ltac:(cbn [length]; lia)) as H0. cbn [skipn app] in H0. rewrite H0.
      cbn [app]. f_equal. apply IH; [cbn [app length] in Hf; lia|].
      intros j Hj. apply (Hp (S j)). cbn [length]. lia. }
  apply G; [lia|exact Hp].
Qed.

Print Assumptions co_early_return.
Print Assumptions co_absent_none.
Print Assumptions co_some_shape.
Print Assumptions replace_ci_single.
