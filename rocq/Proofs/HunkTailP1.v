(* Proofs/HunkTailP1.v — T1: a multi-word neutral name rendered in a visible style is compatible
   (case_constraints.rs::can_match_style) with that style and with no other of the 14 styles.
   Hence scanner.rs::generate_hunks never consults the ambiguity resolver for such an occurrence.
   For all acronym tables (no wf_acr needed).  Stdlib + lia only. *)
From Coq Require Import Lia.
From RN Require Import Base.Bytes Model.StyleDef Model.CaseModel Model.CaseSpec
                       Model.ConstraintsDef Model.Constraints.
From RN Require Import Gen.GenStyles Gen.GenConstraints.
From RN Require Import Proofs.CaseP1 Proofs.CaseP2 Proofs.CaseP3.
Open Scope N_scope.
Open Scope bool_scope.

(* ------------------------------------------------------------------ split_sep is split_on *)
Lemma split_sep_on d s : split_sep d s = split_on d s.
Proof. induction s as [|c s IH]; cbn [split_sep split_on]; [reflexivity|]. rewrite IH. reflexivity. Qed.

(* ------------------------------------------------------------------ has_consecutive_uppercase *)
(* no upper-case letter is followed by an upper-case letter or a digit *)
Fixpoint nocu (s : bytes) : bool :=
  match s with
  | a :: (b :: _) as s' => (negb (is_upper a) || negb (is_upper b || is_digit b)) && nocu s'
  | _ => true
  end.

Lemma nocu_cons a s : nocu (a :: s) =
  match s with b :: _ => (negb (is_upper a) || negb (is_upper b || is_digit b)) && nocu s | [] => true end.
Proof. destruct s; reflexivity. Qed.

Lemma hcu_loop_nocu acr : forall fuel s, nocu s = true -> hcu_loop fuel acr s = false.
Proof.
  induction fuel as [|fuel IH]; intros s Hs; [reflexivity|].
  destruct s as [|c s']; [reflexivity|]. cbn [hcu_loop].
  rewrite nocu_cons in Hs.
  assert (Hs' : nocu s' = true).
  { destruct s' as [|b s'']; [reflexivity|]. apply andb_true_iff in Hs as [_ Hs]. exact Hs. }
  destruct (is_upper c) eqn:Hc; [|apply IH, Hs'].
  cbn [span_b]. rewrite Hc. cbn [orb].
  destruct s' as [|b s''].
  - cbn [span_b length Nat.leb]. apply IH. reflexivity.
  - apply andb_true_iff in Hs as [Hb _]. cbn [negb orb] in Hb. apply negb_true_iff in Hb.
    cbn [span_b]. rewrite Hb. cbn [length Nat.leb]. apply IH, Hs'.
Qed.

Lemma hcu_nocu acr s : nocu s = true -> has_consecutive_uppercase acr s = false.
Proof.
  intro H. unfold has_consecutive_uppercase. destruct (is_acronym acr s); [reflexivity|].
  apply hcu_loop_nocu, H.
Qed.

Lemma nocu_lower_app l t : forallb is_lower l = true -> nocu (l ++ t) = nocu t.
Proof.
  induction l as [|a l IH]; [reflexivity|]. cbn [forallb app]. intro H.
  apply andb_true_iff in H as [Ha Hl]. rewrite nocu_cons, (IH Hl).
  destruct (l ++ t) as [|b r] eqn:E.
  - destruct l; [|discriminate]. cbn [app] in E. subst t. reflexivity.
  - rewrite (lower_not_upper _ Ha). cbn [negb orb andb]. rewrite <- (IH Hl). reflexivity.
Qed.

Lemma nocu_caps acr ws : Forall (fun w => neutral acr w = true) ws -> nocu (concat (map capw ws)) = true.
Proof.
  induction 1 as [|w ws Hw _ IH]; [reflexivity|].
  destruct (neutral_shape _ _ Hw) as (c & c1 & w2 & -> & Hc & Hc1 & Hw2 & _).
  cbn [map concat capw app]. rewrite nocu_cons.
  rewrite (lower_not_upper _ Hc1), (lower_not_digit _ Hc1). cbn [orb negb andb]. rewrite orb_true_r. cbn [andb].
  change (c1 :: w2 ++ concat (map capw ws)) with ((c1 :: w2) ++ concat (map capw ws)).
  rewrite nocu_lower_app; [exact IH|]. cbn [forallb]. rewrite Hc1, Hw2. reflexivity.
Qed.

(* ------------------------------------------------------------------ check_case on one rendered word *)
Section Word.
Variable acr : acr_tab.
Variable w : bytes.
Hypothesis Hn : neutral acr w = true.

Lemma tp_cap : check_case acr TitlePat (capw w) = true.
Proof.
  destruct (neutral_shape _ _ Hn) as (c & c1 & w2 & -> & Hc & Hc1 & Hw2 & _).
  cbn [capw check_case]. rewrite (to_upper_lower_is_upper _ Hc). cbn [andb].
  cbn [forallb]. rewrite Hc1. cbn [orb andb].
  eapply forallb_impl; [|exact Hw2]. intros x Hx. rewrite Hx. reflexivity.
Qed.

Lemma tp_low : check_case acr TitlePat w = false.
Proof.
  destruct (neutral_shape _ _ Hn) as (c & c1 & w2 & -> & Hc & _).
  cbn [check_case]. rewrite (lower_not_upper _ Hc). reflexivity.
Qed.

Lemma tp_up : check_case acr TitlePat (upper w) = false.
Proof.
  destruct (neutral_shape _ _ Hn) as (c & c1 & w2 & -> & Hc & Hc1 & _).
  cbn [upper map check_case forallb].
  pose proof (to_upper_lower_is_upper _ Hc1) as U.
  rewrite (upper_not_lower _ U), (upper_alpha _ U). cbn [orb negb andb]. apply andb_false_r.
Qed.

Lemma al_low : check_case acr AllLower w = true.
Proof.
  destruct (neutral_shape _ _ Hn) as (c & c1 & w2 & E & _). rewrite E. cbn [check_case]. rewrite <- E.
  rewrite (nw_up_low acr w Hn). reflexivity.
Qed.

Lemma al_cap : check_case acr AllLower (capw w) = false.
Proof.
  pose proof (nw_up_cap acr w Hn) as U.
  destruct (neutral_shape _ _ Hn) as (c & c1 & w2 & E & _). rewrite E in *. cbn [capw] in *. cbn [check_case].
  rewrite U. reflexivity.
Qed.
End Word.

(* ------------------------------------------------------------------ the rendered name *)
Lemma two_shape acr ws : all_neutral acr ws = true -> (2 <= length ws)%nat ->
  exists w0 w1 ws', ws = w0 :: w1 :: ws' /\ neutral acr w0 = true /\ neutral acr w1 = true /\
                    Forall (fun w => neutral acr w = true) (w1 :: ws').
Proof.
  intros Hn Hlen. pose proof (proj1 (all_neutral_Forall acr ws) Hn) as HF.
  destruct ws as [|w0 [|w1 ws']]; cbn [length] in Hlen; try lia.
  inversion HF as [|? ? H0 HF1]; subst. inversion HF1 as [|? ? H1 HF2]; subst.
  exists w0, w1, ws'. auto.
Qed.

Section Name.
Variable acr : acr_tab.
Variable ws : list bytes.
Hypothesis Hn : all_neutral acr ws = true.
Hypothesis Hlen : (2 <= length ws)%nat.

Let HF : Forall (fun w => neutral acr w = true) ws := proj1 (all_neutral_Forall acr ws) Hn.

Lemma ws_ne : ws <> [].
Proof. destruct (two_shape acr ws Hn Hlen) as (w0 & w1 & ws' & E & _). rewrite E. discriminate. Qed.

(* first byte *)
Lemma render_cons S : exists c s', is_lower c = true /\ render S ws = hd_byte S c :: s'.
Proof.
  destruct (two_shape acr ws Hn Hlen) as (w0 & w1 & ws' & E & H0 & _). rewrite E.
  destruct (neutral_shape _ _ H0) as (c & c1 & w2 & -> & Hc & _).
  destruct (render_hd S c (c1 :: w2) (w1 :: ws')) as [s' E']. exists c, s'. auto.
Qed.

Definition low_hd (S : style) : bool :=
  match S with Snake | Kebab | Camel | Dot | LowerFlat | LowerSentence => true | _ => false end.

Lemma hd_byte_lower S c : is_lower c = true -> is_lower (hd_byte S c) = low_hd S.
Proof.
  intro Hc. destruct S; cbn [hd_byte low_hd]; try exact Hc;
    apply upper_not_lower, to_upper_lower_is_upper, Hc.
Qed.

Lemma hd_byte_upper S c : is_lower c = true -> is_upper (hd_byte S c) = negb (low_hd S).
Proof.
  intro Hc. destruct S; cbn [hd_byte low_hd negb]; try (apply lower_not_upper, Hc);
    apply to_upper_lower_is_upper, Hc.
Qed.

(* the whole-text patterns *)
Lemma cc_lower S : check_case acr AllLower (render S ws) = negb (up_of S).
Proof.
  destruct (render_cons S) as (c & s' & _ & E). pose proof (flag_up acr ws Hn Hlen S) as F.
  rewrite E in *. cbn [check_case]. rewrite F. reflexivity.
Qed.

Lemma cc_upper S : check_case acr AllUpper (render S ws) = negb (lo_of S).
Proof.
  destruct (render_cons S) as (c & s' & _ & E). pose proof (flag_lo acr ws Hn Hlen S) as F.
  rewrite E in *. cbn [check_case]. rewrite F. reflexivity.
Qed.

Lemma nocu_camel : nocu (render Camel ws) = true.
Proof.
  destruct (two_shape acr ws Hn Hlen) as (w0 & w1 & ws' & E & H0 & _ & HF'). rewrite E.
  cbn [render]. destruct (neutral_inv _ _ H0) as (_ & Hlow & _).
  rewrite nocu_lower_app by exact Hlow. apply (nocu_caps acr), HF'.
Qed.

Lemma nocu_pascal : nocu (render Pascal ws) = true.
Proof.
  destruct (two_shape acr ws Hn Hlen) as (w0 & w1 & ws' & E & H0 & _ & HF'). rewrite E.
  cbn [render]. apply (nocu_caps acr). constructor; assumption.
Qed.

Lemma cc_camel S : check_case acr CamelPat (render S ws) =
  low_hd S && negb (has_consecutive_uppercase acr (render S ws)).
Proof.
  destruct (render_cons S) as (c & s' & Hc & E). rewrite E. cbn [check_case].
  rewrite (hd_byte_lower S c Hc). reflexivity.
Qed.

Lemma cc_pascal S : check_case acr PascalPat (render S ws) =
  negb (low_hd S) && negb (has_consecutive_uppercase acr (render S ws)).
Proof.
  destruct (render_cons S) as (c & s' & Hc & E). rewrite E. cbn [check_case].
  rewrite (hd_byte_upper S c Hc). reflexivity.
Qed.

(* TitlePat on a whole hump-style name: the first byte decides Camel, the second hump Pascal *)
Lemma tp_camel : check_case acr TitlePat (render Camel ws) = false.
Proof.
  destruct (render_cons Camel) as (c & s' & Hc & E). rewrite E. cbn [check_case hd_byte].
  rewrite (lower_not_upper _ Hc). reflexivity.
Qed.

Lemma tp_pascal : check_case acr TitlePat (render Pascal ws) = false.
Proof.
  destruct (two_shape acr ws Hn Hlen) as (w0 & w1 & ws' & E & H0 & H1 & _). rewrite E.
  destruct (neutral_shape _ _ H0) as (c & c1 & w2 & -> & Hc & _).
  destruct (neutral_shape _ _ H1) as (d & d1 & v2 & -> & Hd & _).
  cbn [render map concat capw app check_case].
  change (c1 :: w2 ++ to_upper d :: d1 :: v2 ++ concat (map capw ws'))
    with ((c1 :: w2) ++ to_upper d :: (d1 :: v2 ++ concat (map capw ws'))).
  rewrite forallb_app. cbn [forallb].
  pose proof (to_upper_lower_is_upper _ Hd) as U.
  rewrite (upper_not_lower _ U), (upper_alpha _ U). cbn [orb negb andb].
  rewrite !andb_false_r. reflexivity.
Qed.

(* the separators *)
Definition sepcompat (S S' : style) : bool :=
  match sep_of S with
  | None => true
  | Some d => match snd (gen_constraints S') with Some r => d =? r | None => false end
  end.

Lemma check_seps S S' : check_separators (render S ws) (snd (gen_constraints S')) = sepcompat S S'.
Proof.
  unfold check_separators, gen_separators. cbn [forallb].
  rewrite !(flag_byte acr ws Hn Hlen S) by reflexivity.
  unfold sepcompat. destruct S, S'; reflexivity.
Qed.

(* the pieces of a name split at the separator of its own style / at a byte it does not contain *)
Lemma split_own S d : sep_of S = Some d -> split_sep d (render S ws) = toks_of S ws.
Proof. intro H. rewrite split_sep_on. apply (split_on_render acr); auto using ws_ne. Qed.

Lemma split_foreign S d : sep_of S = None -> is_delim d = true -> split_sep d (render S ws) = [render S ws].
Proof.
  intros H Hd. rewrite split_sep_on. apply split_on_word.
  rewrite (flag_byte acr ws Hn Hlen S d Hd), H. reflexivity.
Qed.

Lemma all_tp_cap : forall l, Forall (fun w => neutral acr w = true) l ->
  forallb (check_case acr TitlePat) (map capw l) = true.
Proof. induction 1 as [|w l Hw _ IH]; [reflexivity|]. cbn [map forallb]. rewrite (tp_cap acr w Hw), IH. reflexivity. Qed.

Lemma all_al_low : forall l, Forall (fun w => neutral acr w = true) l ->
  forallb (check_case acr AllLower) l = true.
Proof. induction 1 as [|w l Hw _ IH]; [reflexivity|]. cbn [forallb]. rewrite (al_low acr w Hw), IH. reflexivity. Qed.

Ltac split_tac d :=
  match goal with
  | |- context [split_sep d (render ?S ?l)] =>
      first [ rewrite (split_own S d eq_refl) | rewrite (split_foreign S d eq_refl eq_refl) ]
  end.

(* ------------------------------------------------------------------ the compatibility matrix *)
Theorem cms_render : forall S S', visible S = true ->
  can_match_style acr (render S ws) S' = style_eqb S S'.
Proof.
  intros S S' Hv.
  assert (Hcs : can_match_style acr (render S ws) S' =
                (let (k, sep) := gen_constraints S' in
                 match S', sep with
                 | Title, Some d | Train, Some d => forallb (check_case acr TitlePat) (split_sep d (render S ws))
                 | Sentence, Some d =>
                     match split_sep d (render S ws) with
                     | w :: ws0 => check_case acr TitlePat w && forallb (check_case acr AllLower) ws0
                     | [] => false
                     end
                 | _, _ => check_case acr (fst (gen_constraints S')) (render S ws)
                 end) && sepcompat S S').
  { unfold can_match_style. rewrite <- check_seps. destruct S'; reflexivity. }
  rewrite Hcs. clear Hcs.
  destruct (sepcompat S S') eqn:Esep.
  2:{ rewrite andb_false_r. destruct S, S'; try reflexivity; discriminate. }
  rewrite andb_true_r.
  destruct (two_shape acr ws Hn Hlen) as (w0 & w1 & ws' & Ews & H0 & H1 & HF1).
  destruct S'; cbn [gen_constraints fst];
    rewrite ?cc_lower, ?cc_upper, ?cc_camel, ?cc_pascal;
    try (destruct S; try discriminate Hv; try discriminate Esep; reflexivity).
  - (* Camel *) destruct S; try discriminate Hv; try discriminate Esep; cbn [low_hd andb negb style_eqb]; try reflexivity.
    rewrite (hcu_nocu _ _ nocu_camel). reflexivity.
  - (* Pascal *) destruct S; try discriminate Hv; try discriminate Esep; cbn [low_hd andb negb style_eqb]; try reflexivity.
    rewrite (hcu_nocu _ _ nocu_pascal). reflexivity.
  - (* Title *)
    destruct S; try discriminate Hv; try discriminate Esep; cbn [style_eqb];
      split_tac 32;
      cbn [toks_of forallb]; rewrite ?tp_camel, ?tp_pascal; try reflexivity.
    + (* Title *) apply all_tp_cap, HF.
    + (* Sentence *) rewrite Ews. cbn [forallb]. rewrite (tp_low acr w1 H1). apply andb_false_r.
    + (* LowerSentence *) rewrite Ews. cbn [forallb]. rewrite (tp_low acr w0 H0). reflexivity.
    + (* UpperSentence *) rewrite Ews. cbn [map forallb]. rewrite (tp_up acr w0 H0). reflexivity.
  - (* Train *)
    destruct S; try discriminate Hv; try discriminate Esep; cbn [style_eqb];
      split_tac 45;
      cbn [toks_of forallb]; rewrite ?tp_camel, ?tp_pascal; try reflexivity.
    + (* Kebab *) rewrite Ews. cbn [forallb]. rewrite (tp_low acr w0 H0). reflexivity.
    + (* Train *) apply all_tp_cap, HF.
    + (* ScreamingTrain *) rewrite Ews. cbn [map forallb]. rewrite (tp_up acr w0 H0). reflexivity.
  - (* Sentence *)
    destruct S; try discriminate Hv; try discriminate Esep; cbn [style_eqb];
      split_tac 32;
      cbn [toks_of forallb]; rewrite ?tp_camel, ?tp_pascal; try reflexivity.
    + (* Title *) rewrite Ews. cbn [map forallb]. rewrite (al_cap acr w1 H1). cbn [andb]. apply andb_false_r.
    + (* Sentence *) rewrite Ews. rewrite (tp_cap acr w0 H0). cbn [andb]. apply all_al_low, HF1.
    + (* LowerSentence *) rewrite Ews. rewrite (tp_low acr w0 H0). reflexivity.
    + (* UpperSentence *) rewrite Ews. cbn [map]. rewrite (tp_up acr w0 H0). reflexivity.
Qed.

End Name.

(* ------------------------------------------------------------------ T1 *)
Lemma filter_ext_eq {A} (f g : A -> bool) l : (forall x, f x = g x) -> filter f l = filter g l.
Proof. intro H. induction l as [|x l IH]; cbn [filter]; [reflexivity|]. rewrite H, IH. reflexivity. Qed.

Theorem visible_unambiguous : forall acr ws S,
  all_neutral acr ws = true -> (2 <= length ws)%nat -> visible S = true ->
  filter_compatible acr (to_style acr ws S) gen_all_styles = [S] /\
  is_ambiguous acr (to_style acr ws S) gen_all_styles = false.
Proof.
  intros acr ws S Hn Hlen Hv.
  assert (E : filter_compatible acr (to_style acr ws S) gen_all_styles = [S]).
  { rewrite (to_style_render acr ws S Hn). unfold filter_compatible.
    rewrite (filter_ext_eq _ (style_eqb S)) by (intro S'; apply cms_render; assumption).
    destruct S; try discriminate Hv; reflexivity. }
  split; [exact E|]. unfold is_ambiguous. rewrite E. reflexivity.
Qed.

(* the two flat styles are NOT covered: a flat lower-case name is compatible with six styles *)
Example flat_is_ambiguous :
  let ws := [[111; 108; 100]; [110; 97; 109; 101]] in    (* old, name *)
  filter_compatible [] (to_style [] ws LowerFlat) gen_all_styles =
    [Snake; Kebab; Camel; Dot; LowerFlat; LowerSentence] /\
  filter_compatible [] (to_style [] ws UpperFlat) gen_all_styles =
    [ScreamingSnake; ScreamingTrain; UpperFlat; UpperSentence].
Proof. vm_compute. split; reflexivity. Qed.

(* and so is a single word in any style *)
Example one_word_is_ambiguous :
  filter_compatible [] (to_style [] [[111; 108; 100]] Pascal) gen_all_styles = [Pascal; Train; Title; Sentence].
Proof. vm_compute. reflexivity. Qed.

Print Assumptions visible_unambiguous.
