(* Proofs/ApplySpecP.v — the composition theorem of property C02: on a well-formed plan and tree the
   fault-free run of [apply_core] succeeds and leaves exactly [spec_apply p t] (as a finite map:
   a permutation of the association list, keys pairwise distinct), with the corollaries
   bystanders untouched / node count / edited-and-moved file / r_performed.
   Stdlib only, no axioms. *)
From Coq Require Import List Arith Lia Bool NArith Sorted Permutation.
From RN Require Import Base.Bytes Model.Edits Model.Fs Model.ApplyModel
  Proofs.EditsP Proofs.RenameP Proofs.RenameP2 Proofs.Apply2P.
Import ListNotations.
Close Scope N_scope.

(* ==================================================================================== *)
(* 1. association lists                                                                  *)
(* ==================================================================================== *)

Definition keys (t : fs) : list path := map fst t.

Lemma path_dec (a b : path) : {a = b} + {a <> b}.
Proof. apply (list_eq_dec (list_eq_dec N.eq_dec)). Qed.

Lemma remove_not_in t p : ~ In p (keys t) -> remove t p = t.
Proof. intro N. apply remove_absent. apply lookup_none. intros k I ->. contradiction. Qed.

(* a tree with distinct keys is its entry at [p] plus the rest *)
Lemma perm_extract t p n :
  NoDup (keys t) -> lookup t p = Some n -> Permutation t ((p, n) :: remove t p).
Proof.
  unfold keys. induction t as [|[k x] t IH]; cbn [lookup map fst]; [discriminate|].
  intros ND L. inversion ND as [|? ? Nk ND']; subst.
  destruct (path_eqb k p) eqn:E.
  - apply path_eqb_eq in E. subst k. inversion L; subst x.
    rewrite remove_cons_same, (remove_not_in t p Nk). apply Permutation_refl.
  - unfold remove. cbn [filter fst]. rewrite E. cbn [negb]. fold (remove t p).
    eapply perm_trans; [apply perm_skip; apply IH; assumption|]. apply perm_swap.
Qed.

Lemma keys_remove_nodup t p : NoDup (keys t) -> NoDup (keys (remove t p)).
Proof.
  unfold keys, remove. induction t as [|[k x] t IH]; cbn [filter map fst]; intro ND; [constructor|].
  inversion ND as [|? ? Nk ND']; subst.
  destruct (negb (path_eqb k p)); cbn [map fst]; [|apply IH; exact ND'].
  constructor; [|apply IH; exact ND']. intro I. apply Nk. eapply remove_keys. exact I.
Qed.

Lemma remove_key_neq t p k : In k (keys (remove t p)) -> k <> p.
Proof.
  unfold keys, remove. intros I ->. apply in_map_iff in I as [[k' n] [E I]]. apply filter_In in I as [_ I].
  cbn [fst] in *. subst k'. rewrite path_eqb_refl in I. discriminate.
Qed.

(* lookup only depends on the finite map, not on the order of the list *)
Lemma lookup_in_nodup t k n : NoDup (keys t) -> In (k, n) t -> lookup t k = Some n.
Proof.
  unfold keys. induction t as [|[k' x] t IH]; cbn [lookup map fst In]; [contradiction|].
  intros ND I. inversion ND as [|? ? Nk ND']; subst. destruct I as [I|I].
  - inversion I; subst. rewrite path_eqb_refl. reflexivity.
  - destruct (path_eqb k' k) eqn:E; [|apply IH; assumption].
    apply path_eqb_eq in E. subst k'. exfalso. apply Nk. apply in_map_iff. exists (k, n). auto.
Qed.

Lemma lookup_some_in_pair t k n : lookup t k = Some n -> In (k, n) t.
Proof.
  induction t as [|[k' x] t IH]; cbn [lookup In]; [discriminate|].
  destruct (path_eqb k' k) eqn:E; [|intro H; right; apply IH; exact H].
  apply path_eqb_eq in E. subst k'. intro H. inversion H. left. reflexivity.
Qed.

Lemma lookup_perm a b q : Permutation a b -> NoDup (keys a) -> lookup a q = lookup b q.
Proof.
  intros P ND.
  assert (NDb : NoDup (keys b)) by (eapply Permutation_NoDup; [apply Permutation_map; exact P|exact ND]).
  destruct (lookup a q) as [n|] eqn:La.
  - symmetry. apply lookup_in_nodup; [exact NDb|]. eapply Permutation_in; [exact P|].
    apply lookup_some_in_pair. exact La.
  - destruct (lookup b q) as [n|] eqn:Lb; [|reflexivity]. exfalso.
    apply lookup_some_in_pair in Lb. apply (Permutation_in _ (Permutation_sym P)) in Lb.
    apply (lookup_in_nodup _ _ _ ND) in Lb. congruence.
Qed.

Lemma lookup_map_val (f : path -> node -> node) t q :
  lookup (map (fun e => (fst e, f (fst e) (snd e))) t) q = option_map (f q) (lookup t q).
Proof.
  induction t as [|[k n] t IH]; cbn [map lookup fst snd]; [reflexivity|].
  destruct (path_eqb k q) eqn:E; [|exact IH]. apply path_eqb_eq in E. subst k. reflexivity.
Qed.

(* ==================================================================================== *)
(* 2. the content stage computes the reference content                                   *)
(* ==================================================================================== *)

(* [spec_content] for an arbitrary grouping of the edits *)
Definition upd (files : list (path * list edit)) (p : path) (n : node) : node :=
  match n with
  | File m c =>
      match find (fun fe => path_eqb (fst fe) p) files with
      | Some (_, es) => File m (spec_splice c (sort_edits es))
      | None => n
      end
  | _ => n
  end.
Definition cmap (files : list (path * list edit)) (t : fs) : fs :=
  map (fun e => (fst e, upd files (fst e) (snd e))) t.

Lemma spec_content_upd hs : spec_content hs = upd (edits_by_file hs).
Proof. reflexivity. Qed.

Lemma spec_apply_cmap p t : spec_apply p t = mapF (ap_renames p) (cmap (edits_by_file (ap_hunks p)) t).
Proof. unfold spec_apply, mapF, cmap. rewrite map_map. reflexivity. Qed.

Lemma keys_cmap files t : keys (cmap files t) = keys t.
Proof. unfold keys, cmap. rewrite map_map. reflexivity. Qed.

Lemma find_key_none (files : list (path * list edit)) p :
  ~ In p (map fst files) -> find (fun fe => path_eqb (fst fe) p) files = None.
Proof.
  induction files as [|[g es] files IH]; cbn [find map fst In]; [reflexivity|]. intro N.
  destruct (path_eqb g p) eqn:E; [apply path_eqb_eq in E; exfalso; apply N; auto|]. apply IH. tauto.
Qed.

(* what the stage needs of one planned file, on the current tree *)
Definition file_ok (t : fs) (f : path) (es : list edit) : Prop :=
  exists m c, lookup t f = Some (File m c) /\ utf8_ok c = true /\
              wf_edits c (sort_edits es) = true /\
              free_at t (tmp_of f) /\ is_dir t (parent f) = true.

Lemma wf_sorted_apply c es :
  utf8_ok c = true -> wf_edits c (sort_edits es) = true ->
  apply_edits_rev c es = Ok (spec_splice c (sort_edits es)).
Proof.
  intros U W. unfold apply_edits_rev. cbn zeta.
  rewrite (wf_ordered c (sort_edits es) 0 W).
  apply apply_edits_pos_spec; [apply utf8_head_ok; exact U | exact W].
Qed.

Lemma exec_all_do_ops os : forall s t',
  exec_all os (s_fs s) = Some t' -> exists s', do_ops no_fault os s = inl s' /\ s_fs s' = t'.
Proof.
  induction os as [|o os IH]; intros s t' H; cbn [exec_all do_ops] in *.
  - inversion H. exists s. auto.
  - unfold do_op, no_fault. destruct (exec_mop o (s_fs s)) as [t1|e]; [|discriminate].
    apply (IH {| s_fs := t1; s_n := S (s_n s); s_trace := o :: s_trace s |}). exact H.
Qed.

Lemma content_stage_ok : forall files s,
  NoDup (map fst files) -> NoDup (keys (s_fs s)) ->
  (forall f es, In (f, es) files -> file_ok (s_fs s) f es) ->
  exists s', content_stage no_fault files s = inl s' /\ Permutation (s_fs s') (cmap files (s_fs s)).
Proof.
  induction files as [|[p es] files IH]; intros s NDf NDt OK; cbn [content_stage].
  - exists s. split; [reflexivity|]. unfold cmap. cbn [upd find].
    replace (map _ (s_fs s)) with (s_fs s); [apply Permutation_refl|].
    rewrite <- (map_id (s_fs s)) at 1. apply map_ext. intros [k [m c| |]]; reflexivity.
  - inversion NDf as [|? ? Np NDf']; subst.
    destruct (OK p es (or_introl eq_refl)) as (m & c & L & U & W & F & D).
    set (t := s_fs s) in *. set (new := spec_splice c (sort_edits es)).
    unfold edit_file. fold t. rewrite L, U. cbn [negb]. rewrite (wf_sorted_apply c es U W). fold new.
    pose proof (content_ops_exec p m c t L F D new) as X.
    destruct (exec_all_do_ops _ s _ X) as (s1 & D1 & E1). rewrite D1.
    assert (Kp : In p (keys t)) by (eapply lookup_some_in; exact L).
    assert (K1 : forall k, In k (map fst (s_fs s1)) -> In k (map fst t)).
    { rewrite E1. cbn [map fst]. intros k [<-|I]; [exact Kp|]. eapply remove_keys; exact I. }
    assert (ND1 : NoDup (keys (s_fs s1))).
    { rewrite E1. unfold keys. cbn [map fst]. constructor; [|apply keys_remove_nodup; exact NDt].
      intro I. exact (remove_key_neq _ _ _ I eq_refl). }
    assert (Lneq : forall q, q <> p -> lookup (s_fs s1) q = lookup t q).
    { intros q N. rewrite E1, lookup_cons_neq by congruence. apply lookup_remove_neq. exact N. }
    destruct (IH s1 NDf' ND1) as (s' & C & P).
    { intros f es' I. destruct (OK f es' (or_intror I)) as (m' & c' & L' & U' & W' & F' & D').
      assert (Nf : f <> p).
      { intros ->. apply Np. apply in_map_iff. exists (p, es'). auto. }
      exists m', c'. split; [rewrite Lneq by exact Nf; exact L'|]. split; [exact U'|]. split; [exact W'|].
      split; [eapply free_at_sub; [exact K1|exact F']|].
      unfold is_dir in *. destruct (parent f) as [|a0 a'] eqn:Ep; [reflexivity|]. rewrite <- Ep in *.
      destruct (path_dec (parent f) p) as [Epp|Npp].
      - rewrite Epp, L in D'. discriminate.
      - rewrite Lneq by exact Npp. exact D'. }
    exists s'. split; [exact C|].
    eapply perm_trans; [exact P|]. rewrite E1.
    eapply perm_trans; [|apply Permutation_sym; unfold cmap; apply Permutation_map; apply (perm_extract t p _ NDt L)].
    unfold cmap. cbn [map fst snd]. 
    assert (X1 : upd files p (File m new) = File m new).
    { cbn [upd]. rewrite (find_key_none files p Np). reflexivity. }
    assert (X2 : upd ((p, es) :: files) p (File m c) = File m new).
    { cbn [upd find fst]. rewrite path_eqb_refl. reflexivity. }
    rewrite X1, X2. apply perm_skip.
    replace (map (fun e => (fst e, upd ((p, es) :: files) (fst e) (snd e))) (remove t p))
      with (map (fun e => (fst e, upd files (fst e) (snd e))) (remove t p)); [apply Permutation_refl|].
    apply map_ext_in. intros [k n] I. cbn [fst snd]. f_equal.
    assert (Nk : k <> p).
    { apply (remove_key_neq t p). apply in_map_iff. exists (k, n). auto. }
    destruct n as [m' c'| |]; cbn [upd find fst]; try reflexivity.
    assert (Z : path_eqb p k = false) by (apply path_eqb_neq; congruence). rewrite Z. reflexivity.
Qed.

(* ==================================================================================== *)
(* 3. edits_by_file groups the hunks by file, each group in plan order                   *)
(* ==================================================================================== *)

Definition edits_of (hs : list ahunk) (f : path) : list edit :=
  map edit_of (filter (fun h => path_eqb (ah_file h) f) hs).

Definition assoc (m : list (path * list edit)) (f : path) : list edit :=
  match find (fun fe => path_eqb (fst fe) f) m with Some (_, es) => es | None => [] end.

Lemma assoc_absent m f : ~ In f (map fst m) -> assoc m f = [].
Proof. intro N. unfold assoc. rewrite (find_key_none m f N). reflexivity. Qed.

Lemma insert_assoc f e m g :
  StronglySorted plt (map fst m) ->
  assoc (insert_edit f e m) g = if path_eqb f g then assoc m g ++ [e] else assoc m g.
Proof.
  induction m as [|[g0 es0] m IH]; intro S.
  - unfold assoc. cbn [insert_edit find fst]. destruct (path_eqb f g); reflexivity.
  - cbn [map fst] in S. inversion S as [|? ? S' Fa]; subst. cbn [insert_edit].
    destruct (path_eqb f g0) eqn:E0.
    + apply path_eqb_eq in E0. subst g0. unfold assoc. cbn [find fst].
      destruct (path_eqb f g); reflexivity.
    + destruct (path_ltb f g0) eqn:Lt.
      * assert (Nf : ~ In f (map fst ((g0, es0) :: m))).
        { cbn [map fst In]. intros [->|I].
          - rewrite path_ltb_irrefl in Lt. discriminate.
          - rewrite Forall_forall in Fa. specialize (Fa _ I). unfold plt in Fa.
            pose proof (path_ltb_trans _ _ _ Lt Fa) as X. rewrite path_ltb_irrefl in X. discriminate. }
        unfold assoc at 1. cbn [find fst]. destruct (path_eqb f g) eqn:Eg.
        -- apply path_eqb_eq in Eg. subst g. rewrite (assoc_absent _ _ Nf). reflexivity.
        -- reflexivity.
      * unfold assoc at 1. cbn [find fst]. destruct (path_eqb g0 g) eqn:Eg.
        -- apply path_eqb_eq in Eg. subst g. rewrite E0. unfold assoc. cbn [find fst].
           rewrite path_eqb_refl. reflexivity.
        -- fold (assoc (insert_edit f e m) g). rewrite (IH S'). unfold assoc at 3 4. cbn [find fst].
           rewrite Eg. reflexivity.
Qed.

Lemma edits_of_cons h hs g :
  edits_of (h :: hs) g = if path_eqb (ah_file h) g then edit_of h :: edits_of hs g else edits_of hs g.
Proof. unfold edits_of. cbn [filter]. destruct (path_eqb (ah_file h) g); reflexivity. Qed.

Lemma fold_insert_assoc hs : forall m g,
  StronglySorted plt (map fst m) ->
  assoc (fold_left (fun m h => insert_edit (ah_file h) (edit_of h) m) hs m) g = assoc m g ++ edits_of hs g.
Proof.
  induction hs as [|h hs IH]; intros m g S; cbn [fold_left].
  - unfold edits_of. cbn. rewrite app_nil_r. reflexivity.
  - rewrite IH by (apply insert_edit_sorted; exact S). rewrite (insert_assoc _ _ _ _ S), edits_of_cons.
    destruct (path_eqb (ah_file h) g); [rewrite <- app_assoc|]; reflexivity.
Qed.

Lemma find_in_nodup (m : list (path * list edit)) f es :
  NoDup (map fst m) -> In (f, es) m -> find (fun fe => path_eqb (fst fe) f) m = Some (f, es).
Proof.
  induction m as [|[g es0] m IH]; cbn [find map fst In]; [contradiction|].
  intros ND I. inversion ND as [|? ? Ng ND']; subst. destruct I as [I|I].
  - inversion I; subst. rewrite path_eqb_refl. reflexivity.
  - destruct (path_eqb g f) eqn:E; [|apply IH; assumption].
    apply path_eqb_eq in E. subst g. exfalso. apply Ng. apply in_map_iff. exists (f, es). auto.
Qed.

(* the value stored for [f] is the list of the edits of [f], in plan order *)
Theorem edits_by_file_group hs f es : In (f, es) (edits_by_file hs) -> es = edits_of hs f.
Proof.
  intro I. pose proof (find_in_nodup _ _ _ (edits_by_file_nodup hs) I) as F.
  assert (A : assoc (edits_by_file hs) f = es) by (unfold assoc; rewrite F; reflexivity).
  rewrite <- A. unfold edits_by_file. rewrite fold_insert_assoc by constructor. reflexivity.
Qed.

(* every key is the file of some hunk *)
Theorem edits_by_file_key hs f : In f (map fst (edits_by_file hs)) -> exists h, In h hs /\ ah_file h = f.
Proof.
  unfold edits_by_file.
  assert (G : forall m, In f (map fst (fold_left (fun m h => insert_edit (ah_file h) (edit_of h) m) hs m)) ->
              In f (map fst m) \/ exists h, In h hs /\ ah_file h = f).
  { induction hs as [|h hs IH]; intros m I; cbn [fold_left] in I; [left; exact I|].
    apply IH in I as [I|[h' [I E]]].
    - apply insert_edit_keys in I as [->|I]; [right; exists h; split; [left|]; reflexivity | left; exact I].
    - right. exists h'. split; [right; exact I|exact E]. }
  intro I. apply G in I as [[]|I]. exact I.
Qed.

(* and conversely: the file of every hunk is a key *)
Lemma insert_edit_has_key f e m : In f (map fst (insert_edit f e m)).
Proof.
  induction m as [|[g es] m IH]; cbn [insert_edit map fst In]; [left; reflexivity|].
  destruct (path_eqb f g) eqn:E; [apply path_eqb_eq in E; left; auto|].
  destruct (path_ltb f g); cbn [map fst In]; auto.
Qed.
Lemma insert_edit_keeps_keys f e m k : In k (map fst m) -> In k (map fst (insert_edit f e m)).
Proof.
  induction m as [|[g es] m IH]; cbn [insert_edit map fst In]; [contradiction|].
  destruct (path_eqb f g); [cbn [map fst In]; tauto|].
  destruct (path_ltb f g); cbn [map fst In]; tauto.
Qed.
Theorem edits_by_file_has_key hs h : In h hs -> In (ah_file h) (map fst (edits_by_file hs)).
Proof.
  unfold edits_by_file.
  assert (G : forall m, (In (ah_file h) (map fst m) \/ In h hs) ->
              In (ah_file h) (map fst (fold_left (fun m h => insert_edit (ah_file h) (edit_of h) m) hs m))).
  { induction hs as [|h0 hs IH]; intros m [I|I]; cbn [fold_left]; try exact I; try contradiction.
    - apply IH. left. apply insert_edit_keeps_keys. exact I.
    - destruct I as [->|I]; apply IH; [left; apply insert_edit_has_key | right; exact I]. }
  intro I. apply G. right. exact I.
Qed.

(* ==================================================================================== *)
(* 4. the composition                                                                    *)
(* ==================================================================================== *)

(* Well-formedness of a plan for a tree.  Everything is stated on the ORIGINAL tree [t]. *)
Record plan_ok (p : aplan) (t : fs) : Prop := {
  (* the association list is a finite map *)
  po_nodup : NoDup (keys t);
  (* every hunk's file is a regular file of the tree with UTF-8 content; the edits planned for that
     file (in plan order, then sorted by start offset as apply.rs does) are well-formed for that
     content: ascending and non-overlapping, in range, on character boundaries, the recorded text
     is what the file holds there, no replacement starts with a continuation byte; the temp name
     next to the file is absent *)
  po_hunks : forall h, In h (ap_hunks p) ->
      exists m c, lookup t (ah_file h) = Some (File m c) /\ utf8_ok c = true /\
                  wf_edits c (sort_edits (edits_of (ap_hunks p) (ah_file h))) = true /\
                  lookup t (tmp_of (ah_file h)) = None;
  (* the hypotheses of RenameP2.rename_stage_fs *)
  po_shape : forall r, In r (ap_renames p) -> shape r;
  po_src_nodup : NoDup (map ar_path (ap_renames p));
  po_dst_inj : forall r1 r2, In r1 (ap_renames p) -> In r2 (ap_renames p) ->
                             ar_new r1 = ar_new r2 -> ar_path r1 = ar_path r2;
  po_fs : fs_ok t (ap_renames p);
  po_probe : forall r, In r (ap_renames p) -> case_only (ar_path r) (ar_new r) = true ->
      lookup t (parent (ar_path r) ++ [probe_name]) = None /\
      forall r1, In r1 (ap_renames p) -> ar_new r1 <> parent (ar_path r) ++ [probe_name]
}.

Lemma find_all_false {A} (f : A -> bool) l : (forall x, In x l -> f x = false) -> find f l = None.
Proof.
  induction l as [|x l IH]; intro H; cbn [find]; [reflexivity|].
  rewrite (H x (or_introl eq_refl)). apply IH. intros y I. apply H. right. exact I.
Qed.

Lemma fs_ok_closed_dir t rs : fs_ok t rs -> closed_dir t.
Proof. intros F a b I Na Nb. exact (fo_chain _ _ F (a ++ b) a b I eq_refl Na Nb). Qed.

Lemma no_conflict t rs : fs_ok t rs -> first_conflict t rs = None.
Proof.
  intro F. unfold first_conflict. apply find_all_false. intros r I. unfold occupied.
  pose proof (fo_dst _ _ F r I) as D. destruct (ar_new r) as [|a l] eqn:E; [reflexivity|].
  unfold exists_. rewrite D. apply andb_false_r.
Qed.

Lemma final_keys_nodup rs (l : list path) :
  (forall r, In r rs -> shape r) ->
  (forall r1 r2, In r1 rs -> In r2 rs -> ar_new r1 = ar_new r2 -> ar_path r1 = ar_path r2) ->
  NoDup l -> (forall k, In k l -> avoids rs k) -> NoDup (map (final_path rs) l).
Proof.
  intros Hs Hi. induction l as [|k l IH]; intros ND K; cbn [map]; [constructor|].
  inversion ND as [|? ? Nk ND']; subst. constructor.
  - intro I. apply in_map_iff in I as [k' [E I]].
    apply (final_path_inj_eq rs Hs Hi) in E; [subst k'; contradiction| |]; apply K; [right; exact I|left; reflexivity].
  - apply IH; [exact ND'|]. intros k0 I. apply K. right. exact I.
Qed.

Section Compose.
  Variables (p : aplan) (t : fs).
  Hypothesis W : plan_ok p t.

  Let hs := ap_hunks p.
  Let rs := ap_renames p.
  Let files := edits_by_file hs.
  Let s0 := {| s_fs := t; s_n := 0; s_trace := [] |}.

  Lemma co_closed : closed_dir t.
  Proof. exact (fs_ok_closed_dir _ _ (po_fs _ _ W)). Qed.

  Lemma co_files_ok f es : In (f, es) files -> file_ok t f es.
  Proof.
    intro I.
    destruct (edits_by_file_key hs f) as (h & Ih & Eh).
    { apply in_map_iff. exists (f, es). auto. }
    pose proof (edits_by_file_group hs f es I) as Ees.
    destruct (po_hunks _ _ W h Ih) as (m & c & L & U & Wf & T). fold hs in Wf. rewrite Eh in *.
    assert (Nf : f <> []). { intros ->. cbn in T. congruence. }
    exists m, c. split; [exact L|]. split; [exact U|]. split; [rewrite Ees; exact Wf|]. split.
    - apply closed_dir_free_at; [exact co_closed|exact T|].
      intro Z. apply (proj1 (tmp_of_nil_iff f)) in Z. contradiction.
    - eapply closed_dir_parent; [exact co_closed|exact L|exact Nf].
  Qed.

  (* the two stages succeed one after the other *)
  Lemma co_run : exists s1 s2,
    content_stage no_fault files s0 = inl s1 /\
    rename_stage no_fault (sort_renames rs) [] [] s1
      = inl (s2, stage_perf (sort_renames rs) [], stage_steps (sort_renames rs) []) /\
    Permutation (s_fs s1) (cmap files t) /\
    s_fs s2 = mapF rs (s_fs s1).
  Proof.
    destruct (content_stage_ok files s0 (edits_by_file_nodup hs) (po_nodup _ _ W)) as (s1 & C & P).
    { intros f es I. apply co_files_ok. exact I. }
    cbn [s_fs s0] in P. exists s1.
    pose proof (po_fs _ _ W) as Hfs. fold rs in Hfs.
    pose proof (po_shape _ _ W) as Hshape. pose proof (po_src_nodup _ _ W) as Hnodup.
    pose proof (po_dst_inj _ _ W) as Hinj. fold rs in Hshape, Hnodup, Hinj.
    (* the tree after the content stage looks like [t] to the rename stage *)
    assert (Lk : forall q, lookup (s_fs s1) q = option_map (upd files q) (lookup t q)).
    { intro q. rewrite <- (lookup_perm _ _ q (Permutation_sym P)).
      - apply (lookup_map_val (upd files)).
      - rewrite keys_cmap. exact (po_nodup _ _ W). }
    assert (Kk : forall k, In k (map fst (s_fs s1)) -> In k (map fst t)).
    { intros k I. apply (Permutation_in _ (Permutation_map fst P)) in I.
      fold (keys (cmap files t)) in I. rewrite keys_cmap in I. exact I. }
    pose proof (tree_wf_renames rs t Hshape Hnodup Hinj Hfs) as Wr.
    pose proof (wf_sorted_ok rs Wr) as O.
    assert (B : forall x, In x (sort_renames rs) -> In x rs).
    { intros x H. eapply Permutation_in; [apply sort_renames_perm|exact H]. }
    assert (K : forall k, In k (map fst t) -> avoids rs k) by (apply key_avoids; assumption).
    destruct (stage_fs_gen (sort_renames rs) (s_fs s1) O) with
        (L2 := sort_renames rs) (L1 := @nil aren) (st := s1) as [s2 [R Fs]].
    - intros k H. eapply avoids_sub; [exact B|]. apply K, Kk, H.
    - intros r I. destruct (fo_src _ _ Hfs r (B r I)) as [n [Hn _]]. rewrite Lk, Hn. discriminate.
    - intros r I. rewrite Lk, (fo_dst _ _ Hfs r (B r I)). reflexivity.
    - intros r I a b E Na Nb. destruct (fo_src _ _ Hfs r (B r I)) as [n [Hn _]].
      destruct (fo_chain _ _ Hfs (ar_path r) a b (lookup_some_in _ _ _ Hn) E Na Nb) as [m Hm].
      exists m. rewrite Lk, Hm. reflexivity.
    - intros r I Cs. destruct (po_probe _ _ W r (B r I) Cs) as [Hf Hn]. split.
      + rewrite Lk, Hf. reflexivity.
      + intros r1 I1. apply Hn. apply B. exact I1.
    - reflexivity.
    - rewrite mapF_nil. reflexivity.
    - exists s2. split; [exact C|]. split; [exact R|]. split; [exact P|].
      rewrite Fs. unfold mapF. apply map_ext. intros [k n]. cbn [fst snd]. f_equal.
      symmetry. apply final_path_perm; [apply Permutation_sym, sort_renames_perm | exact Hnodup].
  Qed.

  (* the read-everything-first pass of apply_plan finds nothing to complain about *)
  Lemma all_readable : first_unreadable t files = None.
  Proof.
    unfold first_unreadable.
    destruct (find (fun fe => negb (readable t (fst fe))) files) as [fe|] eqn:E; [|reflexivity].
    exfalso. apply find_some in E as [Hin Hneg].
    assert (K : In (fst fe) (map fst files)) by (apply in_map; exact Hin).
    apply edits_by_file_key in K as (h & Hh & Hf).
    destruct (po_hunks _ _ W h Hh) as (m & c & L & U & _).
    unfold readable in Hneg. rewrite <- Hf, L, U in Hneg. discriminate.
  Qed.

  (* ---------------------------------------------------------------------------------- *)
  (* MAIN THEOREM                                                                        *)
  (* ---------------------------------------------------------------------------------- *)
  Theorem apply_is_spec :
    r_ok (apply_core no_fault p t) = true /\
    r_fail (apply_core no_fault p t) = None /\
    Permutation (r_fs (apply_core no_fault p t)) (spec_apply p t) /\
    NoDup (keys (spec_apply p t)) /\
    NoDup (keys (r_fs (apply_core no_fault p t))) /\
    (forall q, lookup (r_fs (apply_core no_fault p t)) q = lookup (spec_apply p t) q) /\
    r_performed (apply_core no_fault p t) = stage_perf (sort_renames rs) [].
  Proof.
    destruct co_run as (s1 & s2 & C & R & P & F).
    pose proof (po_fs _ _ W) as Hfs. fold rs in Hfs.
    assert (A : apply_core no_fault p t =
                {| r_fs := s_fs s2; r_ok := true; r_fail := None; r_trace := rev (s_trace s2);
                   r_performed := stage_perf (sort_renames rs) [] |}).
    { unfold apply_core. fold rs hs files s0. rewrite (no_conflict t rs Hfs), all_readable, C, R. reflexivity. }
    rewrite A. cbn [r_fs r_ok r_fail r_performed].
    assert (PP : Permutation (s_fs s2) (spec_apply p t)).
    { rewrite F, spec_apply_cmap. unfold mapF. apply Permutation_map. exact P. }
    assert (ND : NoDup (keys (spec_apply p t))).
    { unfold keys, spec_apply. rewrite map_map. cbn [fst]. fold rs.
      rewrite <- (map_map fst (final_path rs)).
      apply (final_keys_nodup rs); [exact (po_shape _ _ W)|exact (po_dst_inj _ _ W)|exact (po_nodup _ _ W)|].
      apply key_avoids; [exact (po_shape _ _ W)|exact Hfs]. }
    assert (ND2 : NoDup (keys (s_fs s2))).
    { eapply Permutation_NoDup; [apply Permutation_map; apply Permutation_sym; exact PP|exact ND]. }
    repeat split; auto.
    intro q. apply lookup_perm; assumption.
  Qed.
End Compose.

(* ==================================================================================== *)
(* 5. corollaries                                                                        *)
(* ==================================================================================== *)

(* the shape of the result as a finite map, in one formula: what sits at the final location of [q]
   is the node of [q] with the reference content (for every [q] that is not at or below a planned
   destination; every key of the tree is such a [q]) *)
Theorem apply_lookup p t q :
  plan_ok p t -> avoids (ap_renames p) q ->
  lookup (r_fs (apply_core no_fault p t)) (final_path (ap_renames p) q)
  = option_map (spec_content (ap_hunks p) q) (lookup t q).
Proof.
  intros W A. destruct (apply_is_spec p t W) as (_ & _ & _ & _ & _ & L & _). rewrite L.
  rewrite spec_apply_cmap.
  rewrite (lookup_mapF (ap_renames p) _ q (po_shape _ _ W) (po_dst_inj _ _ W)); [| |exact A].
  - apply (lookup_map_val (upd (edits_by_file (ap_hunks p)))).
  - fold (keys (cmap (edits_by_file (ap_hunks p)) t)). rewrite keys_cmap.
    apply key_avoids; [exact (po_shape _ _ W)|exact (po_fs _ _ W)].
Qed.

Lemma final_path_untouched rs q :
  (forall r, In r rs -> path_prefix (ar_path r) q = false) -> final_path rs q = q.
Proof.
  intro H. apply final_from_id. intros t1 t2 E _. cbn [app]. apply new_name_of_none.
  intros r I Er. specialize (H r I). rewrite Er, E, path_prefix_app in H. discriminate.
Qed.

Lemma spec_content_unplanned hs q n :
  (forall h, In h hs -> ah_file h <> q) -> spec_content hs q n = n.
Proof.
  intro H. destruct n as [m c| |]; try reflexivity. cbn [spec_content].
  rewrite find_key_none; [reflexivity|]. intro I. apply edits_by_file_key in I as (h & Ih & E).
  exact (H h Ih E).
Qed.

(* (1) bystanders: a node that is neither edited nor at/below a renamed path is where it was *)
Corollary apply_bystander p t q n :
  plan_ok p t -> lookup t q = Some n ->
  (forall h, In h (ap_hunks p) -> ah_file h <> q) ->
  (forall r, In r (ap_renames p) -> path_prefix (ar_path r) q = false) ->
  lookup (r_fs (apply_core no_fault p t)) q = Some n.
Proof.
  intros W L Hh Hr.
  rewrite <- (final_path_untouched (ap_renames p) q Hr) at 1.
  rewrite apply_lookup; [|exact W|].
  - rewrite L. cbn [option_map]. rewrite spec_content_unplanned by exact Hh. reflexivity.
  - apply (key_avoids _ t (po_shape _ _ W) (po_fs _ _ W)). eapply lookup_some_in. exact L.
Qed.

(* ... and nothing appears: a path that is absent, not at/below a renamed path and not at/below a
   planned destination is still absent *)
Corollary apply_nothing_appears p t q :
  plan_ok p t -> lookup t q = None ->
  (forall r, In r (ap_renames p) -> path_prefix (ar_path r) q = false) ->
  (forall r, In r (ap_renames p) -> path_prefix (ar_new r) q = false) ->
  lookup (r_fs (apply_core no_fault p t)) q = None.
Proof.
  intros W L Hr Hd.
  rewrite <- (final_path_untouched (ap_renames p) q Hr) at 1.
  rewrite apply_lookup; [rewrite L; reflexivity|exact W|]. intros r I _. apply Hd. exact I.
Qed.

(* (2) the number of nodes is unchanged *)
Corollary apply_node_count p t :
  plan_ok p t -> length (r_fs (apply_core no_fault p t)) = length t.
Proof.
  intro W. destruct (apply_is_spec p t W) as (_ & _ & P & _).
  rewrite (Permutation_length P). unfold spec_apply. apply map_length.
Qed.

(* (3) an edited file ends at its final path (whether or not it, or a directory above it, is
   renamed) with the reference splice of its ORIGINAL content, the edits being those planned for
   its OLD path; mode bits kept *)
Corollary apply_edited_file p t h m c :
  plan_ok p t -> In h (ap_hunks p) -> lookup t (ah_file h) = Some (File m c) ->
  lookup (r_fs (apply_core no_fault p t)) (final_path (ap_renames p) (ah_file h))
  = Some (File m (spec_splice c (sort_edits (edits_of (ap_hunks p) (ah_file h))))).
Proof.
  intros W Ih L. rewrite apply_lookup; [|exact W|].
  - rewrite L. cbn [option_map spec_content].
    pose proof (edits_by_file_has_key _ _ Ih) as K. apply in_map_iff in K as [[f es] [E I]].
    cbn [fst] in E. subst f.
    rewrite (find_in_nodup _ _ _ (edits_by_file_nodup _) I), (edits_by_file_group _ _ _ I). reflexivity.
  - apply (key_avoids _ t (po_shape _ _ W) (po_fs _ _ W)). eapply lookup_some_in. exact L.
Qed.

(* where a renamed path itself goes: its parent's final location plus the new last component *)
Lemma final_path_source rs r :
  NoDup (map ar_path rs) -> In r rs -> shape r ->
  final_path rs (ar_path r) = final_path rs (parent (ar_path r)) ++ [last (ar_new r) []].
Proof.
  intros N I S. destruct (shape_snoc r S) as (s0 & c & n & E1 & E2 & E3).
  unfold parent. rewrite E1 at 2. rewrite removelast_last.
  rewrite E1 at 1. rewrite final_path_snoc. f_equal. f_equal. unfold nm.
  rewrite <- E1, (new_name_of_in rs r N I). reflexivity.
Qed.

(* (4) the bookkeeping list: one entry per planned rename, in execution order, pairing the planned
   source with the place where it ended up *)
Lemma stage_perf_closed_form L : ok L ->
  stage_perf L [] = map (fun r => (ar_path r, final_path L (ar_path r))) L.
Proof.
  induction L as [|r L1 IH] using rev_ind; intro O; [reflexivity|].
  pose proof (ok_app_l _ _ O) as O1.
  destruct (ok_snoc_facts _ _ O) as [Hs [Hext [Hd Hav]]].
  rewrite (stage_perf_snoc L1 r O1), (IH O1), map_app. cbn [map]. f_equal.
  - apply map_ext_in. intros r1 I. f_equal. symmetry. apply step_miss. apply Hext. exact I.
  - f_equal. f_equal. pose proof (step_hit L1 r Hs Hext Hd []) as X.
    rewrite !app_nil_r in X. symmetry. exact X.
Qed.

Corollary apply_performed p t :
  plan_ok p t ->
  r_performed (apply_core no_fault p t)
  = map (fun r => (ar_path r, final_path (ap_renames p) (ar_path r))) (sort_renames (ap_renames p)) /\
  Permutation (map fst (r_performed (apply_core no_fault p t))) (map ar_path (ap_renames p)).
Proof.
  intro W. destruct (apply_is_spec p t W) as (_ & _ & _ & _ & _ & _ & E).
  pose proof (tree_wf_renames _ t (po_shape _ _ W) (po_src_nodup _ _ W) (po_dst_inj _ _ W) (po_fs _ _ W)) as Wr.
  assert (X : r_performed (apply_core no_fault p t)
              = map (fun r => (ar_path r, final_path (ap_renames p) (ar_path r))) (sort_renames (ap_renames p))).
  { rewrite E, (stage_perf_closed_form _ (wf_sorted_ok _ Wr)). apply map_ext. intro r. f_equal.
    symmetry. apply final_path_perm; [apply Permutation_sym, sort_renames_perm | exact (po_src_nodup _ _ W)]. }
  split; [exact X|]. rewrite X, map_map. cbn [fst]. apply Permutation_map, sort_renames_perm.
Qed.

(* ==================================================================================== *)
(* 6. non-vacuity: a directory rename d -> e containing an edited file d/f.txt (two edits, listed *)
(*    out of position order, multi-byte text, mode 0600) that is itself renamed to g.txt, a        *)
(*    bystander inside the directory and a bystander outside with the same content                 *)
(* ==================================================================================== *)
Module Witness.
  Local Open Scope N_scope.
  Definition hk f a b o n := {| ah_file := f; ah_start := a; ah_end := b; ah_content := o; ah_replace := n |}.
  Definition mk p n d := {| ar_path := p; ar_new := n; ar_dir := d |}.
  Definition d : name := [100]. Definition e : name := [101].
  Definition ftxt : name := [102; 46; 116; 120; 116].   (* f.txt *)
  Definition gtxt : name := [103; 46; 116; 120; 116].   (* g.txt *)
  Definition y : name := [121]. Definition z : name := [122].
  Definition c0 : bytes := [111; 108; 100; 32; 195; 169; 32; 111; 108; 100].   (* "old é old" *)
  Definition t0 : fs :=
    [([d], Dir 493); ([d; ftxt], File 384 c0); ([d; y], File 420 [1; 2; 3]); ([z], File 420 c0)].
  Definition p0 : aplan :=
    {| ap_id := [];
       ap_hunks := [hk [d; ftxt] 7%nat 10%nat [111; 108; 100] [110; 101; 119; 101; 114];
                    hk [d; ftxt] 0%nat 3%nat [111; 108; 100] [110]];
       ap_renames := [mk [d; ftxt] [d; gtxt] false; mk [d] [e] true] |}.

  Ltac each_in H := cbn in H; repeat (destruct H as [<- | H]); try contradiction.

  Lemma p0_ok : plan_ok p0 t0.
  Proof.
    split.
    - repeat constructor; cbn; intuition discriminate.
    - intros h I. each_in I; (eexists; eexists; split; [vm_compute; reflexivity|]; repeat split; vm_compute; reflexivity).
    - intros r I. each_in I; (split; [discriminate|split; reflexivity]).
    - repeat constructor; cbn; intuition discriminate.
    - intros r1 r2 I1 I2. each_in I1; each_in I2; cbn; intro H; try reflexivity; discriminate.
    - split.
      + intros r I. each_in I; eexists; split; vm_compute; reflexivity.
      + intros k a b I E Na Nb. each_in I;
          destruct a as [|a0 [|a1 [|a2 a]]]; try contradiction; cbn in E;
          inversion E; subst; try contradiction; eexists; vm_compute; reflexivity.
      + intros r I. each_in I; vm_compute; reflexivity.
    - intros r I C. each_in I; vm_compute in C; discriminate.
  Qed.

  (* both sides compute: the run succeeds, and the two trees are the same finite map
     (they are NOT the same list: the edited file has moved to the front) *)
  Example p0_computes :
    r_ok (apply_core no_fault p0 t0) = true /\
    r_fs (apply_core no_fault p0 t0) =
      [([e; gtxt], File 384 [110; 32; 195; 169; 32; 110; 101; 119; 101; 114]);   (* "n é newer", 0600 *)
       ([e], Dir 493); ([e; y], File 420 [1; 2; 3]); ([z], File 420 c0)] /\
    spec_apply p0 t0 =
      [([e], Dir 493);
       ([e; gtxt], File 384 [110; 32; 195; 169; 32; 110; 101; 119; 101; 114]);
       ([e; y], File 420 [1; 2; 3]); ([z], File 420 c0)] /\
    fs_eqb (r_fs (apply_core no_fault p0 t0)) (spec_apply p0 t0) = true /\
    r_performed (apply_core no_fault p0 t0) = [([d], [e]); ([d; ftxt], [e; gtxt])].
  Proof. vm_compute. repeat split. Qed.

  (* list equality is false of the model, already on this instance *)
  Example list_equality_refuted :
    exists p t, plan_ok p t /\ r_fs (apply_core no_fault p t) <> spec_apply p t.
  Proof. exists p0, t0. split; [exact p0_ok|]. vm_compute. discriminate. Qed.

  (* the theorems apply *)
  Example p0_theorem : Permutation (r_fs (apply_core no_fault p0 t0)) (spec_apply p0 t0).
  Proof. exact (proj1 (proj2 (proj2 (apply_is_spec p0 t0 p0_ok)))). Qed.
  Example p0_bystander : lookup (r_fs (apply_core no_fault p0 t0)) [z] = Some (File 420 c0).
  Proof.
    apply (apply_bystander p0 t0 [z] _ p0_ok); [reflexivity| |].
    - intros h I. each_in I; discriminate.
    - intros r I. each_in I; reflexivity.
  Qed.
  Example p0_edited_and_moved :
    lookup (r_fs (apply_core no_fault p0 t0)) [e; gtxt]
    = Some (File 384 [110; 32; 195; 169; 32; 110; 101; 119; 101; 114]).
  Proof.
    exact (apply_edited_file p0 t0 (hk [d; ftxt] 0%nat 3%nat [111; 108; 100] [110]) 384 c0 p0_ok
             (or_intror (or_introl eq_refl)) eq_refl).
  Qed.
End Witness.

(* ==================================================================================== *)
(* 7. the edit hypothesis in elementary terms                                            *)
(* ==================================================================================== *)
(* [wf_edits c (sort_edits es)] follows from conditions on single edits and on pairs of edits,
   whatever the order in which the plan lists them: every edit is non-empty, its recorded text is
   what the file holds at [start, end) (which includes: in range, on character boundaries), its
   replacement does not start with a continuation byte, and any two edits are disjoint. *)

Definition disjoint (a b : edit) : Prop := e_stop a <= e_start b \/ e_stop b <= e_start a.
Definition le_start (a b : edit) : Prop := e_start a <= e_start b.
Definition good_edit (c : bytes) (e : edit) : Prop :=
  edit_matches c e = true /\ head_ok (e_new e) = true /\ e_start e < e_stop e.

Lemma disjoint_sym a b : disjoint a b -> disjoint b a.
Proof. unfold disjoint. tauto. Qed.

Lemma ins_edit_in e l x : In x (ins_edit e l) -> x = e \/ In x l.
Proof.
  intro I. apply (Permutation_in _ (Permutation_sym (ins_edit_perm e l))) in I.
  destruct I as [<-|I]; auto.
Qed.

Lemma ins_edit_sorted e l : StronglySorted le_start l -> StronglySorted le_start (ins_edit e l).
Proof.
  induction l as [|x l IH]; intro S; cbn [ins_edit]; [repeat constructor|].
  apply StronglySorted_inv in S as [S F].
  destruct (Nat.leb (e_start e) (e_start x)) eqn:E.
  - apply Nat.leb_le in E. constructor; [constructor; assumption|].
    constructor; [exact E|]. eapply Forall_impl; [|exact F]. unfold le_start. intros y Hy. lia.
  - apply Nat.leb_gt in E. constructor; [apply IH; exact S|].
    apply Forall_forall. intros y Iy. apply ins_edit_in in Iy as [->|Iy].
    + unfold le_start. lia.
    + rewrite Forall_forall in F. apply F. exact Iy.
Qed.

Lemma ins_edit_pairs e l :
  Forall (disjoint e) l -> ForallOrdPairs disjoint l -> ForallOrdPairs disjoint (ins_edit e l).
Proof.
  induction l as [|x l IH]; intros Fe P; cbn [ins_edit]; [repeat constructor|].
  inversion Fe as [|? ? Dex Fe']; subst. inversion P as [|? ? Fx P']; subst.
  destruct (Nat.leb (e_start e) (e_start x)).
  - constructor; [exact Fe|exact P].
  - constructor; [|apply IH; assumption].
    apply Forall_forall. intros y Iy. apply ins_edit_in in Iy as [->|Iy].
    + apply disjoint_sym. exact Dex.
    + rewrite Forall_forall in Fx. apply Fx. exact Iy.
Qed.

Lemma sort_edits_in es x : In x (sort_edits es) -> In x es.
Proof. apply Permutation_in. apply Permutation_sym, sort_edits_perm. Qed.

Lemma sort_edits_sorted_pairs es :
  ForallOrdPairs disjoint es ->
  StronglySorted le_start (sort_edits es) /\ ForallOrdPairs disjoint (sort_edits es).
Proof.
  unfold sort_edits. induction es as [|e es IH]; intro P; cbn [fold_right]; [split; constructor|].
  inversion P as [|? ? Fe P']; subst. destruct (IH P') as [S Q]. split.
  - apply ins_edit_sorted. exact S.
  - apply ins_edit_pairs; [|exact Q]. apply Forall_forall. intros y Iy.
    rewrite Forall_forall in Fe. apply Fe. apply sort_edits_in. exact Iy.
Qed.

Lemma wf_from_sorted c : forall l pos,
  StronglySorted le_start l -> ForallOrdPairs disjoint l -> (forall e, In e l -> good_edit c e) ->
  (forall e, In e l -> pos <= e_start e) -> wf_edits_from c pos l = true.
Proof.
  induction l as [|a l IH]; intros pos S P G Hpos; [reflexivity|].
  apply StronglySorted_inv in S as [S F]. inversion P as [|? ? Fa P']; subst.
  destruct (G a (or_introl eq_refl)) as (M & Hn & Ne). unfold edit_matches in M.
  cbn [wf_edits_from]. rewrite Hn.
  replace (Nat.leb pos (e_start a)) with true by (symmetry; apply Nat.leb_le; apply Hpos; left; reflexivity).
  destruct (str_slice c (e_start a) (e_stop a)) as [act|]; [|discriminate]. rewrite M. cbn [andb].
  apply IH; [exact S|exact P'|intros e I; apply G; right; exact I|].
  intros e I. rewrite Forall_forall in F, Fa. specialize (F e I). specialize (Fa e I).
  destruct (G e (or_intror I)) as (_ & _ & Nee). unfold le_start in F. destruct Fa as [D|D]; lia.
Qed.

Theorem wf_sorted_of_pairwise c es :
  (forall e, In e es -> good_edit c e) -> ForallOrdPairs disjoint es ->
  wf_edits c (sort_edits es) = true.
Proof.
  intros G P. destruct (sort_edits_sorted_pairs es P) as [S Q].
  apply wf_from_sorted; [exact S|exact Q| |intros; lia].
  intros e I. apply G. apply sort_edits_in. exact I.
Qed.

(* the same at the level of the hunks of a plan *)
Lemma pairs_filter {A} (R : A -> A -> Prop) f l : ForallOrdPairs R l -> ForallOrdPairs R (filter f l).
Proof.
  induction 1 as [|a l Fa P IH]; cbn [filter]; [constructor|].
  destruct (f a); [|exact IH]. constructor; [|exact IH].
  apply Forall_forall. intros y Iy. apply filter_In in Iy as [Iy _]. rewrite Forall_forall in Fa. auto.
Qed.
Lemma pairs_map {A B} (R : B -> B -> Prop) (g : A -> B) l :
  ForallOrdPairs (fun a b => R (g a) (g b)) l -> ForallOrdPairs R (map g l).
Proof.
  induction 1 as [|a l Fa P IH]; cbn [map]; [constructor|]. constructor; [|exact IH].
  apply Forall_forall. intros y Iy. apply in_map_iff in Iy as [x [<- Ix]]. rewrite Forall_forall in Fa. auto.
Qed.

Theorem hunks_wf hs f c :
  (forall h, In h hs -> ah_file h = f -> good_edit c (edit_of h)) ->
  ForallOrdPairs (fun h1 h2 => ah_file h1 = ah_file h2 -> disjoint (edit_of h1) (edit_of h2)) hs ->
  wf_edits c (sort_edits (edits_of hs f)) = true.
Proof.
  intros G P. apply wf_sorted_of_pairwise.
  - intros e I. unfold edits_of in I. apply in_map_iff in I as [h [<- Ih]].
    apply filter_In in Ih as [Ih E]. apply path_eqb_eq in E. apply G; assumption.
  - unfold edits_of. apply pairs_map.
    assert (Q : ForallOrdPairs (fun h1 h2 => ah_file h1 = ah_file h2 -> disjoint (edit_of h1) (edit_of h2))
                  (filter (fun h => path_eqb (ah_file h) f) hs)) by (apply pairs_filter; exact P).
    revert Q. generalize (filter_In (fun h => path_eqb (ah_file h) f) : forall x l, _).
    intros FI Q. 
    assert (Same : forall h, In h (filter (fun h => path_eqb (ah_file h) f) hs) -> ah_file h = f).
    { intros h I. apply FI in I as [_ E]. apply path_eqb_eq. exact E. }
    clear FI. induction Q as [|a l Fa Q IH]; [constructor|]. constructor.
    + apply Forall_forall. intros y Iy. rewrite Forall_forall in Fa. apply Fa; [exact Iy|].
      rewrite (Same a (or_introl eq_refl)), (Same y (or_intror Iy)). reflexivity.
    + apply IH. intros h I. apply Same. right. exact I.
Qed.

(* the pairwise condition cannot be weakened to "disjoint" for EMPTY edits: two edits at the same
   offset, one of them empty, are accepted in one listing order and rejected in the other (the sort is
   stable and compares start offsets only) *)
Example empty_edit_order_matters :
  let c := [97; 98; 99]%N in
  let e1 := {| e_start := 1; e_stop := 1; e_old := []; e_new := [120]%N |} in
  let e2 := {| e_start := 1; e_stop := 2; e_old := [98]%N; e_new := [121]%N |} in
  disjoint e1 e2 /\
  apply_edits_rev c [e1; e2] = Ok [97; 120; 121; 99]%N /\ apply_edits_rev c [e2; e1] = Mismatch.
Proof. vm_compute. repeat split. left. constructor. Qed.

(* non-vacuity of [hunks_wf]: the hunks of the witness plan, listed out of position order *)
Example p0_hunks_elementary :
  wf_edits Witness.c0 (sort_edits (edits_of (ap_hunks Witness.p0) [Witness.d; Witness.ftxt])) = true.
Proof.
  apply hunks_wf.
  - intros h I _. cbn in I. destruct I as [<-|[<-|[]]]; (split; [vm_compute; reflexivity|split; [reflexivity|cbn; lia]]).
  - cbn [ap_hunks Witness.p0]. constructor; [|repeat constructor].
    constructor; [|constructor]. intros _. right. cbn. lia.
Qed.

(* ==================================================================================== *)
(* 8. the hypotheses that the proof forces, each with a witness in the model              *)
(*    (the same inputs were run on the real apply_plan through rn-harness, see the report) *)
(* ==================================================================================== *)
Module Forced.
  Local Open Scope N_scope.
  Import Witness.
  Definition a_txt : name := [97; 46; 116; 120; 116].
  Definition b_txt : name := [98; 46; 116; 120; 116].
  Definition old : bytes := [111; 108; 100].
  Definition new : bytes := [110; 101; 119].

  (* (i) [lookup t (tmp_of f) = None]: when an entry already carries the temp name the run FAILS and that entry is left
     alone (OpenOptions::create_new in apply_content_edits_with_content).  This hypothesis was first forced on the proof by
     the code as it was - File::create truncated a user file of that name, wrote through a symlink of that name, and the
     run reported success: a bystander destroyed, reproduced on the real apply_plan - and led to the repo fix; the model's
     create_fs now has O_EXCL semantics like the code *)
  Definition t_tmp : fs := [([a_txt], File 420 old); (tmp_of [a_txt], File 420 [1; 2; 3])].
  Definition p_tmp : aplan := {| ap_id := []; ap_hunks := [hk [a_txt] 0%nat 3%nat old new]; ap_renames := [] |}.
  Example tmp_name_must_be_free :
    r_ok (apply_core no_fault p_tmp t_tmp) = false /\
    lookup t_tmp (tmp_of [a_txt]) = Some (File 420 [1; 2; 3]) /\
    lookup (r_fs (apply_core no_fault p_tmp t_tmp)) (tmp_of [a_txt]) = Some (File 420 [1; 2; 3]) /\
    lookup (r_fs (apply_core no_fault p_tmp t_tmp)) [a_txt] = Some (File 420 old) /\
    (forall h, In h (ap_hunks p_tmp) -> ah_file h <> tmp_of [a_txt]).
  Proof. vm_compute. repeat split. intros h [<-|[]]. discriminate. Qed.

  (* (ii) [utf8_ok c]: a planned file whose content is not UTF-8 fails the run (fs::read_to_string) BEFORE any file is
     changed.  When this hypothesis was first forced on the proof the code read each file just before editing it, so the
     files before the unreadable one in path order had already been rewritten - reproduced on the real CLI with a Latin-1
     file, and repaired (apply_plan now reads every file to be edited first); the model's apply_core has the same pass *)
  Definition t_bin : fs := [([a_txt], File 420 old); ([b_txt], File 420 [111; 108; 100; 32; 255])].
  Definition p_bin : aplan :=
    {| ap_id := []; ap_hunks := [hk [a_txt] 0%nat 3%nat old new; hk [b_txt] 0%nat 3%nat old new]; ap_renames := [] |}.
  Example content_must_be_utf8 :
    r_ok (apply_core no_fault p_bin t_bin) = false /\
    r_fail (apply_core no_fault p_bin t_bin) = Some (FailRead [b_txt]) /\
    r_fs (apply_core no_fault p_bin t_bin) = t_bin.
  Proof. vm_compute. repeat split. Qed.

  (* (iii) [po_probe] is forced by the MODEL only: it issues the case-sensitivity probe unconditionally, and creating
     (create_new) an existing ".renamify_case_test" fails, so the model's run fails (the user's file is left alone);
     the real is_case_insensitive_fs skips the probe when the name exists and the rename goes ahead *)
  Definition t_probe : fs := [([[97]], File 420 [1]); ([probe_name], File 420 [2])].
  Definition p_probe : aplan := {| ap_id := []; ap_hunks := []; ap_renames := [mk [[97]] [[65]] false] |}.
  Example probe_name_must_be_free_in_the_model :
    r_ok (apply_core no_fault p_probe t_probe) = false /\
    lookup (r_fs (apply_core no_fault p_probe t_probe)) [probe_name] = Some (File 420 [2]).
  Proof. vm_compute. repeat split. Qed.

  (* (iv) [NoDup (keys t)]: an association list with a repeated key is not a tree *)
  Definition t_dup : fs := [([a_txt], File 420 old); ([a_txt], File 420 old)].
  Example keys_must_be_distinct :
    r_ok (apply_core no_fault p_tmp t_dup) = true /\
    length (r_fs (apply_core no_fault p_tmp t_dup)) = 1%nat /\ length (spec_apply p_tmp t_dup) = 2%nat.
  Proof. vm_compute. repeat split. Qed.
End Forced.

(* ==================================================================================== *)
(* Assumptions                                                                           *)
(* ==================================================================================== *)
Print Assumptions apply_is_spec.
Print Assumptions apply_lookup.
Print Assumptions apply_bystander.
Print Assumptions apply_nothing_appears.
Print Assumptions apply_node_count.
Print Assumptions apply_edited_file.
Print Assumptions apply_performed.
Print Assumptions edits_by_file_group.
Print Assumptions wf_sorted_of_pairwise.
Print Assumptions hunks_wf.
Print Assumptions Witness.p0_ok.
