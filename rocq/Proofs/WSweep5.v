(* Proofs/WSweep5.v — residue class 5 (mod 16) of the C20 sweep over every builder's option space *)
From RN Require Import Base.Bytes Model.ClapDef Model.Clap Model.Wrappers Gen.GenCli Gen.GenWrappers.
Lemma sweep5 : forallb (builder_chunk_ok gen_globals gen_cli 16 5) gen_builders = true.
Proof. vm_compute. reflexivity. Qed.
