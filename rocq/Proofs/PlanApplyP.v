(* Proofs/PlanApplyP.v — property C08, planner side composed with apply side.
   Props/C08.v states the planner facts (Model/Renames.v) and the rename-stage theorem (C08_compose) separately; the
   latter ASSUMES shape / distinct sources / injective destinations / fs_ok about an arbitrary rename list.  Here the
   list is the one the planner computes from THE listing of the tree:

       rs := without_conflicts (plan_listing namefn rf rd l)          (rename.rs::plan_renames_with_conflicts_and_params)
       ( = dedupe_paths [] rs, the per-root concatenation + first-wins filter of scanner.rs, for a single listing )

   and all those hypotheses are DERIVED from [listing_of t l] plus the one fact no planner can know by itself:
   every planned destination is free in the tree (the check apply_plan makes before it touches anything).
   Stdlib only, no axioms. *)
From Coq Require Import List Arith Lia Bool NArith Permutation.
From RN Require Import Base.Bytes Model.Edits Model.Fs Model.ApplyModel Model.Renames
  Proofs.RenameP Proofs.RenameP2 Proofs.RenamesP Proofs.Apply2P Proofs.ApplySpecP.
Import ListNotations.
Close Scope N_scope.

(* ==================================================================================== *)
(* 1. THE listing of a tree                                                              *)
(* ==================================================================================== *)

(* what a directory walk of [t] guarantees about its output [l] *)
Record listing_of (t : fs) (l : list wentry) : Prop := {
  (* the tree is a finite map and a directory tree: parents of entries are directories *)
  lo_keys : NoDup (map fst t);
  lo_parents : closed_dir t;
  (* every entry is listed once ... *)
  lo_once : NoDup (map en_path l);
  (* ... it is an entry of the tree, listed as a directory iff it is one (files and symlinks: false) ... *)
  lo_sound : forall e, In e l -> exists n, lookup t (en_path e) = Some n /\ dirnode n = en_dir e;
  (* ... and every entry of the tree other than the root is listed *)
  lo_complete : forall k n, lookup t k = Some n -> k <> [] -> In {| en_path := k; en_dir := dirnode n |} l
}.

(* the canonical walk *)
Definition walk (t : fs) : list wentry :=
  map (fun kn => {| en_path := fst kn; en_dir := dirnode (snd kn) |})
      (filter (fun kn => negb (path_eqb (fst kn) [])) t).

Lemma NoDup_map_filter {A B} (f : A -> B) (p : A -> bool) l : NoDup (map f l) -> NoDup (map f (filter p l)).
Proof.
  induction l as [|x l IH]; cbn [map filter]; intro H; [constructor|].
  inversion H as [|? ? Nx H']; subst. destruct (p x); cbn [map]; [|apply IH; exact H'].
  constructor; [|apply IH; exact H']. intro I. apply Nx. apply in_map_iff in I as [y [E I]].
  apply filter_In in I as [I _]. apply in_map_iff. exists y. auto.
Qed.

Lemma NoDup_map_inj {A B} (f : A -> B) l a b : NoDup (map f l) -> In a l -> In b l -> f a = f b -> a = b.
Proof.
  induction l as [|x l IH]; cbn [map]; intros H Ia Ib E; [contradiction|].
  inversion H as [|? ? Nx H']; subst. destruct Ia as [<- | Ia]; destruct Ib as [<- | Ib].
  - reflexivity.
  - exfalso. apply Nx. rewrite E. apply in_map. exact Ib.
  - exfalso. apply Nx. rewrite <- E. apply in_map. exact Ia.
  - apply IH; assumption.
Qed.

Lemma lookup_in t k n : lookup t k = Some n -> In (k, n) t.
Proof.
  induction t as [|[k' x] t IH]; cbn [lookup]; [discriminate|].
  destruct (path_eqb k' k) eqn:E.
  - intro H. inversion H; subst. apply RenameP.path_eqb_eq in E. subst. left. reflexivity.
  - intro H. right. apply IH. exact H.
Qed.

Theorem walk_listing_of t : NoDup (map fst t) -> closed_dir t -> listing_of t (walk t).
Proof.
  intros ND C. split; [exact ND|exact C| | |].
  - unfold walk. rewrite map_map. cbn [en_path]. apply NoDup_map_filter. exact ND.
  - intros e I. unfold walk in I. apply in_map_iff in I as [[k n] [<- I]]. apply filter_In in I as [I _].
    exists n. cbn [en_path en_dir fst snd]. split; [|reflexivity]. apply lookup_in_nodup; assumption.
  - intros k n L Nk. unfold walk. apply in_map_iff. exists (k, n). split; [reflexivity|].
    apply filter_In. split; [apply lookup_in; exact L|]. cbn [fst].
    destruct k; [contradiction|reflexivity].
Qed.

(* ==================================================================================== *)
(* 2. the planner's list                                                                 *)
(* ==================================================================================== *)

Lemma wc_in rs r : In r (without_conflicts rs) -> In r rs.
Proof. unfold without_conflicts. intro H. apply filter_In in H as [H _]. exact H. Qed.

Lemma existsb_path_absent p seen : ~ In p seen -> existsb (path_eqb p) seen = false.
Proof.
  induction seen as [|q seen IH]; cbn [existsb]; intro H; [reflexivity|].
  rewrite IH by (intro I; apply H; right; exact I).
  destruct (path_eqb p q) eqn:E; [|reflexivity]. apply RenameP.path_eqb_eq in E. exfalso. apply H. left. auto.
Qed.

(* scanner.rs: the per-root lists are concatenated and each source is kept once, first wins.  For one listing
   (sources already pairwise distinct) that filter is the identity *)
Lemma dedupe_paths_id_gen rs : forall seen,
  NoDup (map ar_path rs) -> (forall r, In r rs -> ~ In (ar_path r) seen) -> dedupe_paths seen rs = rs.
Proof.
  induction rs as [|x rs IH]; intros seen ND H; cbn [dedupe_paths]; [reflexivity|].
  cbn [map] in ND. inversion ND as [|? ? Nx ND']; subst.
  rewrite existsb_path_absent by (apply H; left; reflexivity). f_equal. apply IH; [exact ND'|].
  intros r I [E | S].
  - apply Nx. rewrite E. apply in_map. exact I.
  - apply (H r); [right; exact I|exact S].
Qed.

Theorem dedupe_paths_id rs : NoDup (map ar_path rs) -> dedupe_paths [] rs = rs.
Proof. intro ND. apply dedupe_paths_id_gen; [exact ND|]. intros r _ []. Qed.

(* a listed entry with a new, different name, of an enabled kind, is scheduled, with exactly that new path *)
Lemma plan_entry_hit namefn e par c n :
  en_path e = par ++ [c] -> namefn c = Some n -> n <> c ->
  plan_entry namefn e = [{| ar_path := par ++ [c]; ar_new := par ++ [n]; ar_dir := en_dir e |}].
Proof.
  intros P F D. unfold plan_entry. rewrite P, rev_unit, F.
  destruct (beq n c) eqn:B; [apply beq_eq in B; contradiction|]. rewrite rev_involutive. reflexivity.
Qed.

Lemma plan_listing_hit namefn rf rd l e par c n :
  In e l -> en_path e = par ++ [c] -> namefn c = Some n -> n <> c -> (if en_dir e then rd else rf) = true ->
  In {| ar_path := par ++ [c]; ar_new := par ++ [n]; ar_dir := en_dir e |} (plan_listing namefn rf rd l).
Proof.
  intros I P F D K. unfold plan_listing. apply in_flat_map. exists e. split; [exact I|].
  rewrite K, (plan_entry_hit namefn e par c n P F D). left. reflexivity.
Qed.

(* an entry whose name the name function leaves alone is not scheduled *)
Lemma plan_listing_miss namefn rf rd l q c :
  namefn c = None \/ namefn c = Some c ->
  forall r, In r (plan_listing namefn rf rd l) -> ar_path r <> q ++ [c].
Proof.
  intros F r I E. unfold plan_listing in I. apply in_flat_map in I as [e [_ I]].
  destruct (if en_dir e then rd else rf); [|destruct I].
  unfold plan_entry in I. destruct (rev (en_path e)) as [|lst pre] eqn:R; [destruct I|].
  assert (P : en_path e = rev pre ++ [lst]) by (rewrite <- (rev_involutive (en_path e)), R; reflexivity).
  destruct (namefn lst) as [n|] eqn:Fn; [|destruct I].
  destruct (beq n lst) eqn:B; [destruct I|]. destruct I as [<- | []]. cbn [ar_path] in E.
  rewrite P in E. apply app_inj_tail in E as [_ ->].
  destruct F as [F | F]; rewrite F in Fn; [discriminate|]. inversion Fn; subst. rewrite beq_refl in B. discriminate.
Qed.

(* a destination that is not a conflict target passes the filter *)
Lemma wc_keeps pl r : In r pl -> ~ In (ar_new r) (conflict_targets pl) -> In r (without_conflicts pl).
Proof.
  intros I N. unfold without_conflicts. apply filter_In. split; [exact I|].
  destruct (Nat.ltb 1 (target_count pl (ar_new r))) eqn:C; [|reflexivity].
  exfalso. apply N. unfold conflict_targets. apply in_map. apply filter_In. auto.
Qed.

(* rename.rs::plan_renames_with_search (the entry point scanner.rs uses) FAILS the whole scan when there is any
   conflict; a plan that reaches apply therefore has none, and then the filter is the identity *)
Lemma filter_all {A} (f : A -> bool) l : (forall x, In x l -> f x = true) -> filter f l = l.
Proof.
  induction l as [|x l IH]; intro H; cbn [filter]; [reflexivity|].
  rewrite (H x (or_introl eq_refl)). f_equal. apply IH. intros y I. apply H. right. exact I.
Qed.

Theorem without_conflicts_id pl : conflict_targets pl = [] -> without_conflicts pl = pl.
Proof.
  intro H. unfold without_conflicts. apply filter_all. intros r I.
  destruct (Nat.ltb 1 (target_count pl (ar_new r))) eqn:C; [|reflexivity]. exfalso.
  assert (X : In (ar_new r) (conflict_targets pl)).
  { unfold conflict_targets. apply in_map. apply filter_In. auto. }
  rewrite H in X. destruct X.
Qed.

(* the three order-independent facts, for any listing whose paths are pairwise distinct *)
Theorem planner_shape namefn rf rd l r :
  In r (without_conflicts (plan_listing namefn rf rd l)) -> shape r.
Proof. intro I. apply wc_in in I. apply plan_listing_shape in I as [S _]. exact S. Qed.

Theorem planner_sources_nodup namefn rf rd l :
  NoDup (map en_path l) -> NoDup (map ar_path (without_conflicts (plan_listing namefn rf rd l))).
Proof. intro ND. unfold without_conflicts. apply NoDup_map_filter. apply plan_listing_sources_nodup. exact ND. Qed.

Theorem planner_dst_inj namefn rf rd l r1 r2 :
  NoDup (map en_path l) ->
  In r1 (without_conflicts (plan_listing namefn rf rd l)) -> In r2 (without_conflicts (plan_listing namefn rf rd l)) ->
  ar_new r1 = ar_new r2 -> ar_path r1 = ar_path r2.
Proof.
  intros ND I1 I2 E. f_equal. apply (without_conflicts_distinct_targets (plan_listing namefn rf rd l)); auto.
  apply (NoDup_map_inv ar_path). apply plan_listing_sources_nodup. exact ND.
Qed.

(* fs_ok: sources exist with the planned kind (the listing is sound), prefixes are directories (the tree is one),
   destinations free (the hypothesis) *)
Theorem planner_fs_ok namefn rf rd t l :
  listing_of t l ->
  (forall r, In r (without_conflicts (plan_listing namefn rf rd l)) -> lookup t (ar_new r) = None) ->
  fs_ok t (without_conflicts (plan_listing namefn rf rd l)).
Proof.
  intros HL Free. split.
  - intros r I. apply wc_in in I. apply plan_listing_shape in I as (_ & _ & e & Ie & P & K & _).
    destruct (lo_sound _ _ HL e Ie) as [n [L D]]. exists n. rewrite P, K. auto.
  - intros k a b I -> Na Nb. exact (lo_parents _ _ HL a b I Na Nb).
  - exact Free.
Qed.

(* ==================================================================================== *)
(* 3. MAIN THEOREM: the planner's own output satisfies the hypotheses of the rename-stage *)
(*    theorem and of apply_is_spec, hence the stage succeeds and every entry of the tree  *)
(*    ends at its final path                                                              *)
(* ==================================================================================== *)

Theorem planner_apply_compose namefn rf rd t l :
  listing_of t l ->
  let rs := without_conflicts (plan_listing namefn rf rd l) in
  (* no planned destination is occupied *)
  (forall r, In r rs -> lookup t (ar_new r) = None) ->
  (* a case-only rename probes with a temporary name next to its source: free, and not a planned destination
     (vacuous when no rename is case-only: planner_apply_compose_no_case_only) *)
  (forall r, In r rs -> case_only (ar_path r) (ar_new r) = true ->
     lookup t (parent (ar_path r) ++ [probe_name]) = None /\
     forall r1, In r1 rs -> ar_new r1 <> parent (ar_path r) ++ [probe_name]) ->
  (* the hypotheses of rename_stage_fs / C08_compose ... *)
  (forall r, In r rs -> shape r) /\
  NoDup (map ar_path rs) /\
  (forall r1 r2, In r1 rs -> In r2 rs -> ar_new r1 = ar_new r2 -> ar_path r1 = ar_path r2) /\
  fs_ok t rs /\
  (* ... the list is what scanner.rs keeps of it ... *)
  dedupe_paths [] rs = rs /\
  (* ... the plan made of it is well-formed for the tree (hypothesis of apply_is_spec) ... *)
  plan_ok {| ap_id := []; ap_hunks := []; ap_renames := rs |} t /\
  (* ... and the conclusion of rename_stage_fs for this rs *)
  exists s',
    rename_stage no_fault (sort_renames rs) [] [] {| s_fs := t; s_n := 0; s_trace := [] |}
    = inl (s', stage_perf (sort_renames rs) [], stage_steps (sort_renames rs) [])
    /\ s_fs s' = map (fun e => (final_path rs (fst e), snd e)) t
    /\ (forall q n, lookup t q = Some n -> lookup (s_fs s') (final_path rs q) = Some n)
    /\ (forall q, lookup t q = None -> avoids rs q -> lookup (s_fs s') (final_path rs q) = None).
Proof.
  intros HL rs Free Probe.
  assert (S : forall r, In r rs -> shape r) by (intros r I; exact (planner_shape namefn rf rd l r I)).
  assert (ND : NoDup (map ar_path rs)) by (apply planner_sources_nodup; exact (lo_once _ _ HL)).
  assert (INJ : forall r1 r2, In r1 rs -> In r2 rs -> ar_new r1 = ar_new r2 -> ar_path r1 = ar_path r2).
  { intros r1 r2. apply planner_dst_inj. exact (lo_once _ _ HL). }
  assert (F : fs_ok t rs) by (apply planner_fs_ok; assumption).
  split; [exact S|]. split; [exact ND|]. split; [exact INJ|]. split; [exact F|].
  split; [apply dedupe_paths_id; exact ND|]. split.
  - split; cbn [ap_hunks ap_renames]; try assumption.
    + exact (lo_keys _ _ HL).
    + intros h [].
  - exact (rename_stage_fs rs t S ND INJ F Probe).
Qed.

Corollary planner_apply_compose_no_case_only namefn rf rd t l :
  listing_of t l ->
  let rs := without_conflicts (plan_listing namefn rf rd l) in
  (forall r, In r rs -> lookup t (ar_new r) = None) ->
  (forall r, In r rs -> case_only (ar_path r) (ar_new r) = false) ->
  plan_ok {| ap_id := []; ap_hunks := []; ap_renames := rs |} t /\
  exists s' perf exe,
    rename_stage no_fault (sort_renames rs) [] [] {| s_fs := t; s_n := 0; s_trace := [] |} = inl (s', perf, exe)
    /\ forall q n, lookup t q = Some n -> lookup (s_fs s') (final_path rs q) = Some n.
Proof.
  intros HL rs Free NC.
  destruct (planner_apply_compose namefn rf rd t l HL Free) as (_ & _ & _ & _ & _ & P & s' & R & _ & Q & _).
  - intros r I C. fold rs in I. rewrite (NC r I) in C. discriminate.
  - split; [exact P|]. exists s', (stage_perf (sort_renames rs) []), (stage_steps (sort_renames rs) []). auto.
Qed.

(* ==================================================================================== *)
(* 4. completeness and exactness                                                         *)
(* ==================================================================================== *)

(* (completeness) a listed entry par/c of an enabled kind whose name the name function rewrites to n <> c, and whose
   destination is not a conflict target, is renamed: it is in the list with destination par/n, its final path is
   (final path of its parent) / n, and that is where its node is after the stage *)
Theorem planner_complete namefn rf rd t l :
  listing_of t l ->
  let pl := plan_listing namefn rf rd l in
  let rs := without_conflicts pl in
  (forall r, In r rs -> lookup t (ar_new r) = None) ->
  (forall r, In r rs -> case_only (ar_path r) (ar_new r) = true ->
     lookup t (parent (ar_path r) ++ [probe_name]) = None /\
     forall r1, In r1 rs -> ar_new r1 <> parent (ar_path r) ++ [probe_name]) ->
  forall e par c n,
    In e l -> en_path e = par ++ [c] -> namefn c = Some n -> n <> c ->
    (if en_dir e then rd else rf) = true ->
    ~ In (par ++ [n]) (conflict_targets pl) ->
    In {| ar_path := par ++ [c]; ar_new := par ++ [n]; ar_dir := en_dir e |} rs /\
    final_path rs (par ++ [c]) = final_path rs par ++ [n] /\
    forall s' perf exe,
      rename_stage no_fault (sort_renames rs) [] [] {| s_fs := t; s_n := 0; s_trace := [] |} = inl (s', perf, exe) ->
      exists nd, lookup t (par ++ [c]) = Some nd /\ dirnode nd = en_dir e /\
                 lookup (s_fs s') (final_path rs par ++ [n]) = Some nd.
Proof.
  intros HL pl rs Free Probe e par c n Ie P Fn D K NC.
  set (r := {| ar_path := par ++ [c]; ar_new := par ++ [n]; ar_dir := en_dir e |}).
  assert (Ir : In r rs).
  { apply wc_keeps; [|exact NC]. apply (plan_listing_hit namefn rf rd l e par c n); assumption. }
  destruct (planner_apply_compose namefn rf rd t l HL Free Probe) as (_ & ND & _ & _ & _ & _ & s0 & R & _ & Q & _).
  fold pl rs in ND, R, Q.
  assert (FP : final_path rs (par ++ [c]) = final_path rs par ++ [n]).
  { rewrite final_path_snoc. f_equal. f_equal. unfold nm.
    rewrite (new_name_of_in rs r ND Ir : new_name_of rs (par ++ [c]) = _). cbn [ar_new r]. apply last_last. }
  split; [exact Ir|]. split; [exact FP|].
  intros s' perf exe R'. rewrite R in R'. inversion R'; subst s'.
  destruct (lo_sound _ _ HL e Ie) as [nd [L Dn]]. rewrite P in L.
  exists nd. split; [exact L|]. split; [exact Dn|]. rewrite <- FP. apply Q. exact L.
Qed.

(* the same, for an entry of the TREE (the listing is complete) *)
Corollary planner_complete_tree namefn rf rd t l :
  listing_of t l ->
  let pl := plan_listing namefn rf rd l in
  let rs := without_conflicts pl in
  (forall r, In r rs -> lookup t (ar_new r) = None) ->
  (forall r, In r rs -> case_only (ar_path r) (ar_new r) = true ->
     lookup t (parent (ar_path r) ++ [probe_name]) = None /\
     forall r1, In r1 rs -> ar_new r1 <> parent (ar_path r) ++ [probe_name]) ->
  forall par c nd n,
    lookup t (par ++ [c]) = Some nd -> namefn c = Some n -> n <> c ->
    (if dirnode nd then rd else rf) = true ->
    ~ In (par ++ [n]) (conflict_targets pl) ->
    In {| ar_path := par ++ [c]; ar_new := par ++ [n]; ar_dir := dirnode nd |} rs /\
    final_path rs (par ++ [c]) = final_path rs par ++ [n] /\
    forall s' perf exe,
      rename_stage no_fault (sort_renames rs) [] [] {| s_fs := t; s_n := 0; s_trace := [] |} = inl (s', perf, exe) ->
      lookup (s_fs s') (final_path rs par ++ [n]) = Some nd.
Proof.
  intros HL pl rs Free Probe par c nd n L Fn D K NC.
  assert (Ie : In {| en_path := par ++ [c]; en_dir := dirnode nd |} l).
  { apply (lo_complete _ _ HL); [exact L|]. destruct par; discriminate. }
  destruct (planner_complete namefn rf rd t l HL Free Probe _ par c n Ie eq_refl Fn D K NC) as (A & B & C).
  split; [exact A|]. split; [exact B|]. intros s' perf exe R.
  destruct (C s' perf exe R) as (nd' & L' & _ & X). fold pl rs in X. rewrite L in L'. inversion L'; subst. exact X.
Qed.

(* (exactness) final_path rewrites the last component of q/c only if q/c is itself the source of a scheduled rename;
   otherwise q/c sits at (final path of q) / c: only the components of renamed ancestors change *)
Theorem final_path_keeps_name rs q c :
  (forall r, In r rs -> ar_path r <> q ++ [c]) -> final_path rs (q ++ [c]) = final_path rs q ++ [c].
Proof.
  intro H. rewrite final_path_snoc. unfold nm.
  rewrite (proj2 (new_name_of_none rs (q ++ [c])) H). reflexivity.
Qed.

(* the name function gives nothing, or the same name *)
Theorem planner_exact namefn rf rd l q c :
  namefn c = None \/ namefn c = Some c ->
  let rs := without_conflicts (plan_listing namefn rf rd l) in
  final_path rs (q ++ [c]) = final_path rs q ++ [c].
Proof.
  intros F rs. apply final_path_keeps_name. intros r I. apply wc_in in I.
  exact (plan_listing_miss namefn rf rd l q c F r I).
Qed.

(* the kind is switched off (--no-rename-files / --no-rename-dirs) *)
Theorem planner_exact_disabled namefn rf rd l e q c :
  NoDup (map en_path l) -> In e l -> en_path e = q ++ [c] -> (if en_dir e then rd else rf) = false ->
  let rs := without_conflicts (plan_listing namefn rf rd l) in
  final_path rs (q ++ [c]) = final_path rs q ++ [c].
Proof.
  intros ND Ie P K rs. apply final_path_keeps_name. intros r I E. apply wc_in in I.
  apply plan_listing_shape in I as (_ & _ & e' & Ie' & P' & _ & K').
  assert (e' = e) by (apply (NoDup_map_inj en_path l); congruence). subst e'. congruence.
Qed.

(* the destination is a conflict target (two entries of one directory get the same new name): both stay *)
Theorem planner_exact_conflict namefn rf rd l q c :
  NoDup (map en_path l) ->
  let pl := plan_listing namefn rf rd l in
  (forall r, In r pl -> ar_path r = q ++ [c] -> In (ar_new r) (conflict_targets pl)) ->
  final_path (without_conflicts pl) (q ++ [c]) = final_path (without_conflicts pl) q ++ [c].
Proof.
  intros ND pl H. apply final_path_keeps_name. intros r I E.
  pose proof (wc_in _ _ I) as I'. specialize (H r I' E).
  unfold without_conflicts in I. apply filter_In in I as [_ C]. apply negb_true_iff in C.
  unfold conflict_targets in H. apply in_map_iff in H as [r' [En I2]]. apply filter_In in I2 as [_ C2].
  rewrite En in C2. fold pl in C. congruence.
Qed.

(* nothing else has moved: a path none of whose prefixes is a scheduled source is where it was
   (ApplySpecP.final_path_untouched, restated for the planner's list) *)
Theorem planner_untouched namefn rf rd l q :
  let rs := without_conflicts (plan_listing namefn rf rd l) in
  (forall r, In r rs -> path_prefix (ar_path r) q = false) -> final_path rs q = q.
Proof. intros rs H. apply final_path_untouched. exact H. Qed.

(* ==================================================================================== *)
(* 5. apply_is_spec on the planner's own output                                          *)
(* ==================================================================================== *)

Lemma spec_content_no_hunks q n : spec_content [] q n = n.
Proof. destruct n; reflexivity. Qed.

Theorem planner_apply_is_spec namefn rf rd t l :
  listing_of t l ->
  let rs := without_conflicts (plan_listing namefn rf rd l) in
  (forall r, In r rs -> lookup t (ar_new r) = None) ->
  (forall r, In r rs -> case_only (ar_path r) (ar_new r) = true ->
     lookup t (parent (ar_path r) ++ [probe_name]) = None /\
     forall r1, In r1 rs -> ar_new r1 <> parent (ar_path r) ++ [probe_name]) ->
  let p := {| ap_id := []; ap_hunks := []; ap_renames := rs |} in
  r_ok (apply_core no_fault p t) = true /\
  r_fail (apply_core no_fault p t) = None /\
  Permutation (r_fs (apply_core no_fault p t)) (spec_apply p t) /\
  NoDup (keys (r_fs (apply_core no_fault p t))) /\
  (forall q, lookup (r_fs (apply_core no_fault p t)) q = lookup (spec_apply p t) q) /\
  r_performed (apply_core no_fault p t) = stage_perf (sort_renames rs) [] /\
  (* every entry of the tree sits, unchanged, at its final path ... *)
  (forall k n, lookup t k = Some n -> lookup (r_fs (apply_core no_fault p t)) (final_path rs k) = Some n) /\
  (* ... and the number of entries is what it was *)
  length (r_fs (apply_core no_fault p t)) = length t.
Proof.
  intros HL rs Free Probe p.
  destruct (planner_apply_compose namefn rf rd t l HL Free Probe) as (S & _ & _ & F & _ & W & _).
  fold rs in S, F, W. fold p in W.
  destruct (apply_is_spec p t W) as (A & B & C & _ & D & E & G).
  repeat split; try assumption.
  - intros k n L.
    assert (Av : avoids (ap_renames p) k).
    { cbn [p ap_renames]. apply (key_avoids rs t S F). eapply lookup_some_in. exact L. }
    pose proof (apply_lookup p t k W Av) as X. cbn [p ap_renames ap_hunks] in X. fold p in X.
    rewrite X, L. cbn [option_map]. rewrite spec_content_no_hunks. reflexivity.
  - apply apply_node_count. exact W.
Qed.

(* ==================================================================================== *)
(* 6. the model needs NO condition on the name function; the condition that the results   *)
(*    are single path components is what makes [par ++ [n]] the model of                  *)
(*    Path::with_file_name(n), and it is inherited by every planned destination           *)
(* ==================================================================================== *)

(* a single non-empty path component: no '/' (47), no NUL, not "." or ".." *)
Definition component_ok (c : bytes) : Prop :=
  c <> [] /\ ~ In 47%N c /\ ~ In 0%N c /\ c <> [46%N] /\ c <> [46%N; 46%N].

Theorem planner_components_ok namefn rf rd l :
  (forall c n, namefn c = Some n -> component_ok n) ->
  (forall e c, In e l -> In c (en_path e) -> component_ok c) ->
  forall r c, In r (without_conflicts (plan_listing namefn rf rd l)) -> In c (ar_new r) -> component_ok c.
Proof.
  intros HN HLc r c I Ic. apply wc_in in I. unfold plan_listing in I. apply in_flat_map in I as [e [Ie I]].
  destruct (if en_dir e then rd else rf); [|destruct I].
  unfold plan_entry in I. destruct (rev (en_path e)) as [|lst pre] eqn:R; [destruct I|].
  assert (P : en_path e = rev pre ++ [lst]) by (rewrite <- (rev_involutive (en_path e)), R; reflexivity).
  destruct (namefn lst) as [n|] eqn:Fn; [|destruct I].
  destruct (beq n lst); [destruct I|]. destruct I as [<- | []]. cbn [ar_new] in Ic.
  apply in_app_or in Ic as [Ic | [<- | []]].
  - apply (HLc e c Ie). rewrite P. apply in_or_app. left. exact Ic.
  - exact (HN lst n Fn).
Qed.

(* ==================================================================================== *)
(* 7. boolean checkers for the hypotheses (used by the examples)                         *)
(* ==================================================================================== *)

Definition closed_dirb (t : fs) : bool :=
  forallb (fun k => forallb (fun i => is_dir t (firstn i k)) (seq 1 (length k - 1))) (map fst t).

Lemma closed_dirb_sound t : closed_dirb t = true -> closed_dir t.
Proof.
  intros H a b I Na Nb. unfold closed_dirb in H. rewrite forallb_forall in H. specialize (H _ I).
  rewrite forallb_forall in H. specialize (H (length a)).
  rewrite firstn_app_len in H.
  assert (X : is_dir t a = true).
  { apply H. apply in_seq. rewrite app_length. destruct a; [contradiction|]. destruct b; [contradiction|].
    cbn [length]. lia. }
  unfold is_dir in X. destruct a as [|a0 a]; [contradiction|].
  destruct (lookup t (a0 :: a)) as [[| m |]|]; try discriminate. exists m. reflexivity.
Qed.

Definition nodupb (l : list path) : bool :=
  (fix go (l : list path) := match l with [] => true | x :: l' => negb (existsb (path_eqb x) l') && go l' end) l.

Lemma nodupb_sound l : nodupb l = true -> NoDup l.
Proof.
  induction l as [|x l IH]; cbn; intro H; [constructor|]. apply andb_true_iff in H as [A B].
  constructor; [|apply IH; exact B]. intro I. apply negb_true_iff in A.
  assert (existsb (path_eqb x) l = true); [|congruence].
  apply existsb_exists. exists x. split; [exact I|apply RenameP.path_eqb_refl].
Qed.

Definition freeb (t : fs) (r : aren) : bool := match lookup t (ar_new r) with None => true | Some _ => false end.

Lemma freeb_sound t rs : forallb (freeb t) rs = true -> forall r, In r rs -> lookup t (ar_new r) = None.
Proof.
  intros H r I. rewrite forallb_forall in H. specialize (H r I). unfold freeb in H.
  destruct (lookup t (ar_new r)); [discriminate|reflexivity].
Qed.

Lemma no_case_only_sound rs :
  forallb (fun r => negb (case_only (ar_path r) (ar_new r))) rs = true ->
  forall r, In r rs -> case_only (ar_path r) (ar_new r) = false.
Proof. intros H r I. rewrite forallb_forall in H. specialize (H r I). apply negb_true_iff in H. exact H. Qed.

Definition probeb (t : fs) (rs : list aren) : bool :=
  forallb (fun r => negb (case_only (ar_path r) (ar_new r)) ||
                    (match lookup t (parent (ar_path r) ++ [probe_name]) with None => true | Some _ => false end &&
                     forallb (fun r1 => negb (path_eqb (ar_new r1) (parent (ar_path r) ++ [probe_name]))) rs)) rs.

Lemma probeb_sound t rs : probeb t rs = true ->
  forall r, In r rs -> case_only (ar_path r) (ar_new r) = true ->
     lookup t (parent (ar_path r) ++ [probe_name]) = None /\
     forall r1, In r1 rs -> ar_new r1 <> parent (ar_path r) ++ [probe_name].
Proof.
  intros H r I C. unfold probeb in H. rewrite forallb_forall in H. specialize (H r I). rewrite C in H.
  cbn [negb orb] in H. apply andb_true_iff in H as [A B]. split.
  - destruct (lookup t (parent (ar_path r) ++ [probe_name])); [discriminate|reflexivity].
  - intros r1 I1 E. rewrite forallb_forall in B. specialize (B r1 I1). rewrite E, RenameP.path_eqb_refl in B.
    discriminate.
Qed.

(* ==================================================================================== *)
(* 8. non-vacuity: nested term-named directories, files, a symlink, a bystander, and two  *)
(*    files of one directory that get the same new name (dropped by the conflict filter)  *)
(* ==================================================================================== *)
Module Example.
  Local Open Scope N_scope.
  Definition old : name := [111; 108; 100].                    (* old *)
  Definition new : name := [110; 101; 119].                    (* new *)
  Definition OLD : name := [79; 76; 68].                       (* OLD *)
  Definition sub : bytes := [95; 115; 117; 98].                (* _sub *)
  Definition lnk : bytes := [95; 108; 110; 107].               (* _lnk *)
  Definition txt : bytes := [46; 116; 120; 116].               (* .txt *)
  Definition dotc : bytes := [46; 99].                         (* .c *)
  Definition keep : name := [107; 101; 101; 112].              (* keep *)
  Definition z : name := [122].
  (* the two-entry table: old -> new, OLD -> new *)
  Definition table : list (bytes * bytes) := [(OLD, new); (old, new)].
  Definition namefn := name_by_map table.

  (* old/  old/old_sub/  old/old_sub/old.txt  old/old_lnk -> "old.txt"  old/keep  other: z/ z/old.c z/OLD.c *)
  Definition t : fs :=
    [([old], Dir 493);
     ([old; old ++ sub], Dir 493);
     ([old; old ++ sub; old ++ txt], File 420 [1]);
     ([old; old ++ lnk], Link (old ++ txt));
     ([old; keep], File 420 [2]);
     ([z], Dir 493);
     ([z; old ++ dotc], File 420 [3]);
     ([z; OLD ++ dotc], File 420 [4])].
  Definition l := walk t.
  Definition pl := plan_listing namefn true true l.
  Definition rs := without_conflicts pl.
  Definition mk p n d := {| ar_path := p; ar_new := n; ar_dir := d |}.

  Example listing : listing_of t l.
  Proof. apply walk_listing_of; [apply nodupb_sound|apply closed_dirb_sound]; vm_compute; reflexivity. Qed.

  (* the planner side, computed: four renames scheduled; z/old.c and z/OLD.c both map to z/new.c and are dropped *)
  Example planned :
    pl = [mk [old] [new] true; mk [old; old ++ sub] [old; new ++ sub] true;
          mk [old; old ++ sub; old ++ txt] [old; old ++ sub; new ++ txt] false;
          mk [old; old ++ lnk] [old; new ++ lnk] false;
          mk [z; old ++ dotc] [z; new ++ dotc] false; mk [z; OLD ++ dotc] [z; new ++ dotc] false] /\
    conflict_targets pl = [[z; new ++ dotc]; [z; new ++ dotc]] /\
    rs = [mk [old] [new] true; mk [old; old ++ sub] [old; new ++ sub] true;
          mk [old; old ++ sub; old ++ txt] [old; old ++ sub; new ++ txt] false;
          mk [old; old ++ lnk] [old; new ++ lnk] false] /\
    dedupe_paths [] rs = rs.
  Proof. vm_compute. repeat split. Qed.

  Lemma free : forall r, In r rs -> lookup t (ar_new r) = None.
  Proof. apply freeb_sound. vm_compute. reflexivity. Qed.
  Lemma no_case : forall r, In r rs -> case_only (ar_path r) (ar_new r) = false.
  Proof. apply no_case_only_sound. vm_compute. reflexivity. Qed.
  Lemma probe : forall r, In r rs -> case_only (ar_path r) (ar_new r) = true ->
     lookup t (parent (ar_path r) ++ [probe_name]) = None /\
     forall r1, In r1 rs -> ar_new r1 <> parent (ar_path r) ++ [probe_name].
  Proof. intros r I C. rewrite (no_case r I) in C. discriminate. Qed.

  (* all hypotheses of the main theorems hold of this instance *)
  Example compose_applies : plan_ok {| ap_id := []; ap_hunks := []; ap_renames := rs |} t.
  Proof. exact (proj1 (proj2 (proj2 (proj2 (proj2 (proj2 (planner_apply_compose namefn true true t l listing free probe))))))). Qed.

  (* the apply side, computed: the run succeeds, and the result is the tree with every key at its final path *)
  Definition p := {| ap_id := []; ap_hunks := []; ap_renames := rs |}.
  Example applied :
    r_ok (apply_core no_fault p t) = true /\
    r_fs (apply_core no_fault p t) =
      [([new], Dir 493);
       ([new; new ++ sub], Dir 493);
       ([new; new ++ sub; new ++ txt], File 420 [1]);
       ([new; new ++ lnk], Link (old ++ txt));
       ([new; keep], File 420 [2]);
       ([z], Dir 493);
       ([z; old ++ dotc], File 420 [3]);
       ([z; OLD ++ dotc], File 420 [4])] /\
    spec_apply p t = r_fs (apply_core no_fault p t) /\
    r_performed (apply_core no_fault p t) =
      [([old], [new]); ([old; old ++ sub], [new; new ++ sub]);
       ([old; old ++ sub; old ++ txt], [new; new ++ sub; new ++ txt]); ([old; old ++ lnk], [new; new ++ lnk])].
  Proof. vm_compute. repeat split. Qed.

  (* completeness on the deepest entry: old/old_sub/old.txt is scheduled, and its node sits at new/new_sub/new.txt *)
  Example complete_instance :
    In (mk [old; old ++ sub; old ++ txt] [old; old ++ sub; new ++ txt] false) rs /\
    final_path rs [old; old ++ sub; old ++ txt] = final_path rs [old; old ++ sub] ++ [new ++ txt] /\
    final_path rs [old; old ++ sub] = [new; new ++ sub].
  Proof.
    destruct (planner_complete_tree namefn true true t l listing free probe
                [old; old ++ sub] (old ++ txt) (File 420 [1]) (new ++ txt)) as (A & B & _).
    - vm_compute. reflexivity.
    - vm_compute. reflexivity.
    - vm_compute. discriminate.
    - reflexivity.
    - vm_compute. intros [H | [H | []]]; discriminate.
    - split; [exact A|]. split; [exact B|]. vm_compute. reflexivity.
  Qed.

  (* exactness: old/keep keeps its name under the renamed directory; the two conflicting files stay *)
  Example exact_instance :
    final_path rs [old; keep] = [new; keep] /\ final_path rs [z; old ++ dotc] = [z; old ++ dotc] /\
    final_path rs [z; OLD ++ dotc] = [z; OLD ++ dotc].
  Proof.
    split; [|vm_compute; split; reflexivity].
    pose proof (planner_exact namefn true true l [old] keep (or_introl eq_refl)) as X. cbn zeta in X.
    etransitivity; [exact X|]. vm_compute. reflexivity.
  Qed.

  (* planner_exact_conflict applies to the two files that get the same new name *)
  Example exact_conflict_instance : final_path rs [z; OLD ++ dotc] = final_path rs [z] ++ [OLD ++ dotc].
  Proof.
    apply (planner_exact_conflict namefn true true l [z] (OLD ++ dotc)); [exact (lo_once _ _ listing)|].
    intros r I E. fold pl in I. rewrite (proj1 planned) in I. fold pl. rewrite (proj1 (proj2 planned)).
    cbn [In] in I. repeat (destruct I as [<- | I]; [try discriminate E; try (left; reflexivity)|]); destruct I.
  Qed.

  (* planner_apply_is_spec applies: every entry of the tree is found, unchanged, at its final path *)
  Example apply_instance :
    r_ok (apply_core no_fault p t) = true /\
    forall k n, lookup t k = Some n -> lookup (r_fs (apply_core no_fault p t)) (final_path rs k) = Some n.
  Proof.
    destruct (planner_apply_is_spec namefn true true t l listing free probe) as (A & _ & _ & _ & _ & _ & B & _).
    split; [exact A|exact B].
  Qed.
End Example.

(* the probe hypothesis is satisfiable by a plan that has case-only renames: old -> Old on a directory and a file in it *)
Module CaseOnly.
  Local Open Scope N_scope.
  Definition old : name := [111; 108; 100].
  Definition Old : name := [79; 108; 100].
  Definition txt : bytes := [46; 116; 120; 116].
  Definition namefn := name_by_map [(old, Old)].
  Definition t : fs := [([old], Dir 493); ([old; old ++ txt], File 420 [1]); ([old; [107]], Link [120])].
  Definition l := walk t.
  Definition rs := without_conflicts (plan_listing namefn true true l).
  Definition p := {| ap_id := []; ap_hunks := []; ap_renames := rs |}.
  Example listing : listing_of t l.
  Proof. apply walk_listing_of; [apply nodupb_sound|apply closed_dirb_sound]; vm_compute; reflexivity. Qed.
  Example all_case_only : forallb (fun r => case_only (ar_path r) (ar_new r)) rs = true /\ length rs = 2%nat.
  Proof. vm_compute. split; reflexivity. Qed.
  Example apply_instance :
    r_ok (apply_core no_fault p t) = true /\
    (forall k n, lookup t k = Some n -> lookup (r_fs (apply_core no_fault p t)) (final_path rs k) = Some n) /\
    r_fs (apply_core no_fault p t) = [([Old], Dir 493); ([Old; Old ++ txt], File 420 [1]); ([Old; [107]], Link [120])].
  Proof.
    destruct (planner_apply_is_spec namefn true true t l listing) as (A & _ & _ & _ & _ & _ & B & _).
    - apply freeb_sound. vm_compute. reflexivity.
    - apply probeb_sound. vm_compute. reflexivity.
    - split; [exact A|]. split; [exact B|]. vm_compute. reflexivity.
  Qed.
End CaseOnly.

(* ==================================================================================== *)
(* 9. the hypothesis "no planned destination is occupied" is forced: the planner does NOT *)
(*    guarantee it.  Chain a -> b, b -> c (the name function maps a to b and b to c; both  *)
(*    entries exist): the list passes the conflict filter (the destinations differ), the   *)
(*    destination of the first rename is the source of the second.  fs_ok fails; apply     *)
(*    refuses the plan (FailConflict) and leaves the tree untouched; WITHOUT that check    *)
(*    the rename stage would run a -> b first (files of equal depth keep plan order) and   *)
(*    destroy b.  The real code does the same (see the report): scan_tree plans both       *)
(*    renames, apply_tree answers "Rename conflict ... destination already exists".        *)
(* ==================================================================================== *)
Module Chain.
  Local Open Scope N_scope.
  Definition a : name := [97]. Definition b : name := [98]. Definition c : name := [99].
  Definition namefn := name_by_map [(a, b); (b, c)].
  Definition t : fs := [([a], File 420 [1]); ([b], File 420 [2])].
  Definition l := walk t.
  Definition rs := without_conflicts (plan_listing namefn true true l).
  Definition p := {| ap_id := []; ap_hunks := []; ap_renames := rs |}.

  Example listing : listing_of t l.
  Proof. apply walk_listing_of; [apply nodupb_sound|apply closed_dirb_sound]; vm_compute; reflexivity. Qed.

  Example chain_planned :
    rs = [{| ar_path := [a]; ar_new := [b]; ar_dir := false |}; {| ar_path := [b]; ar_new := [c]; ar_dir := false |}].
  Proof. vm_compute. reflexivity. Qed.

  Example chain_apply_refuses :
    r_ok (apply_core no_fault p t) = false /\
    r_fail (apply_core no_fault p t) = Some (FailConflict [b]) /\
    r_fs (apply_core no_fault p t) = t /\ r_trace (apply_core no_fault p t) = [].
  Proof. vm_compute. repeat split. Qed.

  (* the stage alone, without the occupied-destination check: b's content is lost *)
  Example chain_stage_alone_loses_b :
    exists s' perf exe,
      rename_stage no_fault (sort_renames rs) [] [] {| s_fs := t; s_n := 0; s_trace := [] |} = inl (s', perf, exe) /\
      s_fs s' = [([c], File 420 [1])].
  Proof. vm_compute. eexists _, _, _. split; reflexivity. Qed.
End Chain.

(* without the hypothesis the theorem is false of the model *)
Theorem free_destinations_needed :
  exists namefn t l, listing_of t l /\
    let rs := without_conflicts (plan_listing namefn true true l) in
    (forall r, In r rs -> case_only (ar_path r) (ar_new r) = false) /\
    ~ fs_ok t rs /\
    ~ plan_ok {| ap_id := []; ap_hunks := []; ap_renames := rs |} t /\
    r_ok (apply_core no_fault {| ap_id := []; ap_hunks := []; ap_renames := rs |} t) = false.
Proof.
  exists Chain.namefn, Chain.t, Chain.l. split; [exact Chain.listing|]. cbn zeta. fold Chain.rs.
  assert (NF : ~ fs_ok Chain.t Chain.rs).
  { intro F. pose proof (fo_dst _ _ F {| ar_path := [Chain.a]; ar_new := [Chain.b]; ar_dir := false |}) as X.
    rewrite Chain.chain_planned in X. specialize (X (or_introl eq_refl)). vm_compute in X. discriminate. }
  split; [apply no_case_only_sound; vm_compute; reflexivity|]. split; [exact NF|]. split.
  - intro W. apply NF. exact (po_fs _ _ W).
  - vm_compute. reflexivity.
Qed.

Print Assumptions walk_listing_of.
Print Assumptions planner_apply_compose.
Print Assumptions planner_apply_compose_no_case_only.
Print Assumptions planner_complete.
Print Assumptions planner_complete_tree.
Print Assumptions planner_exact.
Print Assumptions planner_exact_disabled.
Print Assumptions planner_exact_conflict.
Print Assumptions planner_untouched.
Print Assumptions planner_apply_is_spec.
Print Assumptions planner_components_ok.
Print Assumptions free_destinations_needed.
Print Assumptions without_conflicts_id.
Print Assumptions CaseOnly.apply_instance.
Print Assumptions Example.compose_applies.
Print Assumptions Example.applied.
