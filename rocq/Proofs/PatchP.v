(* Proofs/PatchP.v — the text layer of reverse patches: splitting into lines is lossless, the
   repaired header rewrite leaves every hunk body diffy can render intact, and the former
   rewrite (every line starting with "--- " / "+++ ") did not.
   Stdlib only, no axioms. *)
From Coq Require Import Strings.String.
From RN Require Import Base.Bytes Base.Str Model.Patch.

(* ------------------------------------------------------------------------------------ *)
(* A1: split_lines / concat                                                            *)
(* ------------------------------------------------------------------------------------ *)

Lemma split_lines_aux_concat s : forall cur, concat (split_lines_aux cur s) = cur ++ s.
Proof.
  induction s as [|c s IH]; intro cur; cbn [split_lines_aux].
  - destruct cur; cbn [concat]; rewrite ?app_nil_r; reflexivity.
  - destruct (c =? 10); [cbn [concat]|]; rewrite IH, <- app_assoc; reflexivity.
Qed.

Theorem split_lines_concat : forall s, concat (split_lines s) = s.
Proof. intro s. unfold split_lines. apply split_lines_aux_concat. Qed.

(* ------------------------------------------------------------------------------------ *)
(* Lines                                                                               *)
(* ------------------------------------------------------------------------------------ *)

Definition has_nl (l : bytes) : bool := existsb (N.eqb 10) l.

(* a complete line: no inner newline, terminated by a newline *)
Definition line (l : bytes) : Prop := exists l', l = l' ++ [10] /\ has_nl l' = false.

Lemma split_lines_aux_line l : forall cur s, has_nl l = false ->
  split_lines_aux cur (l ++ 10 :: s) = (cur ++ l ++ [10]) :: split_lines_aux [] s.
Proof.
  induction l as [|c l IH]; intros cur s H; cbn [app split_lines_aux].
  - rewrite N.eqb_refl. reflexivity.
  - unfold has_nl in H. cbn [existsb] in H. apply orb_false_iff in H as [H1 H2].
    rewrite N.eqb_sym in H1. rewrite H1. rewrite (IH _ _ H2), <- app_assoc. reflexivity.
Qed.

Lemma split_lines_lines ls : Forall line ls -> split_lines (concat ls) = ls.
Proof.
  unfold split_lines. induction 1 as [|l ls [l' [-> H]] _ IH]; [reflexivity|].
  cbn [concat]. rewrite <- app_assoc. cbn [app].
  rewrite (split_lines_aux_line l' [] _ H). cbn [app]. rewrite IH. reflexivity.
Qed.

Lemma ends_with_nl l : ends_with [10] l = true -> exists l', l = l' ++ [10].
Proof.
  unfold ends_with. cbn [rev app]. intro H. apply is_prefix_spec in H as [r H].
  exists (rev r). rewrite <- (rev_involutive l), H. reflexivity.
Qed.

Lemma body_line l :
  ends_with [10] l = true -> negb (has_nl (removelast l)) = true -> line l.
Proof.
  intros E H. destruct (ends_with_nl l E) as [l' ->]. exists l'. split; [reflexivity|].
  rewrite removelast_last in H. apply negb_true_iff in H. exact H.
Qed.

Lemma body_ok_lines body : body_ok body = true -> Forall line body.
Proof.
  destruct body as [|l0 body0]; [constructor|]. unfold body_ok.
  remember (l0 :: body0) as body. clear Heqbody.
  rewrite !andb_true_iff. intros [[_ H1] H2].
  rewrite forallb_forall in H1, H2. apply Forall_forall. intros l I.
  apply body_line; [|apply H2; exact I].
  specialize (H1 l I). unfold body_line_ok in H1. destruct l; [discriminate|].
  apply andb_true_iff in H1 as [_ H1]. exact H1.
Qed.

Lemma body_ok_head l body : body_ok (l :: body) = true -> starts_with at3 l = true.
Proof. unfold body_ok. rewrite !andb_true_iff. intros [[H _] _]. exact H. Qed.

(* ------------------------------------------------------------------------------------ *)
(* Names                                                                               *)
(* ------------------------------------------------------------------------------------ *)

Lemma name_ok_facts n : name_ok n = true ->
  existsb bad_name_char n = false /\ match n with 34 :: _ => False | _ => True end.
Proof.
  unfold name_ok. rewrite andb_true_iff, negb_true_iff. intros [H1 H2]. split; [exact H1|].
  destruct n as [|c n]; [exact I|]. destruct c as [|p]; [exact I|].
  do 6 (destruct p; try exact I). discriminate.
Qed.

Lemma not_bad_no (c : N) n : bad_name_char c = true ->
  existsb bad_name_char n = false -> existsb (N.eqb c) n = false.
Proof.
  intros B. induction n as [|x n IH]; cbn [existsb]; [reflexivity|].
  rewrite !orb_false_iff. intros [H1 H2]. split; [|apply IH; exact H2].
  destruct (c =? x) eqn:E; [|reflexivity]. apply N.eqb_eq in E. subst x. congruence.
Qed.

Lemma take_until_miss c n d : existsb (N.eqb c) n = false -> (d =? c) = false ->
  take_until c (n ++ [d]) = None.
Proof.
  intros H D. induction n as [|x n IH]; cbn [app take_until].
  - rewrite D. reflexivity.
  - cbn [existsb] in H. apply orb_false_iff in H as [H1 H2]. rewrite N.eqb_sym in H1.
    rewrite H1, (IH H2). reflexivity.
Qed.

Lemma take_until_hit c n : existsb (N.eqb c) n = false -> take_until c (n ++ [c]) = Some n.
Proof.
  intros H. induction n as [|x n IH]; cbn [app take_until].
  - rewrite N.eqb_refl. reflexivity.
  - cbn [existsb] in H. apply orb_false_iff in H as [H1 H2]. rewrite N.eqb_sym in H1.
    rewrite H1, (IH H2). reflexivity.
Qed.

Lemma parse_filename_ok n : name_ok n = true -> parse_filename (n ++ [10]) = Some n.
Proof.
  intro H. destruct (name_ok_facts n H) as [B Q]. unfold parse_filename.
  rewrite (take_until_miss 9 n 10) by (try apply not_bad_no; auto).
  rewrite (take_until_hit 10 n) by (apply not_bad_no; auto).
  rewrite B. destruct n as [|c n]; [reflexivity|]. destruct c as [|p]; [reflexivity|].
  do 6 (destruct p; try reflexivity). contradiction.
Qed.

Lemma name_line pre n : has_nl pre = false -> name_ok n = true -> line (pre ++ n ++ [10]).
Proof.
  intros P H. exists (pre ++ n). split; [rewrite app_assoc; reflexivity|].
  unfold has_nl. rewrite existsb_app. fold (has_nl pre). rewrite P. cbn [orb].
  apply not_bad_no; [reflexivity|]. apply (name_ok_facts n H).
Qed.

(* ------------------------------------------------------------------------------------ *)
(* A2: the repaired rewrite                                                            *)
(* ------------------------------------------------------------------------------------ *)

Definition h1 : bytes := bs "--- original" ++ [10].
Definition h2 : bytes := bs "+++ modified" ++ [10].

Lemma render_concat body : render body = concat (h1 :: h2 :: body).
Proof. unfold render, generic_header, h1, h2. cbn [concat]. rewrite <- !app_assoc. reflexivity. Qed.

Lemma h1_line : line h1.
Proof. exists (bs "--- original"). split; reflexivity. Qed.
Lemma h2_line : line h2.
Proof. exists (bs "+++ modified"). split; reflexivity. Qed.

(* once the first hunk header has been seen nothing is rewritten *)
Lemma rewrite_lines_off from to ls : rewrite_lines false from to ls = ls.
Proof.
  induction ls as [|l ls IH]; cbn [rewrite_lines]; [reflexivity|]. cbn zeta.
  replace (if starts_with at2 l then false else false) with false by (destruct (starts_with at2 l); reflexivity).
  cbn [andb]. rewrite IH. reflexivity.
Qed.

Lemma at3_at2 l : starts_with at3 l = true -> starts_with at2 l = true.
Proof.
  unfold starts_with. intro H. apply is_prefix_spec in H as [r ->]. reflexivity.
Qed.

Lemma at3_not_minus3 l : starts_with at3 l = true -> starts_with minus3 l = false.
Proof. unfold starts_with. intro H. apply is_prefix_spec in H as [r ->]. reflexivity. Qed.

Lemma at3_not_plus3 l : starts_with at3 l = true -> starts_with plus3 l = false.
Proof. unfold starts_with. intro H. apply is_prefix_spec in H as [r ->]. reflexivity. Qed.

Lemma rewrite_lines_body from to body : body_ok body = true ->
  rewrite_lines true from to body = body.
Proof.
  destruct body as [|l body]; [reflexivity|]. intro H. apply body_ok_head in H.
  cbn [rewrite_lines]. cbn zeta. rewrite (at3_at2 l H). cbn [andb].
  rewrite rewrite_lines_off. reflexivity.
Qed.

Lemma rewrite_lines_render from to body : body_ok body = true ->
  rewrite_lines true from to (h1 :: h2 :: body) =
  (minus3 ++ from ++ [10]) :: (plus3 ++ to ++ [10]) :: body.
Proof.
  intro H. cbn [rewrite_lines]. cbn zeta.
  change (starts_with at2 h1) with false. change (starts_with at2 h2) with false. cbn iota.
  change (starts_with minus3 h1) with true. change (starts_with minus3 h2) with false.
  change (starts_with plus3 h2) with true. cbn [andb]. cbn iota.
  change (line_ending h1) with [10]. change (line_ending h2) with [10].
  rewrite (rewrite_lines_body from to body H). reflexivity.
Qed.

Lemma parse_body f1 f2 body : body_ok body = true ->
  parse_header_lines f1 f2 body = Some (f1, f2, body).
Proof.
  destruct body as [|l body]; [reflexivity|]. intro H. apply body_ok_head in H.
  cbn [parse_header_lines]. rewrite (at3_not_minus3 l H), (at3_not_plus3 l H). reflexivity.
Qed.

Lemma skipn4_minus3 x : skipn 4 (minus3 ++ x) = x.
Proof. reflexivity. Qed.
Lemma skipn4_plus3 x : skipn 4 (plus3 ++ x) = x.
Proof. reflexivity. Qed.

Theorem rewrite_then_parse_keeps_body : forall from to body,
  name_ok from = true -> name_ok to = true -> body_ok body = true ->
  diffy_body (rewrite_headers from to (render body)) = Some body.
Proof.
  intros from to body Hf Ht Hb. unfold rewrite_headers, diffy_body.
  pose proof (body_ok_lines body Hb) as Lb.
  rewrite render_concat, (split_lines_lines (h1 :: h2 :: body))
    by (constructor; [apply h1_line|constructor; [apply h2_line|exact Lb]]).
  rewrite (rewrite_lines_render from to body Hb).
  rewrite split_lines_lines.
  2:{ constructor; [apply name_line; [reflexivity|exact Hf]|].
      constructor; [apply name_line; [reflexivity|exact Ht]|exact Lb]. }
  cbn [skip_preamble]. unfold starts_with at 1. rewrite is_prefix_app. cbn [orb].
  cbn [parse_header_lines]. unfold starts_with at 1. rewrite is_prefix_app.
  rewrite skipn4_minus3, (parse_filename_ok from Hf).
  change (starts_with minus3 (plus3 ++ to ++ [10])) with false. cbn iota.
  unfold starts_with at 1. rewrite is_prefix_app.
  rewrite skipn4_plus3, (parse_filename_ok to Ht).
  rewrite (parse_body _ _ body Hb). reflexivity.
Qed.

(* ------------------------------------------------------------------------------------ *)
(* A3: the former rewrite corrupts a body that contains a deleted line "-- new_name"     *)
(* ------------------------------------------------------------------------------------ *)

Definition bad_body : list bytes :=
  [bs "@@ -1 +1 @@" ++ [10]; bs "--- new_name" ++ [10]; bs "+-- old_name" ++ [10]].

Theorem rewrite_old_corrupts_body : exists from to body,
  name_ok from = true /\ name_ok to = true /\ body_ok body = true /\
  diffy_body (rewrite_headers_old from to (render body)) <> Some body.
Proof.
  exists (bs "a.sql"), (bs "a.sql"), bad_body.
  split; [reflexivity|]. split; [reflexivity|]. split; [reflexivity|].
  vm_compute. discriminate.
Qed.

(* what diffy sees instead: the deleted line "-- new_name" has become "-- a.sql" *)
Example rewrite_old_result :
  diffy_body (rewrite_headers_old (bs "a.sql") (bs "a.sql") (render bad_body)) =
  Some [bs "@@ -1 +1 @@" ++ [10]; bs "--- a.sql" ++ [10]; bs "+-- old_name" ++ [10]].
Proof. vm_compute. reflexivity. Qed.
