(* Proofs/PatchP.v — the text layer of reverse patches: splitting into lines is lossless, the
   repaired header rewrite leaves every hunk body diffy can render intact and gives back both file
   names whatever bytes they are made of (names with a quote, a backslash or a control character
   are written in the quoted form, which diffy's parser undoes), and the former rewrite (every
   line starting with "--- " / "+++ ", names written bare) did not.
   Stdlib only, no axioms. *)
From Coq Require Import Strings.String.
From RN Require Import Base.Bytes Base.Str Model.Patch.

(* ------------------------------------------------------------------------------------ *)
(* A1: split_lines / concat                                                            *)
(* ------------------------------------------------------------------------------------ *)

Lemma split_lines_aux_concat s : forall cur, concat (split_lines_aux cur s) = cur ++ s.
Proof.
  induction s as [|c s IH]; intro cur; cbn [split_lines_aux].
  - destruct cur; cbn [concat]; rewrite ?app_nil_r; reflexivity.
  - destruct (c =? 10); [cbn [concat]|]; rewrite IH, <- app_assoc; reflexivity.
Qed.

Theorem split_lines_concat : forall s, concat (split_lines s) = s.
Proof. intro s. unfold split_lines. apply split_lines_aux_concat. Qed.

(* ------------------------------------------------------------------------------------ *)
(* Lines                                                                               *)
(* ------------------------------------------------------------------------------------ *)

Definition has_nl (l : bytes) : bool := existsb (N.eqb 10) l.

(* a complete line: no inner newline, terminated by a newline *)
Definition line (l : bytes) : Prop := exists l', l = l' ++ [10] /\ has_nl l' = false.

Lemma split_lines_aux_line l : forall cur s, has_nl l = false ->
  split_lines_aux cur (l ++ 10 :: s) = (cur ++ l ++ [10]) :: split_lines_aux [] s.
Proof.
  induction l as [|c l IH]; intros cur s H; cbn [app split_lines_aux].
  - rewrite N.eqb_refl. reflexivity.
  - unfold has_nl in H. cbn [existsb] in H. apply orb_false_iff in H as [H1 H2].
    rewrite N.eqb_sym in H1. rewrite H1. rewrite (IH _ _ H2), <- app_assoc. reflexivity.
Qed.

Lemma split_lines_lines ls : Forall line ls -> split_lines (concat ls) = ls.
Proof.
  unfold split_lines. induction 1 as [|l ls [l' [-> H]] _ IH]; [reflexivity|].
  cbn [concat]. rewrite <- app_assoc. cbn [app].
  rewrite (split_lines_aux_line l' [] _ H). cbn [app]. rewrite IH. reflexivity.
Qed.

Lemma ends_with_nl l : ends_with [10] l = true -> exists l', l = l' ++ [10].
Proof.
  unfold ends_with. cbn [rev app]. intro H. apply is_prefix_spec in H as [r H].
  exists (rev r). rewrite <- (rev_involutive l), H. reflexivity.
Qed.

Lemma body_line l :
  ends_with [10] l = true -> negb (has_nl (removelast l)) = true -> line l.
Proof.
  intros E H. destruct (ends_with_nl l E) as [l' ->]. exists l'. split; [reflexivity|].
  rewrite removelast_last in H. apply negb_true_iff in H. exact H.
Qed.

Lemma body_ok_lines body : body_ok body = true -> Forall line body.
Proof.
  destruct body as [|l0 body0]; [constructor|]. unfold body_ok.
  remember (l0 :: body0) as body. clear Heqbody.
  rewrite !andb_true_iff. intros [[_ H1] H2].
  rewrite forallb_forall in H1, H2. apply Forall_forall. intros l I.
  apply body_line; [|apply H2; exact I].
  specialize (H1 l I). unfold body_line_ok in H1. destruct l; [discriminate|].
  apply andb_true_iff in H1 as [_ H1]. exact H1.
Qed.

Lemma body_ok_head l body : body_ok (l :: body) = true -> starts_with at3 l = true.
Proof. unfold body_ok. rewrite !andb_true_iff. intros [[H _] _]. exact H. Qed.

(* ------------------------------------------------------------------------------------ *)
(* Names                                                                               *)
(* ------------------------------------------------------------------------------------ *)

Lemma name_ok_facts n : name_ok n = true ->
  existsb bad_name_char n = false /\ match n with 34 :: _ => False | _ => True end.
Proof.
  unfold name_ok. rewrite andb_true_iff, negb_true_iff. intros [H1 H2]. split; [exact H1|].
  destruct n as [|c n]; [exact I|]. destruct c as [|p]; [exact I|].
  do 6 (destruct p; try exact I). discriminate.
Qed.

Lemma not_bad_no (c : N) n : bad_name_char c = true ->
  existsb bad_name_char n = false -> existsb (N.eqb c) n = false.
Proof.
  intros B. induction n as [|x n IH]; cbn [existsb]; [reflexivity|].
  rewrite !orb_false_iff. intros [H1 H2]. split; [|apply IH; exact H2].
  destruct (c =? x) eqn:E; [|reflexivity]. apply N.eqb_eq in E. subst x. congruence.
Qed.

Lemma take_until_miss c n d : existsb (N.eqb c) n = false -> (d =? c) = false ->
  take_until c (n ++ [d]) = None.
Proof.
  intros H D. induction n as [|x n IH]; cbn [app take_until].
  - rewrite D. reflexivity.
  - cbn [existsb] in H. apply orb_false_iff in H as [H1 H2]. rewrite N.eqb_sym in H1.
    rewrite H1, (IH H2). reflexivity.
Qed.

Lemma take_until_hit c n : existsb (N.eqb c) n = false -> take_until c (n ++ [c]) = Some n.
Proof.
  intros H. induction n as [|x n IH]; cbn [app take_until].
  - rewrite N.eqb_refl. reflexivity.
  - cbn [existsb] in H. apply orb_false_iff in H as [H1 H2]. rewrite N.eqb_sym in H1.
    rewrite H1, (IH H2). reflexivity.
Qed.

(* --- quoting: what quote_for_patch writes is what escaped_filename reads --- *)

Lemma escaped_filename_esc c s :
  escaped_filename (esc_char c ++ s) = option_map (cons c) (escaped_filename s).
Proof.
  unfold esc_char.
  destruct (c =? 10) eqn:E10; [apply N.eqb_eq in E10; subst c; reflexivity|].
  destruct (c =? 9) eqn:E9; [apply N.eqb_eq in E9; subst c; reflexivity|].
  destruct (c =? 0) eqn:E0; [apply N.eqb_eq in E0; subst c; reflexivity|].
  destruct (c =? 13) eqn:E13; [apply N.eqb_eq in E13; subst c; reflexivity|].
  destruct (c =? 34) eqn:E34; [apply N.eqb_eq in E34; subst c; reflexivity|].
  destruct (c =? 92) eqn:E92; [apply N.eqb_eq in E92; subst c; reflexivity|].
  cbn [app escaped_filename]. rewrite E92. unfold bad_name_char.
  rewrite E9, E10, E0, E13, E34, E92. reflexivity.
Qed.

Theorem unescape_escape : forall n, escaped_filename (concat (map esc_char n)) = Some n.
Proof.
  induction n as [|c n IH]; [reflexivity|]. cbn [map concat].
  rewrite escaped_filename_esc, IH. reflexivity.
Qed.

(* no escape contains a raw tab or newline *)
Lemma esc_char_no k c : (k =? 9) || (k =? 10) = true -> existsb (N.eqb k) (esc_char c) = false.
Proof.
  intro K. unfold esc_char.
  destruct (c =? 10) eqn:E10;
    [apply orb_true_iff in K as [K|K]; apply N.eqb_eq in K; subst k; reflexivity|].
  destruct (c =? 9) eqn:E9;
    [apply orb_true_iff in K as [K|K]; apply N.eqb_eq in K; subst k; reflexivity|].
  destruct (c =? 0) eqn:E0;
    [apply orb_true_iff in K as [K|K]; apply N.eqb_eq in K; subst k; reflexivity|].
  destruct (c =? 13) eqn:E13;
    [apply orb_true_iff in K as [K|K]; apply N.eqb_eq in K; subst k; reflexivity|].
  destruct (c =? 34) eqn:E34;
    [apply orb_true_iff in K as [K|K]; apply N.eqb_eq in K; subst k; reflexivity|].
  destruct (c =? 92) eqn:E92;
    [apply orb_true_iff in K as [K|K]; apply N.eqb_eq in K; subst k; reflexivity|].
  cbn [existsb]. rewrite orb_false_r.
  apply orb_true_iff in K as [K|K]; apply N.eqb_eq in K; subst k; rewrite N.eqb_sym; assumption.
Qed.

Lemma escaped_no k n : (k =? 9) || (k =? 10) = true ->
  existsb (N.eqb k) (concat (map esc_char n)) = false.
Proof.
  intro K. induction n as [|c n IH]; [reflexivity|]. cbn [map concat].
  rewrite existsb_app, (esc_char_no k c K), IH. reflexivity.
Qed.

Lemma quote_name_no k n : (k =? 9) || (k =? 10) = true -> existsb (N.eqb k) (quote_name n) = false.
Proof.
  intro K. unfold quote_name. destruct (existsb bad_name_char n) eqn:B.
  - rewrite !existsb_app, (escaped_no k n K).
    apply orb_true_iff in K as [K|K]; apply N.eqb_eq in K; subst k; reflexivity.
  - apply not_bad_no; [|exact B].
    apply orb_true_iff in K as [K|K]; apply N.eqb_eq in K; subst k; reflexivity.
Qed.

(* the written name never contains a raw tab or newline, so it is one header field on one line *)
Theorem quote_name_no_raw : forall n,
  existsb (N.eqb 9) (quote_name n) = false /\ existsb (N.eqb 10) (quote_name n) = false.
Proof. intro n. split; apply quote_name_no; reflexivity. Qed.

Lemma strip_last_app c s : strip_last c (s ++ [c]) = Some s.
Proof.
  unfold strip_last. rewrite rev_app_distr. cbn [rev app].
  rewrite N.eqb_refl, rev_involutive. reflexivity.
Qed.

Lemma is_quoted_bare n : existsb bad_name_char n = false -> is_quoted n = None.
Proof.
  destruct n as [|c n]; [reflexivity|]. cbn [existsb is_quoted]. intro H.
  apply orb_false_iff in H as [H _]. unfold bad_name_char in H.
  rewrite !orb_false_iff in H. destruct H as [[_ H34] _]. rewrite H34. reflexivity.
Qed.

(* diffy reads back every name, whatever its bytes, from what replace_patch_headers writes *)
Theorem parse_filename_quote : forall n, parse_filename (quote_name n ++ [10]) = Some n.
Proof.
  intro n. destruct (quote_name_no_raw n) as [T L]. unfold parse_filename.
  rewrite (take_until_miss 9 (quote_name n) 10 T) by reflexivity.
  rewrite (take_until_hit 10 (quote_name n) L).
  unfold quote_name. destruct (existsb bad_name_char n) eqn:B.
  - cbn [app is_quoted]. change (34 =? 34) with true. cbn iota.
    rewrite strip_last_app. apply unescape_escape.
  - rewrite (is_quoted_bare n B). unfold unescaped_filename. rewrite B. reflexivity.
Qed.

Lemma quote_name_ok n : name_ok n = true -> quote_name n = n.
Proof. intro H. unfold quote_name. rewrite (proj1 (name_ok_facts n H)). reflexivity. Qed.

Lemma parse_filename_ok n : name_ok n = true -> parse_filename (n ++ [10]) = Some n.
Proof. intro H. rewrite <- (quote_name_ok n H) at 1. apply parse_filename_quote. Qed.

Lemma name_line pre n : has_nl pre = false -> line (pre ++ quote_name n ++ [10]).
Proof.
  intros P. exists (pre ++ quote_name n). split; [rewrite app_assoc; reflexivity|].
  unfold has_nl. rewrite existsb_app. fold (has_nl pre). rewrite P. cbn [orb].
  apply (quote_name_no_raw n).
Qed.

(* the historical failure: a name with a quote written bare is not a file name for diffy *)
Example unquoted_name_rejected : parse_filename (bs "we""ird.txt" ++ [10]) = None.
Proof. vm_compute. reflexivity. Qed.

(* the same name as written now *)
Example quoted_name_written :
  quote_name (bs "we""ird.txt") = bs """we\""ird.txt""".
Proof. vm_compute. reflexivity. Qed.

(* ------------------------------------------------------------------------------------ *)
(* A2: the repaired rewrite                                                            *)
(* ------------------------------------------------------------------------------------ *)

Definition h1 : bytes := bs "--- original" ++ [10].
Definition h2 : bytes := bs "+++ modified" ++ [10].

Lemma render_concat body : render body = concat (h1 :: h2 :: body).
Proof. unfold render, generic_header, h1, h2. cbn [concat]. rewrite <- !app_assoc. reflexivity. Qed.

Lemma h1_line : line h1.
Proof. exists (bs "--- original"). split; reflexivity. Qed.
Lemma h2_line : line h2.
Proof. exists (bs "+++ modified"). split; reflexivity. Qed.

(* once the first hunk header has been seen nothing is rewritten *)
Lemma rewrite_lines_off from to ls : rewrite_lines false from to ls = ls.
Proof.
  induction ls as [|l ls IH]; cbn [rewrite_lines]; [reflexivity|]. cbn zeta.
  replace (if starts_with at2 l then false else false) with false by (destruct (starts_with at2 l); reflexivity).
  cbn [andb]. rewrite IH. reflexivity.
Qed.

Lemma at3_at2 l : starts_with at3 l = true -> starts_with at2 l = true.
Proof.
  unfold starts_with. intro H. apply is_prefix_spec in H as [r ->]. reflexivity.
Qed.

Lemma at3_not_minus3 l : starts_with at3 l = true -> starts_with minus3 l = false.
Proof. unfold starts_with. intro H. apply is_prefix_spec in H as [r ->]. reflexivity. Qed.

Lemma at3_not_plus3 l : starts_with at3 l = true -> starts_with plus3 l = false.
Proof. unfold starts_with. intro H. apply is_prefix_spec in H as [r ->]. reflexivity. Qed.

Lemma rewrite_lines_body from to body : body_ok body = true ->
  rewrite_lines true from to body = body.
Proof.
  destruct body as [|l body]; [reflexivity|]. intro H. apply body_ok_head in H.
  cbn [rewrite_lines]. cbn zeta. rewrite (at3_at2 l H). cbn [andb].
  rewrite rewrite_lines_off. reflexivity.
Qed.

Lemma rewrite_lines_render from to body : body_ok body = true ->
  rewrite_lines true from to (h1 :: h2 :: body) =
  (minus3 ++ quote_name from ++ [10]) :: (plus3 ++ quote_name to ++ [10]) :: body.
Proof.
  intro H. cbn [rewrite_lines]. cbn zeta.
  change (starts_with at2 h1) with false. change (starts_with at2 h2) with false. cbn iota.
  change (starts_with minus3 h1) with true. change (starts_with minus3 h2) with false.
  change (starts_with plus3 h2) with true. cbn [andb]. cbn iota.
  change (line_ending h1) with [10]. change (line_ending h2) with [10].
  rewrite (rewrite_lines_body from to body H). reflexivity.
Qed.

Lemma parse_body f1 f2 body : body_ok body = true ->
  parse_header_lines f1 f2 body = Some (f1, f2, body).
Proof.
  destruct body as [|l body]; [reflexivity|]. intro H. apply body_ok_head in H.
  cbn [parse_header_lines]. rewrite (at3_not_minus3 l H), (at3_not_plus3 l H). reflexivity.
Qed.

Lemma skipn4_minus3 x : skipn 4 (minus3 ++ x) = x.
Proof. reflexivity. Qed.
Lemma skipn4_plus3 x : skipn 4 (plus3 ++ x) = x.
Proof. reflexivity. Qed.

(* the header diffy parses out of the rewritten patch: both names as they were, and the body *)
Theorem rewrite_then_parse_header : forall from to body,
  body_ok body = true ->
  parse_header_lines None None (skip_preamble (split_lines (rewrite_headers from to (render body))))
  = Some (Some from, Some to, body).
Proof.
  intros from to body Hb. unfold rewrite_headers.
  pose proof (body_ok_lines body Hb) as Lb.
  rewrite render_concat, (split_lines_lines (h1 :: h2 :: body))
    by (constructor; [apply h1_line|constructor; [apply h2_line|exact Lb]]).
  rewrite (rewrite_lines_render from to body Hb).
  rewrite split_lines_lines.
  2:{ constructor; [apply name_line; reflexivity|].
      constructor; [apply name_line; reflexivity|exact Lb]. }
  cbn [skip_preamble]. unfold starts_with at 1. rewrite is_prefix_app. cbn [orb].
  cbn [parse_header_lines]. unfold starts_with at 1. rewrite is_prefix_app.
  rewrite skipn4_minus3, (parse_filename_quote from).
  change (starts_with minus3 (plus3 ++ quote_name to ++ [10])) with false. cbn iota.
  unfold starts_with at 1. rewrite is_prefix_app.
  rewrite skipn4_plus3, (parse_filename_quote to).
  apply (parse_body _ _ body Hb).
Qed.

Theorem rewrite_then_parse_keeps_body : forall from to body,
  body_ok body = true ->
  diffy_body (rewrite_headers from to (render body)) = Some body.
Proof.
  intros from to body Hb. unfold diffy_body.
  rewrite (rewrite_then_parse_header from to body Hb). reflexivity.
Qed.

(* the statement as it stood before names were quoted *)
Corollary rewrite_then_parse_keeps_body_ok_names : forall from to body,
  name_ok from = true -> name_ok to = true -> body_ok body = true ->
  diffy_body (rewrite_headers from to (render body)) = Some body.
Proof. intros from to body _ _ Hb. apply rewrite_then_parse_keeps_body. exact Hb. Qed.

(* ------------------------------------------------------------------------------------ *)
(* A3: the former rewrite corrupts a body that contains a deleted line "-- new_name",    *)
(*     and wrote a header diffy rejects for a name with a quote                         *)
(* ------------------------------------------------------------------------------------ *)

Definition bad_body : list bytes :=
  [bs "@@ -1 +1 @@" ++ [10]; bs "--- new_name" ++ [10]; bs "+-- old_name" ++ [10]].

Theorem rewrite_old_corrupts_body : exists from to body,
  name_ok from = true /\ name_ok to = true /\ body_ok body = true /\
  diffy_body (rewrite_headers_old from to (render body)) <> Some body.
Proof.
  exists (bs "a.sql"), (bs "a.sql"), bad_body.
  split; [reflexivity|]. split; [reflexivity|]. split; [reflexivity|].
  vm_compute. discriminate.
Qed.

(* what diffy sees instead: the deleted line "-- new_name" has become "-- a.sql" *)
Example rewrite_old_result :
  diffy_body (rewrite_headers_old (bs "a.sql") (bs "a.sql") (render bad_body)) =
  Some [bs "@@ -1 +1 @@" ++ [10]; bs "--- a.sql" ++ [10]; bs "+-- old_name" ++ [10]].
Proof. vm_compute. reflexivity. Qed.

(* and with bare names a file with a quote in its name gave a patch diffy does not parse at all *)
Example rewrite_old_bare_name_unparsable :
  diffy_body (rewrite_headers_old (bs "we""ird.txt") (bs "we""ird.txt")
                (render [bs "@@ -1 +1 @@" ++ [10]; bs "-a" ++ [10]; bs "+b" ++ [10]])) = None.
Proof. vm_compute. reflexivity. Qed.

Print Assumptions unescape_escape.
Print Assumptions quote_name_no_raw.
Print Assumptions parse_filename_quote.
Print Assumptions rewrite_then_parse_header.
Print Assumptions rewrite_then_parse_keeps_body.
Print Assumptions rewrite_then_parse_keeps_body_ok_names.
Print Assumptions unquoted_name_rejected.
