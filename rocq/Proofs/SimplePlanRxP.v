(* Proofs/SimplePlanRxP.v — the planner behind `renamify replace` in its default REGEX mode (Model/SimplePlanRx.v:
   process_file_content_regex / create_simple_plan_regex, the regex crate as an oracle under the contract rx_caps_ok)
   produces plans that are consistent with the file, for EVERY file, replacement and exclude predicate.
   Stdlib + lia only.

   Two levels.  [rx_plan_*]: the line loop over an oracle rx_find : line -> list (start, end, replacement text), contract
   rx_find_ok.  [regex_plan_*]: the function of the code, oracle rx_caps = Regex::captures_iter, contract rx_caps_ok, the
   replacement text computed by the code's own expansion loop (SimplePlanRx.expand) -- the main theorems:
     regex_plan_hunks          C03  every field of every hunk against the file (rx_hunk_spec), variant = the pattern,
                                    content = the bytes at [start, end), replace = expand .. of a reported match
     regex_plan_sorted         C03  ascending, pairwise disjoint
     regex_plan_consistent     C03  Hunks.file_consistent             -- needs NON-EMPTY matches (rx_caps_nonempty)
     regex_plan_applies        C02  wf_edits, apply's splice loop = the reference substitution (empty matches included)
     regex_plan_preview        C15  Hunks.diff_after = the line after apply  -- needs non-empty matches
     regex_plan_preview_real   C15  diff_after_real (preview/diff.rs as it is) = the line after apply, for every regex,
                                    under rx_caps_strict (successive matches start at strictly increasing places)
     regex_plan_stats          C03  stats
   Refuted without the extra hypotheses (module RxWitness): regex_plan_consistent_empty_refuted,
   regex_plan_preview_empty_refuted (there the REAL preview disagrees with Hunks.diff_after, not with apply). *)
From RN Require Import Base.Bytes Model.Edits Model.Matcher Model.Hunks Model.SimplePlan Model.ApplyModel Model.SimplePlanRx.
From RN Require Import Proofs.EditsP Proofs.HunksP Proofs.SimplePlanP.
Open Scope nat_scope.

(* ------------------------------------------------------------------------------------------ *)
(* R1: UTF-8: cutting and gluing valid text at character boundaries                            *)
(* ------------------------------------------------------------------------------------------ *)

Ltac rew_true := repeat match goal with H : ?b = true |- context [?b] => rewrite H end.

Lemma utf8_ok_app_l : forall n x, length x <= n -> forall y,
  utf8_ok (x ++ y) = true -> head_ok y = true -> utf8_ok x = true.
Proof.
  induction n as [|n IH]; intros x Hn y Hxy Hh; destruct x as [|c x1]; try reflexivity; [cbn in Hn; lia|].
  cbn [length] in Hn. cbn [app utf8_ok] in Hxy. cbn [utf8_ok].
  destruct (c <? 128)%N; [apply (IH x1) with (y := y); [lia|exact Hxy|exact Hh]|].
  destruct ((194 <=? c) && (c <=? 223))%N.
  { destruct x1 as [|c1 x2]; cbn [app] in Hxy.
    - destruct y as [|c1 y']; [discriminate|]. cont_contra Hh.
    - split_andb. rew_true. cbn [andb]. apply (IH x2) with (y := y); [cbn [length] in Hn; lia|assumption|exact Hh]. }
  destruct ((224 <=? c) && (c <=? 239))%N.
  { destruct x1 as [|c1 [|c2 x3]]; cbn [app] in Hxy.
    - destruct y as [|c1 [|c2 y']]; try discriminate. cont_contra Hh.
    - destruct y as [|c2 y']; [discriminate|]. cont_contra Hh.
    - split_andb. rew_true. cbn [andb]. apply (IH x3) with (y := y); [cbn [length] in Hn; lia|assumption|exact Hh]. }
  destruct ((240 <=? c) && (c <=? 244))%N; [|discriminate].
  destruct x1 as [|c1 [|c2 [|c3 x4]]]; cbn [app] in Hxy.
  - destruct y as [|c1 [|c2 [|c3 y']]]; try discriminate. cont_contra Hh.
  - destruct y as [|c2 [|c3 y']]; try discriminate. cont_contra Hh.
  - destruct y as [|c3 y']; [discriminate|]. cont_contra Hh.
  - split_andb. rew_true. cbn [andb]. apply (IH x4) with (y := y); [cbn [length] in Hn; lia|assumption|exact Hh].
Qed.

Lemma utf8_ok_app_intro : forall n x, length x <= n -> forall y,
  utf8_ok x = true -> utf8_ok y = true -> utf8_ok (x ++ y) = true.
Proof.
  induction n as [|n IH]; intros x Hn y Hx Hy; destruct x as [|c x1]; try exact Hy; [cbn in Hn; lia|].
  cbn [length] in Hn. cbn [utf8_ok] in Hx. cbn [app utf8_ok].
  destruct (c <? 128)%N; [apply (IH x1); [lia|exact Hx|exact Hy]|].
  destruct ((194 <=? c) && (c <=? 223))%N.
  { destruct x1 as [|c1 x2]; [discriminate|]. cbn [app]. split_andb. rew_true. cbn [andb].
    apply (IH x2); [cbn [length] in Hn; lia|assumption|exact Hy]. }
  destruct ((224 <=? c) && (c <=? 239))%N.
  { destruct x1 as [|c1 [|c2 x3]]; try discriminate. cbn [app]. split_andb. rew_true. cbn [andb].
    apply (IH x3); [cbn [length] in Hn; lia|assumption|exact Hy]. }
  destruct ((240 <=? c) && (c <=? 244))%N; [|discriminate].
  destruct x1 as [|c1 [|c2 [|c3 x4]]]; try discriminate. cbn [app]. split_andb. rew_true. cbn [andb].
  apply (IH x4); [cbn [length] in Hn; lia|assumption|exact Hy].
Qed.

Lemma utf8_app x y : utf8_ok x = true -> utf8_ok y = true -> utf8_ok (x ++ y) = true.
Proof. apply (utf8_ok_app_intro (length x)). lia. Qed.

(* valid text cut where a character begins: both halves are valid *)
Lemma utf8_cut x y : utf8_ok (x ++ y) = true -> head_ok y = true -> utf8_ok x = true /\ utf8_ok y = true.
Proof.
  intros H Hh. split.
  - apply (utf8_ok_app_l (length x) x (le_n _) y H Hh).
  - apply (utf8_ok_app_head (length x) x (le_n _) y H Hh).
Qed.

Lemma utf8_firstn s i : utf8_ok s = true -> i <= length s -> char_boundary s i = true -> utf8_ok (firstn i s) = true.
Proof.
  intros U Hi Hb. rewrite <- (firstn_skipn i s) in U. apply utf8_cut in U; [tauto|].
  apply char_boundary_head; assumption.
Qed.

Lemma utf8_skipn s i : utf8_ok s = true -> i <= length s -> char_boundary s i = true -> utf8_ok (skipn i s) = true.
Proof.
  intros U Hi Hb. rewrite <- (firstn_skipn i s) in U. apply utf8_cut in U; [tauto|].
  apply char_boundary_head; assumption.
Qed.

(* Match::as_str of a span on character boundaries is valid text *)
Lemma span_text_utf8 line a b :
  utf8_ok line = true -> a <= b -> b <= length line ->
  char_boundary line a = true -> char_boundary line b = true -> utf8_ok (span_text line (a, b)) = true.
Proof.
  intros U Hab Hb Ba Bb. unfold span_text. cbn [fst snd].
  pose proof (utf8_firstn line b U Hb Bb) as U1.
  assert (E : firstn (b - a) (skipn a line) = skipn a (firstn b line)).
  { rewrite skipn_firstn_comm. reflexivity. }
  rewrite E. apply utf8_skipn; [exact U1|rewrite firstn_length; lia|].
  destruct (Nat.eq_dec a b) as [->|Hne].
  - unfold char_boundary. rewrite (proj2 (nth_error_None (firstn b line) b)) by (rewrite firstn_length; lia).
    rewrite firstn_length. apply Nat.eqb_eq. lia.
  - rewrite char_boundary_firstn by lia. exact Ba.
Qed.

Lemma ascii_utf8 : forall s, forallb (fun c => (c <? 128)%N) s = true -> utf8_ok s = true.
Proof.
  induction s as [|c s IH]; [reflexivity|]. cbn [forallb utf8_ok]. intro H. apply andb_true_iff in H as [H1 H2].
  rewrite H1. apply IH. exact H2.
Qed.

Lemma uint_bytes_ascii : forall u, forallb (fun c => (c <? 128)%N) (JsonText.uint_bytes u) = true.
Proof. induction u; cbn [JsonText.uint_bytes forallb]; try rewrite IHu; reflexivity. Qed.

Lemma placeholder_utf8 i : utf8_ok (placeholder i) = true.
Proof. apply ascii_utf8. unfold placeholder. cbn [forallb]. rewrite uint_bytes_ascii. reflexivity. Qed.

Lemma placeholder_ne i : placeholder i <> [].
Proof. discriminate. Qed.

(* str::replace keeps valid text valid *)
Lemma str_replace_fuel_utf8 from to : utf8_ok from = true -> from <> [] -> utf8_ok to = true ->
  forall fuel s, utf8_ok s = true -> utf8_ok (str_replace_fuel fuel from to s) = true.
Proof.
  intros Uf Hne Ut. induction fuel as [|fuel IH]; intros s Us; cbn [str_replace_fuel]; [exact Us|].
  destruct (find_sub from s) as [pos|] eqn:E; [|exact Us].
  apply find_sub_some in E as (E1 & E2 & _).
  apply is_prefix_firstn in E1.
  pose proof (occurrence_split s from pos E2 E1) as Hs.
  set (x := firstn pos s) in *. set (rest := skipn (pos + length from) s) in *. clearbody x rest.
  rewrite Hs in Us.
  assert (Hh : head_ok (from ++ rest) = true).
  { pose proof (utf8_ok_head from Uf). destruct from; [congruence|assumption]. }
  apply utf8_cut in Us as [Ux Ufr]; [|exact Hh].
  pose proof (utf8_ok_app_r _ from (le_n _) _ Ufr Uf) as Ur.
  apply utf8_app; [exact Ux|]. apply utf8_app; [exact Ut|]. apply IH. exact Ur.
Qed.

(* the expansion loop of the code keeps valid text valid when the groups lie on character boundaries *)
Lemma expand_loop_utf8 line : utf8_ok line = true -> forall gs i text,
  (forall a b, In (Some (a, b)) gs ->
     (a <= b /\ b <= length line) /\ char_boundary line a = true /\ char_boundary line b = true) ->
  utf8_ok text = true -> utf8_ok (expand_loop line i gs text) = true.
Proof.
  intros U. induction gs as [|g gs IH]; intros i text Hg Ut; cbn [expand_loop]; [exact Ut|].
  apply IH; [intros a b Hin; apply Hg; right; exact Hin|].
  destruct g as [[a b]|]; [|exact Ut].
  destruct (Hg a b (or_introl eq_refl)) as ((Hab & Hb) & Ba & Bb).
  unfold str_replace. apply str_replace_fuel_utf8;
    [apply placeholder_utf8|apply placeholder_ne|apply span_text_utf8; assumption|exact Ut].
Qed.

(* ------------------------------------------------------------------------------------------ *)
(* R2: one line of str::lines() inside the text: its terminator, validity, boundaries          *)
(* ------------------------------------------------------------------------------------------ *)

Lemma strip_eol_tail l : exists tl, l = strip_eol l ++ tl /\
  ((tl = [] /\ forall l', l <> l' ++ [10%N]) \/
   (tl = [10%N] /\ forall l', strip_eol l <> l' ++ [13%N]) \/
   tl = [13%N; 10%N]).
Proof.
  rewrite strip_eol_eq. unfold strip_eol'.
  destruct (rev l) as [|x r] eqn:E.
  - exists []. split; [symmetry; apply app_nil_r|]. left. split; [reflexivity|].
    intros l' ->. rewrite rev_app_distr in E. discriminate.
  - apply (f_equal (@rev _)) in E. rewrite rev_involutive in E. cbn [rev] in E.
    destruct (N.eqb_spec x 10) as [->|Hx].
    + destruct r as [|y r'].
      * exists [10%N]. split; [exact E|]. right. left. split; [reflexivity|]. intros [|? ?]; discriminate.
      * destruct (N.eqb_spec y 13) as [->|Hy].
        -- exists [13%N; 10%N]. split; [|right; right; reflexivity].
           rewrite E. cbn [rev]. rewrite <- app_assoc. reflexivity.
        -- exists [10%N]. split; [exact E|]. right. left. split; [reflexivity|].
           intros l' H. cbn [rev] in H. apply app_inj_tail in H as [_ H]. congruence.
    + exists []. split; [symmetry; apply app_nil_r|]. left. split; [reflexivity|].
      intros l' H. rewrite E in H. apply app_inj_tail in H as [_ H]. congruence.
Qed.

(* the line without its terminator, what follows it, and the one fact about "\r\n" *)
Lemma line_decomp raw post : raw_shape raw post -> exists tl,
  raw = strip_eol raw ++ tl /\ head_ok (tl ++ post) = true /\
  (forall l', strip_eol raw = l' ++ [13%N] -> nth_error (tl ++ post) 0 <> Some 10%N).
Proof.
  intro Hshape. destruct (strip_eol_tail raw) as (tl & Hraw & Hcases).
  destruct Hcases as [(Htl & Hno)|[(Htl & Hno)|Htl]]; subst tl.
  - destruct Hshape as [(l & Hl & _)|(_ & Hpost & _)].
    + exfalso. apply (Hno l). exact Hl.
    + subst post. exists []. split; [exact Hraw|]. split; [reflexivity|]. intros l' _. cbn. discriminate.
  - exists [10%N]. split; [exact Hraw|]. split; [reflexivity|]. intros l' H. exfalso. apply (Hno l'). exact H.
  - exists [13%N; 10%N]. split; [exact Hraw|]. split; [reflexivity|]. intros l' _. cbn. discriminate.
Qed.

(* every line handed to the regexes is valid UTF-8 when the text is *)
Lemma line_utf8 t pre raw post :
  utf8_ok t = true -> t = pre ++ raw ++ post -> pre_ok pre -> raw_shape raw post ->
  utf8_ok (strip_eol raw) = true.
Proof.
  intros U Ht Hpre Hshape.
  assert (U1 : utf8_ok (raw ++ post) = true).
  { destruct Hpre as [->|[pre' ->]]; [subst t; exact U|]. subst t. rewrite <- app_assoc in U.
    apply utf8_cut in U as [_ U]; [|reflexivity]. exact U. }
  destruct (line_decomp raw post Hshape) as (tl & Hraw & Hh & _).
  rewrite Hraw, <- app_assoc in U1. apply utf8_cut in U1 as [U1 _]; [exact U1|exact Hh].
Qed.

Lemma char_boundary_embed pre line rest i :
  i <= length line -> char_boundary line i = true -> head_ok rest = true ->
  char_boundary (pre ++ line ++ rest) (length pre + i) = true.
Proof.
  intros Hi H Hh. destruct (Nat.eq_dec i (length line)) as [->|Hne].
  - rewrite app_assoc. replace (length pre + length line) with (length (pre ++ line)) by (rewrite app_length; lia).
    apply head_ok_boundary_app. exact Hh.
  - unfold char_boundary in *. rewrite nth_error_app2 by lia.
    replace (length pre + i - length pre) with i by lia. rewrite nth_error_app1 by lia.
    destruct (nth_error line i) eqn:E; [exact H|]. apply nth_error_None in E. lia.
Qed.

(* a match inside the stripped line never ends with the '\r' of the line's "\r\n" -- also when it is empty *)
Lemma no_cr_embed pre line tl post e :
  pre_ok pre -> count_byte 10 line = 0 -> e <= length line ->
  (forall l', line = l' ++ [13%N] -> nth_error (tl ++ post) 0 <> Some 10%N) ->
  ~ (nth_error (pre ++ (line ++ tl) ++ post) (length pre + e - 1) = Some 13%N /\
     nth_error (pre ++ (line ++ tl) ++ post) (length pre + e) = Some 10%N).
Proof.
  intros Hpre Hnl He Hcr [H1 H2].
  rewrite <- app_assoc in H1, H2.
  rewrite nth_error_app2 in H2 by lia. replace (length pre + e - length pre) with e in H2 by lia.
  destruct (Nat.eq_dec e (length line)) as [->|Hne].
  - rewrite nth_error_app2 in H2 by lia. rewrite Nat.sub_diag in H2.
    destruct (Nat.eq_dec (length line) 0) as [H0|H0].
    + rewrite H0, Nat.add_0_r in H1. destruct line; [|discriminate]. cbn [app] in H1.
      destruct Hpre as [->|[pre' ->]].
      * cbn [length app] in H1. change (0 - 1) with 0 in H1. congruence.
      * rewrite app_length in H1. cbn [length] in H1.
        replace (length pre' + 1 - 1) with (length pre') in H1 by lia.
        rewrite <- app_assoc in H1. rewrite nth_error_app2 in H1 by lia. rewrite Nat.sub_diag in H1. discriminate.
    + rewrite nth_error_app2 in H1 by lia.
      replace (length pre + length line - 1 - length pre) with (length line - 1) in H1 by lia.
      rewrite nth_error_app1 in H1 by lia.
      apply (Hcr (firstn (length line - 1) line)); [|exact H2].
      pose proof (firstn_S_nth line _ _ H1) as E.
      replace (S (length line - 1)) with (length line) in E by lia. rewrite firstn_all in E. exact E.
  - rewrite nth_error_app1 in H2 by lia. apply count_byte_nth in H2. lia.
Qed.

Lemma spans_chain_in : forall l pos len s e, spans_chain pos len l -> In (s, e) l -> pos <= s /\ s <= e /\ e <= len.
Proof.
  induction l as [|[s0 e0] l IH]; intros pos len s e H Hin; [contradiction|].
  cbn [spans_chain] in H. destruct H as [(H1 & H2 & H3) H4]. destruct Hin as [E|Hin].
  - injection E as <- <-. lia.
  - specialize (IH _ _ _ _ H4 Hin). lia.
Qed.

(* ------------------------------------------------------------------------------------------ *)
(* R3: the loop, fused over the raw lines; what it guarantees per hunk; order                  *)
(* ------------------------------------------------------------------------------------------ *)

Section LoopRx.
Variable excl : bytes -> bool.
Variable rx_find : bytes -> list (nat * nat * bytes).
Variable p : bytes.

Fixpoint fused_rx (idx off : nat) (raws : list bytes) : list rxhunk :=
  match raws with
  | [] => []
  | raw :: rest =>
      (if excl (strip_eol raw) then []
       else map (rx_hunk p idx off (strip_eol raw)) (rx_find (strip_eol raw)))
      ++ fused_rx (S idx) (off + length raw) rest
  end.

Lemma lines_loop_rx_fused : forall raws pre off0,
  lines_loop_rx excl rx_find p (line_starts_from off0 (pre ++ raws)) (length pre) (map strip_eol raws) =
  fused_rx (length pre) (off0 + length (concat pre)) raws.
Proof.
  induction raws as [|raw rest IH]; intros pre off0; [reflexivity|].
  cbn [map lines_loop_rx fused_rx]. rewrite nth_line_starts. f_equal.
  specialize (IH (pre ++ [raw]) off0). rewrite <- app_assoc in IH. cbn [app] in IH.
  rewrite app_length in IH. cbn [length] in IH. rewrite Nat.add_1_r in IH. rewrite IH.
  rewrite concat_app, app_length. cbn [concat]. rewrite app_nil_r. f_equal. lia.
Qed.

Lemma scan_text_rx_fused t : scan_text_rx excl rx_find p t = fused_rx 0 0 (split_incl t).
Proof.
  unfold scan_text_rx, str_lines. apply (lines_loop_rx_fused (split_incl t) [] 0).
Qed.

(* the hunk the loop builds is the hunk Hunks.mk_hunk builds for the span *)
Lemma rx_hunk_is_mk_hunk t pre raw post s e r :
  t = pre ++ raw ++ post -> pre_ok pre -> raw_shape raw post ->
  s <= e -> e <= length (strip_eol raw) ->
  rx_fh (rx_hunk p (count_byte 10 pre) (length pre) (strip_eol raw) (s, e, r)) =
    mk_hunk false t (length pre + s) (length pre + e) r /\
  line_at t (length pre + s) = raw /\ col_of t (length pre + s) = s.
Proof.
  intros Ht Hpre Hshape Hse Hfit.
  pose proof (strip_eol_shape raw post Hshape) as Hnl.
  pose proof (strip_eol_length_le raw) as HL.
  pose proof (strip_eol_prefix raw) as Hpx.
  set (line := strip_eol raw) in *. set (L := length line) in *.
  assert (Hfa : firstn s raw = firstn s line).
  { rewrite Hpx, firstn_firstn. f_equal. lia. }
  assert (Hc : count_byte 10 (firstn s raw) = 0) by (rewrite Hfa; apply count_byte_firstn_zero; exact Hnl).
  destruct (line_facts t pre raw post s Ht Hpre Hshape ltac:(lia) Hc) as (Hls & Hlo & Hla).
  assert (Hcol : col_of t (length pre + s) = s) by (unfold col_of; rewrite Hls; lia).
  assert (Hslice : firstn (e - s) (skipn (length pre + s) t) = firstn (e - s) (skipn s line)).
  { subst t. rewrite skipn_app_add. rewrite firstn_skipn_app_l by lia.
    rewrite <- (firstn_skipn_prefix raw L) by lia. fold line in Hpx. rewrite <- Hpx. reflexivity. }
  assert (Hlen : length (firstn (e - s) (skipn s line)) = e - s).
  { rewrite firstn_length, skipn_length. unfold L in *. lia. }
  split; [|auto].
  unfold rx_hunk, mk_hunk. cbn [rx_fh]. rewrite Hla, Hlo, Hcol.
  replace (length pre + e - (length pre + s)) with (e - s) by lia.
  rewrite Hslice. fold line. rewrite Hfa. unfold splice_line. rewrite Hlen.
  replace (s + (e - s)) with e by lia. reflexivity.
Qed.

(* what the loop guarantees for one hunk, against the text [t] it scanned *)
Definition good_rx (t : bytes) (rh : rxhunk) : Prop :=
  let h := rx_fh rh in
  let line := strip_eol (line_at t (fh_start h)) in
  let col := col_of t (fh_start h) in
  rx_variant rh = p /\
  h = mk_hunk false t (fh_start h) (fh_end h) (fh_replace h) /\
  fh_start h <= fh_end h /\ fh_end h <= length t /\
  excl line = false /\
  In (col, col + (fh_end h - fh_start h), fh_replace h) (rx_find line) /\
  col + (fh_end h - fh_start h) <= length line /\
  fh_content h = firstn (fh_end h - fh_start h) (skipn col line) /\
  utf8_ok line = true /\ count_byte 10 line = 0 /\
  char_boundary t (fh_start h) = true /\ char_boundary t (fh_end h) = true /\
  no_cr_cut t h /\
  char_boundary line col = true.

Hypothesis OK : rx_find_ok rx_find.

Lemma fused_rx_good : forall raws pre s t,
  t = pre ++ s -> pre_ok pre -> split_incl s = raws -> utf8_ok t = true ->
  forall rh, In rh (fused_rx (count_byte 10 pre) (length pre) raws) -> good_rx t rh.
Proof.
  induction raws as [|raw rest IH]; intros pre s t Ht Hpre Hsp U rh Hin; [contradiction|].
  assert (Hne : s <> []) by (intro; subst s; discriminate).
  destruct (split_incl_cons s Hne) as (raw' & s' & Hs & Hsp' & Hshape).
  rewrite Hsp' in Hsp. injection Hsp as -> <-.
  cbn [fused_rx] in Hin. apply in_app_or in Hin as [Hin|Hin].
  - destruct (excl (strip_eol raw)) eqn:Ex; [contradiction|].
    apply in_map_iff in Hin as ([[a b] r] & <- & Hm).
    assert (Ht' : t = pre ++ raw ++ s') by (rewrite Ht, Hs; reflexivity).
    pose proof (line_utf8 t pre raw s' U Ht' Hpre Hshape) as Ul.
    pose proof (strip_eol_shape raw s' Hshape) as Hnl.
    pose proof (strip_eol_length_le raw) as HL.
    assert (Hab : 0 <= a /\ a <= b /\ b <= length (strip_eol raw)).
    { apply (spans_chain_in (map fst (rx_find (strip_eol raw))) 0 _ a b (rf_chain _ OK _ Ul)).
      apply in_map_iff. exists (a, b, r). split; [reflexivity|exact Hm]. }
    destruct (rf_bound _ OK _ a b r Ul Hm) as [Ba Bb].
    destruct (rx_hunk_is_mk_hunk t pre raw s' a b r Ht' Hpre Hshape ltac:(lia) ltac:(lia)) as (Heq & Hla & Hcol).
    destruct (line_decomp raw s' Hshape) as (tl & Hraw & Hh & Hcr).
    unfold good_rx.
    assert (Hst : fh_start (rx_fh (rx_hunk p (count_byte 10 pre) (length pre) (strip_eol raw) (a, b, r))) = length pre + a)
      by reflexivity.
    assert (Hen : fh_end (rx_fh (rx_hunk p (count_byte 10 pre) (length pre) (strip_eol raw) (a, b, r))) = length pre + b)
      by reflexivity.
    assert (Hre : fh_replace (rx_fh (rx_hunk p (count_byte 10 pre) (length pre) (strip_eol raw) (a, b, r))) = r)
      by reflexivity.
    assert (Hco : fh_content (rx_fh (rx_hunk p (count_byte 10 pre) (length pre) (strip_eol raw) (a, b, r))) =
                  firstn (b - a) (skipn a (strip_eol raw))) by reflexivity.
    cbv zeta. rewrite Hst, Hen, Hre, Hco, Hla, Hcol.
    replace (length pre + b - (length pre + a)) with (b - a) by lia.
    replace (a + (b - a)) with b by lia.
    split; [reflexivity|]. split; [exact Heq|]. split; [lia|]. split.
    { rewrite Ht', !app_length. lia. }
    split; [exact Ex|]. split; [exact Hm|]. split; [lia|]. split; [reflexivity|].
    split; [exact Ul|]. split; [exact Hnl|].
    assert (Ht'' : t = pre ++ strip_eol raw ++ (tl ++ s')).
    { rewrite Ht'. rewrite Hraw at 1. rewrite <- app_assoc. reflexivity. }
    split; [rewrite Ht''; apply char_boundary_embed; [lia|exact Ba|exact Hh]|].
    split; [rewrite Ht''; apply char_boundary_embed; [lia|exact Bb|exact Hh]|].
    split; [|exact Ba].
    unfold no_cr_cut. rewrite Hen.
    assert (Ht3 : t = pre ++ (strip_eol raw ++ tl) ++ s') by (rewrite Ht'; rewrite Hraw at 1; reflexivity).
    rewrite Ht3. apply no_cr_embed; [exact Hpre|exact Hnl|lia|exact Hcr].
  - destruct Hshape as [(l & Hraw & Hl)|(_ & -> & _)]; [|contradiction].
    apply (IH (pre ++ raw) s' t); [rewrite Ht, Hs, app_assoc; reflexivity| |reflexivity|exact U|].
    + right. exists (pre ++ l). rewrite Hraw, app_assoc. reflexivity.
    + rewrite count_byte_app, app_length, Hraw, count_byte_app, Hl. cbn [count_byte].
      rewrite N.eqb_refl. replace (count_byte 10 pre + (0 + (1 + 0))) with (S (count_byte 10 pre)) by lia.
      rewrite <- Hraw. exact Hin.
Qed.

(* order: the hunks of a line ascend without overlap and end inside the line *)
Lemma map_rx_sorted idx off line : forall ms pos len, spans_chain pos len (map fst ms) ->
  sorted_disjoint (off + pos) (map rx_fh (map (rx_hunk p idx off line) ms)) = true /\
  (forall h, In h (map rx_fh (map (rx_hunk p idx off line) ms)) -> fh_end h <= off + len).
Proof.
  induction ms as [|[[s e] r] ms IH]; intros pos len H; cbn [map].
  - split; [reflexivity|intros ? []].
  - cbn [spans_chain map fst] in H. destruct H as [(H1 & H2 & H3) H4].
    destruct (IH e len H4) as [IH1 IH2]. split.
    + cbn [sorted_disjoint rx_hunk rx_fh fh_start fh_end]. rewrite IH1.
      replace (Nat.leb (off + pos) (off + s)) with true by (symmetry; apply Nat.leb_le; lia).
      replace (Nat.leb (off + s) (off + e)) with true by (symmetry; apply Nat.leb_le; lia).
      reflexivity.
    + intros h [<-|Hin]; [cbn [rx_hunk rx_fh fh_end]; lia|apply IH2; exact Hin].
Qed.

Lemma fused_rx_sorted : forall raws idx off,
  Forall (fun raw => utf8_ok (strip_eol raw) = true) raws ->
  sorted_disjoint off (map rx_fh (fused_rx idx off raws)) = true.
Proof.
  induction raws as [|raw rest IH]; intros idx off HU; [reflexivity|].
  inversion HU as [|? ? Ul HU']; subst.
  cbn [fused_rx]. rewrite map_app.
  pose proof (strip_eol_length_le raw) as HL.
  destruct (map_rx_sorted idx off (strip_eol raw) (rx_find (strip_eol raw)) 0 _ (rf_chain _ OK _ Ul)) as [S1 S2].
  apply (sorted_disjoint_app_intro _ _ off (off + length raw)); [| |lia|apply IH; exact HU'].
  - destruct (excl (strip_eol raw)); [reflexivity|]. rewrite Nat.add_0_r in S1. exact S1.
  - intros h Hh. destruct (excl (strip_eol raw)); [contradiction|]. specialize (S2 h Hh). lia.
Qed.

End LoopRx.

Lemma raws_utf8 : forall raws pre s t,
  t = pre ++ s -> pre_ok pre -> split_incl s = raws -> utf8_ok t = true ->
  Forall (fun raw => utf8_ok (strip_eol raw) = true) raws.
Proof.
  induction raws as [|raw rest IH]; intros pre s t Ht Hpre Hsp U; [constructor|].
  assert (Hne : s <> []) by (intro; subst s; discriminate).
  destruct (split_incl_cons s Hne) as (raw' & s' & Hs & Hsp' & Hshape).
  rewrite Hsp' in Hsp. injection Hsp as -> <-.
  assert (Ht' : t = pre ++ raw ++ s') by (rewrite Ht, Hs; reflexivity).
  constructor; [apply (line_utf8 t pre raw s' U Ht' Hpre Hshape)|].
  destruct Hshape as [(l & Hraw & Hl)|(_ & -> & _)]; [|constructor].
  apply (IH (pre ++ raw) s' t); [rewrite Ht, Hs, app_assoc; reflexivity| |reflexivity|exact U].
  right. exists (pre ++ l). rewrite Hraw, app_assoc. reflexivity.
Qed.

(* ------------------------------------------------------------------------------------------ *)
(* R4: the theorems about the loop on a valid text                                             *)
(* ------------------------------------------------------------------------------------------ *)

(* what a plan says about one of its hunks, checked against the text [t]:
   variant = the pattern; the span is inside the text, start <= end (EMPTY matches are possible), on character
   boundaries; content = the bytes at [start, end) = the text of a match the oracle reported for line_before at the
   recorded column, replace = the text the oracle's entry carries for that match; line and byte column are those of
   start; char column = characters before the column; line_before = the line of start without its terminator;
   line_after = line_before with exactly this match replaced; the match is found at its column of line_before; the line
   is not excluded; the match does not swallow the '\r' of a "\r\n"; it contains no '\n'; and the hunk is the one
   Hunks.mk_hunk builds for the span *)
Definition rx_hunk_spec (excl : bytes -> bool) (rx_find : bytes -> list (nat * nat * bytes)) (p t : bytes)
    (rh : rxhunk) : Prop :=
  let h := rx_fh rh in
  let line := strip_eol (line_at t (fh_start h)) in
  rx_variant rh = p /\
  fh_start h <= fh_end h /\ fh_end h <= length t /\
  char_boundary t (fh_start h) = true /\ char_boundary t (fh_end h) = true /\
  fh_content h = firstn (fh_end h - fh_start h) (skipn (fh_start h) t) /\
  In (fh_col h, fh_col h + length (fh_content h), fh_replace h) (rx_find line) /\
  fh_line h = line_of t (fh_start h) /\
  fh_col h = col_of t (fh_start h) /\
  fh_char h = char_count (firstn (fh_col h) (line_at t (fh_start h))) /\
  fh_before h = Some line /\
  fh_after h = Some (splice_line line (fh_col h) (fh_content h) (fh_replace h)) /\
  fh_col h + length (fh_content h) <= length line /\
  firstn (length (fh_content h)) (skipn (fh_col h) line) = fh_content h /\
  excl line = false /\
  utf8_ok line = true /\
  char_boundary line (fh_col h) = true /\
  no_cr_cut t h /\
  existsb (N.eqb 10) (fh_content h) = false /\
  h = mk_hunk false t (fh_start h) (fh_end h) (fh_replace h).

Section TextRx.
Variable excl : bytes -> bool.
Variable rx_find : bytes -> list (nat * nat * bytes).
Variable p : bytes.
Hypothesis OK : rx_find_ok rx_find.

Lemma scan_text_rx_good t rh : utf8_ok t = true -> In rh (scan_text_rx excl rx_find p t) -> good_rx excl rx_find p t rh.
Proof.
  intros U Hin. rewrite scan_text_rx_fused in Hin.
  apply (fused_rx_good excl rx_find p OK (split_incl t) [] t t eq_refl (or_introl eq_refl) eq_refl U). exact Hin.
Qed.

Theorem scan_text_rx_hunks : forall t rh, utf8_ok t = true ->
  In rh (scan_text_rx excl rx_find p t) -> rx_hunk_spec excl rx_find p t rh.
Proof.
  intros t rh U Hin. apply scan_text_rx_good in Hin; [|exact U].
  destruct Hin as (Hv & Heq & Hse & Hle & Hex & Hm & Hfit & Hco & Ul & Hnl & Ba & Bb & Hcr & Bl).
  unfold rx_hunk_spec. cbv zeta.
  set (h := rx_fh rh) in *. set (a := fh_start h) in *. set (b := fh_end h) in *. set (r := fh_replace h) in *.
  set (line := strip_eol (line_at t a)) in *.
  assert (Hcol : fh_col h = col_of t a) by (rewrite Heq; reflexivity).
  assert (Hcont : fh_content h = firstn (b - a) (skipn a t)) by (rewrite Heq; reflexivity).
  assert (Hlen : length (fh_content h) = b - a).
  { rewrite Hcont, firstn_length, skipn_length. lia. }
  assert (Hnlc : existsb (N.eqb 10) (fh_content h) = false).
  { apply existsb_count_byte. rewrite Hco. apply count_byte_firstn_zero, count_byte_skipn_zero. exact Hnl. }
  split; [exact Hv|]. split; [exact Hse|]. split; [exact Hle|]. split; [exact Ba|]. split; [exact Bb|].
  split; [exact Hcont|]. split; [rewrite Hlen, Hcol; exact Hm|].
  split; [rewrite Heq; reflexivity|]. split; [exact Hcol|]. split; [rewrite Heq; reflexivity|].
  split; [rewrite Heq; reflexivity|].
  split.
  { rewrite Hcont. rewrite Heq at 1. rewrite Heq at 1. reflexivity. }
  split; [rewrite Hlen, Hcol; exact Hfit|].
  split; [rewrite Hlen, Hcol; symmetry; exact Hco|].
  split; [exact Hex|]. split; [exact Ul|]. split; [rewrite Hcol; exact Bl|]. split; [exact Hcr|].
  split; [exact Hnlc|exact Heq].
Qed.

Theorem scan_text_rx_sorted : forall t, utf8_ok t = true ->
  sorted_disjoint 0 (map rx_fh (scan_text_rx excl rx_find p t)) = true.
Proof.
  intros t U. rewrite scan_text_rx_fused. apply (fused_rx_sorted excl rx_find p OK).
  apply (raws_utf8 (split_incl t) [] t t eq_refl (or_introl eq_refl) eq_refl U).
Qed.

(* consistency in the sense of C03 needs NON-EMPTY matches: Hunks.hunk_ok rejects start = end *)
Theorem scan_text_rx_consistent : forall t, utf8_ok t = true -> rx_find_nonempty rx_find ->
  file_consistent false t (map rx_fh (scan_text_rx excl rx_find p t)) = true.
Proof.
  intros t U NE. unfold file_consistent. rewrite (scan_text_rx_sorted t U), andb_true_r.
  apply forallb_forall. intros h Hin. apply in_map_iff in Hin as (rh & <- & Hin).
  apply scan_text_rx_good in Hin; [|exact U].
  destruct Hin as (Hv & Heq & Hse & Hle & Hex & Hm & Hfit & Hco & Ul & Hnl & Ba & Bb & Hcr & Bl).
  pose proof (NE _ _ _ _ Ul Hm) as Hlt.
  rewrite Heq. apply mk_hunk_ok; [lia|exact Hle|exact Ba|exact Bb|].
  apply existsb_count_byte.
  assert (Hcont : fh_content (rx_fh rh) = firstn (fh_end (rx_fh rh) - fh_start (rx_fh rh)) (skipn (fh_start (rx_fh rh)) t))
    by (rewrite Heq at 1; reflexivity).
  rewrite <- Hcont, Hco. apply count_byte_firstn_zero, count_byte_skipn_zero. exact Hnl.
Qed.

(* a well-formed edit list does NOT need non-empty matches *)
Lemma rx_wf_from t : forall hs pos, sorted_disjoint pos hs = true ->
  (forall h, In h hs ->
     fh_end h <= length t /\ char_boundary t (fh_start h) = true /\ char_boundary t (fh_end h) = true /\
     fh_content h = firstn (fh_end h - fh_start h) (skipn (fh_start h) t) /\ head_ok (fh_replace h) = true) ->
  wf_edits_from t pos (map edit_of_hunk hs) = true.
Proof.
  induction hs as [|h hs IH]; intros pos Hsd Hall; [reflexivity|].
  cbn [sorted_disjoint] in Hsd. apply andb_true_iff in Hsd as [Hsd Hsd3]. apply andb_true_iff in Hsd as [Hsd1 Hsd2].
  destruct (Hall h (or_introl eq_refl)) as (Hle & Ba & Bb & Hc & Hh).
  cbn [map wf_edits_from edit_of_hunk e_start e_stop e_old e_new].
  unfold str_slice. rewrite Hsd1, Hsd2, Ba, Bb.
  replace (Nat.leb (fh_end h) (length t)) with true by (symmetry; apply Nat.leb_le; exact Hle).
  cbn [andb]. rewrite <- Hc, beq_refl, Hh. cbn [andb].
  apply IH; [exact Hsd3|]. intros h' Hin. apply Hall. right. exact Hin.
Qed.

Theorem scan_text_rx_applies : forall t, utf8_ok t = true ->
  (forall line s e r, utf8_ok line = true -> In (s, e, r) (rx_find line) -> head_ok r = true) ->
  wf_edits t (map edit_of_hunk (map rx_fh (scan_text_rx excl rx_find p t))) = true /\
  apply_edits_rev t (map edit_of_hunk (map rx_fh (scan_text_rx excl rx_find p t))) =
    Ok (spec_splice t (map edit_of_hunk (map rx_fh (scan_text_rx excl rx_find p t)))).
Proof.
  intros t U HR.
  assert (W : wf_edits t (map edit_of_hunk (map rx_fh (scan_text_rx excl rx_find p t))) = true).
  { unfold wf_edits. apply rx_wf_from; [apply scan_text_rx_sorted; exact U|].
    intros h Hin. apply in_map_iff in Hin as (rh & <- & Hin).
    apply scan_text_rx_good in Hin; [|exact U].
    destruct Hin as (Hv & Heq & Hse & Hle & Hex & Hm & Hfit & Hco & Ul & Hnl & Ba & Bb & Hcr & Bl).
    split; [exact Hle|]. split; [exact Ba|]. split; [exact Bb|]. split; [rewrite Heq at 1; reflexivity|].
    apply (HR _ _ _ _ Ul Hm). }
  split; [exact W|]. apply apply_edits_rev_spec; [apply utf8_ok_head; exact U|exact W].
Qed.

End TextRx.

(* ------------------------------------------------------------------------------------------ *)
(* R5: process_file_content / create_simple_plan in regex mode, the oracle at the level of the  *)
(*     line loop: (start, end, replacement text) per line, contract rx_find_ok                  *)
(* ------------------------------------------------------------------------------------------ *)

Section FileRx.
Variable excl : bytes -> bool.
Variable rx_find : bytes -> list (nat * nat * bytes).
Variable p : bytes.

Notation pfr := (process_file_content_rx excl rx_find p).

Lemma pfr_cases bat c :
  (utf8_ok c = true /\ fst (pfr bat c) = scan_text_rx excl rx_find p c) \/ fst (pfr bat c) = [].
Proof.
  unfold process_file_content_rx. destruct (negb bat && is_binary c); [right; reflexivity|].
  destruct (utf8_ok c); cbn [negb]; [left; split; reflexivity|right; reflexivity].
Qed.

(* binary files (unless -uuu) and files that are not valid UTF-8 are left out; otherwise the result is the loop on the
   file's text; has_matches says whether the file has hunks *)
Theorem rx_plan_file_cases : forall bat c,
  (negb bat && is_binary c = true -> pfr bat c = ([], false)) /\
  (utf8_ok c = false -> pfr bat c = ([], false)) /\
  (negb bat && is_binary c = false -> utf8_ok c = true -> fst (pfr bat c) = scan_text_rx excl rx_find p c) /\
  snd (pfr bat c) = negb (Nat.eqb (length (fst (pfr bat c))) 0).
Proof.
  intros bat c. unfold process_file_content_rx.
  destruct (negb bat && is_binary c).
  - repeat split; try reflexivity; discriminate.
  - destruct (utf8_ok c); cbn [negb].
    + repeat split; try reflexivity; try discriminate. cbn [fst snd]. destruct (scan_text_rx excl rx_find p c); reflexivity.
    + repeat split; try reflexivity; discriminate.
Qed.

Lemma files_with_count_rx bat : forall files,
  length (filter snd (map (pfr bat) files)) =
  length (filter (fun l : list rxhunk => negb (Nat.eqb (length l) 0)) (map fst (map (pfr bat) files))).
Proof.
  induction files as [|c files IH]; [reflexivity|]. cbn [map filter].
  destruct (rx_plan_file_cases bat c) as (_ & _ & _ & E). rewrite E.
  destruct (negb (Nat.eqb (length (fst (pfr bat c))) 0)); cbn [length]; rewrite IH; reflexivity.
Qed.

Lemma concat_map_map_length {A B} (f : A -> B) : forall ls : list (list A),
  length (concat (map (map f) ls)) = length (concat ls).
Proof.
  induction ls as [|l ls IH]; [reflexivity|]. cbn [map concat]. rewrite !app_length, map_length, IH. reflexivity.
Qed.

Lemma filter_nonempty_map_map {A B} (f : A -> B) : forall ls : list (list A),
  length (filter (fun l => negb (Nat.eqb (length l) 0)) (map (map f) ls)) =
  length (filter (fun l => negb (Nat.eqb (length l) 0)) ls).
Proof.
  induction ls as [|l ls IH]; [reflexivity|]. cbn [map filter]. rewrite map_length.
  destruct (negb (Nat.eqb (length l) 0)); cbn [length]; rewrite IH; reflexivity.
Qed.

(* MAIN 6 (stats): the empty pattern is an error; otherwise the plan holds the hunks of every file in walk order and
   the stats count what the plan holds; the only key of matches_by_variant is the pattern *)
Theorem create_simple_plan_rx_spec : forall bat files,
  (p = [] -> create_simple_plan_rx excl rx_find p bat files = None) /\
  (p <> [] -> exists per_file st,
     create_simple_plan_rx excl rx_find p bat files = Some (per_file, st) /\
     per_file = map (fun c => fst (pfr bat c)) files /\
     st_files_scanned st = length files /\
     st_total st = length (concat per_file) /\
     st_files_with st = length (filter (fun l => negb (Nat.eqb (length l) 0)) per_file) /\
     total_ok (st_total st) (map (map rx_fh) per_file) = true /\
     files_with_ok (st_files_with st) (map (map rx_fh) per_file) = true /\
     st_by_variant st = [(p, st_total st)]).
Proof.
  intros bat files. split; [intros ->; reflexivity|]. intro Hp.
  unfold create_simple_plan_rx. destruct p as [|x p'] eqn:Ep; [congruence|]. rewrite <- Ep.
  eexists. eexists. split; [reflexivity|]. cbn [st_files_scanned st_total st_files_with st_by_variant].
  split; [rewrite map_map; reflexivity|]. split; [reflexivity|]. split; [reflexivity|].
  split; [apply files_with_count_rx|].
  unfold total_ok, files_with_ok.
  rewrite concat_map_map_length, filter_nonempty_map_map, files_with_count_rx, !Nat.eqb_refl. auto.
Qed.

Hypothesis OK : rx_find_ok rx_find.

(* MAIN 1: every hunk is what the plan says it is, against THE FILE, for every file *)
Theorem rx_plan_hunks : forall bat c rh, In rh (fst (pfr bat c)) -> rx_hunk_spec excl rx_find p c rh.
Proof.
  intros bat c rh Hin. destruct (pfr_cases bat c) as [[U E]|E]; rewrite E in Hin; [|destruct Hin].
  apply scan_text_rx_hunks; assumption.
Qed.

(* MAIN 2: ascending by start, pairwise disjoint (empty matches included: start <= end <= next start) *)
Theorem rx_plan_sorted : forall bat c, sorted_disjoint 0 (map rx_fh (fst (pfr bat c))) = true.
Proof.
  intros bat c. destruct (pfr_cases bat c) as [[U E]|E]; rewrite E; [|reflexivity].
  apply scan_text_rx_sorted; assumption.
Qed.

Corollary rx_plan_pairwise_disjoint : forall bat c i j hi hj, i < j ->
  nth_error (map rx_fh (fst (pfr bat c))) i = Some hi -> nth_error (map rx_fh (fst (pfr bat c))) j = Some hj ->
  fh_start hi <= fh_end hi /\ fh_end hi <= fh_start hj.
Proof.
  intros bat c i j hi hj Hij Hi Hj.
  apply (sorted_disjoint_pairwise _ _ (rx_plan_sorted bat c) i j hi hj Hij Hi Hj).
Qed.

(* MAIN 3: consistency in the sense of C03 -- for a regex whose matches are never empty *)
Theorem rx_plan_consistent : forall bat c, rx_find_nonempty rx_find ->
  file_consistent false c (map rx_fh (fst (pfr bat c))) = true.
Proof.
  intros bat c NE. destruct (pfr_cases bat c) as [[U E]|E]; rewrite E; [|reflexivity].
  apply scan_text_rx_consistent; assumption.
Qed.

(* MAIN 4 (link to C02): the hunks are a well-formed edit list for the file and apply's splice loop on them yields
   the reference substitution -- EMPTY MATCHES INCLUDED (an empty edit is an insertion) *)
Theorem rx_plan_applies : forall bat c,
  (forall line s e r, utf8_ok line = true -> In (s, e, r) (rx_find line) -> head_ok r = true) ->
  head_ok c = true ->
  wf_edits c (map edit_of_hunk (map rx_fh (fst (pfr bat c)))) = true /\
  apply_edits_rev c (map edit_of_hunk (map rx_fh (fst (pfr bat c)))) =
    Ok (spec_splice c (map edit_of_hunk (map rx_fh (fst (pfr bat c))))).
Proof.
  intros bat c HR Hc. destruct (pfr_cases bat c) as [[U E]|E]; rewrite E.
  - apply scan_text_rx_applies; assumption.
  - cbn [map]. split; [reflexivity|]. apply apply_edits_rev_spec; [exact Hc|reflexivity].
Qed.

(* MAIN 5 (C15): for the hunks the plan has on one line, the diff preview's "after" line (Hunks.diff_after) is the
   line as it reads once all of them are applied -- for a regex whose matches are never empty *)
Theorem rx_plan_preview : forall bat c seg_pre h0 hs seg_post, rx_find_nonempty rx_find ->
  map rx_fh (fst (pfr bat c)) = seg_pre ++ (h0 :: hs) ++ seg_post ->
  (forall h, In h hs -> fh_line h = fh_line h0) ->
  diff_after (h0 :: hs) = line_after_plan (line_ctx false c (fh_start h0)) (h0 :: hs).
Proof.
  intros bat c seg_pre h0 hs seg_post NE Hseg Hline.
  pose proof (rx_plan_consistent bat c NE) as Hc. rewrite Hseg in Hc.
  apply file_consistent_segment in Hc.
  apply (consistent_diff_after false c h0 hs Hc Hline). intros _ h Hin.
  assert (Hin' : In h (map rx_fh (fst (pfr bat c)))).
  { rewrite Hseg. apply in_or_app. right. apply in_or_app. left. exact Hin. }
  apply in_map_iff in Hin' as (rh & <- & Hin').
  destruct (rx_plan_hunks bat c rh Hin') as (_ & _ & _ & _ & _ & _ & _ & _ & _ & _ & _ & _ & _ & _ & _ & _ & _ & Hcr & _).
  exact Hcr.
Qed.

End FileRx.

(* ------------------------------------------------------------------------------------------ *)
(* R6: THE FUNCTION OF THE CODE: the oracle is Regex::captures_iter (contract rx_caps_ok), the   *)
(*     replacement text is the code's own expansion loop -- the main theorems                   *)
(* ------------------------------------------------------------------------------------------ *)

Section Regex.
Variable excl : bytes -> bool.
Variable rx_caps : bytes -> list caps.
Variables p repl : bytes.
Hypothesis COK : rx_caps_ok rx_caps.

Notation rxf := (rx_find_of_caps rx_caps repl).
Notation pfx := (process_file_content_regex excl rx_caps p repl).

Lemma caps_find_ok : rx_find_ok rxf.
Proof.
  constructor.
  - intros line U. unfold rx_find_of_caps. rewrite map_map.
    erewrite map_ext; [apply (rc_chain _ COK line U)|]. intros [[s e] gs]. reflexivity.
  - intros line s e r U Hin. unfold rx_find_of_caps in Hin.
    apply in_map_iff in Hin as ([[s' e'] gs] & E & Hin). injection E as -> -> _.
    apply (rc_bound _ COK line s e gs U Hin).
Qed.

Lemma caps_find_in line s e r : In (s, e, r) (rxf line) ->
  exists gs, In (s, e, gs) (rx_caps line) /\ r = expand line gs repl.
Proof.
  unfold rx_find_of_caps. intro Hin. apply in_map_iff in Hin as ([[s' e'] gs] & E & Hin).
  injection E as -> -> <-. exists gs. auto.
Qed.

(* the expanded replacement is valid UTF-8 (so it does not begin inside a character) *)
Lemma caps_find_utf8 : utf8_ok repl = true ->
  forall line s e r, utf8_ok line = true -> In (s, e, r) (rxf line) -> utf8_ok r = true.
Proof.
  intros Ur line s e r U Hin. apply caps_find_in in Hin as (gs & Hin & ->).
  unfold expand. apply expand_loop_utf8; [exact U| |exact Ur].
  intros a b Hg. apply (rc_groups _ COK line s e gs a b U Hin Hg).
Qed.

Lemma caps_find_nonempty : rx_caps_nonempty rx_caps -> rx_find_nonempty rxf.
Proof.
  intros NE line s e r U Hin. apply caps_find_in in Hin as (gs & Hin & _). apply (NE line s e gs U Hin).
Qed.

(* REGEX 1 (C03): every hunk of the plan, field by field, against THE FILE, for every file: [rx_hunk_spec] (variant =
   the pattern, content = the file's bytes at [start, end), line / columns / line_before / line_after, ...) and
   replace = the code's expansion of the replacement with the groups of a match that captures_iter reported for
   line_before at the recorded column with the recorded length *)
Theorem regex_plan_hunks : forall bat c rh, In rh (fst (pfx bat c)) ->
  rx_hunk_spec excl rxf p c rh /\
  exists gs,
    In (fh_col (rx_fh rh), fh_col (rx_fh rh) + length (fh_content (rx_fh rh)), gs)
       (rx_caps (strip_eol (line_at c (fh_start (rx_fh rh))))) /\
    fh_replace (rx_fh rh) = expand (strip_eol (line_at c (fh_start (rx_fh rh)))) gs repl.
Proof.
  intros bat c rh Hin. pose proof (rx_plan_hunks excl rxf p caps_find_ok bat c rh Hin) as H.
  split; [exact H|]. destruct H as (_ & _ & _ & _ & _ & _ & Hm & _). cbv zeta in Hm.
  apply caps_find_in in Hm. exact Hm.
Qed.

(* REGEX 2 (C03): sorted by start, pairwise disjoint *)
Theorem regex_plan_sorted : forall bat c, sorted_disjoint 0 (map rx_fh (fst (pfx bat c))) = true.
Proof. apply rx_plan_sorted. exact caps_find_ok. Qed.

(* REGEX 3 (C03): file_consistent -- when the regex never matches the empty string *)
Theorem regex_plan_consistent : forall bat c, rx_caps_nonempty rx_caps ->
  file_consistent false c (map rx_fh (fst (pfx bat c))) = true.
Proof. intros bat c NE. apply rx_plan_consistent; [exact caps_find_ok|apply caps_find_nonempty; exact NE]. Qed.

(* REGEX 4 (C02 link): apply's splice loop on the plan's hunks succeeds and yields the reference substitution, empty
   matches included *)
Theorem regex_plan_applies : forall bat c, utf8_ok repl = true -> head_ok c = true ->
  wf_edits c (map edit_of_hunk (map rx_fh (fst (pfx bat c)))) = true /\
  apply_edits_rev c (map edit_of_hunk (map rx_fh (fst (pfx bat c)))) =
    Ok (spec_splice c (map edit_of_hunk (map rx_fh (fst (pfx bat c))))).
Proof.
  intros bat c Ur Hc. apply rx_plan_applies; [exact caps_find_ok| |exact Hc].
  intros line s e r U Hin. apply utf8_ok_head. apply (caps_find_utf8 Ur line s e r U Hin).
Qed.

(* REGEX 5 (C15): the diff preview's added line is how the line reads after apply -- when the regex never matches the
   empty string *)
Theorem regex_plan_preview : forall bat c seg_pre h0 hs seg_post, rx_caps_nonempty rx_caps ->
  map rx_fh (fst (pfx bat c)) = seg_pre ++ (h0 :: hs) ++ seg_post ->
  (forall h, In h hs -> fh_line h = fh_line h0) ->
  diff_after (h0 :: hs) = line_after_plan (line_ctx false c (fh_start h0)) (h0 :: hs).
Proof.
  intros bat c seg_pre h0 hs seg_post NE. apply rx_plan_preview; [exact caps_find_ok|apply caps_find_nonempty; exact NE].
Qed.

End Regex.

(* REGEX 6 (C03 stats): no hypothesis on the oracle at all *)
Theorem regex_plan_stats : forall excl rx_caps p repl bat files,
  (p = [] -> create_simple_plan_regex excl rx_caps p repl bat files = None) /\
  (p <> [] -> exists per_file st,
     create_simple_plan_regex excl rx_caps p repl bat files = Some (per_file, st) /\
     per_file = map (fun c => fst (process_file_content_regex excl rx_caps p repl bat c)) files /\
     st_files_scanned st = length files /\
     st_total st = length (concat per_file) /\
     st_files_with st = length (filter (fun l => negb (Nat.eqb (length l) 0)) per_file) /\
     total_ok (st_total st) (map (map rx_fh) per_file) = true /\
     files_with_ok (st_files_with st) (map (map rx_fh) per_file) = true /\
     st_by_variant st = [(p, st_total st)]).
Proof. intros. apply create_simple_plan_rx_spec. Qed.

(* ------------------------------------------------------------------------------------------ *)
(* R7: an oracle given as a table satisfies the contract when a boolean check of the table says *)
(*     so (used for the non-vacuity Examples; the differential test feeds such tables)          *)
(* ------------------------------------------------------------------------------------------ *)

Fixpoint spans_chainb (pos len : nat) (l : list span) : bool :=
  match l with
  | [] => true
  | (s, e) :: l' => Nat.leb pos s && Nat.leb s e && Nat.leb e len && spans_chainb e len l'
  end.

Lemma spans_chainb_ok : forall l pos len, spans_chainb pos len l = true -> spans_chain pos len l.
Proof.
  induction l as [|[s e] l IH]; intros pos len H; [exact I|]. cbn [spans_chainb] in H.
  apply andb_true_iff in H as [H H4]. apply andb_true_iff in H as [H H3]. apply andb_true_iff in H as [H1 H2].
  apply Nat.leb_le in H1. apply Nat.leb_le in H2. apply Nat.leb_le in H3.
  cbn [spans_chain]. split; [lia|]. apply IH. exact H4.
Qed.

Definition group_okb (line : bytes) (g : option span) : bool :=
  match g with
  | None => true
  | Some (a, b) => Nat.leb a b && Nat.leb b (length line) && char_boundary line a && char_boundary line b
  end.
Definition caps_okb (line : bytes) (m : caps) : bool :=
  let '(s, e, gs) := m in char_boundary line s && char_boundary line e && forallb (group_okb line) gs.
Definition entry_okb (kv : bytes * list caps) : bool :=
  spans_chainb 0 (length (fst kv)) (map fst (snd kv)) && forallb (caps_okb (fst kv)) (snd kv).

Lemma caps_of_table_cases tbl line :
  caps_of_table tbl line = [] \/ In (line, caps_of_table tbl line) tbl.
Proof.
  unfold caps_of_table. destruct (find (fun kv => beq line (fst kv)) tbl) as [kv|] eqn:E; [|left; reflexivity].
  right. apply find_some in E as [Hin Hb]. apply beq_eq in Hb. subst line. destruct kv. exact Hin.
Qed.

Theorem table_oracle_ok tbl : forallb entry_okb tbl = true -> rx_caps_ok (caps_of_table tbl).
Proof.
  intro H. rewrite forallb_forall in H.
  constructor.
  - intros line _. destruct (caps_of_table_cases tbl line) as [->|Hin]; [exact I|].
    specialize (H _ Hin). apply andb_true_iff in H as [H _]. apply spans_chainb_ok. exact H.
  - intros line s e gs _ Hm. destruct (caps_of_table_cases tbl line) as [E|Hin]; [rewrite E in Hm; destruct Hm|].
    specialize (H _ Hin). apply andb_true_iff in H as [_ H]. cbn [fst snd] in H.
    rewrite forallb_forall in H. specialize (H _ Hm). cbn [caps_okb] in H.
    apply andb_true_iff in H as [H _]. apply andb_true_iff in H. exact H.
  - intros line s e gs a b _ Hm Hg. destruct (caps_of_table_cases tbl line) as [E|Hin]; [rewrite E in Hm; destruct Hm|].
    specialize (H _ Hin). apply andb_true_iff in H as [_ H]. cbn [fst snd] in H.
    rewrite forallb_forall in H. specialize (H _ Hm). cbn [caps_okb] in H.
    apply andb_true_iff in H as [_ H]. rewrite forallb_forall in H. specialize (H _ Hg). cbn [group_okb] in H.
    apply andb_true_iff in H as [H B2]. apply andb_true_iff in H as [H B1]. apply andb_true_iff in H as [H1 H2].
    apply Nat.leb_le in H1. apply Nat.leb_le in H2. auto.
Qed.

Lemma table_oracle_nonempty tbl :
  forallb (fun kv : bytes * list caps => forallb (fun m : caps => Nat.ltb (fst (fst m)) (snd (fst m))) (snd kv)) tbl = true ->
  rx_caps_nonempty (caps_of_table tbl).
Proof.
  intro H. rewrite forallb_forall in H. intros line s e gs _ Hm.
  destruct (caps_of_table_cases tbl line) as [E|Hin]; [rewrite E in Hm; destruct Hm|].
  specialize (H _ Hin). cbn [snd] in H. rewrite forallb_forall in H. specialize (H _ Hm). cbn [fst snd] in H.
  apply Nat.ltb_lt in H. exact H.
Qed.

(* ------------------------------------------------------------------------------------------ *)
(* R7b: C15 WITH EMPTY MATCHES: preview/diff.rs as it is.                                      *)
(*   Hunks.diff_after tests `Nat.ltb (fh_col h) (length acc)`; the code tests                  *)
(*   `after_line.get(col..).is_some_and(|rest| rest.starts_with(&hunk.content))`, and           *)
(*   str::get(col..) is Some exactly when col is a char boundary of the string (col = len       *)
(*   included).  The two agree when every content is non-empty; [diff_after_real] is the code.  *)
(*   (`replace_range(col..col + content.len(), ..)` cannot panic once starts_with holds.)       *)
(* ------------------------------------------------------------------------------------------ *)

Definition dstep_real (acc : bytes) (h : fhunk) : bytes :=
  if char_boundary acc (fh_col h) && is_prefix (fh_content h) (skipn (fh_col h) acc)
  then firstn (fh_col h) acc ++ fh_replace h ++ skipn (fh_col h + length (fh_content h)) acc
  else acc.

Definition diff_after_real (hs : list fhunk) : bytes :=
  match hs with
  | [] => []
  | [h] => match fh_after h with Some a => a | None => fh_replace h end
  | h0 :: _ =>
      let before := match fh_before h0 with Some b => b | None => fh_content h0 end in
      fold_left dstep_real (sort_col_desc hs) before
  end.

(* the hunks of one line: ascending without overlap from [pos], STRICTLY ascending columns, every (possibly empty)
   content found at its column, columns on character boundaries *)
Fixpoint cols_ok_e (l : bytes) (pos : nat) (hs : list fhunk) : Prop :=
  match hs with
  | [] => True
  | h :: hs' =>
      pos <= fh_col h /\ fh_col h + length (fh_content h) <= length l /\
      firstn (length (fh_content h)) (skipn (fh_col h) l) = fh_content h /\
      char_boundary l (fh_col h) = true /\
      Forall (fun x => fh_col h < fh_col x) hs' /\
      cols_ok_e l (fh_col h + length (fh_content h)) hs'
  end.

Lemma cols_ok_e_weaken l : forall hs P Q, Q <= P -> cols_ok_e l P hs -> cols_ok_e l Q hs.
Proof.
  destruct hs as [|h hs]; intros P Q HQ H; [exact I|]. cbn [cols_ok_e] in *.
  destruct H as (H1 & H2). split; [lia|exact H2].
Qed.

Lemma splice_cols_head l col hs :
  char_boundary l col = true -> col <= length l -> Forall (fun x => col < fh_col x) hs -> cols_ok_e l col hs ->
  head_ok (splice_cols col (skipn col l) hs) = true.
Proof.
  intros Hb Hc HF Hok. pose proof (char_boundary_head l col Hc Hb) as Hh.
  destruct hs as [|h1 hs]; [exact Hh|]. cbn [splice_cols].
  inversion HF as [|? ? Hlt _]; subst. destruct Hok as (_ & Hlen1 & _).
  destruct (skipn col l) as [|c rest] eqn:E.
  { apply (f_equal (@length _)) in E. rewrite skipn_length in E. cbn [length] in E. lia. }
  destruct (fh_col h1 - col) as [|k] eqn:Ek; [lia|]. cbn [firstn app]. exact Hh.
Qed.

Lemma fold_dstep_real l : forall hs pos, cols_ok_e l pos hs ->
  fold_right (fun h acc => dstep_real acc h) l hs = firstn pos l ++ splice_cols pos (skipn pos l) hs.
Proof.
  induction hs as [|h hs IH]; intros pos H.
  - cbn. symmetry. apply firstn_skipn.
  - destruct H as (Hle & Hlen & Hfound & Hb & Hstrict & Hrest).
    cbn [fold_right splice_cols]. rewrite (IH _ Hrest).
    set (col := fh_col h) in *. set (len := length (fh_content h)) in *.
    assert (HX : head_ok (splice_cols (col + len) (skipn (col + len) l) hs) = true \/ 0 < len).
    { destruct (Nat.eq_dec len 0) as [E0|E0]; [left|right; lia].
      rewrite E0, Nat.add_0_r in *. apply splice_cols_head; [exact Hb|lia|exact Hstrict|exact Hrest]. }
    set (X := splice_cols (col + len) (skipn (col + len) l) hs) in *.
    assert (HF : length (firstn (col + len) l) = col + len) by (apply firstn_length_le; exact Hlen).
    assert (E1 : skipn col (firstn (col + len) l ++ X) = fh_content h ++ X).
    { rewrite skipn_app, HF. replace (col - (col + len)) with 0 by lia. cbn [skipn].
      rewrite skipn_firstn_comm. replace (col + len - col) with len by lia.
      rewrite Hfound. reflexivity. }
    assert (E2 : firstn col (firstn (col + len) l ++ X) = firstn col l).
    { rewrite firstn_app, HF. replace (col - (col + len)) with 0 by lia. cbn [firstn].
      rewrite app_nil_r, firstn_firstn. f_equal. lia. }
    assert (E3 : skipn (col + len) (firstn (col + len) l ++ X) = X).
    { rewrite skipn_app, HF, Nat.sub_diag. cbn [skipn].
      rewrite skipn_all2 by lia. reflexivity. }
    assert (E4 : char_boundary (firstn (col + len) l ++ X) col = true).
    { destruct (Nat.eq_dec len 0) as [E0|E0].
      - destruct HX as [HX|HX]; [|lia]. rewrite E0, Nat.add_0_r in *.
        rewrite <- HF at 2. apply head_ok_boundary_app. exact HX.
      - rewrite char_boundary_app_lt by (rewrite HF; lia). rewrite char_boundary_firstn by lia. exact Hb. }
    unfold dstep_real. fold col. fold len. rewrite E1, E2, E3, E4, is_prefix_app.
    cbn [andb]. rewrite (app_assoc (firstn pos l)). rewrite <- firstn_split_at by exact Hle.
    unfold X. rewrite skipn_skipn. replace (col + len - pos + pos) with (col + len) by lia.
    reflexivity.
Qed.

Lemma sort_col_desc_rev_e l : forall hs pos, cols_ok_e l pos hs -> sort_col_desc hs = rev hs.
Proof.
  induction hs as [|h hs IH]; intros pos H; [reflexivity|].
  change (sort_col_desc (h :: hs)) with (ins_col_desc h (sort_col_desc hs)).
  destruct H as (_ & _ & _ & _ & Hstrict & Hrest). rewrite (IH _ Hrest). cbn [rev].
  apply ins_col_desc_gt. apply Forall_rev. exact Hstrict.
Qed.

Theorem diff_after_real_is_line_after_plan : forall l h0 hs,
  cols_ok_e l 0 (h0 :: hs) -> fh_before h0 = Some l ->
  fh_after h0 = Some (splice_line l (fh_col h0) (fh_content h0) (fh_replace h0)) ->
  diff_after_real (h0 :: hs) = line_after_plan l (h0 :: hs).
Proof.
  intros l h0 hs Hc Hb Ha. destruct hs as [|h1 hs].
  - cbn [diff_after_real]. rewrite Ha. unfold line_after_plan, splice_line. cbn [splice_cols].
    rewrite !Nat.sub_0_r. reflexivity.
  - unfold line_after_plan.
    change (diff_after_real (h0 :: h1 :: hs)) with
      (fold_left dstep_real (sort_col_desc (h0 :: h1 :: hs))
         (match fh_before h0 with Some b => b | None => fh_content h0 end)).
    rewrite Hb, (sort_col_desc_rev_e _ _ _ Hc).
    pose proof (fold_left_rev_right (fun h acc => dstep_real acc h) (rev (h0 :: h1 :: hs)) l) as E.
    rewrite rev_involutive in E. cbv beta in E.
    transitivity (fold_right (fun h acc => dstep_real acc h) l (h0 :: h1 :: hs)); [symmetry; exact E|].
    rewrite (fold_dstep_real _ _ _ Hc). reflexivity.
Qed.

(* the two previews agree on what the old theorems cover: non-empty contents on character boundaries *)
Lemma dstep_real_nonempty acc h : fh_content h <> [] -> char_boundary acc (fh_col h) = true ->
  dstep_real acc h = dstep acc h.
Proof.
  intros Hne Hb. unfold dstep_real, dstep. rewrite Hb. cbn [andb].
  destruct (is_prefix (fh_content h) (skipn (fh_col h) acc)) eqn:E; [|reflexivity].
  apply is_prefix_length in E. rewrite skipn_length in E.
  assert (0 < length (fh_content h)) by (destruct (fh_content h); [congruence|cbn; lia]).
  replace (Nat.ltb (fh_col h) (length acc)) with true by (symmetry; apply Nat.ltb_lt; lia). reflexivity.
Qed.

(* ---- strictly ascending starts in the plan ---- *)
Fixpoint starts_above (pos : nat) (hs : list fhunk) : Prop :=
  match hs with
  | [] => True
  | h :: hs' => pos <= fh_start h /\ starts_above (S (fh_start h)) hs'
  end.

Lemma starts_above_weaken : forall hs P Q, Q <= P -> starts_above P hs -> starts_above Q hs.
Proof. destruct hs as [|h hs]; intros P Q HQ H; [exact I|]. destruct H as [H1 H2]. split; [lia|exact H2]. Qed.

Lemma starts_above_app_intro : forall a b P Q,
  starts_above P a -> (forall h, In h a -> fh_start h < Q) -> P <= Q -> starts_above Q b -> starts_above P (a ++ b).
Proof.
  induction a as [|h a IH]; intros b P Q Ha Hlt HPQ Hb; cbn [app].
  - eapply starts_above_weaken; [|exact Hb]. exact HPQ.
  - destruct Ha as [H1 H2]. split; [exact H1|].
    apply (IH b _ Q); [exact H2| |specialize (Hlt h (or_introl eq_refl)); lia|exact Hb].
    intros h' Hh'. apply Hlt. right. exact Hh'.
Qed.

Lemma starts_above_app : forall a b P, starts_above P (a ++ b) -> starts_above P a /\ starts_above 0 b.
Proof.
  induction a as [|h a IH]; intros b P H.
  - split; [exact I|]. eapply starts_above_weaken; [|exact H]. lia.
  - cbn [app] in H. destruct H as [H1 H2]. destruct (IH _ _ H2) as [Ha Hb]. split; [split; assumption|exact Hb].
Qed.

Lemma starts_above_lower : forall hs P, starts_above P hs -> Forall (fun x => P <= fh_start x) hs.
Proof.
  induction hs as [|h hs IH]; intros P H; constructor.
  - destruct H. assumption.
  - destruct H as [H1 H2]. apply IH in H2. eapply Forall_impl; [|exact H2]. cbn. intros. lia.
Qed.

(* every raw line but the last ends with its '\n' *)
Fixpoint raws_term (raws : list bytes) : Prop :=
  match raws with
  | raw :: (_ :: _) as rest => (exists l, raw = l ++ [10%N]) /\ raws_term rest
  | _ => True
  end.

Lemma split_incl_term : forall raws s, split_incl s = raws -> raws_term raws.
Proof.
  induction raws as [|raw rest IH]; intros s Hsp; [exact I|].
  assert (Hne : s <> []) by (intro; subst s; discriminate).
  destruct (split_incl_cons s Hne) as (raw' & s' & Hs & Hsp' & Hshape).
  rewrite Hsp' in Hsp. injection Hsp as -> <-.
  pose proof (IH s' eq_refl) as IH'.
  destruct (split_incl s') as [|r2 rest'] eqn:E; [exact I|].
  split; [|exact IH'].
  destruct Hshape as [(l & Hl & _)|(_ & -> & _)]; [exists l; exact Hl|discriminate].
Qed.

Lemma strip_eol_lt raw l : raw = l ++ [10%N] -> length (strip_eol raw) < length raw.
Proof.
  intro Hl. destruct (strip_eol_tail raw) as (tl & Hraw & [(-> & Hno)|[(-> & _)| ->]]).
  - exfalso. apply (Hno l). exact Hl.
  - rewrite Hraw at 2. rewrite app_length. cbn [length]. lia.
  - rewrite Hraw at 2. rewrite app_length. cbn [length]. lia.
Qed.

Section StrictRx.
Variable excl : bytes -> bool.
Variable rx_find : bytes -> list (nat * nat * bytes).
Variable p : bytes.
Hypothesis OK : rx_find_ok rx_find.
Hypothesis STRICT : rx_find_strict rx_find.

Lemma map_rx_strict idx off line : forall ms pos pos' len,
  spans_strict pos (map fst ms) -> spans_chain pos' len (map fst ms) ->
  starts_above (off + pos) (map rx_fh (map (rx_hunk p idx off line) ms)) /\
  (forall h, In h (map rx_fh (map (rx_hunk p idx off line) ms)) -> fh_start h <= off + len).
Proof.
  induction ms as [|[[s e] r] ms IH]; intros pos pos' len H C; cbn [map].
  - split; [exact I|intros ? []].
  - cbn [spans_strict spans_chain map fst] in H, C. destruct H as [H1 H2]. destruct C as [(C1 & C2 & C3) C4].
    destruct (IH (S s) e len H2 C4) as [IH1 IH2]. split.
    + cbn [starts_above rx_hunk rx_fh fh_start]. split; [lia|].
      replace (S (off + s)) with (off + S s) by lia. exact IH1.
    + intros h [<-|Hin]; [cbn [rx_hunk rx_fh fh_start]; lia|apply IH2; exact Hin].
Qed.

Lemma fused_rx_strict : forall raws idx off,
  Forall (fun raw => utf8_ok (strip_eol raw) = true) raws -> raws_term raws ->
  starts_above off (map rx_fh (fused_rx excl rx_find p idx off raws)).
Proof.
  induction raws as [|raw rest IH]; intros idx off HU HT; [exact I|].
  inversion HU as [|? ? Ul HU']; subst.
  cbn [fused_rx]. rewrite map_app.
  pose proof (strip_eol_length_le raw) as HL.
  destruct (map_rx_strict idx off (strip_eol raw) (rx_find (strip_eol raw)) 0 0 _ (STRICT _ Ul) (rf_chain _ OK _ Ul))
    as [S1 S2].
  rewrite Nat.add_0_r in S1.
  destruct rest as [|r2 rest'].
  - cbn [fused_rx map]. rewrite app_nil_r. destruct (excl (strip_eol raw)); [exact I|exact S1].
  - destruct HT as [(l & Hl) HT']. pose proof (strip_eol_lt raw l Hl) as Hlt.
    apply (starts_above_app_intro _ _ off (off + length raw)); [| |lia|apply IH; assumption].
    + destruct (excl (strip_eol raw)); [exact I|exact S1].
    + intros h Hh. destruct (excl (strip_eol raw)); [contradiction|]. specialize (S2 h Hh). lia.
Qed.

Lemma scan_text_rx_strict t : utf8_ok t = true -> starts_above 0 (map rx_fh (scan_text_rx excl rx_find p t)).
Proof.
  intro U. rewrite scan_text_rx_fused. apply fused_rx_strict.
  - apply (raws_utf8 (split_incl t) [] t t eq_refl (or_introl eq_refl) eq_refl U).
  - apply (split_incl_term _ t eq_refl).
Qed.

Notation pfr := (process_file_content_rx excl rx_find p).

Lemma rx_plan_strict bat c : starts_above 0 (map rx_fh (fst (pfr bat c))).
Proof.
  destruct (pfr_cases excl rx_find p bat c) as [[U E]|E]; rewrite E; [|exact I]. apply scan_text_rx_strict. exact U.
Qed.

(* the hunks of a segment that share the line of its first hunk, as columns of that line *)
Lemma seg_cols_ok c ls l : forall hs P P',
  sorted_disjoint P hs = true -> starts_above P' hs -> ls <= P ->
  (forall h, In h hs ->
     fh_end h <= length c /\ line_start c (fh_start h) = ls /\ fh_col h = fh_start h - ls /\
     length (fh_content h) = fh_end h - fh_start h /\
     fh_col h + length (fh_content h) <= length l /\
     firstn (length (fh_content h)) (skipn (fh_col h) l) = fh_content h /\
     char_boundary l (fh_col h) = true) ->
  cols_ok_e l (P - ls) hs.
Proof.
  induction hs as [|h hs IH]; intros P P' Hsd Hst HP Hall; [exact I|].
  cbn [sorted_disjoint] in Hsd. apply andb_true_iff in Hsd as [Hsd Hsd3]. apply andb_true_iff in Hsd as [Hsd1 Hsd2].
  apply Nat.leb_le in Hsd1. apply Nat.leb_le in Hsd2. destruct Hst as [Hst1 Hst2].
  destruct (Hall h (or_introl eq_refl)) as (Hle & Hls & Hcol & Hlen & Hfit & Hfound & Hb).
  cbn [cols_ok_e]. split; [lia|]. split; [exact Hfit|]. split; [exact Hfound|]. split; [exact Hb|]. split.
  - apply starts_above_lower in Hst2. rewrite Forall_forall in Hst2 |- *. intros x Hx.
    specialize (Hst2 x Hx). cbn beta in Hst2.
    destruct (Hall x (or_intror Hx)) as (_ & _ & Hcx & _). lia.
  - replace (fh_col h + length (fh_content h)) with (fh_end h - ls) by lia.
    apply (IH (fh_end h) (S (fh_start h))); [exact Hsd3|exact Hst2|lia|intros x Hx; apply Hall; right; exact Hx].
Qed.

(* MAIN 5' (C15, the code's own preview): for the hunks the plan has on one line the diff preview's "after" line is
   the line as it reads once all of them are applied -- EMPTY MATCHES INCLUDED *)
Theorem rx_plan_preview_real : forall bat c seg_pre h0 hs seg_post,
  map rx_fh (fst (pfr bat c)) = seg_pre ++ (h0 :: hs) ++ seg_post ->
  (forall h, In h hs -> fh_line h = fh_line h0) ->
  diff_after_real (h0 :: hs) = line_after_plan (line_ctx false c (fh_start h0)) (h0 :: hs).
Proof.
  intros bat c seg_pre h0 hs seg_post Hseg Hline.
  pose proof (rx_plan_sorted excl rx_find p OK bat c) as Hsd. pose proof (rx_plan_strict bat c) as Hst.
  rewrite Hseg in Hsd, Hst.
  apply sorted_disjoint_app in Hsd as [_ Hsd]. apply sorted_disjoint_app in Hsd as [Hsd _].
  apply starts_above_app in Hst as [_ Hst]. apply starts_above_app in Hst as [Hst _].
  assert (Hspec : forall h, In h (h0 :: hs) -> exists rh, h = rx_fh rh /\ rx_hunk_spec excl rx_find p c rh).
  { intros h Hin.
    assert (Hin' : In h (map rx_fh (fst (pfr bat c)))).
    { rewrite Hseg. apply in_or_app. right. apply in_or_app. left. exact Hin. }
    apply in_map_iff in Hin' as (rh & <- & Hin'). exists rh. split; [reflexivity|].
    apply (rx_plan_hunks excl rx_find p OK bat c rh Hin'). }
  set (l := line_ctx false c (fh_start h0)).
  set (ls := line_start c (fh_start h0)).
  destruct (Hspec h0 (or_introl eq_refl)) as (rh0 & E0 & S0).
  destruct S0 as (_ & Hse0 & Hle0 & _ & _ & _ & _ & Hl0 & _ & _ & Hbef0 & Haft0 & _).
  cbv zeta in Hl0, Hbef0, Haft0. rewrite <- E0 in Hse0, Hle0, Hl0, Hbef0, Haft0.
  apply diff_after_real_is_line_after_plan; [|exact Hbef0|exact Haft0].
  assert (Hsd' : sorted_disjoint (fh_start h0) (h0 :: hs) = true).
  { cbn [sorted_disjoint] in Hsd |- *. apply andb_true_iff in Hsd as [Hsd Hsd3]. apply andb_true_iff in Hsd as [_ Hsd2].
    rewrite Nat.leb_refl, Hsd2, Hsd3. reflexivity. }
  pose proof (line_start_le c (fh_start h0)) as Hlsle. fold ls in Hlsle.
  apply (cols_ok_e_weaken l (h0 :: hs) (fh_start h0 - ls) 0); [lia|].
  apply (seg_cols_ok c ls l (h0 :: hs) (fh_start h0) 0 Hsd' Hst); [lia|].
  intros h Hin. destruct (Hspec h Hin) as (rh & E & S).
  destruct S as (_ & Hse & Hle & _ & _ & Hcont & _ & Hl & Hcol & _ & _ & _ & Hfit & Hfound & _ & _ & Hb & _).
  cbv zeta in Hcont, Hl, Hcol, Hfit, Hfound, Hb. rewrite <- E in Hse, Hle, Hcont, Hl, Hcol, Hfit, Hfound, Hb.
  assert (Hls : line_start c (fh_start h) = ls).
  { destruct Hin as [<-|Hin]; [reflexivity|].
    symmetry. apply same_line_start; [|lia|].
    - cbn [sorted_disjoint] in Hsd. apply andb_true_iff in Hsd as [Hsd Hsd3].
      apply andb_true_iff in Hsd as [_ Hsd2]. apply Nat.leb_le in Hsd2.
      pose proof (sorted_disjoint_lower _ _ Hsd3 _ Hin). lia.
    - rewrite <- Hl0, <- Hl. symmetry. apply Hline. exact Hin. }
  assert (Hctx : strip_eol (line_at c (fh_start h)) = l).
  { apply (line_ctx_same false c (fh_start h) (fh_start h0)). exact Hls. }
  rewrite Hctx in Hfit, Hfound, Hb.
  split; [exact Hle|]. split; [exact Hls|]. split; [rewrite Hcol; unfold col_of; rewrite Hls; reflexivity|].
  split; [rewrite Hcont, firstn_length, skipn_length; lia|].
  split; [exact Hfit|]. split; [exact Hfound|exact Hb].
Qed.

End StrictRx.

Lemma caps_find_strict rx_caps repl : rx_caps_strict rx_caps -> rx_find_strict (rx_find_of_caps rx_caps repl).
Proof.
  intros ST line U. unfold rx_find_of_caps. rewrite map_map.
  erewrite map_ext; [apply (ST line U)|]. intros [[s e] gs]. reflexivity.
Qed.

(* REGEX 5' (C15 for the code's own preview, diff_after_real): under the contract, with successive matches starting at
   strictly increasing places, the diff preview's added line is how the line reads after apply -- for EVERY regex,
   also one that matches the empty string *)
Theorem regex_plan_preview_real : forall excl rx_caps p repl bat c seg_pre h0 hs seg_post,
  rx_caps_ok rx_caps -> rx_caps_strict rx_caps ->
  map rx_fh (fst (process_file_content_regex excl rx_caps p repl bat c)) = seg_pre ++ (h0 :: hs) ++ seg_post ->
  (forall h, In h hs -> fh_line h = fh_line h0) ->
  diff_after_real (h0 :: hs) = line_after_plan (line_ctx false c (fh_start h0)) (h0 :: hs).
Proof.
  intros excl rx_caps p repl bat c seg_pre h0 hs seg_post COK ST.
  apply rx_plan_preview_real; [apply caps_find_ok; exact COK|apply caps_find_strict; exact ST].
Qed.

Fixpoint spans_strictb (pos : nat) (l : list span) : bool :=
  match l with
  | [] => true
  | (s, _) :: l' => Nat.leb pos s && spans_strictb (S s) l'
  end.

Lemma spans_strictb_ok : forall l pos, spans_strictb pos l = true -> spans_strict pos l.
Proof.
  induction l as [|[s e] l IH]; intros pos H; [exact I|]. cbn [spans_strictb] in H.
  apply andb_true_iff in H as [H1 H2]. apply Nat.leb_le in H1. cbn [spans_strict]. split; [exact H1|]. apply IH. exact H2.
Qed.

Lemma table_oracle_strict tbl :
  forallb (fun kv : bytes * list caps => spans_strictb 0 (map fst (snd kv))) tbl = true ->
  rx_caps_strict (caps_of_table tbl).
Proof.
  intro H. rewrite forallb_forall in H. intros line _.
  destruct (caps_of_table_cases tbl line) as [->|Hin]; [exact I|].
  specialize (H _ Hin). cbn [snd] in H. apply spans_strictb_ok. exact H.
Qed.

(* ------------------------------------------------------------------------------------------ *)
(* R8: witnesses: the hypotheses are satisfiable (non-vacuity), they are needed, and what is    *)
(*     FALSE without them.  Every witness below was also run on the real planner (harness op    *)
(*     simple_plan_tree with "regex": true, then render_diff / apply_tree); what the real code  *)
(*     answered is said beside each.                                                            *)
(* ------------------------------------------------------------------------------------------ *)

Module RxWitness.
  Open Scope N_scope.
  Definition noex : bytes -> bool := fun _ => false.
  Definition hash_lines : bytes -> bool := fun l => is_prefix [35] l.          (* exclude-matching-lines '^#' *)

  (* `renamify replace 'v(\d+)' '<$1>' --exclude-matching-lines '^#'` on "x v1 v22\r\ns\xc3\xa9cu v3\n# v4\nv5":
     two matches of different lengths and different replacement texts on line 1 (CRLF), non-ASCII text before a match,
     an excluded line, no final newline.  The table is what captures_iter yields on the four lines. *)
  Definition pat : bytes := [118;40;92;100;43;41].
  Definition rep : bytes := [60;36;49;62].
  Definition c0 : bytes :=
    [120;32;118;49;32;118;50;50;13;10; 115;195;169;99;117;32;118;51;10; 35;32;118;52;10; 118;53].
  Definition tbl : list (bytes * list caps) :=
    [([120;32;118;49;32;118;50;50], [((2,4)%nat, [Some (3,4)%nat]); ((5,8)%nat, [Some (6,8)%nat])]);
     ([115;195;169;99;117;32;118;51], [((6,8)%nat, [Some (7,8)%nat])]);
     ([35;32;118;52], [((2,4)%nat, [Some (3,4)%nat])]);
     ([118;53], [((0,2)%nat, [Some (1,2)%nat])])].
  Definition oracle : bytes -> list caps := caps_of_table tbl.
  Definition plan0 := fst (process_file_content_regex hash_lines oracle pat rep false c0).
  Definition hs0 := map rx_fh plan0.

  Example oracle_ok : rx_caps_ok oracle.
  Proof. apply table_oracle_ok. vm_compute. reflexivity. Qed.
  Example oracle_nonempty : rx_caps_nonempty oracle.
  Proof. apply table_oracle_nonempty. vm_compute. reflexivity. Qed.

  (* non-vacuity of REGEX 1-6: all hypotheses hold and the plan has four hunks on three lines; the real planner returns
     exactly these hunks (variant "v(\d+)" on each), the real apply writes exactly this file *)
  Example main_hypotheses_hold :
    rx_caps_ok oracle /\ rx_caps_nonempty oracle /\ utf8_ok rep = true /\ head_ok c0 = true /\
    map (fun h => (fh_line h, fh_col h, fh_char h, fh_start h, fh_end h, fh_content h, fh_replace h)) hs0 =
      [((1, 2, 2, 2, 4)%nat, [118;49], [60;49;62]); ((1, 5, 5, 5, 8)%nat, [118;50;50], [60;50;50;62]);
       ((2, 6, 5, 16, 18)%nat, [118;51], [60;51;62]); ((4, 0, 0, 24, 26)%nat, [118;53], [60;53;62])] /\
    map rx_variant plan0 = [pat; pat; pat; pat] /\
    file_consistent false c0 hs0 = true /\
    apply_edits_rev c0 (map edit_of_hunk hs0) =
      Ok [120;32;60;49;62;32;60;50;50;62;13;10; 115;195;169;99;117;32;60;51;62;10; 35;32;118;52;10; 60;53;62].
  Proof.
    split; [exact oracle_ok|]. split; [exact oracle_nonempty|]. vm_compute. repeat split; reflexivity.
  Qed.

  (* non-vacuity of REGEX 5: the two hunks of line 1; the real `--preview diff` shows "+x <1> <22>" *)
  Example preview_instance :
    exists seg_pre h0 hs seg_post, hs0 = seg_pre ++ (h0 :: hs) ++ seg_post /\ hs <> [] /\
      (forall h, In h hs -> fh_line h = fh_line h0) /\
      fh_content h0 <> fh_content (hd h0 hs) /\ fh_replace h0 <> fh_replace (hd h0 hs) /\
      diff_after (h0 :: hs) = [120;32;60;49;62;32;60;50;50;62].
  Proof.
    exists [], (nth 0 hs0 (mk_hunk false [] 0 0 [])), (firstn 1 (skipn 1 hs0)), (skipn 2 hs0).
    vm_compute. split; [reflexivity|]. split; [discriminate|]. split; [intros h [<-|[]]; reflexivity|].
    split; [discriminate|]. split; [discriminate|reflexivity].
  Qed.

  (* non-vacuity of REGEX 6 *)
  Example stats_instance :
    exists per_file st, create_simple_plan_regex hash_lines oracle pat rep false [c0; [35;32;118;52]; [118;53;0]] = Some (per_file, st) /\
      map (@length _) per_file = [4; 0; 0]%nat /\
      (st_files_scanned st, st_total st, st_files_with st) = (3, 4, 1)%nat /\ st_by_variant st = [(pat, 4%nat)].
  Proof. eexists. eexists. split; [reflexivity|]. vm_compute. auto. Qed.

  (* ---- the replacement text is the code's own loop, not Captures::expand (all four reproduced on the real planner) ---- *)
  (* `(\d+)-(\w+)` on "id 12-ab", replacement "$2_$1 ${1} $10 $0 $$": real replace = "ab_12 ${1} 120 $0 $$"
     (Regex::replace would give "ab_12 12  12-ab $") *)
  Example expand_is_not_captures_expand :
    expand [105;100;32;49;50;45;97;98] [Some (3,5)%nat; Some (6,8)%nat]
           [36;50;95;36;49;32;36;123;49;125;32;36;49;48;32;36;48;32;36;36] =
      [97;98;95;49;50;32;36;123;49;125;32;49;50;48;32;36;48;32;36;36].
  Proof. vm_compute. reflexivity. Qed.
  (* `(a)|(b)` on "ab", replacement "[$1$2]": a group that did not participate leaves its placeholder: "[a$2]", "[$1b]" *)
  Example expand_non_participating :
    expand [97;98] [Some (0,1)%nat; None] [91;36;49;36;50;93] = [91;97;36;50;93] /\
    expand [97;98] [None; Some (1,2)%nat] [91;36;49;36;50;93] = [91;36;49;98;93].
  Proof. vm_compute. auto. Qed.
  (* `(\$2)(b)` on "$2b", replacement "<$1>": the text inserted for group 1 is scanned again for "$2": "<b>" *)
  Example expand_rescans_inserted_text :
    expand [36;50;98] [Some (0,2)%nat; Some (2,3)%nat] [60;36;49;62] = [60;98;62].
  Proof. vm_compute. reflexivity. Qed.

  (* ---- EMPTY MATCHES: `renamify replace 'x*' 'y'` on "axb".  The crate yields 0..0, 1..2, 3..3 (the contract holds),
     the code turns each into a hunk (real planner: the same three hunks, content "" for two of them). ---- *)
  Definition tblx : list (bytes * list caps) := [([97;120;98], [((0,0)%nat, []); ((1,2)%nat, []); ((3,3)%nat, [])])].
  Definition oraclex : bytes -> list caps := caps_of_table tblx.
  Definition hx := map rx_fh (fst (process_file_content_regex noex oraclex [120;42] [121] false [97;120;98])).

  Example oraclex_ok : rx_caps_ok oraclex.
  Proof. apply table_oracle_ok. vm_compute. reflexivity. Qed.

  Example empty_match_hunks :
    map (fun h => (fh_start h, fh_end h, fh_content h, fh_after h)) hx =
      [((0, 0)%nat, [], Some [121;97;120;98]); ((1, 2)%nat, [120], Some [97;121;98]);
       ((3, 3)%nat, [], Some [97;120;98;121])].
  Proof. vm_compute. reflexivity. Qed.

  (* the hypothesis [rx_caps_nonempty] of REGEX 3 is needed: a plan with an empty hunk is not file_consistent
     (Hunks.hunk_ok demands start <> end) -- although it IS a well-formed edit list and apply turns "axb" into "yayby"
     (REGEX 4 needs no such hypothesis; the real apply writes "yayby" too) *)
  Theorem regex_plan_consistent_empty_refuted : exists excl rx_caps p repl bat c,
    rx_caps_ok rx_caps /\ utf8_ok repl = true /\ head_ok c = true /\
    file_consistent false c (map rx_fh (fst (process_file_content_regex excl rx_caps p repl bat c))) = false /\
    wf_edits c (map edit_of_hunk (map rx_fh (fst (process_file_content_regex excl rx_caps p repl bat c)))) = true /\
    apply_edits_rev c (map edit_of_hunk (map rx_fh (fst (process_file_content_regex excl rx_caps p repl bat c)))) =
      Ok [121;97;121;98;121].
  Proof.
    exists noex, oraclex, [120;42], [121], false, [97;120;98]. split; [exact oraclex_ok|].
    vm_compute. repeat split; reflexivity.
  Qed.

  (* the hypothesis [rx_caps_nonempty] of REGEX 5 is needed FOR THE MODEL's diff_after: Hunks.diff_after skips a hunk
     whose column is the length of the line (`Nat.ltb (fh_col h) (length acc)`), so the empty match at the end of "axb"
     is not shown: "yayb" against "yayby".  THE REAL PREVIEW DISAGREES WITH THE MODEL HERE: preview/diff.rs tests
     `after_line.get(col..).is_some_and(|rest| rest.starts_with(&hunk.content))`, and get(len..) is Some(""): the real
     `--preview diff` shows "+yayby", which is what apply writes.  So this is an imprecision of Hunks.diff_after outside
     the domain it was written for (non-empty contents), not a defect of renamify. *)
  Theorem regex_plan_preview_empty_refuted : exists excl rx_caps p repl bat c h0 hs,
    rx_caps_ok rx_caps /\
    map rx_fh (fst (process_file_content_regex excl rx_caps p repl bat c)) = [] ++ (h0 :: hs) ++ [] /\
    (forall h, In h hs -> fh_line h = fh_line h0) /\
    diff_after (h0 :: hs) = [121;97;121;98] /\
    line_after_plan (line_ctx false c (fh_start h0)) (h0 :: hs) = [121;97;121;98;121].
  Proof.
    exists noex, oraclex, [120;42], [121], false, [97;120;98].
    exists (nth 0 hx (mk_hunk false [] 0 0 [])), (skipn 1 hx).
    split; [exact oraclex_ok|]. vm_compute. split; [reflexivity|]. split; [|split; reflexivity].
    intros h [<-|[<-|[]]]; reflexivity.
  Qed.

  (* ... and the code's own preview (diff_after_real, REGEX 5') shows "yayby": non-vacuity of REGEX 5' with empty matches *)
  Example oraclex_strict : rx_caps_strict oraclex.
  Proof. apply table_oracle_strict. vm_compute. reflexivity. Qed.
  Example preview_real_instance :
    exists h0 hs, hx = [] ++ (h0 :: hs) ++ [] /\ length hs = 2%nat /\ (forall h, In h hs -> fh_line h = fh_line h0) /\
      diff_after_real (h0 :: hs) = [121;97;121;98;121] /\
      line_after_plan (line_ctx false [97;120;98] (fh_start h0)) (h0 :: hs) = [121;97;121;98;121].
  Proof.
    exists (nth 0 hx (mk_hunk false [] 0 0 [])), (skipn 1 hx). vm_compute.
    split; [reflexivity|]. split; [reflexivity|]. split; [|split; reflexivity]. intros h [<-|[<-|[]]]; reflexivity.
  Qed.
  (* [rx_caps_strict] is needed for REGEX 5' (in the model; the crate cannot do this): an empty match followed by a match
     at the same place ("axb": 1..1 then 1..2) -- the right-to-left splice of the preview handles the empty one first
     and then no longer finds "x" at column 1: "ayxb" against "ayyb" *)
  Example strict_needed :
    let hs := map rx_fh (fst (process_file_content_regex noex
                (caps_of_table [([97;120;98], [((1,1)%nat, []); ((1,2)%nat, [])])]) [120;42] [121] false [97;120;98])) in
    rx_caps_ok (caps_of_table [([97;120;98], [((1,1)%nat, []); ((1,2)%nat, [])])]) /\
    diff_after_real hs = [97;121;120;98] /\ line_after_plan [97;120;98] hs = [97;121;121;98].
  Proof. split; [apply table_oracle_ok; vm_compute; reflexivity|]. vm_compute. auto. Qed.

  (* ---- the clauses of the contract are needed in the model (none can be violated by the regex crate) ---- *)
  (* rc_chain: an oracle that reports overlapping matches ("aaa": 0..2 and 1..3) gives a plan that is not sorted_disjoint *)
  Example chain_needed :
    sorted_disjoint 0 (map rx_fh (fst (process_file_content_regex noex
        (caps_of_table [([97;97;97], [((0,2)%nat, []); ((1,3)%nat, [])])]) [97;97] [121] false [97;97;97]))) = false.
  Proof. vm_compute. reflexivity. Qed.
  (* rc_groups: a group that begins inside a character ("\xc3\xa9", group 1 = 1..2, replacement "$1") gives a replacement
     text that begins with a continuation byte: not a well-formed edit list *)
  Example group_boundaries_needed :
    wf_edits [195;169] (map edit_of_hunk (map rx_fh (fst (process_file_content_regex noex
        (caps_of_table [([195;169], [((0,2)%nat, [Some (1,2)%nat])])]) [40;46;41] [36;49] false [195;169])))) = false.
  Proof. vm_compute. reflexivity. Qed.
  (* files that are not valid UTF-8 or look binary are left out, whatever the oracle says *)
  Example skipped_files :
    process_file_content_regex noex (fun _ => [((0,1)%nat, [])]) [97] [121] false [255;97] = ([], false) /\
    process_file_content_regex noex (fun _ => [((0,1)%nat, [])]) [97] [121] false [97;0;97] = ([], false).
  Proof. vm_compute. auto. Qed.
  (* the empty pattern is rejected before any file is read *)
  Example empty_pattern : create_simple_plan_regex noex oracle [] rep false [c0] = None.
  Proof. reflexivity. Qed.
End RxWitness.

Print Assumptions rx_plan_file_cases.
Print Assumptions rx_plan_hunks.
Print Assumptions rx_plan_sorted.
Print Assumptions rx_plan_pairwise_disjoint.
Print Assumptions rx_plan_consistent.
Print Assumptions rx_plan_applies.
Print Assumptions rx_plan_preview.
Print Assumptions create_simple_plan_rx_spec.
Print Assumptions regex_plan_hunks.
Print Assumptions regex_plan_sorted.
Print Assumptions regex_plan_consistent.
Print Assumptions regex_plan_applies.
Print Assumptions regex_plan_preview.
Print Assumptions regex_plan_stats.
Print Assumptions rx_plan_preview_real.
Print Assumptions regex_plan_preview_real.
Print Assumptions diff_after_real_is_line_after_plan.
Print Assumptions table_oracle_ok.
Print Assumptions RxWitness.main_hypotheses_hold.
Print Assumptions RxWitness.regex_plan_consistent_empty_refuted.
Print Assumptions RxWitness.regex_plan_preview_empty_refuted.
