(* Proofs/CompoundP3.v — locality of find_compound_variants (Model/Compound.v) for the two identifier
   styles that Proofs/CompoundP2.v::locality_gen does not cover: camelCase and Train-Case
   (and, as an extra, Title Case phrases, which the extractor hands over when Title is enabled).

   Why locality_gen ([sup S = true]) stops short of them:
   - it describes the tokens of the identifier by ONE per-word function ([toks_form]:
     toks_of S ws = map (form S) ws); camelCase writes the first word differently from the others,
     so the tokens in front of / inside the span depend on whether the span starts the identifier;
   - [final_style_form] proves "the style chosen for the span is the style of the identifier"; for a
     camelCase identifier that is false when the span is not at the start (the span is a run of
     Title words, so the function picks Pascal), and for Train it is true for another reason (the
     Train override, compound_matcher.rs lines 224-227);
   - [glue_style_new] has no case for Train (the styled tokens are split_on '-' of to_style .. Train,
     which needs the replacement tokens to be free of '-') nor for Camel.
   Here the part of the proof that does not depend on the style is factored out ([fcv_core]: the
   tokens of the identifier are P ++ W ++ Q for ARBITRARY token lists whose lower-casing is
   pre / sw / post) and the three style-specific steps (style of the span, styled tokens, re-join) are
   done per case.  Stdlib + Lia only. *)
From Coq Require Import String.
From Coq Require Import Lia.
From RN Require Import Base.Bytes Base.Str Model.StyleDef Model.CaseModel Model.CaseSpec Model.Compound.
From RN Require Import Gen.GenAcronyms Gen.GenStyles.
From RN Require Import Proofs.CaseP1 Proofs.CaseP2 Proofs.CaseP3 Proofs.CaseP Proofs.CompoundP1.
From RN Require Import Proofs.CompoundP Proofs.CompoundP2.
Open Scope N_scope.
Open Scope list_scope.

(* ================================================================== notation of the statements *)
(* a camelCase identifier: first word as it is (lower case), the others capitalised *)
Definition camel (ws : list bytes) : bytes :=
  match ws with [] => [] | w0 :: r => w0 ++ concat (map capw r) end.

(* how a word of the replacement is written inside a camelCase / PascalCase span when it is not the
   first word of the identifier: capitalised, or ALL CAPS when the replacement was typed in an
   all-caps style (same leak as C07_pascal_caps_inside_span) *)
Definition span_word (S1 : style) : bytes -> bytes := if all_caps S1 then upper else capw.

(* the camelCase identifier pre ++ rw ++ post in which the words of rw that are not at the start
   of the identifier are written with f instead of capw *)
Definition camel_span (f : bytes -> bytes) (pre rw post : list bytes) : bytes :=
  match pre with
  | p0 :: pre' => p0 ++ concat (map capw pre' ++ map f rw ++ map capw post)
  | [] => match rw with
          | r0 :: rw' => r0 ++ concat (map f rw' ++ map capw post)
          | [] => camel post
          end
  end.

Lemma camel_render ws : camel ws = render Camel ws.
Proof. destruct ws; reflexivity. Qed.

Lemma camel_span_capw pre rw post : camel_span capw pre rw post = camel (pre ++ rw ++ post).
Proof.
  destruct pre as [|p0 pre']; cbn [camel_span app camel].
  - destruct rw as [|r0 rw']; cbn [app camel]; [reflexivity|]. rewrite map_app. reflexivity.
  - rewrite !map_app. reflexivity.
Qed.

(* ================================================================== small facts *)
Lemma no_occ_removelast (sw : list bytes) : sw <> [] -> no_occ sw (removelast sw).
Proof.
  intros Hne l1 l2 E. apply (f_equal (@length bytes)) in E. rewrite !app_length in E.
  assert (H : (length (removelast sw) < length sw)%nat).
  { clear E. destruct sw as [|x sw'] using rev_ind; [contradiction|].
    rewrite removelast_last, app_length. cbn [length]. lia. }
  clear Hne. lia.
Qed.

(* a case-insensitive window inside ANY token list is a literal occurrence in the lower-cased list *)
Lemma ci_window_lower ot sw T l : map lower ot = sw -> map lower T = l ->
  ci_window ot T -> exists l1 l2, l = l1 ++ sw ++ l2.
Proof.
  intros Hot HT (l1 & w & l2 & -> & Hw). exists (map lower l1), (map lower l2).
  rewrite <- HT, !map_app, Hw, Hot. reflexivity.
Qed.

Lemma tl_map {A B} (f : A -> B) l : tl (map f l) = map f (tl l).
Proof. destruct l; reflexivity. Qed.

Lemma contains_pfx d pfx s : pfx_ok pfx -> d <> 95 -> contains d (pfx ++ s) = contains d s.
Proof.
  intros Hp Hd. unfold contains. rewrite existsb_app.
  assert (E : (d =? 95) = false) by (apply N.eqb_neq, Hd).
  destruct Hp as [->|[->| ->]]; cbn [existsb]; rewrite ?E; reflexivity.
Qed.

Section Core.
Variable acr : acr_tab.
Hypothesis Hwf : wf_acr acr = true.

(* ------------------------------------------------------------------ the style-independent part *)
(* The identifier (after its prefix) tokenises as P ++ W ++ Q where, up to case, P / W / Q are the
   words pre / sw / post; it has no '_' and no '.', its style is S and S is enabled.  Then exactly one
   match is returned and its replacement is: prefix, then the tokens P, the styled replacement
   tokens, the tokens Q re-joined. *)
Theorem fcv_core S pfx idw search repl styles P W Q pre sw post :
  pfx_ok pfx ->
  (exists c s, idw = c :: s /\ (c =? 95) = false) ->
  tokens acr idw = P ++ W ++ Q ->
  map lower P = pre -> map lower W = sw -> map lower Q = post ->
  sw <> [] -> pre ++ post <> [] ->
  map lower (tokens acr search) = sw ->
  tokens acr repl <> [] ->
  no_occ sw (pre ++ removelast sw) -> no_occ sw post ->
  contains 95 idw = false -> contains 46 idw = false ->
  detect_style acr idw = Some S ->
  existsb (style_eqb S) styles = true ->
  fcv acr (pfx ++ idw) search repl styles =
  [mk_cmatch (pfx ++ idw)
     (pfx ++ restore_trailing idw
        (rejoin acr idw
           (P ++ style_new acr (tokens acr repl) W (final_style acr (pfx ++ idw) idw W) ++ Q) S))
     S 0 0].
Proof.
  intros Hpfx (c0 & s0 & Eidw & Hc0) Hit HP HW HQ Hswne Hpp Hsearch Hrepl Hno1 Hno2 H95 H46 Hdet Hsty.
  destruct (compound_lengths pre sw post Hswne Hpp) as [Hlen Hswlen].
  assert (Hitlen : length (P ++ W ++ Q) = length (pre ++ sw ++ post)).
  { rewrite <- HP, <- HW, <- HQ, !app_length, !map_length. reflexivity. }
  unfold fcv. rewrite Eidw, (extract_prefix_nus pfx c0 s0 Hpfx Hc0). rewrite <- Eidw.
  rewrite Hit.
  set (ot := tokens acr search) in *. set (nt := tokens acr repl) in *.
  set (ws := pre ++ sw ++ post) in *.
  assert (Hotlen : length ot = length sw) by (rewrite <- Hsearch, map_length; reflexivity).
  assert (Hotne : ot <> []) by (intro E; rewrite E in Hotlen; destruct sw; [contradiction|discriminate]).
  assert (Hwslen : (length ot < length ws)%nat) by (rewrite Hotlen; exact Hswlen).
  assert (Hotpos : (0 < length ot)%nat).
  { clear - Hotne. destruct ot; [contradiction | cbn [length]; lia]. }
  assert (Hntpos : (0 < length nt)%nat).
  { clear - Hrepl. destruct nt; [contradiction | cbn [length]; lia]. }
  assert (Ea : Nat.eqb (length ws) (length ot) = false)
    by (clear - Hwslen; apply Nat.eqb_neq; lia).
  assert (Eb : Nat.ltb (length ws) (length ot) = false)
    by (clear - Hwslen; apply Nat.ltb_ge; lia).
  assert (Ec : Nat.eqb (length ot) 0 = false) by (clear - Hotpos; apply Nat.eqb_neq; lia).
  assert (Ed : Nat.eqb (length ws) 0 = false) by (clear - Hlen; apply Nat.eqb_neq; lia).
  assert (Ee : Nat.eqb (length nt) 0 = false) by (clear - Hntpos; apply Nat.eqb_neq; lia).
  rewrite Hitlen, Ea.
  cbn [andb].
  assert (Hmixed : (contains 95 idw && contains 45 idw) || (contains 95 idw && contains 46 idw)
                   || (contains 45 idw && contains 46 idw) = false)
    by (rewrite H95, H46; destruct (contains 45 idw); reflexivity).
  rewrite Hmixed. cbn [andb].
  rewrite Eb, Ec, Ed, Ee.
  cbn [orb].
  (* the scan *)
  assert (Hswl : map lower W = map lower ot) by (rewrite HW, Hsearch; reflexivity).
  assert (Hnw1 : ~ ci_window ot (P ++ removelast W)).
  { intro Hw. eapply (ci_window_lower ot sw _ (pre ++ removelast sw)) in Hw as (l1 & l2 & E);
      [exact (Hno1 l1 l2 E) | exact Hsearch |].
    rewrite map_app, <- removelast_map, HP, HW. reflexivity. }
  assert (Hnw2 : ~ ci_window ot Q).
  { intro Hw. eapply (ci_window_lower ot sw _ post) in Hw as (l1 & l2 & E);
      [exact (Hno2 l1 l2 E) | exact Hsearch | exact HQ]. }
  rewrite (scan_one acr (pfx ++ idw) idw ot nt P W Q Hotne Hswl Hnw1 Hnw2).
  cbn [Nat.eqb].
  unfold inferred_style. rewrite Hdet, Hsty. reflexivity.
Qed.

(* ------------------------------------------------------------------ facts shared by the cases *)
Lemma all_neutral_app3g a b c : all_neutral acr a = true -> all_neutral acr b = true ->
  all_neutral acr c = true -> all_neutral acr (a ++ b ++ c) = true.
Proof. unfold all_neutral. intros Ha Hb Hc. rewrite !forallb_app, Ha, Hb, Hc. reflexivity. Qed.

Lemma render_head S ws : all_neutral acr ws = true -> ws <> [] ->
  exists c s, render S ws = c :: s /\ (c =? 95) = false.
Proof.
  intros Hn Hne. pose proof (proj1 (all_neutral_Forall acr ws) Hn) as HF.
  inversion HF as [E0|w0 ws' Hw0 _ E0]; [symmetry in E0; contradiction|].
  destruct (neutral_shape _ _ Hw0) as (c & c1 & w2 & -> & Hc & _).
  destruct (render_hd S c (c1 :: w2) ws') as [s' E].
  exists (hd_byte S c), s'. split; [exact E | apply hd_byte_not_us, Hc].
Qed.

Lemma tokens_repl_words rw S1 : visible S1 = true -> rw <> [] -> all_neutral acr rw = true ->
  tokens acr (to_style acr rw S1) = toks_of S1 rw /\ tokens acr (to_style acr rw S1) <> [].
Proof.
  intros Hv Hne Hrw. rewrite (tokens_render acr S1 rw Hwf Hv Hne Hrw). split; [reflexivity|].
  intro E. apply (f_equal (@length bytes)) in E. rewrite toks_of_length in E.
  destruct rw; [contradiction | discriminate].
Qed.

Lemma restore_trailing_render S ws r : all_neutral acr ws = true -> ws <> [] ->
  restore_trailing (render S ws) r = r.
Proof.
  intros Hn Hne. unfold restore_trailing.
  assert (Hglue : render S ws = glue S (toks_of S ws)) by (apply render_sep, Hne).
  rewrite Hglue, !(ends_with_glue acr S _ ws Hn Hne) by reflexivity. reflexivity.
Qed.

(* the span of a camelCase / Title identifier that does not start it: Title words *)
Lemma title_words_capw sw : all_neutral acr sw = true -> forallb is_title_word (map capw sw) = true.
Proof.
  intro Hsw. rewrite forallb_forall. intros X HX. apply in_map_iff in HX as (y & <- & Hy).
  apply (nw_title_cap acr). unfold all_neutral in Hsw. rewrite forallb_forall in Hsw. apply Hsw, Hy.
Qed.

Lemma matched_style_capw ident idw sw : all_neutral acr sw = true -> sw <> [] ->
  matched_style acr ident idw (map capw sw) =
  match sw with
  | [_] => Some Pascal
  | _ => if contains 32 ident then Some Title else Some Pascal
  end.
Proof.
  intros Hsw Hne. pose proof (title_words_capw sw Hsw) as Ht.
  destruct sw as [|w [|w' sw'']]; [contradiction| |].
  - cbn [map matched_style]. apply detect_capw_pascal.
    unfold all_neutral in Hsw. cbn [forallb] in Hsw. apply andb_true_iff in Hsw as [H _]. exact H.
  - cbn [map] in Ht |- *. unfold matched_style. rewrite Ht. cbn [andb].
    destruct (contains 32 ident); reflexivity.
Qed.

(* ================================================================== Train-Case *)
Theorem locality_train pfx pre sw rw post S0 S1 styles :
  pfx_ok pfx ->
  all_neutral acr pre = true -> all_neutral acr sw = true -> all_neutral acr post = true ->
  all_neutral acr rw = true ->
  sw <> [] -> rw <> [] -> pre ++ post <> [] ->
  visible S0 = true -> visible S1 = true ->
  no_occ sw (pre ++ removelast sw) -> no_occ sw post ->
  existsb (style_eqb Train) styles = true ->
  fcv acr (pfx ++ join [45] (map capw (pre ++ sw ++ post)))
          (to_style acr sw S0) (to_style acr rw S1) styles =
  [mk_cmatch (pfx ++ join [45] (map capw (pre ++ sw ++ post)))
             (pfx ++ join [45] (map capw (pre ++ rw ++ post))) Train 0 0].
Proof.
  intros Hp Hpre Hsw Hpost Hrw Hswne Hrwne Hpp Hv0 Hv1 Hn1 Hn2 Hst.
  set (ws := pre ++ sw ++ post).
  assert (Hn : all_neutral acr ws = true) by (apply all_neutral_app3g; assumption).
  destruct (compound_lengths pre sw post Hswne Hpp) as [Hlen _]. fold ws in Hlen.
  assert (Hne : ws <> []) by (clear - Hlen; intro E; rewrite E in Hlen; cbn [length] in Hlen; lia).
  assert (Eid : join [45] (map capw ws) = render Train ws) by (destruct ws; reflexivity).
  rewrite Eid. set (idw := render Train ws).
  destruct (tokens_repl_words rw S1 Hv1 Hrwne Hrw) as [Ent Hntne].
  assert (H95 : contains 95 idw = false) by (apply (flag_byte acr ws Hn Hlen Train 95 eq_refl)).
  assert (H45 : contains 45 idw = true) by (apply (flag_byte acr ws Hn Hlen Train 45 eq_refl)).
  assert (H46 : contains 46 idw = false) by (apply (flag_byte acr ws Hn Hlen Train 46 eq_refl)).
  assert (Hdet : detect_style acr idw = Some Train)
    by (unfold idw; rewrite (detect_render acr Train ws Hlen Hn); reflexivity).
  rewrite (fcv_core Train pfx idw _ _ styles (map capw pre) (map capw sw) (map capw post) pre sw post);
    try assumption.
  - (* the style-specific steps *)
    unfold final_style. rewrite Hdet. cbn [style_new]. rewrite Ent.
    rewrite (to_style_good acr _ rw Train (toks_of_good acr S1 rw Hrw)).
    rewrite (split_on_render acr Train rw 45 Hrw Hrwne eq_refl). cbn [toks_of].
    unfold rejoin. rewrite H95, H45. cbn [andb].
    unfold idw. rewrite (restore_trailing_render Train ws _ Hn Hne).
    rewrite <- !map_app. reflexivity.
  - apply render_head; assumption.
  - unfold idw. rewrite <- (to_style_render acr ws Train Hn).
    rewrite (tokens_render acr Train ws Hwf eq_refl Hne Hn). cbn [toks_of].
    unfold ws. rewrite !map_app. reflexivity.
  - apply (map_lower_toks_of acr Pascal pre Hpre).
  - apply (map_lower_toks_of acr Pascal sw Hsw).
  - apply (map_lower_toks_of acr Pascal post Hpost).
  - apply (C18_roundtrip acr S0 sw Hwf Hv0 Hswne Hsw).
Qed.

(* ================================================================== camelCase, span not at the start *)
Theorem locality_camel_inner pfx p0 pre' sw rw post S0 S1 styles :
  pfx_ok pfx ->
  all_neutral acr (p0 :: pre') = true -> all_neutral acr sw = true -> all_neutral acr post = true ->
  all_neutral acr rw = true ->
  sw <> [] -> rw <> [] ->
  visible S0 = true -> visible S1 = true ->
  no_occ sw ((p0 :: pre') ++ removelast sw) -> no_occ sw post ->
  existsb (style_eqb Camel) styles = true ->
  fcv acr (pfx ++ p0 ++ concat (map capw (pre' ++ sw ++ post)))
          (to_style acr sw S0) (to_style acr rw S1) styles =
  [mk_cmatch (pfx ++ p0 ++ concat (map capw (pre' ++ sw ++ post)))
             (pfx ++ p0 ++ concat (map capw pre' ++ map (span_word S1) rw ++ map capw post))
             Camel 0 0].
Proof.
  intros Hp Hpre Hsw Hpost Hrw Hswne Hrwne Hv0 Hv1 Hn1 Hn2 Hst.
  set (pre := p0 :: pre') in *.
  assert (Hpp : pre ++ post <> []) by discriminate.
  set (ws := pre ++ sw ++ post).
  assert (Hn : all_neutral acr ws = true) by (apply all_neutral_app3g; assumption).
  destruct (compound_lengths pre sw post Hswne Hpp) as [Hlen _]. fold ws in Hlen.
  assert (Hne : ws <> []) by discriminate.
  assert (Eid : p0 ++ concat (map capw (pre' ++ sw ++ post)) = render Camel ws) by reflexivity.
  rewrite Eid. set (idw := render Camel ws).
  destruct (tokens_repl_words rw S1 Hv1 Hrwne Hrw) as [Ent Hntne].
  assert (H95 : contains 95 idw = false) by (apply (flag_byte acr ws Hn Hlen Camel 95 eq_refl)).
  assert (H45 : contains 45 idw = false) by (apply (flag_byte acr ws Hn Hlen Camel 45 eq_refl)).
  assert (H46 : contains 46 idw = false) by (apply (flag_byte acr ws Hn Hlen Camel 46 eq_refl)).
  assert (H32 : contains 32 idw = false) by (apply (flag_byte acr ws Hn Hlen Camel 32 eq_refl)).
  assert (Hdet : detect_style acr idw = Some Camel)
    by (unfold idw; rewrite (detect_render acr Camel ws Hlen Hn); reflexivity).
  rewrite (fcv_core Camel pfx idw _ _ styles (p0 :: map capw pre') (map capw sw) (map capw post)
             pre sw post); try assumption.
  - assert (Hsp : contains 32 (pfx ++ idw) = false)
      by (rewrite (contains_pfx 32 pfx idw Hp) by discriminate; exact H32).
    assert (Hfin : final_style acr (pfx ++ idw) idw (map capw sw) = Some Pascal).
    { unfold final_style. rewrite Hdet, (matched_style_capw _ _ sw Hsw Hswne), Hsp.
      destruct sw as [|? [|? ?]]; reflexivity. }
    rewrite Hfin. cbn [style_new]. rewrite Ent, map_upcase_toks_of.
    unfold rejoin. rewrite H95, H45, H46, H32. cbn [andb].
    unfold idw. rewrite (restore_trailing_render Camel ws _ Hn Hne).
    rewrite concat_flatten. reflexivity.
  - apply render_head; assumption.
  - unfold idw. rewrite <- (to_style_render acr ws Camel Hn).
    rewrite (tokens_render acr Camel ws Hwf eq_refl Hne Hn).
    unfold ws, pre. cbn [app toks_of]. rewrite !map_app. reflexivity.
  - apply (map_lower_toks_of acr Camel pre Hpre).
  - apply (map_lower_toks_of acr Pascal sw Hsw).
  - apply (map_lower_toks_of acr Pascal post Hpost).
  - apply (C18_roundtrip acr S0 sw Hwf Hv0 Hswne Hsw).
Qed.

(* ================================================================== camelCase, span at the start *)
(* the span w0 :: sw' is written  w0 Sw' ...: its first token is lower case, so it is neither a run of
   Title words nor all lower case; the function falls back on detect_style of the concatenated window
   (Camel when there are several words) or of the identifier (Camel) *)
Lemma final_style_camel_head ident idw w0 sw' :
  all_neutral acr (w0 :: sw') = true -> detect_style acr idw = Some Camel ->
  final_style acr ident idw (w0 :: map capw sw') = Some Camel.
Proof.
  intros Hsw Hdet. unfold final_style. rewrite Hdet.
  assert (Hw0 : neutral acr w0 = true).
  { unfold all_neutral in Hsw. cbn [forallb] in Hsw. apply andb_true_iff in Hsw as [H _]. exact H. }
  destruct sw' as [|w1 sw''].
  - cbn [map matched_style]. rewrite (detect_word_none acr w0 Hw0). reflexivity.
  - assert (Hw1 : neutral acr w1 = true).
    { unfold all_neutral in Hsw. cbn [forallb] in Hsw. apply andb_true_iff in Hsw as [_ H].
      apply andb_true_iff in H as [H _]. exact H. }
    unfold matched_style. cbn [map forallb].
    rewrite (nw_title_low acr w0 Hw0). cbn [andb].
    destruct (neutral_shape _ _ Hw1) as (c & c1 & w2 & Ew1 & Hc & _).
    assert (Hlow : forallb is_lower (capw w1) = false).
    { rewrite Ew1. cbn [capw forallb].
      rewrite (upper_not_lower _ (to_upper_lower_is_upper _ Hc)). reflexivity. }
    rewrite Hlow, andb_false_r.
    change (concat (w0 :: capw w1 :: map capw sw'')) with (render Camel (w0 :: w1 :: sw'')).
    rewrite (detect_render acr Camel (w0 :: w1 :: sw'')); [reflexivity | | exact Hsw].
    cbn [length]. lia.
Qed.

Theorem locality_camel_head pfx w0 sw' r0 rw' post S0 S1 styles :
  pfx_ok pfx ->
  all_neutral acr (w0 :: sw') = true -> all_neutral acr post = true ->
  all_neutral acr (r0 :: rw') = true ->
  post <> [] ->
  visible S0 = true -> visible S1 = true ->
  no_occ (w0 :: sw') post ->
  existsb (style_eqb Camel) styles = true ->
  fcv acr (pfx ++ w0 ++ concat (map capw (sw' ++ post)))
          (to_style acr (w0 :: sw') S0) (to_style acr (r0 :: rw') S1) styles =
  [mk_cmatch (pfx ++ w0 ++ concat (map capw (sw' ++ post)))
             (pfx ++ r0 ++ concat (map (span_word S1) rw' ++ map capw post))
             Camel 0 0].
Proof.
  intros Hp Hsw Hpost Hrw Hpostne Hv0 Hv1 Hn2 Hst.
  set (sw := w0 :: sw') in *. set (rw := r0 :: rw') in *.
  assert (Hswne : sw <> []) by discriminate. assert (Hrwne : rw <> []) by discriminate.
  assert (Hpp : [] ++ post <> []) by exact Hpostne.
  set (ws := [] ++ sw ++ post).
  assert (Hn : all_neutral acr ws = true) by (apply all_neutral_app3g; auto).
  destruct (compound_lengths [] sw post Hswne Hpp) as [Hlen _]. fold ws in Hlen.
  assert (Hne : ws <> []) by discriminate.
  assert (Eid : w0 ++ concat (map capw (sw' ++ post)) = render Camel ws) by reflexivity.
  rewrite Eid. set (idw := render Camel ws).
  destruct (tokens_repl_words rw S1 Hv1 Hrwne Hrw) as [Ent Hntne].
  assert (H95 : contains 95 idw = false) by (apply (flag_byte acr ws Hn Hlen Camel 95 eq_refl)).
  assert (H45 : contains 45 idw = false) by (apply (flag_byte acr ws Hn Hlen Camel 45 eq_refl)).
  assert (H46 : contains 46 idw = false) by (apply (flag_byte acr ws Hn Hlen Camel 46 eq_refl)).
  assert (H32 : contains 32 idw = false) by (apply (flag_byte acr ws Hn Hlen Camel 32 eq_refl)).
  assert (Hdet : detect_style acr idw = Some Camel)
    by (unfold idw; rewrite (detect_render acr Camel ws Hlen Hn); reflexivity).
  rewrite (fcv_core Camel pfx idw _ _ styles [] (w0 :: map capw sw') (map capw post) [] sw post);
    try assumption.
  - rewrite (final_style_camel_head _ idw w0 sw' Hsw Hdet). cbn [style_new]. rewrite Ent.
    (* first replacement token lower-cased, the others with their first byte upper-cased *)
    pose proof (map_lower_toks_of acr S1 rw Hrw) as Hlo.
    pose proof (map_upcase_toks_of S1 rw) as Hup.
    destruct (toks_of S1 rw) as [|t0 r] eqn:Et; [discriminate|].
    unfold rw in Hlo, Hup. cbn [map] in Hlo, Hup.
    injection Hlo as Ht0 _. injection Hup as _ Hr.
    rewrite Ht0, Hr.
    unfold rejoin. rewrite H95, H45, H46, H32. cbn [andb].
    unfold idw. rewrite (restore_trailing_render Camel ws _ Hn Hne).
    cbn [app concat]. rewrite concat_app, <- !app_assoc. reflexivity.
  - apply render_head; assumption.
  - unfold idw. rewrite <- (to_style_render acr ws Camel Hn).
    rewrite (tokens_render acr Camel ws Hwf eq_refl Hne Hn).
    unfold ws, sw. cbn [app toks_of]. rewrite !map_app. reflexivity.
  - reflexivity.
  - apply (map_lower_toks_of acr Camel sw Hsw).
  - apply (map_lower_toks_of acr Pascal post Hpost).
  - apply (C18_roundtrip acr S0 sw Hwf Hv0 Hswne Hsw).
  - cbn [app]. apply no_occ_removelast, Hswne.
Qed.

(* ================================================================== Title Case phrases (extra) *)
(* "Get User Name Now": the extractor of compound_scanner.rs matches [A-Z][a-z]+(\s+[A-Z][a-z]+)* as
   ONE identifier when the Title style is enabled (Model/Enhanced.v::title_match), so such phrases do
   reach find_compound_variants.  The words outside the span and the single spaces are preserved; a
   span of SEVERAL words is replaced by the replacement in Title Case; a span of ONE word is replaced
   by the replacement glued together in PascalCase (the one-token window is classified by
   detect_style of the token, compound_matcher.rs lines 188-189: "User" is Pascal). *)
Definition title_span (S1 : style) (sw rw : list bytes) : list bytes :=
  match sw with
  | [_] => [concat (map (span_word S1) rw)]
  | _ => map capw rw
  end.

Theorem locality_title pfx pre sw rw post S0 S1 styles :
  pfx_ok pfx ->
  all_neutral acr pre = true -> all_neutral acr sw = true -> all_neutral acr post = true ->
  all_neutral acr rw = true ->
  sw <> [] -> rw <> [] -> pre ++ post <> [] ->
  visible S0 = true -> visible S1 = true ->
  no_occ sw (pre ++ removelast sw) -> no_occ sw post ->
  existsb (style_eqb Title) styles = true ->
  fcv acr (pfx ++ join [32] (map capw (pre ++ sw ++ post)))
          (to_style acr sw S0) (to_style acr rw S1) styles =
  [mk_cmatch (pfx ++ join [32] (map capw (pre ++ sw ++ post)))
             (pfx ++ join [32] (map capw pre ++ title_span S1 sw rw ++ map capw post)) Title 0 0].
Proof.
  intros Hp Hpre Hsw Hpost Hrw Hswne Hrwne Hpp Hv0 Hv1 Hn1 Hn2 Hst.
  set (ws := pre ++ sw ++ post).
  assert (Hn : all_neutral acr ws = true) by (apply all_neutral_app3g; assumption).
  destruct (compound_lengths pre sw post Hswne Hpp) as [Hlen _]. fold ws in Hlen.
  assert (Hne : ws <> []) by (clear - Hlen; intro E; rewrite E in Hlen; cbn [length] in Hlen; lia).
  assert (Eid : join [32] (map capw ws) = render Title ws) by (destruct ws; reflexivity).
  rewrite Eid. set (idw := render Title ws).
  destruct (tokens_repl_words rw S1 Hv1 Hrwne Hrw) as [Ent Hntne].
  assert (H95 : contains 95 idw = false) by (apply (flag_byte acr ws Hn Hlen Title 95 eq_refl)).
  assert (H45 : contains 45 idw = false) by (apply (flag_byte acr ws Hn Hlen Title 45 eq_refl)).
  assert (H46 : contains 46 idw = false) by (apply (flag_byte acr ws Hn Hlen Title 46 eq_refl)).
  assert (H32 : contains 32 idw = true) by (apply (flag_byte acr ws Hn Hlen Title 32 eq_refl)).
  assert (Hdet : detect_style acr idw = Some Title)
    by (unfold idw; rewrite (detect_render acr Title ws Hlen Hn); reflexivity).
  rewrite (fcv_core Title pfx idw _ _ styles (map capw pre) (map capw sw) (map capw post) pre sw post);
    try assumption.
  - assert (Hsp : contains 32 (pfx ++ idw) = true)
      by (rewrite (contains_pfx 32 pfx idw Hp) by discriminate; exact H32).
    unfold final_style. rewrite Hdet, (matched_style_capw _ _ sw Hsw Hswne), Hsp.
    unfold rejoin. rewrite H95, H45, H46, H32. cbn [andb].
    unfold idw. rewrite (restore_trailing_render Title ws _ Hn Hne).
    destruct sw as [|w [|w' sw'']]; [contradiction| |]; cbn [style_new title_span].
    + rewrite Ent, map_upcase_toks_of. reflexivity.
    + rewrite Ent, (to_style_good acr _ rw Title (toks_of_good acr S1 rw Hrw)).
      replace (render Title rw) with (join [32] (map capw rw)) by (destruct rw; reflexivity).
      rewrite join_flatten; [reflexivity|]. destruct rw; [contradiction | discriminate].
  - apply render_head; assumption.
  - unfold idw. rewrite <- (to_style_render acr ws Title Hn).
    rewrite (tokens_render acr Title ws Hwf eq_refl Hne Hn). cbn [toks_of].
    unfold ws. rewrite !map_app. reflexivity.
  - apply (map_lower_toks_of acr Pascal pre Hpre).
  - apply (map_lower_toks_of acr Pascal sw Hsw).
  - apply (map_lower_toks_of acr Pascal post Hpost).
  - apply (C18_roundtrip acr S0 sw Hwf Hv0 Hswne Hsw).
Qed.

End Core.

(* ================================================================== exported statements (C07 form) *)
Section LocTop3.
Local Notation acr := gen_acronyms.

(* Train-Case.  Hypotheses as for C07_locality_kebab / C07_locality_pascal: prefix "", "_" or "__";
   neutral words; a non-empty term and replacement; a proper compound; the term and the replacement
   typed in ANY boundary-visible styles S0 / S1; the term occurs exactly once; Train is enabled.
   Conclusion: one match; prefix, the words outside the span and the hyphens are unchanged; the span
   holds the words of the replacement, capitalised - for EVERY S1 (to_style .. Train re-cases the
   replacement, so an all-caps replacement does not leak here, unlike Pascal and camel) *)
Theorem compound_locality_train_words : forall pfx pre sw rw post S0 S1 styles,
  pfx_ok pfx ->
  all_neutral acr pre = true -> all_neutral acr sw = true -> all_neutral acr post = true ->
  all_neutral acr rw = true ->
  sw <> [] -> rw <> [] -> pre ++ post <> [] ->
  visible S0 = true -> visible S1 = true ->
  no_occ sw (pre ++ removelast sw) -> no_occ sw post ->
  existsb (style_eqb Train) styles = true ->
  find_compound_variants (pfx ++ join [45] (map capw (pre ++ sw ++ post)))
                         (to_style acr sw S0) (to_style acr rw S1) styles =
  [mk_cmatch (pfx ++ join [45] (map capw (pre ++ sw ++ post)))
             (pfx ++ join [45] (map capw (pre ++ rw ++ post))) Train 0 0].
Proof. intros. apply (locality_train acr gen_acronyms_wf); assumption. Qed.

(* camelCase, the span is not at the start of the identifier: written out *)
Theorem compound_locality_camel_inner_words : forall pfx p0 pre' sw rw post S0 S1 styles,
  pfx_ok pfx ->
  all_neutral acr (p0 :: pre') = true -> all_neutral acr sw = true -> all_neutral acr post = true ->
  all_neutral acr rw = true ->
  sw <> [] -> rw <> [] ->
  visible S0 = true -> visible S1 = true ->
  no_occ sw ((p0 :: pre') ++ removelast sw) -> no_occ sw post ->
  existsb (style_eqb Camel) styles = true ->
  find_compound_variants (pfx ++ p0 ++ concat (map capw (pre' ++ sw ++ post)))
                         (to_style acr sw S0) (to_style acr rw S1) styles =
  [mk_cmatch (pfx ++ p0 ++ concat (map capw (pre' ++ sw ++ post)))
             (pfx ++ p0 ++ concat (map capw pre' ++ map (if all_caps S1 then upper else capw) rw
                                   ++ map capw post))
             Camel 0 0].
Proof. intros. apply (locality_camel_inner acr gen_acronyms_wf); assumption. Qed.

(* camelCase, the span starts the identifier (pre = []): written out.  The hypothesis
   [no_occ sw (pre ++ removelast sw)] is not needed here (it holds for length reasons). *)
Theorem compound_locality_camel_head_words : forall pfx w0 sw' r0 rw' post S0 S1 styles,
  pfx_ok pfx ->
  all_neutral acr (w0 :: sw') = true -> all_neutral acr post = true ->
  all_neutral acr (r0 :: rw') = true ->
  post <> [] ->
  visible S0 = true -> visible S1 = true ->
  no_occ (w0 :: sw') post ->
  existsb (style_eqb Camel) styles = true ->
  find_compound_variants (pfx ++ w0 ++ concat (map capw (sw' ++ post)))
                         (to_style acr (w0 :: sw') S0) (to_style acr (r0 :: rw') S1) styles =
  [mk_cmatch (pfx ++ w0 ++ concat (map capw (sw' ++ post)))
             (pfx ++ r0 ++ concat (map (if all_caps S1 then upper else capw) rw' ++ map capw post))
             Camel 0 0].
Proof. intros. apply (locality_camel_head acr gen_acronyms_wf); assumption. Qed.

(* camelCase, both cases in the form of C07_locality_pascal.  [camel ws] = first word, then the other
   words capitalised; [camel_span f pre rw post] = the same for pre ++ rw ++ post except that the words
   of rw that do not start the identifier are written with f.  f is [capw] unless the replacement was
   typed in an all-caps style, then it is [upper] (getUserNameNow -> getACCOUNTNUMBERNow,
   userNameNow -> accountNUMBERNow: the very first word of the identifier is always lower-cased). *)
Theorem compound_locality_camel_words_gen : forall pfx pre sw rw post S0 S1 styles,
  pfx_ok pfx ->
  all_neutral acr pre = true -> all_neutral acr sw = true -> all_neutral acr post = true ->
  all_neutral acr rw = true ->
  sw <> [] -> rw <> [] -> pre ++ post <> [] ->
  visible S0 = true -> visible S1 = true ->
  no_occ sw (pre ++ removelast sw) -> no_occ sw post ->
  existsb (style_eqb Camel) styles = true ->
  find_compound_variants (pfx ++ camel (pre ++ sw ++ post))
                         (to_style acr sw S0) (to_style acr rw S1) styles =
  [mk_cmatch (pfx ++ camel (pre ++ sw ++ post))
             (pfx ++ camel_span (if all_caps S1 then upper else capw) pre rw post) Camel 0 0].
Proof.
  intros pfx pre sw rw post S0 S1 styles Hp Hpre Hsw Hpost Hrw Hswne Hrwne Hpp Hv0 Hv1 Hn1 Hn2 Hst.
  destruct pre as [|p0 pre'].
  - destruct sw as [|w0 sw']; [contradiction|]. destruct rw as [|r0 rw']; [contradiction|].
    cbn [app camel camel_span].
    apply compound_locality_camel_head_words; assumption.
  - cbn [app camel camel_span].
    apply compound_locality_camel_inner_words; assumption.
Qed.

(* the statement asked for: when the replacement is not typed in an all-caps style the result is the
   camelCase rendering of pre ++ rw ++ post *)
Corollary compound_locality_camel_words : forall pfx pre sw rw post S0 S1 styles,
  pfx_ok pfx ->
  all_neutral acr pre = true -> all_neutral acr sw = true -> all_neutral acr post = true ->
  all_neutral acr rw = true ->
  sw <> [] -> rw <> [] -> pre ++ post <> [] ->
  visible S0 = true -> visible S1 = true -> all_caps S1 = false ->
  no_occ sw (pre ++ removelast sw) -> no_occ sw post ->
  existsb (style_eqb Camel) styles = true ->
  find_compound_variants (pfx ++ camel (pre ++ sw ++ post))
                         (to_style acr sw S0) (to_style acr rw S1) styles =
  [mk_cmatch (pfx ++ camel (pre ++ sw ++ post)) (pfx ++ camel (pre ++ rw ++ post)) Camel 0 0].
Proof.
  intros pfx pre sw rw post S0 S1 styles Hp Hpre Hsw Hpost Hrw Hswne Hrwne Hpp Hv0 Hv1 Hcaps Hn1 Hn2 Hst.
  rewrite (compound_locality_camel_words_gen pfx pre sw rw post S0 S1 styles); auto.
  rewrite Hcaps, camel_span_capw. reflexivity.
Qed.

(* Title Case phrases (extra; reachable only when the Title style is enabled) *)
Theorem compound_locality_title_words : forall pfx pre sw rw post S0 S1 styles,
  pfx_ok pfx ->
  all_neutral acr pre = true -> all_neutral acr sw = true -> all_neutral acr post = true ->
  all_neutral acr rw = true ->
  sw <> [] -> rw <> [] -> pre ++ post <> [] ->
  visible S0 = true -> visible S1 = true ->
  no_occ sw (pre ++ removelast sw) -> no_occ sw post ->
  existsb (style_eqb Title) styles = true ->
  find_compound_variants (pfx ++ join [32] (map capw (pre ++ sw ++ post)))
                         (to_style acr sw S0) (to_style acr rw S1) styles =
  [mk_cmatch (pfx ++ join [32] (map capw (pre ++ sw ++ post)))
             (pfx ++ join [32] (map capw pre ++
                                match sw with
                                | [_] => [concat (map (if all_caps S1 then upper else capw) rw)]
                                | _ => map capw rw
                                end ++ map capw post)) Title 0 0].
Proof. intros. apply (locality_title acr gen_acronyms_wf); assumption. Qed.

End LocTop3.

(* ================================================================== witnesses and instances *)
(* all-caps replacement inside a camelCase identifier: same outputs as the Rust function (rn-harness) *)
Theorem compound_camel_caps_leak :
  find_compound_variants (bs "getUserNameNow") (bs "user_name") (bs "ACCOUNT_NUMBER") gen_all_styles =
  [mk_cmatch (bs "getUserNameNow") (bs "getACCOUNTNUMBERNow") Camel 0 0] /\
  find_compound_variants (bs "userNameNow") (bs "user_name") (bs "ACCOUNT_NUMBER") gen_all_styles =
  [mk_cmatch (bs "userNameNow") (bs "accountNUMBERNow") Camel 0 0].
Proof. split; vm_compute; reflexivity. Qed.

(* a one-word term inside a Title Case phrase: the replacement's words are glued together *)
Theorem compound_title_single_word_glued :
  find_compound_variants (bs "Get User Now") (bs "user") (bs "account_number") gen_all_styles =
  [mk_cmatch (bs "Get User Now") (bs "Get AccountNumber Now") Title 0 0].
Proof. vm_compute. reflexivity. Qed.

(* non-vacuity: concrete instances that satisfy every hypothesis of the theorems above *)
Definition w_get := bs "get".   Definition w_user := bs "user".       Definition w_name := bs "name".
Definition w_now := bs "now".   Definition w_account := bs "account". Definition w_number := bs "number".

Lemma no_occ_dec (sw l : list bytes) : has_window sw l = false -> no_occ sw l.
Proof.
  intros H l1 l2 E. assert (Hw : ci_window sw l) by (exists l1, sw, l2; split; [exact E | reflexivity]).
  apply ci_window_has in Hw. congruence.
Qed.

Example train_instance :
  find_compound_variants (bs "__Get-User-Name-Now") (bs "userName") (bs "ACCOUNT_NUMBER") gen_all_styles =
  [mk_cmatch (bs "__Get-User-Name-Now") (bs "__Get-Account-Number-Now") Train 0 0].
Proof.
  apply (compound_locality_train_words [95; 95] [w_get] [w_user; w_name] [w_account; w_number] [w_now]
           Camel ScreamingSnake gen_all_styles);
    try (vm_compute; reflexivity); try discriminate; try (right; right; reflexivity);
    apply no_occ_dec; vm_compute; reflexivity.
Qed.

Example camel_inner_instance :
  find_compound_variants (bs "_getUserNameNow") (bs "USER-NAME") (bs "account.number") gen_all_styles =
  [mk_cmatch (bs "_getUserNameNow") (bs "_getAccountNumberNow") Camel 0 0].
Proof.
  apply (compound_locality_camel_words [95] [w_get] [w_user; w_name] [w_account; w_number] [w_now]
           ScreamingTrain Dot gen_all_styles);
    try (vm_compute; reflexivity); try discriminate; try (right; left; reflexivity);
    apply no_occ_dec; vm_compute; reflexivity.
Qed.

Example camel_head_instance :
  find_compound_variants (bs "userNameNow") (bs "user_name") (bs "Account Number") gen_all_styles =
  [mk_cmatch (bs "userNameNow") (bs "accountNumberNow") Camel 0 0].
Proof.
  apply (compound_locality_camel_words [] [] [w_user; w_name] [w_account; w_number] [w_now]
           Snake Title gen_all_styles);
    try (vm_compute; reflexivity); try discriminate; try (left; reflexivity);
    apply no_occ_dec; vm_compute; reflexivity.
Qed.

Example camel_gen_caps_instance :
  find_compound_variants (bs "getUserNameNow") (bs "user_name") (bs "ACCOUNT_NUMBER") gen_all_styles =
  [mk_cmatch (bs "getUserNameNow") (bs "getACCOUNTNUMBERNow") Camel 0 0].
Proof.
  apply (compound_locality_camel_words_gen [] [w_get] [w_user; w_name] [w_account; w_number] [w_now]
           Snake ScreamingSnake gen_all_styles);
    try (vm_compute; reflexivity); try discriminate; try (left; reflexivity);
    apply no_occ_dec; vm_compute; reflexivity.
Qed.

Example title_instance :
  find_compound_variants (bs "Get User Name Now") (bs "user_name") (bs "accountNumber") gen_all_styles =
  [mk_cmatch (bs "Get User Name Now") (bs "Get Account Number Now") Title 0 0].
Proof.
  apply (compound_locality_title_words [] [w_get] [w_user; w_name] [w_account; w_number] [w_now]
           Snake Camel gen_all_styles);
    try (vm_compute; reflexivity); try discriminate; try (left; reflexivity);
    apply no_occ_dec; vm_compute; reflexivity.
Qed.

Print Assumptions fcv_core.
Print Assumptions compound_locality_train_words.
Print Assumptions compound_locality_camel_inner_words.
Print Assumptions compound_locality_camel_head_words.
Print Assumptions compound_locality_camel_words_gen.
Print Assumptions compound_locality_camel_words.
Print Assumptions compound_locality_title_words.
Print Assumptions compound_camel_caps_leak.
Print Assumptions compound_title_single_word_glued.
