(* Proofs/HunkTailP2.v — the main theorems of Proofs/HunkTailP.v with the three coercion oracles of
   Model/HunkTail.v instantiated by the MODEL of coercion.rs (Model/Coercion.v), and the one fact that
   was assumed about coercion::apply_coercion (its early return) discharged by CoercionP.co_early_return.
   The only oracle left is the ambiguity resolver, which these theorems never consult (T1). *)
From RN Require Import Base.Bytes Model.StyleDef Model.CaseModel Model.CaseSpec Model.Matcher Model.Edits.
From RN Require Import Model.Coercion Proofs.CoercionP Proofs.StandaloneP Proofs.HunkTailP.
From RN Require Import Model.Enhanced Model.HunkTail.
Close Scope N_scope.

(* scanner.rs 819 / 822 / 809 through the model *)
Definition model_fires (acr : acr_tab) (ctx content replace : bytes) : bool :=
  match co_apply_coercion acr ctx content replace with Some _ => true | None => false end.
Definition model_coerce_variant (acr : acr_tab) (ctx content replace : bytes) : option bytes :=
  co_coerce_variant acr ctx replace.
Definition model_compound_note (acr : acr_tab) (ctx content replace : bytes) : bool :=
  match co_compound_coercion acr ctx replace with Some _ => true | None => false end.

(* generate_hunks with everything but the resolver and the exclude-lines regex modelled *)
Definition hunk_of_match_m (acr : acr_tab) resolve line_excluded :=
  hunk_of_match acr resolve (model_fires acr) (model_coerce_variant acr) (model_compound_note acr) line_excluded.
Definition generate_hunks_m (acr : acr_tab) resolve line_excluded :=
  generate_hunks acr resolve (model_fires acr) (model_coerce_variant acr) (model_compound_note acr) line_excluded.

Lemma strip_us_prefix_extract s : strip_us_prefix s = snd (extract_prefix s).
Proof.
  destruct s as [|a s1]; [reflexivity|]. cbn [strip_us_prefix extract_prefix].
  destruct (a =? 95)%N; [|reflexivity]. destruct s1 as [|b s2]; [reflexivity|].
  destruct (b =? 95)%N; reflexivity.
Qed.

(* the formerly assumed fact, now a theorem about the model *)
Theorem model_fires_early_return : forall acr container old new,
  lower (strip_us_prefix container) = lower old -> model_fires acr container old new = false.
Proof.
  intros acr container old new H. unfold model_fires.
  rewrite co_early_return; [reflexivity|]. rewrite <- strip_us_prefix_extract. exact H.
Qed.

Theorem standalone_hunk_any_context_m :
  forall acr resolve line_excluded o repl defaults amb S0 S1 S sw rw styles dl dr,
  wf_acr acr = true -> visible S0 = true -> visible S1 = true -> visible S = true ->
  2 <= length sw -> rw <> [] -> all_neutral acr sw = true -> all_neutral acr rw = true ->
  In S styles ->
  hd_is is_ident_char (rev dl) = false -> hd_is is_ident_char dr = false -> head_ok dr = true ->
  let vm := variant_map_core acr defaults [] [] false amb (to_style acr sw S0) (to_style acr rw S1)
              (Some styles) in
  let occ := to_style acr sw S in
  let new := to_style acr rw S in
  let c := dl ++ occ ++ dr in
  let line := after_nl dl ++ occ ++ upto_nl dr in
  mem occ (o_exclude_match o) = false -> line_excluded line = false ->
  let m := mk_ematch (line_of c (length dl)) (col_of c (length dl)) (length dl) (length dl + length occ)
             occ occ in
  let h := {| t_line := line_of c (length dl); t_col := length (after_nl dl);
              t_start := length dl; t_end := length dl + length occ;
              t_variant := occ; t_content := occ; t_replace := new;
              t_before := line; t_after := after_nl dl ++ new ++ upto_nl dr; t_note := false |} in
  hunk_of_match_m acr resolve line_excluded o vm c repl m = Some h /\
  (forall ms, In m ms -> In h (generate_hunks_m acr resolve line_excluded o vm c repl ms)) /\
  apply_edits_rev c [edit_of_thunk h] = Ok (dl ++ new ++ dr).
Proof.
  intros acr resolve line_excluded o repl defaults amb S0 S1 S sw rw styles dl dr.
  apply (standalone_hunk_any_context acr resolve (model_fires acr) (model_coerce_variant acr)
           (model_compound_note acr) line_excluded o repl defaults amb S0 S1 S sw rw styles dl dr
           (model_fires_early_return acr)).
Qed.

Theorem standalone_hunk_same_style_ctx_m :
  forall acr resolve line_excluded o repl defaults amb S0 S1 S sw rw styles dl dr,
  wf_acr acr = true -> visible S0 = true -> visible S1 = true -> visible S = true ->
  2 <= length sw -> rw <> [] -> all_neutral acr sw = true -> all_neutral acr rw = true ->
  In S styles -> ctxs dl = true -> ctxs dr = true -> head_ok dr = true ->
  let vm := variant_map_core acr defaults [] [] false amb (to_style acr sw S0) (to_style acr rw S1)
              (Some styles) in
  let occ := to_style acr sw S in
  let new := to_style acr rw S in
  let c := dl ++ occ ++ dr in
  let line := after_nl dl ++ occ ++ upto_nl dr in
  mem occ (o_exclude_match o) = false -> line_excluded line = false ->
  let h := {| t_line := line_of c (length dl); t_col := length (after_nl dl);
              t_start := length dl; t_end := length dl + length occ;
              t_variant := occ; t_content := occ; t_replace := new;
              t_before := line; t_after := after_nl dl ++ new ++ upto_nl dr; t_note := false |} in
  exists m,
    find_matches (keys vm) c = [m] /\
    hunk_of_match_m acr resolve line_excluded o vm c repl (ematch_of_exact m) = Some h /\
    generate_hunks_m acr resolve line_excluded o vm c repl
      (map ematch_of_exact (find_matches (keys vm) c)) = [h] /\
    apply_edits_rev c [edit_of_thunk h] = Ok (dl ++ new ++ dr).
Proof.
  intros acr resolve line_excluded o repl defaults amb S0 S1 S sw rw styles dl dr.
  apply (standalone_hunk_same_style_ctx acr resolve (model_fires acr) (model_coerce_variant acr)
           (model_compound_note acr) line_excluded o repl defaults amb S0 S1 S sw rw styles dl dr
           (model_fires_early_return acr)).
Qed.

Theorem standalone_hunk_same_style_m :
  forall acr resolve coerce_auto repl defaults amb S0 S1 S sw rw styles dl dr,
  wf_acr acr = true -> visible S0 = true -> visible S1 = true -> visible S = true ->
  2 <= length sw -> rw <> [] -> all_neutral acr sw = true -> all_neutral acr rw = true ->
  In S styles -> delims dl = true -> delims dr = true ->
  let vm := variant_map_core acr defaults [] [] false amb (to_style acr sw S0) (to_style acr rw S1)
              (Some styles) in
  let occ := to_style acr sw S in
  let new := to_style acr rw S in
  let c := dl ++ occ ++ dr in
  let o := {| o_ignore_ambiguous := false; o_exclude_match := []; o_coerce_auto := coerce_auto |} in
  let h := {| t_line := 1; t_col := length dl; t_start := length dl; t_end := length dl + length occ;
              t_variant := occ; t_content := occ; t_replace := new;
              t_before := c; t_after := dl ++ new ++ dr; t_note := false |} in
  exists m,
    find_matches (keys vm) c = [m] /\
    hunk_of_match_m acr resolve (fun _ => false) o vm c repl (ematch_of_exact m) = Some h /\
    generate_hunks_m acr resolve (fun _ => false) o vm c repl
      (map ematch_of_exact (find_matches (keys vm) c)) = [h] /\
    apply_edits_rev c [edit_of_thunk h] = Ok (dl ++ new ++ dr).
Proof.
  intros acr resolve coerce_auto repl defaults amb S0 S1 S sw rw styles dl dr.
  apply (standalone_hunk_same_style acr resolve (model_fires acr) (model_coerce_variant acr)
           (model_compound_note acr) coerce_auto repl defaults amb S0 S1 S sw rw styles dl dr
           (model_fires_early_return acr)).
Qed.

Print Assumptions model_fires_early_return.
Print Assumptions standalone_hunk_any_context_m.
Print Assumptions standalone_hunk_same_style_ctx_m.
Print Assumptions standalone_hunk_same_style_m.
