(* Model/UndoModel.v — restatement of undo.rs::undo_renaming (tree part): reversal of directory
   renames (shallowest recorded destination first), reversal of file renames (deepest first,
   symlink-aware existence test), restoration of contents by the stored reverse patches (the
   patch application itself is an input: the content each patched file gets), removal of
   directories created by apply.  Executable, no proofs. *)
From RN Require Export Base.Bytes Model.Fs Model.ApplyModel.

(* stable insertion sort by a nat key *)
Fixpoint ins_by {A} (key : A -> nat) (asc : bool) (x : A) (l : list A) : list A :=
  match l with
  | [] => [x]
  | y :: l' =>
      let strictly_before := if asc then Nat.ltb (key y) (key x) else Nat.ltb (key x) (key y) in
      if strictly_before then y :: ins_by key asc x l' else x :: l
  end.
Definition sort_by {A} (key : A -> nat) (asc : bool) (l : list A) : list A :=
  fold_right (ins_by key asc) [] l.

(* Path::exists follows symlinks: a symlink "exists" when its target does; in the model a link
   never resolves inside the tree (targets are opaque), so exists is false for links *)
Definition exists_follow (t : fs) (p : path) : bool :=
  match lookup t p with Some (Link _) => false | Some _ => true | None => false end.
(* symlink_metadata(..).is_ok() *)
Definition lexists (t : fs) (p : path) : bool :=
  match lookup t p with Some _ => true | None => false end.

(* STEP 1a: directories, sorted by the depth of the recorded new path, ascending *)
Definition undo_dirs (rs : list aren) : list aren :=
  sort_by (fun r => length (ar_new r)) true (filter ar_dir rs).

Fixpoint undo_dir_stage (ds : list aren) (t : fs) : fres fs :=
  match ds with
  | [] => FOk t
  | r :: ds' =>
      if exists_follow t (ar_new r) then
        match rename_fs (ar_new r) (ar_path r) t with
        | FOk t' => undo_dir_stage ds' t'
        | FErr e => FErr e
        end
      else undo_dir_stage ds' t
  end.

(* STEP 1b: files; the destination is re-based on a directory mapping whose recorded
   destination is a prefix of it (as the code does; it never fires for planner output) *)
Definition undo_file_pair (dirs : list aren) (r : aren) : path * path :=
  let to := fold_left (fun acc d => if path_prefix (ar_new d) (ar_new r)
                                    then ar_path d ++ skipn (length (ar_new d)) (ar_new r) else acc)
                      dirs (ar_new r) in
  (ar_path r, to).

Definition undo_files (rs : list aren) : list (path * path) :=
  sort_by (fun pr : path * path => length (snd pr)) false
          (map (undo_file_pair (undo_dirs rs)) (filter (fun r => negb (ar_dir r)) rs)).

Fixpoint undo_file_stage (fsl : list (path * path)) (t : fs) : fres fs :=
  match fsl with
  | [] => FOk t
  | (from, to) :: rest =>
      if lexists t to then
        match rename_fs to from t with
        | FOk t' => undo_file_stage rest t'
        | FErr e => FErr e
        end
      else undo_file_stage rest t
  end.

(* STEP 2: contents. [restore] lists, per patched file (original path), the content the patch
   application yields (oracle: diffy apply of the stored reverse patch).  fs::write in place,
   then the permissions read before writing are put back. *)
Fixpoint restore_stage (restore : list (path * option bytes)) (t : fs) (failed : list path) : fs * list path :=
  match restore with
  | [] => (t, failed)
  | (p, r) :: rest =>
      match lookup t p, r with
      | Some (File m _), Some c => restore_stage rest ((p, File m c) :: remove t p) failed
      | _, _ => restore_stage rest t (failed ++ [p])
      end
  end.

(* STEP 3: directories created by apply are removed when empty, deepest first *)
Fixpoint cleanup_stage (dirs : list path) (t : fs) : fs :=
  match dirs with
  | [] => t
  | d :: rest =>
      match rmdir_fs d t with
      | FOk t' => cleanup_stage rest t'
      | FErr _ => cleanup_stage rest t
      end
  end.

Record undo_result := { u_fs : fs; u_ok : bool; u_failed : list path }.

Definition undo_core (rs : list aren) (restore : list (path * option bytes)) (created : list path) (t : fs)
  : undo_result :=
  match undo_dir_stage (undo_dirs rs) t with
  | FErr _ => {| u_fs := t; u_ok := false; u_failed := [] |}
  | FOk t1 =>
      match undo_file_stage (undo_files rs) t1 with
      | FErr _ => {| u_fs := t1; u_ok := false; u_failed := [] |}
      | FOk t2 =>
          let (t3, failed) := restore_stage restore t2 [] in
          let t4 := cleanup_stage (sort_by (fun d : path => length d) false created) t3 in
          {| u_fs := t4; u_ok := match failed with [] => true | _ => false end; u_failed := failed |}
      end
  end.

(* path-level view of the reversal, for the composition theorem with apply *)
Definition undo_steps (rs : list aren) : list (path * path) :=
  map (fun r => (ar_new r, ar_path r)) (undo_dirs rs) ++
  map (fun pr : path * path => (snd pr, fst pr)) (undo_files rs).
