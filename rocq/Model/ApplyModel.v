(* Model/ApplyModel.v — restatement of apply.rs::apply_plan at system-call granularity:
   content stage (BTreeMap order, validate against the original, temp file + rename),
   rename stage (sort, re-basing on earlier renames, bookkeeping), rollback (renames only),
   with single-fault injection.  Logging, fsync and the backup/history tail are in Model/State.v.
   Executable, no proofs. *)
From RN Require Export Base.Bytes Model.Edits Model.Fs.

Record ahunk := { ah_file : path; ah_start : nat; ah_end : nat; ah_content : bytes; ah_replace : bytes }.
Record aren := { ar_path : path; ar_new : path; ar_dir : bool }.
Record aplan := { ap_id : bytes; ap_hunks : list ahunk; ap_renames : list aren }.

(* ---- Path ordering (BTreeMap<PathBuf, _>): component-wise, bytes within a component ---- *)
Fixpoint path_ltb (p q : path) : bool :=
  match p, q with
  | [], [] => false
  | [], _ :: _ => true
  | _ :: _, [] => false
  | a :: p', b :: q' => if bytes_ltb a b then true else if bytes_ltb b a then false else path_ltb p' q'
  end.

(* edits_by_file: BTreeMap keyed by file, each value in plan order *)
Fixpoint insert_edit (f : path) (e : edit) (m : list (path * list edit)) : list (path * list edit) :=
  match m with
  | [] => [(f, [e])]
  | (g, es) :: m' =>
      if path_eqb f g then (g, es ++ [e]) :: m'
      else if path_ltb f g then (f, [e]) :: m
      else (g, es) :: insert_edit f e m'
  end.
Definition edit_of (h : ahunk) : edit :=
  {| e_start := ah_start h; e_stop := ah_end h; e_old := ah_content h; e_new := ah_replace h |}.
Definition edits_by_file (hs : list ahunk) : list (path * list edit) :=
  fold_left (fun m h => insert_edit (ah_file h) (edit_of h) m) hs [].

(* Path::with_extension("<pid>.renamify.tmp") on the last component; the pid is a placeholder *)
Definition tmp_suffix : bytes := [46; 80; 73; 68; 46; 114; 101; 110; 97; 109; 105; 102; 121; 46; 116; 109; 112].
  (* ".PID.renamify.tmp" *)
Fixpoint last_dot (s : bytes) (i : nat) (best : option nat) : option nat :=
  match s with
  | [] => best
  | c :: s' => last_dot s' (S i) (if c =? 46 then Some i else best)
  end.
Definition file_stem (nm : bytes) : bytes :=
  match last_dot nm 0 None with
  | Some O => nm                         (* ".hidden": no extension *)
  | Some i => firstn i nm
  | None => nm
  end.
Definition tmp_of (p : path) : path :=
  match rev p with
  | [] => []
  | nm :: pre => rev pre ++ [file_stem nm ++ tmp_suffix]
  end.

(* ---- execution state with single-fault injection ---- *)
Record st := { s_fs : fs; s_n : nat; s_trace : list mop }.
Definition inj_t := nat -> bool.

Inductive failure :=
| FailRead (p : path)            (* file missing / not a regular file / not UTF-8 *)
| FailMismatch (p : path)        (* Content mismatch: stale plan *)
| FailPanic (p : path)           (* slice out of range or not on a char boundary *)
| FailConflict (p : path)        (* a planned destination is already occupied *)
| FailIo (o : mop) (e : errno).  (* a system call failed (really or injected) *)

Definition do_op (inj : inj_t) (o : mop) (s : st) : st + (failure * st) :=
  if inj (s_n s) then inr (FailIo o EINJECTED, {| s_fs := s_fs s; s_n := S (s_n s); s_trace := o :: s_trace s |})
  else match exec_mop o (s_fs s) with
       | FOk t' => inl {| s_fs := t'; s_n := S (s_n s); s_trace := o :: s_trace s |}
       | FErr e => inr (FailIo o e, {| s_fs := s_fs s; s_n := S (s_n s); s_trace := o :: s_trace s |})
       end.

Fixpoint do_ops (inj : inj_t) (os : list mop) (s : st) : st + (failure * st) :=
  match os with
  | [] => inl s
  | o :: os' => match do_op inj o s with inl s' => do_ops inj os' s' | inr f => inr f end
  end.

(* a UTF-8 validity check (fs::read_to_string fails on anything else) *)
Fixpoint utf8_ok (s : bytes) : bool :=
  match s with
  | [] => true
  | c :: s1 =>
      if c <? 128 then utf8_ok s1
      else if (194 <=? c) && (c <=? 223) then
        match s1 with c1 :: s2 => is_cont c1 && utf8_ok s2 | _ => false end
      else if (224 <=? c) && (c <=? 239) then
        match s1 with
        | c1 :: c2 :: s3 =>
            is_cont c1 && is_cont c2 &&
            (if c =? 224 then 160 <=? c1 else true) && (if c =? 237 then c1 <=? 159 else true) && utf8_ok s3
        | _ => false
        end
      else if (240 <=? c) && (c <=? 244) then
        match s1 with
        | c1 :: c2 :: c3 :: s4 =>
            is_cont c1 && is_cont c2 && is_cont c3 &&
            (if c =? 240 then 144 <=? c1 else true) && (if c =? 244 then c1 <=? 143 else true) && utf8_ok s4
        | _ => false
        end
      else false
  end.

(* ---- content stage: one file ---- *)
Definition content_ops (p : path) (mode : N) (new : bytes) : list mop :=
  [MCreate (tmp_of p)] ++ (match new with [] => [] | _ => [MWrite (tmp_of p) new] end) ++
  [MChmod (tmp_of p) mode; MRename (tmp_of p) p].

Definition edit_file (inj : inj_t) (p : path) (es : list edit) (s : st) : st + (failure * st) :=
  match lookup (s_fs s) p with
  | Some (File mode c) =>
      if negb (utf8_ok c) then inr (FailRead p, s) else
      match apply_edits_rev c es with
      | Ok new => do_ops inj (content_ops p mode new) s
      | Mismatch => inr (FailMismatch p, s)
      | Panic => inr (FailPanic p, s)
      end
  | _ => inr (FailRead p, s)
  end.

Fixpoint content_stage (inj : inj_t) (files : list (path * list edit)) (s : st) : st + (failure * st) :=
  match files with
  | [] => inl s
  | (p, es) :: fs' =>
      match edit_file inj p es s with
      | inl s' => content_stage inj fs' s'
      | inr f => inr f
      end
  end.

(* ---- rename stage ---- *)
(* the comparator of `renames.sort_by` (stable): dirs first; dirs shallow first; files deep first *)
Definition ren_le (a b : aren) : bool :=
  match ar_dir a, ar_dir b with
  | true, false => true
  | false, true => false
  | true, true => Nat.leb (length (ar_path a)) (length (ar_path b))
  | false, false => Nat.leb (length (ar_path b)) (length (ar_path a))
  end.
Fixpoint ins_ren (r : aren) (l : list aren) : list aren :=
  match l with
  | [] => [r]
  | x :: l' => if negb (ren_le r x) then x :: ins_ren r l' else r :: l
  end.
(* stable insertion sort: elements are inserted from the right, and an element goes in front of
   everything that is not strictly smaller, so equal keys keep their plan order *)
Definition sort_renames (l : list aren) : list aren := fold_right ins_ren [] l.

(* the re-basing loop: every earlier (orig_from, adjusted_to) pair is tried in order, the last
   matching one wins *)
Definition adjust (performed : list (path * path)) (p : path) : path :=
  fold_left (fun acc pr => if path_prefix (fst pr) p then snd pr ++ skipn (length (fst pr)) p else acc)
            performed p.

Definition to_lower_bytes (s : bytes) := map to_lower s.
Definition case_only (a b : path) : bool :=
  path_eqb (map to_lower_bytes a) (map to_lower_bytes b) && negb (path_eqb a b).
Definition probe_name : name :=
  [46; 114; 101; 110; 97; 109; 105; 102; 121; 95; 99; 97; 115; 101; 95; 116; 101; 115; 116]. (* .renamify_case_test *)

(* perform_rename on a case-sensitive file system (the only kind available to the tie).
   The probe is only attempted when neither .renamify_case_test nor .RENAMIFY_CASE_TEST exists in the
   directory (is_case_insensitive_fs never touches an existing entry); the theorems that cover case-only
   renames assume the probe name free (RenameP2 G5 / rename_stage_fs), which is exactly that guard, and the
   occupied case is decided on the implementation by the direct oracle of C05. *)
Definition rename_ops (from to : path) : list mop :=
  (if case_only from to then [MCreate (parent from ++ [probe_name]); MUnlink (parent from ++ [probe_name])] else [])
  ++ [MRename from to].

(* [performed] = (original_from, adjusted_to) pairs used for re-basing and for the history entry;
   [executed] = (adjusted_from, adjusted_to) pairs as executed, used by rollback *)
Fixpoint rename_stage (inj : inj_t) (rs : list aren) (performed executed : list (path * path)) (s : st)
  : (st * list (path * path) * list (path * path)) + (failure * st * list (path * path) * list (path * path)) :=
  match rs with
  | [] => inl (s, performed, executed)
  | r :: rs' =>
      let from := adjust performed (ar_path r) in
      let to := adjust performed (ar_new r) in
      match do_ops inj (rename_ops from to) s with
      | inl s' => rename_stage inj rs' (performed ++ [(ar_path r, to)]) (executed ++ [(from, to)]) s'
      | inr (f, s') => inr (f, s', performed, executed)
      end
  end.

(* rollback: revert the executed renames in reverse order, errors are collected, not fatal *)
Fixpoint rollback (inj : inj_t) (rev_performed : list (path * path)) (s : st) : st :=
  match rev_performed with
  | [] => s
  | (from, to) :: rest =>
      match do_op inj (MRename to from) s with
      | inl s' => rollback inj rest s'
      | inr (_, s') => rollback inj rest s'
      end
  end.

Record result := { r_fs : fs; r_ok : bool; r_fail : option failure; r_trace : list mop;
                   r_performed : list (path * path) }.

(* the occupied-destination check at the top of apply_plan (case-sensitive file system: a
   destination that exists is never "the same entry" as a different source path) *)
Definition occupied (t : fs) (r : aren) : bool :=
  match ar_new r with
  | [] => false
  | _ => negb (path_eqb (ar_new r) (ar_path r)) && exists_ t (ar_new r)
  end.
Definition first_conflict (t : fs) (rs : list aren) : option aren := find (occupied t) rs.

(* every file with planned edits is read before any file is changed (the loop that fills files_to_edit in apply_plan):
   a file that is missing, not a regular file or not valid UTF-8 fails the apply while the tree is untouched *)
Definition readable (t : fs) (f : path) : bool :=
  match lookup t f with Some (File _ c) => utf8_ok c | _ => false end.
Definition first_unreadable (t : fs) (files : list (path * list edit)) : option path :=
  match find (fun fe => negb (readable t (fst fe))) files with Some fe => Some (fst fe) | None => None end.

(* apply_plan up to (not including) the backup / history tail *)
Definition apply_core (inj : inj_t) (p : aplan) (t : fs) : result :=
  let s0 := {| s_fs := t; s_n := 0; s_trace := [] |} in
  match first_conflict t (ap_renames p) with
  | Some r => {| r_fs := t; r_ok := false; r_fail := Some (FailConflict (ar_new r)); r_trace := [];
                 r_performed := [] |}
  | None =>
  match first_unreadable t (edits_by_file (ap_hunks p)) with
  | Some f => {| r_fs := t; r_ok := false; r_fail := Some (FailRead f); r_trace := []; r_performed := [] |}
  | None =>
  match content_stage inj (edits_by_file (ap_hunks p)) s0 with
  | inr (f, s) =>
      (* rollback(&mut state): nothing has been renamed yet *)
      {| r_fs := s_fs s; r_ok := false; r_fail := Some f; r_trace := rev (s_trace s); r_performed := [] |}
  | inl s1 =>
      match rename_stage inj (sort_renames (ap_renames p)) [] [] s1 with
      | inl (s2, perf, _) =>
          {| r_fs := s_fs s2; r_ok := true; r_fail := None; r_trace := rev (s_trace s2); r_performed := perf |}
      | inr (f, s2, perf, exe) =>
          let s3 := rollback inj (rev exe) s2 in
          {| r_fs := s_fs s3; r_ok := false; r_fail := Some f; r_trace := rev (s_trace s3); r_performed := perf |}
      end
  end
  end
  end.

Definition no_fault : inj_t := fun _ => false.
Definition one_fault (k : nat) : inj_t := fun n => Nat.eqb n k.

(* ---- the reference meaning of a plan (what C02 says apply must produce) ---- *)
(* where a path ends up: every prefix of it that is the source of a rename gets its last
   component replaced by the rename's new last component *)
Definition new_name_of (rs : list aren) (prefix : path) : option name :=
  match find (fun r => path_eqb (ar_path r) prefix) rs with
  | Some r => Some (last (ar_new r) [])
  | None => None
  end.
Fixpoint final_from (rs : list aren) (done_ todo : path) : path :=
  match todo with
  | [] => []
  | c :: todo' =>
      let pre := done_ ++ [c] in
      (match new_name_of rs pre with Some n => n | None => c end) :: final_from rs pre todo'
  end.
Definition final_path (rs : list aren) (p : path) : path := final_from rs [] p.

Definition spec_content (hs : list ahunk) (p : path) (n : node) : node :=
  match n with
  | File m c =>
      match find (fun fe => path_eqb (fst fe) p) (edits_by_file hs) with
      | Some (_, es) => File m (spec_splice c (sort_edits es))   (* a plan is a set of positioned edits: listing order is irrelevant *)
      | None => n
      end
  | _ => n
  end.

Definition spec_apply (p : aplan) (t : fs) : fs :=
  map (fun e => (final_path (ap_renames p) (fst e), spec_content (ap_hunks p) (fst e) (snd e))) t.

(* ---- crash semantics: the process is killed before its k-th mutating operation; what is on disk
   is the result of the first k operations of the fault-free run (page cache intact) ---- *)
Fixpoint run_ops (os : list mop) (t : fs) : fs :=
  match os with
  | [] => t
  | o :: os' => match exec_mop o t with FOk t' => run_ops os' t' | FErr _ => t end
  end.
Definition crash_prefix (p : aplan) (t : fs) (k : nat) : fs :=
  run_ops (firstn k (r_trace (apply_core no_fault p t))) t.
