(* Model/StyleDef.v — the 14 naming styles (case_model.rs::Style, same constructor order). *)
Inductive style :=
| Snake | Kebab | Camel | Pascal | ScreamingSnake | Title | Train | ScreamingTrain
| Dot | LowerFlat | UpperFlat | Sentence | LowerSentence | UpperSentence.

Definition style_eqb (a b : style) : bool :=
  match a, b with
  | Snake, Snake | Kebab, Kebab | Camel, Camel | Pascal, Pascal | ScreamingSnake, ScreamingSnake
  | Title, Title | Train, Train | ScreamingTrain, ScreamingTrain | Dot, Dot | LowerFlat, LowerFlat
  | UpperFlat, UpperFlat | Sentence, Sentence | LowerSentence, LowerSentence
  | UpperSentence, UpperSentence => true
  | _, _ => false
  end.

Lemma style_eqb_eq a b : style_eqb a b = true <-> a = b.
Proof. destruct a, b; cbn; split; intro H; try reflexivity; try discriminate. Qed.

(* styles that keep word boundaries visible *)
Definition visible (s : style) : bool :=
  match s with LowerFlat | UpperFlat => false | _ => true end.
