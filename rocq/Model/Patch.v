(* Model/Patch.v — the text layer between apply.rs and diffy that C01 depends on:
   split_preserving_newlines, replace_patch_headers (header rewrite, with quote_for_patch), and the
   header part of diffy 0.4.2's parser (skip_header_preamble + patch_header + parse_filename with
   its quoted and unquoted branches).  The hunk body is opaque here
   (diffy's diff and apply are an oracle).  Executable, no proofs. *)
From Coq Require Import Strings.String.
From RN Require Export Base.Bytes Base.Str.

(* apply.rs::split_preserving_newlines *)
Fixpoint split_lines_aux (cur : bytes) (s : bytes) : list bytes :=
  match s with
  | [] => match cur with [] => [] | _ => [cur] end
  | c :: s' => if c =? 10 then (cur ++ [c]) :: split_lines_aux [] s' else split_lines_aux (cur ++ [c]) s'
  end.
Definition split_lines (s : bytes) : list bytes := split_lines_aux [] s.

Definition starts_with (p s : bytes) : bool := is_prefix p s.
Definition ends_with (p s : bytes) : bool := is_prefix (rev p) (rev s).

Definition line_ending (l : bytes) : bytes :=
  if ends_with [13; 10] l then [13; 10] else if ends_with [10] l then [10] else [].

Definition minus3 : bytes := bs "--- ".
Definition plus3 : bytes := bs "+++ ".
Definition at2 : bytes := bs "@@".

(* ESCAPED_CHARS_BYTES (diffy) and the character set of quote_for_patch (apply.rs): tab, newline,
   NUL, CR, double quote and backslash.  They are rejected in an unquoted file name. *)
Definition bad_name_char (c : N) : bool :=
  (c =? 9) || (c =? 10) || (c =? 0) || (c =? 13) || (c =? 34) || (c =? 92).

(* apply.rs::replace_patch_headers, closure quote_for_patch: the escape written for one character
   of a name that has to be quoted (backslash then n, t, 0, r, double quote or backslash; anything else as it is) *)
Definition esc_char (c : N) : bytes :=
  if c =? 10 then [92; 110]
  else if c =? 9 then [92; 116]
  else if c =? 0 then [92; 48]
  else if c =? 13 then [92; 114]
  else if c =? 34 then [92; 34]
  else if c =? 92 then [92; 92]
  else [c].

(* quote_for_patch: a name with none of the six characters is written as it is; any other name is
   written in the quoted form of the unified diff format: a double quote, the escaped characters, a double quote *)
Definition quote_name (n : bytes) : bytes :=
  if existsb bad_name_char n then [34] ++ concat (map esc_char n) ++ [34] else n.

(* apply.rs::replace_patch_headers as repaired: only lines before the first hunk header are
   file-name headers, and the names are written through quote_for_patch *)
Fixpoint rewrite_lines (in_header : bool) (from to : bytes) (ls : list bytes) : list bytes :=
  match ls with
  | [] => []
  | l :: ls' =>
      let in_header' := if starts_with at2 l then false else in_header in
      (if in_header' && starts_with minus3 l then minus3 ++ quote_name from ++ line_ending l
       else if in_header' && starts_with plus3 l then plus3 ++ quote_name to ++ line_ending l
       else l) :: rewrite_lines in_header' from to ls'
  end.
Definition rewrite_headers (from to patch : bytes) : bytes :=
  concat (rewrite_lines true from to (split_lines patch)).

(* the historical behaviour, kept to state what was wrong: every line starting with "--- " /
   "+++ " is rewritten (first repair: only the header lines are), and the names are written bare
   (this variant also predates quote_for_patch, the second repair: a name with one of the six
   characters gave a header diffy rejects) *)
Definition rewrite_headers_old (from to patch : bytes) : bytes :=
  concat (map (fun l => if starts_with minus3 l then minus3 ++ from ++ line_ending l
                        else if starts_with plus3 l then plus3 ++ to ++ line_ending l else l)
              (split_lines patch)).

(* diffy parse.rs: skip_header_preamble, then patch_header consumes every leading "--- " / "+++ "
   line (at most one of each); what remains is handed to the hunk parser *)
Definition at3 : bytes := bs "@@ ".
Fixpoint skip_preamble (ls : list bytes) : list bytes :=
  match ls with
  | [] => []
  | l :: ls' => if starts_with minus3 l || starts_with plus3 l || starts_with at3 l then ls
                else skip_preamble ls'
  end.

(* parse_filename: the name runs up to the first tab, else up to the newline, which must be there *)
Fixpoint take_until (c : N) (s : bytes) : option bytes :=
  match s with
  | [] => None
  | x :: s' => if x =? c then Some [] else option_map (cons x) (take_until c s')
  end.

(* str::strip_suffix for a one-character pattern *)
Definition strip_last (c : N) (s : bytes) : option bytes :=
  match rev s with
  | x :: r => if x =? c then Some (rev r) else None
  | [] => None
  end.

(* is_quoted: strip_prefix of a double quote and then strip_suffix of a double quote on what is
   left, so a lone double quote is not a quoted name *)
Definition is_quoted (s : bytes) : option bytes :=
  match s with
  | c :: s' => if c =? 34 then strip_last 34 s' else None
  | [] => None
  end.

(* unescaped_filename: none of the six characters may occur *)
Definition unescaped_filename (n : bytes) : option bytes :=
  if existsb bad_name_char n then None else Some n.

(* escaped_filename: a backslash must be followed by one of n, t, 0, r, double quote, backslash; a raw one of the six
   characters (other than the backslash that starts an escape) is an error *)
Definition unesc_char (e : N) : option N :=
  if e =? 110 then Some 10
  else if e =? 116 then Some 9
  else if e =? 48 then Some 0
  else if e =? 114 then Some 13
  else if e =? 34 then Some 34
  else if e =? 92 then Some 92
  else None.
Fixpoint escaped_filename (s : bytes) : option bytes :=
  match s with
  | [] => Some []
  | c :: s' =>
      if c =? 92 then
        match s' with
        | [] => None                                        (* expected escaped character *)
        | e :: s'' =>
            match unesc_char e with
            | Some ch => option_map (cons ch) (escaped_filename s'')
            | None => None                                  (* invalid escaped character *)
            end
        end
      else if bad_name_char c then None                     (* invalid unescaped character *)
      else option_map (cons c) (escaped_filename s')
  end.

Definition parse_filename (rest : bytes) : option bytes :=
  let name := match take_until 9 rest with
              | Some n => Some n
              | None => take_until 10 rest
              end in
  match name with
  | None => None                                            (* filename unterminated *)
  | Some n =>
      match is_quoted n with
      | Some q => escaped_filename q
      | None => unescaped_filename n
      end
  end.

Fixpoint parse_header_lines (f1 f2 : option bytes) (ls : list bytes)
  : option (option bytes * option bytes * list bytes) :=
  match ls with
  | [] => Some (f1, f2, [])
  | l :: ls' =>
      if starts_with minus3 l then
        match f1 with
        | Some _ => None                                  (* multiple '---' lines *)
        | None => match parse_filename (skipn 4 l) with
                  | Some n => parse_header_lines (Some n) f2 ls'
                  | None => None
                  end
        end
      else if starts_with plus3 l then
        match f2 with
        | Some _ => None
        | None => match parse_filename (skipn 4 l) with
                  | Some n => parse_header_lines f1 (Some n) ls'
                  | None => None
                  end
        end
      else Some (f1, f2, ls)
  end.

(* the body (hunk lines) diffy sees, or None when the header does not parse *)
Definition diffy_body (patch : bytes) : option (list bytes) :=
  match parse_header_lines None None (skip_preamble (split_lines patch)) with
  | Some (_, _, body) => Some body
  | None => None
  end.

(* what diffy::Patch::to_string produces: two generic header lines, then hunks; every hunk
   starts with a line beginning "@@ " and every other body line begins with ' ', '-', '+' or '\' *)
Definition generic_header : bytes := bs "--- original" ++ [10] ++ bs "+++ modified" ++ [10].
Definition render (body : list bytes) : bytes := generic_header ++ concat body.

Definition body_line_ok (l : bytes) : bool :=
  match l with
  | c :: _ => ((c =? 32) || (c =? 45) || (c =? 43) || (c =? 92) || (c =? 64)) && ends_with [10] l
  | [] => false
  end.
Definition body_ok (body : list bytes) : bool :=
  match body with
  | [] => true
  | l :: _ => starts_with at3 l && forallb body_line_ok body &&
              forallb (fun l => negb (existsb (N.eqb 10) (removelast l))) body
  end.

(* the names that are written bare (and were the only ones the historical rewrite handled) *)
Definition name_ok (n : bytes) : bool :=
  negb (existsb bad_name_char n) && match n with 34 :: _ => false | _ => true end.
