(* Model/SerdeAttr.v — the vocabulary the serde translator speaks (GenSerde.v imports this). *)
From RN Require Export Base.Bytes.

Inductive skipk := SkNever | SkStrEmpty | SkOptNone | SkPathEmpty | SkVecEmpty | SkOther.
Record fattr := { fa_name : bytes; fa_ty : bytes; fa_skip : skipk; fa_default : bool }.
