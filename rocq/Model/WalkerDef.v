(* Model/WalkerDef.v — vocabulary of the walker translator. *)
From RN Require Export Base.Bytes.
Record wcfg := {
  w_git_ignore : bool; w_git_global : bool; w_git_exclude : bool; w_ignore : bool; w_parents : bool;
  w_skip_hidden : bool;                 (* WalkBuilder::hidden(true) would skip dot files *)
  w_custom : list bytes;                (* add_custom_ignore_filename *)
  w_excluded : list bytes }.            (* names rejected by filter_entry (whole subtree) *)
