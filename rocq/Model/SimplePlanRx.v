(* Model/SimplePlanRx.v — the planner behind `renamify replace` in its DEFAULT mode: scanner.rs::create_simple_plan /
   process_file_content with is_regex = true.  The regex crate is an ORACLE.  Executable, no proofs
   (Proofs/SimplePlanRxP.v).  Everything that is not regex matching is Model/SimplePlan.v (binary / UTF-8 skip, str::lines,
   line_starts, the exclude predicate, stats).

   What the Rust code does in regex mode (scanner.rs, process_file_content, the `if is_regex` branch):
     * `search_regex = Regex::new(pattern)?` once in create_simple_plan (a pattern that does not compile is an error before
       any file is read; the EMPTY pattern is rejected before that, but a pattern that can match the empty string -- `x*` --
       is accepted);
     * per LINE (the `&str` that content.lines() yields: no '\n', no '\r' before it), not on the whole content:
       `for captures in regex.captures_iter(line)`; a match never spans a line break; `^` / `$` are line anchors in effect;
     * full_match = captures.get(0).unwrap(); start / end = its byte span IN THE LINE; matched_text = full_match.as_str();
     * the replacement text is NOT `captures.expand(..)` / `Regex::replace`: it is hand-made,
           let mut replacement_text = replacement.to_string();
           for i in 1..captures.len() {
               if let Some(cap) = captures.get(i) {
                   replacement_text = replacement_text.replace(&format!("${}", i), cap.as_str()); } }
       i.e. one `str::replace` per PARTICIPATING group, in ascending group order, each on the result of the one before.
       Consequences (all reproduced on the real planner, see the Examples of Proofs/SimplePlanRxP.v):
         `${1}`, `$name`, `$0`, `$$` are not understood (they stay as they are, except that `$1` inside `$10` is);
         `$10` is group 1 followed by "0" (group 10, if any, never sees its placeholder: `$1` is replaced first);
         a group that did not participate leaves its `$i` in the text (Regex::replace would put the empty string);
         text inserted for group i is scanned again for `$j`, j > i ("(\$2)(b)" on "$2b" with "<$1>" gives "<b>").
       The path renames of the same command (process_path_renames) DO use `Regex::replace_all`, so one replacement string
       is read in two different ways by one run of `renamify replace`.
     * every match is pushed, EMPTY ONES INCLUDED (`x*` on "axb" gives the hunks 0..0, 1..2, 3..3): nothing filters them.
     * hunk: line = line_num + 1, byte_offset = start, char_offset = byte_offset_to_char_offset(line, start),
       variant = the PATTERN, content = the MATCHED TEXT, replace = the expanded replacement, start / end = line_start + start /
       end, line_before = the line, line_after = line[..start] + replacement_text + line[end..].

   THE ORACLE.  [rx_caps line] = what `regex.captures_iter(line)` yields, in that order: for every match the span of group 0
   and, for the groups 1 .. captures.len()-1, their spans (None = did not participate).  The contract the proofs assume
   about it is [rx_caps_ok] below: what the regex crate documents for `&str` haystacks (matches inside the haystack,
   successive matches do not overlap, every span on character boundaries; EMPTY matches allowed).  Two further
   properties are stated apart and used only where a theorem says so: [rx_caps_nonempty] (false for `x*`) and
   [rx_caps_strict] (true of the crate).  From rx_caps the model derives [rx_find line] = the list of
   (start, end, expanded replacement), the interface the line loop works with. *)
From RN Require Export Model.SimplePlan.
From RN Require Import Model.ApplyModel.
From RN Require Model.JsonText.      (* uint_bytes: itoa *)
Open Scope N_scope.

(* ---- str::replace(from, to) for a NON-EMPTY `from`: the leftmost non-overlapping occurrences (match_indices), each replaced
   by `to`; the fuel is for Coq only, S (length s) is enough ---- *)
Fixpoint str_replace_fuel (fuel : nat) (from to s : bytes) : bytes :=
  match fuel with
  | O => s
  | S fuel' =>
      match find_sub from s with
      | None => s
      | Some pos => firstn pos s ++ to ++ str_replace_fuel fuel' from to (skipn (pos + length from) s)
      end
  end.
Definition str_replace (from to s : bytes) : bytes := str_replace_fuel (S (length s)) from to s.

(* format!("${}", i) *)
Definition placeholder (i : nat) : bytes := 36 :: JsonText.uint_bytes (Nat.to_uint i).

(* one regex::Captures: span of group 0, then groups 1.. *)
Definition span : Type := (nat * nat)%type.
Definition caps : Type := (nat * nat * list (option span))%type.

(* Match::as_str *)
Definition span_text (line : bytes) (g : span) : bytes := firstn (snd g - fst g) (skipn (fst g) line).

(* `for i in 1..captures.len() { if let Some(cap) = captures.get(i) { text = text.replace("$i", cap.as_str()) } }` *)
Fixpoint expand_loop (line : bytes) (i : nat) (groups : list (option span)) (text : bytes) : bytes :=
  match groups with
  | [] => text
  | g :: rest =>
      expand_loop line (S i) rest
        (match g with Some sp => str_replace (placeholder i) (span_text line sp) text | None => text end)
  end.
Definition expand (line : bytes) (groups : list (option span)) (replacement : bytes) : bytes :=
  expand_loop line 1 groups replacement.

(* the matches of one line as the loop body sees them: (start, end, replacement_text) *)
Definition rx_find_of_caps (rx_caps : bytes -> list caps) (replacement : bytes) (line : bytes) : list (nat * nat * bytes) :=
  map (fun m : caps => let '(s, e, groups) := m in (s, e, expand line groups replacement)) (rx_caps line).

(* an oracle given as DATA: a table line -> captures (differential tests, Examples); a line that is not in the table
   has no match *)
Definition caps_of_table (tbl : list (bytes * list caps)) (line : bytes) : list caps :=
  match find (fun kv => beq line (fst kv)) tbl with Some kv => snd kv | None => [] end.

(* a hunk of the plan: MatchHunk.variant beside the positional record shared with the other planners *)
Record rxhunk := { rx_variant : bytes; rx_fh : fhunk }.

Section SimplePlanRx.
Variable line_excluded : bytes -> bool.                         (* exclude_lines_regex.is_match(line) *)
Variable rx_find : bytes -> list (nat * nat * bytes).           (* captures_iter(line) + the expansion, see above *)
Variable pattern : bytes.

(* the body of `for captures in regex.captures_iter(line)` *)
Definition rx_hunk (line_num line_start : nat) (line : bytes) (m : nat * nat * bytes) : rxhunk :=
  let '(start, stop, replacement_text) := m in
  {| rx_variant := pattern;
     rx_fh :=
       {| fh_line := S line_num;
          fh_col := start;
          fh_char := char_count (firstn start line);
          fh_start := (line_start + start)%nat;
          fh_end := (line_start + stop)%nat;
          fh_content := firstn (stop - start) (skipn start line);            (* full_match.as_str() *)
          fh_replace := replacement_text;
          fh_before := Some line;
          fh_after := Some (firstn start line ++ replacement_text ++ skipn stop line) |} |}.

(* `for (line_num, line) in lines.iter().enumerate()` *)
Fixpoint lines_loop_rx (line_starts : list nat) (line_num : nat) (lines : list bytes) : list rxhunk :=
  match lines with
  | [] => []
  | line :: rest =>
      let line_start := nth line_num line_starts O in
      (if line_excluded line then [] else map (rx_hunk line_num line_start line) (rx_find line))
      ++ lines_loop_rx line_starts (S line_num) rest
  end.

Definition scan_text_rx (t : bytes) : list rxhunk :=
  lines_loop_rx (line_starts_from 0 (split_incl t)) 0 (str_lines t).

(* process_file_content(.., is_regex = true, ..) -> (file_matches, has_matches) *)
Definition process_file_content_rx (bat : bool) (c : bytes) : list rxhunk * bool :=
  if negb bat && is_binary c then ([], false)
  else if negb (utf8_ok c) then ([], false)
  else let hs := scan_text_rx c in (hs, match hs with [] => false | _ => true end).

(* create_simple_plan(.., is_regex = true): None = the empty-pattern error.  (`Regex::new(pattern)?` failing is the other
   error; a pattern the oracle stands for is one that compiled.) *)
Definition create_simple_plan_rx (bat : bool) (files : list bytes) : option (list (list rxhunk) * sstats) :=
  match pattern with
  | [] => None
  | _ =>
      let rs := map (process_file_content_rx bat) files in
      let all_matches := concat (map fst rs) in
      Some (map fst rs,
            {| st_files_scanned := length files;
               st_total := length all_matches;
               st_by_variant := [(pattern, length all_matches)];
               st_files_with := length (filter snd rs) |})
  end.

End SimplePlanRx.

(* the function of the code: the oracle is captures_iter, the expansion is the code's own *)
Definition process_file_content_regex (line_excluded : bytes -> bool) (rx_caps : bytes -> list caps)
    (pattern replacement : bytes) : bool -> bytes -> list rxhunk * bool :=
  process_file_content_rx line_excluded (rx_find_of_caps rx_caps replacement) pattern.
Definition create_simple_plan_regex (line_excluded : bytes -> bool) (rx_caps : bytes -> list caps)
    (pattern replacement : bytes) : bool -> list bytes -> option (list (list rxhunk) * sstats) :=
  create_simple_plan_rx line_excluded (rx_find_of_caps rx_caps replacement) pattern.

(* ------------------------------------------------------------------------------------------------------------------ *)
(* THE CONTRACT of the oracle: what the regex crate documents for Regex::captures_iter on a `&str` haystack.            *)
(* Only lines that are valid UTF-8 are ever asked about (a `&str`).                                                     *)
(* ------------------------------------------------------------------------------------------------------------------ *)

(* successive matches do not overlap and lie inside the haystack: pos <= start <= end <= len, next from end.
   EMPTY matches are allowed (start = end), as the crate yields them. *)
Fixpoint spans_chain (pos len : nat) (l : list span) : Prop :=
  match l with
  | [] => True
  | (s, e) :: l' => (pos <= s /\ s <= e /\ e <= len)%nat /\ spans_chain e len l'
  end.

(* the contract at the level of the line loop (start, end, text) *)
Record rx_find_ok (rx_find : bytes -> list (nat * nat * bytes)) : Prop := {
  rf_chain : forall line, utf8_ok line = true -> spans_chain 0 (length line) (map fst (rx_find line));
  rf_bound : forall line s e r, utf8_ok line = true -> In (s, e, r) (rx_find line) ->
             char_boundary line s = true /\ char_boundary line e = true }.

(* the contract at the level of the crate *)
Record rx_caps_ok (rx_caps : bytes -> list caps) : Prop := {
  rc_chain : forall line, utf8_ok line = true -> spans_chain 0 (length line) (map fst (rx_caps line));
  rc_bound : forall line s e gs, utf8_ok line = true -> In (s, e, gs) (rx_caps line) ->
             char_boundary line s = true /\ char_boundary line e = true;
  rc_groups : forall line s e gs a b, utf8_ok line = true -> In (s, e, gs) (rx_caps line) -> In (Some (a, b)) gs ->
             (a <= b /\ b <= length line)%nat /\ char_boundary line a = true /\ char_boundary line b = true }.

(* NOT part of the contract (the crate yields empty matches for `x*`, `^`, `\b`, ...); the clauses that need it say so *)
Definition rx_find_nonempty (rx_find : bytes -> list (nat * nat * bytes)) : Prop :=
  forall line s e r, utf8_ok line = true -> In (s, e, r) (rx_find line) -> (s < e)%nat.
Definition rx_caps_nonempty (rx_caps : bytes -> list caps) : Prop :=
  forall line s e gs, utf8_ok line = true -> In (s, e, gs) (rx_caps line) -> (s < e)%nat.

(* Also documented for the crate's iterators, and NOT implied by the chain when matches may be empty: a match never
   starts where the one before it started (an empty match is not reported twice at one place, nor followed by another
   match at the same place) -- successive starts strictly increase.  With non-empty matches this follows from the chain.
   Needed only for the diff preview of several hunks on one line when some of them are empty. *)
Fixpoint spans_strict (pos : nat) (l : list span) : Prop :=
  match l with
  | [] => True
  | (s, _) :: l' => (pos <= s)%nat /\ spans_strict (S s) l'
  end.
Definition rx_find_strict (rx_find : bytes -> list (nat * nat * bytes)) : Prop :=
  forall line, utf8_ok line = true -> spans_strict 0 (map fst (rx_find line)).
Definition rx_caps_strict (rx_caps : bytes -> list caps) : Prop :=
  forall line, utf8_ok line = true -> spans_strict 0 (map fst (rx_caps line)).
