(* Model/PathName.v — the new NAME of a walked entry: rename.rs::determine_filename_replacement
   (lines 37-90) and the new-name part of plan_renames_with_conflicts_and_params (lines 222-276), for
   the branch the scanner uses (search and replace both non-empty; scan_repository_multi passes them
   through plan_renames_with_search).  This is the `namefn` parameter of Model/Renames.v::plan_listing.
   Executable Gallina, no proofs (they are in Proofs/PathNameP.v).

   [vm]  : the mapping (`variant_map.to_btree_map()`), an association list sorted by key in byte
           order — BTreeMap iteration order; `mapping.keys().find(|k| name.contains(k))` is the first
           entry whose key is a substring of the name.
   [acr] : the DEFAULT acronym table (is_ambiguous, parse_to_tokens, to_style and coercion.rs are called
           without the user's acronym options here).
   [resolve_name] : ORACLE for AmbiguityResolver::resolve_with_styles(variant, replace, ctx, ..).style with
           the all-None context of line 68-74.
   ASCII domain: to_string_lossy is the identity; str::contains / str::replace are Renames.contains /
   Renames.replace_all (every non-overlapping occurrence, left to right). *)
From RN Require Import Base.Bytes Model.StyleDef Model.CaseModel Model.Constraints Gen.GenStyles.
From RN Require Import Model.Coercion Model.Renames.
Open Scope bool_scope.

Section PathName.
Variable acr : acr_tab.
Variable resolve_name : bytes -> bytes -> style.     (* matching variant, replace *)
Variable coerce_auto : bool.                          (* coerce_separators == CoercionMode::Auto *)
Variable vm : amap.
Variable repl : bytes.                                (* the user's replacement term *)

(* mapping.keys().find(|old_variant| file_name.contains(old_variant)) with its value *)
Definition first_key (nm : bytes) : option (bytes * bytes) :=
  find (fun kv => contains (fst kv) nm) vm.

(* determine_filename_replacement, given the matching variant and mapping.get(variant) *)
Definition filename_replacement (nm k v : bytes) : bytes :=
  if is_ambiguous acr k gen_all_styles
  then replace_all (S (length nm)) k (to_style acr (tokens acr repl) (resolve_name k repl)) nm
  else replace_all (S (length nm)) k v nm.

(* lines 229-256: (new_name, coercion_applied.is_some()); coercion is asked about the TABLE's pair
   (old_variant, new_variant), also when the variant is ambiguous *)
Definition path_new_name_full (nm : bytes) : option (bytes * bool) :=
  match first_key nm with
  | None => None
  | Some (k, v) =>
      let base := filename_replacement nm k v in
      if coerce_auto then
        match co_apply_coercion acr nm k v with
        | Some (r, _, _) => Some (r, true)
        | None => Some (base, false)
        end
      else Some (base, false)
  end.

(* the name function of Renames.plan_listing (which drops the entry when the name is unchanged,
   line 258) *)
Definition path_new_name (nm : bytes) : option bytes := option_map fst (path_new_name_full nm).

End PathName.
