(* Model/HunkTail.v — the tail of scanner.rs::generate_hunks (lines 706-902): what happens to ONE
   match after matching, plus extract_immediate_context (lines 905-944) and
   ambiguity::is_ambiguous (ambiguity/mod.rs 14-17 = Constraints.is_ambiguous over all 14 styles).
   Executable Gallina only, no proofs (they are in Proofs/HunkTailP.v).

   Domain: ASCII content (every byte < 128).  There String::from_utf8_lossy is the identity,
   chars are bytes (so the byte/char index conversions of extract_immediate_context are the
   identity, and char::is_alphanumeric is is_alnum), `str::get(col..)` only fails when col > len,
   and `first.to_uppercase()` is to_upper.  `u32::try_from(column)` is taken as the identity
   (columns below 2^32).  The fields file, char_offset, original_file, renamed_file, patch_hash
   are dropped; `coercion_applied : Option<String>` is kept as a flag (is_some).

   Not modelled, and therefore ORACLES (Section variables):
     resolve            AmbiguityResolver::resolve_with_styles(..).style, as called at lines 778-783
                        (the heuristics read the file path, the file content, the line and the column)
     coercion_fires     coercion::apply_coercion(context, content, replace).is_some()   (line 819)
     coerce_variant     apply_coercion_to_variant(context, content, replace)            (line 822)
     compound_note      detect_compound_coercion(context, content, replace).is_some()   (line 809)
     line_excluded      `exclude_matching_lines` regex .is_match(line); instantiate with
                        [fun _ => false] when the option is absent (or the pattern does not compile:
                        `Regex::new(pattern).ok()`)
   [acr] is the acronym table generate_hunks itself reads: is_ambiguous, parse_to_tokens and to_style
   are called WITHOUT the user's acronym options, i.e. with the default table (Gen.GenAcronyms).
   [vm] is the variant table reduced to contains_key / get (CaseModel.vmap_to_amap of the scanner's
   multi-valued table: get = the Snake entry if there are several, else the first). *)
From RN Require Import Base.Bytes Model.StyleDef Model.CaseModel Model.Constraints.
From RN Require Import Gen.GenStyles.
From RN Require Import Model.Enhanced.
Open Scope bool_scope.

(* ---- bstr::ByteSlice::lines_with_terminator: split after every '\n'; no empty last line ---- *)
Fixpoint lines_wt (s : bytes) : list bytes :=
  match s with
  | [] => []
  | c :: s' =>
      if c =? 10 then [c] :: lines_wt s'
      else match lines_wt s' with
           | l :: ls => (c :: l) :: ls
           | [] => [[c]]
           end
  end.

(* ---- str::find(&str): byte offset of the first occurrence ("" is found at 0) ---- *)
Fixpoint find_sub (pat s : bytes) {struct s} : option nat :=
  if is_prefix pat s then Some O
  else match s with
       | [] => None
       | _ :: s' => option_map S (find_sub pat s')
       end.

(* ---- extract_immediate_context (ASCII): c.is_alphanumeric() || c == '_' || c == '-' ---- *)
Definition is_ident_char (c : N) : bool := is_alnum c || (c =? 95) || (c =? 45).

(* both loops only move outwards from [a, b): the result always contains line[a..b] *)
Definition extract_immediate_context (line : bytes) (a b : nat) : bytes :=
  let l := run is_ident_char (rev (firstn a line)) in
  let r := run is_ident_char (skipn b line) in
  firstn ((b + r) - (a - l)) (skipn (a - l) line).

(* ---- lines 832-848: content starts with an ASCII upper-case letter and replace with an ASCII
        lower-case letter: upper-case the first letter of replace ---- *)
Definition first_letter_fix (content replace : bytes) : bytes :=
  match content, replace with
  | c :: _, r :: rest => if is_upper c && is_lower r then to_upper r :: rest else replace
  | _, _ => replace
  end.

Definition mem (x : bytes) (l : list bytes) : bool := existsb (beq x) l.

(* coercion::extract_prefix / the strip_prefix chain of apply_coercion_to_variant: "__" first, then "_" *)
Definition strip_us_prefix (s : bytes) : bytes :=
  match s with
  | a :: s1 =>
      if a =? 95 then match s1 with b :: s2 => if b =? 95 then s2 else s1 | [] => s1 end
      else s
  | [] => s
  end.

(* `line.get(col..).is_some_and(|rest| rest.starts_with(content))`: the line has [content] at byte
   column [col] (ASCII: get only fails when col > len) *)
Definition has_at (line content : bytes) (col : nat) : bool :=
  Nat.leb col (length line) && is_prefix content (skipn col line).

(* `own_column.or_else(|| line.find(content))`: the match's own column when the line has the content
   there, else the first occurrence (the fixed code; before the fix it was line.find(content) alone,
   which handed the context of an EARLIER occurrence on the line to the coercion oracles) *)
Definition match_pos (line content : bytes) (col : nat) : option nat :=
  if has_at line content col then Some col else find_sub content line.

(* the options generate_hunks reads *)
Record hopts := {
  o_ignore_ambiguous : bool;
  o_exclude_match : list bytes;
  o_coerce_auto : bool              (* coerce_separators == CoercionMode::Auto *)
}.

(* MatchHunk, reduced *)
Record thunk := {
  t_line : nat;                     (* line: m.line *)
  t_col : nat;                      (* byte_offset: m.column *)
  t_start : nat; t_end : nat;       (* m.start, m.end *)
  t_variant : bytes;                (* m.variant *)
  t_content : bytes;
  t_replace : bytes;
  t_before : bytes;                 (* line_before = Some(line) *)
  t_after : bytes;                  (* line_after = Some(..) *)
  t_note : bool                     (* coercion_applied.is_some() *)
}.

(* what is known about one match before the coercion oracles are consulted (lines 732-803) *)
Record hpre := {
  p_line : bytes;                   (* lines[line_idx] *)
  p_compound : bool;                (* !variant_map.contains_key(&m.variant) *)
  p_replace : bytes;                (* `replace` after the three-way choice *)
  p_ctx : option bytes              (* Auto mode and a position for the content was found: the context *)
}.

Section Tail.
Variable acr : acr_tab.
Variable resolve : bytes -> bytes -> bytes -> bytes -> nat -> style.
        (* variant, original_replacement, file content, line, column *)
Variable coercion_fires : bytes -> bytes -> bytes -> bool.            (* context, content, replace *)
Variable coerce_variant : bytes -> bytes -> bytes -> option bytes.    (* context, content, replace *)
Variable compound_note : bytes -> bytes -> bytes -> bool.             (* context, content, replace *)
Variable line_excluded : bytes -> bool.

Variable o : hopts.
Variable vm : amap.                 (* variant_map *)
Variable c : bytes.                 (* file content *)
Variable repl : bytes.              (* original_replacement *)

(* ambiguity::is_ambiguous(text, &Style::all_styles()) *)
Definition ambiguous_all (text : bytes) : bool := is_ambiguous acr text gen_all_styles.

(* lines 732-803: the filters, the three-way choice of (content, replace) — content is m.variant in
   all three branches — and the context for coercion, taken at the match's own column when the line
   has the content there (the same test line_after uses), else at the first occurrence *)
Definition hunk_pre (m : ematch) : option hpre :=
  if o_ignore_ambiguous o && ambiguous_all (e_variant m) then None
  else if mem (e_variant m) (o_exclude_match o) || mem (e_text m) (o_exclude_match o) then None
  else
    match nth_error (lines_wt c) (e_line m - 1) with        (* saturating_sub(1); >= lines.len() *)
    | None => None
    | Some line =>
        if line_excluded line then None
        else
          let content := e_variant m in
          let '(compound, replace) :=
            match amap_get content vm with
            | None => (true, e_text m)                                        (* compound match *)
            | Some v =>
                if ambiguous_all content
                then (false, to_style acr (tokens acr repl) (resolve content repl c line (e_col m)))
                else (false, v)                                               (* exact match *)
            end in
          let ctx :=
            if o_coerce_auto o then
              match match_pos line content (e_col m) with
              | Some pos => Some (extract_immediate_context line pos (pos + length content))
              | None => None
              end
            else None in
          Some {| p_line := line; p_compound := compound; p_replace := replace; p_ctx := ctx |}
    end.

(* lines 805-829: coercion.  Compound: only the note.  Exact: both oracles must answer Some. *)
Definition coerce_step (content : bytes) (p : hpre) : bytes * bool :=
  match p_ctx p with
  | None => (p_replace p, false)
  | Some ctx =>
      if p_compound p then (p_replace p, compound_note ctx content (p_replace p))
      else if coercion_fires ctx content (p_replace p) then
        match coerce_variant ctx content (p_replace p) with
        | Some r => (r, true)
        | None => (p_replace p, false)
        end
      else (p_replace p, false)
  end.

(* lines 850-877 *)
Definition line_after_of (line content replace : bytes) (col : nat) : bytes :=
  if has_at line content col then
    firstn col line ++ replace ++ skipn (col + length content) line
  else
    match find_sub content line with
    | Some pos => firstn pos line ++ replace ++ skipn (pos + length content) line
    | None => line
    end.

Definition hunk_post (m : ematch) (p : hpre) : thunk :=
  let content := e_variant m in
  let '(replace1, note) := coerce_step content p in
  let replace := first_letter_fix content replace1 in
  {| t_line := e_line m; t_col := e_col m; t_start := Enhanced.e_start m; t_end := e_end m;
     t_variant := e_variant m; t_content := content; t_replace := replace;
     t_before := p_line p; t_after := line_after_of (p_line p) content replace (e_col m);
     t_note := note |}.

(* one iteration of the `for m in matches` loop: None = `continue` *)
Definition hunk_of_match (m : ematch) : option thunk := option_map (hunk_post m) (hunk_pre m).

(* generate_hunks: the hunks of the matches that are not filtered, in the order of the matches *)
Definition generate_hunks (ms : list ematch) : list thunk :=
  flat_map (fun m => match hunk_of_match m with Some h => [h] | None => [] end) ms.

End Tail.
