(* Model/Clap.v — the part of clap's parsing semantics the renamify CLI relies on: subcommand selection,
   long options with separate or `=` values, short flags (clusters, counting), value_enum with value_delimiter,
   ordered positionals (required / optional / variadic), global arguments, conflicts, `--`.
   The grammar is Gen/GenCli.v, dumped from the real Command.  Executable, no proofs. *)
From RN Require Export Base.Bytes Model.ClapDef.

Inductive perr :=
| EUnknownSubcommand | EUnknownArgument (t : bytes) | EMissingValue (id : bytes) | EInvalidValue (id : bytes) (v : bytes)
| EUnexpectedValue (id : bytes) | ETooManyPositionals (t : bytes) | EMissingRequired (id : bytes)
| EConflict (a b : bytes) | EUsedTwice (id : bytes).

Inductive pres := POk (seen : list bytes) | PErr (e : perr).

Definition find_long (args : list aspec) (name : bytes) : option aspec :=
  find (fun a => match a_long a with Some l => beq l name | None => false end) args.
Definition find_short (args : list aspec) (c : N) : option aspec :=
  find (fun a => match a_short a with Some s => s =? c | None => false end) args.

Definition takes_value (a : aspec) : bool := match a_action a with ASet | AAppend => true | _ => false end.

Fixpoint split_on_byte (d : N) (s : bytes) : list bytes :=
  match s with
  | [] => [[]]
  | c :: s' => if c =? d then [] :: split_on_byte d s'
               else match split_on_byte d s' with w :: ws => (c :: w) :: ws | [] => [[c]] end
  end.

Definition is_digit (c : N) : bool := (48 <=? c) && (c <=? 57).
Definition kind_ok (k : vkind) (v : bytes) : bool :=
  match k with
  | VAny => true
  | VPath => negb (Nat.eqb (length v) 0)
  | VNum => negb (Nat.eqb (length v) 0) && forallb is_digit v
  end.

Definition value_ok (a : aspec) (v : bytes) : bool :=
  match a_possible a with
  | [] => kind_ok (a_vkind a) v
  | poss =>
      let parts := match a_delim a with Some d => split_on_byte d v | None => [v] end in
      forallb (fun p => existsb (beq p) poss) parts
  end.

Fixpoint split_eq (s : bytes) : bytes * option bytes :=
  match s with
  | [] => ([], None)
  | 61 :: rest => ([], Some rest)
  | c :: rest => let (n, v) := split_eq rest in (c :: n, v)
  end.

Definition starts_dash (t : bytes) : bool := match t with 45 :: _ :: _ => true | _ => false end.
Definition is_long (t : bytes) : bool := match t with 45 :: 45 :: _ :: _ => true | _ => false end.

(* single-occurrence options may not be given twice (clap: "cannot be used multiple times") *)
Definition repeatable (a : aspec) : bool := match a_action a with AAppend | ACount => true | _ => false end.

Definition positionals (args : list aspec) : list aspec := filter a_positional args.

(* parse the tokens after the subcommand name *)
Fixpoint parse_tokens (fuel : nat) (args : list aspec) (toks : list bytes) (npos : nat) (seen : list bytes)
         (only_pos : bool) : pres :=
  match fuel with
  | O => PErr (EUnknownArgument [])
  | S fuel' =>
    match toks with
    | [] => POk seen
    | t :: rest =>
      if negb only_pos && beq t [45; 45] then parse_tokens fuel' args rest npos seen true
      else if negb only_pos && is_long t then
        let (name, ev) := split_eq (skipn 2 t) in
        match find_long args name with
        | None => PErr (EUnknownArgument t)
        | Some a =>
            let twice := negb (repeatable a) && existsb (beq (a_id a)) seen in
            if takes_value a then
              (* clap: a missing value is reported while parsing, a repeated option next, invalid values last *)
              match ev with
              | Some v => if twice then PErr (EUsedTwice (a_id a))
                          else if value_ok a v then parse_tokens fuel' args rest npos (a_id a :: seen) only_pos
                          else PErr (EInvalidValue (a_id a) v)
              | None =>
                  match rest with
                  | v :: rest' =>
                      if starts_dash v then PErr (EMissingValue (a_id a))
                      else if twice then PErr (EUsedTwice (a_id a))
                      else if value_ok a v then parse_tokens fuel' args rest' npos (a_id a :: seen) only_pos
                      else PErr (EInvalidValue (a_id a) v)
                  | [] => PErr (EMissingValue (a_id a))
                  end
              end
            else
              match ev with
              | Some _ => PErr (EUnexpectedValue (a_id a))
              | None => if twice then PErr (EUsedTwice (a_id a))
                        else parse_tokens fuel' args rest npos (a_id a :: seen) only_pos
              end
        end
      else if negb only_pos && starts_dash t then
        (* short cluster: every letter must be a flag without value, or the last one takes the next token *)
        let fix cluster (cs : bytes) (seen : list bytes) : pres + (list bytes * option aspec) :=
            match cs with
            | [] => inr (seen, None)
            | c :: cs' =>
                match find_short args c with
                | None => inl (PErr (EUnknownArgument t))
                | Some a =>
                    if negb (repeatable a) && existsb (beq (a_id a)) seen then inl (PErr (EUsedTwice (a_id a))) else
                    if takes_value a then
                      match cs' with
                      | [] => inr (a_id a :: seen, Some a)
                      | _ => inr (a_id a :: seen, None)          (* -Cvalue: attached value *)
                      end
                    else cluster cs' (a_id a :: seen)
                end
            end in
        match cluster (skipn 1 t) seen with
        | inl e => e
        | inr (seen', None) => parse_tokens fuel' args rest npos seen' only_pos
        | inr (seen', Some a) =>
            match rest with
            | v :: rest' => if starts_dash v then PErr (EMissingValue (a_id a))
                            else parse_tokens fuel' args rest' npos seen' only_pos
            | [] => PErr (EMissingValue (a_id a))
            end
        end
      else
        (* positional *)
        let ps := positionals args in
        match nth_error ps npos with
        | Some a =>
            if value_ok a t then
              parse_tokens fuel' args rest (if a_multiple a then npos else S npos) (a_id a :: seen) only_pos
            else PErr (EInvalidValue (a_id a) t)
        | None => PErr (ETooManyPositionals t)
        end
    end
  end.

Definition check_required (args : list aspec) (seen : list bytes) : option perr :=
  match find (fun a => a_required a && negb (existsb (beq (a_id a)) seen)) args with
  | Some a => Some (EMissingRequired (a_id a))
  | None => None
  end.

Definition check_conflicts (cs : list (bytes * bytes)) (seen : list bytes) : option perr :=
  match find (fun ab => existsb (beq (fst ab)) seen && existsb (beq (snd ab)) seen) cs with
  | Some (a, b) => Some (EConflict a b)
  | None => None
  end.

(* --version / -V / --help / -h at the top level *)
Definition is_display (t : bytes) : bool :=
  beq t [45; 45; 118; 101; 114; 115; 105; 111; 110] || beq t [45; 86] || beq t [45; 45; 104; 101; 108; 112] || beq t [45; 104].

(* argv without the program name; global arguments may appear before or after the subcommand *)
Fixpoint skip_leading_globals (fuel : nat) (globals : list aspec) (argv : list bytes) (seen : list bytes)
  : (list bytes * list bytes) + perr :=
  match fuel with
  | O => inl (argv, seen)
  | S fuel' =>
      match argv with
      | t :: rest =>
          if is_display t then inl ([], [45; 45; 100] :: seen)      (* answered by clap itself: accepted *)
          else if beq t [45; 45] then
            (* `--` before the subcommand: the top level has no positional, whatever follows is unexpected *)
            match rest with
            | x :: _ => inr (ETooManyPositionals x)
            | [] => inl ([], seen)
            end
          else if starts_dash t then
            match parse_tokens 3 globals [t] 0 seen false with
            | POk s => skip_leading_globals fuel' globals rest s
            | PErr (EMissingValue id) =>
                match rest with
                | v :: rest' =>
                    match parse_tokens 3 globals [t; v] 0 seen false with
                    | POk s => skip_leading_globals fuel' globals rest' s
                    | PErr e => inr e
                    end
                | [] => inr (EMissingValue id)
                end
            | PErr e => inr e
            end
          else inl (argv, seen)
      | [] => inl (argv, seen)
      end
  end.

Definition accepts (globals : list aspec) (cmds : list cspec) (argv : list bytes) : pres :=
  match skip_leading_globals (S (length argv)) globals argv [] with
  | inr e => PErr e
  | inl (argv', gseen) =>
    match argv' with
    | [] => if existsb (beq [45; 45; 100]) gseen then POk gseen else PErr EUnknownSubcommand
    | sub :: toks =>
      match find (fun c => beq (c_name c) sub) cmds with
      | None => PErr EUnknownSubcommand
      | Some c =>
          let args := c_args c ++ filter a_global globals in
          (* the subcommand has its own matcher: a global flag given before the subcommand may be given again after it *)
          match parse_tokens (S (S (length toks))) args toks 0 [] false with
          | PErr e => PErr e
          | POk seen0 =>
              let seen := seen0 ++ gseen in
              match check_required args seen with
              | Some e => PErr e
              | None => match (match check_conflicts (c_conflicts c) seen0 with Some e => Some e
                                      | None => check_conflicts (c_conflicts c) gseen end) with
                        | Some e => PErr e
                        | None => POk seen
                        end
              end
          end
      end
    end
  end.

Definition is_ok (r : pres) : bool := match r with POk _ => true | PErr _ => false end.
