(* Model/Constraints.v — case_constraints.rs: can_match_style, filter_compatible_styles, is_ambiguous
   (ASCII; the table of per-style constraints is Gen/GenConstraints.v).  Executable, no proofs. *)
From RN Require Export Base.Bytes Model.StyleDef Model.ConstraintsDef Model.CaseModel.
From RN Require Import Gen.GenConstraints.
Open Scope bool_scope.

(* maximal prefix of bytes satisfying p, and the rest *)
Fixpoint span_b (p : N -> bool) (s : bytes) : bytes * bytes :=
  match s with
  | [] => ([], [])
  | c :: s' => if p c then let (a, b) := span_b p s' in (c :: a, b) else ([], s)
  end.

(* lengths len, len-1, ..., 2 *)
Fixpoint lens_down (len : nat) : list nat :=
  match len with
  | O | S O => []
  | S l' => len :: lens_down l'
  end.

(* has_consecutive_uppercase's loop: a run of >= 2 upper-case letters / digits starting at an upper-case
   letter is rejected unless one of its prefixes of length >= 2 is a known acronym *)
Fixpoint hcu_loop (fuel : nat) (acr : acr_tab) (s : bytes) : bool :=
  match fuel with
  | O => false
  | S fuel' =>
      match s with
      | [] => false
      | c :: s' =>
          if is_upper c then
            let (run, rest) := span_b (fun x => is_upper x || is_digit x) s in
            if Nat.leb 2 (length run) then
              if existsb (fun len => is_acronym acr (firstn len run)) (lens_down (length run))
              then hcu_loop fuel' acr rest else true
            else hcu_loop fuel' acr rest
          else hcu_loop fuel' acr s'
      end
  end.

Definition has_consecutive_uppercase (acr : acr_tab) (s : bytes) : bool :=
  if is_acronym acr s then false else hcu_loop (S (length s)) acr s.

Definition check_case (acr : acr_tab) (k : ccase) (s : bytes) : bool :=
  match s with
  | [] => false
  | c :: rest =>
      match k with
      | AllUpper => negb (existsb is_lower s)
      | AllLower => negb (existsb is_upper s)
      | TitlePat => is_upper c && forallb (fun x => is_lower x || negb (is_alpha x)) rest
      | CamelPat => is_lower c && negb (has_consecutive_uppercase acr s)
      | PascalPat => is_upper c && negb (has_consecutive_uppercase acr s)
      end
  end.

(* str::split(sep): "" -> [""], "a  b" -> ["a"; ""; "b"] *)
Fixpoint split_sep (d : N) (s : bytes) : list bytes :=
  match s with
  | [] => [[]]
  | c :: s' => if c =? d then [] :: split_sep d s'
               else match split_sep d s' with w :: ws => (c :: w) :: ws | [] => [[c]] end
  end.

Definition check_separators (s : bytes) (required : option N) : bool :=
  forallb (fun sep => match required with
                      | Some r => if sep =? r then true else negb (existsb (N.eqb sep) s)
                      | None => negb (existsb (N.eqb sep) s)
                      end) gen_separators.

Definition can_match_style (acr : acr_tab) (text : bytes) (S : style) : bool :=
  let (k, sep) := gen_constraints S in
  let case_ok :=
    match S, sep with
    | Title, Some d | Train, Some d => forallb (check_case acr TitlePat) (split_sep d text)
    | Sentence, Some d =>
        match split_sep d text with
        | w :: ws => check_case acr TitlePat w && forallb (check_case acr AllLower) ws
        | [] => false
        end
    | _, _ => check_case acr k text
    end in
  case_ok && check_separators text sep.

Definition filter_compatible (acr : acr_tab) (text : bytes) (styles : list style) : list style :=
  filter (can_match_style acr text) styles.
Definition is_ambiguous (acr : acr_tab) (text : bytes) (styles : list style) : bool :=
  Nat.ltb 1 (length (filter_compatible acr text styles)).
