(* Model/Compound.v — restatement of compound_matcher.rs::find_compound_variants
   (renamify-core/src/compound_matcher.rs lines 6-14, 32-44, 48-522).

   What is modelled: everything the function does on ASCII input, in source order: prefix
   extraction, the three tokenisations with the DEFAULT acronym table, the "identifier is the
   pattern" early return, the mixed-separator prefix shortcut (which ignores [styles] and the
   tokens altogether), the length / emptiness guards, the left-to-right window scan with in-place
   splice (all occurrences, non-overlapping, the scan resumes after the inserted tokens), the
   per-window style choice (single token: detect_style of the token; several tokens: Title /
   Pascal / detect_style of the identifier / detect_style of the concatenation; Train identifiers
   force Train), the per-style construction of the replacement tokens, the style inference for the
   whole identifier, the [styles] filter, the re-join with ONE separator chosen from the bytes of
   the identifier (so doubled separators collapse and mixed separators are normalised), the
   trailing-delimiter restoration and the prefix restoration.

   Simplifications: bytes are ASCII.  char::is_uppercase / is_lowercase / to_uppercase /
   to_lowercase are the ASCII versions (as in Model/CaseModel.v); `chars().nth(n)` is the n-th
   byte.  The RENAMIFY_DEBUG_COMPOUND printing is dropped.  No proofs here. *)
From RN Require Import Base.Bytes Model.StyleDef Model.CaseModel.
From RN Require Import Gen.GenAcronyms.

Record cmatch := mk_cmatch {
  cm_full : bytes;          (* full_identifier *)
  cm_repl : bytes;          (* replacement *)
  cm_style : style;         (* style *)
  cm_start : nat;           (* pattern_start *)
  cm_end : nat              (* pattern_end *)
}.

(* str::contains(char) / str::ends_with(char) *)
Definition contains (c : N) (s : bytes) : bool := existsb (N.eqb c) s.

Fixpoint ends_with (c : N) (s : bytes) : bool :=
  match s with
  | [] => false
  | [x] => x =? c
  | _ :: s' => ends_with c s'
  end.

(* extract_prefix: "__", else "_", else "" *)
Definition extract_prefix (s : bytes) : bytes * bytes :=
  match s with
  | c1 :: r1 =>
      if c1 =? 95 then
        match r1 with
        | c2 :: r2 => if c2 =? 95 then ([95; 95], r2) else ([95], r1)
        | [] => ([95], r1)
        end
      else ([], s)
  | [] => ([], s)
  end.

(* tokens_match: same length and pairwise equal after to_lowercase *)
Fixpoint tokens_match (a b : list bytes) : bool :=
  match a, b with
  | [], [] => true
  | x :: a', y :: b' => beq (lower x) (lower y) && tokens_match a' b'
  | _, _ => false
  end.

(* first char upper-cased, the rest of the text untouched (lines 245-248, 318-322) *)
Definition upcase_first (w : bytes) : bytes :=
  match w with [] => [] | c :: r => to_upper c :: r end.

Definition is_sep3 (c : N) : bool := (c =? 95) || (c =? 45) || (c =? 46).

Section WithAcr.
Variable acr : acr_tab.

(* matched_portion_style (lines 185-220); [ident] is the identifier WITH its prefix *)
Definition matched_style (ident idw : bytes) (window : list bytes) : option style :=
  match window with
  | [w] => detect_style acr w
  | _ =>
      let all_title := forallb is_title_word window in
      if all_title && contains 32 ident then Some Title
      else if all_title then Some Pascal
      else if forallb (forallb is_lower) window then detect_style acr idw
      else detect_style acr (concat window)
  end.

(* final_style (lines 224-231) *)
Definition final_style (ident idw : bytes) (window : list bytes) : option style :=
  match detect_style acr idw with
  | Some Train => Some Train
  | ids => match matched_style ident idw window with Some s => Some s | None => ids end
  end.

(* the None fallback (lines 306-329): copy the initial capital of the window token at the same
   index, when there is one *)
Fixpoint fallback (nt window : list bytes) : list bytes :=
  match nt with
  | [] => []
  | t :: nt' =>
      match window with
      | w :: window' => (if hd_is is_upper w then upcase_first t else t) :: fallback nt' window'
      | [] => nt
      end
  end.

(* new_tokens_styled (lines 235-329) *)
Definition style_new (nt window : list bytes) (fs : option style) : list bytes :=
  match fs with
  | Some Pascal => [concat (map upcase_first nt)]
  | Some Camel =>
      [match nt with [] => [] | t0 :: r => lower t0 ++ concat (map upcase_first r) end]
  | Some Train => split_on 45 (to_style acr nt Train)
  | Some Snake | Some Kebab => map lower nt
  | Some ScreamingSnake => map upper nt
  | Some s => [to_style acr nt s]
  | None => fallback nt window
  end.

(* The while loop (lines 174-343).  The loop walks [pos] over the (mutated) token vector; a match
   at [pos] splices the styled tokens in and jumps behind them, so tokens left of [pos] are never
   looked at again and the loop is a single left-to-right pass over the ORIGINAL tokens:
   [scan 0 l] processes the suffix [l] that starts at [pos]; after a match the next [plen - 1]
   original tokens are dropped ([skip]).  A window shorter than the pattern never matches
   (tokens_match compares lengths), which is the loop bound.  Second component: replacements_made. *)
Fixpoint scan (ident idw : bytes) (ot nt : list bytes) (skip : nat) (l : list bytes)
  : list bytes * nat :=
  match l with
  | [] => ([], O)
  | x :: l' =>
      match skip with
      | S k => scan ident idw ot nt k l'
      | O =>
          let window := firstn (length ot) l in
          if tokens_match window ot then
            let (r, n) := scan ident idw ot nt (length ot - 1) l' in
            (style_new nt window (final_style ident idw window) ++ r, S n)
          else
            let (r, n) := scan ident idw ot nt O l' in (x :: r, n)
      end
  end.

(* inferred_style (lines 356-386) *)
Definition inferred_style (idw : bytes) : option style :=
  match detect_style acr idw with
  | Some s => Some s
  | None =>
      if contains 45 idw && negb (contains 95 idw) && negb (contains 46 idw) then Some Kebab
      else if contains 95 idw && negb (contains 45 idw) && negb (contains 46 idw) then Some Snake
      else None
  end.

(* the re-join (lines 403-471) *)
Definition rejoin (idw : bytes) (rt : list bytes) (s : style) : bytes :=
  if contains 95 idw && contains 45 idw then
    match index_of 95 idw, index_of 45 idw with
    | Some u, Some h => if Nat.ltb u h then join [95] rt else join [45] rt
    | _, _ => join [45] rt
    end
  else if contains 45 idw then join [45] rt
  else if contains 95 idw then join [95] rt
  else if contains 46 idw then join [46] rt
  else if contains 32 idw then join [32] rt
  else match s with
       | Pascal | Camel => concat rt
       | _ => to_style acr rt s
       end.

(* trailing delimiter restoration (lines 475-481) *)
Definition restore_trailing (idw r : bytes) : bytes :=
  if ends_with 95 idw && negb (ends_with 95 r) then r ++ [95]
  else if ends_with 45 idw && negb (ends_with 45 r) then r ++ [45]
  else if ends_with 46 idw && negb (ends_with 46 r) then r ++ [46]
  else r.

Definition fcv (ident old new : bytes) (styles : list style) : list cmatch :=
  let (prefix, idw) := extract_prefix ident in
  let it := tokens acr idw in
  let ot := tokens acr old in
  let nt := tokens acr new in
  (* lines 83-87: the identifier IS the pattern *)
  if Nat.eqb (length it) (length ot) && tokens_match it ot then [] else
  (* lines 93-120: mixed separators and the identifier starts with the raw pattern + separator *)
  let mixed := (contains 95 idw && contains 45 idw) || (contains 95 idw && contains 46 idw)
               || (contains 45 idw && contains 46 idw) in
  if mixed && is_prefix old idw && Nat.ltb (length old) (length idw)
     && match nth_error idw (length old) with Some ch => is_sep3 ch | None => false end
  then [mk_cmatch ident (prefix ++ new ++ skipn (length old) idw) Snake 0 (length old)]
  else
  (* lines 126-128, 140-149, 152-167, 170-172 *)
  if Nat.ltb (length it) (length ot) then []
  else if Nat.eqb (length ot) 0 || Nat.eqb (length it) 0 then []
  else if Nat.eqb (length nt) 0 then []
  else
  let (rt, made) := scan ident idw ot nt 0 it in
  if Nat.eqb made 0 then []
  else
    match inferred_style idw with
    | None => []
    | Some s =>
        if existsb (style_eqb s) styles then
          [mk_cmatch ident (prefix ++ restore_trailing idw (rejoin idw rt s)) s 0 0]
        else []
    end.

End WithAcr.

(* the function as shipped: default acronym table *)
Definition find_compound_variants : bytes -> bytes -> bytes -> list style -> list cmatch :=
  fcv gen_acronyms.
