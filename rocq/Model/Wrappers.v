(* Model/Wrappers.v — the finite space of option records of a wrapper's args-builder (every subset of the
   optional fields x the representative values GenWrappers.v takes from the TypeScript types) and the
   acceptance of each built vector by the clap model.  Executable, no proofs. *)
From RN Require Export Base.Bytes Model.ClapDef Model.Clap.

Fixpoint all_opts (fields : list (bytes * bool * list fval)) : list opts :=
  match fields with
  | [] => [[]]
  | (k, optional, dom) :: fs =>
      let rest := all_opts fs in
      flat_map (fun v => map (fun o => (k, v) :: o) rest) ((if optional : bool then [FAbsent] else []) ++ dom)
  end.

Definition vector_ok (globals : list aspec) (cmds : list cspec) (argv : list bytes) : bool :=
  is_ok (accepts globals cmds argv).

Definition builder_ok (globals : list aspec) (cmds : list cspec) (b : opts -> list bytes)
           (fields : list (bytes * bool * list fval)) : bool :=
  forallb (fun o => vector_ok globals cmds (b o)) (all_opts fields).

(* first rejected option record of a builder, with the parser's verdict *)
Definition first_rejected (globals : list aspec) (cmds : list cspec) (b : opts -> list bytes)
           (fields : list (bytes * bool * list fval)) : option (opts * list bytes * pres) :=
  match find (fun o => negb (vector_ok globals cmds (b o))) (all_opts fields) with
  | Some o => Some (o, b o, accepts globals cmds (b o))
  | None => None
  end.

(* o is one of the enumerated records: every field bound to FAbsent (if optional) or to a domain value *)
Definition in_space (fields : list (bytes * bool * list fval)) (o : opts) : Prop := In o (all_opts fields).

(* ---- known findings (known_findings.json, property C20): the option records whose vector the CLI rejects
   on the pinned tree.  Written by hand; [C20_wrappers_accepted] is stated for every record outside it. ---- *)
From Coq Require Import String.
From RN Require Import Base.Str.
Open Scope bool_scope.

Definition known_class (name : bytes) (o : opts) : bool :=
  if beq name (bs "mcp_search") then
    has_len o (bs "styles") || truthy o (bs "dryRun") || is_false o (bs "renameFiles")
    || is_false o (bs "renameDirs") || truthy o (bs "atomicSearch")
  else if beq name (bs "mcp_plan") then has_len o (bs "styles")
  else if beq name (bs "mcp_apply") then truthy o (bs "planPath")
  else if beq name (bs "mcp_preview") then true
  else if beq name (bs "mcp_rename") then
    beq (fstr o (bs "preview")) (bs "json")
    || (has_len o (bs "onlyStyles") && (has_len o (bs "excludeStyles") || has_len o (bs "includeStyles")))
  else if beq name (bs "mcp_replace") then beq (fstr o (bs "preview")) (bs "json")
  else if beq name (bs "vsc_search") then is_false o (bs "renamePaths") || truthy o (bs "atomicSearch")
  else if beq name (bs "vsc_apply") then truthy o (bs "planId")
  else false.

Definition builder_ok_but_known (globals : list aspec) (cmds : list cspec)
           (b : bytes * (opts -> list bytes) * list (bytes * bool * list fval)) : bool :=
  match b with
  | (name, f, fields) =>
      forallb (fun o => known_class name o || vector_ok globals cmds (f o)) (all_opts fields)
  end.

(* the sweep is split into residue classes of the record index so that it can be checked in parallel *)
Fixpoint chunk_aux {A : Type} (n i k : nat) (l : list A) : list A :=
  match l with
  | [] => []
  | x :: l' => if Nat.eqb k i then x :: chunk_aux n i (S k mod n) l' else chunk_aux n i (S k mod n) l'
  end.
Definition chunk {A : Type} (n i : nat) (l : list A) : list A := chunk_aux n i 0 l.

Definition builder_chunk_ok (globals : list aspec) (cmds : list cspec) (n i : nat)
           (b : bytes * (opts -> list bytes) * list (bytes * bool * list fval)) : bool :=
  match b with
  | (name, f, fields) =>
      forallb (fun o => known_class name o || vector_ok globals cmds (f o)) (chunk n i (all_opts fields))
  end.
